(* C07.v — RankValues is a total preorder on every supported value type
   Statements only: every theorem is closed by [exact] of a lemma proved elsewhere, and its
   axioms are printed.  Generated once by tools/mkprop.py from the proved lemmas' statements. *)
From Verif Require Import Base Sorter Value SorterProofs Seq Coll SetProofs CollateProofs.

Theorem C07_rank_never_hangs :
  forall (M : nat) (a b : val), rank0 M a b <> OutOfFuel.
Proof. exact rank0_terminates. Qed.

Theorem C07_rank_is_a_pure_function_on_the_universe :
  forall (M f d : nat) (a b : val),
         wf0 a = true ->
         wf0 b = true ->
         nest a + d <= M -> nest b + d <= M -> fuel_for a b <= f -> rank M f d a b = R (prank a b).
Proof. exact rank_pure. Qed.

Theorem C07_rank_of_fresh_collator_is_pure :
  forall (M : nat) (a b : val),
         wf0 a = true -> wf0 b = true -> nest a <= M -> nest b <= M -> rank0 M a b = R (prank a b).
Proof. exact rank0_pure. Qed.

Theorem C07_rank_reflexive :
  forall (M : nat) (a : val), inU M a = true -> rank0 M a a = R Eq.
Proof. exact rank_refl. Qed.

Theorem C07_rank_mirror_image :
  forall (M : nat) (a b : val),
         inU M a = true -> inU M b = true -> rank0 M b a = flip_rank (rank0 M a b).
Proof. exact rank_antisym. Qed.

Theorem C07_rank_transitive :
  forall (M : nat) (a b c : val),
         inU M a = true ->
         inU M b = true ->
         inU M c = true -> rank0 M a b <> R Gt -> rank0 M b c <> R Gt -> rank0 M a c <> R Gt.
Proof. exact rank_trans. Qed.

Theorem C07_rank_strongly_transitive :
  forall (M : nat) (a b c : val),
         inU M a = true ->
         inU M b = true ->
         inU M c = true ->
         exists x y z : comparison,
           rank0 M a b = R x /\ rank0 M b c = R y /\ rank0 M a c = R z /\ ctr x y z.
Proof. exact rank_ctr. Qed.

Theorem C07_rank_total_preorder_for_sets_and_sorting :
  forall M : nat, SorterProofs.total_preorder (rkU M).
Proof. exact rank_total_preorder. Qed.

Theorem C07_equal_rank_interchangeable :
  forall (M : nat) (a a' c : val),
         inU M a = true ->
         inU M a' = true ->
         inU M c = true ->
         rank0 M a a' = R Eq -> rank0 M a c = rank0 M a' c /\ rank0 M c a = rank0 M c a'.
Proof. exact rank_congr. Qed.

Theorem C07_nil_equals_nil :
  forall M : nat, rank0 M VNil VNil = R Eq.
Proof. exact rank_nil_nil. Qed.

Theorem C07_nil_ranks_before_everything :
  forall (M : nat) (b : val), b <> VNil -> rank0 M VNil b = R Lt /\ rank0 M b VNil = R Gt.
Proof. exact rank_nil_first. Qed.

Theorem C07_bool_order :
  forall (M : nat) (x y : bool), rank0 M (VBool x) (VBool y) = R (rank_bool x y).
Proof. exact rank_bool_order. Qed.

Theorem C07_false_before_true :
  forall M : nat, rank0 M (VBool false) (VBool true) = R Lt.
Proof. exact rank_false_lt_true. Qed.

Theorem C07_signed_integer_order :
  forall (M : nat) (w w' x y : Z), rank0 M (VInt w x) (VInt w' y) = R (x ?= y)%Z.
Proof. exact rank_int_order. Qed.

Theorem C07_unsigned_integer_order :
  forall (M : nat) (w w' x y : Z), rank0 M (VUint w x) (VUint w' y) = R (x ?= y)%Z.
Proof. exact rank_uint_order. Qed.

Theorem C07_byte_order :
  forall (M : nat) (x y : Z), rank0 M (VByte x) (VByte y) = R (x ?= y)%Z.
Proof. exact rank_byte_order. Qed.

Theorem C07_rune_order :
  forall (M : nat) (x y : Z), rank0 M (VRune x) (VRune y) = R (x ?= y)%Z.
Proof. exact rank_rune_order. Qed.

Theorem C07_string_bytewise_order :
  forall (M : nat) (s t : list Z), rank0 M (VStr s) (VStr t) = R (lexZ s t).
Proof. exact rank_string_order. Qed.

Theorem C07_float_order :
  forall (M : nat) (w w' x y : Z),
         rank0 M (VFloat w x) (VFloat w' y) = R (f_ord x ?= f_ord y)%Z.
Proof. exact rank_float_order. Qed.

Theorem C07_nan_before_every_number :
  forall (M : nat) (w w' x y : Z),
         f_isnan x = true ->
         f_isnan y = false -> (0 <= y < 2 * two63)%Z -> rank0 M (VFloat w x) (VFloat w' y) = R Lt.
Proof. exact rank_nan_first. Qed.

Theorem C07_nan_equals_nan :
  forall (M : nat) (w w' x y : Z),
         f_isnan x = true -> f_isnan y = true -> rank0 M (VFloat w x) (VFloat w' y) = R Eq.
Proof. exact rank_nan_nan. Qed.

Theorem C07_complex_order_magnitude_phase_real_imag :
  forall (M : nat) (w w' r1 i1 a1 p1 r2 i2 a2 p2 : Z),
         rank0 M (VComplex w r1 i1 a1 p1) (VComplex w' r2 i2 a2 p2) =
         R (lexZ [f_ord a1; f_ord p1; f_ord r1; f_ord i1] [f_ord a2; f_ord p2; f_ord r2; f_ord i2]).
Proof. exact rank_complex_order. Qed.

Theorem C07_pointer_ranked_by_content :
  forall (M : nat) (i j x y : Z), rank0 M (VPtr i x) (VPtr j y) = R (x ?= y)%Z.
Proof. exact rank_pointer_order. Qed.

Theorem C07_sequence_lexicographic :
  forall (M : nat) (k : skind) (xs ys : list val),
         inU M (VSeq k xs) = true ->
         inU M (VSeq k ys) = true -> rank0 M (VSeq k xs) (VSeq k ys) = R (lex (rk0 M) xs ys).
Proof. exact rank_seq_lex. Qed.

Theorem C07_proper_prefix_first :
  forall (M : nat) (k : skind) (l1 : list val) (x : val) (l2 : list val),
         inU M (VSeq k (l1 ++ x :: l2)) = true -> rank0 M (VSeq k l1) (VSeq k (l1 ++ x :: l2)) = R Lt.
Proof. exact rank_prefix_lt. Qed.

Theorem C07_map_key_then_value_over_sorted_keys :
  forall (M : nat) (m : mkind) (ks vs ks' vs' : list val),
         is_map_kind m = true ->
         inU M (VMapping m ks vs) = true ->
         inU M (VMapping m ks' vs') = true ->
         rank0 M (VMapping m ks vs) (VMapping m ks' vs') =
         R (lex (pairr (rk0 M)) (sortk (zipkv ks vs)) (sortk (zipkv ks' vs'))).
Proof. exact rank_map_shape. Qed.

Theorem C07_map_insertion_order_irrelevant :
  forall (M : nat) (m : mkind) (ks vs ks' vs' : list val) (c : val),
         is_map_kind m = true ->
         kdistinctb ks = true ->
         Permutation.Permutation (zipkv ks vs) (zipkv ks' vs') ->
         inU M (VMapping m ks vs) = true ->
         inU M (VMapping m ks' vs') = true ->
         inU M c = true ->
         rank0 M (VMapping m ks vs) c = rank0 M (VMapping m ks' vs') c /\
         rank0 M c (VMapping m ks vs) = rank0 M c (VMapping m ks' vs').
Proof. exact rank_map_order_free. Qed.

Theorem C07_map_insertion_order_needs_distinct_keys_refuted :
  exists (M : nat) (m : mkind) (ks vs ks' vs' : list val),
           is_map_kind m = true /\
           Permutation.Permutation (zipkv ks vs) (zipkv ks' vs') /\
           inU M (VMapping m ks vs) = true /\
           inU M (VMapping m ks' vs') = true /\
           rank0 M (VMapping m ks vs) (VMapping m ks' vs') <> R Eq /\
           compare0 M (VMapping m ks vs) (VMapping m ks' vs') = R true.
Proof. exact rank_map_order_free_needs_distinct_keys_refuted. Qed.

Theorem C07_discharges_total_preorder_of_set_theorems :
  forall M : nat, total_preorder (U M) (rkU M).
Proof. exact rank_total_preorder_for_sets. Qed.

Theorem C07_sorting_with_collator_is_ordered_permutation :
  forall (M : nat) (l : list (U M)),
         Sorted.StronglySorted (not_gt (rkU M)) (sort_values (rkU M) l) /\
         Permutation.Permutation (sort_values (rkU M) l) l.
Proof. exact sort_with_collator_sorted. Qed.

Theorem C07_set_search_with_collator_finds_equal_member :
  forall (M : nat) (zero : U M) (l : list (U M)) (v : U M) (k : nat),
         StrictSorted (U M) (rkU M) l ->
         find_index zero (rkU M) l v = Ret (k, true) ->
         1 <= k <= length l /\ rkU M v (nth (k - 1) l zero) = Eq.
Proof. exact set_search_with_collator. Qed.

Theorem C07_result_independent_of_depth_history :
  forall (M M' f d : nat) (a b : val),
         inU M' a = true ->
         inU M' b = true ->
         nest a + d <= M -> nest b + d <= M -> fuel_for a b <= f -> rank M f d a b = rank0 M' a b.
Proof. exact rank_history_independent. Qed.

Theorem C07_calls_on_one_collator_independent :
  forall (M : nat) (before : list (val * val)) (c : val * val) (after : list (val * val)),
         nth (length before) (rank_calls M (before ++ c :: after)) OutOfFuel =
         rank0 M (fst c) (snd c).
Proof. exact rank_calls_independent. Qed.

(* ---- the hypotheses are satisfiable by concrete, non-trivial values ---- *)
Open Scope Z_scope.
Definition ex_map : val :=
  VMapping MGoMap [VStr [98]; VStr [97]; VInt 0 7; VPtr 1 5; VFloat 64 9221120237041090560]
                  [VSeq KList [VInt 0 1; VFloat 64 0]; VNil; VSeq KSet [VBool true]; VNilMap; VByte 3].
Definition ex_map_permuted : val :=
  VMapping MGoMap [VStr [97]; VStr [98]; VInt 0 7; VPtr 1 5; VFloat 64 9221120237041090560]
                  [VNil; VSeq KList [VInt 0 1; VFloat 64 0]; VSeq KSet [VBool true]; VNilMap; VByte 3].
Definition ex_deep : val :=
  VSeq KList [VMapping MMap [VInt 64 1; VInt 64 2] [VSeq KSlice [VStr [1; 2]; VNilSlice]; ex_map];
              VAssoc (VStr []) (VMapping MCatalog [VRune 3] [VComplex 128 0 0 0 0]);
              VSeq KQueue [VUint 16 65535; VNil]].

Example C07_ex_in_universe : inU 16%nat ex_deep = true /\ inU 16%nat ex_map = true /\ inU 16%nat ex_map_permuted = true.
Proof. repeat split; vm_compute; reflexivity. Qed.
Example C07_ex_nesting : nest ex_deep = 4%nat.
Proof. reflexivity. Qed.
Example C07_ex_universe_member : U 16%nat.
Proof. exists ex_deep. vm_compute. reflexivity. Defined.
Example C07_ex_keys_distinct :
  kdistinctb [VStr [98]; VStr [97]; VInt 0 7; VPtr 1 5; VFloat 64 9221120237041090560] = true.
Proof. vm_compute. reflexivity. Qed.
Example C07_ex_permutation :
  Permutation.Permutation
    (zipkv [VStr [98]; VStr [97]; VInt 0 7; VPtr 1 5; VFloat 64 9221120237041090560]
           [VSeq KList [VInt 0 1; VFloat 64 0]; VNil; VSeq KSet [VBool true]; VNilMap; VByte 3])
    (zipkv [VStr [97]; VStr [98]; VInt 0 7; VPtr 1 5; VFloat 64 9221120237041090560]
           [VNil; VSeq KList [VInt 0 1; VFloat 64 0]; VSeq KSet [VBool true]; VNilMap; VByte 3]).
Proof. simpl. apply Permutation.perm_swap. Qed.
Example C07_ex_model_agrees :
  rank0 16%nat ex_map ex_map_permuted = R Eq /\ rank0 16%nat ex_deep ex_map = R Lt /\
  rank0 16%nat ex_deep ex_deep = R Eq /\ rank0 3%nat ex_deep ex_deep = DepthPanic.
Proof. repeat split; vm_compute; reflexivity. Qed.
Example C07_ex_nan_is_a_nan : f_isnan 9221120237041090560 = true /\ f_isnan 0 = false.
Proof. split; vm_compute; reflexivity. Qed.

(* Keys that rank Equal without being the same Go map key, in two DIFFERENT operands (each map is in the universe
   on its own): pointer keys to equal pointees (VPtr id x: identity id, pointee x) and any-keys of different
   dynamic width.  The mirror law and transitivity above apply to them (inU), and the model ranks them Equal /
   by their values - what the real rankMaps does when it looks each value up under its map's OWN key. *)
Example C07_ex_rank_equal_keys_across_operands :
  let p1 := VMapping MGoMap [VPtr 1 1] [VStr [97]] in
  let p2 := VMapping MGoMap [VPtr 2 1] [VStr [97]] in
  let p3 := VMapping MGoMap [VPtr 3 1] [VStr [98]] in
  let w1 := VMapping MGoMap [VInt 0 1] [VStr [97]] in
  let w2 := VMapping MGoMap [VInt 64 1] [VStr [97]] in
  let w3 := VMapping MGoMap [VInt 64 1] [VStr [98]] in
  forallb (inU 16%nat) [p1; p2; p3; w1; w2; w3] = true /\
  rank0 16 p1 p2 = R Eq /\ rank0 16 p2 p1 = R Eq /\ rank0 16 p1 p3 = R Lt /\ rank0 16 p3 p1 = R Gt /\
  rank0 16 w1 w2 = R Eq /\ rank0 16 w2 w1 = R Eq /\ rank0 16 w1 w3 = R Lt /\ rank0 16 w3 w1 = R Gt /\
  compare0 16 p1 p2 = R false /\ compare0 16 w1 w2 = R false.
Proof. vm_compute. repeat split; reflexivity. Qed.

Print Assumptions C07_rank_never_hangs.
Print Assumptions C07_rank_is_a_pure_function_on_the_universe.
Print Assumptions C07_rank_of_fresh_collator_is_pure.
Print Assumptions C07_rank_reflexive.
Print Assumptions C07_rank_mirror_image.
Print Assumptions C07_rank_transitive.
Print Assumptions C07_rank_strongly_transitive.
Print Assumptions C07_rank_total_preorder_for_sets_and_sorting.
Print Assumptions C07_equal_rank_interchangeable.
Print Assumptions C07_nil_equals_nil.
Print Assumptions C07_nil_ranks_before_everything.
Print Assumptions C07_bool_order.
Print Assumptions C07_false_before_true.
Print Assumptions C07_signed_integer_order.
Print Assumptions C07_unsigned_integer_order.
Print Assumptions C07_byte_order.
Print Assumptions C07_rune_order.
Print Assumptions C07_string_bytewise_order.
Print Assumptions C07_float_order.
Print Assumptions C07_nan_before_every_number.
Print Assumptions C07_nan_equals_nan.
Print Assumptions C07_complex_order_magnitude_phase_real_imag.
Print Assumptions C07_pointer_ranked_by_content.
Print Assumptions C07_sequence_lexicographic.
Print Assumptions C07_proper_prefix_first.
Print Assumptions C07_map_key_then_value_over_sorted_keys.
Print Assumptions C07_map_insertion_order_irrelevant.
Print Assumptions C07_map_insertion_order_needs_distinct_keys_refuted.
Print Assumptions C07_discharges_total_preorder_of_set_theorems.
Print Assumptions C07_sorting_with_collator_is_ordered_permutation.
Print Assumptions C07_set_search_with_collator_finds_equal_member.
Print Assumptions C07_result_independent_of_depth_history.
Print Assumptions C07_calls_on_one_collator_independent.
