(* PipeSem.v — meaning of the micro-language of PipeLang.v, into which tools/gopipes translates
   the class functions of v4/collection/queue.go (GenPipes.v, regenerated on every run), and the
   interleaving machine whose HELPER GOROUTINES (Fork, Split, Join) and CONSTRUCTORS are these
   regenerated bodies, over the regenerated queue methods of QueueSem.v.  Definitions only;
   GenC06.v proves that this machine is the hand-written machine of Conc.v (helpers = the loops
   LFork/LSplit/LJoin expanded by Conc.continue, constructor = ConcLive.ctor_config) about which
   the C05/C06 theorems are.

   A goroutine is a CALL GENERATOR: a state (continuation, locals) that, between two calls of
   queue methods, runs only goroutine-local code.  [hstep] runs one statement; it is either local,
   or issues a call (AddValue, CloseQueue, RemoveHead, the deferred Done), or ends the body.
   [next_call] runs local code up to the next call.  The result of RemoveHead is handed back by
   [deliver].  Code that runs in the CALLER before the `go` statement (argument validation,
   creation of the output queues, group.Add, verifYield(8)) is run by the same [hstep]; it records
   the queues it creates, the amount added to the wait group, and the goroutine it starts.

   Iterators are the model of v4/agent/iterator.go proved in IterProofs.v (Seq.iter: slot in
   0..size, GetNext at the end returns the zero value and stays).  The zero value of a queue
   reference is nil: calling a method on it panics.

   Not modelled (trusted): uint overflow (numbers are unbounded naturals; a subtraction below zero
   has no meaning here), the notation/class fields, the element type V (values are Z, the zero
   value is 0), panics' messages, and that `List[QueueLike[V]]`, its iterator and
   `Array[V].MakeFromArray` behave as sequences (properties C01/C17 of this project). *)
From Coq Require Import ZArith List String Bool Arith.
From Verif Require Import Base Seq Conc QueueLang GenQueue QueueSem PipeLang GenPipes.
Import ListNotations.
Open Scope nat_scope.
Open Scope list_scope.

(* ---- values of locals ---- *)
Inductive pval :=
| VNum (n : nat)
| VBool (b : bool)
| VZ (v : Z)                          (* an element value *)
| VQ (q : option nat)                 (* a queue reference (index of the queue); None = nil *)
| VQs (l : list nat)                  (* a list / sequence of queues *)
| VVals (l : list Z)                  (* an array / sequence of element values *)
| VIterQ (i : iter (option nat))      (* an iterator over queues *)
| VIterV (i : iter Z)                 (* an iterator over element values *)
| VChan (cap : nat)
| VList
| VGroup
| VInspector
| VNewQueue (chancap fieldcap : nat). (* &queue_{available_: make(chan bool, chancap), capacity_: fieldcap, …} *)

Definition env := list (string * pval).
Fixpoint lookup (x : string) (e : env) : option pval :=
  match e with
  | [] => None
  | (y, v) :: r => if String.eqb x y then Some v else lookup x r
  end.
(* assignment in place; a declaration appends *)
Fixpoint set (x : string) (v : pval) (e : env) : env :=
  match e with
  | [] => [(x, v)]
  | (y, w) :: r => if String.eqb x y then (x, v) :: r else (y, w) :: set x v r
  end.

Definition binop (op : pbinop) (a b : nat) : option nat :=
  match op with
  | OAdd => Some (a + b)
  | OSub => if b <=? a then Some (a - b) else None
  | OMul => Some (a * b)
  | ODiv => if b =? 0 then None else Some (a / b)
  | OOr => Some (Nat.lor a b)
  | OAnd => Some (Nat.land a b)
  end.
Definition cmpop (op : pcmpop) (a b : nat) : bool :=
  match op with
  | OLt => a <? b | OGt => b <? a | OLe => a <=? b | OGe => b <=? a | OEq => a =? b | ONe => negb (a =? b)
  end.

(* dflt: c.defaultCapacity_;  qs: the queues that exist, as (channel capacity, capacity_ field) *)
Fixpoint eval (dflt : nat) (qs : list (nat * nat)) (e : env) (x : pexp) : option nat :=
  match x with
  | ELit n => Some n
  | EVar v => match lookup v e with Some (VNum n) => Some n | _ => None end
  | EDefault => Some dflt
  | ESize v => match lookup v e with Some (VVals l) => Some (length l) | Some (VQs l) => Some (length l) | _ => None end
  | ECap v => match lookup v e with
              | Some (VQ (Some q)) => match nth_error qs q with Some p => Some (snd p) | None => None end
              | _ => None
              end
  | EBin op a b => match eval dflt qs e a, eval dflt qs e b with Some m, Some n => binop op m n | _, _ => None end
  end.

Fixpoint holds (dflt : nat) (qs : list (nat * nat)) (e : env) (c : pcond) : option bool :=
  match c with
  | CCmp op a b => match eval dflt qs e a, eval dflt qs e b with Some m, Some n => Some (cmpop op m n) | _, _ => None end
  | CVar x => match lookup x e with Some (VBool b) => Some b | _ => None end
  | CHasNext it => match lookup it e with Some (VIterQ i) => Some (has_next i) | Some (VIterV i) => Some (has_next i) | _ => None end
  | CIsDefined x => match lookup x e with Some (VQs _) => Some true | _ => None end   (* of an element VALUE: no meaning here *)
  | CIsEmpty x => match lookup x e with Some (VQs l) => Some (length l =? 0) | Some (VVals l) => Some (length l =? 0) | _ => None end
  | CNot a => match holds dflt qs e a with Some b => Some (negb b) | None => None end
  | COr a b => match holds dflt qs e a with Some true => Some true | Some false => holds dflt qs e b | None => None end
  | CAnd a b => match holds dflt qs e a with Some false => Some false | Some true => holds dflt qs e b | None => None end
  end.

(* ---- the state of a goroutine between two calls ---- *)
Inductive kitem :=
| KS (s : pstmt)                      (* a statement to run *)
| KLoop (scope : nat) (s : pstmt).    (* the end of one iteration of the loop s: its block-local variables go out of scope *)

Inductive pevent := EvAdd (n : nat) | EvYield (kind : Z) | EvGo | EvDefer.

Record hstate := {
  h_k : list kitem;                       (* continuation *)
  h_env : env;                            (* locals (and captured variables) *)
  h_defer : nat;                          (* deferred group.Done() calls *)
  h_qs : list (nat * nat);                (* the queues that exist: (channel capacity, capacity_ field); a new queue gets the next index *)
  h_wg : nat;                             (* added to the wait group so far *)
  h_log : list pevent;                    (* group.Add / verifYield / go / defer, in program order *)
  h_go : option (list pstmt * env);       (* the goroutine started: body and captured variables *)
  h_pending : option (string * string);   (* the locals that receive the result of the RemoveHead in progress *)
  h_ret : option pval                     (* the value returned *)
}.

Definition upd (h : hstate) (k : list kitem) (e : env) : hstate :=
  {| h_k := k; h_env := e; h_defer := h_defer h; h_qs := h_qs h; h_wg := h_wg h; h_log := h_log h; h_go := h_go h;
     h_pending := h_pending h; h_ret := h_ret h |}.
Definition with_defer (h : hstate) (k : list kitem) (n : nat) (ev : list pevent) : hstate :=
  {| h_k := k; h_env := h_env h; h_defer := n; h_qs := h_qs h; h_wg := h_wg h; h_log := h_log h ++ ev; h_go := h_go h;
     h_pending := h_pending h; h_ret := h_ret h |}.
Definition with_qs (h : hstate) (k : list kitem) (e : env) (qs : list (nat * nat)) : hstate :=
  {| h_k := k; h_env := e; h_defer := h_defer h; h_qs := qs; h_wg := h_wg h; h_log := h_log h; h_go := h_go h;
     h_pending := h_pending h; h_ret := h_ret h |}.
Definition with_wg (h : hstate) (k : list kitem) (n : nat) (ev : pevent) : hstate :=
  {| h_k := k; h_env := h_env h; h_defer := h_defer h; h_qs := h_qs h; h_wg := n; h_log := h_log h ++ [ev]; h_go := h_go h;
     h_pending := h_pending h; h_ret := h_ret h |}.
Definition with_go (h : hstate) (k : list kitem) (g : list pstmt * env) : hstate :=
  {| h_k := k; h_env := h_env h; h_defer := h_defer h; h_qs := h_qs h; h_wg := h_wg h; h_log := h_log h ++ [EvGo]; h_go := Some g;
     h_pending := h_pending h; h_ret := h_ret h |}.
Definition with_pending (h : hstate) (k : list kitem) (e : env) (p : option (string * string)) : hstate :=
  {| h_k := k; h_env := e; h_defer := h_defer h; h_qs := h_qs h; h_wg := h_wg h; h_log := h_log h; h_go := h_go h;
     h_pending := p; h_ret := h_ret h |}.
Definition with_ret (h : hstate) (v : pval) : hstate :=
  {| h_k := []; h_env := h_env h; h_defer := h_defer h; h_qs := h_qs h; h_wg := h_wg h; h_log := h_log h; h_go := h_go h;
     h_pending := h_pending h; h_ret := Some v |}.

Inductive hres :=
| HLocal (h : hstate)                 (* a goroutine-local statement was run *)
| HCall (c : call) (h : hstate)       (* the goroutine calls a queue method (or its deferred Done); h: the state that waits for its return *)
| HExit (h : hstate)                  (* the body and the deferred calls are done *)
| HPanic                              (* panic(...) / a method called on a nil queue *)
| HBad.                               (* outside the subset *)

(* break: leave the innermost loop (its block-local variables go out of scope) *)
Fixpoint break_out (k : list kitem) : option (nat * list kitem) :=
  match k with
  | [] => None
  | KLoop n _ :: k' => Some (n, k')
  | KS _ :: k' => break_out k'
  end.

Section Step.
Variable dflt : nat.                            (* c.defaultCapacity_ *)
Variable mk : nat -> option (nat * nat).        (* c.MakeWithCapacity(n): (channel capacity, capacity_ field) of the new queue *)

Definition hstep (h : hstate) : hres :=
  let e := h_env h in
  match h_k h with
  | [] => if 0 <? h_defer h then HCall CDone (with_defer h [] (h_defer h - 1) []) else HExit h
  | KLoop n s :: k => HLocal (upd h (KS s :: k) (firstn n e))
  | KS s :: k =>
    match s with
    | PVar x ex | PAssign x ex =>
      match eval dflt (h_qs h) e ex with Some n => HLocal (upd h k (set x (VNum n) e)) | None => HBad end
    | PInc x => match lookup x e with Some (VNum n) => HLocal (upd h k (set x (VNum (S n)) e)) | _ => HBad end
    | PIf c yes no =>
      match holds dflt (h_qs h) e c with
      | Some b => HLocal (upd h (map KS (if b then yes else no) ++ k) e)
      | None => HBad
      end
    | PWhile c body =>
      match holds dflt (h_qs h) e c with
      | Some true => HLocal (upd h (map KS body ++ KLoop (length e) s :: k) e)
      | Some false => HLocal (upd h k e)
      | None => HBad
      end
    | PFor init c post body => HLocal (upd h (map KS init ++ KS (PWhile c (body ++ post)) :: k) e)
    | PForever body => HLocal (upd h (map KS body ++ KLoop (length e) s :: k) e)
    | PBreak => match break_out k with Some (n, k') => HLocal (upd h k' (firstn n e)) | None => HBad end
    | PPanic => HPanic
    | PMakeChan x ex => match eval dflt (h_qs h) e ex with Some n => HLocal (upd h k (set x (VChan n) e)) | None => HBad end
    | PMakeList x => HLocal (upd h k (set x VList e))
    | PMakeQueues x => HLocal (upd h k (set x (VQs []) e))
    | PInspector x => HLocal (upd h k (set x VInspector e))
    | PReturnQueue ch cap ls =>
      match lookup ch e, lookup cap e, lookup ls e with
      | Some (VChan n), Some (VNum m), Some VList => HLocal (with_ret h (VNewQueue n m))
      | _, _, _ => HBad
      end
    | PWrapArray x a => match lookup a e with Some (VVals l) => HLocal (upd h k (set x (VVals l) e)) | _ => HBad end
    | PReturnFromSequence x =>
      match lookup x e with
      | Some (VVals l) => HLocal (upd h (map KS gen_MakeFromSequence) [("values1"%string, VVals l)])
      | _ => HBad
      end
    | PMakeQueue x ex =>
      match eval dflt (h_qs h) e ex with
      | Some n => match mk n with
                  | Some p => HLocal (with_qs h k (set x (VQ (Some (length (h_qs h)))) e) (h_qs h ++ [p]))
                  | None => HBad
                  end
      | None => HBad
      end
    | PAppendMakeQueue l ex =>
      match eval dflt (h_qs h) e ex, lookup l e with
      | Some n, Some (VQs qs) =>
        match mk n with
        | Some p => HLocal (with_qs h k (set l (VQs (qs ++ [length (h_qs h)])) e) (h_qs h ++ [p]))
        | None => HBad
        end
      | _, _ => HBad
      end
    | PAppend l x =>
      match lookup l e, lookup x e with
      | Some (VQs qs), Some (VQ (Some q)) => HLocal (upd h k (set l (VQs (qs ++ [q])) e))
      | _, _ => HBad
      end
    | PGetIterator it x =>
      match lookup x e with
      | Some (VQs l) => HLocal (upd h k (set it (VIterQ (it_make (map Some l))) e))
      | Some (VVals l) => HLocal (upd h k (set it (VIterV (it_make l)) e))
      | _ => HBad
      end
    | PGetNext x it =>
      match lookup it e with
      | Some (VIterQ i) => HLocal (upd h k (set x (VQ (fst (get_next None i))) (set it (VIterQ (snd (get_next None i))) e)))
      | Some (VIterV i) => HLocal (upd h k (set x (VZ (fst (get_next 0%Z i))) (set it (VIterV (snd (get_next 0%Z i))) e)))
      | _ => HBad
      end
    | PToStart it =>
      match lookup it e with
      | Some (VIterQ i) => HLocal (upd h k (set it (VIterQ (to_start i)) e))
      | Some (VIterV i) => HLocal (upd h k (set it (VIterV (to_start i)) e))
      | _ => HBad
      end
    | PVarCapNext x it =>
      match lookup it e with
      | Some (VIterQ i) =>
        match fst (get_next None i) with
        | Some q => match nth_error (h_qs h) q with
                    | Some p => HLocal (upd h k (set x (VNum (snd p)) (set it (VIterQ (snd (get_next None i))) e)))
                    | None => HBad
                    end
        | None => HPanic
        end
      | _ => HBad
      end
    | PAddValue q v =>
      match lookup q e, lookup v e with
      | Some (VQ (Some i)), Some (VZ z) => HCall (CAdd i z) (upd h k e)
      | Some (VQ None), Some (VZ _) => HPanic
      | _, _ => HBad
      end
    | PCloseQueue q =>
      match lookup q e with
      | Some (VQ (Some i)) => HCall (CClose i) (upd h k e)
      | Some (VQ None) => HPanic
      | _ => HBad
      end
    | PRemoveHead v ok q =>
      match lookup q e with
      | Some (VQ (Some i)) => HCall (CRemoveHead i) (with_pending h k (set ok (VBool false) (set v (VZ 0%Z) e)) (Some (v, ok)))
      | Some (VQ None) => HPanic
      | _ => HBad
      end
    | PGroupAdd n => HLocal (with_wg h k (h_wg h + n) (EvAdd n))
    | PYield kind => HLocal (with_wg h k (h_wg h) (EvYield kind))
    | PDeferDone => HLocal (with_defer h k (S (h_defer h)) [EvDefer])
    | PGo body => match h_go h with None => HLocal (with_go h k (body, e)) | Some _ => HBad end
    | PReturn x => match lookup x e with Some v => HLocal (with_ret h v) | None => HBad end
    | PUnknown _ => HBad
    end
  end.

(* local code up to the next call; out of fuel: HLocal *)
Fixpoint run_local (fuel : nat) (h : hstate) : hres :=
  match fuel with
  | O => HLocal h
  | S f => match hstep h with HLocal h' => run_local f h' | r => r end
  end.
End Step.

Definition hstart (body : list pstmt) (e : env) (qs : list (nat * nat)) : hstate :=
  {| h_k := map KS body; h_env := e; h_defer := 0; h_qs := qs; h_wg := 0; h_log := []; h_go := None;
     h_pending := None; h_ret := None |}.

(* c.MakeWithCapacity(n), read off the regenerated body (which must not itself make a queue) *)
Definition gen_mk (dflt n : nat) : option (nat * nat) :=
  match run_local dflt (fun _ => None) 16 (hstart gen_MakeWithCapacity [("num1"%string, VNum n)] []) with
  | HExit h => match h_ret h with Some (VNewQueue a b) => Some (a, b) | _ => None end
  | _ => None
  end.

(* between two calls a goroutine runs at most this many local statements *)
Definition local_fuel : nat := 24.
Definition next_call (dflt : nat) (h : hstate) : hres := run_local dflt (gen_mk dflt) local_fuel h.

(* the result of the RemoveHead in progress arrives *)
Definition deliver (h : hstate) (r : result) : hstate :=
  match r, h_pending h with
  | RHead v ok, Some (x, y) => with_pending h (h_k h) (set y (VBool ok) (set x (VZ v) (h_env h))) None
  | _, _ => h
  end.

(* the calls a goroutine issues when every call returns at once and no RemoveHead occurs (a
   constructor): ctor_result below *)
Fixpoint calls_of (dflt fuel : nat) (h : hstate) : option (list call) :=
  match fuel with
  | O => None
  | S f =>
    match next_call dflt h with
    | HCall (CRemoveHead _) _ => None
    | HCall c h' => match calls_of dflt f h' with Some l => Some (c :: l) | None => None end
    | HExit _ => Some []
    | _ => None
    end
  end.

(* MakeFromSequence on the values vs: the capacity of the queue it makes and its AddValue calls *)
Definition ctor_start (vs : list Z) : hstate := hstart gen_MakeFromSequence [("values1"%string, VVals vs)] [].
Definition ctor_array_start (vs : list Z) : hstate := hstart gen_MakeFromArray [("array1"%string, VVals vs)] [].
Definition ctor_result (dflt : nat) (vs : list Z) : option (list nat * list call) :=
  match next_call dflt (ctor_start vs) with
  | HCall c h => match calls_of dflt (length vs) h with Some l => Some (map fst (h_qs h), c :: l) | None => None end
  | HExit h => Some (map fst (h_qs h), [])
  | _ => None
  end.

(* ---- the machine: regenerated goroutines over the regenerated queue methods ----
   A thread with a helper state holds at most ONE call (the one in progress) in g_calls; when it
   returns, the helper's local code runs up to its next call.  Everything else is QueueSem.gstep. *)
Record pconfig := { pg : gconfig; ph : list (option hstate) }.

Definition with_calls (th : gthread) (cs : list call) : gthread :=
  {| g_pos := g_pos th; g_calls := cs; g_loop := g_loop th; g_res := g_res th; g_stuck := g_stuck th; g_bad := g_bad th |}.

(* after its first call a goroutine makes no queue, adds nothing to the wait group and starts no goroutine
   (that is done by the caller before the go statement): otherwise not in this model *)
Definition same_shared (h h' : hstate) : bool :=
  (length (h_qs h') =? length (h_qs h)) && (h_wg h' =? h_wg h) && match h_go h' with None => true | Some _ => false end.

Definition refill (dflt : nat) (g : gconfig) (t : nat) (h : hstate) (hs : list (option hstate)) : pconfig :=
  let th := ggett g t in
  match next_call dflt (deliver h (last (g_res th) RAdded)) with
  | HCall cl h' =>
    if same_shared h h' then {| pg := gsett g t (with_calls th [cl]); ph := set_nth t (Some h') hs |}
    else {| pg := gsett g t (gbad th); ph := hs |}
  | HExit _ => {| pg := g; ph := set_nth t None hs |}
  | HPanic => {| pg := gsett g t (gstuck th); ph := hs |}
  | _ => {| pg := gsett g t (gbad th); ph := hs |}
  end.

Definition pstep (dflt : nat) (c : pconfig) (t : nat) : option pconfig :=
  match gstep (pg c) t with
  | None => None
  | Some g' =>
    match nth t (ph c) None with
    | None => Some {| pg := g'; ph := ph c |}
    | Some h =>
      let th := ggett g' t in
      if g_stuck th then Some {| pg := g'; ph := ph c |}
      else match g_calls th with
           | [] => Some (refill dflt g' t h (ph c))
           | _ :: _ => Some {| pg := g'; ph := ph c |}
           end
    end
  end.

Fixpoint prun (dflt : nat) (c : pconfig) (sched : list nat) : pconfig :=
  match sched with
  | [] => c
  | t :: rest => match pstep dflt c t with Some c' => prun dflt c' rest | None => prun dflt c rest end
  end.

(* ---- loading ---- *)
Definition idle_thread (cs : list call) : gthread :=
  {| g_pos := None; g_calls := cs; g_loop := LNone; g_res := []; g_stuck := false; g_bad := false |}.

(* a goroutine at its start: it runs up to its first call *)
Definition start_thread (dflt : nat) (h0 : hstate) : gthread * option hstate :=
  match next_call dflt h0 with
  | HCall cl h => (idle_thread [cl], Some h)
  | HExit _ => (idle_thread [], None)
  | HPanic => (gstuck (idle_thread []), None)
  | _ => (gbad (idle_thread []), None)
  end.

(* a class function run by the caller up to its return: (final state) *)
Definition call_fn (dflt fuel : nat) (body : list pstmt) (e : env) (qs : list (nat * nat)) : option hstate :=
  match run_local dflt (gen_mk dflt) fuel (hstart body e qs) with
  | HExit h => Some h
  | _ => None
  end.
Definition prelude_fuel (k : nat) : nat := 8 * k + 40.

Definition fork_env (inq k : nat) : env := [("group1"%string, VGroup); ("num1"%string, VNum k); ("queue1"%string, VQ (Some inq))].
Definition join_env (ins : list nat) : env := [("group1"%string, VGroup); ("queues1"%string, VQs ins)].

Definition feeder_calls (vs : list Z) : list call := map (CAdd 0) vs ++ [CClose 0].
Definition consumer_thread (q : nat) : gthread :=
  {| g_pos := None; g_calls := [CRemoveHead q]; g_loop := LConsumer q; g_res := []; g_stuck := false; g_bad := false |}.

(* queue 0 (capacity cap) is the input; Fork / Split (regenerated) is called on it with size k; the
   caller then starts a feeder, one reader per output and waits for the group (the shapes of Pipes.v) *)
Definition pfan_prog (dflt : nat) (body : list pstmt) (vs : list Z) (k cap : nat) : option pconfig :=
  match call_fn dflt (prelude_fuel k) body (fork_env 0 k) [(cap, cap)] with
  | Some h =>
    match h_go h, h_ret h with
    | Some (gbody, e), Some (VQs outs) =>
      let '(gth, hh) := start_thread dflt (hstart gbody e (h_qs h)) in
      Some {| pg := {| gqueues := map (fun p => mkq (fst p)) (h_qs h); gwg := h_wg h;
                       gthreads := gth :: idle_thread (feeder_calls vs) :: map consumer_thread outs ++ [idle_thread [CWait]] |};
              ph := [hh] |}
    | _, _ => None
    end
  | None => None
  end.
Definition pfork_prog (dflt : nat) := pfan_prog dflt gen_Fork.
Definition psplit_prog (dflt : nat) := pfan_prog dflt gen_Split.

(* Split on queue 0, then Join on its outputs; one reader of the joined queue *)
Definition psplitjoin_prog (dflt : nat) (vs : list Z) (k cap : nat) : option pconfig :=
  match call_fn dflt (prelude_fuel k) gen_Split (fork_env 0 k) [(cap, cap)] with
  | Some h1 =>
    match h_go h1, h_ret h1 with
    | Some (b1, e1), Some (VQs outs) =>
      match call_fn dflt (prelude_fuel 0) gen_Join (join_env outs) (h_qs h1) with
      | Some h2 =>
        match h_go h2, h_ret h2 with
        | Some (b2, e2), Some (VQ (Some j)) =>
          let '(g1, hh1) := start_thread dflt (hstart b1 e1 (h_qs h1)) in
          let '(g2, hh2) := start_thread dflt (hstart b2 e2 (h_qs h2)) in
          Some {| pg := {| gqueues := map (fun p => mkq (fst p)) (h_qs h2); gwg := h_wg h1 + h_wg h2;
                           gthreads := [g1; g2; idle_thread (feeder_calls vs); consumer_thread j; idle_thread [CWait]] |};
                  ph := [hh1; hh2] |}
        | _, _ => None
        end
      | None => None
      end
    | _, _ => None
    end
  | None => None
  end.

(* the constructor MakeFromSequence(vs) as the only goroutine *)
Definition pctor_config (dflt : nat) (vs : list Z) : option pconfig :=
  match next_call dflt (ctor_start vs) with
  | HCall cl h => Some {| pg := {| gqueues := map (fun p => mkq (fst p)) (h_qs h); gwg := 0; gthreads := [idle_thread [cl]] |}; ph := [Some h] |}
  | HExit h => Some {| pg := {| gqueues := map (fun p => mkq (fst p)) (h_qs h); gwg := 0; gthreads := [idle_thread []] |}; ph := [None] |}
  | _ => None
  end.
