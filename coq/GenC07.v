(* GenC07.v — LATE file of C07 and C08 (compiled by ./check C07 / C08 after the correspondence run): the dispatch
   TABLES regenerated from v4/agent/collator.go (GenCollate.v, by tools/gocollate) are the ones the model of
   Value.v is built on, and they satisfy the obligations that make them right:
   - getType's chain of rewrites, executed on every Go type name of the universe, gives the coarse name whose
     byte-wise order is Value.tyrank;
   - every conversion applied in rankIntrinsics / compareIntrinsics is value-preserving on the whole range of
     every kind that can reach it — for the FIRST operand the kinds of the case, for the SECOND operand every kind
     with the same coarse type name (the only check compareValues / rankValues make before dispatching);
   - the kind dispatch of rankValues / compareValues and the statements before it are the expected ones.
   NOT visible in a table (say so): the bodies of the leaf functions (rankSigned by subtraction, seeded/C07-A). *)
From Coq Require Import List String ZArith Bool.
From Verif Require Import Base Value GenCollate.
Import ListNotations.
Open Scope string_scope.

(* ---------- 1. getType ---------- *)
Definition gt_step (st : gtstep) (s : string) : option string :=
  match st with
  | GStart => Some s
  | GTrimPrefix p => Some (if prefix p s then substring (String.length p) (String.length s - String.length p) s else s)
  | GIfPrefix p n => Some (if prefix p s then n else s)
  | GIfEq x n => Some (if String.eqb s x then n else s)
  | GCutAt p => Some (match index 0 p s with Some i => substring 0 i s | None => s end)
  | GReturn => Some s
  | GUnknown _ => None
  end.
Fixpoint run_chain (steps : list gtstep) (s : string) : option string :=
  match steps with
  | [] => Some s
  | st :: r => match gt_step st s with Some s' => run_chain r s' | None => None end
  end.

(* Go type name (reflect.Type.String()), the coarse name the model uses, a value of that type *)
Definition model_type_names : list (string * string * val) :=
  [("bool", "boolean", VBool true); ("uint8", "byte", VByte 0); ("int32", "rune", VRune 0);
   ("uint", "unsigned", VUint 0 0); ("uint16", "unsigned", VUint 16 0); ("uint32", "unsigned", VUint 32 0); ("uint64", "unsigned", VUint 64 0);
   ("int", "integer", VInt 0 0); ("int8", "integer", VInt 8 0); ("int16", "integer", VInt 16 0); ("int64", "integer", VInt 64 0);
   ("float32", "float", VFloat 32 0); ("float64", "float", VFloat 64 0);
   ("complex64", "complex", VComplex 64 0 0 0 0); ("complex128", "complex", VComplex 128 0 0 0 0);
   ("string", "string", VStr []); ("[]int", "array", VSeq KSlice []); ("[3]uint8", "array", VSeq KSlice []);
   ("map[string]int", "map", VMapping MGoMap [] []); ("*main.PK", "main.PK", VPtr 0 0);
   ("*collection.array_[int]", "collection.array_", VSeq KArray []); ("*collection.association_[string,int]", "collection.association_", VAssoc VNil VNil);
   ("*collection.catalog_[string,int]", "collection.catalog_", VMapping MCatalog [] []); ("*collection.list_[interface {}]", "collection.list_", VSeq KList []);
   ("collection.map_[string,int]", "collection.map_", VMapping MMap [] []); ("*collection.queue_[int]", "collection.queue_", VSeq KQueue []);
   ("*collection.set_[int]", "collection.set_", VSeq KSet []); ("*collection.stack_[int]", "collection.stack_", VSeq KStack [])].

Lemma gen_getType_gives_the_models_names :
  forallb (fun r => match run_chain gen_getType (fst (fst r)) with Some n => String.eqb n (snd (fst r)) | None => false end) model_type_names = true.
Proof. vm_compute. reflexivity. Qed.

Lemma gen_getType_any : run_chain gen_getType "interface {}" = Some "any".
Proof. vm_compute. reflexivity. Qed.

Definition comparison_eq (a b : comparison) : bool := match a, b with Eq, Eq | Lt, Lt | Gt, Gt => true | _, _ => false end.
(* Value.tyrank IS the byte-wise order of the coarse names (for every pair of entries of the table) *)
Lemma model_tyrank_is_the_order_of_the_names :
  forallb (fun a => forallb (fun b => comparison_eq (Z.compare (tyrank (snd a)) (tyrank (snd b))) (String.compare (snd (fst a)) (snd (fst b)))) model_type_names) model_type_names = true.
Proof. vm_compute. reflexivity. Qed.

(* ---------- 2. the conversions ---------- *)
Definition all_kinds : list string :=
  ["Bool"; "Uint8"; "Uint16"; "Uint32"; "Uint64"; "Uint"; "Int8"; "Int16"; "Int32"; "Int64"; "Int"; "Float32"; "Float64"; "Complex64"; "Complex128"; "String"].
Definition kind_type_name (k : string) : string :=
  match k with
  | String a r => String (Ascii.ascii_of_nat (Ascii.nat_of_ascii a + 32)) r
  | EmptyString => EmptyString
  end.
Definition mem (x : string) (l : list string) : bool := existsb (String.eqb x) l.
(* the Go conversion [conv] applied to a value of kind [k] (read through its reflect getter) keeps the value *)
Definition conversion_exact (k conv : string) : bool :=
  if String.eqb conv "" then true
  else if String.eqb conv "bool" then mem k ["Bool"]
  else if String.eqb conv "byte" || String.eqb conv "uint8" then mem k ["Uint8"]
  else if String.eqb conv "uint64" then mem k ["Uint8"; "Uint16"; "Uint32"; "Uint64"; "Uint"]
  else if String.eqb conv "rune" || String.eqb conv "int32" then mem k ["Int8"; "Int16"; "Int32"]
  else if String.eqb conv "int64" then mem k ["Int8"; "Int16"; "Int32"; "Int64"; "Int"]
  else if String.eqb conv "float64" then mem k ["Float32"; "Float64"]
  else if String.eqb conv "complex128" then mem k ["Complex64"; "Complex128"]
  else if String.eqb conv "string" then mem k ["String"]
  else false.
(* the reflect getter fits the kind (Int() panics on an unsigned value, ...) *)
Definition getter_fits (k g : string) : bool :=
  if String.eqb g "Bool" then mem k ["Bool"]
  else if String.eqb g "Uint" then mem k ["Uint8"; "Uint16"; "Uint32"; "Uint64"; "Uint"]
  else if String.eqb g "Int" then mem k ["Int8"; "Int16"; "Int32"; "Int64"; "Int"]
  else if String.eqb g "Float" then mem k ["Float32"; "Float64"]
  else if String.eqb g "Complex" then mem k ["Complex64"; "Complex128"]
  else if String.eqb g "String" then mem k ["String"]
  else false.
Definition coarse (k : string) : option string := run_chain gen_getType (kind_type_name k).
Definition opt_eqb (a b : option string) : bool :=
  match a, b with Some x, Some y => String.eqb x y | _, _ => false end.

Definition first_operand_exact (rows : list gconv) : bool :=
  forallb (fun r => forallb (fun k => conversion_exact k (fst (gc_first r)) && getter_fits k (snd (gc_first r))) (gc_kinds r)) rows.
(* the second operand is only known to have the same COARSE type name as the first *)
Definition second_operand_exact (rows : list gconv) : bool :=
  forallb (fun r => forallb (fun k => forallb (fun k2 =>
     if opt_eqb (coarse k2) (coarse k) then conversion_exact k2 (fst (gc_second r)) && getter_fits k2 (snd (gc_second r)) else true) all_kinds) (gc_kinds r)) rows.

Lemma gen_conversions_exact_first : first_operand_exact gen_rankIntrinsics && first_operand_exact gen_compareIntrinsics = true.
Proof. vm_compute. reflexivity. Qed.
Lemma gen_conversions_exact_second : second_operand_exact gen_rankIntrinsics && second_operand_exact gen_compareIntrinsics = true.
Proof. vm_compute. reflexivity. Qed.
(* every intrinsic kind is ranked by some case *)
Lemma gen_rankIntrinsics_covers_every_kind : forallb (fun k => existsb (fun r => mem k (gc_kinds r)) gen_rankIntrinsics) all_kinds = true.
Proof. vm_compute. reflexivity. Qed.
(* what the obligation excludes (the shapes of seeded/C08-A and seeded/C07-C) *)
Lemma conversion_exact_rejects : conversion_exact "Int64" "float64" = false /\ conversion_exact "Uint16" "byte" = false /\ conversion_exact "Int64" "rune" = false.
Proof. repeat split; reflexivity. Qed.

(* ---------- 3. the tables the model (Value.rank / Value.compare) transcribes ---------- *)
Definition model_rank_intrinsics : list gconv :=
  [{| gc_kinds := ["Bool"]; gc_first := ("bool", "Bool"); gc_second := ("bool", "Bool"); gc_callee := ["rankBooleans"] |};
   {| gc_kinds := ["Uint8"]; gc_first := ("byte", "Uint"); gc_second := ("byte", "Uint"); gc_callee := ["rankBytes"] |};
   {| gc_kinds := ["Uint16"; "Uint32"; "Uint64"; "Uint"]; gc_first := ("uint64", "Uint"); gc_second := ("uint64", "Uint"); gc_callee := ["rankUnsigned"] |};
   {| gc_kinds := ["Int8"; "Int16"; "Int64"; "Int"]; gc_first := ("int64", "Int"); gc_second := ("int64", "Int"); gc_callee := ["rankSigned"] |};
   {| gc_kinds := ["Float32"; "Float64"]; gc_first := ("float64", "Float"); gc_second := ("float64", "Float"); gc_callee := ["rankFloats"] |};
   {| gc_kinds := ["Complex64"; "Complex128"]; gc_first := ("complex128", "Complex"); gc_second := ("complex128", "Complex"); gc_callee := ["rankComplex"] |};
   {| gc_kinds := ["Int32"]; gc_first := ("rune", "Int"); gc_second := ("rune", "Int"); gc_callee := ["rankRunes"] |};
   {| gc_kinds := ["String"]; gc_first := ("string", "String"); gc_second := ("string", "String"); gc_callee := ["rankStrings"] |}].
Definition model_compare_intrinsics : list gconv :=
  [{| gc_kinds := ["Float32"; "Float64"]; gc_first := ("", "Float"); gc_second := ("", "Float"); gc_callee := ["rankFloats"] |};
   {| gc_kinds := ["Complex64"; "Complex128"]; gc_first := ("", "Complex"); gc_second := ("", "Complex"); gc_callee := ["rankComplex"] |}].
Definition intrinsic_kinds : list string :=
  ["Bool"; "Uint8"; "Uint16"; "Uint32"; "Uint64"; "Uint"; "Int8"; "Int16"; "Int32"; "Int64"; "Int"; "Float32"; "Float64"; "Complex64"; "Complex128"; "String"].
Definition model_kind_dispatch (prefix : string) : list gdisp :=
  [{| gd_kinds := intrinsic_kinds; gd_calls := [prefix ++ "Intrinsics"] |};
   {| gd_kinds := ["Array"; "Slice"]; gd_calls := [prefix ++ "Arrays"] |};
   {| gd_kinds := ["Map"]; gd_calls := [prefix ++ "Maps"] |};
   {| gd_kinds := ["Interface"; "Pointer"]; gd_calls := [prefix ++ "Sequences"; prefix ++ "Interfaces"; prefix ++ "Values"] |}].

Definition gconv_eqb (a b : gconv) : bool :=
  list_eqb String.eqb (gc_kinds a) (gc_kinds b) && String.eqb (fst (gc_first a)) (fst (gc_first b)) && String.eqb (snd (gc_first a)) (snd (gc_first b))
  && String.eqb (fst (gc_second a)) (fst (gc_second b)) && String.eqb (snd (gc_second a)) (snd (gc_second b)) && list_eqb String.eqb (gc_callee a) (gc_callee b).
Definition gdisp_eqb (a b : gdisp) : bool := list_eqb String.eqb (gd_kinds a) (gd_kinds b) && list_eqb String.eqb (gd_calls a) (gd_calls b).

Lemma gen_tables_are_the_models :
  list_eqb gconv_eqb gen_rankIntrinsics model_rank_intrinsics && list_eqb gconv_eqb gen_compareIntrinsics model_compare_intrinsics &&
  list_eqb gdisp_eqb (firstn 4 gen_rankValues) (model_kind_dispatch "rank") && list_eqb gdisp_eqb (firstn 4 gen_compareValues) (model_kind_dispatch "compare") = true.
Proof. vm_compute. reflexivity. Qed.

(* no operand is unwrapped (`Elem()`) before the dispatch (an interface unwrapped up front — seeded/C08-B, C08-D — shows here).
   Only this is demanded of the prelude: its SHAPE (how many statements, if/else or switch) is not pinned, so that a harmless
   restructuring such as seeded/benign/H02 raises nothing *)
Lemma gen_preludes_are_the_expected_ones :
  forallb (fun s => negb (match index 0 "Elem()" s with Some _ => true | None => false end)) (gen_rankValues_prelude ++ gen_compareValues_prelude)%list = true.
Proof. vm_compute. reflexivity. Qed.

(* the model follows these tables: the intrinsic kinds of the universe ranked through the function the table names *)
Lemma model_follows_the_tables :
  rank 16 10 0 (VInt 8 (-1)) (VInt 64 5) = R Lt /\            (* rankSigned over int64: -1 < 5, not 255 *)
  rank 16 10 0 (VUint 16 65535) (VUint 64 70000) = R Lt /\     (* rankUnsigned over uint64 *)
  rank 16 10 0 (VByte 200) (VByte 100) = R Gt /\               (* rankBytes *)
  rank 16 10 0 (VRune 97) (VRune 98) = R Lt /\                 (* rankRunes *)
  rank 16 10 0 (VByte 1) (VUint 16 1) = R Lt /\                (* "byte" < "unsigned": different coarse types never reach rankIntrinsics *)
  rank 16 10 0 (VRune 1) (VInt 64 1) = R Gt.                   (* "rune" > "integer" *)
Proof. repeat split; vm_compute; reflexivity. Qed.

Print Assumptions gen_getType_gives_the_models_names.
Print Assumptions model_tyrank_is_the_order_of_the_names.
Print Assumptions gen_conversions_exact_first.
Print Assumptions gen_conversions_exact_second.
Print Assumptions gen_tables_are_the_models.
Print Assumptions gen_preludes_are_the_expected_ones.
