(* GenC01.v — property C01 for the GENERATED array and list methods (GenSrc.v, regenerated from
   v4/collection/array.go and list.go): each generated method computes what the specification of Seq.v
   says, and every history of the translated operations executed by the generated methods is the history
   of the specification machine (ListMachine.lstep_spec).  Not part of the common build: compiled by
   ./check C01.
   The lemmas about the single methods are in GenSeq.v (shared with C13) and GenList.v. *)
From Verif Require Import Base Seq ListImpl ListMachine SeqProofs MiniGo GenSrc GenRep GenLib GenIter GenSeq GenList GenList2 GenSearch.

Set Warnings "-unused-intro-pattern".
Section GenC01.
Variable A : Type.
Variable zero : A.
Variable eqb : A -> A -> bool.
Variable ext : ident -> ident -> val A -> list (val A) -> option (val A).
Notation call_at F := (i_call (interp_at A zero ext prog F)).
Notation run_method := (MiniGo.run_method A zero ext prog).

(* ---------- histories of the translated operations ---------- *)
(* the operations of ListMachine.lop whose generated code is proved above *)
Definition translated (o : lop A) : bool :=
  match o with
  | LInsertValue _ _ _ | LRemoveValue _ _ | LRemoveAll _ | LSetValue _ _ _ | LGetValue _ _ | LGetValues _ _ _
  | LAsArray _ | LGetSize _ | LIsEmpty _ => true
  | _ => false
  end.
Definition gen_lop (o : lop A) : ident * list (val A) :=
  match o with
  | LInsertValue _ slot v => (id_InsertValue, [VInt (Z.of_nat slot); VElem v])
  | LRemoveValue _ i => (id_RemoveValue, [VInt i])
  | LRemoveAll _ => (id_RemoveAll, [])
  | LSetValue _ i v => (id_SetValue, [VInt i; VElem v])
  | LGetValue _ i => (id_GetValue, [VInt i])
  | LGetValues _ i j => (id_GetValues, [VInt i; VInt j])
  | LAsArray _ => (id_AsArray, [])
  | LGetSize _ => (id_GetSize, [])
  | _ => (id_IsEmpty, [])
  end.
(* the observation of the specification machine, as the MiniGo value the generated method returns *)
Definition obs_val (ob : lobs A) : val A :=
  match ob with
  | LUnit => VTuple []
  | LVal _ a => VElem a
  | LVals _ r => VSlice (elems r)
  | LNat _ k => VInt (Z.of_nat k)
  | LBool _ b => VBool b
  | _ => VNil
  end.
(* GetValues returns an Array, AsArray a Go slice: both are compared through their elements *)
Definition same_obs (v : val A) (ob : lobs A) : Prop :=
  match ob with
  | LVals _ r => v = VSlice (elems r) \/ v = arr_val r
  | _ => v = obs_val ob
  end.

Lemma gen_lstep n l o F :
  translated o = true -> (Z.of_nat (length l) + 1 < two63)%Z -> length l + 100 <= F ->
  match snd (lstep_spec zero eqb l o) with
  | LPanic => call_at F (lst_val n l) (fst (gen_lop o)) (snd (gen_lop o)) = RPanic (lst_val n l)
  | LHang => False
  | ob => exists v, call_at F (lst_val n l) (fst (gen_lop o)) (snd (gen_lop o)) =
                    ROk (v, lst_val n (fst (lstep_spec zero eqb l o))) /\ same_obs v ob
  end.
Proof.
  intros T HL HF.
  destruct o; try discriminate T; cbn [gen_lop fst snd lstep_spec].
  - (* InsertValue *)
    rewrite (gen_list_InsertValue_impl A zero ext) by lia. rewrite (insert_value_refines A zero).
    unfold insert_value. destruct (length l <? slot); cbn [upd fst snd]; [reflexivity|eexists; split; reflexivity].
  - (* RemoveValue *)
    rewrite (gen_list_RemoveValue_impl A zero ext) by lia. rewrite (remove_value_refines A zero).
    pose proof (remove_value_refines A zero l i) as R. unfold remove_value in *.
    destruct (pos (length l) i); cbn [fst snd]; [eexists; split; reflexivity|reflexivity].
  - (* RemoveAll *)
    rewrite (gen_list_RemoveAll A zero ext) by lia. eexists; split; reflexivity.
  - (* SetValue *)
    rewrite gen_list_SetValue by lia.
    unfold set_value. destruct (pos (length l) i); cbn [upd fst snd]; [eexists; split; reflexivity|reflexivity].
  - (* GetValue *)
    rewrite (gen_list_GetValue A zero ext) by lia. unfold get_value.
    destruct (pos (length l) i); cbn [fst snd]; [eexists; split; reflexivity|reflexivity].
  - (* GetValues *)
    rewrite gen_list_GetValues by lia.
    unfold get_values. destruct (pos (length l) i) as [a|]; [|reflexivity]. destruct (pos (length l) j) as [b|]; [|reflexivity].
    destruct (S b <? a); cbn [fst snd]; [reflexivity|eexists; split; [reflexivity|right; reflexivity]].
  - (* AsArray *)
    rewrite (gen_list_AsArray A zero ext) by lia. eexists; split; [reflexivity|left; reflexivity].
  - (* GetSize *)
    rewrite (gen_list_GetSize A zero ext) by lia. eexists; split; reflexivity.
  - (* IsEmpty *)
    rewrite (gen_list_IsEmpty A zero ext) by lia. eexists; split; reflexivity.
Qed.

Lemma remove_nth_le (k : nat) (l : list A) : length (remove_nth k l) <= length l.
Proof. revert k. induction l as [|h t IH]; intros [|k]; cbn; try lia. specialize (IH k). lia. Qed.

(* a translated operation lets the list grow by at most one value *)
Lemma size_step_le l o : translated o = true -> length (fst (lstep_spec zero eqb l o)) <= S (length l).
Proof.
  intros T. destruct o; try discriminate T; cbn [lstep_spec].
  - unfold insert_value. destruct (Nat.ltb_spec (length l) slot); cbn [upd fst]; [lia|].
    rewrite app_length. cbn [length]. rewrite firstn_length, skipn_length. lia.
  - unfold remove_value. destruct (pos (length l) i); cbn [fst]; [|lia]. pose proof (remove_nth_le n l). lia.
  - cbn. lia.
  - unfold set_value. destruct (pos (length l) i); cbn [upd fst]; [|lia]. rewrite set_nth_length. lia.
  - destruct (get_value zero l i); cbn; lia.
  - destruct (get_values l i j); cbn; lia.
  - cbn. lia.
  - cbn. lia.
  - cbn. lia.
Qed.

(* run a history with the generated methods: the list object and the observations; the history goes on from
   the receiver as each call left it, also after a panic (a MiniGo panic carries the receiver at that point) *)
Fixpoint gen_lrun (F : nat) (recv : val A) (ops : list (lop A)) : option (val A * list (out (val A))) :=
  match ops with
  | [] => Some (recv, [])
  | o :: rest =>
    match call_at F recv (fst (gen_lop o)) (snd (gen_lop o)) with
    | ROk (v, recv') => option_map (fun r => (fst r, Ret v :: snd r)) (gen_lrun F recv' rest)
    | RPanic recv' => option_map (fun r => (fst r, Panic :: snd r)) (gen_lrun F recv' rest)
    | _ => None
    end
  end.
Definition agrees (g : out (val A)) (ob : lobs A) : Prop :=
  match g, ob with
  | Panic, LPanic => True
  | Ret v, LPanic => False
  | Ret v, LHang => False
  | Ret v, _ => same_obs v ob
  | _, _ => False
  end.

(* every history of translated operations: the generated methods end in the list the specification ends
   in, with the same observations; each call returns (fuel: one unit per value the list can hold at that
   point, plus 100).  The list grows by at most one value per operation. *)
Theorem gen_lrun_refines n ops : forall l F,
  forallb translated ops = true ->
  (Z.of_nat (length l + length ops) + 1 < two63)%Z -> length l + length ops + 100 <= F ->
  exists gobs, gen_lrun F (lst_val n l) ops = Some (lst_val n (fst (lrun (lstep_spec zero eqb) l ops)), gobs) /\
               Forall2 agrees gobs (snd (lrun (lstep_spec zero eqb) l ops)).
Proof.
  induction ops as [|o rest IH]; intros l F T HL HF; cbn [gen_lrun lrun].
  - eexists. split; [reflexivity|constructor].
  - cbn [forallb] in T. apply andb_prop in T. destruct T as [To Tr]. cbn [length] in HL, HF.
    pose proof (gen_lstep n l o F To ltac:(lia) ltac:(lia)) as ST.
    pose proof (size_step_le l o To) as SZ.
    destruct (lstep_spec zero eqb l o) as [l' ob] eqn:EL. cbn [fst snd] in *.
    destruct (IH l' F Tr ltac:(lia) ltac:(lia)) as [gobs [EG FA]].
    destruct (lrun (lstep_spec zero eqb) l' rest) as [lf obs] eqn:ER. cbn [fst snd] in *.
    destruct ob; try (destruct ST as [v [ER' SO]]; rewrite ER', EG; cbn [option_map fst snd];
                      eexists; split; [reflexivity|constructor; [exact SO|exact FA]]).
    + (* panic: the generated call and the specification both leave the list unchanged *)
      rewrite ST. assert (l' = l) by (apply (C01_panic_frame A zero eqb l o); exact EL). subst l'.
      rewrite EG. cbn [option_map fst snd]. eexists; split; [reflexivity|constructor; [exact I|exact FA]].
    + destruct ST.
Qed.

End GenC01.

(* ---------- the statements of C01 for the generated code (closed by [exact]) ---------- *)
Theorem C01_gen_array_methods_compute_the_specification :
  forall (A : Type) (zero : A) (ext : ident -> ident -> val A -> list (val A) -> option (val A))
         (l : list A) (i j : Z) (a : A) (F : nat),
    (Z.of_nat (length l) < two63)%Z -> 30 <= F ->
    let run := run_method A zero ext prog F (arr_val l) in
    run id_toZeroBased [VInt i] = match pos (length l) i with Some k => Ret (VInt (Z.of_nat k), arr_val l) | None => Panic end /\
    run id_GetValue [VInt i] = match get_value zero l i with Ret v => Ret (VElem v, arr_val l) | _ => Panic end /\
    run id_SetValue [VInt i; VElem a] = match set_value l i a with Ret l' => Ret (VTuple [], arr_val l') | _ => Panic end /\
    run id_GetValues [VInt i; VInt j] = match get_values l i j with Ret r => Ret (arr_val r, arr_val l) | _ => Panic end /\
    run id_GetSize [] = Ret (VInt (Z.of_nat (length l)), arr_val l) /\
    run id_IsEmpty [] = Ret (VBool (length l =? 0), arr_val l) /\
    run id_AsArray [] = Ret (VSlice (elems l), arr_val l).
Proof.
  intros A zero ext l i j a F HL HF run. unfold run, run_method, call_at.
  rewrite gen_toZeroBased, gen_array_GetValue, gen_array_SetValue, gen_array_GetValues, gen_array_GetSize,
    gen_array_IsEmpty, gen_array_AsArray by (assumption || lia).
  unfold get_value, set_value. repeat split.
  - destruct (pos (length l) i); reflexivity.
  - destruct (pos (length l) i); reflexivity.
  - destruct (pos (length l) i); reflexivity.
  - destruct (get_values l i j); reflexivity.
Qed.

Theorem C01_gen_list_methods_compute_the_specification :
  forall (A : Type) (zero : A) (ext : ident -> ident -> val A -> list (val A) -> option (val A))
         (n : val A) (l : list A) (slot : nat) (i : Z) (a : A) (F : nat),
    (Z.of_nat (length l) + 1 < two63)%Z -> length l + 100 <= F ->
    let run := run_method A zero ext prog F (lst_val n l) in
    run id_InsertValue [VInt (Z.of_nat slot); VElem a] =
      match insert_value l slot a with Ret l' => Ret (VTuple [], lst_val n l') | _ => Panic end /\
    run id_RemoveValue [VInt i] =
      match remove_value zero l i with Ret (r, l') => Ret (VElem r, lst_val n l') | _ => Panic end /\
    run id_RemoveAll [] = Ret (VTuple [], lst_val n []) /\
    run id_toNormalized [VInt i] = match pos (length l) i with Some k => Ret (VInt (Z.of_nat (S k)), lst_val n l) | None => Panic end /\
    run id_validateSlot [VInt (Z.of_nat slot)] = (if length l <? slot then Panic else Ret (VTuple [], lst_val n l)).
Proof.
  intros A zero ext n l slot i a F HL HF run. unfold run, run_method, call_at.
  rewrite gen_list_InsertValue_impl, gen_list_RemoveValue_impl, gen_list_RemoveAll, gen_toNormalized, gen_validateSlot by lia.
  rewrite insert_value_refines, remove_value_refines. unfold insert_value, remove_value. repeat split.
  - destruct (length l <? slot); reflexivity.
  - destruct (pos (length l) i); reflexivity.
  - destruct (pos (length l) i); reflexivity.
  - destruct (length l <? slot); reflexivity.
Qed.

(* the range and bulk methods; the operand [sv] is any sequence that answers like [src] (seq_operand: an Array or a
   List holding src, for instance the receiver itself) *)
Theorem C01_gen_bulk_methods_compute_the_specification :
  forall (A : Type) (zero : A) (ext : ident -> ident -> val A -> list (val A) -> option (val A))
         (n : val A) (l : list A) (slot : nat) (i j : Z) (a : A) (sv : val A) (src : list A) (F : nat),
    seq_operand A zero ext sv src ->
    (Z.of_nat (length l + length src) + 1 < two63)%Z -> (Z.of_nat slot < two63)%Z ->
    2 * (length l + length src) + 200 <= F ->
    let run := run_method A zero ext prog F (lst_val n l) in
    run id_SetValues [VInt i; sv] = match set_values l i src with Ret l' => Ret (VTuple [], lst_val n l') | _ => Panic end /\
    run id_AppendValue [VElem a] = Ret (VTuple [], lst_val n (append_value l a)) /\
    run id_AppendValues [sv] = Ret (VTuple [], lst_val n (append_values l src)) /\
    run id_InsertValues [VInt (Z.of_nat slot); sv] =
      match insert_values l slot src with Ret l' => Ret (VTuple [], lst_val n l') | _ => Panic end /\
    run id_RemoveValues [VInt i; VInt j] =
      match remove_values l i j with Ret (r, l') => Ret (arr_val r, lst_val n l') | _ => Panic end /\
    (* and a call that panics leaves the list as it was *)
    (set_values l i src = Panic -> panic_state A zero ext prog F (lst_val n l) id_SetValues [VInt i; sv] = Some (lst_val n l)) /\
    (insert_values l slot src = Panic ->
     panic_state A zero ext prog F (lst_val n l) id_InsertValues [VInt (Z.of_nat slot); sv] = Some (lst_val n l)) /\
    (remove_values l i j = Panic -> panic_state A zero ext prog F (lst_val n l) id_RemoveValues [VInt i; VInt j] = Some (lst_val n l)).
Proof.
  intros A zero ext n l slot i j a sv src F OP HL HSl HF run. unfold run, run_method, panic_state, call_at.
  rewrite (gen_list_SetValues A zero ext n l i sv src), gen_list_AppendValue, (gen_list_AppendValues A zero ext n l sv src),
    (gen_list_InsertValues A zero ext n l slot sv src), gen_list_RemoveValues by (assumption || lia).
  repeat split.
  - destruct (set_values l i src); reflexivity.
  - destruct (insert_values l slot src); reflexivity.
  - destruct (remove_values l i j) as [[r l']| |]; reflexivity.
  - intros E. rewrite E. reflexivity.
  - intros E. rewrite E. reflexivity.
  - intros E. rewrite E. reflexivity.
Qed.

(* GetIndex = the ordinal of the first match (Seq.get_index: C01_get_index_first_match / _absent speak about it), 0 when
   absent, where "match" is what CompareValues of a fresh default collator answers (any function eqb, through the
   oracle cmp_ext); ContainsValue = GetIndex > 0 *)
Theorem C01_gen_get_index_is_the_first_match :
  forall (A : Type) (zero : A) (eqb : A -> A -> bool) (n : val A) (l : list A) (x : A) (F : nat),
    (Z.of_nat (length l) < two63)%Z -> 70 <= F ->
    run_method A zero (cmp_ext eqb) prog F (lst_val n l) id_GetIndex [VElem x] =
      Ret (VInt (Z.of_nat (get_index eqb l x)), lst_val n l) /\
    run_method A zero (cmp_ext eqb) prog F (lst_val n l) id_ContainsValue [VElem x] =
      Ret (VBool (contains_value eqb l x), lst_val n l).
Proof.
  intros A zero eqb n l x F HL HF. unfold run_method, call_at.
  rewrite gen_list_GetIndex, gen_list_ContainsValue by (assumption || lia). split; reflexivity.
Qed.

(* ContainsAny / ContainsAll with an arbitrary sequence operand *)
Theorem C01_gen_contains_any_all :
  forall (A : Type) (zero : A) (eqb : A -> A -> bool) (n : val A) (l : list A) (sv : val A) (src : list A) (F : nat),
    seq_operand A zero (cmp_ext eqb) sv src -> (Z.of_nat (length l) < two63)%Z -> length src + 200 <= F ->
    run_method A zero (cmp_ext eqb) prog F (lst_val n l) id_ContainsAny [sv] = Ret (VBool (contains_any eqb l src), lst_val n l) /\
    run_method A zero (cmp_ext eqb) prog F (lst_val n l) id_ContainsAll [sv] = Ret (VBool (contains_all eqb l src), lst_val n l).
Proof.
  intros A zero eqb n l sv src F OP HL HF. unfold run_method, call_at.
  rewrite (gen_list_ContainsAny A zero eqb n l sv src), (gen_list_ContainsAll A zero eqb n l sv src) by assumption.
  split; reflexivity.
Qed.

(* the history theorem (C01_history_refinement) for the generated methods, on the translated operations *)
Theorem C01_gen_history_refinement :
  forall (A : Type) (zero : A) (eqb : A -> A -> bool)
         (ext : ident -> ident -> val A -> list (val A) -> option (val A))
         (n : val A) (ops : list (lop A)) (l : list A) (F : nat),
    forallb (translated A) ops = true ->
    (Z.of_nat (length l + length ops) + 1 < two63)%Z -> length l + length ops + 100 <= F ->
    exists gobs,
      gen_lrun A zero ext F (lst_val n l) ops = Some (lst_val n (fst (lrun (lstep_spec zero eqb) l ops)), gobs) /\
      Forall2 (agrees A) gobs (snd (lrun (lstep_spec zero eqb) l ops)).
Proof. exact gen_lrun_refines. Qed.

(* a generated call that panics leaves the list / array object exactly as it was *)
Theorem C01_gen_panic_leaves_unchanged :
  forall (A : Type) (zero : A) (eqb : A -> A -> bool)
         (ext : ident -> ident -> val A -> list (val A) -> option (val A))
         (n : val A) (l : list A) (o : lop A) (F : nat),
    translated A o = true -> (Z.of_nat (length l) + 1 < two63)%Z -> length l + 100 <= F ->
    snd (lstep_spec zero eqb l o) = LPanic ->
    panic_state A zero ext prog F (lst_val n l) (fst (gen_lop A o)) (snd (gen_lop A o)) = Some (lst_val n l).
Proof.
  intros A zero eqb ext n l o F T HL HF E. pose proof (gen_lstep A zero eqb ext n l o F T HL HF) as ST.
  rewrite E in ST. unfold panic_state, call_at. rewrite ST. reflexivity.
Qed.

(* non-vacuity: on [10;20;30]: insert 5 at slot 1, remove index -1 (30), get index 2 (5), set index 9 (panics),
   range (2,3), size — run by the generated methods *)
Example C01_gen_history_example :
  option_map fst (gen_lrun Z 0%Z no_ext 200 (lst_val VNil [10; 20; 30]%Z)
    [LInsertValue Z 1 5%Z; LRemoveValue Z (-1); LGetValue Z 2; LSetValue Z 9 7%Z; LGetValues Z 2 3; LGetSize Z]) =
  Some (lst_val VNil [10; 5; 20]%Z) /\
  fst (lrun (lstep_spec 0%Z Z.eqb) [10; 20; 30]%Z
    [LInsertValue Z 1 5%Z; LRemoveValue Z (-1); LGetValue Z 2; LSetValue Z 9 7%Z; LGetValues Z 2 3; LGetSize Z]) = [10; 5; 20]%Z.
Proof. split; vm_compute; reflexivity. Qed.

Print Assumptions C01_gen_array_methods_compute_the_specification.
Print Assumptions C01_gen_list_methods_compute_the_specification.
Print Assumptions C01_gen_bulk_methods_compute_the_specification.
Print Assumptions C01_gen_get_index_is_the_first_match.
Print Assumptions C01_gen_contains_any_all.
Print Assumptions C01_gen_history_refinement.
Print Assumptions C01_gen_panic_leaves_unchanged.
