(* LexerProofs.v -- proofs about the scanner model of Lexer.v:
   pinning of the generated tables, progress of the recognizers, totality of the
   lexer, line/position bookkeeping, token texts, and the equality of the linear
   string recognizer with the literal backtracking reading. *)
From Coq Require Import String Ascii.
From Verif Require Import Base Params Lexer.
Close Scope string_scope.
Open Scope Z_scope.

(* ====================================================================== *)
(* A. Pinning by computation                                              *)
(* ====================================================================== *)

Lemma scan_order_pinned :
  scan_order_t = [TBoolean; TComplex; TDelimiter; TEOL; TFloat; THexadecimal; TInteger;
                  TNil; TRune; TSpace; TString; TType].
Proof. reflexivity. Qed.

Lemma regexps_pinned : Params.token_regexps = [
  ("boolean_", "false|true");
  ("complex_", "\(([+-]?(?:(?:0|[1-9][0-9]*)\.[0-9]+)(?:[eE][+-][1-9][0-9]*)?)[+-]([+-]?(?:(?:0|[1-9][0-9]*)\.[0-9]+)(?:[eE][+-][1-9][0-9]*)?)i\)");
  ("delimiter_", "\[|\]|\(|\)|:|,");
  ("eol_", "\n");
  ("float_", "[+-]?(?:(?:0|[1-9][0-9]*)\.[0-9]+)(?:[eE][+-][1-9][0-9]*)?");
  ("hexadecimal_", "0x[0-9a-f]+");
  ("integer_", "0|[+-]?[1-9][0-9]*");
  ("nil_", "nil");
  ("rune_", "'(\\(?:(?:x[0-9a-f]{2}|u[0-9a-f]{4}|U[0-9a-f]{8})|[abfnrtv'""\\])|[^'\n])'");
  ("space_", "[ ]+");
  ("string_", """(\\(?:(?:x[0-9a-f]{2}|u[0-9a-f]{4}|U[0-9a-f]{8})|[abfnrtv'""\\])|[^""\n])*""");
  ("type_", "Array|Catalog|List|Map|Queue|Set|Stack")]%string.
Proof. reflexivity. Qed.

(* ====================================================================== *)
(* B. Progress of the recognizers                                         *)
(* ====================================================================== *)

Lemma span_le : forall p l, (span p l <= length l)%nat.
Proof.
  intros p l; induction l as [|c t IH]; simpl; [lia|].
  destruct (p c); simpl; lia.
Qed.

Lemma all_n_len : forall p n l, all_n p n l = true -> (n <= length l)%nat.
Proof.
  intros p n; induction n as [|n IH]; intros l H; simpl in *; [lia|].
  destruct l as [|c t]; [discriminate|].
  apply andb_true_iff in H; destruct H as [_ H].
  apply IH in H; simpl; lia.
Qed.

Lemma starts_len : forall pre l, starts pre l = true -> (length pre <= length l)%nat.
Proof.
  intros pre; induction pre as [|p pre IH]; intros l H; simpl in *; [lia|].
  destruct l as [|c t]; [discriminate|].
  apply andb_true_iff in H; destruct H as [_ H].
  apply IH in H; simpl; lia.
Qed.

Lemma starts_firstn : forall pre l, starts pre l = true -> firstn (length pre) l = pre.
Proof.
  intros pre; induction pre as [|p pre IH]; intros l H; simpl in *; [reflexivity|].
  destruct l as [|c t]; [discriminate|].
  apply andb_true_iff in H; destruct H as [Hc H].
  apply Z.eqb_eq in Hc; subst c.
  simpl; f_equal; auto.
Qed.

Lemma zs_length : forall s, length (zs s) = String.length s.
Proof. intros s; induction s as [|a s IH]; simpl; congruence. Qed.

Lemma m_escape_len : forall l k, m_escape l = Some k -> (2 <= k <= length l)%nat.
Proof.
  intros l k H.
  destruct l as [|b [|c t]]; try discriminate.
  unfold m_escape in H.
  destruct (b =? 92); [|discriminate].
  destruct (c =? 120).
  { destruct (all_n is_hex 2 t) eqn:E; [|discriminate].
    apply all_n_len in E; inversion H; subst; simpl; lia. }
  destruct (c =? 117).
  { destruct (all_n is_hex 4 t) eqn:E; [|discriminate].
    apply all_n_len in E; inversion H; subst; simpl; lia. }
  destruct (c =? 85).
  { destruct (all_n is_hex 8 t) eqn:E; [|discriminate].
    apply all_n_len in E; inversion H; subst; simpl; lia. }
  destruct (is_simple_esc c); [|discriminate].
  inversion H; subst; simpl; lia.
Qed.

Lemma m_ordinal_pos : forall l n, m_ordinal l = Some n -> (0 < n <= length l)%nat.
Proof.
  intros l n H; destruct l as [|c t]; [discriminate|].
  unfold m_ordinal in H.
  destruct (is_nz c); [|discriminate].
  inversion H; subst.
  pose proof (span_le is_digit t); simpl; lia.
Qed.

Lemma m_integer_pos : forall l n, m_integer l = Some n -> (0 < n <= length l)%nat.
Proof.
  intros l n H; destruct l as [|c t]; [discriminate|].
  unfold m_integer in H.
  destruct (c =? 48).
  { inversion H; subst; simpl; lia. }
  destruct (is_sign c).
  - destruct (m_ordinal t) as [m|] eqn:E; [|discriminate].
    apply m_ordinal_pos in E. simpl in H. inversion H; subst. simpl; lia.
  - apply m_ordinal_pos in H; exact H.
Qed.

Lemma m_scalar_pos : forall l n, m_scalar l = Some n -> (0 < n <= length l)%nat.
Proof.
  intros l n H. unfold m_scalar in H.
  match type of H with
  | match ?X with _ => _ end = _ => remember X as ip eqn:Hip
  end.
  assert (Hm : forall m, ip = Some m -> (0 < m <= length l)%nat).
  { intros m Hm; subst ip. destruct l as [|c t]; [discriminate|].
    destruct (c =? 48).
    - inversion Hm; subst; simpl; lia.
    - apply m_ordinal_pos in Hm; exact Hm. }
  clear Hip.
  destruct ip as [m|]; [|discriminate].
  specialize (Hm m eq_refl).
  destruct (skipn m l) as [|d t] eqn:Es; [discriminate|].
  destruct (d =? 46); [|discriminate].
  destruct (span is_digit t =? 0)%nat; [discriminate|].
  inversion H; subst.
  assert (Hl : length (skipn m l) = S (length t)) by (rewrite Es; reflexivity).
  rewrite skipn_length in Hl.
  pose proof (span_le is_digit t). lia.
Qed.

Lemma m_exponent_pos : forall l n, m_exponent l = Some n -> (0 < n <= length l)%nat.
Proof.
  intros l n H. destruct l as [|e [|s t]]; try discriminate.
  unfold m_exponent in H.
  destruct (is_e e && is_sign s); [|discriminate].
  destruct (m_ordinal t) as [m|] eqn:E; [|discriminate].
  apply m_ordinal_pos in E. simpl in H. inversion H; subst. simpl; lia.
Qed.

Lemma m_float_pos : forall l n, m_float l = Some n -> (0 < n <= length l)%nat.
Proof.
  intros l n H. unfold m_float in H.
  match type of H with
  | match m_scalar (skipn ?X l) with _ => _ end = _ => remember X as sg eqn:Hsg
  end.
  assert (Hs : (sg <= length l)%nat).
  { subst sg. destruct l as [|c t]; simpl; [lia|]. destruct (is_sign c); lia. }
  clear Hsg.
  destruct (m_scalar (skipn sg l)) as [m|] eqn:E; [|discriminate].
  apply m_scalar_pos in E. rewrite skipn_length in E.
  destruct (m_exponent (skipn m (skipn sg l))) as [k|] eqn:E2.
  - apply m_exponent_pos in E2. rewrite !skipn_length in E2.
    inversion H; subst. lia.
  - inversion H; subst. lia.
Qed.

Lemma m_complex_parts_len : forall l n1 n2,
  m_complex_parts l = Some (n1, n2) -> (1 + n1 + 1 + n2 + 2 <= length l)%nat.
Proof.
  intros l n1 n2 H. destruct l as [|c l1]; [discriminate|].
  unfold m_complex_parts in H.
  destruct (c =? 40); [|discriminate].
  destruct (m_float l1) as [a|] eqn:E1; [|discriminate].
  destruct (skipn a l1) as [|s l2] eqn:Es1; [discriminate|].
  destruct (is_sign s); [|discriminate].
  destruct (m_float l2) as [b|] eqn:E2; [|discriminate].
  destruct (skipn b l2) as [|i [|p r]] eqn:Es2; try discriminate.
  destruct ((i =? 105) && (p =? 41)); [|discriminate].
  inversion H; subst.
  apply m_float_pos in E1. apply m_float_pos in E2.
  assert (H1 : length (skipn n1 l1) = S (length l2)) by (rewrite Es1; reflexivity).
  assert (H2 : length (skipn n2 l2) = S (S (length r))) by (rewrite Es2; reflexivity).
  rewrite skipn_length in H1, H2. simpl. lia.
Qed.

Lemma m_complex_pos : forall l n, m_complex l = Some n -> (0 < n <= length l)%nat.
Proof.
  intros l n H. unfold m_complex in H.
  destruct (m_complex_parts l) as [[n1 n2]|] eqn:E; [|discriminate].
  apply m_complex_parts_len in E. inversion H; subst. lia.
Qed.

Lemma m_first_of_inv : forall names l n, m_first_of names l = Some n ->
  exists s, In s names /\ starts (zs s) l = true /\ n = String.length s.
Proof.
  intros names; induction names as [|s r IH]; intros l n H; simpl in H; [discriminate|].
  destruct (starts (zs s) l) eqn:E.
  - inversion H; subst. exists s; simpl; auto.
  - destruct (IH _ _ H) as (s' & Hin & Hs & Hn). exists s'; simpl; auto.
Qed.

Lemma type_names_pos : forall s, In s type_names -> (0 < String.length s)%nat.
Proof.
  intros s H; unfold type_names in H; simpl in H.
  repeat (destruct H as [H|H]; [subst s; simpl; lia|]). contradiction.
Qed.

(* a successful match of the type class is the text of one of the seven names *)
Lemma m_type_inv : forall l n, m_type l = Some n ->
  exists s, In s type_names /\ firstn n l = zs s /\ n = length (zs s) /\ (n <= length l)%nat.
Proof.
  intros l n H. unfold m_type in H.
  destruct (m_first_of_inv _ _ _ H) as (s & Hin & Hs & Hn).
  exists s. rewrite zs_length. repeat split; auto.
  - subst n. rewrite <- zs_length. apply starts_firstn; exact Hs.
  - subst n. rewrite <- zs_length. apply starts_len; exact Hs.
Qed.

Lemma m_rune_pos : forall l n, m_rune l = Some n -> (0 < n <= length l)%nat.
Proof.
  intros l n H. destruct l as [|q t]; [discriminate|].
  unfold m_rune in H.
  destruct (q =? 39); [|discriminate].
  destruct (m_escape t) as [k|] eqn:E.
  - destruct (skipn k t) as [|q2 r] eqn:Es.
    + destruct t as [|c [|q3 r3]]; try discriminate.
      destruct (negb (c =? 39) && negb (c =? 10) && (q3 =? 39)); [|discriminate].
      inversion H; subst; simpl; lia.
    + destruct (q2 =? 39).
      * inversion H; subst.
        assert (Hl : length (skipn k t) = S (length r)) by (rewrite Es; reflexivity).
        rewrite skipn_length in Hl. simpl. lia.
      * destruct t as [|c [|q3 r3]]; try discriminate.
        destruct (negb (c =? 39) && negb (c =? 10) && (q3 =? 39)); [|discriminate].
        inversion H; subst; simpl; lia.
  - destruct t as [|c [|q3 r3]]; try discriminate.
    destruct (negb (c =? 39) && negb (c =? 10) && (q3 =? 39)); [|discriminate].
    inversion H; subst; simpl; lia.
Qed.

Lemma str_body_S : forall f c t,
  str_body (S f) (c :: t) =
  let alt2 := if c =? 34 then Some 1%nat
              else if c =? 10 then None
              else option_map S (str_body f t) in
  match m_escape (c :: t) with
  | Some k =>
    if has_close (skipn k (c :: t))
    then option_map (fun n => (k + n)%nat) (str_body f (skipn k (c :: t)))
    else alt2
  | None => alt2
  end.
Proof. reflexivity. Qed.

Lemma str_bt_S : forall f c t,
  str_bt (S f) (c :: t) =
  let alt2 := if c =? 34 then Some 1%nat
              else if c =? 10 then None
              else option_map S (str_bt f t) in
  match m_escape (c :: t) with
  | Some k =>
    match str_bt f (skipn k (c :: t)) with
    | Some n => Some (k + n)%nat
    | None => alt2
    end
  | None => alt2
  end.
Proof. reflexivity. Qed.

Lemma str_body_pos : forall fuel l n, str_body fuel l = Some n -> (0 < n <= length l)%nat.
Proof.
  induction fuel as [|f IH]; intros l n H; [discriminate|].
  destruct l as [|c t]; [discriminate|].
  rewrite str_body_S in H. cbv zeta in H.
  assert (Halt : forall m,
            (if c =? 34 then Some 1%nat else if c =? 10 then None else option_map S (str_body f t)) = Some m ->
            (0 < m <= length (c :: t))%nat).
  { intros m Hm. destruct (c =? 34).
    - inversion Hm; subst; simpl; lia.
    - destruct (c =? 10); [discriminate|].
      destruct (str_body f t) as [m'|] eqn:E; [|discriminate].
      apply IH in E. simpl in Hm. inversion Hm; subst. simpl; lia. }
  destruct (m_escape (c :: t)) as [k|] eqn:Ee; [|apply Halt; exact H].
  destruct (has_close (skipn k (c :: t))); [|apply Halt; exact H].
  destruct (str_body f (skipn k (c :: t))) as [m'|] eqn:E; [|discriminate].
  apply IH in E. rewrite skipn_length in E.
  apply m_escape_len in Ee. simpl in H. inversion H; subst. lia.
Qed.

Lemma m_string_pos : forall l n, m_string l = Some n -> (0 < n <= length l)%nat.
Proof.
  intros l n H. destruct l as [|q t]; [discriminate|].
  unfold m_string in H.
  destruct (q =? 34); [|discriminate].
  destruct (str_body (S (length t)) t) as [m|] eqn:E; [|discriminate].
  apply str_body_pos in E. simpl in H. inversion H; subst. simpl; lia.
Qed.

Lemma recognize_pos : forall ty l n, recognize ty l = Some n -> (0 < n <= length l)%nat.
Proof.
  intros ty l n H. destruct ty; simpl in H; try discriminate.
  - (* boolean *)
    unfold m_boolean in H.
    destruct (starts (zs "false") l) eqn:E1.
    + apply starts_len in E1. inversion H; subst. simpl in E1. lia.
    + destruct (starts (zs "true") l) eqn:E2; [|discriminate].
      apply starts_len in E2. inversion H; subst. simpl in E2. lia.
  - apply m_complex_pos; exact H.
  - (* delimiter *)
    unfold m_delimiter in H. destruct l as [|c t]; [discriminate|].
    destruct (is_delim c); [|discriminate]. inversion H; subst; simpl; lia.
  - (* eol *)
    unfold m_eol in H. destruct l as [|c t]; [discriminate|].
    destruct (c =? 10); [|discriminate]. inversion H; subst; simpl; lia.
  - apply m_float_pos; exact H.
  - (* hexadecimal *)
    unfold m_hexadecimal in H. destruct l as [|z [|x t]]; try discriminate.
    destruct ((z =? 48) && (x =? 120)); [|discriminate].
    destruct (span is_hex t =? 0)%nat; [discriminate|].
    inversion H; subst. pose proof (span_le is_hex t). simpl; lia.
  - apply m_integer_pos; exact H.
  - (* nil *)
    unfold m_nil in H.
    destruct (starts (zs "nil") l) eqn:E1; [|discriminate].
    apply starts_len in E1. inversion H; subst. simpl in E1. lia.
  - apply m_rune_pos; exact H.
  - (* space *)
    unfold m_space in H.
    destruct (span is_space l =? 0)%nat eqn:E; [discriminate|].
    apply Nat.eqb_neq in E. inversion H; subst.
    pose proof (span_le is_space l). lia.
  - apply m_string_pos; exact H.
  - (* type *)
    destruct (m_type_inv _ _ H) as (s & Hin & _ & Hn & Hle).
    apply type_names_pos in Hin. rewrite zs_length in Hn. lia.
Qed.

Lemma try_types_recognize : forall order l ty n,
  try_types order l = Some (ty, n) -> recognize ty l = Some n.
Proof.
  induction order as [|ty0 r IH]; intros l ty n H; simpl in H; [discriminate|].
  destruct (recognize ty0 l) as [m|] eqn:E.
  - inversion H; subst; exact E.
  - apply IH; exact H.
Qed.

Lemma try_types_pos : forall order l ty n, try_types order l = Some (ty, n) ->
  (0 < n <= length l)%nat /\ ty <> TError /\ ty <> TEOF.
Proof.
  intros order l ty n H. apply try_types_recognize in H.
  split; [eapply recognize_pos; exact H|].
  split; intros ->; discriminate.
Qed.

(* ====================================================================== *)
(* D. Totality of the lexer                                               *)
(* ====================================================================== *)

Definition clean (t : token) : Prop :=
  ttype_of t <> TEOF /\ ttype_of t <> TError /\ ttype_of t <> TSpace.

Inductive well_ended : list token -> Prop :=
| we_eof : forall body e, Forall clean body -> ttype_of e = TEOF -> well_ended (body ++ [e])
| we_err : forall body x e, Forall clean body -> ttype_of x = TError -> ttype_of e = TEOF ->
    tline e = tline x -> tpos e = tpos x -> well_ended (body ++ [x; e]).

Lemma well_ended_cons : forall t r, clean t -> well_ended r -> well_ended (t :: r).
Proof.
  intros t r Hc Hw. destruct Hw as [body e Hb He|body x e Hb Hx He Hl Hp].
  - change (t :: body ++ [e]) with ((t :: body) ++ [e]). apply we_eof; auto.
  - change (t :: body ++ [x; e]) with ((t :: body) ++ [x; e]). apply we_err; auto.
Qed.

Definition line_next (line : Z) (text : list Z) : Z :=
  if (0 <? count_nl text)%nat then line + Z.of_nat (count_nl text) else line.
Definition pos_next (pos : Z) (text : list Z) (n : nat) : Z :=
  if (0 <? count_nl text)%nat then index_of_last_eol text else pos + Z.of_nat n.

Lemma lex_loop_nil : forall order fuel line pos,
  lex_loop order fuel [] line pos = [mkTok TEOF [] line pos].
Proof. intros order fuel line pos; destruct fuel; reflexivity. Qed.

Lemma lex_loop_S : forall order f c t line pos,
  lex_loop order (S f) (c :: t) line pos =
  match try_types order (c :: t) with
  | None => [mkTok TError (rename [c]) line pos; mkTok TEOF (rename [c]) line pos]
  | Some (ty, n) =>
    (match ty with TSpace => [] | _ => [mkTok ty (rename (firstn n (c :: t))) line pos] end)
    ++ lex_loop order f (skipn n (c :: t))
         (line_next line (firstn n (c :: t))) (pos_next pos (firstn n (c :: t)) n)
  end.
Proof. reflexivity. Qed.

Lemma lex_loop_total : forall order fuel l line pos, (length l <= fuel)%nat ->
  well_ended (lex_loop order fuel l line pos).
Proof.
  intros order fuel; induction fuel as [|f IH]; intros l line pos Hl.
  - destruct l as [|c t]; [|simpl in Hl; lia].
    rewrite lex_loop_nil. apply (we_eof [] (mkTok TEOF [] line pos)); auto.
  - destruct l as [|c t].
    + rewrite lex_loop_nil. apply (we_eof [] (mkTok TEOF [] line pos)); auto.
    + rewrite lex_loop_S.
      destruct (try_types order (c :: t)) as [[ty n]|] eqn:E.
      * destruct (try_types_pos _ _ _ _ E) as (Hn & Herr & Heof).
        assert (Hrest : well_ended (lex_loop order f (skipn n (c :: t))
                   (line_next line (firstn n (c :: t))) (pos_next pos (firstn n (c :: t)) n))).
        { apply IH. rewrite skipn_length.
          change (length (c :: t)) with (S (length t)) in *. lia. }
        destruct ty; try exact Hrest; try congruence;
          (apply well_ended_cons; [|exact Hrest]);
          (unfold clean; simpl; repeat split; discriminate).
      * apply (we_err [] (mkTok TError (rename [c]) line pos) (mkTok TEOF (rename [c]) line pos));
          auto.
Qed.

Theorem lex_total : forall src, well_ended (lex src).
Proof. intros src; unfold lex; apply lex_loop_total; lia. Qed.

(* ====================================================================== *)
(* E. Positions                                                           *)
(* ====================================================================== *)

Fixpoint since_nl_acc (acc : nat) (l : list Z) : nat :=
  match l with
  | [] => acc
  | c :: t => if c =? 10 then since_nl_acc 0 t else since_nl_acc (S acc) t
  end.
(* 1 + number of newlines before *)
Definition line_of (pre : list Z) : Z := 1 + Z.of_nat (count_nl pre).
(* 1 + runes since the last newline *)
Definition col_of (pre : list Z) : Z := 1 + Z.of_nat (since_nl_acc 0 pre).

(* offset-annotated copy of lex_loop: off = number of runes consumed before l *)
Fixpoint lex_off_loop (order : list ttype) (fuel : nat) (l : list Z) (line pos : Z) (off : nat)
  : list (nat * token) :=
  match l with
  | [] => [(off, mkTok TEOF [] line pos)]
  | c :: _ =>
    match fuel with
    | O => []
    | S f =>
      match try_types order l with
      | None =>
        [(off, mkTok TError (rename [c]) line pos); (off, mkTok TEOF (rename [c]) line pos)]
      | Some (ty, n) =>
        let text := firstn n l in
        let rest := skipn n l in
        let emitted := match ty with
                       | TSpace => []
                       | _ => [(off, mkTok ty (rename text) line pos)]
                       end in
        let cnt := count_nl text in
        let line' := if (0 <? cnt)%nat then line + Z.of_nat cnt else line in
        let pos' := if (0 <? cnt)%nat then index_of_last_eol text else pos + Z.of_nat n in
        emitted ++ lex_off_loop order f rest line' pos' (off + n)
      end
    end
  end.

Definition lex_off (src : list Z) : list (nat * token) :=
  lex_off_loop scan_order_t (length src) src 1 1 0.

Lemma lex_off_loop_nil : forall order fuel line pos off,
  lex_off_loop order fuel [] line pos off = [(off, mkTok TEOF [] line pos)].
Proof. intros order fuel line pos off; destruct fuel; reflexivity. Qed.

Lemma lex_off_loop_S : forall order f c t line pos off,
  lex_off_loop order (S f) (c :: t) line pos off =
  match try_types order (c :: t) with
  | None => [(off, mkTok TError (rename [c]) line pos); (off, mkTok TEOF (rename [c]) line pos)]
  | Some (ty, n) =>
    (match ty with
     | TSpace => []
     | _ => [(off, mkTok ty (rename (firstn n (c :: t))) line pos)]
     end)
    ++ lex_off_loop order f (skipn n (c :: t))
         (line_next line (firstn n (c :: t))) (pos_next pos (firstn n (c :: t)) n) (off + n)
  end.
Proof. reflexivity. Qed.

Lemma lex_off_loop_erase : forall order fuel l line pos off,
  map snd (lex_off_loop order fuel l line pos off) = lex_loop order fuel l line pos.
Proof.
  intros order fuel; induction fuel as [|f IH]; intros l line pos off.
  - destruct l; reflexivity.
  - destruct l as [|c t]; [reflexivity|].
    rewrite lex_off_loop_S, lex_loop_S.
    destruct (try_types order (c :: t)) as [[ty n]|]; [|reflexivity].
    rewrite map_app, IH. f_equal. destruct ty; reflexivity.
Qed.

Lemma lex_off_erase : forall src, map snd (lex_off src) = lex src.
Proof. intros src; apply lex_off_loop_erase. Qed.

(* --- arithmetic of newlines --- *)

Lemma count_nl_cons : forall c t,
  count_nl (c :: t) = if c =? 10 then S (count_nl t) else count_nl t.
Proof. intros c t; unfold count_nl; simpl; destruct (c =? 10); reflexivity. Qed.

Lemma count_nl_app : forall l1 l2, count_nl (l1 ++ l2) = (count_nl l1 + count_nl l2)%nat.
Proof. intros l1 l2; unfold count_nl; rewrite filter_app, app_length; reflexivity. Qed.

Lemma since_nl_acc_app : forall l1 l2 a,
  since_nl_acc a (l1 ++ l2) = since_nl_acc (since_nl_acc a l1) l2.
Proof.
  induction l1 as [|c t IH]; intros l2 a; simpl; [reflexivity|].
  destruct (c =? 10); apply IH.
Qed.

Lemma since_nl_acc_no_nl : forall text a, count_nl text = 0%nat ->
  since_nl_acc a text = (a + length text)%nat.
Proof.
  induction text as [|c t IH]; intros a H; simpl; [lia|].
  rewrite count_nl_cons in H.
  destruct (c =? 10); [discriminate|].
  rewrite IH by exact H. lia.
Qed.

Lemma index_of_last_eol_cons : forall c t,
  index_of_last_eol (c :: t) =
  if index_of_last_eol t =? 0
  then (if c =? 10 then Z.of_nat (S (length t)) else 0)
  else index_of_last_eol t.
Proof. reflexivity. Qed.

Lemma index_of_last_eol_no_nl : forall text, count_nl text = 0%nat ->
  index_of_last_eol text = 0.
Proof.
  induction text as [|c t IH]; intros H; [reflexivity|].
  rewrite count_nl_cons in H. rewrite index_of_last_eol_cons.
  destruct (c =? 10); [discriminate|].
  rewrite IH by exact H. reflexivity.
Qed.

Lemma index_of_last_eol_nl : forall text a, (0 < count_nl text)%nat ->
  index_of_last_eol text = Z.of_nat (1 + since_nl_acc a text).
Proof.
  induction text as [|c t IH]; intros a H; [unfold count_nl in H; simpl in H; lia|].
  rewrite count_nl_cons in H. rewrite index_of_last_eol_cons.
  destruct (Nat.eq_dec (count_nl t) 0) as [Hz|Hnz].
  - rewrite Hz in H.
    rewrite (index_of_last_eol_no_nl t Hz).
    simpl since_nl_acc.
    destruct (c =? 10); [|lia].
    rewrite (since_nl_acc_no_nl t 0%nat Hz). simpl Z.eqb. cbv iota. f_equal.
  - assert (Hp : (0 < count_nl t)%nat) by lia.
    simpl since_nl_acc.
    destruct (c =? 10).
    + rewrite (IH 0%nat Hp).
      destruct (Z.eqb_spec (Z.of_nat (1 + since_nl_acc 0 t)) 0); [lia|reflexivity].
    + rewrite (IH (S a) Hp).
      destruct (Z.eqb_spec (Z.of_nat (1 + since_nl_acc (S a) t)) 0); [lia|reflexivity].
Qed.

Lemma line_of_app : forall pre text, line_of (pre ++ text) = line_next (line_of pre) text.
Proof.
  intros pre text. unfold line_of, line_next. rewrite count_nl_app.
  destruct (Nat.ltb_spec 0 (count_nl text)); lia.
Qed.

Lemma col_of_app : forall pre text,
  col_of (pre ++ text) = pos_next (col_of pre) text (length text).
Proof.
  intros pre text. unfold col_of, pos_next. rewrite since_nl_acc_app.
  destruct (Nat.ltb_spec 0 (count_nl text)) as [Hp|Hz].
  - rewrite (index_of_last_eol_nl text (since_nl_acc 0 pre) Hp). lia.
  - rewrite since_nl_acc_no_nl by lia. lia.
Qed.

Lemma firstn_app_length : forall (pre l : list Z), firstn (length pre) (pre ++ l) = pre.
Proof. induction pre as [|p pre IH]; intros l; simpl; [destruct l; reflexivity|f_equal; apply IH]. Qed.

Lemma skipn_app_length : forall (pre l : list Z), skipn (length pre) (pre ++ l) = l.
Proof. induction pre as [|p pre IH]; intros l; simpl; [reflexivity|apply IH]. Qed.

(* what every (offset, token) pair of the annotated run satisfies *)
Definition tok_spec (order : list ttype) (src : list Z) (k : nat) (t : token) : Prop :=
  (k <= length src)%nat /\
  tline t = line_of (firstn k src) /\
  tpos t = col_of (firstn k src) /\
  (ttype_of t <> TEOF -> ttype_of t <> TError ->
     exists n, try_types order (skipn k src) = Some (ttype_of t, n) /\
               tval t = rename (firstn n (skipn k src))) /\
  (ttype_of t = TError ->
     exists c, nth_error src k = Some c /\ tval t = rename [c] /\
               try_types order (skipn k src) = None).

Lemma lex_off_loop_spec : forall order fuel src pre l line pos off,
  src = pre ++ l -> line = line_of pre -> pos = col_of pre -> off = length pre ->
  forall k t, In (k, t) (lex_off_loop order fuel l line pos off) -> tok_spec order src k t.
Proof.
  intros order fuel; induction fuel as [|f IH];
    intros src pre l line pos off Hsrc Hline Hpos Hoff k t Hin.
  - destruct l as [|c r]; [|contradiction].
    rewrite lex_off_loop_nil in Hin. destruct Hin as [Heq|[]].
    inversion Heq; subst. unfold tok_spec; simpl.
    rewrite firstn_app_length, app_length.
    repeat split; try lia; try congruence; try discriminate.
  - destruct l as [|c r].
    { rewrite lex_off_loop_nil in Hin. destruct Hin as [Heq|[]].
      inversion Heq; subst. unfold tok_spec; simpl.
      rewrite firstn_app_length, app_length.
      repeat split; try lia; try congruence; try discriminate. }
    rewrite lex_off_loop_S in Hin.
    destruct (try_types order (c :: r)) as [[ty n]|] eqn:E.
    + apply in_app_or in Hin. destruct Hin as [Hin|Hin].
      * assert (Heq : (k, t) = (off, mkTok ty (rename (firstn n (c :: r))) line pos)).
        { destruct ty; simpl in Hin; try contradiction;
            (destruct Hin as [Hin|[]]; symmetry; exact Hin). }
        inversion Heq; subst. unfold tok_spec; simpl.
        rewrite firstn_app_length, skipn_app_length, app_length.
        repeat split; try lia.
        -- intros _ _. exists n; split; [exact E|reflexivity].
        -- intros Hty; subst ty. apply try_types_pos in E. destruct E as (_ & Hn & _).
           congruence.
      * destruct (try_types_pos _ _ _ _ E) as (Hn & _ & _).
        apply (IH src (pre ++ firstn n (c :: r)) (skipn n (c :: r))
                  (line_next line (firstn n (c :: r)))
                  (pos_next pos (firstn n (c :: r)) n) (off + n)%nat); try exact Hin.
        -- rewrite <- app_assoc, firstn_skipn. exact Hsrc.
        -- rewrite line_of_app. subst line; reflexivity.
        -- rewrite col_of_app. subst pos. rewrite firstn_length_le by lia. reflexivity.
        -- rewrite app_length, firstn_length_le by lia. subst off; reflexivity.
    + assert (Hk : k = off /\ (t = mkTok TError (rename [c]) line pos \/
                               t = mkTok TEOF (rename [c]) line pos)).
      { destruct Hin as [Heq|[Heq|[]]]; inversion Heq; subst; auto. }
      destruct Hk as [Hk Ht]. subst k off src line pos.
      unfold tok_spec.
      rewrite firstn_app_length, skipn_app_length, app_length.
      destruct Ht as [Ht|Ht]; subst t; simpl.
      * repeat split; try lia; try congruence.
        intros _. exists c. rewrite nth_error_app2 by lia. rewrite Nat.sub_diag.
        repeat split; auto.
      * repeat split; try lia; try congruence; try discriminate.
Qed.

Lemma lex_off_spec : forall src k t, In (k, t) (lex_off src) -> tok_spec scan_order_t src k t.
Proof.
  intros src k t H. unfold lex_off in H.
  apply (lex_off_loop_spec scan_order_t (length src) src [] src 1 1 0%nat); auto.
Qed.

Theorem lex_positions : forall src k t, In (k, t) (lex_off src) ->
  (k <= length src)%nat /\ tline t = line_of (firstn k src) /\ tpos t = col_of (firstn k src).
Proof.
  intros src k t H. destruct (lex_off_spec _ _ _ H) as (H1 & H2 & H3 & _). auto.
Qed.

(* strengthened form: the type of the token is the FIRST class of the scan order that matches *)
Theorem lex_token_first : forall src k t, In (k, t) (lex_off src) ->
  ttype_of t <> TEOF -> ttype_of t <> TError ->
  exists n, try_types scan_order_t (skipn k src) = Some (ttype_of t, n) /\
            tval t = rename (firstn n (skipn k src)).
Proof.
  intros src k t H. destruct (lex_off_spec _ _ _ H) as (_ & _ & _ & H4 & _). exact H4.
Qed.

Theorem lex_token_text : forall src k t, In (k, t) (lex_off src) ->
  ttype_of t <> TEOF -> ttype_of t <> TError ->
  exists n, recognize (ttype_of t) (skipn k src) = Some n /\
            tval t = rename (firstn n (skipn k src)).
Proof.
  intros src k t H H1 H2. destruct (lex_token_first _ _ _ H H1 H2) as (n & Hn & Hv).
  exists n; split; [apply try_types_recognize with (order := scan_order_t); exact Hn|exact Hv].
Qed.

Theorem lex_error_text : forall src k t, In (k, t) (lex_off src) -> ttype_of t = TError ->
  exists c, nth_error src k = Some c /\ tval t = rename [c] /\
            try_types scan_order_t (skipn k src) = None.
Proof.
  intros src k t H. destruct (lex_off_spec _ _ _ H) as (_ & _ & _ & _ & H5). exact H5.
Qed.

(* ====================================================================== *)
(* F. Type tokens carry one of the seven names                            *)
(* ====================================================================== *)

Lemma rename_type_name : forall s, In s type_names -> rename (zs s) = zs s.
Proof.
  intros s H; unfold type_names in H; simpl in H.
  repeat (destruct H as [H|H]; [subst s; reflexivity|]). contradiction.
Qed.

Theorem lex_types_ok : forall src t, In t (lex src) -> ttype_of t = TType ->
  In (tval t) (map zs type_names).
Proof.
  intros src t Hin Hty. rewrite <- lex_off_erase in Hin.
  apply in_map_iff in Hin. destruct Hin as ([k t'] & Hs & Hin). simpl in Hs; subst t'.
  destruct (lex_token_text _ _ _ Hin) as (n & Hr & Hv); try (rewrite Hty; discriminate).
  rewrite Hty in Hr. simpl in Hr.
  destruct (m_type_inv _ _ Hr) as (s & Hs & Hf & _).
  rewrite Hv, Hf, (rename_type_name s Hs). apply in_map; exact Hs.
Qed.

(* ====================================================================== *)
(* C. The string recognizer equals the literal backtracking reading       *)
(* ====================================================================== *)

Lemma is_hex_has_close : forall h t, is_hex h = true -> has_close (h :: t) = has_close t.
Proof.
  intros h t H. unfold is_hex, is_digit in H.
  rewrite orb_true_iff, !andb_true_iff, !Z.leb_le in H.
  simpl.
  destruct (Z.eqb_spec h 34); [lia|].
  destruct (Z.eqb_spec h 10); [lia|]. reflexivity.
Qed.

Lemma all_n_hex_has_close : forall n t, all_n is_hex n t = true ->
  has_close t = has_close (skipn n t).
Proof.
  induction n as [|n IH]; intros t H; [reflexivity|].
  destruct t as [|h t]; [discriminate|].
  simpl in H. apply andb_true_iff in H. destruct H as [Hh H].
  rewrite (is_hex_has_close h t Hh). simpl skipn. apply IH; exact H.
Qed.

Lemma m_escape_head : forall l k, m_escape l = Some k -> exists t, l = 92 :: t.
Proof.
  intros l k H. destruct l as [|b [|c t]]; try discriminate.
  unfold m_escape in H.
  destruct (Z.eqb_spec b 92); [|discriminate]. subst b. eauto.
Qed.

(* a closing quote reachable behind a matched escape is reachable before it as well *)
Lemma m_escape_has_close : forall l k, m_escape l = Some k ->
  has_close (skipn k l) = true -> has_close l = true.
Proof.
  intros l k H Hc. destruct l as [|b [|c t]]; try discriminate.
  unfold m_escape in H.
  destruct (Z.eqb_spec b 92); [|discriminate]. subst b.
  destruct (Z.eqb_spec c 120).
  { subst c. destruct (all_n is_hex 2 t) eqn:E; [|discriminate].
    inversion H; subst k.
    change (has_close (skipn 2 t) = true) in Hc.
    change (has_close t = true). rewrite (all_n_hex_has_close 2 t E). exact Hc. }
  destruct (Z.eqb_spec c 117).
  { subst c. destruct (all_n is_hex 4 t) eqn:E; [|discriminate].
    inversion H; subst k.
    change (has_close (skipn 4 t) = true) in Hc.
    change (has_close t = true). rewrite (all_n_hex_has_close 4 t E). exact Hc. }
  destruct (Z.eqb_spec c 85).
  { subst c. destruct (all_n is_hex 8 t) eqn:E; [|discriminate].
    inversion H; subst k.
    change (has_close (skipn 8 t) = true) in Hc.
    change (has_close t = true). rewrite (all_n_hex_has_close 8 t E). exact Hc. }
  destruct (is_simple_esc c) eqn:Es; [|discriminate].
  inversion H; subst k.
  change (has_close t = true) in Hc.
  change (has_close (92 :: c :: t)) with
    (if c =? 34 then true else if c =? 10 then false else has_close t).
  destruct (c =? 34); [reflexivity|].
  destruct (Z.eqb_spec c 10); [subst c; discriminate Es|exact Hc].
Qed.

Lemma str_bt_some_iff : forall fuel l, (length l < fuel)%nat ->
  (str_bt fuel l <> None <-> has_close l = true).
Proof.
  induction fuel as [|f IH]; intros l Hl; [lia|].
  destruct l as [|c t].
  { simpl. split; [congruence|discriminate]. }
  simpl in Hl.
  rewrite str_bt_S. cbv zeta.
  assert (Halt : (if c =? 34 then Some 1%nat else if c =? 10 then None
                  else option_map S (str_bt f t)) <> None <-> has_close (c :: t) = true).
  { simpl has_close. destruct (c =? 34); [split; [reflexivity|discriminate]|].
    destruct (c =? 10); [split; [congruence|discriminate]|].
    rewrite <- (IH t) by lia.
    destruct (str_bt f t); simpl; split; congruence. }
  destruct (m_escape (c :: t)) as [k|] eqn:Ee; [|exact Halt].
  pose proof (m_escape_len _ _ Ee) as Hk. simpl in Hk.
  assert (Hlen : (length (skipn k (c :: t)) < f)%nat).
  { rewrite skipn_length. change (length (c :: t)) with (S (length t)). lia. }
  destruct (str_bt f (skipn k (c :: t))) as [m|] eqn:Eb; [|exact Halt].
  split; [intros _|discriminate].
  apply (m_escape_has_close _ _ Ee).
  apply (IH _ Hlen). rewrite Eb; discriminate.
Qed.

Lemma str_body_bt : forall fuel l, (length l < fuel)%nat -> str_body fuel l = str_bt fuel l.
Proof.
  induction fuel as [|f IH]; intros l Hl; [lia|].
  destruct l as [|c t]; [reflexivity|].
  simpl in Hl.
  rewrite str_body_S, str_bt_S. cbv zeta.
  rewrite (IH t) by lia.
  destruct (m_escape (c :: t)) as [k|] eqn:Ee; [|reflexivity].
  pose proof (m_escape_len _ _ Ee) as Hk. simpl in Hk.
  assert (Hlen : (length (skipn k (c :: t)) < f)%nat).
  { rewrite skipn_length. change (length (c :: t)) with (S (length t)). lia. }
  rewrite (IH _ Hlen).
  pose proof (str_bt_some_iff f _ Hlen) as Hiff.
  destruct (has_close (skipn k (c :: t))).
  - destruct (str_bt f (skipn k (c :: t))) as [m|]; [reflexivity|].
    exfalso. apply (proj2 Hiff); reflexivity.
  - destruct (str_bt f (skipn k (c :: t))) as [m|]; [|reflexivity].
    assert (false = true) by (apply (proj1 Hiff); discriminate). discriminate.
Qed.

(* the fuel m_string passes is enough *)
Corollary m_string_bt : forall q t,
  m_string (q :: t) = if q =? 34 then option_map S (str_bt (S (length t)) t) else None.
Proof. intros q t. unfold m_string. rewrite str_body_bt by lia. reflexivity. Qed.

(* ====================================================================== *)
(* Non-vacuity examples                                                   *)
(* ====================================================================== *)

Example lex_example_error :
  lex (zs "[bad") = [mkTok TDelimiter [91] 1 1; mkTok TError [98] 1 2; mkTok TEOF [98] 1 2].
Proof. vm_compute. reflexivity. Qed.

(* two lines: an opening bracket, 1, a comma, a newline, two spaces, true, a closing bracket.
   The space token is dropped; the tokens of line 2 start at position 3. *)
Example lex_example_two_lines :
  lex (zs "[1," ++ [10] ++ zs "  true]") =
  [mkTok TDelimiter [91] 1 1; mkTok TInteger [49] 1 2; mkTok TDelimiter [44] 1 3;
   mkTok TEOL (zs "<EOLN>") 1 4;
   mkTok TBoolean (zs "true") 2 3; mkTok TDelimiter [93] 2 7; mkTok TEOF [] 2 8].
Proof. vm_compute. reflexivity. Qed.

Example lex_off_example_two_lines :
  map fst (lex_off (zs "[1," ++ [10] ++ zs "  true]")) = [0; 1; 2; 3; 6; 10; 11]%nat.
Proof. vm_compute. reflexivity. Qed.

(* a string with an escaped quote, two newlines, a space and a type name on line 3 *)
Example lex_example_string_type :
  lex ([34; 97; 92; 34; 98; 34; 10; 10; 32] ++ zs "Set") =
  [mkTok TString [34; 97; 92; 34; 98; 34] 1 1;
   mkTok TEOL (zs "<EOLN>") 1 7; mkTok TEOL (zs "<EOLN>") 2 1;
   mkTok TType (zs "Set") 3 2; mkTok TEOF [] 3 5].
Proof. vm_compute. reflexivity. Qed.

(* the backslash falls back to the character class when no closing quote follows the escape:
   quote, backslash, quote is a complete string token *)
Example m_string_backslash_fallback : m_string [34; 92; 34] = Some 3%nat.
Proof. reflexivity. Qed.

Example well_ended_example : well_ended (lex (zs "[bad")).
Proof. apply lex_total. Qed.
