(* SeqProofs.v — the loops of ListImpl.v equal the specification of Seq.v; history-level
   refinement of the two list machines; and what the specification itself says. *)
From Verif Require Import Base Seq ListImpl ListMachine.
From Coq Require Import Permutation.

Section SeqProofs.
Variable A : Type.
Variable zero : A.
Variable eqb : A -> A -> bool.

(* each lemma is generalized only over the section variables its statement mentions *)
Set Default Proof Using "Type".

(* ------------------------------------------------------------------ *)
(* generic list helpers                                                *)
(* ------------------------------------------------------------------ *)

Lemma skipn_skipn' : forall a b (l : list A), skipn a (skipn b l) = skipn (b + a) l.
Proof.
  intros a b; revert a; induction b as [|b IH]; intros a l.
  - reflexivity.
  - destruct l as [|x l].
    + cbn [skipn plus]. apply skipn_nil.
    + cbn [skipn plus]. apply IH.
Qed.

Lemma nth_skipn' : forall s k (l : list A) d, nth k (skipn s l) d = nth (s + k) l d.
Proof.
  induction s as [|s IH]; intros k l d.
  - reflexivity.
  - destruct l as [|x l].
    + cbn [skipn plus nth]. destruct k; reflexivity.
    + cbn [skipn plus nth]. apply IH.
Qed.

Lemma nth_firstn' : forall n k (l : list A) d, k < n -> nth k (firstn n l) d = nth k l d.
Proof.
  induction n as [|n IH]; intros k l d H.
  - lia.
  - destruct l as [|x l].
    + reflexivity.
    + cbn [firstn]. destruct k as [|k].
      * reflexivity.
      * cbn [nth]. apply IH. lia.
Qed.

Lemma skipn_cons_nth : forall s (l : list A) d,
  s < length l -> skipn s l = nth s l d :: skipn (S s) l.
Proof.
  induction s as [|s IH]; intros l d H; destruct l as [|x l]; cbn [length] in H; try lia.
  - reflexivity.
  - cbn [skipn nth]. rewrite (IH l d) by lia. reflexivity.
Qed.

Lemma firstn_S_nth : forall n (l : list A) d,
  n < length l -> firstn (S n) l = firstn n l ++ [nth n l d].
Proof.
  induction n as [|n IH]; intros l d H; destruct l as [|x l]; cbn [length] in H; try lia.
  - reflexivity.
  - cbn [nth]. change (firstn (S (S n)) (x :: l)) with (x :: firstn (S n) l).
    rewrite (IH l d) by lia. reflexivity.
Qed.

Lemma set_nth_app : forall (pre : list A) m rest v,
  set_nth (length pre) v (pre ++ m :: rest) = pre ++ v :: rest.
Proof.
  induction pre as [|x pre IH]; intros m rest v.
  - reflexivity.
  - cbn [length app set_nth]. f_equal. apply IH.
Qed.

Lemma remove_nth_eq : forall k (l : list A), remove_nth k l = firstn k l ++ skipn (S k) l.
Proof.
  intros k l; revert k; induction l as [|x l IH]; intros k.
  - destruct k; reflexivity.
  - destruct k as [|k].
    + reflexivity.
    + cbn [remove_nth firstn app]. change (skipn (S (S k)) (x :: l)) with (skipn (S k) l).
      f_equal. apply IH.
Qed.

Lemma set_nth_eq : forall k v (l : list A), k < length l ->
  set_nth k v l = firstn k l ++ v :: skipn (S k) l.
Proof.
  intros k v l; revert k; induction l as [|x l IH]; intros k H; cbn [length] in H.
  - lia.
  - destruct k as [|k].
    + reflexivity.
    + cbn [set_nth firstn app]. change (skipn (S (S k)) (x :: l)) with (skipn (S k) l).
      f_equal. apply IH. lia.
Qed.

Lemma repeat_S_app : forall (x : A) n, repeat x (S n) = repeat x n ++ [x].
Proof. intros x n. cbn [repeat]. apply repeat_cons. Qed.

(* ------------------------------------------------------------------ *)
(* array and iterator primitives                                       *)
(* ------------------------------------------------------------------ *)

Lemma arr_set_mid : forall (pre : list A) m rest v index,
  index = length pre ->
  arr_set (pre ++ m :: rest) (S index) v = Ret (pre ++ v :: rest).
Proof.
  intros pre m rest v index ->. unfold arr_set.
  assert (H : (length (pre ++ m :: rest) <? S (length pre)) = false).
  { apply Nat.ltb_ge. rewrite app_length. cbn [length]. lia. }
  rewrite H. cbn [Nat.eqb orb].
  replace (S (length pre) - 1) with (length pre) by lia.
  rewrite set_nth_app. reflexivity.
Qed.

Lemma arr_set_fill : forall (pre : list A) n v index,
  index = length pre ->
  arr_set (pre ++ repeat zero (S n)) (S index) v = Ret ((pre ++ [v]) ++ repeat zero n).
Proof.
  intros pre n v index H. cbn [repeat]. rewrite (arr_set_mid pre zero _ v index H).
  rewrite <- app_assoc. reflexivity.
Qed.

Definition mk (vs : list A) (s : nat) : iter A := {| it_vals := vs; it_slot := s |}.

Lemma it_make_mk : forall vs, it_make vs = mk vs 0.
Proof. reflexivity. Qed.

Lemma has_next_lt : forall vs s, s < length vs -> has_next (mk vs s) = true.
Proof. intros vs s H. unfold has_next, it_size, mk. cbn [it_vals it_slot]. apply Nat.ltb_lt. exact H. Qed.

Lemma has_next_ge : forall vs s, length vs <= s -> has_next (mk vs s) = false.
Proof. intros vs s H. unfold has_next, it_size, mk. cbn [it_vals it_slot]. apply Nat.ltb_ge. exact H. Qed.

Lemma get_next_lt : forall vs s, s < length vs ->
  get_next zero (mk vs s) = (nth s vs zero, mk vs (S s)).
Proof.
  intros vs s H. unfold get_next. rewrite (has_next_lt vs s H). reflexivity.
Qed.

(* ------------------------------------------------------------------ *)
(* copy_loop                                                           *)
(* ------------------------------------------------------------------ *)

Lemma copy_loop_done : forall fuel index it arr,
  has_next it = false -> copy_loop zero fuel index it arr = Ret (index, arr).
Proof. intros fuel index it arr H. destruct fuel; cbn [copy_loop]; rewrite H; reflexivity. Qed.

Lemma copy_loop_step : forall fuel index it arr,
  has_next it = true ->
  copy_loop zero (S fuel) index it arr =
  out_bind (arr_set arr (S index) (fst (get_next zero it)))
           (fun arr' => copy_loop zero fuel (S index) (snd (get_next zero it)) arr').
Proof.
  intros fuel index it arr H. cbn [copy_loop]. rewrite H. cbn [negb].
  destruct (get_next zero it). reflexivity.
Qed.

Lemma copy_loop_inv : forall fuel vs s index pre mid post,
  index = length pre -> s <= length vs -> length mid = length vs - s -> length vs - s <= fuel ->
  copy_loop zero fuel index (mk vs s) (pre ++ mid ++ post)
  = Ret (index + (length vs - s), pre ++ skipn s vs ++ post).
Proof.
  induction fuel as [|fuel IH]; intros vs s index pre mid post Hi Hs Hm Hf.
  - assert (s = length vs) by lia. subst s.
    rewrite copy_loop_done by (apply has_next_ge; lia).
    rewrite skipn_all. destruct mid as [|m mid]; [|cbn [length] in Hm; lia].
    f_equal. f_equal. lia.
  - destruct (Nat.eq_dec s (length vs)) as [->|Hne].
    + rewrite copy_loop_done by (apply has_next_ge; lia).
      rewrite skipn_all. destruct mid as [|m mid]; [|cbn [length] in Hm; lia].
      f_equal. f_equal. lia.
    + rewrite copy_loop_step by (apply has_next_lt; lia).
      rewrite get_next_lt by lia. cbn [fst snd].
      destruct mid as [|m mid]; [cbn [length] in Hm; lia|].
      cbn [length] in Hm.
      change (pre ++ (m :: mid) ++ post) with (pre ++ m :: (mid ++ post)).
      rewrite (arr_set_mid pre m (mid ++ post) (nth s vs zero) index Hi). cbn [out_bind].
      replace (pre ++ nth s vs zero :: mid ++ post)
        with ((pre ++ [nth s vs zero]) ++ mid ++ post) by (rewrite <- app_assoc; reflexivity).
      rewrite (IH vs (S s) (S index) (pre ++ [nth s vs zero]) mid post);
        try lia; [| rewrite app_length; cbn [length]; lia].
      rewrite (skipn_cons_nth s vs zero) by lia. rewrite <- app_assoc.
      f_equal. f_equal. lia.
Qed.

(* ------------------------------------------------------------------ *)
(* InsertValue                                                         *)
(* ------------------------------------------------------------------ *)

Lemma insert_value_loop_done : forall fuel size slot v index it arr,
  size <= index -> insert_value_loop A zero fuel size slot v index it arr = Ret arr.
Proof.
  intros fuel size slot v index it arr H. apply Nat.leb_le in H.
  destruct fuel; cbn [insert_value_loop]; rewrite H; reflexivity.
Qed.

Lemma insert_value_loop_at : forall fuel size slot v index it arr,
  index < size -> index = slot ->
  insert_value_loop A zero (S fuel) size slot v index it arr =
  out_bind (arr_set arr (S index) v) (fun arr' =>
    insert_value_loop A zero fuel size slot v (S index) it arr').
Proof.
  intros fuel size slot v index it arr H1 H2. cbn [insert_value_loop].
  apply Nat.leb_gt in H1. rewrite H1. apply Nat.eqb_eq in H2. rewrite H2. reflexivity.
Qed.

Lemma insert_value_loop_other : forall fuel size slot v index it arr,
  index < size -> index <> slot ->
  insert_value_loop A zero (S fuel) size slot v index it arr =
  out_bind (arr_set arr (S index) (fst (get_next zero it))) (fun arr' =>
    insert_value_loop A zero fuel size slot v (S index) (snd (get_next zero it)) arr').
Proof.
  intros fuel size slot v index it arr H1 H2. cbn [insert_value_loop].
  apply Nat.leb_gt in H1. rewrite H1. apply Nat.eqb_neq in H2. rewrite H2.
  destruct (get_next zero it). reflexivity.
Qed.

Lemma insert_value_tail : forall fuel l size slot v index s pre,
  slot < index -> s <= length l -> size = index + (length l - s) -> index = length pre ->
  length l - s <= fuel ->
  insert_value_loop A zero fuel size slot v index (mk l s) (pre ++ repeat zero (length l - s))
  = Ret (pre ++ skipn s l).
Proof.
  induction fuel as [|fuel IH]; intros l size slot v index s pre Hslot Hs Hsize Hi Hf.
  - assert (s = length l) by lia. subst s.
    rewrite insert_value_loop_done by lia.
    rewrite skipn_all, Nat.sub_diag. reflexivity.
  - destruct (Nat.eq_dec s (length l)) as [->|Hne].
    + rewrite insert_value_loop_done by lia.
      rewrite skipn_all, Nat.sub_diag. reflexivity.
    + rewrite insert_value_loop_other by lia.
      rewrite get_next_lt by lia. cbn [fst snd].
      replace (length l - s) with (S (length l - S s)) by lia.
      rewrite (arr_set_fill pre _ _ index Hi). cbn [out_bind].
      rewrite (IH l size slot v (S index) (S s) (pre ++ [nth s l zero]));
        try lia; [| rewrite app_length; cbn [length]; lia].
      rewrite (skipn_cons_nth s l zero) by lia. rewrite <- app_assoc. reflexivity.
Qed.

Lemma insert_value_head : forall fuel l slot v index pre,
  index <= slot -> slot <= length l -> index = length pre ->
  S (length l - index) <= fuel ->
  insert_value_loop A zero fuel (S (length l)) slot v index (mk l index)
    (pre ++ repeat zero (S (length l) - index))
  = Ret (pre ++ firstn (slot - index) (skipn index l) ++ v :: skipn slot l).
Proof.
  induction fuel as [|fuel IH]; intros l slot v index pre Hslot Hl Hi Hf.
  - lia.
  - destruct (Nat.eq_dec index slot) as [He|Hne].
    + rewrite insert_value_loop_at by lia.
      replace (S (length l) - index) with (S (length l - index)) by lia.
      rewrite (arr_set_fill pre _ _ index Hi). cbn [out_bind].
      rewrite (insert_value_tail fuel l (S (length l)) slot v (S index) index (pre ++ [v]));
        try lia; [| rewrite app_length; cbn [length]; lia].
      rewrite He, Nat.sub_diag. cbn [firstn app].
      rewrite <- app_assoc. reflexivity.
    + rewrite insert_value_loop_other by lia.
      rewrite get_next_lt by lia. cbn [fst snd].
      replace (S (length l) - index) with (S (S (length l) - S index)) by lia.
      rewrite (arr_set_fill pre _ _ index Hi). cbn [out_bind].
      rewrite (IH l slot v (S index) (pre ++ [nth index l zero]));
        try lia; [| rewrite app_length; cbn [length]; lia].
      replace (slot - index) with (S (slot - S index)) by lia.
      rewrite (skipn_cons_nth index l zero) by lia. cbn [firstn].
      rewrite <- app_assoc. reflexivity.
Qed.

Theorem insert_value_refines : forall l slot v,
  insert_value_impl zero l slot v = insert_value l slot v.
Proof.
  intros l slot v. unfold insert_value_impl, insert_value.
  destruct (length l <? slot) eqn:E; [reflexivity|].
  apply Nat.ltb_ge in E. rewrite it_make_mk. unfold arr_make.
  pose proof (insert_value_head (S (S (length l))) l slot v 0 [] ) as H.
  cbn [app skipn] in H. rewrite !Nat.sub_0_r in H.
  apply H; try lia. reflexivity.
Qed.

(* ------------------------------------------------------------------ *)
(* ordinal indexing                                                    *)
(* ------------------------------------------------------------------ *)

Theorem pos_some : forall n i k, pos n i = Some k ->
  (k < n) /\ (((1 <= i <= Z.of_nat n)%Z /\ Z.of_nat k = (i - 1)%Z) \/
              ((- Z.of_nat n <= i <= -1)%Z /\ Z.of_nat k = (i + Z.of_nat n)%Z)).
Proof.
  intros n i k. unfold pos.
  destruct (Nat.eqb_spec n 0), (Z.eqb_spec i 0), (Z.ltb_spec i (- Z.of_nat n)),
    (Z.ltb_spec (Z.of_nat n) i), (Z.ltb_spec i 0); cbn [orb]; intro Hpos;
    try discriminate Hpos; injection Hpos as <-; lia.
Qed.

Theorem pos_none : forall n i,
  pos n i = None <-> (n = 0 \/ i = 0%Z \/ (i < - Z.of_nat n)%Z \/ (Z.of_nat n < i)%Z).
Proof.
  intros n i. unfold pos.
  destruct (Nat.eqb_spec n 0), (Z.eqb_spec i 0), (Z.ltb_spec i (- Z.of_nat n)),
    (Z.ltb_spec (Z.of_nat n) i), (Z.ltb_spec i 0); cbn [orb];
    (split; [intro Hpos; try discriminate Hpos; lia | intro Hpos; try reflexivity; lia]).
Qed.

Lemma pos_lt : forall n i k, pos n i = Some k -> k < n.
Proof. clear zero eqb A. intros n i k H. apply pos_some in H. tauto. Qed.

(* ------------------------------------------------------------------ *)
(* InsertValues                                                        *)
(* ------------------------------------------------------------------ *)

Lemma insert_values_loop_done : forall fuel size slot vals index it arr,
  size <= index -> insert_values_loop A zero fuel size slot vals index it arr = Ret arr.
Proof.
  intros fuel size slot vals index it arr H. apply Nat.leb_le in H.
  destruct fuel; cbn [insert_values_loop]; rewrite H; reflexivity.
Qed.

Lemma insert_values_loop_at : forall fuel size slot vals index it arr,
  index < size -> index = slot ->
  insert_values_loop A zero (S fuel) size slot vals index it arr =
  out_bind (copy_loop zero (S (length vals)) index (it_make vals) arr) (fun r =>
    insert_values_loop A zero fuel size slot vals (fst r) it (snd r)).
Proof.
  intros fuel size slot vals index it arr H1 H2. cbn [insert_values_loop].
  apply Nat.leb_gt in H1. rewrite H1. apply Nat.eqb_eq in H2. rewrite H2. reflexivity.
Qed.

Lemma insert_values_loop_other : forall fuel size slot vals index it arr,
  index < size -> index <> slot ->
  insert_values_loop A zero (S fuel) size slot vals index it arr =
  out_bind (arr_set arr (S index) (fst (get_next zero it))) (fun arr' =>
    insert_values_loop A zero fuel size slot vals (S index) (snd (get_next zero it)) arr').
Proof.
  intros fuel size slot vals index it arr H1 H2. cbn [insert_values_loop].
  apply Nat.leb_gt in H1. rewrite H1. apply Nat.eqb_neq in H2. rewrite H2.
  destruct (get_next zero it). reflexivity.
Qed.

Lemma insert_values_tail : forall fuel l size slot vals index s pre,
  slot < index -> s <= length l -> size = index + (length l - s) -> index = length pre ->
  length l - s <= fuel ->
  insert_values_loop A zero fuel size slot vals index (mk l s) (pre ++ repeat zero (length l - s))
  = Ret (pre ++ skipn s l).
Proof.
  induction fuel as [|fuel IH]; intros l size slot vals index s pre Hslot Hs Hsize Hi Hf.
  - assert (s = length l) by lia. subst s.
    rewrite insert_values_loop_done by lia.
    rewrite skipn_all, Nat.sub_diag. reflexivity.
  - destruct (Nat.eq_dec s (length l)) as [->|Hne].
    + rewrite insert_values_loop_done by lia.
      rewrite skipn_all, Nat.sub_diag. reflexivity.
    + rewrite insert_values_loop_other by lia.
      rewrite get_next_lt by lia. cbn [fst snd].
      replace (length l - s) with (S (length l - S s)) by lia.
      rewrite (arr_set_fill pre _ _ index Hi). cbn [out_bind].
      rewrite (IH l size slot vals (S index) (S s) (pre ++ [nth s l zero]));
        try lia; [| rewrite app_length; cbn [length]; lia].
      rewrite (skipn_cons_nth s l zero) by lia. rewrite <- app_assoc. reflexivity.
Qed.

Lemma insert_values_head : forall fuel l slot vals index pre,
  0 < length vals -> index <= slot -> slot <= length l -> index = length pre ->
  S (length l - index) <= fuel ->
  insert_values_loop A zero fuel (length l + length vals) slot vals index (mk l index)
    (pre ++ repeat zero (length l + length vals - index))
  = Ret (pre ++ firstn (slot - index) (skipn index l) ++ vals ++ skipn slot l).
Proof.
  induction fuel as [|fuel IH]; intros l slot vals index pre Hv Hslot Hl Hi Hf.
  - lia.
  - destruct (Nat.eq_dec index slot) as [He|Hne].
    + rewrite insert_values_loop_at by lia.
      replace (length l + length vals - index) with (length vals + (length l - index)) by lia.
      rewrite repeat_app, it_make_mk.
      rewrite (copy_loop_inv (S (length vals)) vals 0 index pre
                 (repeat zero (length vals)) (repeat zero (length l - index)));
        try lia; [| rewrite repeat_length; lia].
      cbn [out_bind fst snd skipn]. rewrite app_assoc.
      rewrite (insert_values_tail fuel l (length l + length vals) slot vals
                 (index + (length vals - 0)) index (pre ++ vals));
        try lia; [| rewrite app_length; lia].
      rewrite He, Nat.sub_diag. cbn [firstn app].
      rewrite <- app_assoc. reflexivity.
    + rewrite insert_values_loop_other by lia.
      rewrite get_next_lt by lia. cbn [fst snd].
      replace (length l + length vals - index)
        with (S (length l + length vals - S index)) by lia.
      rewrite (arr_set_fill pre _ _ index Hi). cbn [out_bind].
      rewrite (IH l slot vals (S index) (pre ++ [nth index l zero]));
        try lia; [| rewrite app_length; cbn [length]; lia].
      replace (slot - index) with (S (slot - S index)) by lia.
      rewrite (skipn_cons_nth index l zero) by lia. cbn [firstn].
      rewrite <- app_assoc. reflexivity.
Qed.

Theorem insert_values_refines : forall l slot vs,
  insert_values_impl zero l slot vs = insert_values l slot vs.
Proof.
  intros l slot vs. unfold insert_values_impl, insert_values.
  destruct (length l <? slot) eqn:E; [reflexivity|].
  apply Nat.ltb_ge in E.
  destruct vs as [|x vs].
  - cbn [app]. rewrite firstn_skipn. reflexivity.
  - rewrite it_make_mk. unfold arr_make.
    pose proof (insert_values_head (S (length l + length (x :: vs))) l slot (x :: vs) 0 []) as H.
    cbn [app skipn] in H. rewrite !Nat.sub_0_r in H.
    apply H; cbn [length]; try lia; try reflexivity.
Qed.

(* ------------------------------------------------------------------ *)
(* AppendValue / AppendValues / MakeFromSequence                        *)
(* ------------------------------------------------------------------ *)

Theorem append_value_refines : forall l v, append_value_impl zero l v = Ret (append_value l v).
Proof.
  intros l v. unfold append_value_impl, append_value, arr_make.
  rewrite it_make_mk, repeat_S_app.
  pose proof (copy_loop_inv (S (length l)) l 0 0 [] (repeat zero (length l)) [zero]) as H.
  cbn [app skipn] in H. rewrite H; try lia; [| reflexivity | rewrite repeat_length; lia].
  cbn [out_bind fst snd]. apply arr_set_mid. lia.
Qed.

Theorem append_values_refines : forall l vs,
  append_values_impl zero l vs = Ret (append_values l vs).
Proof.
  intros l vs. unfold append_values_impl, append_values, arr_make.
  rewrite !it_make_mk, repeat_app.
  pose proof (copy_loop_inv (S (length l)) l 0 0 [] (repeat zero (length l))
                (repeat zero (length vs))) as H.
  cbn [app skipn] in H. rewrite H; try lia; [| reflexivity | rewrite repeat_length; lia].
  cbn [out_bind fst snd].
  pose proof (copy_loop_inv (S (length vs)) vs 0 (0 + (length l - 0)) l
                (repeat zero (length vs)) []) as H2.
  rewrite app_nil_r in H2. rewrite H2; try lia; [| rewrite repeat_length; lia].
  cbn [out_map snd skipn]. rewrite app_nil_r. reflexivity.
Qed.

Lemma make_from_loop_done : forall fuel it acc,
  has_next it = false -> make_from_loop A zero fuel it acc = Ret acc.
Proof. intros fuel it acc H. destruct fuel; cbn [make_from_loop]; rewrite H; reflexivity. Qed.

Lemma make_from_loop_step : forall fuel it acc,
  has_next it = true ->
  make_from_loop A zero (S fuel) it acc =
  out_bind (append_value_impl zero acc (fst (get_next zero it)))
           (fun acc' => make_from_loop A zero fuel (snd (get_next zero it)) acc').
Proof.
  intros fuel it acc H. cbn [make_from_loop]. rewrite H. cbn [negb].
  destruct (get_next zero it). reflexivity.
Qed.

Lemma make_from_loop_inv : forall fuel vs s acc,
  s <= length vs -> length vs - s <= fuel ->
  make_from_loop A zero fuel (mk vs s) acc = Ret (acc ++ skipn s vs).
Proof.
  induction fuel as [|fuel IH]; intros vs s acc Hs Hf.
  - assert (s = length vs) by lia. subst s.
    rewrite make_from_loop_done by (apply has_next_ge; lia).
    rewrite skipn_all, app_nil_r. reflexivity.
  - destruct (Nat.eq_dec s (length vs)) as [->|Hne].
    + rewrite make_from_loop_done by (apply has_next_ge; lia).
      rewrite skipn_all, app_nil_r. reflexivity.
    + rewrite make_from_loop_step by (apply has_next_lt; lia).
      rewrite get_next_lt by lia. cbn [fst snd].
      rewrite append_value_refines. cbn [out_bind]. unfold append_value.
      rewrite IH by lia.
      rewrite (skipn_cons_nth s vs zero) by lia. rewrite <- app_assoc. reflexivity.
Qed.

Theorem make_from_sequence_refines : forall vs, make_from_sequence_impl zero vs = Ret vs.
Proof.
  intros vs. unfold make_from_sequence_impl. rewrite it_make_mk.
  rewrite make_from_loop_inv by lia. reflexivity.
Qed.

(* ------------------------------------------------------------------ *)
(* RemoveValue                                                         *)
(* ------------------------------------------------------------------ *)

Lemma remove_value_loop_done : forall fuel c index it arr,
  has_next it = false -> remove_value_loop A zero fuel c index it arr = Ret arr.
Proof. intros fuel c index it arr H. destruct fuel; cbn [remove_value_loop]; rewrite H; reflexivity. Qed.

Lemma remove_value_loop_skip : forall fuel c index it arr,
  has_next it = true -> (c - 1 = 0)%Z ->
  remove_value_loop A zero (S fuel) c index it arr =
  remove_value_loop A zero fuel (c - 1)%Z index (snd (get_next zero it)) arr.
Proof.
  intros fuel c index it arr H Hc. cbn [remove_value_loop]. rewrite H. cbn [negb].
  destruct (get_next zero it). apply Z.eqb_eq in Hc. rewrite Hc. reflexivity.
Qed.

Lemma remove_value_loop_keep : forall fuel c index it arr,
  has_next it = true -> (c - 1 <> 0)%Z ->
  remove_value_loop A zero (S fuel) c index it arr =
  out_bind (arr_set arr index (fst (get_next zero it))) (fun arr' =>
    remove_value_loop A zero fuel (c - 1)%Z (S index) (snd (get_next zero it)) arr').
Proof.
  intros fuel c index it arr H Hc. cbn [remove_value_loop]. rewrite H. cbn [negb].
  destruct (get_next zero it). apply Z.eqb_neq in Hc. rewrite Hc. reflexivity.
Qed.

Lemma remove_value_tail : forall fuel l c index s pre,
  (c <= 0)%Z -> s <= length l -> index = length pre -> length l - s <= fuel ->
  remove_value_loop A zero fuel c (S index) (mk l s) (pre ++ repeat zero (length l - s))
  = Ret (pre ++ skipn s l).
Proof.
  induction fuel as [|fuel IH]; intros l c index s pre Hc Hs Hi Hf.
  - assert (s = length l) by lia. subst s.
    rewrite remove_value_loop_done by (apply has_next_ge; lia).
    rewrite skipn_all, Nat.sub_diag. reflexivity.
  - destruct (Nat.eq_dec s (length l)) as [->|Hne].
    + rewrite remove_value_loop_done by (apply has_next_ge; lia).
      rewrite skipn_all, Nat.sub_diag. reflexivity.
    + rewrite remove_value_loop_keep by (try (apply has_next_lt); lia).
      rewrite get_next_lt by lia. cbn [fst snd].
      replace (length l - s) with (S (length l - S s)) by lia.
      rewrite (arr_set_fill pre _ _ index Hi). cbn [out_bind].
      rewrite (IH l (c - 1)%Z (S index) (S s) (pre ++ [nth s l zero]));
        try lia; [| rewrite app_length; cbn [length]; lia].
      rewrite (skipn_cons_nth s l zero) by lia. rewrite <- app_assoc. reflexivity.
Qed.

Lemma remove_value_head : forall fuel l k s pre,
  s <= k -> k < length l -> s = length pre -> length l - s <= fuel ->
  remove_value_loop A zero fuel (Z.of_nat (S k) - Z.of_nat s)%Z (S s) (mk l s)
    (pre ++ repeat zero (length l - 1 - s))
  = Ret (pre ++ firstn (k - s) (skipn s l) ++ skipn (S k) l).
Proof.
  induction fuel as [|fuel IH]; intros l k s pre Hk Hl Hi Hf.
  - lia.
  - destruct (Nat.eq_dec s k) as [He|Hne].
    + rewrite remove_value_loop_skip by (try (apply has_next_lt); lia).
      rewrite get_next_lt by lia. cbn [fst snd].
      replace (length l - 1 - s) with (length l - S s) by lia.
      rewrite (remove_value_tail fuel l _ s (S s) pre); try lia.
      rewrite He, Nat.sub_diag. reflexivity.
    + rewrite remove_value_loop_keep by (try (apply has_next_lt); lia).
      rewrite get_next_lt by lia. cbn [fst snd].
      replace (length l - 1 - s) with (S (length l - 1 - S s)) by lia.
      rewrite (arr_set_fill pre _ _ s Hi). cbn [out_bind].
      replace (Z.of_nat (S k) - Z.of_nat s - 1)%Z with (Z.of_nat (S k) - Z.of_nat (S s))%Z by lia.
      rewrite (IH l k (S s) (pre ++ [nth s l zero]));
        try lia; [| rewrite app_length; cbn [length]; lia].
      replace (k - s) with (S (k - S s)) by lia.
      rewrite (skipn_cons_nth s l zero) by lia. cbn [firstn].
      rewrite <- app_assoc. reflexivity.
Qed.

Theorem remove_value_refines : forall l i, remove_value_impl zero l i = remove_value zero l i.
Proof.
  intros l i. unfold remove_value_impl, remove_value.
  destruct (pos (length l) i) as [k|] eqn:E; [|reflexivity].
  pose proof (pos_lt _ _ _ E) as Hk.
  rewrite it_make_mk. unfold arr_make.
  pose proof (remove_value_head (S (length l)) l k 0 []) as H.
  change (Z.of_nat 0) with 0%Z in H. rewrite Z.sub_0_r, !Nat.sub_0_r in H.
  cbn [app skipn] in H. rewrite H; try lia; [| reflexivity].
  cbn [out_map]. rewrite remove_nth_eq. reflexivity.
Qed.

(* ------------------------------------------------------------------ *)
(* RemoveValues                                                        *)
(* ------------------------------------------------------------------ *)

Lemma remove_values_loop_done : forall fuel first last c ai ri it arr removed,
  has_next it = false ->
  remove_values_loop A zero fuel first last c ai ri it arr removed = Ret (removed, arr).
Proof.
  intros fuel first last c ai ri it arr removed H.
  destruct fuel; cbn [remove_values_loop]; rewrite H; reflexivity.
Qed.

Lemma remove_values_loop_keep : forall fuel first last c ai ri it arr removed,
  has_next it = true -> (S c < first \/ last < S c) ->
  remove_values_loop A zero (S fuel) first last c ai ri it arr removed =
  out_bind (arr_set arr (S ai) (fst (get_next zero it))) (fun arr' =>
    remove_values_loop A zero fuel first last (S c) (S ai) ri (snd (get_next zero it)) arr' removed).
Proof.
  intros fuel first last c ai ri it arr removed H Hc. cbn [remove_values_loop].
  rewrite H. cbn [negb]. destruct (get_next zero it).
  assert (E : (S c <? first) || (last <? S c) = true).
  { apply orb_true_iff. destruct Hc; [left|right]; apply Nat.ltb_lt; lia. }
  rewrite E. reflexivity.
Qed.

Lemma remove_values_loop_drop : forall fuel first last c ai ri it arr removed,
  has_next it = true -> first <= S c -> S c <= last ->
  remove_values_loop A zero (S fuel) first last c ai ri it arr removed =
  out_bind (arr_set removed (S ri) (fst (get_next zero it))) (fun removed' =>
    remove_values_loop A zero fuel first last (S c) ai (S ri) (snd (get_next zero it)) arr removed').
Proof.
  intros fuel first last c ai ri it arr removed H H1 H2. cbn [remove_values_loop].
  rewrite H. cbn [negb]. destruct (get_next zero it).
  assert (E : (S c <? first) || (last <? S c) = false).
  { apply orb_false_iff. split; apply Nat.ltb_ge; lia. }
  rewrite E. reflexivity.
Qed.

Lemma remove_values_phase3 : forall fuel l first last s ai ri pre removed,
  last <= s -> s <= length l -> ai = length pre -> length l - s <= fuel ->
  remove_values_loop A zero fuel first last s ai ri (mk l s)
    (pre ++ repeat zero (length l - s)) removed
  = Ret (removed, pre ++ skipn s l).
Proof.
  induction fuel as [|fuel IH]; intros l first last s ai ri pre removed Hlast Hs Hi Hf.
  - assert (s = length l) by lia. subst s.
    rewrite remove_values_loop_done by (apply has_next_ge; lia).
    rewrite skipn_all, Nat.sub_diag. reflexivity.
  - destruct (Nat.eq_dec s (length l)) as [->|Hne].
    + rewrite remove_values_loop_done by (apply has_next_ge; lia).
      rewrite skipn_all, Nat.sub_diag. reflexivity.
    + rewrite remove_values_loop_keep by (try (apply has_next_lt); lia).
      rewrite get_next_lt by lia. cbn [fst snd].
      replace (length l - s) with (S (length l - S s)) by lia.
      rewrite (arr_set_fill pre _ _ ai Hi). cbn [out_bind].
      rewrite (IH l first last (S s) (S ai) ri (pre ++ [nth s l zero]));
        try lia; [| rewrite app_length; cbn [length]; lia].
      rewrite (skipn_cons_nth s l zero) by lia. rewrite <- app_assoc. reflexivity.
Qed.

Lemma remove_values_phase2 : forall fuel l a b s ai ri pre rpre,
  a <= s -> s <= S b -> b < length l -> ai = length pre -> ri = length rpre ->
  length l - s <= fuel ->
  remove_values_loop A zero fuel (S a) (S b) s ai ri (mk l s)
    (pre ++ repeat zero (length l - S b)) (rpre ++ repeat zero (S b - s))
  = Ret (rpre ++ firstn (S b - s) (skipn s l), pre ++ skipn (S b) l).
Proof.
  induction fuel as [|fuel IH]; intros l a b s ai ri pre rpre Ha Hb Hl Hai Hri Hf.
  - assert (s = S b) by lia. subst s.
    rewrite (remove_values_phase3 0 l (S a) (S b) (S b) ai ri pre); try lia.
    rewrite Nat.sub_diag. reflexivity.
  - destruct (Nat.eq_dec s (S b)) as [->|Hne].
    + rewrite (remove_values_phase3 (S fuel) l (S a) (S b) (S b) ai ri pre); try lia.
      rewrite Nat.sub_diag. reflexivity.
    + rewrite remove_values_loop_drop by (try (apply has_next_lt); lia).
      rewrite get_next_lt by lia. cbn [fst snd].
      replace (S b - s) with (S (S b - S s)) by lia.
      rewrite (arr_set_fill rpre _ _ ri Hri). cbn [out_bind].
      rewrite (IH l a b (S s) ai (S ri) pre (rpre ++ [nth s l zero]));
        try lia; [| rewrite app_length; cbn [length]; lia].
      rewrite (skipn_cons_nth s l zero) by lia. cbn [firstn].
      rewrite <- app_assoc. reflexivity.
Qed.

Lemma remove_values_phase1 : forall fuel l a b s pre,
  s <= a -> a <= S b -> b < length l -> s = length pre -> length l - s <= fuel ->
  remove_values_loop A zero fuel (S a) (S b) s s 0 (mk l s)
    (pre ++ repeat zero (length l - (S b - a) - s)) (repeat zero (S b - a))
  = Ret (firstn (S b - a) (skipn a l), pre ++ firstn (a - s) (skipn s l) ++ skipn (S b) l).
Proof.
  induction fuel as [|fuel IH]; intros l a b s pre Ha Hb Hl Hi Hf.
  - assert (s = a) as -> by lia.
    replace (length l - (S b - a) - a) with (length l - S b) by lia.
    pose proof (remove_values_phase2 0 l a b a a 0 pre []) as H2. cbn [app] in H2.
      rewrite H2; try lia; try reflexivity.
    rewrite Nat.sub_diag. reflexivity.
  - destruct (Nat.eq_dec s a) as [->|Hne].
    + replace (length l - (S b - a) - a) with (length l - S b) by lia.
      pose proof (remove_values_phase2 (S fuel) l a b a a 0 pre []) as H2. cbn [app] in H2.
      rewrite H2; try lia; try reflexivity.
      rewrite Nat.sub_diag. reflexivity.
    + rewrite remove_values_loop_keep by (try (apply has_next_lt); lia).
      rewrite get_next_lt by lia. cbn [fst snd].
      replace (length l - (S b - a) - s) with (S (length l - (S b - a) - S s)) by lia.
      rewrite (arr_set_fill pre _ _ s Hi). cbn [out_bind].
      rewrite (IH l a b (S s) (pre ++ [nth s l zero]));
        try lia; [| rewrite app_length; cbn [length]; lia].
      replace (a - s) with (S (a - S s)) by lia.
      rewrite (skipn_cons_nth s l zero) by lia. cbn [firstn].
      rewrite <- app_assoc. reflexivity.
Qed.

Theorem remove_values_refines : forall l i j,
  remove_values_impl zero l i j = remove_values l i j.
Proof.
  intros l i j. unfold remove_values_impl, remove_values.
  destruct (pos (length l) i) as [a|] eqn:Ea; [|reflexivity].
  destruct (pos (length l) j) as [b|] eqn:Eb; [|reflexivity].
  pose proof (pos_lt _ _ _ Ea) as Ha. pose proof (pos_lt _ _ _ Eb) as Hb.
  destruct (Nat.ltb_spec (S b + 1) (S a)) as [H1|H1];
    destruct (Nat.ltb_spec (S b) a) as [H2|H2]; try lia; [reflexivity|].
  rewrite it_make_mk. unfold arr_make.
  replace (S b + 1 - S a) with (S b - a) by lia.
  pose proof (remove_values_phase1 (S (length l)) l a b 0 []) as H.
  rewrite !Nat.sub_0_r in H. cbn [app skipn] in H.
  apply H; try lia. reflexivity.
Qed.

(* ------------------------------------------------------------------ *)
(* GetIndex, SetValues, GetValues, Array.MakeFromSequence               *)
(* ------------------------------------------------------------------ *)

Lemma get_index_loop_spec : forall l v index,
  get_index_loop A eqb l v index =
  match find_pos (fun x => eqb x v) l with Some k => S (index + k) | None => 0 end.
Proof.
  induction l as [|c t IH]; intros v index.
  - reflexivity.
  - cbn [get_index_loop find_pos]. destruct (eqb c v).
    + rewrite Nat.add_0_r. reflexivity.
    + rewrite IH. destruct (find_pos (fun x => eqb x v) t); cbn [option_map]; [|reflexivity].
      f_equal. lia.
Qed.

Theorem get_index_refines : forall l v, get_index_impl eqb l v = get_index eqb l v.
Proof.
  intros l v. unfold get_index_impl, get_index. rewrite get_index_loop_spec.
  destruct (find_pos (fun x => eqb x v) l); reflexivity.
Qed.

Theorem set_values_refines : forall (l : list A) i src, set_values_impl l i src = set_values l i src.
Proof.
  intros l i src. unfold set_values_impl, set_values.
  destruct (pos (length l) i) as [k|] eqn:E; [|reflexivity].
  pose proof (pos_lt _ _ _ E) as Hk.
  destruct src as [|x src].
  - cbn [length app]. rewrite Nat.add_0_r.
    destruct (Nat.ltb_spec (length l) k); [lia|]. rewrite firstn_skipn. reflexivity.
  - remember (x :: src) as s eqn:Es.
    assert (Hs : 0 < length s) by (subst s; cbn [length]; lia).
    destruct (Nat.ltb_spec (length l) (k + length s)) as [H|H].
    + assert (Hn : pos (length l) (Z.of_nat (k + length s)) = None) by (apply pos_none; lia).
      rewrite Hn. reflexivity.
    + destruct (pos (length l) (Z.of_nat (k + length s))) as [m|] eqn:Em.
      * apply pos_some in Em. assert (S m = k + length s) by lia.
        replace (S m) with (k + length s) by lia.
        replace (k + length s - k) with (length s) by lia.
        rewrite firstn_all. reflexivity.
      * apply pos_none in Em. lia.
Qed.

Theorem get_values_refines : forall (l : list A) i j, get_values_impl l i j = get_values l i j.
Proof.
  intros l i j. unfold get_values_impl, get_values.
  destruct (pos (length l) i) as [a|]; [|reflexivity].
  destruct (pos (length l) j) as [b|]; [|reflexivity].
  rewrite Nat.add_1_r. reflexivity.
Qed.

Lemma array_from_loop_inv : forall n vs index pre mid,
  index = length pre -> n = length vs - index -> index <= length vs -> length mid = n ->
  array_from_loop A zero n index (mk vs index) (pre ++ mid) = pre ++ skipn index vs.
Proof.
  induction n as [|n IH]; intros vs index pre mid Hi Hn Hle Hm.
  - destruct mid; [|discriminate Hm]. cbn [array_from_loop].
    assert (index = length vs) by lia. subst index. rewrite H, skipn_all. reflexivity.
  - cbn [array_from_loop]. rewrite get_next_lt by lia.
    destruct mid as [|m mid]; [discriminate Hm|]. cbn [length] in Hm.
    pose proof (set_nth_app pre m mid (nth index vs zero)) as Hset.
    rewrite <- Hi in Hset. rewrite Hset.
    replace (pre ++ nth index vs zero :: mid) with ((pre ++ [nth index vs zero]) ++ mid)
      by (rewrite <- app_assoc; reflexivity).
    rewrite (IH vs (S index) (pre ++ [nth index vs zero]) mid);
      try lia; [| rewrite app_length; cbn [length]; lia].
    rewrite (skipn_cons_nth index vs zero) by lia. rewrite <- app_assoc. reflexivity.
Qed.

Theorem array_from_sequence_refines : forall vs, array_from_sequence_impl zero vs = vs.
Proof.
  intros vs. unfold array_from_sequence_impl, arr_make. rewrite it_make_mk.
  pose proof (array_from_loop_inv (length vs) vs 0 [] (repeat zero (length vs))) as H.
  cbn [app skipn] in H. apply H; try lia. reflexivity. apply repeat_length.
Qed.

(* ------------------------------------------------------------------ *)
(* Part 2: history level                                               *)
(* ------------------------------------------------------------------ *)

Lemma contains_any_refines : forall l src,
  contains_any_impl A eqb l src = contains_any eqb l src.
Proof.
  intros l src. unfold contains_any. induction src as [|c t IH].
  - reflexivity.
  - cbn [contains_any_impl existsb]. unfold contains_value at 1.
    rewrite get_index_refines, IH.
    destruct (0 <? get_index eqb l c); reflexivity.
Qed.

Lemma contains_all_refines : forall l src,
  contains_all_impl A eqb l src = contains_all eqb l src.
Proof.
  intros l src. unfold contains_all. induction src as [|c t IH].
  - reflexivity.
  - cbn [contains_all_impl forallb]. unfold contains_value at 1.
    rewrite get_index_refines, IH.
    destruct (get_index eqb l c); reflexivity.
Qed.

Theorem lstep_refines : forall l o, lstep_impl zero eqb l o = lstep_spec zero eqb l o.
Proof.
  intros l o. destruct o; unfold lstep_impl, lstep_spec.
  - rewrite make_from_sequence_refines. reflexivity.
  - rewrite insert_value_refines. reflexivity.
  - rewrite insert_values_refines. reflexivity.
  - rewrite append_value_refines. reflexivity.
  - rewrite append_values_refines. reflexivity.
  - rewrite remove_value_refines. reflexivity.
  - rewrite remove_values_refines. reflexivity.
  - reflexivity.
  - reflexivity.
  - rewrite set_values_refines. reflexivity.
  - reflexivity.
  - rewrite get_values_refines. reflexivity.
  - rewrite get_index_refines. reflexivity.
  - unfold contains_value_impl, contains_value. rewrite get_index_refines. reflexivity.
  - rewrite contains_any_refines. reflexivity.
  - rewrite contains_all_refines. reflexivity.
  - reflexivity.
  - reflexivity.
  - reflexivity.
Qed.

Theorem C01_refines : forall ops l,
  lrun (lstep_impl zero eqb) l ops = lrun (lstep_spec zero eqb) l ops.
Proof.
  induction ops as [|o rest IH]; intros l.
  - reflexivity.
  - cbn [lrun]. rewrite lstep_refines.
    destruct (lstep_spec zero eqb l o) as [l' ob]. rewrite IH. reflexivity.
Qed.

Lemma insert_value_not_hang : forall (l : list A) slot v, insert_value l slot v <> Hang.
Proof. intros l slot v. unfold insert_value. destruct (length l <? slot); discriminate. Qed.

Lemma insert_values_not_hang : forall (l : list A) slot vs, insert_values l slot vs <> Hang.
Proof. intros l slot vs. unfold insert_values. destruct (length l <? slot); discriminate. Qed.

Lemma remove_value_not_hang : forall l i, remove_value zero l i <> Hang.
Proof. intros l i. unfold remove_value. destruct (pos (length l) i); discriminate. Qed.

Lemma remove_values_not_hang : forall (l : list A) i j, remove_values l i j <> Hang.
Proof.
  intros l i j. unfold remove_values.
  destruct (pos (length l) i); [|discriminate].
  destruct (pos (length l) j); [|discriminate].
  destruct (_ <? _); discriminate.
Qed.

Lemma set_value_not_hang : forall (l : list A) i v, set_value l i v <> Hang.
Proof. intros l i v. unfold set_value. destruct (pos (length l) i); discriminate. Qed.

Lemma set_values_not_hang : forall (l : list A) i src, set_values l i src <> Hang.
Proof.
  intros l i src. unfold set_values. destruct (pos (length l) i); [|discriminate].
  destruct (_ <? _); discriminate.
Qed.

Lemma get_value_not_hang : forall l i, get_value zero l i <> Hang.
Proof. intros l i. unfold get_value. destruct (pos (length l) i); discriminate. Qed.

Lemma get_values_not_hang : forall (l : list A) i j, get_values l i j <> Hang.
Proof.
  intros l i j. unfold get_values.
  destruct (pos (length l) i); [|discriminate].
  destruct (pos (length l) j); [|discriminate].
  destruct (_ <? _); discriminate.
Qed.

Lemma upd_not_hang : forall l (o : out (list A)), o <> Hang -> snd (upd A l o) <> LHang.
Proof. intros l o H. destruct o; cbn [upd snd]; try discriminate. congruence. Qed.

Lemma lstep_spec_not_hang : forall l o, snd (lstep_spec zero eqb l o) <> LHang.
Proof.
  intros l o. destruct o; unfold lstep_spec; try (cbn [snd]; discriminate).
  - apply upd_not_hang, insert_value_not_hang.
  - apply upd_not_hang, insert_values_not_hang.
  - pose proof (remove_value_not_hang l i) as H.
    destruct (remove_value zero l i) as [[v l']| |]; cbn [snd]; try discriminate. congruence.
  - pose proof (remove_values_not_hang l i j) as H.
    destruct (remove_values l i j) as [[r l']| |]; cbn [snd]; try discriminate. congruence.
  - apply upd_not_hang, set_value_not_hang.
  - apply upd_not_hang, set_values_not_hang.
  - pose proof (get_value_not_hang l i) as H.
    destruct (get_value zero l i); cbn [snd]; try discriminate. congruence.
  - pose proof (get_values_not_hang l i j) as H.
    destruct (get_values l i j); cbn [snd]; try discriminate. congruence.
Qed.

Theorem C01_no_hang : forall ops l, ~ In LHang (snd (lrun (lstep_spec zero eqb) l ops)).
Proof.
  induction ops as [|o rest IH]; intros l.
  - cbn [lrun snd In]. tauto.
  - cbn [lrun]. pose proof (lstep_spec_not_hang l o) as Ho.
    destruct (lstep_spec zero eqb l o) as [l' ob]. cbn [snd] in Ho.
    specialize (IH l'). destruct (lrun (lstep_spec zero eqb) l' rest) as [lf obs].
    cbn [snd In] in *. intros [H|H]; [congruence | exact (IH H)].
Qed.

Theorem C01_panic_frame : forall l o l', lstep_spec zero eqb l o = (l', LPanic) -> l' = l.
Proof.
  intros l o l'. destruct o; unfold lstep_spec, upd;
    repeat match goal with
           | |- context [match ?x with _ => _ end] => destruct x
           end;
    intro H; inversion H; reflexivity.
Qed.

(* ------------------------------------------------------------------ *)
(* Part 3: what the specification says                                 *)
(* ------------------------------------------------------------------ *)

Lemma firstn_app_exact : forall (p q : list A) a, a = length p -> firstn a (p ++ q) = p.
Proof.
  intros p q a ->. induction p as [|x p IH]; cbn [length app firstn].
  - reflexivity.
  - f_equal. exact IH.
Qed.

Lemma skipn_app_exact : forall (p q : list A) a, a = length p -> skipn a (p ++ q) = q.
Proof.
  intros p q a ->. induction p as [|x p IH]; cbn [length app skipn].
  - reflexivity.
  - exact IH.
Qed.

Lemma split3 : forall (l : list A) a c, a <= c ->
  l = firstn a l ++ firstn (c - a) (skipn a l) ++ skipn c l.
Proof.
  intros l a c H.
  transitivity (firstn a l ++ skipn a l); [symmetry; apply firstn_skipn|]. f_equal.
  transitivity (firstn (c - a) (skipn a l) ++ skipn (c - a) (skipn a l));
    [symmetry; apply firstn_skipn|]. f_equal.
  rewrite skipn_skipn'. f_equal. lia.
Qed.

Lemma nth_insert_block : forall (l vs : list A) slot d j, slot <= length l ->
  nth j (firstn slot l ++ vs ++ skipn slot l) d =
  (if j <? slot then nth j l d
   else if j <? slot + length vs then nth (j - slot) vs d else nth (j - length vs) l d).
Proof.
  intros l vs slot d j Hs.
  assert (Hf : length (firstn slot l) = slot) by (apply firstn_length_le; exact Hs).
  destruct (Nat.ltb_spec j slot) as [H1|H1].
  - rewrite app_nth1 by lia. apply nth_firstn'. exact H1.
  - rewrite app_nth2 by lia. rewrite Hf.
    destruct (Nat.ltb_spec j (slot + length vs)) as [H2|H2].
    + rewrite app_nth1 by lia. reflexivity.
    + rewrite app_nth2 by lia. rewrite nth_skipn'. f_equal. lia.
Qed.

Lemma nth_set_block : forall (l src : list A) k d j, k + length src <= length l ->
  nth j (firstn k l ++ src ++ skipn (k + length src) l) d =
  (if (k <=? j) && (j <? k + length src) then nth (j - k) src d else nth j l d).
Proof.
  intros l src k d j Hs.
  assert (Hf : length (firstn k l) = k) by (apply firstn_length_le; lia).
  destruct (Nat.leb_spec k j) as [H1|H1]; cbn [andb].
  - rewrite app_nth2 by lia. rewrite Hf.
    destruct (Nat.ltb_spec j (k + length src)) as [H2|H2].
    + rewrite app_nth1 by lia. reflexivity.
    + rewrite app_nth2 by lia. rewrite nth_skipn'. f_equal. lia.
  - rewrite app_nth1 by lia. apply nth_firstn'. exact H1.
Qed.

Lemma nth_set_nth : forall k v (l : list A) d j,
  nth j (set_nth k v l) d = (if j =? k then (if j <? length l then v else d) else nth j l d).
Proof.
  intros k v l d; revert k; induction l as [|x t IH]; intros k j.
  - assert (E : set_nth k v (@nil A) = []) by (destruct k; reflexivity). rewrite E.
    destruct (j =? k); [|reflexivity]. destruct j; reflexivity.
  - destruct k as [|k]; destruct j as [|j]; cbn [set_nth nth length]; try reflexivity.
    rewrite IH. reflexivity.
Qed.

Theorem insert_value_panics_iff : forall (l : list A) slot v,
  insert_value l slot v = Panic <-> length l < slot.
Proof.
  intros l slot v. unfold insert_value.
  destruct (Nat.ltb_spec (length l) slot) as [H|H]; split; intro H'; try assumption;
    try reflexivity; try discriminate H'; lia.
Qed.

Theorem insert_values_nth : forall (l : list A) slot vs l' d j,
  insert_values l slot vs = Ret l' ->
  length l' = length l + length vs /\
  nth j l' d = (if j <? slot then nth j l d
                else if j <? slot + length vs then nth (j - slot) vs d
                else nth (j - length vs) l d).
Proof.
  intros l slot vs l' d j. unfold insert_values.
  destruct (Nat.ltb_spec (length l) slot) as [H|H]; intro E; [discriminate E|].
  injection E as <-. split.
  - rewrite !app_length, firstn_length_le, skipn_length by lia. lia.
  - apply nth_insert_block. exact H.
Qed.

Theorem insert_value_nth : forall (l : list A) slot v l' d j,
  insert_value l slot v = Ret l' ->
  length l' = S (length l) /\
  nth j l' d = (if j <? slot then nth j l d else if j =? slot then v else nth (j - 1) l d).
Proof.
  intros l slot v l' d j E.
  assert (E' : insert_values l slot [v] = Ret l') by exact E.
  destruct (insert_values_nth l slot [v] l' d j E') as [H1 H2]. cbn [length] in H1, H2.
  split; [lia|]. rewrite H2.
  destruct (Nat.ltb_spec j slot) as [Ha|Ha]; [reflexivity|].
  destruct (Nat.ltb_spec j (slot + 1)) as [Hb|Hb]; destruct (Nat.eqb_spec j slot) as [Hc|Hc];
    try lia; [|reflexivity].
  subst j. rewrite Nat.sub_diag. reflexivity.
Qed.

Theorem set_value_nth : forall (l : list A) i v l' k d j,
  set_value l i v = Ret l' -> pos (length l) i = Some k ->
  length l' = length l /\
  nth j l' d = (if j =? k then (if j <? length l then v else d) else nth j l d).
Proof.
  intros l i v l' k d j E Hp. unfold set_value in E. rewrite Hp in E. injection E as <-.
  split; [apply set_nth_length | apply nth_set_nth].
Qed.

Theorem set_values_nth : forall (l : list A) i src l' k d j,
  set_values l i src = Ret l' -> pos (length l) i = Some k ->
  length l' = length l /\
  nth j l' d = (if (k <=? j) && (j <? k + length src) then nth (j - k) src d else nth j l d).
Proof.
  intros l i src l' k d j E Hp. unfold set_values in E. rewrite Hp in E.
  destruct (Nat.ltb_spec (length l) (k + length src)) as [H|H]; [discriminate E|].
  injection E as <-. split.
  - rewrite !app_length, firstn_length_le, skipn_length by lia. lia.
  - apply nth_set_block. exact H.
Qed.

Theorem set_values_panics_iff : forall (l : list A) i src,
  set_values l i src = Panic <->
  (pos (length l) i = None \/
   exists k, pos (length l) i = Some k /\ length l < k + length src).
Proof.
  intros l i src. unfold set_values.
  destruct (pos (length l) i) as [k|] eqn:Hp.
  - destruct (Nat.ltb_spec (length l) (k + length src)) as [H|H]; split; intro H'.
    + right. exists k. split; [reflexivity | exact H].
    + reflexivity.
    + discriminate H'.
    + destruct H' as [H'|[k' [H1 H2]]]; [discriminate H'|]. injection H1 as <-. lia.
  - split; intro H'; [left|]; reflexivity.
Qed.

Lemma remove_nth_split : forall k (l : list A) d, k < length l ->
  l = firstn k (remove_nth k l) ++ nth k l d :: skipn k (remove_nth k l).
Proof.
  intros k l d; revert k; induction l as [|x t IH]; intros k H; cbn [length] in H; [lia|].
  destruct k as [|k].
  - reflexivity.
  - cbn [remove_nth firstn nth skipn app]. f_equal. apply IH. lia.
Qed.

Theorem remove_value_spec : forall l i v l' k,
  remove_value zero l i = Ret (v, l') -> pos (length l) i = Some k ->
  v = nth k l zero /\ l = firstn k l' ++ v :: skipn k l' /\ length l' = length l - 1.
Proof.
  intros l i v l' k E Hp. unfold remove_value in E. rewrite Hp in E.
  injection E as <- <-. pose proof (pos_lt _ _ _ Hp) as Hk.
  split; [reflexivity|]. split.
  - apply remove_nth_split. exact Hk.
  - apply remove_nth_length. exact Hk.
Qed.

Theorem remove_values_spec : forall (l : list A) i j r l',
  remove_values l i j = Ret (r, l') ->
  exists a, a <= length l' /\ l = firstn a l' ++ r ++ skipn a l'.
Proof.
  intros l i j r l'. unfold remove_values.
  destruct (pos (length l) i) as [a|] eqn:Ea; [|discriminate].
  destruct (pos (length l) j) as [b|] eqn:Eb; [|discriminate].
  pose proof (pos_lt _ _ _ Ea) as Ha. pose proof (pos_lt _ _ _ Eb) as Hb.
  destruct (Nat.ltb_spec (S b) a) as [H|H]; intro E; [discriminate E|].
  injection E as <- <-. exists a.
  assert (Hf : length (firstn a l) = a) by (apply firstn_length_le; lia).
  split.
  - rewrite app_length, Hf. lia.
  - rewrite firstn_app_exact, skipn_app_exact by (symmetry; exact Hf).
    exact (split3 l a (S b) H).
Qed.

Theorem get_values_spec : forall (l : list A) i j r,
  get_values l i j = Ret r ->
  exists a, l = firstn a l ++ r ++ skipn (a + length r) l.
Proof.
  intros l i j r. unfold get_values.
  destruct (pos (length l) i) as [a|] eqn:Ea; [|discriminate].
  destruct (pos (length l) j) as [b|] eqn:Eb; [|discriminate].
  pose proof (pos_lt _ _ _ Ea) as Ha. pose proof (pos_lt _ _ _ Eb) as Hb.
  destruct (Nat.ltb_spec (S b) a) as [H|H]; intro E; [discriminate E|].
  assert (Hr : r = firstn (S b - a) (skipn a l)) by (injection E as E'; exact (eq_sym E')).
  subst r. clear E. exists a.
  rewrite firstn_length_le by (rewrite skipn_length; lia).
  replace (a + (S b - a)) with (S b) by lia.
  apply split3. exact H.
Qed.

(* conservation *)
Theorem insert_value_perm : forall (l : list A) slot v l',
  insert_value l slot v = Ret l' -> Permutation l' (v :: l).
Proof.
  intros l slot v l'. unfold insert_value.
  destruct (length l <? slot); intro E; [discriminate E|]. injection E as <-.
  pose proof (Permutation_middle (firstn slot l) (skipn slot l) v) as H.
  rewrite firstn_skipn in H. symmetry. exact H.
Qed.

Theorem insert_values_perm : forall (l : list A) slot vs l',
  insert_values l slot vs = Ret l' -> Permutation l' (vs ++ l).
Proof.
  intros l slot vs l'. unfold insert_values.
  destruct (length l <? slot); intro E; [discriminate E|]. injection E as <-.
  pose proof (Permutation_app_swap_app (firstn slot l) vs (skipn slot l)) as H.
  rewrite firstn_skipn in H. exact H.
Qed.

Theorem remove_value_perm : forall l i v l',
  remove_value zero l i = Ret (v, l') -> Permutation l (v :: l').
Proof.
  intros l i v l' E.
  destruct (pos (length l) i) as [k|] eqn:Hp.
  - destruct (remove_value_spec l i v l' k E Hp) as (_ & H & _).
    rewrite H at 1. symmetry.
    pose proof (Permutation_middle (firstn k l') (skipn k l') v) as HP.
    rewrite firstn_skipn in HP. exact HP.
  - unfold remove_value in E. rewrite Hp in E. discriminate E.
Qed.

Theorem remove_values_perm : forall (l : list A) i j r l',
  remove_values l i j = Ret (r, l') -> Permutation l (r ++ l').
Proof.
  intros l i j r l' E.
  destruct (remove_values_spec l i j r l' E) as (a & _ & H).
  rewrite H at 1.
  pose proof (Permutation_app_swap_app (firstn a l') r (skipn a l')) as HP.
  rewrite firstn_skipn in HP. exact HP.
Qed.

(* search *)
Lemma find_pos_some : forall (p : A -> bool) l k,
  find_pos p l = Some k <->
  (k < length l /\ (forall d, p (nth k l d) = true) /\
   forall j d, j < k -> p (nth j l d) = false).
Proof.
  intros p; induction l as [|x t IH]; intros k.
  - cbn [find_pos length]. split; [discriminate | lia].
  - cbn [find_pos]. destruct (p x) eqn:Ex.
    + split.
      * intro H. injection H as <-. cbn [length nth]. repeat split; [lia | auto | lia].
      * intros (H1 & H2 & H3). destruct k as [|k]; [reflexivity|].
        specialize (H3 0 x). cbn [nth] in H3. rewrite H3 in Ex by lia. discriminate Ex.
    + split.
      * intro H. destruct (find_pos p t) as [k'|] eqn:Et; [|discriminate H].
        cbn [option_map] in H. injection H as <-.
        destruct (proj1 (IH k') eq_refl) as (H1 & H2 & H3). cbn [length].
        split; [lia|]. split.
        -- intro d. cbn [nth]. apply H2.
        -- intros j d Hj. destruct j as [|j]; cbn [nth]; [exact Ex | apply H3; lia].
      * intros (H1 & H2 & H3). destruct k as [|k].
        -- specialize (H2 x). cbn [nth] in H2. rewrite H2 in Ex. discriminate Ex.
        -- assert (Et : find_pos p t = Some k).
           { apply IH. cbn [length] in H1. split; [lia|]. split.
             - intro d. apply (H2 d).
             - intros j d Hj. apply (H3 (S j) d). lia. }
           rewrite Et. reflexivity.
Qed.

Lemma find_pos_none : forall (p : A -> bool) l,
  find_pos p l = None <-> (forall x, In x l -> p x = false).
Proof. clear zero eqb.
  intros p; induction l as [|x t IH].
  - cbn [find_pos In]. split; [tauto | reflexivity].
  - cbn [find_pos In]. destruct (p x) eqn:Ex.
    + split; [discriminate|]. intro H. rewrite (H x) in Ex by (left; reflexivity). discriminate Ex.
    + destruct (find_pos p t) as [k|]; cbn [option_map].
      * split; [discriminate|]. intro H.
        assert (HN : Some k = None).
        { apply IH. intros y Hy. apply H. right. exact Hy. }
        discriminate HN.
      * split; [|reflexivity]. intros _ y [<-|Hy]; [exact Ex|].
        apply (proj1 IH eq_refl). exact Hy.
Qed.

Theorem get_index_spec : forall l v k, get_index eqb l v = S k <->
  (k < length l /\ (forall d, eqb (nth k l d) v = true) /\
   forall j d, j < k -> eqb (nth j l d) v = false).
Proof.
  intros l v k. unfold get_index.
  pose proof (find_pos_some (fun x => eqb x v) l k) as HS. cbv beta in HS.
  destruct (find_pos (fun x => eqb x v) l) as [k'|].
  - split.
    + intro H. injection H as ->. apply HS. reflexivity.
    + intro H. apply HS in H. injection H as ->. reflexivity.
  - split; [discriminate|]. intro H. apply HS in H. discriminate H.
Qed.

Theorem get_index_zero : forall l v,
  get_index eqb l v = 0 <-> (forall x, In x l -> eqb x v = false).
Proof.
  intros l v. unfold get_index.
  pose proof (find_pos_none (fun x => eqb x v) l) as HN. cbv beta in HN.
  destruct (find_pos (fun x => eqb x v) l) as [k'|].
  - split; [discriminate|]. intro H. apply HN in H. discriminate H.
  - split; [|reflexivity]. intros _. apply HN. reflexivity.
Qed.

End SeqProofs.

Print Assumptions C01_refines.
Print Assumptions remove_values_perm.
