(* ScanLang.v — syntax of the micro-language into which tools/goscan translates, statement by
   statement, the token / line / position bookkeeping of v4/cdcn/scanner.go: the bodies of
   foundToken, foundError, foundEOF, indexOfLastEOL, scanTokens (GenScan.v, regenerated on every
   run).  Definitions only; the meaning is given in ScanSem.v.
   The four int fields of scanner_ are named by ROLE, read off emitToken:
   string(v.runes_[A:B]) makes A "first" and B "next", Token().Make(L, P, type_, value) makes L
   "line" and P "position"; any other int field keeps its Go name.  Locals carry canonical names by
   kind (str: string, runes: []rune, num: int, ms: the list of matches), numbered per function. *)
From Coq Require Import ZArith List String.
Import ListNotations.

Inductive sfield := FNext | FFirst | FLine | FPos | FOther (name : string).

Inductive sexp :=                                    (* expressions of type int *)
| XLit (n : Z)
| XField (f : sfield)                                (* v.f *)
| XVar (x : string)                                  (* an int local *)
| XLenRunes (x : string)                             (* len(x), x a []rune: the number of RUNES *)
| XLenBytes (x : string)                             (* len(x), x a string: the number of BYTES *)
| XRuneCount (x : string)                            (* utf8.RuneCountInString(x) *)
| XCountNL (x : string)                              (* strings.Count(x, "\n") *)
| XLenSource                                         (* len(v.runes_) *)
| XAdd (a b : sexp)
| XSub (a b : sexp).

Inductive scmp := KLt | KGt | KLe | KGe | KEq | KNe.

Inductive scond :=
| CCmp (op : scmp) (a b : sexp)
| CRuneAtIs (x : string) (i : sexp) (c : Z)          (* x[i] == 'c' *)
| CMatchIsEmpty (m : string)                         (* m.IsEmpty() *)
| CTypeIs (name : string)                            (* type_ == XToken *)
| CNot (c : scond).

Inductive stext :=                                   (* a []rune argument *)
| TRunesVar (x : string)                             (* a []rune local *)
| TRunesOf (x : string).                             (* []rune(x), x a string local *)

Inductive stype := TyParam | TyConst (name : string).     (* type_ / XToken *)

Inductive sstmt :=
| SSetField (f : sfield) (e : sexp)                  (* v.f = e *)
| SAddField (f : sfield) (e : sexp)                  (* v.f += e *)
| SIncField (f : sfield)                             (* v.f++ *)
| SSetFieldCall (f : sfield) (fn : string) (a : stext)   (* v.f = v.indexOfLastEOL(a) *)
| SVar (x : string) (e : sexp)                       (* var x = e  /  x := e *)
| SIncVar (x : string) | SDecVar (x : string)        (* x++ / x-- *)
| STextSlice (x : string) (lo hi : option sexp)      (* var x = string(v.runes_[lo:hi]) *)
| SMatch (m x : string)                              (* var m = Scanner().MatchToken(type_, x) *)
| SGroup (x m : string) (n : Z)                      (* var x = m.GetValue(n) *)
| SRunes (x y : string)                              (* var x = []rune(y) *)
| SIf (c : scond) (yes no : list sstmt)
| SFor (label : option string) (init : list sstmt) (c : scond) (post body : list sstmt)
                                                     (* [label:] for init; c; post { body } *)
| SSwitchFound (cases : list (string * list sstmt)) (dflt : list sstmt)
                                                     (* switch { case v.foundToken(XToken): … default: … } *)
| SBreak (label : option string)
| SEmit (t : stype)                                  (* v.emitToken(t) *)
| SCall (fn : string)                                (* v.foundError() / v.foundEOF() *)
| SReturn                                            (* return *)
| SReturnInt (e : sexp)                              (* return e *)
| SReturnBool (b : bool)                             (* return true / false *)
| SUnknown (text : string).                          (* anything else: no meaning *)

(* how the constructor Make initialises an int field *)
Inductive sinit := InitLit (n : Z) | InitLenSource | InitUnknown (text : string).
