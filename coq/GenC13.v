(* GenC13.v — property C13 for the GENERATED stack methods (GenSrc.v, regenerated from
   v4/collection/stack.go and the list / array / iterator methods they call): AddValue / RemoveTop /
   RemoveAll compute stack_push / stack_pop, and the headline theorems of C13 (never more values than
   the capacity, LIFO) hold for every history executed by the generated methods.
   Not part of the common build: compiled by ./check C13. *)
From Verif Require Import Base Seq ListImpl Coll SeqProofs StackProofs MiniGo GenSrc GenRep GenLib GenIter GenSeq.

Section GenC13.
Variable A : Type.
Variable zero : A.
Variable ext : ident -> ident -> val A -> list (val A) -> option (val A).
Notation call_at F := (i_call (interp_at A zero ext prog F)).
Notation run_method := (MiniGo.run_method A zero ext prog).

Lemma gen_stack_GetCapacity cls n cap l F : 6 <= F ->
  call_at F (stk_val cls n cap l) id_GetCapacity [] = ROk (VInt cap, stk_val cls n cap l).
Proof. intros HF. fuel F 6. gocall. reflexivity. Qed.

Lemma gen_stack_GetSize cls n cap l F : 20 <= F ->
  call_at F (stk_val cls n cap l) id_GetSize [] = ROk (VInt (Z.of_nat (length l)), stk_val cls n cap l).
Proof. intros HF. fuel F 20. gocall. rewrite (gen_list_GetSize A zero ext) by lia. gorun. reflexivity. Qed.

Lemma gen_stack_IsEmpty cls n cap l F : 22 <= F ->
  call_at F (stk_val cls n cap l) id_IsEmpty [] = ROk (VBool (length l =? 0), stk_val cls n cap l).
Proof. intros HF. fuel F 22. gocall. rewrite (gen_list_IsEmpty A zero ext) by lia. gorun. reflexivity. Qed.

Lemma gen_stack_AsArray cls n cap l F : (Z.of_nat (length l) < two63)%Z -> 26 <= F ->
  call_at F (stk_val cls n cap l) id_AsArray [] = ROk (VSlice (elems l), stk_val cls n cap l).
Proof. intros HL HF. fuel F 26. gocall. rewrite (gen_list_AsArray A zero ext) by (assumption || lia). gorun. reflexivity. Qed.

Lemma gen_stack_RemoveAll cls n cap l F : 40 <= F ->
  call_at F (stk_val cls n cap l) id_RemoveAll [] = ROk (VTuple [], stk_val cls n cap []).
Proof. intros HF. fuel F 40. gocall. rewrite (gen_list_RemoveAll A zero ext) by lia. gorun. reflexivity. Qed.

(* AddValue(value): panics at capacity, otherwise the value becomes the first of the list.
   Fuel: the rebuild loop of list.InsertValue takes one unit per value. *)
Lemma gen_stack_AddValue cls n (cap : nat) l a F :
  (Z.of_nat (length l) + 1 < two63)%Z -> length l + 120 <= F ->
  call_at F (stk_val cls n (Z.of_nat cap) l) id_AddValue [VElem a] =
  match stack_push cap l a with
  | Ret l' => ROk (VTuple [], stk_val cls n (Z.of_nat cap) l') | _ => RPanic (stk_val cls n (Z.of_nat cap) l)
  end.
Proof.
  intros HL HF. unfold stack_push.
  pose proof (gen_list_InsertValue_impl A zero ext n l 0 a) as IV.
  rewrite (insert_value_refines A zero) in IV. unfold insert_value in IV. cbn [Nat.ltb Nat.leb firstn skipn app] in IV.
  fuel F 16. gocall. rewrite (gen_list_GetSize A zero ext) by lia. gorun. gogo; try reflexivity.
  rewrite IV by lia. gorun. reflexivity.
Qed.

(* RemoveTop(): panics when empty, otherwise removes and returns the first of the list *)
Lemma gen_stack_RemoveTop cls n cap l F :
  (Z.of_nat (length l) < two63)%Z -> length l + 120 <= F ->
  call_at F (stk_val cls n cap l) id_RemoveTop [] =
  match stack_pop l with
  | Ret (x, l') => ROk (VElem x, stk_val cls n cap l') | _ => RPanic (stk_val cls n cap l)
  end.
Proof.
  intros HL HF.
  pose proof (gen_list_RemoveValue_impl A zero ext n l 1) as RV.
  rewrite (remove_value_refines A zero) in RV. unfold remove_value, pos in RV.
  fuel F 16. gocall. rewrite (gen_list_IsEmpty A zero ext) by lia. gorun.
  destruct l as [|x t]; cbn [length Nat.eqb stack_pop]; gorun; [reflexivity|].
  rewrite RV by (cbn [length] in *; lia). cbn [length Nat.eqb Z.eqb]. repeat zsplit; cbn [orb]; try (cbn [length] in *; lia).
  cbn [Z.sub Z.add Z.opp Z.pos_sub Z.to_nat nth remove_nth]. gorun. reflexivity.
Qed.

(* ---------- histories executed by the generated methods ---------- *)
Definition gen_kop (o : kop A) : ident * list (val A) :=
  match o with
  | KPush _ v => (id_AddValue, [VElem v])
  | KPop _ => (id_RemoveTop, [])
  | KClear _ => (id_RemoveAll, [])
  end.
Definition obs_of (o : kop A) (v : val A) : kobs A :=
  match o, v with
  | KPop _, VElem x => KVal A x
  | _, _ => KUnit A
  end.
(* the history goes on from the receiver as each call left it, also when the call panicked (a MiniGo panic
   carries the receiver at the point of the panic); running out of fuel or getting stuck ends the history *)
Fixpoint gen_krun (F : nat) (recv : val A) (ops : list (kop A)) : option (val A * list (kobs A)) :=
  match ops with
  | [] => Some (recv, [])
  | o :: rest =>
    match call_at F recv (fst (gen_kop o)) (snd (gen_kop o)) with
    | ROk (v, recv') => option_map (fun r => (fst r, obs_of o v :: snd r)) (gen_krun F recv' rest)
    | RPanic recv' => option_map (fun r => (fst r, KPanic A :: snd r)) (gen_krun F recv' rest)
    | _ => None
    end
  end.

Lemma gen_kstep cls n (cap : nat) l o F :
  length l <= cap -> (Z.of_nat cap + 1 < two63)%Z -> cap + 120 <= F ->
  call_at F (stk_val cls n (Z.of_nat cap) l) (fst (gen_kop o)) (snd (gen_kop o)) =
  match snd (kstep A cap l o) with
  | KPanic _ => RPanic (stk_val cls n (Z.of_nat cap) (fst (kstep A cap l o)))
  | KVal _ x => ROk (VElem x, stk_val cls n (Z.of_nat cap) (fst (kstep A cap l o)))
  | KUnit _ => ROk (VTuple [], stk_val cls n (Z.of_nat cap) (fst (kstep A cap l o)))
  end.
Proof.
  intros HL HC HF. destruct o as [v| |]; cbn [gen_kop fst snd kstep].
  - rewrite gen_stack_AddValue by lia. destruct (stack_push cap l v); reflexivity.
  - rewrite gen_stack_RemoveTop by lia. destruct (stack_pop l) as [[x l']| |]; reflexivity.
  - rewrite gen_stack_RemoveAll by lia. reflexivity.
Qed.

(* every history run by the generated methods is the model's history: same observations, same final
   stack; it never runs out of fuel when the fuel covers capacity + 120 *)
Theorem gen_krun_is_krun cls n (cap : nat) ops : forall l F,
  length l <= cap -> (Z.of_nat cap + 1 < two63)%Z -> cap + 120 <= F ->
  gen_krun F (stk_val cls n (Z.of_nat cap) l) ops =
  Some (stk_val cls n (Z.of_nat cap) (fst (krun A cap l ops)), snd (krun A cap l ops)).
Proof.
  induction ops as [|o rest IH]; intros l F HL HC HF; cbn [gen_krun krun].
  - reflexivity.
  - rewrite gen_kstep by assumption.
    pose proof (kstep_bound A cap l o HL) as HB.
    destruct (kstep A cap l o) as [l' ob] eqn:EK. cbn [fst snd] in *.
    specialize (IH l' F HB HC HF).
    destruct (krun A cap l' rest) as [lf obs] eqn:ER. cbn [fst snd] in *.
    destruct ob as [|x|]; cbn [fst snd]; rewrite IH; cbn [option_map fst snd].
    + destruct o; reflexivity.
    + destruct o as [v| |]; cbn [kstep] in EK.
      * destruct (stack_push cap l v); inversion EK.
      * reflexivity.
      * inversion EK.
    + reflexivity.
Qed.

End GenC13.

(* ---------- the statements of C13 for the generated code (closed by [exact]) ---------- *)
Theorem C13_gen_methods_compute_the_model :
  forall (A : Type) (zero : A) (ext : ident -> ident -> val A -> list (val A) -> option (val A))
         (cls n : val A) (cap : nat) (l : list A) (a : A) (F : nat),
    (Z.of_nat (length l) + 1 < two63)%Z -> length l + 120 <= F ->
    let run := run_method A zero ext prog F (stk_val cls n (Z.of_nat cap) l) in
    run id_AddValue [VElem a] =
      match stack_push cap l a with Ret l' => Ret (VTuple [], stk_val cls n (Z.of_nat cap) l') | _ => Panic end /\
    run id_RemoveTop [] =
      match stack_pop l with Ret (x, l') => Ret (VElem x, stk_val cls n (Z.of_nat cap) l') | _ => Panic end /\
    run id_RemoveAll [] = Ret (VTuple [], stk_val cls n (Z.of_nat cap) []) /\
    run id_GetCapacity [] = Ret (VInt (Z.of_nat cap), stk_val cls n (Z.of_nat cap) l) /\
    run id_GetSize [] = Ret (VInt (Z.of_nat (length l)), stk_val cls n (Z.of_nat cap) l) /\
    run id_IsEmpty [] = Ret (VBool (length l =? 0), stk_val cls n (Z.of_nat cap) l) /\
    run id_AsArray [] = Ret (VSlice (elems l), stk_val cls n (Z.of_nat cap) l).
Proof.
  intros A zero ext cls n cap l a F HL HF run. unfold run, run_method, call_at.
  rewrite gen_stack_AddValue, gen_stack_RemoveTop, gen_stack_RemoveAll, gen_stack_GetCapacity, gen_stack_GetSize,
    gen_stack_IsEmpty, gen_stack_AsArray by lia.
  repeat split.
  - destruct (stack_push cap l a); reflexivity.
  - destruct (stack_pop l) as [[x l']| |]; reflexivity.
Qed.

Theorem C13_gen_history_is_the_model_history :
  forall (A : Type) (zero : A) (ext : ident -> ident -> val A -> list (val A) -> option (val A))
         (cls n : val A) (cap : nat) (ops : list (kop A)) (l : list A) (F : nat),
    length l <= cap -> (Z.of_nat cap + 1 < two63)%Z -> cap + 120 <= F ->
    gen_krun A zero ext F (stk_val cls n (Z.of_nat cap) l) ops =
    Some (stk_val cls n (Z.of_nat cap) (fst (krun A cap l ops)), snd (krun A cap l ops)).
Proof. exact gen_krun_is_krun. Qed.

(* never more values than the capacity, for every history run by the generated methods *)
Theorem C13_gen_never_exceeds_capacity :
  forall (A : Type) (zero : A) (ext : ident -> ident -> val A -> list (val A) -> option (val A))
         (cls n : val A) (cap : nat) (ops : list (kop A)) (l : list A) (F : nat),
    length l <= cap -> (Z.of_nat cap + 1 < two63)%Z -> cap + 120 <= F ->
    exists l' obs, gen_krun A zero ext F (stk_val cls n (Z.of_nat cap) l) ops = Some (stk_val cls n (Z.of_nat cap) l', obs) /\
                   length l' <= cap.
Proof.
  intros A zero ext cls n cap ops l F HL HC HF. eexists _, _. split.
  - apply gen_krun_is_krun; assumption.
  - apply C13_bound. exact HL.
Qed.

(* LIFO: a value pushed by the generated AddValue is what the generated RemoveTop returns next, and the
   stack is as before *)
Theorem C13_gen_push_then_pop :
  forall (A : Type) (zero : A) (ext : ident -> ident -> val A -> list (val A) -> option (val A))
         (cls n : val A) (cap : nat) (l : list A) (v : A) (F : nat),
    length l < cap -> (Z.of_nat cap + 1 < two63)%Z -> cap + 120 <= F ->
    gen_krun A zero ext F (stk_val cls n (Z.of_nat cap) l) [KPush A v; KPop A] =
    Some (stk_val cls n (Z.of_nat cap) l, [KUnit A; KVal A v]).
Proof.
  intros A zero ext cls n cap l v F HL HC HF.
  rewrite gen_krun_is_krun by (assumption || lia). rewrite C13_push_pop by exact HL. reflexivity.
Qed.

(* a generated call that panics leaves the stack object exactly as it was *)
Theorem C13_gen_panic_leaves_unchanged :
  forall (A : Type) (zero : A) (ext : ident -> ident -> val A -> list (val A) -> option (val A))
         (cls n : val A) (cap : nat) (l : list A) (a : A) (F : nat),
    (Z.of_nat (length l) + 1 < two63)%Z -> length l + 120 <= F ->
    (stack_push cap l a = Panic ->
     panic_state A zero ext prog F (stk_val cls n (Z.of_nat cap) l) id_AddValue [VElem a] = Some (stk_val cls n (Z.of_nat cap) l)) /\
    (stack_pop l = Panic ->
     panic_state A zero ext prog F (stk_val cls n (Z.of_nat cap) l) id_RemoveTop [] = Some (stk_val cls n (Z.of_nat cap) l)).
Proof.
  intros A zero ext cls n cap l a F HL HF. unfold panic_state, call_at. split; intros E.
  - rewrite gen_stack_AddValue by lia. rewrite E. reflexivity.
  - rewrite gen_stack_RemoveTop by lia. rewrite E. reflexivity.
Qed.

(* non-vacuity: capacity 3, stack [3;2;1] (top first): push 4 panics, pop gives 3, push 9, pop gives 9 *)
Example C13_gen_history_example :
  gen_krun Z 0%Z no_ext 200 (stk_val VNil VNil 3 [3; 2; 1]%Z) [KPush Z 4%Z; KPop Z; KPush Z 9%Z; KPop Z] =
  Some (stk_val VNil VNil 3 [2; 1]%Z, [KPanic Z; KVal Z 3%Z; KUnit Z; KVal Z 9%Z]).
Proof. vm_compute. reflexivity. Qed.

Print Assumptions C13_gen_methods_compute_the_model.
Print Assumptions C13_gen_history_is_the_model_history.
Print Assumptions C13_gen_never_exceeds_capacity.
Print Assumptions C13_gen_push_then_pop.
Print Assumptions C13_gen_panic_leaves_unchanged.
