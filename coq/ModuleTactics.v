(* ModuleTactics.v — definitions and tactics shared by the late files of C20 (GenC20.v, GenC20b.v, GenC20c.v); nothing here
   depends on the regenerated table (everything takes the gen_ctor as an argument), so this file is in the common build. *)
From Coq Require Import String.
From Verif Require Import Base Sorter Value Seq Coll Pool PoolRun Params SetProofs AssocProofs Facade FacadeProofs ModuleLang ModuleSem ModuleFacts.
Open Scope Z_scope.
Open Scope list_scope.

Fixpoint fold_model {St} (model : St -> arg -> option St) (s : St) (args : list arg) : option St :=
  match args with
  | [] => Some s
  | a :: r => match model s a with Some s' => fold_model model s' r | None => None end
  end.

Lemma assign_is_fold : forall k args s, assign k s args = fold_model (accept k) s args.
Proof. intros k. induction args as [|a r IH]; intros s; cbn; [reflexivity|]. destruct (accept k s a); [apply IH|reflexivity]. Qed.

Section LoopSim.
Variables (St : Type) (envf : St -> list mval -> menv) (model : St -> arg -> option St) (ok : arg -> Prop) (K : nat).
Variable step : arg -> menv -> mres.
Hypothesis step_sim : forall s scr a, ok a -> length scr = K ->
  exists scr', length scr' = K /\
    step a (envf s scr) = match model s a with Some s' => RNormal (envf s' scr') | None => RPanic end.

Lemma loop_sim : forall args s scr, Forall ok args -> length scr = K ->
  match fold_model model s args with
  | Some s' => exists scr', length scr' = K /\ fold_loop step args (envf s scr) = RNormal (envf s' scr')
  | None => fold_loop step args (envf s scr) = RPanic
  end.
Proof.
  induction args as [|a r IH]; intros s scr F L; cbn [fold_model fold_loop].
  - exists scr. split; [exact L|reflexivity].
  - inversion_clear F as [|? ? Ha Hr]. destruct (step_sim s scr a Ha L) as (scr' & L' & E). rewrite E.
    destruct (model s a) as [s'|]; [|reflexivity]. apply (IH s' scr' Hr L').
Qed.
End LoopSim.

Tactic Notation "explode" ident(scr) integer(n) :=
  do n (let x := fresh "x" in destruct scr as [|x scr]; [discriminate|]); destruct scr; [|discriminate].

(* the arguments the model is about: sizes are not negative *)
Definition size_ok (a : arg) : Prop := match a with AInt z | AUint z => 0 <= z | _ => True end.

Definition opt_slice (o : option (list val)) : mval := match o with Some l => MArgV (ASlice l) | None => MNone end.
Definition opt_seq (o : option (list val)) : mval := match o with Some l => MArgV (ASeq KList l) | None => MNone end.
Definition src_of (s : slots) : mval := MArgV (AString (s_text s) (s_parsed s)).

Definition loop_body (g : gen_ctor) : list mstmt :=
  match filter (fun s => match s with SArgLoop _ => true | _ => false end) (g_body g) with
  | [SArgLoop b] => b
  | _ => []
  end.

Definition pre_body (g : gen_ctor) : list mstmt :=
  (fix go (ss : list mstmt) := match ss with [] => [] | SArgLoop _ :: _ => [] | s :: r => s :: go r end) (g_body g).
Definition post_body (g : gen_ctor) : list mstmt :=
  (fix go (ss : list mstmt) := match ss with [] => [] | SArgLoop _ :: r => r | _ :: r => go r end) (g_body g).

Definition iter_body (ss : list mstmt) : list mstmt :=
  match ss with [] => [] | _ => ss end.
Fixpoint find_iter (fuel : nat) (ss : list mstmt) : list (list mstmt) :=
  match fuel with
  | O => []
  | S f => flat_map (fun s => match s with
                              | SIterLoop _ b => [b]
                              | SSwitch cases dflt => flat_map (fun cb => find_iter f (snd cb)) cases ++ match dflt with Some b => find_iter f b | None => [] end
                              | SIf _ a b => find_iter f a ++ find_iter f b
                              | _ => []
                              end) ss
  end.
Definition iter_body_of (g : gen_ctor) (k : nat) : list mstmt := nth k (find_iter 6 (post_body g)) [].

Ltac norm_body :=
  repeat match goal with
  | |- context [iter_body_of ?g ?k] => let b := eval vm_compute in (iter_body_of g k) in change (iter_body_of g k) with b
  | |- context [post_body ?g] => let b := eval vm_compute in (post_body g) in change (post_body g) with b
  | |- context [pre_body ?g] => let b := eval vm_compute in (pre_body g) in change (pre_body g) with b
  | |- context [loop_body ?g] => let b := eval vm_compute in (loop_body g) in change (loop_body g) with b
  end.

(* one statement: the head statement is evaluated with the executor for nested blocks kept abstract *)
Ltac xstep :=
  rewrite exec_cons;
  match goal with
  | |- context [exec1 ?a ?r ?c ?e ?s] =>
    let R := fresh "R" in let HR := fresh "HR" in
    remember r as R eqn:HR;
    let v := eval lazy -[write_back] in (exec1 a R c e s) in change (exec1 a R c e s) with v;
    rewrite HR; clear HR R
  end; cbv beta iota.

Ltac fin :=
  lazy;
  repeat match goal with
         | |- context [match class_ctor ?k ?t ?f with _ => _ end] => destruct (class_ctor k t f)
         end;
  reflexivity.
Ltac seq_cases pv :=
  destruct pv;
  match goal with
  | |- context [PColl (VSeq ?k _)] =>
    destruct k; match goal with |- context [VSeq KSlice] => solve [fin] | |- _ => idtac end
  | |- _ => solve [fin]
  end.
Ltac slots_tree sz vals sq txt prs :=
  destruct sz as [|?p|?p]; [ | solve [fin] | ];
  (destruct vals as [[|?v ?l]|]; [ | solve [fin] | ];
   (destruct sq as [?l|]; [solve [fin]|];
    (destruct txt as [|?ch ?t]; [solve [fin]|];
     (destruct prs as [?pv|]; [|solve [fin]]; seq_cases pv)))).

(* the whole constructor: declarations, the loop over the arguments (a simulation of Facade.assign), the cascade *)
Ltac ctor_main g k envf K stepl postl :=
  intros tk tv args Hok; unfold run_ctor, exec_fuel;
  let b := eval vm_compute in (g_body g) in change (g_body g) with b;
  let n := eval vm_compute in (g_locals g) in change (g_locals g) with n;
  cbn [repeat];
  repeat (lazymatch goal with |- context [exec _ _ _ _ (SArgLoop _ :: _)] => fail | |- _ => xstep end);
  rewrite exec_cons; cbn [exec1];
  match goal with
  | |- context [fold_loop ?st args ?e] =>
    let H := fresh "H" in
    pose proof (loop_sim slots envf (accept k) size_ok K st
                  (fun s scr a Ha L => stepl args tk tv _ s scr a Ha L) args slots0 (repeat MNone K) Hok eq_refl) as H;
    change e with (envf slots0 (repeat MNone K));
    unfold facade; rewrite assign_is_fold;
    destruct (fold_model (accept k) slots0 args) as [s'|];
    [ destruct H as (scr' & L' & E); rewrite E; cbv beta iota; apply (postl args tk tv _ s' scr' L')
    | rewrite H; reflexivity ]
  end.

Ltac step_tac scr a Ha n K :=
  destruct a; try (match goal with z : Z |- _ => destruct z as [|?p|?p]; [| |exfalso; cbn in Ha; lia] end);
    first [ eexists; split; [|lazy; reflexivity]; reflexivity
          | exists (repeat MNone K); split; [reflexivity|vm_compute; reflexivity] ].

Definition opt_coll (o : option nat) : mval := match o with Some c => MArgV (ACollator c) | None => MNone end.
Definition env_set (s : slots) (scr : list mval) : menv :=
  [MArgV ANotation; opt_slice (s_values s); opt_seq (s_seq s); src_of s; opt_coll (s_coll s)] ++ scr.

(* a list of scratch locals of a length that is computed from the regenerated table *)
Ltac explode_dyn scr L :=
  vm_compute in L;
  repeat (destruct scr as [|?x scr]; [discriminate L|]; cbn [length] in L; apply eq_add_S in L);
  destruct scr; [|discriminate L].

(* values of the class constructors the source branches start from (class_ctor is opaque in the late files) *)
Lemma class_make_list : forall t, class_ctor FList t CMake = Ret (OLst []). Proof. reflexivity. Qed.
Lemma class_make_set : forall t, class_ctor FSet t CMake = Ret (OSet 0 []). Proof. reflexivity. Qed.
Lemma class_make_catalog : forall t, class_ctor FCatalog t CMake = Ret (OCat []). Proof. reflexivity. Qed.
Lemma class_make_map : forall t, class_ctor FMap t CMake = Ret (OMap []). Proof. reflexivity. Qed.
Lemma class_array_size : forall t n, class_ctor FArray t (CSize n) = Ret (OArr (repeat (zero_of t) n)). Proof. reflexivity. Qed.
Lemma class_with_collator : forall t c l, class_ctor FSet t (CWithCollator c l) = out_map (OSet c) (set_add_all (zero_of t) (ranker c) [] l).
Proof. reflexivity. Qed.

Lemma set_add_all_nil : forall z (rk : val -> val -> comparison) l, set_add_all z rk l [] = Ret l. Proof. reflexivity. Qed.

Lemma ordered_nil : forall m, ordered m [] = m. Proof. intros [|p l]; reflexivity. Qed.

Ltac class_vals := rewrite ?class_make_list, ?class_make_set, ?class_make_catalog, ?class_make_map, ?class_array_size, ?class_with_collator, ?set_add_all_nil, ?ordered_nil.
Ltac fin2 :=
  lazy; class_vals; lazy;
  repeat match goal with
         | |- context [match class_ctor ?k ?t ?f with _ => _ end] => destruct (class_ctor k t f)
         end;
  reflexivity.
(* run the statements up to the loop over the parsed items (or to the end) *)
Ltac to_loop := repeat first [ timeout 20 xstep | progress class_vals | progress cbn [set_add_all out_map out_bind] | progress cbv beta iota ].


(* the model's side opened up to the assertion on the parsed collection (parsed_items / parsed_pairs kept folded) *)
Ltac rhs_open_keep :=
  unfold finish_set, finish_list, finish_array, finish_pairs, source_values, source_pairs, array_from_source;
  cbn [s_size s_has_size s_values s_seq s_text s_parsed s_coll s_assocs s_map s_aseq has_text nonempty get_list];
  class_vals.
Ltac rhs_open := rhs_open_keep; cbn [parsed_items parsed_pairs]; class_vals.
Ltac kill_stuck :=
  change (ranker 0%nat) with rk_default in *;
  repeat (class_vals;
          match goal with
          | |- context [convert_all ?t ?its] => destruct (convert_all t its)
          | |- context [convert_pairs ?a ?b ?its] => destruct (convert_pairs a b its)
          | |- context [array_fill ?a ?b ?c ?d] => destruct (array_fill a b c d)
          | |- context [set_add_all ?z ?r ?a ?l] => destruct (set_add_all z r a l)
          end).
Ltac after_loop := timeout 30 rhs_open; timeout 30 kill_stuck; timeout 60 (lazy; class_vals; lazy); timeout 30 kill_stuck; timeout 60 fin2.

Ltac leaf := cbn [plus]; timeout 60 to_loop; after_loop.
Ltac seq_cases2 pv :=
  destruct pv; match goal with |- context [PColl (VSeq ?k _)] => destruct k; match goal with |- context [VSeq KSlice] => leaf | |- _ => idtac end | |- _ => leaf end.
Ltac set_loop :=
  cbn [plus]; timeout 60 to_loop;
  timeout 20 (match goal with |- context [fold_loop ?st ?its ?env] => erewrite (set_add_loop _ _ _ _ _ _ st its (fun x e => eq_refl)); [ | cbn; congruence | cbn; lia | cbn; lia | reflexivity ] end);
  after_loop.
