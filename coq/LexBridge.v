(* LexBridge.v -- first-token lemmas: when the input starts with a well-formed text of a
   simple token class followed by a separator, the scanner model picks exactly that
   class with exactly that length.  Bridge between formatter output and the scanner. *)
From Coq Require Import String Ascii.
From Verif Require Import Base Params Lexer LexerProofs.
Close Scope string_scope.
Open Scope Z_scope.

(* what may follow a token in formatter output: end of text, a space, a newline, or a delimiter *)
Definition sep_start (rest : list Z) : Prop :=
  match rest with [] => True | c :: _ => c = 32 \/ c = 10 \/ is_delim c = true end.

(* ====================================================================== *)
(* A. Small tools                                                         *)
(* ====================================================================== *)

(* turn every decidably false Z equality test of the goal into false *)
Ltac zfalse :=
  repeat match goal with
         | |- context [Z.eqb ?a ?b] => rewrite (proj2 (Z.eqb_neq a b)) by lia
         end.

Lemma is_delim_cases : forall c, is_delim c = true ->
  c = 91 \/ c = 93 \/ c = 40 \/ c = 41 \/ c = 58 \/ c = 44.
Proof.
  unfold is_delim; intros c H.
  repeat (apply orb_true_iff in H; destruct H as [H|H]); apply Z.eqb_eq in H; lia.
Qed.

Lemma sep_head : forall c r, sep_start (c :: r) ->
  c = 32 \/ c = 10 \/ c = 91 \/ c = 93 \/ c = 40 \/ c = 41 \/ c = 58 \/ c = 44.
Proof.
  intros c r H; simpl in H. destruct H as [H|[H|H]]; [lia|lia|].
  apply is_delim_cases in H; lia.
Qed.

(* the separator never continues a number *)
Definition stops (p : Z -> bool) (rest : list Z) : Prop :=
  match rest with [] => True | c :: _ => p c = false end.

Lemma sep_stops_digit : forall rest, sep_start rest -> stops is_digit rest.
Proof.
  intros [|c r] H; simpl; auto. apply sep_head in H.
  decompose [or] H; subst; reflexivity.
Qed.

Lemma sep_stops_hex : forall rest, sep_start rest -> stops is_hex rest.
Proof.
  intros [|c r] H; simpl; auto. apply sep_head in H.
  decompose [or] H; subst; reflexivity.
Qed.

Lemma span_app_stop : forall p t rest, forallb p t = true -> stops p rest ->
  span p (t ++ rest) = length t.
Proof.
  intros p t rest; induction t as [|a t IH]; simpl; intros Ht Hs.
  - destruct rest as [|c r]; simpl in *; [reflexivity | rewrite Hs; reflexivity].
  - apply andb_true_iff in Ht; destruct Ht as [Ha Ht]. rewrite Ha, IH; auto.
Qed.

Lemma span_digit_app : forall t rest, forallb is_digit t = true -> stops is_digit rest ->
  span is_digit (t ++ rest) = length t.
Proof. intros; apply span_app_stop; auto. Qed.

Lemma is_nz_range : forall d, is_nz d = true -> 49 <= d <= 57.
Proof.
  unfold is_nz; intros d H. apply andb_true_iff in H; destruct H as [H1 H2].
  apply Z.leb_le in H1; apply Z.leb_le in H2; lia.
Qed.

(* ====================================================================== *)
(* B. try_types, one class at a time                                      *)
(* ====================================================================== *)

Lemma tt_none : forall ty r l, recognize ty l = None -> try_types (ty :: r) l = try_types r l.
Proof. intros ty r l H; simpl; rewrite H; reflexivity. Qed.

Lemma tt_some : forall ty r l n, recognize ty l = Some n -> try_types (ty :: r) l = Some (ty, n).
Proof. intros ty r l n H; simpl; rewrite H; reflexivity. Qed.

Lemma pick_delimiter : forall l n,
  m_boolean l = None -> m_complex l = None -> m_delimiter l = Some n ->
  try_types scan_order_t l = Some (TDelimiter, n).
Proof.
  intros l n H1 H2 H3. rewrite scan_order_pinned.
  rewrite tt_none by exact H1. rewrite tt_none by exact H2. apply tt_some; exact H3.
Qed.

Lemma pick_hexadecimal : forall l n,
  m_boolean l = None -> m_complex l = None -> m_delimiter l = None -> m_eol l = None ->
  m_float l = None -> m_hexadecimal l = Some n ->
  try_types scan_order_t l = Some (THexadecimal, n).
Proof.
  intros l n H1 H2 H3 H4 H5 H6. rewrite scan_order_pinned.
  rewrite tt_none by exact H1. rewrite tt_none by exact H2. rewrite tt_none by exact H3.
  rewrite tt_none by exact H4. rewrite tt_none by exact H5. apply tt_some; exact H6.
Qed.

Lemma pick_integer : forall l n,
  m_boolean l = None -> m_complex l = None -> m_delimiter l = None -> m_eol l = None ->
  m_float l = None -> m_hexadecimal l = None -> m_integer l = Some n ->
  try_types scan_order_t l = Some (TInteger, n).
Proof.
  intros l n H1 H2 H3 H4 H5 H6 H7. rewrite scan_order_pinned.
  rewrite tt_none by exact H1. rewrite tt_none by exact H2. rewrite tt_none by exact H3.
  rewrite tt_none by exact H4. rewrite tt_none by exact H5. rewrite tt_none by exact H6.
  apply tt_some; exact H7.
Qed.

(* ====================================================================== *)
(* C. Recognizers that fail on the first character                        *)
(* ====================================================================== *)

Lemma m_boolean_head : forall c l, c <> 102 -> c <> 116 -> m_boolean (c :: l) = None.
Proof.
  intros c l H1 H2. unfold m_boolean.
  change (zs "false") with [102; 97; 108; 115; 101].
  change (zs "true") with [116; 114; 117; 101].
  cbn [starts]. zfalse. reflexivity.
Qed.

Lemma m_complex_head : forall c l, c <> 40 -> m_complex (c :: l) = None.
Proof. intros c l H. unfold m_complex, m_complex_parts. zfalse. reflexivity. Qed.

Lemma m_delimiter_head : forall c l, is_delim c = false -> m_delimiter (c :: l) = None.
Proof. intros c l H. unfold m_delimiter. rewrite H. reflexivity. Qed.

Lemma m_eol_head : forall c l, c <> 10 -> m_eol (c :: l) = None.
Proof. intros c l H. unfold m_eol. zfalse. reflexivity. Qed.

Lemma m_hexadecimal_head : forall c l, c <> 48 -> m_hexadecimal (c :: l) = None.
Proof.
  intros c l H. unfold m_hexadecimal. destruct l as [|x t]; [reflexivity|].
  zfalse. reflexivity.
Qed.

Lemma m_float_unsigned : forall c l, is_sign c = false -> m_scalar (c :: l) = None ->
  m_float (c :: l) = None.
Proof.
  intros c l Hs Hm. unfold m_float. cbv beta iota zeta. rewrite Hs.
  cbv beta iota. cbn [skipn]. rewrite Hm. reflexivity.
Qed.

Lemma m_float_signed : forall s l, is_sign s = true -> m_scalar l = None ->
  m_float (s :: l) = None.
Proof.
  intros s l Hs Hm. unfold m_float. cbv beta iota zeta. rewrite Hs.
  cbv beta iota. cbn [skipn]. rewrite Hm. reflexivity.
Qed.

(* ====================================================================== *)
(* D. End of line, space, delimiters                                      *)
(* ====================================================================== *)

Lemma first_eol : forall rest, try_types scan_order_t (10 :: rest) = Some (TEOL, 1%nat).
Proof. intros rest. rewrite scan_order_pinned. reflexivity. Qed.

Lemma first_space : forall rest,
  try_types scan_order_t (32 :: rest) = Some (TSpace, S (span is_space rest)).
Proof.
  intros rest. rewrite scan_order_pinned.
  do 5 (rewrite tt_none by reflexivity).
  rewrite tt_none by (apply m_hexadecimal_head; lia).
  do 3 (rewrite tt_none by reflexivity).
  apply tt_some. reflexivity.
Qed.

Lemma first_delim : forall c rest, is_delim c = true -> m_complex (c :: rest) = None ->
  try_types scan_order_t (c :: rest) = Some (TDelimiter, 1%nat).
Proof.
  intros c rest Hd Hc. apply pick_delimiter; auto.
  - apply is_delim_cases in Hd. apply m_boolean_head; lia.
  - unfold m_delimiter. rewrite Hd. reflexivity.
Qed.

Lemma first_delim_not_paren : forall c rest, is_delim c = true -> c <> 40 ->
  try_types scan_order_t (c :: rest) = Some (TDelimiter, 1%nat).
Proof. intros c rest Hd Hc. apply first_delim; auto. apply m_complex_head; auto. Qed.

Lemma first_open_paren_type : forall name rest, In name type_names ->
  try_types scan_order_t (40 :: zs name ++ rest) = Some (TDelimiter, 1%nat).
Proof.
  intros name rest H. apply first_delim; [reflexivity|].
  unfold type_names in H; simpl in H.
  decompose [or] H; try contradiction; subst; reflexivity.
Qed.

(* ====================================================================== *)
(* E. Keywords and type names                                             *)
(* ====================================================================== *)

Lemma first_true : forall rest,
  try_types scan_order_t (zs "true" ++ rest) = Some (TBoolean, 4%nat).
Proof. intros rest. rewrite scan_order_pinned. reflexivity. Qed.

Lemma first_false : forall rest,
  try_types scan_order_t (zs "false" ++ rest) = Some (TBoolean, 5%nat).
Proof. intros rest. rewrite scan_order_pinned. reflexivity. Qed.

Lemma first_nil : forall rest,
  try_types scan_order_t (zs "nil" ++ rest) = Some (TNil, 3%nat).
Proof. intros rest. rewrite scan_order_pinned. reflexivity. Qed.

Lemma first_type : forall name rest, In name type_names ->
  try_types scan_order_t (zs name ++ rest) = Some (TType, String.length name).
Proof.
  intros name rest H. rewrite scan_order_pinned.
  unfold type_names in H; simpl in H.
  decompose [or] H; try contradiction; subst; reflexivity.
Qed.

(* ====================================================================== *)
(* F. Integers                                                            *)
(* ====================================================================== *)

Definition int_text (ds : list Z) : Prop :=
  ds = [48] \/
  exists sg d t, (sg = [] \/ sg = [45] \/ sg = [43]) /\ is_nz d = true /\
                 forallb is_digit t = true /\ ds = sg ++ d :: t.

Lemma ordinal_body : forall d t rest, is_nz d = true -> forallb is_digit t = true ->
  sep_start rest -> m_ordinal (d :: t ++ rest) = Some (S (length t)).
Proof.
  intros d t rest Hd Ht Hs. unfold m_ordinal. rewrite Hd.
  rewrite span_digit_app; auto using sep_stops_digit.
Qed.

Lemma scalar_body : forall d t rest, is_nz d = true -> forallb is_digit t = true ->
  sep_start rest -> m_scalar (d :: t ++ rest) = None.
Proof.
  intros d t rest Hd Ht Hs. pose proof (is_nz_range d Hd) as Hr.
  unfold m_scalar. cbv beta iota zeta.
  rewrite (proj2 (Z.eqb_neq d 48)) by lia.
  rewrite ordinal_body by assumption.
  cbn [skipn]. rewrite skipn_app_length.
  destruct rest as [|c r]; [reflexivity|].
  apply sep_head in Hs. zfalse. reflexivity.
Qed.

Lemma nz_not_sign : forall d, is_nz d = true -> is_sign d = false.
Proof.
  intros d Hd. apply is_nz_range in Hd. unfold is_sign. zfalse. reflexivity.
Qed.

Lemma nz_not_delim : forall d, is_nz d = true -> is_delim d = false.
Proof.
  intros d Hd. apply is_nz_range in Hd. unfold is_delim. zfalse. reflexivity.
Qed.

Lemma first_integer_zero : forall rest, sep_start rest ->
  try_types scan_order_t (48 :: rest) = Some (TInteger, 1%nat).
Proof.
  intros rest Hs. apply pick_integer; try reflexivity.
  - apply m_float_unsigned; [reflexivity|].
    unfold m_scalar. cbv beta iota zeta. cbn [Z.eqb Pos.eqb skipn].
    destruct rest as [|c r]; [reflexivity|].
    apply sep_head in Hs. zfalse. reflexivity.
  - unfold m_hexadecimal. destruct rest as [|c r]; [reflexivity|].
    apply sep_head in Hs. zfalse. rewrite andb_false_r. reflexivity.
Qed.

Lemma first_integer_unsigned : forall d t rest, is_nz d = true ->
  forallb is_digit t = true -> sep_start rest ->
  try_types scan_order_t (d :: t ++ rest) = Some (TInteger, S (length t)).
Proof.
  intros d t rest Hd Ht Hs. pose proof (is_nz_range d Hd) as Hr.
  apply pick_integer.
  - apply m_boolean_head; lia.
  - apply m_complex_head; lia.
  - apply m_delimiter_head, nz_not_delim; auto.
  - apply m_eol_head; lia.
  - apply m_float_unsigned; [apply nz_not_sign; auto | apply scalar_body; auto].
  - apply m_hexadecimal_head; lia.
  - unfold m_integer. rewrite (proj2 (Z.eqb_neq d 48)) by lia.
    rewrite nz_not_sign by auto. apply ordinal_body; auto.
Qed.

Lemma first_integer_signed : forall s d t rest, s = 45 \/ s = 43 -> is_nz d = true ->
  forallb is_digit t = true -> sep_start rest ->
  try_types scan_order_t (s :: d :: t ++ rest) = Some (TInteger, S (S (length t))).
Proof.
  intros s d t rest Hsg Hd Ht Hs.
  assert (Hsign : is_sign s = true) by (destruct Hsg; subst; reflexivity).
  apply pick_integer.
  - apply m_boolean_head; lia.
  - apply m_complex_head; lia.
  - apply m_delimiter_head. destruct Hsg; subst; reflexivity.
  - apply m_eol_head; lia.
  - apply m_float_signed; [exact Hsign | apply scalar_body; auto].
  - apply m_hexadecimal_head; lia.
  - unfold m_integer. rewrite (proj2 (Z.eqb_neq s 48)) by lia.
    rewrite Hsign. rewrite ordinal_body by auto. reflexivity.
Qed.

Lemma first_integer : forall ds rest, int_text ds -> sep_start rest ->
  try_types scan_order_t (ds ++ rest) = Some (TInteger, length ds).
Proof.
  intros ds rest [H0 | (sg & d & t & Hsg & Hd & Ht & Hds)] Hs.
  - subst ds. apply first_integer_zero; auto.
  - subst ds. destruct Hsg as [Hsg|[Hsg|Hsg]]; subst sg; cbn [app length];
      rewrite <- ?app_comm_cons.
    + apply first_integer_unsigned; auto.
    + apply first_integer_signed; auto.
    + apply first_integer_signed; auto.
Qed.

(* ====================================================================== *)
(* G. Hexadecimal                                                         *)
(* ====================================================================== *)

Lemma first_hex : forall hs rest, hs <> [] -> forallb is_hex hs = true -> sep_start rest ->
  try_types scan_order_t (48 :: 120 :: hs ++ rest) = Some (THexadecimal, (2 + length hs)%nat).
Proof.
  intros hs rest Hne Hh Hs. apply pick_hexadecimal; try reflexivity.
  unfold m_hexadecimal. cbn [Z.eqb Pos.eqb andb]. cbv beta iota zeta.
  rewrite span_app_stop by auto using sep_stops_hex.
  destruct hs as [|h hs']; [contradiction Hne; reflexivity|]. reflexivity.
Qed.

(* ====================================================================== *)
(* H. One scanning step, for composing                                    *)
(* ====================================================================== *)

Lemma lex_loop_step : forall order fuel l line pos ty n, l <> [] ->
  try_types order l = Some (ty, n) ->
  lex_loop order (S fuel) l line pos =
  (match ty with TSpace => [] | _ => [mkTok ty (rename (firstn n l)) line pos] end)
  ++ lex_loop order fuel (skipn n l)
       (if (0 <? count_nl (firstn n l))%nat
        then line + Z.of_nat (count_nl (firstn n l)) else line)
       (if (0 <? count_nl (firstn n l))%nat
        then index_of_last_eol (firstn n l) else pos + Z.of_nat n).
Proof.
  intros order fuel l line pos ty n Hne H.
  destruct l as [|c t]; [contradiction Hne; reflexivity|].
  rewrite lex_loop_S, H. reflexivity.
Qed.

(* ====================================================================== *)
(* I. The hypotheses are satisfiable                                      *)
(* ====================================================================== *)

Example int_text_minus_42 : int_text [45; 52; 50].
Proof.
  right. exists [45], 52, [50]. repeat split; auto.
Qed.

Example first_integer_minus_42_comma :
  try_types scan_order_t ([45; 52; 50] ++ [44; 32; 55]) = Some (TInteger, 3%nat).
Proof.
  apply (first_integer [45; 52; 50] [44; 32; 55] int_text_minus_42).
  simpl. right; right; reflexivity.
Qed.

Example first_integer_zero_at_end :
  try_types scan_order_t ([48] ++ []) = Some (TInteger, 1%nat).
Proof. apply (first_integer [48] []); [left; reflexivity | exact I]. Qed.

Example first_hex_ff_bracket :
  try_types scan_order_t (48 :: 120 :: [102; 102] ++ [93]) = Some (THexadecimal, 4%nat).
Proof.
  apply (first_hex [102; 102] [93]); [discriminate | reflexivity |].
  simpl. right; right; reflexivity.
Qed.

Example first_type_list_bracket :
  try_types scan_order_t (zs "List" ++ [40]) = Some (TType, 4%nat).
Proof. apply (first_type "List"%string [40]). simpl; auto. Qed.

Example lex_loop_step_example :
  lex_loop scan_order_t 3 [48; 44] 1 1 =
  [mkTok TInteger [48] 1 1] ++ lex_loop scan_order_t 2 [44] 1 2.
Proof.
  rewrite (lex_loop_step scan_order_t 2 [48; 44] 1 1 TInteger 1%nat); [reflexivity|discriminate|].
  apply (first_integer [48] [44]); [left; reflexivity|].
  simpl. right; right; reflexivity.
Qed.
