(* ParserCountProofs.v — the state-keeping parser of ParserCount.v computes the results of Parser.v
   (so the consumption count is ABOUT parse_tokens), and the scanner-leak condition of ScannerLeak.v
   instantiated with the computed count (C12). *)
From Verif Require Import Base Params Value Coll Lexer Literals Parser LexerProofs ParserCount ScannerLeak.
Local Open Scope nat_scope.

Ltac ag L x := rewrite <- L; destruct x; cbn [erase]; try reflexivity.

Lemma erase_get_next : forall s,
  match c_get_next s with inl r => inl r | inr (o, _) => inr o end = get_next s.
Proof.
  intros s. unfold c_get_next, get_next. destruct (pb s); [|reflexivity].
  destruct (rest s) as [|t r]; [reflexivity|]. destruct (ttype_of t); reflexivity.
Qed.

Lemma erase_parse_token : forall ty want s, erase (c_parse_token ty want s) = parse_token ty want s.
Proof.
  intros ty want s. unfold c_parse_token, parse_token. rewrite <- erase_get_next.
  destruct (c_get_next s) as [[t s1]|[o s']]; [|reflexivity].
  destruct (ttype_eqb (ttype_of t) ty && _); [reflexivity|]. destruct (put_back t s1); reflexivity.
Qed.

Section Agree.
Variable fparse : list Z -> option Z.
Variable crank : val -> val -> option comparison.

Lemma erase_intrinsic_from : forall tys last,
  erase (c_parse_intrinsic_from fparse tys last) = parse_intrinsic_from fparse tys (erase last).
Proof.
  induction tys as [|ty r IH]; intros last; cbn [c_parse_intrinsic_from parse_intrinsic_from]; [reflexivity|].
  destruct last as [a t s|t s|o s]; cbn [erase]; try reflexivity.
  ag (erase_parse_token ty None s) (c_parse_token ty None s).
  - destruct (literal_value fparse ty a); reflexivity.
  - rewrite IH. reflexivity.
Qed.

Lemma erase_intrinsic : forall s, erase (c_parse_intrinsic fparse s) = parse_intrinsic fparse s.
Proof. intros s. unfold c_parse_intrinsic, parse_intrinsic. rewrite erase_intrinsic_from. reflexivity. Qed.

Lemma erase_context : forall s, erase (c_parse_context s) = parse_context s.
Proof.
  intros s. unfold c_parse_context, parse_context.
  ag (erase_parse_token TDelimiter (delim 40) s) (c_parse_token TDelimiter (delim 40) s).
  ag (erase_parse_token TType None s0) (c_parse_token TType None s0).
  ag (erase_parse_token TDelimiter (delim 41) s1) (c_parse_token TDelimiter (delim 41) s1).
Qed.

Section Knot.
Variable pcoll : pstate -> pres val.
Variable c_pcoll : pstate -> cres val.
Hypothesis erase_pcoll : forall s, erase (c_pcoll s) = pcoll s.

Lemma erase_value : forall s, erase (c_parse_value fparse c_pcoll s) = parse_value fparse pcoll s.
Proof.
  intros s. unfold c_parse_value, parse_value. ag (erase_intrinsic s) (c_parse_intrinsic fparse s). apply erase_pcoll.
Qed.

Lemma erase_association : forall s, erase (c_parse_association fparse c_pcoll s) = parse_association fparse pcoll s.
Proof.
  intros s. unfold c_parse_association, parse_association. ag (erase_intrinsic s) (c_parse_intrinsic fparse s).
  ag (erase_parse_token TDelimiter (delim 58) s0) (c_parse_token TDelimiter (delim 58) s0).
  - ag (erase_value s1) (c_parse_value fparse c_pcoll s1).
  - destruct (put_back t s1); reflexivity.
Qed.

Lemma erase_inline_assocs_loop : forall fuel cat s,
  erase (c_inline_assocs_loop fparse c_pcoll fuel cat s) = inline_assocs_loop fparse pcoll fuel cat s.
Proof.
  induction fuel as [|f IH]; intros cat s; cbn [c_inline_assocs_loop inline_assocs_loop]; [reflexivity|].
  ag (erase_parse_token TDelimiter (delim 44) s) (c_parse_token TDelimiter (delim 44) s).
  ag (erase_association s0) (c_parse_association fparse c_pcoll s0). destruct a0. apply IH.
Qed.

Lemma erase_inline_associations : forall fuel s,
  erase (c_parse_inline_associations fparse c_pcoll fuel s) = parse_inline_associations fparse pcoll fuel s.
Proof.
  intros fuel s. unfold c_parse_inline_associations, parse_inline_associations.
  ag (erase_association s) (c_parse_association fparse c_pcoll s). destruct a. apply erase_inline_assocs_loop.
Qed.

Lemma erase_multi_assocs_loop : forall fuel cat s,
  erase (c_multi_assocs_loop fparse c_pcoll fuel cat s) = multi_assocs_loop fparse pcoll fuel cat s.
Proof.
  induction fuel as [|f IH]; intros cat s; cbn [c_multi_assocs_loop multi_assocs_loop]; [reflexivity|].
  ag (erase_parse_token TEOL None s) (c_parse_token TEOL None s).
  ag (erase_association s0) (c_parse_association fparse c_pcoll s0). destruct a0. apply IH.
Qed.

Lemma erase_multiline_associations : forall fuel s,
  erase (c_parse_multiline_associations fparse c_pcoll fuel s) = parse_multiline_associations fparse pcoll fuel s.
Proof.
  intros fuel s. unfold c_parse_multiline_associations, parse_multiline_associations.
  ag (erase_parse_token TEOL None s) (c_parse_token TEOL None s).
  ag (erase_association s0) (c_parse_association fparse c_pcoll s0).
  - destruct a0. apply erase_multi_assocs_loop.
  - destruct (put_back t s1); reflexivity.
Qed.

Lemma erase_associations : forall fuel s,
  erase (c_parse_associations fparse c_pcoll fuel s) = parse_associations fparse pcoll fuel s.
Proof.
  intros fuel s. unfold c_parse_associations, parse_associations.
  ag (erase_parse_token TDelimiter (delim 58) s) (c_parse_token TDelimiter (delim 58) s).
  ag (erase_inline_associations fuel s0) (c_parse_inline_associations fparse c_pcoll fuel s0).
  apply erase_multiline_associations.
Qed.

Lemma erase_inline_values_loop : forall fuel acc s,
  erase (c_inline_values_loop fparse c_pcoll fuel acc s) = inline_values_loop fparse pcoll fuel acc s.
Proof.
  induction fuel as [|f IH]; intros acc s; cbn [c_inline_values_loop inline_values_loop]; [reflexivity|].
  ag (erase_parse_token TDelimiter (delim 44) s) (c_parse_token TDelimiter (delim 44) s).
  ag (erase_value s0) (c_parse_value fparse c_pcoll s0). apply IH.
Qed.

Lemma erase_inline_values : forall fuel s,
  erase (c_parse_inline_values fparse c_pcoll fuel s) = parse_inline_values fparse pcoll fuel s.
Proof.
  intros fuel s. unfold c_parse_inline_values, parse_inline_values.
  ag (erase_value s) (c_parse_value fparse c_pcoll s). apply erase_inline_values_loop.
Qed.

Lemma erase_multi_values_loop : forall fuel acc s,
  erase (c_multi_values_loop fparse c_pcoll fuel acc s) = multi_values_loop fparse pcoll fuel acc s.
Proof.
  induction fuel as [|f IH]; intros acc s; cbn [c_multi_values_loop multi_values_loop]; [reflexivity|].
  ag (erase_parse_token TEOL None s) (c_parse_token TEOL None s).
  ag (erase_value s0) (c_parse_value fparse c_pcoll s0). apply IH.
Qed.

Lemma erase_multiline_values : forall fuel s,
  erase (c_parse_multiline_values fparse c_pcoll fuel s) = parse_multiline_values fparse pcoll fuel s.
Proof.
  intros fuel s. unfold c_parse_multiline_values, parse_multiline_values.
  ag (erase_parse_token TEOL None s) (c_parse_token TEOL None s).
  ag (erase_value s0) (c_parse_value fparse c_pcoll s0). apply erase_multi_values_loop.
Qed.

Lemma erase_values : forall fuel s,
  erase (c_parse_values fparse c_pcoll fuel s) = parse_values fparse pcoll fuel s.
Proof.
  intros fuel s. unfold c_parse_values, parse_values.
  ag (erase_parse_token TDelimiter (delim 93) s) (c_parse_token TDelimiter (delim 93) s).
  - destruct (put_back t s0); reflexivity.
  - ag (erase_inline_values fuel s0) (c_parse_inline_values fparse c_pcoll fuel s0). apply erase_multiline_values.
Qed.

Lemma erase_items : forall fuel s,
  erase (c_parse_items fparse c_pcoll fuel s) = parse_items fparse pcoll fuel s.
Proof.
  intros fuel s. unfold c_parse_items, parse_items.
  ag (erase_associations fuel s) (c_parse_associations fparse c_pcoll fuel s). apply erase_values.
Qed.

Lemma erase_sequence : forall fuel s,
  erase (c_parse_sequence fparse c_pcoll fuel s) = parse_sequence fparse pcoll fuel s.
Proof.
  intros fuel s. unfold c_parse_sequence, parse_sequence.
  ag (erase_parse_token TDelimiter (delim 91) s) (c_parse_token TDelimiter (delim 91) s).
  ag (erase_items fuel s0) (c_parse_items fparse c_pcoll fuel s0).
  ag (erase_parse_token TDelimiter (delim 93) s1) (c_parse_token TDelimiter (delim 93) s1).
Qed.

Lemma erase_collection_body : forall fuel s,
  erase (c_parse_collection_body fparse crank c_pcoll fuel s) = parse_collection_body fparse crank pcoll fuel s.
Proof.
  intros fuel s. unfold c_parse_collection_body, parse_collection_body.
  ag (erase_sequence fuel s) (c_parse_sequence fparse c_pcoll fuel s).
  ag (erase_context s0) (c_parse_context s0). destruct (build crank a0 a); reflexivity.
Qed.
End Knot.

Lemma erase_collection : forall fuel s,
  erase (c_parse_collection fparse crank fuel s) = parse_collection fparse crank fuel s.
Proof.
  induction fuel as [|f IH]; intros s; cbn [c_parse_collection parse_collection]; [reflexivity|].
  apply erase_collection_body. exact IH.
Qed.

Lemma erase_trailing_eols : forall fuel s,
  match c_trailing_eols fuel s with inl r => inl r | inr (o, _) => inr o end = trailing_eols fuel s.
Proof.
  induction fuel as [|f IH]; intros s; cbn [c_trailing_eols trailing_eols]; [reflexivity|].
  rewrite <- (erase_parse_token TEOL None s). destruct (c_parse_token TEOL None s); cbn [erase]; try reflexivity. apply IH.
Qed.

(* the added state changes no result *)
Theorem consumption_model_agrees : forall ts, fst (c_parse_tokens fparse crank ts) = parse_tokens fparse crank ts.
Proof.
  intros ts. unfold c_parse_tokens, parse_tokens. cbv zeta.
  rewrite <- (erase_collection (S (length ts)) (mkSt [] ts)).
  destruct (c_parse_collection fparse crank (S (length ts)) (mkSt [] ts)) as [v t s1|t s1|o s1]; cbn [erase fst]; try reflexivity.
  rewrite <- (erase_trailing_eols (S (length ts)) s1).
  destruct (c_trailing_eols (S (length ts)) s1) as [s2|[o sx]]; cbn [fst]; [|reflexivity].
  rewrite <- (erase_parse_token TEOF None s2). destruct (c_parse_token TEOF None s2); reflexivity.
Qed.

End Agree.

(* ---------- the scanner goroutine (ScannerLeak.v) with the computed count ---------- *)
(* in every maximal interleaving of scanner and parser the scanner has added all its N tokens *)
Definition scanner_finishes (N k C : nat) : Prop :=
  forall p c, reach N k C (p, c) -> stuck N k C (p, c) -> p = N.

(* a maximal interleaving exists (so the condition is not vacuous) *)
Lemma exists_final : forall N k C n p c, reach N k C (p, c) -> (N - p) + (k - c) <= n ->
  exists p' c', reach N k C (p', c') /\ stuck N k C (p', c').
Proof.
  intros N k C. induction n as [|n IH]; intros p c R M.
  - exists p, c. split; [exact R|]. intros s' St. inversion St; subst; lia.
  - destruct (lt_dec p N) as [A1|A1]; [destruct (lt_dec (p - c) C) as [A2|A2]|].
    + apply (IH (S p) c); [|lia]. apply (r_step N k C (p, c)); [exact R|constructor; assumption].
    + destruct (lt_dec c p) as [B1|B1]; [destruct (lt_dec c k) as [B2|B2]|].
      * apply (IH p (S c)); [|lia]. apply (r_step N k C (p, c)); [exact R|constructor; assumption].
      * exists p, c. split; [exact R|]. intros s' St. inversion St; subst; lia.
      * exists p, c. split; [exact R|]. intros s' St. inversion St; subst; lia.
    + destruct (lt_dec c p) as [B1|B1]; [destruct (lt_dec c k) as [B2|B2]|].
      * apply (IH p (S c)); [|lia]. apply (r_step N k C (p, c)); [exact R|constructor; assumption].
      * exists p, c. split; [exact R|]. intros s' St. inversion St; subst; lia.
      * exists p, c. split; [exact R|]. intros s' St. inversion St; subst; lia.
Qed.

Theorem scanner_finishes_exactly_when : forall N k C, k <= N -> 1 <= C ->
  (scanner_finishes N k C <-> N - k <= C).
Proof.
  intros N k C Hk HC. split.
  - intros F. destruct (exists_final N k C _ 0 0 (r_init N k C) (le_n _)) as (p & c & R & S).
    apply (scanner_finishes_iff N k C Hk HC p c R S). apply (F p c R S).
  - intros L p c R S. apply (scanner_finishes_iff N k C Hk HC p c R S). exact L.
Qed.

(* the capacity of the token queue is read from parser.go (Params.v): it must be positive *)
Lemma queue_size_pos : 1 <= queue_size.
Proof. vm_compute. lia. Qed.

(* ---------- the token stream of the scanner ends with its only EOF token ---------- *)
Definition eof_last (ts : list token) : Prop :=
  exists pre e, ts = pre ++ [e] /\ Forall (fun t => ttype_eqb (ttype_of t) TEOF = false) pre /\ ttype_eqb (ttype_of e) TEOF = true.

Lemma ttype_eqb_eof : forall t, ttype_eqb (ttype_of t) TEOF = true <-> ttype_of t = TEOF.
Proof. intros t. destruct (ttype_of t); cbn; split; intros H; try discriminate; reflexivity. Qed.

Lemma well_ended_eof_last : forall ts, well_ended ts -> eof_last ts.
Proof.
  intros ts W. destruct W as [body e Hb He|body x e Hb Hx He _ _].
  - exists body, e. split; [reflexivity|]. split; [|apply ttype_eqb_eof; exact He].
    apply Forall_forall. intros t Ht. rewrite Forall_forall in Hb. destruct (Hb t Ht) as [N1 _].
    destruct (ttype_eqb (ttype_of t) TEOF) eqn:E; [|reflexivity]. apply ttype_eqb_eof in E. contradiction.
  - exists (body ++ [x]), e. split; [rewrite <- app_assoc; reflexivity|]. split; [|apply ttype_eqb_eof; exact He].
    apply Forall_app. split.
    + apply Forall_forall. intros t Ht. rewrite Forall_forall in Hb. destruct (Hb t Ht) as [N1 _].
      destruct (ttype_eqb (ttype_of t) TEOF) eqn:E; [|reflexivity]. apply ttype_eqb_eof in E. contradiction.
    + constructor; [|constructor]. rewrite Hx. reflexivity.
Qed.

Lemma has_eofb_prefix : forall pre e k, Forall (fun t => ttype_eqb (ttype_of t) TEOF = false) pre ->
  ttype_eqb (ttype_of e) TEOF = true -> k <= length (pre ++ [e]) ->
  has_eofb (firstn k (pre ++ [e])) = (length (pre ++ [e]) <=? k).
Proof.
  induction pre as [|t pre IH]; intros e k F He Hk; cbn [app length] in *.
  - destruct k as [|k]; cbn; [reflexivity|]. rewrite He. destruct k; [reflexivity|lia].
  - inversion F as [|? ? Ft Fp]; subst. destruct k as [|k]; [reflexivity|].
    cbn [firstn has_eofb existsb]. fold (has_eofb (firstn k (pre ++ [e]))). rewrite Ft. cbn [orb].
    rewrite (IH e k Fp He) by lia. reflexivity.
Qed.

Lemma drain_suffix : forall pre e k, Forall (fun t => ttype_eqb (ttype_of t) TEOF = false) pre ->
  ttype_eqb (ttype_of e) TEOF = true -> k < length (pre ++ [e]) ->
  drain_tokens (skipn k (pre ++ [e])) = Some (length (pre ++ [e]) - k).
Proof.
  induction pre as [|t pre IH]; intros e k F He Hk; cbn [app length] in *.
  - assert (k = 0) by lia. subst k. cbn. rewrite He. reflexivity.
  - inversion F as [|? ? Ft Fp]; subst. destruct k as [|k].
    + cbn [skipn drain_tokens]. rewrite Ft.
      assert (X : drain_tokens (skipn 0 (pre ++ [e])) = Some (length (pre ++ [e]) - 0)).
      { apply (IH e 0 Fp He). rewrite app_length. cbn. lia. }
      cbn [skipn] in X. rewrite X. cbn [option_map]. f_equal. lia.
    + cbn [skipn]. rewrite (IH e k Fp He) by lia. reflexivity.
Qed.

Section Leak.
Variable fparse : list Z -> option Z.
Variable crank : val -> val -> option comparison.

Lemma parse_consumed_le : forall ts, parse_consumed fparse crank ts <= length ts.
Proof. intros ts. unfold parse_consumed. lia. Qed.

(* the repaired ParseSource (parser, then the deferred drain) removes EVERY token of a stream that ends with
   its only EOF from the queue — whatever the parser itself consumed, also when it panicked *)
Theorem drained_consumes_all : forall ts, eof_last ts ->
  consumed_with_drain_tokens fparse crank ts = Some (length ts).
Proof.
  intros ts (pre & e & -> & F & He). unfold consumed_with_drain_tokens, parser_done.
  pose proof (parse_consumed_le (pre ++ [e])) as L. set (k := parse_consumed fparse crank (pre ++ [e])) in *.
  rewrite (has_eofb_prefix pre e k F He L). destruct (Nat.leb_spec (length (pre ++ [e])) k) as [G|G].
  - f_equal. lia.
  - rewrite (drain_suffix pre e k F He G). cbn [option_map]. f_equal. lia.
Qed.

(* C12: no scanner goroutine is left by the repaired ParseSource, for every source text *)
Theorem scanner_always_finishes : forall src,
  consumed_with_drain fparse crank src = Some (length (lex src)) /\
  scanner_finishes (length (lex src)) (length (lex src)) queue_size.
Proof.
  intros src. split.
  - apply drained_consumes_all. apply well_ended_eof_last. apply lex_total.
  - apply (scanner_finishes_exactly_when _ _ _ (le_n _) queue_size_pos). lia.
Qed.

(* before the fix: the scanner finishes exactly when what the parser left behind fits into the queue *)
Theorem scanner_finishes_before_fix_iff : forall src,
  scanner_finishes (length (lex src)) (consumed_before_fix fparse crank src) queue_size <->
  length (lex src) - consumed_before_fix fparse crank src <= queue_size.
Proof.
  intros src. apply scanner_finishes_exactly_when; [apply parse_consumed_le|exact queue_size_pos].
Qed.
End Leak.

(* the text of findings/pre-fix/D18-scanner-goroutine-left.json *)
Definition d18_source : list Z :=
  [91; 49; 32; 50; 44; 32; 51; 44; 32; 52; 44; 32; 53; 44; 32; 54; 44; 32; 55; 44; 32; 56; 44; 32; 57; 44; 32;
   49; 48; 44; 32; 49; 49; 44; 32; 49; 50; 44; 32; 49; 51; 44; 32; 49; 52; 44; 32; 49; 53; 44; 32; 49; 54; 44; 32;
   49; 55; 93; 40; 76; 105; 115; 116; 41]%Z.

Lemma d18_facts : forall fparse crank,
  length (lex d18_source) = 38 /\ consumed_before_fix fparse crank d18_source = 3 /\
  exists t, parse_source fparse crank d18_source = PSyntax t /\ ttype_of t = TInteger /\ tline t = 1%Z /\ tpos t = 4%Z.
Proof.
  intros fparse crank. split; [vm_compute; reflexivity|]. split; [vm_compute; reflexivity|].
  eexists. split; [vm_compute; reflexivity|]. repeat split.
Qed.

(* without the drain the scanner goroutine is left behind: 38 tokens, 3 read, queue of 16: blocked for ever
   after the 19th AddValue *)
Theorem scanner_finishes_refuted_before_fix : exists src, forall fparse crank,
  ~ scanner_finishes (length (lex src)) (consumed_before_fix fparse crank src) 16.
Proof.
  (* 16 = the size of the token queue on the pinned tree; the statement names it instead of Params.parser_queue_size
     so that a later change of that constant (harmless since the drain) does not touch this record of the old defect *)
  exists d18_source. intros fparse crank F.
  apply scanner_finishes_exactly_when in F; [|apply parse_consumed_le|lia].
  destruct (d18_facts fparse crank) as (E1 & E2 & _). rewrite E1, E2 in F. lia.
Qed.

Print Assumptions consumption_model_agrees.
Print Assumptions scanner_always_finishes.
Print Assumptions scanner_finishes_refuted_before_fix.
