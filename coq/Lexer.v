(* Lexer.v — model of v4/cdcn/scanner.go + token.go (definitions only, no proofs).

   Input: the rune slice []rune(source) as a [list Z].  One recognizer per token class
   reproduces what Go's regexp (leftmost-first = the match a backtracking engine finds
   first) returns for the anchored expression "^(?:" + class_ + ")" of scanner.go; the
   expressions themselves are regenerated into Params.token_regexps and pinned by
   LexerProofs.regexps_pinned.  The order in which scanTokens tries the classes is taken
   from Params.scan_order.  foundToken's line/position bookkeeping, emitToken's renaming
   of lone control characters and the Error/EOF tail are transcribed as coded. *)
From Coq Require Import String Ascii.
From Verif Require Import Base Params.
Open Scope Z_scope.

(* ---------- tokens ---------- *)
Inductive ttype :=
| TError | TBoolean | TComplex | TDelimiter | TEOF | TEOL | TFloat | THexadecimal
| TInteger | TNil | TRune | TSpace | TString | TType.

Definition ttype_eqb (a b : ttype) : bool :=
  match a, b with
  | TError, TError | TBoolean, TBoolean | TComplex, TComplex | TDelimiter, TDelimiter
  | TEOF, TEOF | TEOL, TEOL | TFloat, TFloat | THexadecimal, THexadecimal
  | TInteger, TInteger | TNil, TNil | TRune, TRune | TSpace, TSpace | TString, TString
  | TType, TType => true
  | _, _ => false
  end.

(* the names used in Package.go's TokenType enumeration (without the "Token" suffix) *)
Definition ttype_of_name (s : string) : option ttype :=
  if String.eqb s "Error" then Some TError else
  if String.eqb s "Boolean" then Some TBoolean else
  if String.eqb s "Complex" then Some TComplex else
  if String.eqb s "Delimiter" then Some TDelimiter else
  if String.eqb s "EOF" then Some TEOF else
  if String.eqb s "EOL" then Some TEOL else
  if String.eqb s "Float" then Some TFloat else
  if String.eqb s "Hexadecimal" then Some THexadecimal else
  if String.eqb s "Integer" then Some TInteger else
  if String.eqb s "Nil" then Some TNil else
  if String.eqb s "Rune" then Some TRune else
  if String.eqb s "Space" then Some TSpace else
  if String.eqb s "String" then Some TString else
  if String.eqb s "Type" then Some TType else None.

Record token := mkTok { ttype_of : ttype; tval : list Z; tline : Z; tpos : Z }.

Definition token_eqb (a b : token) : bool :=
  ttype_eqb (ttype_of a) (ttype_of b) && list_eqb Z.eqb (tval a) (tval b)
  && (tline a =? tline b) && (tpos a =? tpos b).

(* ---------- text helpers ---------- *)
Fixpoint zs (s : string) : list Z :=
  match s with
  | EmptyString => []
  | String a r => Z.of_N (N_of_ascii a) :: zs r
  end.

(* [pre] is a prefix of [l] *)
Fixpoint starts (pre l : list Z) : bool :=
  match pre, l with
  | [], _ => true
  | p :: pre', c :: l' => (p =? c) && starts pre' l'
  | _ :: _, [] => false
  end.

(* number of leading elements satisfying p *)
Fixpoint span (p : Z -> bool) (l : list Z) : nat :=
  match l with
  | c :: t => if p c then S (span p t) else 0%nat
  | [] => 0%nat
  end.

(* the first n elements exist and all satisfy p *)
Fixpoint all_n (p : Z -> bool) (n : nat) (l : list Z) : bool :=
  match n with
  | O => true
  | S n' => match l with c :: t => p c && all_n p n' t | [] => false end
  end.

Definition is_digit (c : Z) : bool := (48 <=? c) && (c <=? 57).          (* [0-9] *)
Definition is_nz (c : Z) : bool := (49 <=? c) && (c <=? 57).             (* [1-9] *)
Definition is_hex (c : Z) : bool := is_digit c || ((97 <=? c) && (c <=? 102)).  (* [0-9a-f] *)
Definition is_sign (c : Z) : bool := (c =? 43) || (c =? 45).             (* [+-] *)
Definition is_e (c : Z) : bool := (c =? 101) || (c =? 69).               (* [eE] *)
Definition is_space (c : Z) : bool := c =? 32.
Definition is_delim (c : Z) : bool :=
  (c =? 91) || (c =? 93) || (c =? 40) || (c =? 41) || (c =? 58) || (c =? 44).  (* [ ] ( ) : , *)
(* the class of the simple escapes: a b f n r t v, single quote, double quote, backslash *)
Definition is_simple_esc (c : Z) : bool :=
  (c =? 97) || (c =? 98) || (c =? 102) || (c =? 110) || (c =? 114) || (c =? 116) || (c =? 118)
  || (c =? 39) || (c =? 34) || (c =? 92).

(* ---------- recognizers: Some n = the anchored expression matches the first n runes ---------- *)

(* ordinal_ = [1-9][0-9]* *)
Definition m_ordinal (l : list Z) : option nat :=
  match l with
  | c :: t => if is_nz c then Some (S (span is_digit t)) else None
  | [] => None
  end.

(* integer_ = 0|[+-]?[1-9][0-9]*   (the alternative "0" comes first: "0123" yields "0") *)
Definition m_integer (l : list Z) : option nat :=
  match l with
  | c :: t =>
    if c =? 48 then Some 1%nat
    else if is_sign c then option_map S (m_ordinal t)
    else m_ordinal l
  | [] => None
  end.

(* scalar_ = (0 | ordinal_) then a dot then [0-9]+ *)
Definition m_scalar (l : list Z) : option nat :=
  let ip := match l with
            | c :: _ => if c =? 48 then Some 1%nat else m_ordinal l
            | [] => None
            end in
  match ip with
  | None => None
  | Some n =>
    match skipn n l with
    | d :: t =>
      if d =? 46 then
        let k := span is_digit t in
        if (k =? 0)%nat then None else Some (n + 1 + k)%nat
      else None
    | [] => None
    end
  end.

(* exponent_ = [eE][+-][1-9][0-9]* *)
Definition m_exponent (l : list Z) : option nat :=
  match l with
  | e :: s :: t => if is_e e && is_sign s then option_map (fun n => (2 + n)%nat) (m_ordinal t) else None
  | _ => None
  end.

(* float_ = [+-]?(?:scalar_)(?:exponent_)? *)
Definition m_float (l : list Z) : option nat :=
  let sg := match l with c :: _ => if is_sign c then 1%nat else 0%nat | [] => 0%nat end in
  let l1 := skipn sg l in
  match m_scalar l1 with
  | None => None
  | Some n =>
    let k := match m_exponent (skipn n l1) with Some k => k | None => 0%nat end in
    Some (sg + n + k)%nat
  end.

(* complex_ = \((float_)[+-](float_)i\)   — returns the lengths of the two float groups too *)
Definition m_complex_parts (l : list Z) : option (nat * nat) :=
  match l with
  | c :: l1 =>
    if c =? 40 then
      match m_float l1 with
      | None => None
      | Some n1 =>
        match skipn n1 l1 with
        | s :: l2 =>
          if is_sign s then
            match m_float l2 with
            | None => None
            | Some n2 =>
              match skipn n2 l2 with
              | i :: p :: _ => if (i =? 105) && (p =? 41) then Some (n1, n2) else None
              | _ => None
              end
            end
          else None
        | [] => None
        end
      end
    else None
  | [] => None
  end.
Definition m_complex (l : list Z) : option nat :=
  match m_complex_parts l with
  | Some (n1, n2) => Some (1 + n1 + 1 + n2 + 2)%nat
  | None => None
  end.

Definition m_boolean (l : list Z) : option nat :=
  if starts (zs "false") l then Some 5%nat else if starts (zs "true") l then Some 4%nat else None.
Definition m_nil (l : list Z) : option nat := if starts (zs "nil") l then Some 3%nat else None.
Definition type_names : list string := ["Array"; "Catalog"; "List"; "Map"; "Queue"; "Set"; "Stack"]%string.
Fixpoint m_first_of (names : list string) (l : list Z) : option nat :=
  match names with
  | [] => None
  | s :: r => if starts (zs s) l then Some (String.length s) else m_first_of r l
  end.
Definition m_type (l : list Z) : option nat := m_first_of type_names l.
Definition m_delimiter (l : list Z) : option nat :=
  match l with c :: _ => if is_delim c then Some 1%nat else None | [] => None end.
Definition m_eol (l : list Z) : option nat :=
  match l with c :: _ => if c =? 10 then Some 1%nat else None | [] => None end.
Definition m_space (l : list Z) : option nat :=
  let k := span is_space l in if (k =? 0)%nat then None else Some k.
(* hexadecimal_ = 0x[0-9a-f]+ *)
Definition m_hexadecimal (l : list Z) : option nat :=
  match l with
  | z :: x :: t =>
    if (z =? 48) && (x =? 120) then
      let k := span is_hex t in if (k =? 0)%nat then None else Some (2 + k)%nat
    else None
  | _ => None
  end.

(* escape_ = backslash, then x + 2 hex | u + 4 hex | U + 8 hex | one of the simple escapes
   (the exact expression is Params.token_regexps, pinned in LexerProofs) *)
Definition m_escape (l : list Z) : option nat :=
  match l with
  | b :: c :: t =>
    if b =? 92 then
      if c =? 120 then (if all_n is_hex 2 t then Some 4%nat else None)
      else if c =? 117 then (if all_n is_hex 4 t then Some 6%nat else None)
      else if c =? 85 then (if all_n is_hex 8 t then Some 10%nat else None)
      else if is_simple_esc c then Some 2%nat
      else None
    else None
  | _ => None
  end.

(* rune_ = '(escape_|[^'\n])'  — the escape alternative is tried first; when the closing
   quote does not follow it the engine falls back to the character class (so that the
   three runes  ' \ '  are a rune token whose content is a lone backslash) *)
Definition m_rune (l : list Z) : option nat :=
  match l with
  | q :: t =>
    if q =? 39 then
      let via_escape :=
        match m_escape t with
        | Some k => match skipn k t with
                    | q2 :: _ => if q2 =? 39 then Some (k + 2)%nat else None
                    | [] => None
                    end
        | None => None
        end in
      match via_escape with
      | Some n => Some n
      | None =>
        match t with
        | c :: q2 :: _ => if negb (c =? 39) && negb (c =? 10) && (q2 =? 39) then Some 3%nat else None
        | _ => None
        end
      end
    else None
  | [] => None
  end.

(* string_ = DQ (escape_ | any rune but DQ and newline)* DQ      (DQ = the double quote)
   [has_close l]: a double quote occurs in l before any newline — exactly the condition
   under which the rest of the expression, (escape_ | class)* DQ, can still match at l
   (LexerProofs.str_bt_some_iff).  The backtracking engine therefore keeps the escape
   alternative at a backslash iff a closing quote is still reachable behind the escape;
   otherwise the backslash is taken by the character class.  [str_bt] is the literal
   backtracking reading, [str_body] the linear one; LexerProofs.str_body_bt proves them equal. *)
Fixpoint has_close (l : list Z) : bool :=
  match l with
  | [] => false
  | c :: t => if c =? 34 then true else if c =? 10 then false else has_close t
  end.

Fixpoint str_body (fuel : nat) (l : list Z) : option nat :=
  match fuel with
  | O => None
  | S f =>
    match l with
    | [] => None
    | c :: t =>
      let alt2 := if c =? 34 then Some 1%nat
                  else if c =? 10 then None
                  else option_map S (str_body f t) in
      match m_escape l with
      | Some k =>
        if has_close (skipn k l)
        then option_map (fun n => (k + n)%nat) (str_body f (skipn k l))
        else alt2
      | None => alt2
      end
    end
  end.

(* the literal backtracking reading of (escape_ | class)* DQ : first alternative first, then the
   second, then leaving the star *)
Fixpoint str_bt (fuel : nat) (l : list Z) : option nat :=
  match fuel with
  | O => None
  | S f =>
    match l with
    | [] => None
    | c :: t =>
      let alt2 := if c =? 34 then Some 1%nat
                  else if c =? 10 then None
                  else option_map S (str_bt f t) in
      match m_escape l with
      | Some k =>
        match str_bt f (skipn k l) with
        | Some n => Some (k + n)%nat
        | None => alt2
        end
      | None => alt2
      end
    end
  end.

Definition m_string (l : list Z) : option nat :=
  match l with
  | q :: t => if q =? 34 then option_map S (str_body (S (length t)) t) else None
  | [] => None
  end.

Definition recognize (ty : ttype) (l : list Z) : option nat :=
  match ty with
  | TBoolean => m_boolean l
  | TComplex => m_complex l
  | TDelimiter => m_delimiter l
  | TEOL => m_eol l
  | TFloat => m_float l
  | THexadecimal => m_hexadecimal l
  | TInteger => m_integer l
  | TNil => m_nil l
  | TRune => m_rune l
  | TSpace => m_space l
  | TString => m_string l
  | TType => m_type l
  | TError | TEOF => None
  end.

(* the order of the cases of scanTokens, regenerated from the source *)
Fixpoint names_to_types (names : list string) : list ttype :=
  match names with
  | [] => []
  | s :: r => match ttype_of_name s with Some t => t :: names_to_types r | None => names_to_types r end
  end.
Definition scan_order_t : list ttype := names_to_types Params.scan_order.

Fixpoint try_types (order : list ttype) (l : list Z) : option (ttype * nat) :=
  match order with
  | [] => None
  | ty :: r => match recognize ty l with Some n => Some (ty, n) | None => try_types r l end
  end.

(* ---------- emitToken: a value that is exactly one control character is renamed ---------- *)
Definition rename (text : list Z) : list Z :=
  match text with
  | [c] =>
    if c =? 0 then zs "<NULL>" else if c =? 7 then zs "<BELL>" else if c =? 8 then zs "<BKSP>"
    else if c =? 9 then zs "<HTAB>" else if c =? 12 then zs "<FMFD>" else if c =? 10 then zs "<EOLN>"
    else if c =? 13 then zs "<CRTN>" else if c =? 11 then zs "<VTAB>" else text
  | _ => text
  end.

Definition count_nl (l : list Z) : nat := length (filter (fun c => c =? 10) l).

(* indexOfLastEOL: for the last newline at 0-based index i of a token of length n the
   result is n - i; 0 when there is none *)
Fixpoint index_of_last_eol (l : list Z) : Z :=
  match l with
  | [] => 0
  | c :: t =>
    let r := index_of_last_eol t in
    if r =? 0 then (if c =? 10 then Z.of_nat (length l) else 0) else r
  end.

(* scanTokens / foundToken / foundError / foundEOF.  fuel: every round consumes at least
   one rune (LexerProofs.recognize_pos), so [length l] rounds suffice; running out of fuel
   is visible as a token list that does not end with EOF (excluded by lex_total). *)
Fixpoint lex_loop (order : list ttype) (fuel : nat) (l : list Z) (line pos : Z) : list token :=
  match l with
  | [] => [mkTok TEOF [] line pos]
  | c :: _ =>
    match fuel with
    | O => []
    | S f =>
      match try_types order l with
      | None =>
        (* foundError: next_++ ; emit Error; then foundEOF emits runes[first:next] again,
           because first_ is not advanced, with the same line and position *)
        [mkTok TError (rename [c]) line pos; mkTok TEOF (rename [c]) line pos]
      | Some (ty, n) =>
        let text := firstn n l in
        let rest := skipn n l in
        let emitted := match ty with TSpace => [] | _ => [mkTok ty (rename text) line pos] end in
        let cnt := count_nl text in
        let line' := if (0 <? cnt)%nat then line + Z.of_nat cnt else line in
        let pos' := if (0 <? cnt)%nat then index_of_last_eol text else pos + Z.of_nat n in
        emitted ++ lex_loop order f rest line' pos'
      end
    end
  end.

Definition lex (src : list Z) : list token := lex_loop scan_order_t (length src) src 1 1.
