(* GenC20t.v — LATE file of C20 (compiled in parallel with the other GenC20*.v): the regenerated Set constructor, second half:
   the decision cascade WITHOUT a collator. *)
From Coq Require Import String.
From Verif Require Import Base Sorter Value Seq Coll Pool PoolRun Params SetProofs AssocProofs Facade FacadeProofs ModuleLang ModuleSem ModuleFacts ModuleTactics GenModule.
Open Scope Z_scope.
Open Scope list_scope.
Local Opaque class_ctor as_type fold_loop ranker rk_default set_add_all set_add convert_all convert_pairs array_fill zero_of.

(* the number of scratch locals of the regenerated Set constructor (its locals beyond notation, values, sequence, source, collator) *)
Definition Kset : nat := (g_locals gen_Set - 5)%nat.

Lemma set_post_plain : forall args0 tk tv f s scr, length scr = Kset -> s_coll s = None ->
  result_of (exec args0 (30 + f) (ctx0 tk tv) (env_set s scr) (post_body gen_Set)) =
  out_map FO (out_map FObj (finish_set tv s)).
Proof.
  intros args0 tk tv f s scr L Hc. unfold Kset in L. explode_dyn scr L. destruct s as [sz hs vals sq txt prs cl asc mp asq].
  cbn [s_coll] in Hc. subst cl.
  unfold env_set, src_of, opt_slice, opt_seq, opt_coll. cbn [s_size s_has_size s_values s_seq s_text s_parsed s_coll app]. norm_body.
  destruct vals as [[|?v ?l]|]; [ | leaf | ].
  all: destruct sq as [?l|]; [leaf|].
  all: destruct txt as [|?ch ?t]; [leaf|].
  all: destruct prs as [?pv|]; [|leaf].
  all: seq_cases2 pv.
  all: set_loop.
  Unshelve. all: try exact O. all: try exact [].
Qed.
