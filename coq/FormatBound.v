(* FormatBound.v — two more facts about the token view of the formatter:
   (1) a value nested no deeper than the limit is written without "..." (so its text consists of
       grammar tokens only);
   (2) the length of the text is bounded by [cost], a function of the value and the limit only
       (with FormatProofs.format0_prune: of the value pruned at the limit, hence of no unfolding
       depth of a self-containing value). *)
From Coq Require Import String Ascii.
From Verif Require Import Base Value Formatter FormatSpec FormatProofs.
Open Scope Z_scope.

Lemma has_elision_app a b : has_elision (a ++ b) = has_elision a || has_elision b.
Proof. unfold has_elision. apply existsb_app. Qed.
Lemma nl_no_elision d : has_elision (nl_toks d) = false.
Proof. destruct d; reflexivity. Qed.

Lemma max_le_fold (f : val -> nat) x l : In x l ->
  (f x <= fold_right (fun y m => Nat.max (f y) m) O l)%nat.
Proof.
  induction l as [|y t IH]; simpl; [contradiction|]. intros [->|H]; [lia|]. specialize (IH H). lia.
Qed.

Section Bound.
Variable ftext : Z -> list Z.
Variable printable : Z -> bool.
Variable maximum : nat.
Notation tokens_at := (tokens_at ftext printable maximum).

(* ---------- (1) no elision within the limit ---------- *)
Definition clean (v : val) : Prop :=
  forall d n ts, (nest_depth v + n <= maximum)%nat -> tokens_at d n v = Some ts -> has_elision ts = false.

Lemma leaf_no_elision v t : leaf_token ftext printable v = Some t -> is_elision t = false.
Proof. destruct v; simpl; intros H; inversion H; reflexivity. Qed.

Lemma tassoc_clean k x : clean x ->
  forall d n ts, (nest_depth x + n <= maximum)%nat ->
  tassoc ftext printable tokens_at d n k x = Some ts -> has_elision ts = false.
Proof.
  intros Hx d n ts Hn. unfold tassoc.
  destruct (leaf_token ftext printable k) as [kt|] eqn:Ek; [|discriminate].
  destruct (tokens_at d n x) as [vt|] eqn:Ev; [|discriminate].
  intros H; inversion H; subst. unfold has_elision. cbn [existsb].
  rewrite (leaf_no_elision _ _ Ek). apply (Hx d n vt Hn Ev).
Qed.

Lemma tlines_clean l : Forall clean l ->
  forall d n ts, (forall x, In x l -> (nest_depth x + n <= maximum)%nat) ->
  tlines tokens_at d n l = Some ts -> has_elision ts = false.
Proof.
  induction 1 as [|x t Hx Ht IH]; intros d n ts Hn; simpl.
  - intros H; inversion H; reflexivity.
  - destruct (tokens_at d n x) as [a|] eqn:Ea; [|discriminate].
    destruct (tlines tokens_at d n t) as [b|] eqn:Eb; [|discriminate].
    intros H; inversion H; subst. rewrite !has_elision_app, nl_no_elision.
    rewrite (Hx d n a (Hn x (or_introl eq_refl)) Ea).
    rewrite (IH d n b (fun y Hy => Hn y (or_intror Hy)) Eb). reflexivity.
Qed.

Lemma talines_clean vs : Forall clean vs ->
  forall ks d n ts, (forall x, In x vs -> (nest_depth x + n <= maximum)%nat) ->
  talines ftext printable tokens_at d n ks vs = Some ts -> has_elision ts = false.
Proof.
  induction 1 as [|x t Hx Ht IH]; intros ks d n ts Hn; simpl.
  - intros H; inversion H; reflexivity.
  - destruct (tassoc ftext printable tokens_at d n (hd VNil ks) x) as [a|] eqn:Ea; [|discriminate].
    destruct (talines ftext printable tokens_at d n (tl ks) t) as [b|] eqn:Eb; [|discriminate].
    intros H; inversion H; subst. rewrite !has_elision_app, nl_no_elision.
    rewrite (tassoc_clean _ _ Hx d n a (Hn x (or_introl eq_refl)) Ea).
    rewrite (IH (tl ks) d n b (fun y Hy => Hn y (or_intror Hy)) Eb). reflexivity.
Qed.

Lemma ctx_no_elision ty : has_elision (ctx_toks ty) = false.
Proof. reflexivity. Qed.

Theorem no_elision_within_limit : forall v, clean v.
Proof.
  induction v as [ | | | bo | w z | w z | z | z | w bits | w re im ab ph | s | i x | kd l IHl | key x IHkey IHx | kd ks vs IHks IHvs ] using val_ind2;
    intros d n ts Hn H; try (simpl in H; inversion H; reflexivity).
  - (* VNilSlice *) simpl in Hn. simpl in H. unfold tcoll, titems in H.
    replace (maximum <? S n)%nat with false in H by (symmetry; apply Nat.ltb_ge; lia).
    inversion H; reflexivity.
  - (* VNilMap *) simpl in Hn. simpl in H. unfold tcoll, tentries in H.
    replace (maximum <? S n)%nat with false in H by (symmetry; apply Nat.ltb_ge; lia).
    inversion H; reflexivity.
  - (* VSeq *) cbn [nest_depth] in Hn. cbn [FormatSpec.tokens_at] in H. unfold tcoll in H.
    destruct (titems maximum tokens_at d (S n) l) as [b|] eqn:Eb; [|discriminate].
    inversion H; subst. unfold has_elision. cbn [existsb]. fold (has_elision (b ++ ctx_toks (seq_type kd))).
    rewrite has_elision_app, ctx_no_elision, orb_false_r. change (is_elision (delim 91)) with false. cbn [orb].
    assert (Hin : forall x, In x l -> (nest_depth x + S n <= maximum)%nat).
    { intros x Hx. pose proof (max_le_fold nest_depth x l Hx). lia. }
    unfold titems in Eb.
    replace (maximum <? S n)%nat with false in Eb by (symmetry; apply Nat.ltb_ge; lia).
    destruct l as [|x [|y t]].
    + inversion Eb; reflexivity.
    + inversion IHl as [|? ? Hx _]; subst. apply (Hx d (S n) b (Hin x (or_introl eq_refl)) Eb).
    + destruct (tlines tokens_at (S d) (S n) (x :: y :: t)) as [c|] eqn:Ec; [|discriminate].
      inversion Eb; subst. rewrite has_elision_app, nl_no_elision, orb_false_r.
      apply (tlines_clean _ IHl (S d) (S n) c Hin Ec).
  - (* VAssoc *) cbn [nest_depth] in Hn. cbn [FormatSpec.tokens_at] in H.
    apply (tassoc_clean key x IHx d n ts Hn H).
  - (* VMapping *) cbn [nest_depth] in Hn. cbn [FormatSpec.tokens_at] in H. unfold tcoll in H.
    destruct (tentries ftext printable maximum tokens_at d (S n) ks vs) as [b|] eqn:Eb; [|discriminate].
    inversion H; subst. unfold has_elision. cbn [existsb]. fold (has_elision (b ++ ctx_toks (map_type kd))).
    rewrite has_elision_app, ctx_no_elision, orb_false_r. change (is_elision (delim 91)) with false. cbn [orb].
    assert (Hin : forall x, In x vs -> (nest_depth x + S n <= maximum)%nat).
    { intros x Hx. pose proof (max_le_fold nest_depth x vs Hx). lia. }
    unfold tentries in Eb.
    replace (maximum <? S n)%nat with false in Eb by (symmetry; apply Nat.ltb_ge; lia).
    destruct vs as [|x [|y t]].
    + inversion Eb; reflexivity.
    + inversion IHvs as [|? ? Hx _]; subst.
      apply (tassoc_clean _ x Hx d (S n) b (Hin x (or_introl eq_refl)) Eb).
    + destruct (talines ftext printable tokens_at (S d) (S n) ks (x :: y :: t)) as [c|] eqn:Ec; [|discriminate].
      inversion Eb; subst. rewrite has_elision_app, nl_no_elision, orb_false_r.
      apply (talines_clean _ IHvs ks (S d) (S n) c Hin Ec).
Qed.

Theorem format_no_elision v ts : (nest_depth v <= maximum)%nat ->
  tokens_of ftext printable maximum v = Some ts -> has_elision ts = false.
Proof.
  unfold tokens_of. intros Hn. destruct (tokens_at 0 0 v) as [b|] eqn:Eb; [|discriminate].
  intros H; inversion H; subst. rewrite has_elision_app, orb_false_r.
  apply (no_elision_within_limit v 0%nat 0%nat b); [lia|exact Eb].
Qed.

(* ---------- (2) the length of the text ---------- *)
Notation cost := (cost ftext printable maximum).
Notation nlcost := (nlcost maximum).
Notation leaf_len := (leaf_len ftext printable).

Definition bounded (v : val) : Prop :=
  forall d n ts, (d <= n)%nat -> tokens_at d n v = Some ts -> (length (render ts) <= cost v)%nat.

Ltac fin := cbn [items_cost entries_cost hd tl] in *; unfold FormatSpec.nlcost in *; lia.

Lemma indent_length d : length (indent d) = (4 * d)%nat.
Proof. induction d as [|d IH]; simpl; [reflexivity|]. rewrite IH. lia. Qed.
Lemma nl_length d : length (render (nl_toks d)) = S (4 * d).
Proof. rewrite render_nl. simpl. rewrite indent_length. reflexivity. Qed.
Lemma nl_le d : (d <= maximum)%nat -> (length (render (nl_toks d)) <= nlcost)%nat.
Proof. intros H. rewrite nl_length. unfold FormatSpec.nlcost. lia. Qed.

Lemma leaf_token_len v t : leaf_token ftext printable v = Some t -> length (tk_text t) = leaf_len v.
Proof.
  intros H. unfold FormatSpec.leaf_len. rewrite leaf_token_text, H. reflexivity.
Qed.

Lemma ctx_length ty : length (render (ctx_toks ty)) = (3 + length ty)%nat.
Proof. unfold render, ctx_toks. simpl. rewrite app_length. simpl. lia. Qed.
Lemma seq_type_length k : (length (seq_type k) <= 7)%nat.
Proof. destruct k; vm_compute; lia. Qed.
Lemma map_type_length k : (length (map_type k) <= 7)%nat.
Proof. destruct k; vm_compute; lia. Qed.

Lemma tassoc_bounded k x : bounded x ->
  forall d n ts, (d <= n)%nat -> tassoc ftext printable tokens_at d n k x = Some ts ->
  (length (render ts) <= leaf_len k + 2 + cost x)%nat.
Proof.
  intros Hx d n ts Hd. unfold tassoc.
  destruct (leaf_token ftext printable k) as [kt|] eqn:Ek; [|discriminate].
  destruct (tokens_at d n x) as [vt|] eqn:Ev; [|discriminate].
  intros H; inversion H; subst.
  change (render (kt :: delim 58 :: tok TSpace [32] :: vt)) with (tk_text kt ++ 58 :: 32 :: render vt).
  rewrite app_length. cbn [length]. rewrite (leaf_token_len _ _ Ek).
  pose proof (Hx d n vt Hd Ev). lia.
Qed.

Lemma tlines_bounded l : Forall bounded l ->
  forall d n ts, (d <= n)%nat -> (d <= maximum)%nat -> tlines tokens_at d n l = Some ts ->
  (length (render ts) <= items_cost cost nlcost l)%nat.
Proof.
  induction 1 as [|x t Hx Ht IH]; intros d n ts Hd Hm; cbn [tlines items_cost].
  - intros H; inversion H; simpl; lia.
  - destruct (tokens_at d n x) as [a|] eqn:Ea; [|discriminate].
    destruct (tlines tokens_at d n t) as [b|] eqn:Eb; [|discriminate].
    intros H; inversion H; subst. rewrite !render_app, !app_length.
    pose proof (nl_le d Hm). pose proof (Hx d n a Hd Ea). pose proof (IH d n b Hd Hm Eb). fin.
Qed.

Lemma talines_bounded vs : Forall bounded vs ->
  forall ks d n ts, (d <= n)%nat -> (d <= maximum)%nat ->
  talines ftext printable tokens_at d n ks vs = Some ts ->
  (length (render ts) <= entries_cost cost nlcost leaf_len ks vs)%nat.
Proof.
  induction 1 as [|x t Hx Ht IH]; intros ks d n ts Hd Hm; cbn [talines entries_cost].
  - intros H; inversion H; simpl; lia.
  - destruct (tassoc ftext printable tokens_at d n (hd VNil ks) x) as [a|] eqn:Ea; [|discriminate].
    destruct (talines ftext printable tokens_at d n (tl ks) t) as [b|] eqn:Eb; [|discriminate].
    intros H; inversion H; subst. rewrite !render_app, !app_length.
    pose proof (nl_le d Hm). pose proof (tassoc_bounded _ x Hx d n a Hd Ea).
    pose proof (IH (tl ks) d n b Hd Hm Eb). fin.
Qed.

Lemma coll_length b ty :
  length (render (delim 91 :: b ++ ctx_toks ty)) = (4 + length ty + length (render b))%nat.
Proof.
  change (render (delim 91 :: b ++ ctx_toks ty)) with (91 :: render (b ++ ctx_toks ty)).
  cbn [length]. rewrite render_app, app_length, ctx_length. lia.
Qed.

Theorem text_bounded : forall v, bounded v.
Proof.
  induction v as [ | | | bo | w z | w z | z | z | w bits | w re im ab ph | s | i x | kd l IHl | key x IHkey IHx | kd ks vs IHks IHvs ] using val_ind2;
    intros d n ts Hd H;
    try (cbn [FormatSpec.tokens_at] in H;
         destruct (leaf_token ftext printable _) as [t|] eqn:Et; [|discriminate];
         inversion H; subst; unfold render; cbn [flat_map]; rewrite app_nil_r;
         rewrite (leaf_token_len _ _ Et); cbn [FormatSpec.cost]; lia).
  - (* VNilSlice *) simpl in H. unfold tcoll, titems in H.
    destruct (maximum <? S n)%nat; inversion H; subst; cbn [FormatSpec.cost]; unfold FormatSpec.nlcost; vm_compute length; simpl; lia.
  - (* VNilMap *) simpl in H. unfold tcoll, tentries in H.
    destruct (maximum <? S n)%nat; inversion H; subst; cbn [FormatSpec.cost]; unfold FormatSpec.nlcost; vm_compute length; simpl; lia.
  - (* VPtr *) discriminate.
  - (* VSeq *) cbn [FormatSpec.tokens_at] in H. unfold tcoll in H.
    destruct (titems maximum tokens_at d (S n) l) as [b|] eqn:Eb; [|discriminate].
    inversion H; subst. rewrite coll_length. pose proof (seq_type_length kd) as Hty.
    cbn [FormatSpec.cost]. unfold titems in Eb.
    destruct (maximum <? S n)%nat eqn:Elim.
    { inversion Eb; subst. change (length (render [tok TElision [46; 46; 46]])) with 3%nat. fin. }
    apply Nat.ltb_ge in Elim.
    destruct l as [|x [|y t]].
    + inversion Eb; subst. change (length (render [tok TSpace [32]])) with 1%nat. fin.
    + inversion IHl as [|? ? Hx _]; subst. pose proof (Hx d (S n) b (le_S _ _ Hd) Eb).
      fin.
    + destruct (tlines tokens_at (S d) (S n) (x :: y :: t)) as [c|] eqn:Ec; [|discriminate].
      inversion Eb; subst. rewrite render_app, app_length.
      pose proof (tlines_bounded _ IHl (S d) (S n) c ltac:(lia) ltac:(lia) Ec).
      pose proof (nl_le d ltac:(lia)). fin.
  - (* VAssoc *) cbn [FormatSpec.tokens_at] in H. cbn [FormatSpec.cost].
    apply (tassoc_bounded key x IHx d n ts Hd H).
  - (* VMapping *) cbn [FormatSpec.tokens_at] in H. unfold tcoll in H.
    destruct (tentries ftext printable maximum tokens_at d (S n) ks vs) as [b|] eqn:Eb; [|discriminate].
    inversion H; subst. rewrite coll_length. pose proof (map_type_length kd) as Hty.
    cbn [FormatSpec.cost]. unfold tentries in Eb.
    destruct (maximum <? S n)%nat eqn:Elim.
    { inversion Eb; subst. change (length (render [tok TElision [46; 46; 46]])) with 3%nat. fin. }
    apply Nat.ltb_ge in Elim.
    destruct vs as [|x [|y t]].
    + inversion Eb; subst. change (length (render [delim 58])) with 1%nat. fin.
    + inversion IHvs as [|? ? Hx _]; subst.
      pose proof (tassoc_bounded _ x Hx d (S n) b (le_S _ _ Hd) Eb). fin.
    + destruct (talines ftext printable tokens_at (S d) (S n) ks (x :: y :: t)) as [c|] eqn:Ec; [|discriminate].
      inversion Eb; subst. rewrite render_app, app_length.
      pose proof (talines_bounded _ IHvs ks (S d) (S n) c ltac:(lia) ltac:(lia) Ec).
      pose proof (nl_le d ltac:(lia)). fin.
Qed.

(* the text of a call is at most cost (value pruned at the limit) + 1 runes long *)
Theorem format0_bounded v t :
  format0 ftext printable maximum v = Ret t ->
  (length t <= S (cost (prune maximum v)))%nat.
Proof.
  rewrite <- format0_prune, format0_tokens. unfold tokens_of.
  destruct (tokens_at 0 0 (prune maximum v)) as [b|] eqn:Eb; [|discriminate].
  simpl. intros H; inversion H; subst. rewrite render_app, app_length.
  pose proof (text_bounded (prune maximum v) 0%nat 0%nat b (le_n _) Eb).
  change (length (render [eol_tok])) with 1%nat. lia.
Qed.
End Bound.
