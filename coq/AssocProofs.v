(* AssocProofs.v — properties of the association-list model (Coll.v, catalog.go / map.go). *)
From Verif Require Import Base Seq Coll.
From Coq Require Import Permutation.

Section AssocProofs.
Variables K V : Type.
Variable vzero : V.
Variable keq : K -> K -> bool.

Hypothesis keq_refl : forall k, keq k k = true.
Hypothesis keq_sym : forall a b, keq a b = keq b a.
Hypothesis keq_trans : forall a b c, keq a b = true -> keq b c = true -> keq a c = true.

Definition keys (m : list (K * V)) : list K := map fst m.
(* keys pairwise distinct under keq *)
Fixpoint distinct (ks : list K) : Prop :=
  match ks with [] => True | k :: t => (forall k', In k' t -> keq k k' = false) /\ distinct t end.
Definition wfm (m : list (K * V)) : Prop := distinct (keys m).
Inductive aop := ASet (k : K) (v : V) | ARemove (k : K) | AClear.
Definition astep (m : list (K * V)) (o : aop) : list (K * V) :=
  match o with ASet k v => a_set keq m k v | ARemove k => a_remove keq m k | AClear => [] end.
Definition arun (m : list (K * V)) (ops : list aop) : list (K * V) := fold_left astep ops m.
(* the abstract map: a function from keys to optional values *)
Definition fstep (f : K -> option V) (o : aop) : K -> option V :=
  match o with
  | ASet k v => fun x => if keq x k then Some v else f x
  | ARemove k => fun x => if keq x k then None else f x
  | AClear => fun _ => None
  end.
Definition frun (f : K -> option V) (ops : list aop) : K -> option V := fold_left fstep ops f.

(* ---------- keq as an equivalence ---------- *)
Lemma keq_congr_l : forall a b c, keq a b = true -> keq a c = keq b c.
Proof.
  intros a b c Hab.
  destruct (keq a c) eqn:Eac; destruct (keq b c) eqn:Ebc; try reflexivity.
  - rewrite keq_sym in Hab. rewrite (keq_trans b a c Hab Eac) in Ebc. discriminate Ebc.
  - rewrite (keq_trans a b c Hab Ebc) in Eac. discriminate Eac.
Qed.

Lemma keq_congr_r : forall a b c, keq a b = true -> keq c a = keq c b.
Proof.
  intros a b c Hab. rewrite (keq_sym c a), (keq_sym c b). apply keq_congr_l. exact Hab.
Qed.

(* ---------- absence, membership ---------- *)
Lemma a_get_none_iff : forall m x,
  a_get keq m x = None <-> (forall k, In k (keys m) -> keq x k = false).
Proof.
  induction m as [|[k' v'] t IH]; intros x; simpl.
  - split; [intros _ k []|reflexivity].
  - destruct (keq x k') eqn:E.
    + split; [discriminate|].
      intros H. rewrite (H k' (or_introl eq_refl)) in E. discriminate E.
    + rewrite IH. split.
      * intros H k [Hk|Hk]; [subst k; exact E|apply H; exact Hk].
      * intros H k Hk. apply H. right. exact Hk.
Qed.

Lemma a_get_app : forall (m1 m2 : list (K * V)) x,
  a_get keq (m1 ++ m2) x =
  match a_get keq m1 x with Some v => Some v | None => a_get keq m2 x end.
Proof.
  induction m1 as [|[k' v'] t IH]; intros m2 x; simpl.
  - reflexivity.
  - destruct (keq x k'); [reflexivity|apply IH].
Qed.

Lemma keys_app : forall m1 m2, keys (m1 ++ m2) = keys m1 ++ keys m2.
Proof. intros m1 m2. unfold keys. apply map_app. Qed.

Lemma distinct_app_single : forall ks k,
  distinct ks -> (forall k', In k' ks -> keq k' k = false) -> distinct (ks ++ [k]).
Proof.
  induction ks as [|a t IH]; intros k Hd Hk; simpl.
  - split; [intros k' []|exact I].
  - destruct Hd as [Ha Ht]. split.
    + intros k' Hin. apply in_app_or in Hin. destruct Hin as [Hin|[Hin|[]]].
      * apply Ha. exact Hin.
      * subst k'. apply Hk. left. reflexivity.
    + apply IH; [exact Ht|]. intros k' Hin. apply Hk. right. exact Hin.
Qed.

(* ---------- single operations ---------- *)
Theorem a_get_respects : forall (m : list (K * V)) a b, keq a b = true -> a_get keq m a = a_get keq m b.
Proof.
  induction m as [|[k' v'] t IH]; intros a b Hab; simpl.
  - reflexivity.
  - rewrite (keq_congr_l a b k' Hab). rewrite (IH a b Hab). reflexivity.
Qed.

Theorem a_set_present : forall m k v, a_get keq m k <> None ->
  keys (a_set keq m k v) = keys m /\ length (a_set keq m k v) = length m.
Proof.
  induction m as [|[k' v'] t IH]; intros k v H; simpl in *.
  - exfalso. apply H. reflexivity.
  - destruct (keq k k') eqn:E; simpl.
    + split; reflexivity.
    + destruct (IH k v H) as [Hk Hl]. rewrite Hk, Hl. split; reflexivity.
Qed.

Theorem a_set_absent : forall (m : list (K * V)) k v, a_get keq m k = None -> a_set keq m k v = m ++ [(k, v)].
Proof.
  induction m as [|[k' v'] t IH]; intros k v H; simpl in *.
  - reflexivity.
  - destruct (keq k k') eqn:E; [discriminate H|].
    rewrite (IH k v H). reflexivity.
Qed.

Theorem a_set_wf : forall m k v, wfm m -> wfm (a_set keq m k v).
Proof.
  intros m k v Hwf. unfold wfm in *.
  destruct (a_get keq m k) as [v0|] eqn:E.
  - assert (Hne : a_get keq m k <> None) by (rewrite E; discriminate).
    destruct (a_set_present m k v Hne) as [Hk _]. rewrite Hk. exact Hwf.
  - rewrite (a_set_absent m k v E). rewrite keys_app. simpl.
    apply distinct_app_single; [exact Hwf|].
    intros k' Hin. rewrite keq_sym. revert k' Hin. apply a_get_none_iff. exact E.
Qed.

Lemma a_remove_keys_incl : forall m k x, In x (keys (a_remove keq m k)) -> In x (keys m).
Proof.
  induction m as [|[k' v'] t IH]; intros k x Hin; simpl in *.
  - exact Hin.
  - destruct (keq k k'); simpl in *.
    + right. exact Hin.
    + destruct Hin as [Hin|Hin]; [left; exact Hin|right; apply (IH k x Hin)].
Qed.

Theorem a_remove_wf : forall m k, wfm m -> wfm (a_remove keq m k).
Proof.
  unfold wfm. induction m as [|[k' v'] t IH]; intros k Hwf; simpl in *.
  - exact I.
  - destruct Hwf as [Hk' Ht]. destruct (keq k k'); simpl.
    + exact Ht.
    + split; [|apply IH; exact Ht].
      intros x Hin. apply Hk'. apply (a_remove_keys_incl t k x Hin).
Qed.

Theorem a_get_set : forall (m : list (K * V)) k v x, a_get keq (a_set keq m k v) x = if keq x k then Some v else a_get keq m x.
Proof.
  induction m as [|[k' v'] t IH]; intros k v x; simpl.
  - reflexivity.
  - destruct (keq k k') eqn:Ekk'; simpl.
    + rewrite (keq_congr_r k k' x Ekk'). destruct (keq x k'); reflexivity.
    + rewrite IH. destruct (keq x k') eqn:Exk'; [|reflexivity].
      destruct (keq x k) eqn:Exk; [|reflexivity].
      rewrite keq_sym in Exk. rewrite (keq_trans k x k' Exk Exk') in Ekk'. discriminate Ekk'.
Qed.

Theorem a_get_remove : forall m k x, wfm m -> a_get keq (a_remove keq m k) x = if keq x k then None else a_get keq m x.
Proof.
  unfold wfm. induction m as [|[k' v'] t IH]; intros k x Hwf; simpl in *.
  - destruct (keq x k); reflexivity.
  - destruct Hwf as [Hk' Ht]. destruct (keq k k') eqn:Ekk'; simpl.
    + rewrite (keq_congr_r k k' x Ekk'). destruct (keq x k') eqn:Exk'; [|reflexivity].
      apply a_get_none_iff. intros k0 Hin.
      rewrite (keq_congr_l x k' k0 Exk'). apply Hk'. exact Hin.
    + rewrite (IH k x Ht). destruct (keq x k') eqn:Exk'; [|reflexivity].
      destruct (keq x k) eqn:Exk; [|reflexivity].
      rewrite keq_sym in Exk. rewrite (keq_trans k x k' Exk Exk') in Ekk'. discriminate Ekk'.
Qed.

Theorem a_remove_absent : forall (m : list (K * V)) k, a_get keq m k = None -> a_remove keq m k = m.
Proof.
  induction m as [|[k' v'] t IH]; intros k H; simpl in *.
  - reflexivity.
  - destruct (keq k k') eqn:E; [discriminate H|].
    rewrite (IH k H). reflexivity.
Qed.

Theorem a_remove_present : forall m k, wfm m -> a_get keq m k <> None ->
  exists pre k' v post, m = pre ++ (k', v) :: post /\ keq k k' = true /\ a_remove keq m k = pre ++ post.
Proof.
  induction m as [|[k0 v0] t IH]; intros k Hwf H; simpl in *.
  - exfalso. apply H. reflexivity.
  - destruct (keq k k0) eqn:E.
    + exists [], k0, v0, t. simpl. repeat split. exact E.
    + destruct Hwf as [_ Ht].
      destruct (IH k Ht H) as (pre & k' & v & post & Hm & Hk & Hr).
      exists ((k0, v0) :: pre), k', v, post. simpl. rewrite Hr.
      repeat split; [|exact Hk]. rewrite Hm at 1. reflexivity.
Qed.

(* ---------- every history (C03, C14) ---------- *)
Lemma astep_wf : forall m o, wfm m -> wfm (astep m o).
Proof.
  intros m [k v|k|] Hwf; simpl.
  - apply a_set_wf. exact Hwf.
  - apply a_remove_wf. exact Hwf.
  - exact I.
Qed.

Theorem C03_inv : forall ops m, wfm m -> wfm (arun m ops).
Proof.
  unfold arun. induction ops as [|o ops IH]; intros m Hwf; simpl.
  - exact Hwf.
  - apply IH. apply astep_wf. exact Hwf.
Qed.

Lemma frun_ext : forall ops f g, (forall x, f x = g x) -> forall x, frun f ops x = frun g ops x.
Proof.
  unfold frun. induction ops as [|o ops IH]; intros f g Hfg x; simpl.
  - apply Hfg.
  - apply IH. intros y. destruct o as [k v|k|]; simpl.
    + rewrite Hfg. reflexivity.
    + rewrite Hfg. reflexivity.
    + reflexivity.
Qed.

Lemma astep_refines : forall m o, wfm m -> forall x, a_get keq (astep m o) x = fstep (a_get keq m) o x.
Proof.
  intros m [k v|k|] Hwf x; simpl.
  - apply a_get_set.
  - apply a_get_remove. exact Hwf.
  - reflexivity.
Qed.

Theorem C03_refines : forall ops m, wfm m -> forall x, a_get keq (arun m ops) x = frun (a_get keq m) ops x.
Proof.
  induction ops as [|o ops IH]; intros m Hwf x.
  - reflexivity.
  - change (arun m (o :: ops)) with (arun (astep m o) ops).
    change (frun (a_get keq m) (o :: ops)) with (frun (fstep (a_get keq m) o) ops).
    rewrite (IH (astep m o) (astep_wf m o Hwf) x).
    apply frun_ext. intros y. apply astep_refines. exact Hwf.
Qed.

(* key list / pair list / lookup describe the same associations *)
Theorem C03_views : forall m, wfm m -> forall k v, In (k, v) m -> a_get keq m k = Some v.
Proof.
  unfold wfm. induction m as [|[k0 v0] t IH]; intros Hwf k v Hin; simpl in *.
  - destruct Hin.
  - destruct Hwf as [Hk0 Ht]. destruct Hin as [Heq|Hin].
    + inversion Heq; subst. rewrite keq_refl. reflexivity.
    + destruct (keq k k0) eqn:E.
      * rewrite keq_sym in E.
        assert (Hk : In k (keys t)) by (apply (in_map fst t (k, v)); exact Hin).
        rewrite (Hk0 k Hk) in E. discriminate E.
      * apply IH; [exact Ht|exact Hin].
Qed.

Theorem C03_views_conv : forall (m : list (K * V)) x v, a_get keq m x = Some v -> exists k, In (k, v) m /\ keq x k = true.
Proof.
  induction m as [|[k0 v0] t IH]; intros x v H; simpl in *.
  - discriminate H.
  - destruct (keq x k0) eqn:E.
    + inversion H; subst. exists k0. split; [left; reflexivity|exact E].
    + destruct (IH x v H) as (k & Hin & Hk). exists k. split; [right; exact Hin|exact Hk].
Qed.

Theorem a_get_or_zero_absent : forall m k, a_get keq m k = None -> a_get_or_zero vzero keq m k = vzero.
Proof. intros m k H. unfold a_get_or_zero. rewrite H. reflexivity. Qed.

(* ---------- reordering keeps the mapping ---------- *)
Lemma distinct_perm : forall l l', Permutation l l' -> distinct l -> distinct l'.
Proof.
  intros l l' HP. induction HP as [|a l l' HP IH|a b l|l l' l'' HP1 IH1 HP2 IH2]; intros Hd; simpl in *.
  - exact I.
  - destruct Hd as [Ha Hl]. split; [|apply IH; exact Hl].
    intros k' Hin. apply Ha. apply (Permutation_in k' (Permutation_sym HP) Hin).
  - destruct Hd as [Hb [Ha Hl]]. split; [|split].
    + intros k' [Hk|Hk]; [subst k'; rewrite keq_sym; apply Hb; left; reflexivity|apply Ha; exact Hk].
    + intros k' Hk. apply Hb. right. exact Hk.
    + exact Hl.
  - apply IH2. apply IH1. exact Hd.
Qed.

Theorem wfm_perm : forall m m', wfm m -> Permutation m m' -> wfm m'.
Proof.
  unfold wfm, keys. intros m m' Hwf HP.
  apply (distinct_perm (map fst m) (map fst m')); [apply Permutation_map; exact HP|exact Hwf].
Qed.

Theorem a_get_perm : forall m m', wfm m -> Permutation m m' -> forall x, a_get keq m' x = a_get keq m x.
Proof.
  intros m m' Hwf HP. revert Hwf.
  induction HP as [|[k v] l l' HP IH|[k1 v1] [k2 v2] l|l l' l'' HP1 IH1 HP2 IH2]; intros Hwf x.
  - reflexivity.
  - simpl. destruct Hwf as [_ Hl]. rewrite (IH Hl x). reflexivity.
  - simpl. destruct Hwf as [H1 _]. simpl in H1.
    destruct (keq x k2) eqn:E2; [|reflexivity].
    destruct (keq x k1) eqn:E1; [|reflexivity].
    rewrite keq_sym in E1.
    specialize (H1 k1 (or_introl eq_refl)). rewrite keq_sym in H1.
    rewrite (keq_trans k1 x k2 E1 E2) in H1. discriminate H1.
  - rewrite (IH2 (wfm_perm l l' Hwf HP1) x). apply IH1. exact Hwf.
Qed.

(* ---------- bulk and class functions ---------- *)
Theorem a_set_all_get : forall kvs (m : list (K * V)) x, a_get keq (a_set_all keq m kvs) x =
  match a_get keq (rev kvs) x with Some v => Some v | None => a_get keq m x end.    (* the last one wins *)
Proof.
  unfold a_set_all. induction kvs as [|[k v] kvs IH]; intros m x; simpl.
  - reflexivity.
  - rewrite IH. rewrite a_get_app. simpl. rewrite a_get_set.
    destruct (a_get keq (rev kvs) x); [reflexivity|].
    destruct (keq x k); reflexivity.
Qed.

Theorem a_set_all_wf : forall kvs m, wfm m -> wfm (a_set_all keq m kvs).
Proof.
  unfold a_set_all. induction kvs as [|[k v] kvs IH]; intros m Hwf; simpl.
  - exact Hwf.
  - apply IH. apply a_set_wf. exact Hwf.
Qed.

Theorem a_merge_get : forall (a b : list (K * V)) x, a_get keq (a_merge keq a b) x =
  match a_get keq (rev b) x with Some v => Some v | None => a_get keq (rev a) x end.
Proof.
  intros a b x. unfold a_merge. rewrite a_set_all_get.
  destruct (a_get keq (rev b) x); [reflexivity|].
  rewrite a_set_all_get. simpl. destruct (a_get keq (rev a) x); reflexivity.
Qed.

Theorem a_merge_wf : forall a b, wfm (a_merge keq a b).
Proof.
  intros a b. unfold a_merge. apply a_set_all_wf. apply a_set_all_wf. exact I.
Qed.

Lemma distinct_app_mid : forall l1 k l2, distinct (l1 ++ k :: l2) ->
  forall k', In k' l1 -> keq k' k = false.
Proof.
  induction l1 as [|a t IH]; intros k l2 Hd k' Hin; simpl in *.
  - destruct Hin.
  - destruct Hd as [Ha Ht]. destruct Hin as [Hin|Hin].
    + subst k'. apply Ha. apply in_or_app. right. left. reflexivity.
    + apply (IH k l2 Ht k' Hin).
Qed.

(* loading a well-formed list into an accumulator it is disjoint from only appends *)
Lemma a_set_all_fresh : forall kvs m, wfm (m ++ kvs) -> a_set_all keq m kvs = m ++ kvs.
Proof.
  unfold a_set_all. induction kvs as [|[k v] kvs IH]; intros m Hwf; simpl.
  - rewrite app_nil_r. reflexivity.
  - assert (Habs : a_get keq m k = None).
    { apply a_get_none_iff. intros k' Hin. rewrite keq_sym.
      unfold wfm in Hwf. rewrite keys_app in Hwf. simpl in Hwf.
      apply (distinct_app_mid (keys m) k (keys kvs) Hwf k' Hin). }
    rewrite (a_set_absent m k v Habs).
    rewrite IH; rewrite <- app_assoc; simpl; [reflexivity|exact Hwf].
Qed.

Lemma a_set_all_keys : forall b a, wfm b ->
  keys (a_set_all keq a b) =
  keys a ++ filter (fun k => match a_get keq a k with None => true | Some _ => false end) (keys b).
Proof.
  unfold a_set_all. induction b as [|[k v] b IH]; intros a Hwf; simpl.
  - rewrite app_nil_r. reflexivity.
  - destruct Hwf as [Hk Hb]. simpl in Hk. fold (keys b) in Hk. fold (wfm b) in Hb.
    rewrite (IH (a_set keq a k v) Hb).
    assert (Hfilt : filter (fun k0 => match a_get keq (a_set keq a k v) k0 with None => true | Some _ => false end) (keys b)
                  = filter (fun k0 => match a_get keq a k0 with None => true | Some _ => false end) (keys b)).
    { apply filter_ext_in. intros k0 Hin. rewrite a_get_set.
      rewrite (keq_sym k0 k). rewrite (Hk k0 Hin). reflexivity. }
    rewrite Hfilt.
    destruct (a_get keq a k) as [v0|] eqn:E.
    + assert (Hne : a_get keq a k <> None) by (rewrite E; discriminate).
      destruct (a_set_present a k v Hne) as [Hkeys _]. rewrite Hkeys. reflexivity.
    + rewrite (a_set_absent a k v E). rewrite keys_app. simpl.
      rewrite <- app_assoc. reflexivity.
Qed.

Theorem a_merge_keys : forall a b, wfm a -> wfm b ->
  keys (a_merge keq a b) = keys a ++ filter (fun k => match a_get keq a k with None => true | Some _ => false end) (keys b).
Proof.
  intros a b Ha Hb. unfold a_merge.
  rewrite (a_set_all_fresh a []) by exact Ha. simpl.
  apply a_set_all_keys. exact Hb.
Qed.

Lemma a_extract_wf_gen : forall c ks acc, wfm acc ->
  wfm (fold_left (fun acc k => match a_get keq c k with Some v => a_set keq acc k v | None => acc end) ks acc).
Proof.
  intros c. induction ks as [|k ks IH]; intros acc Hwf; simpl.
  - exact Hwf.
  - apply IH. destruct (a_get keq c k); [apply a_set_wf|]; exact Hwf.
Qed.

Theorem a_extract_wf : forall c ks, wfm (a_extract keq c ks).
Proof. intros c ks. unfold a_extract. apply a_extract_wf_gen. exact I. Qed.

Lemma a_extract_get_gen : forall (c : list (K * V)) ks acc x,
  a_get keq (fold_left (fun acc k => match a_get keq c k with Some v => a_set keq acc k v | None => acc end) ks acc) x =
  if existsb (keq x) ks
  then match a_get keq c x with Some v => Some v | None => a_get keq acc x end
  else a_get keq acc x.
Proof.
  intros c. induction ks as [|k ks IH]; intros acc x; simpl.
  - reflexivity.
  - rewrite IH. clear IH.
    destruct (keq x k) eqn:Exk; simpl.
    + rewrite <- (a_get_respects c x k Exk).
      destruct (a_get keq c x) as [v|] eqn:Ec.
      * rewrite a_get_set, Exk. destruct (existsb (keq x) ks); reflexivity.
      * destruct (existsb (keq x) ks); reflexivity.
    + destruct (a_get keq c k) as [v|]; [|reflexivity].
      rewrite a_get_set, Exk. reflexivity.
Qed.

(* nothing for a key that was not requested or that c lacks *)
Theorem a_extract_get : forall c ks x, wfm c -> a_get keq (a_extract keq c ks) x =
  if existsb (keq x) ks then a_get keq c x else None.
Proof.
  intros c ks x _. unfold a_extract. rewrite a_extract_get_gen. simpl.
  destruct (existsb (keq x) ks); [|reflexivity].
  destruct (a_get keq c x); reflexivity.
Qed.

Theorem a_remove_all_spec : forall ks m, wfm m ->
  wfm (snd (a_remove_all vzero keq m ks)) /\ length (fst (a_remove_all vzero keq m ks)) = length ks /\
  forall x, a_get keq (snd (a_remove_all vzero keq m ks)) x = if existsb (keq x) ks then None else a_get keq m x.
Proof.
  induction ks as [|k ks IH]; intros m Hwf; simpl.
  - split; [exact Hwf|]. split; reflexivity.
  - destruct (IH (a_remove keq m k) (a_remove_wf m k Hwf)) as (H1 & H2 & H3).
    split; [exact H1|]. split; [rewrite H2; reflexivity|].
    intros x. rewrite H3. rewrite (a_get_remove m k x Hwf).
    destruct (keq x k); simpl; [|reflexivity].
    destruct (existsb (keq x) ks); reflexivity.
Qed.

End AssocProofs.

Print Assumptions C03_refines.
Print Assumptions a_merge_keys.
Print Assumptions a_extract_get.
