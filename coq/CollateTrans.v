(* CollateTrans.v — "values of one type" composes along rank-equal values, so that the
   transitivity of CompareValues needs the type hypothesis only for the two given pairs. *)
From Verif Require Import Base Sorter Value SorterProofs CollateOrd CollateSort CollateBase CollateRank CollateRank2 CollateCompare.
From Coq Require Import Permutation Sorted.
Open Scope nat_scope.

Lemma triple_ind_wf : forall (P : val -> val -> val -> Prop),
  (forall a b c, wf a = true -> wf b = true -> wf c = true ->
     (forall x y z, In x (elems a) -> In y (elems b) -> In z (elems c) -> P x y z) -> P a b c) ->
  forall a b c, wf a = true -> wf b = true -> wf c = true -> P a b c.
Proof.
  intros P H a b c Wa Wb Wc. apply wf_spec in Wa, Wb, Wc.
  destruct Wa as [Wa Xa], Wb as [Wb Xb], Wc as [Wc Xc]. revert Xa Xb Xc.
  apply (triple_ind (fun a b c => wfx a = true -> wfx b = true -> wfx c = true -> P a b c)); auto.
  clear a b c Wa Wb Wc. intros a b c Wa Wb Wc IH Xa Xb Xc.
  apply H; try (unfold wf; rewrite ?Wa, ?Wb, ?Wc, ?Xa, ?Xb, ?Xc; reflexivity).
  intros x y z Hx Hy Hz. apply IH; auto; [apply (elems_wfx a)|apply (elems_wfx b)|apply (elems_wfx c)]; auto.
Qed.

Lemma wcompat_trans : forall a b c, tyrank a = tyrank b -> tyrank b = tyrank c ->
  is_leaf a = true -> is_leaf b = true -> is_leaf c = true ->
  wcompat a b = true -> wcompat b c = true -> wcompat a c = true.
Proof.
  intros a b c T1 T2 La Lb Lc W1 W2.
  leaf_cases a b La Lb T1; simpl in T2;
  destruct c as [ | | | | | | | | | | | | | |[]]; try (simpl in Lc; discriminate Lc);
  try discriminate T2; simpl in *; auto;
  apply Z.eqb_eq in W1, W2; apply Z.eqb_eq; congruence.
Qed.

Lemma Forall2_trans_in {A} (R1 R2 R3 : A -> A -> Prop) : forall xs ys zs,
  Forall2 R1 xs ys -> Forall2 R2 ys zs ->
  (forall x y z, In x xs -> In y ys -> In z zs -> R1 x y -> R2 y z -> R3 x z) ->
  Forall2 R3 xs zs.
Proof.
  intros xs ys zs F1. revert zs. induction F1; intros zs F2 H'; inversion F2; subst; constructor.
  - eapply H'; simpl; eauto.
  - apply IHF1; auto. intros; eapply H'; simpl; eauto.
Qed.

Lemma Forall2_conj {A} (R1 R2 : A -> A -> Prop) : forall xs ys,
  Forall2 R1 xs ys -> Forall2 R2 xs ys -> Forall2 (fun x y => R1 x y /\ R2 x y) xs ys.
Proof. induction 1; intros F; inversion F; subst; constructor; auto. Qed.

Lemma tags_eq : forall t1 t2 X, cthen (t1 ?= t2)%Z X = Eq -> t1 = t2 /\ X = Eq.
Proof. intros t1 t2 X H. apply cthen_eq in H. destruct H as [H1 H2]. apply Z.compare_eq in H1. auto. Qed.

Theorem same_type_trans : forall a b c, wf a = true -> wf b = true -> wf c = true ->
  prank a b = Eq -> prank b c = Eq -> same_type a b -> same_type b c -> same_type a c.
Proof.
  apply (triple_ind_wf (fun a b c => prank a b = Eq -> prank b c = Eq ->
                          same_type a b -> same_type b c -> same_type a c)).
  intros a b c Wa Wb Wc IH E1 E2 S1 S2.
  pose proof (wf_spec _ Wa) as [Wa0 _]. pose proof (wf_spec _ Wb) as [Wb0 _]. pose proof (wf_spec _ Wc) as [Wc0 _].
  rewrite prank_tags2 in E1, E2 by auto.
  apply tags_eq in E1, E2. destruct E1 as [T1 E1], E2 as [T2 E2].
  apply tags_eq in E1, E2. destruct E1 as [G1 E1], E2 as [G2 E2].
  unfold vtag in G1, G2. unfold psame2 in E1, E2.
  inversion S1 as [a' b' SL1 SA1 SR1 SM1]; subst a' b'.
  inversion S2 as [b' c' SL2 SA2 SR2 SM2]; subst b' c'.
  constructor.
  - (* leaves *)
    intros La Lc E. unfold is_leaf in La, Lc.
    destruct (view_of a) eqn:Va; try discriminate La.
    destruct (view_of c) eqn:Vc; try discriminate Lc.
    destruct (view_of b) eqn:Vb; try discriminate G1.
    assert (La' : is_leaf a = true) by (unfold is_leaf; rewrite Va; auto).
    assert (Lb' : is_leaf b = true) by (unfold is_leaf; rewrite Vb; auto).
    assert (Lc' : is_leaf c = true) by (unfold is_leaf; rewrite Vc; auto).
    apply (wcompat_trans a b c); auto.
  - (* associations *)
    intros k1 v1 k3 v3 Va Vc. rewrite Va, Vc in *.
    destruct (view_of b) as [ |k2 v2| | ] eqn:Vb; try discriminate G1.
    apply cthen_eq in E1, E2. destruct E1 as [Ek1 Ev1], E2 as [Ek2 Ev2].
    destruct (SA1 _ _ _ _ eq_refl eq_refl) as [Sk1 Sv1].
    destruct (SA2 _ _ _ _ eq_refl eq_refl) as [Sk2 Sv2].
    destruct (view_elems_assoc _ _ _ Va), (view_elems_assoc _ _ _ Vb), (view_elems_assoc _ _ _ Vc).
    split; [apply (IH k1 k2 k3)|apply (IH v1 v2 v3)]; auto.
  - (* arrays *)
    intros xs zs Va Vc L. rewrite Va, Vc in *.
    destruct (view_of b) as [ | |ys| ] eqn:Vb; try discriminate G1.
    apply lex_eq_iff in E1, E2.
    pose proof (SR1 _ _ eq_refl eq_refl (Forall2_len _ _ _ E1)) as F1.
    pose proof (SR2 _ _ eq_refl eq_refl (Forall2_len _ _ _ E2)) as F2.
    apply (Forall2_trans_in _ _ _ xs ys zs (Forall2_conj _ _ _ _ E1 F1) (Forall2_conj _ _ _ _ E2 F2)).
    intros x y z Hx Hy Hz [P1 Q1] [P2 Q2].
    apply (IH x y z); auto; eapply view_elems_arr; eauto.
  - (* maps *)
    intros m1 m3 Va Vc p s Hp Hs E. rewrite Va, Vc in *.
    destruct (view_of b) as [ | | |m2] eqn:Vb; try discriminate G1.
    apply lex_eq_iff in E1, E2.
    destruct (wf_map a m1 Wa Va) as [K1 _]. destruct (wf_map b m2 Wb Vb) as [K2 _].
    destruct (wf_map c m3 Wc Vc) as [K3 [_ D3]].
    destruct (Forall2_In_l _ _ _ p E1) as [q [Hq Epq]]; [apply sortk_in; auto|].
    apply (proj1 (sortk_in _ _)) in Hq.
    destruct (Forall2_In_l _ _ _ q E2) as [s' [Hs' Eqs]]; [apply sortk_in; auto|].
    apply (proj1 (sortk_in _ _)) in Hs'.
    unfold pairr in Epq, Eqs. apply cthen_eq in Epq, Eqs.
    destruct Epq as [Ek1 Ev1], Eqs as [Ek2 Ev2].
    rewrite prank_leaf in Ek1 by (apply ckey_leaf; auto).
    rewrite prank_leaf in Ek2 by (apply ckey_leaf; auto).
    assert (s' = s) as ->.
    { apply D3; auto. unfold keyr.
      apply (lrank_eq_trans _ (fst q)); [apply lrank_eq_sym; auto|].
      apply (lrank_eq_trans _ (fst p)); [apply lrank_eq_sym; auto|auto]. }
    destruct (SM1 _ _ eq_refl eq_refl p q Hp Hq Ek1) as [W1 Sv1].
    destruct (SM2 _ _ eq_refl eq_refl q s Hq Hs Ek2) as [W2 Sv2].
    split.
    + apply (wcompat_trans (fst p) (fst q) (fst s)); auto using lrank_eq_ty, ckey_leaf.
    + apply (IH (snd p) (snd q) (snd s)); auto.
      * apply (pair_in_elems a m1 p); auto.
      * apply (pair_in_elems b m2 q); auto.
      * apply (pair_in_elems c m3 s); auto.
Qed.

(* h, final form: transitivity of CompareValues with the type hypothesis on the given pairs only *)
Theorem compare_trans2 : forall M a b c, inW M a = true -> inW M b = true -> inW M c = true ->
  same_type a b -> same_type b c ->
  compare0 M a b = R true -> compare0 M b c = R true -> compare0 M a c = R true.
Proof.
  intros M a b c Ha Hb Hc Sab Sbc H1 H2.
  apply (compare_trans M a b c); auto.
  pose proof (inW_spec _ _ Ha) as [Wa _]. pose proof (inW_spec _ _ Hb) as [Wb _].
  pose proof (inW_spec _ _ Hc) as [Wc _].
  apply (same_type_trans a b c); auto.
  - apply (compare_iff_rank M a b Ha Hb Sab) in H1.
    rewrite rank0_prank in H1 by (apply inW_inU; auto). apply R_inj; auto.
  - apply (compare_iff_rank M b c Hb Hc Sbc) in H2.
    rewrite rank0_prank in H2 by (apply inW_inU; auto). apply R_inj; auto.
Qed.
