(* FacadeRun.v — decoders and comparison for the correspondence of the universal
   constructors (C20).  A case is one call: kind, element types, argument list, the observed
   module-level result, the observed result of the corresponding class-level constructor on
   the same data (when there is one) and whether the call is a source form whose result must
   have the contents of the parsed collection.  Codes of a mismatch:
     1  the facade model and the observed module-level result differ
     2  the observed module-level and class-level results differ   (no model involved)
     3  the observed module-level result does not have the contents and order of the
        collection that ParseSource returned for the same text    (no model involved)
     4  the class-level constructor of the pool model and the observed class-level result differ
   No proofs. *)
From Verif Require Import Base Value Seq Coll Pool PoolRun Facade.

Record fcase := {
  fc_kind : fkind; fc_tk : ety; fc_tv : ety;
  fc_args : list arg;
  fc_mod : out fres;
  fc_cls : option (out fres);
  fc_form : option cform;      (* the class-level call, for code 4 *)
  fc_src : bool
}.

Definition fres_eqb (a b : fres) : bool :=
  match a, b with
  | FObj x, FObj y => obj_eqb x y
  | FAssoc k v, FAssoc k' v' => val_eqb k k' && val_eqb v v'
  | _, _ => false
  end.
(* a catalog built from an unordered source (Go map, Map) has an unspecified order *)
Definition fres_eqb_unordered (a b : fres) : bool :=
  match a, b with
  | FObj (OCat x), FObj (OCat y) => kvs_perm_eqb x y
  | _, _ => fres_eqb a b
  end.
Definition out_eqb {A} (e : A -> A -> bool) (a b : out A) : bool :=
  match a, b with
  | Ret x, Ret y => e x y
  | Panic, Panic | Hang, Hang => true
  | _, _ => false
  end.

Definition unordered_src (args : list arg) : bool :=
  existsb (fun a => match a with AGoMap _ _ => true | AAssocSeq _ (_ :: _) => true | _ => false end) args.

Definition model_ok (c : fcase) : bool :=
  out_eqb fres_eqb (facade (fc_kind c) (fc_tk c) (fc_tv c) (fc_args c)) (fc_mod c).

Definition class_ok (c : fcase) : bool :=
  match fc_cls c with
  | None => true
  | Some r => out_eqb (if unordered_src (fc_args c) then fres_eqb_unordered else fres_eqb) (fc_mod c) r
  end.

Definition class_model_ok (c : fcase) : bool :=
  match fc_cls c, fc_form c with
  | Some r, Some f =>
    match fc_kind c with
    | FAssociation => true
    | k => out_eqb fres_eqb (out_map FObj (class_ctor k (fc_tv c) f)) r
    end
  | _, _ => true
  end.

(* the source argument that counts: the last string *)
Fixpoint last_source (args : list arg) (acc : option parsed) : option parsed :=
  match args with
  | [] => acc
  | AString _ p :: rest => last_source rest (Some p)
  | _ :: rest => last_source rest acc
  end.

Definition obj_items (o : obj) : option (list val) :=
  match o with
  | OArr l | OLst l | OSet _ l | OStk _ l | OQue _ l => Some l
  | OCat m | OMap m => Some (assoc_vals m)
  | _ => None
  end.
Definition parsed_contents (v : val) : option (list val) :=
  match v with
  | VSeq _ l => Some l
  | VMapping _ ks vs => Some (assoc_vals (zipkv ks vs))
  | _ => None
  end.
Definition incl_b (a b : list val) : bool := forallb (fun x => existsb (val_eqb x) b) a.

Definition source_ok (c : fcase) : bool :=
  if negb (fc_src c) then true else
  match last_source (fc_args c) None with
  | None => false
  | Some PPanic => match fc_mod c with Ret _ => false | _ => true end
  | Some (PColl v) =>
    match fc_mod c with
    | Ret (FObj o) =>
      match obj_items o, parsed_contents v with
      | Some a, Some b =>
        match o with
        | OSet _ _ => incl_b a b && incl_b b a                       (* the same set of values *)
        | OMap _ => Nat.eqb (length a) (length b) && incl_b a b && incl_b b a
        | _ => vlist_eqb a b                                         (* same contents, same order *)
        end
      | _, _ => false
      end
    | _ => false
    end
  end.

Definition check_case (c : fcase) : option nat :=
  if negb (model_ok c) then Some 1%nat
  else if negb (class_ok c) then Some 2%nat
  else if negb (source_ok c) then Some 3%nat
  else if negb (class_model_ok c) then Some 4%nat
  else None.

Fixpoint fmismatches_from (n : nat) (cases : list fcase) : list (nat * nat) :=
  match cases with
  | [] => []
  | c :: t =>
    match check_case c with
    | None => fmismatches_from (S n) t
    | Some k => (n, k) :: fmismatches_from (S n) t
    end
  end.
Definition fmismatches (cases : list fcase) : list (nat * nat) := fmismatches_from 0%nat cases.

Definition dummy_case : fcase :=
  {| fc_kind := FList; fc_tk := TAny; fc_tv := TAny; fc_args := []; fc_mod := Panic; fc_cls := None; fc_form := None; fc_src := false |}.

(* what the model computes for a case, next to the observations:
   (model result, observed module-level result, observed class-level result,
    class-level result of the pool model,
    (model = module, module = class, module = parsed contents, pool model = class)) *)
Definition case_report (c : fcase) :=
  (facade (fc_kind c) (fc_tk c) (fc_tv c) (fc_args c),
   fc_mod c,
   fc_cls c,
   match fc_form c with Some f => Some (class_ctor (fc_kind c) (fc_tv c) f) | None => None end,
   (model_ok c, class_ok c, source_ok c, class_model_ok c)).
