(* GrammarReject.v — C11's rejection clause in GENERAL POSITION: a well-formed derivation tree
   (GrammarText.gtree) in which ONE literal has no exact value — at any position: an item of an
   inline or multi-line list, first or later, a key or the value of an association, at any
   nesting — while everything in front of it has a value, is rejected by parse_source with the
   diagnostic for THAT literal's token (ParserPrefix.prefix_bad_literal: never a value, never a
   diagnostic for an earlier token). *)
From Coq Require Import String Ascii.
From Verif Require Import Base Params Value Coll Lexer Literals Parser LexerProofs LexBridge ParserProofs Complete StripInv LexRender.
From Verif Require Import ErrorTokens RoundTrip RoundTripDeriv GrammarText GrammarLit GrammarTextProofs ParserPrefix ParserPrefixStrip.
Close Scope string_scope.
Open Scope Z_scope.

Definition item_i (x : nat * gtree) : list rtok := dtok 44 :: gap (fst x) ++ gtoks (snd x).
Definition item_m (x : nat * gtree) : list rtok := eoltok :: gap (fst x) ++ gtoks (snd x).

Section Reject.
Variable fparse : list Z -> option Z.
Variable crank : val -> val -> option comparison.
Notation gval := (gval fparse crank).

(* [bad_at l t pre]: the literal l occurs in t, [pre] are the tokens of t in front of that occurrence,
   and everything in front of it (keys, earlier items at every level) has a value *)
Inductive bad_at (l : glit) : gtree -> list rtok -> Prop :=
| ba_lit : bad_at l (GLit l) []
| ba_key : forall g v, bad_at l (GAssoc l g v) []
| ba_val : forall k kv g v pre, lit_value fparse k = Some kv -> bad_at l v pre ->
    bad_at l (GAssoc k g v) (lit_tok k :: dtok 58 :: gap g ++ pre)
| ba_first : forall f rest c pre, bad_at l f pre -> bad_at l (GInline f rest c) (dtok 91 :: pre)
| ba_later : forall f vf before vsb g x after c pre, gval f = Some vf ->
    sequence (map (fun y => gval (snd y)) before) = Some vsb -> bad_at l x pre ->
    bad_at l (GInline f (before ++ (g, x) :: after) c) (dtok 91 :: gtoks f ++ flat_map item_i before ++ dtok 44 :: gap g ++ pre)
| ba_multi : forall before vsb g x after cl c pre,
    sequence (map (fun y => gval (snd y)) before) = Some vsb -> bad_at l x pre ->
    bad_at l (GMulti (before ++ (g, x) :: after) cl c) (dtok 91 :: flat_map item_m before ++ eoltok :: gap g ++ pre).

Lemma bad_at_tokens l t pre : bad_at l t pre -> exists suf, gtoks t = pre ++ lit_tok l :: suf.
Proof.
  induction 1 as [|g v|k kv g v pre Hk H (suf & E)|f rest c pre H (suf & E)|f vf before vsb g x after c pre Hf Hb H (suf & E)
                 |before vsb g x after cl c pre Hb H (suf & E)]; cbn [gtoks].
  - exists []. reflexivity.
  - eexists. reflexivity.
  - rewrite E. eexists. cbn [app]. rewrite <- app_assoc. reflexivity.
  - rewrite E. eexists. cbn [app]. rewrite <- !app_assoc. reflexivity.
  - rewrite flat_map_app. cbn [flat_map fst snd]. rewrite E. eexists. cbn [app]. unfold item_i.
    rewrite <- !app_assoc. cbn [app]. rewrite <- !app_assoc. reflexivity.
  - rewrite flat_map_app. cbn [flat_map fst snd]. rewrite E. eexists. cbn [app]. unfold item_m.
    rewrite <- !app_assoc. cbn [app]. rewrite <- !app_assoc. reflexivity.
Qed.

Lemma all_GD (l0 : list (nat * gtree)) : Forall (fun y => GD fparse crank (snd y)) l0.
Proof. apply Forall_forall. intros y _. apply gtoks_derive. Qed.

Lemma forallb_app_inv {A} (p : A -> bool) a b : forallb p (a ++ b) = true -> forallb p a = true /\ forallb p b = true.
Proof. rewrite forallb_app. intros H. apply andb_true_iff in H. exact H. Qed.

Notation sv b := (lstopv fparse crank b).
Notation sa b := (lstopa fparse crank b).
Notation sc b := (lstopc fparse crank b).

(* the tokens in front of the occurrence (Space tokens dropped, any line and position) and the literal's
   token are a viable prefix of ParserPrefix.v *)
Theorem bad_at_stops l : wf_lit l = true -> forall t pre, bad_at l t pre -> wf t = true ->
  (is_assoc t = false -> sv (litT l) (visr pre ++ [litT l])) /\
  (is_assoc t = true \/ is_coll t = false -> sa (litT l) (visr pre ++ [litT l])) /\
  (is_coll t = true -> sc (litT l) (visr pre ++ [litT l])).
Proof.
  intros Hl t pre H. set (b := litT l).
  induction H as [|g v|k kv g v pre Hk H IH|f rest c pre H IH|f vf before vsb g x after c pre Hf Hb H IH
                 |before vsb g x after cl c pre Hb H IH]; intros Hw.
  - cbn [visr filter map app]. split; [intros _; apply vs_base; reflexivity|]. split; [intros _; apply as_base; reflexivity|discriminate].
  - cbn [visr filter map app]. split; [discriminate|]. split; [intros _; apply as_base; reflexivity|discriminate].
  - cbn [wf] in Hw. apply andb_true_iff in Hw as [Hw Hwv]. apply andb_true_iff in Hw as [Hwk Hna]. apply negb_true_iff in Hna.
    destruct (IH Hwv) as (IHv & _ & _).
    split; [discriminate|]. split; [|discriminate]. intros _.
    rewrite (visr_lit k _ Hwk). change (dtok 58 :: gap g ++ pre) with ([dtok 58] ++ gap g ++ pre).
    rewrite !visr_app, visr_gap. change (visr [dtok 58]) with [dT 58]. cbn [app].
    apply (as_value fparse crank (eq [b]) (eq [b]) (fun _ => False) (litT k) kv (dT 58)); [apply lit_litv; assumption|apply dl_dT|apply IHv, Hna].
  - cbn [wf] in Hw. apply andb_true_iff in Hw as [Hw _]. apply andb_true_iff in Hw as [Hwf _].
    destruct (IH Hwf) as (_ & IHa & IHc).
    assert (C : sc b (visr (dtok 91 :: pre) ++ [b])).
    { change (dtok 91 :: pre) with ([dtok 91] ++ pre). rewrite visr_app. change (visr [dtok 91]) with [dT 91]. cbn [app].
      destruct (is_coll f) eqn:Ec.
      - apply cs_first_coll; [apply dl_dT|apply IHc; reflexivity].
      - apply cs_first_assoc; [apply dl_dT|apply IHa; right; reflexivity]. }
    split; [intros _; apply vs_coll, C|]. split; [intros [E|E]; discriminate|intros _; exact C].
  - cbn [wf] in Hw. apply andb_true_iff in Hw as [Hw Hh]. apply andb_true_iff in Hw as [Hwf Hwr].
    destruct (forallb_app_inv _ _ _ Hwr) as [Hwb Hwx]. cbn [forallb snd] in Hwx. apply andb_true_iff in Hwx as [Hwx _].
    destruct (IH Hwx) as (IHv & IHa & _).
    assert (C : sc b (visr (dtok 91 :: gtoks f ++ flat_map item_i before ++ dtok 44 :: gap g ++ pre) ++ [b])).
    { change (dtok 91 :: gtoks f ++ flat_map item_i before ++ dtok 44 :: gap g ++ pre)
        with ([dtok 91] ++ gtoks f ++ flat_map item_i before ++ [dtok 44] ++ gap g ++ pre).
      rewrite !visr_app, visr_gap. change (visr [dtok 91]) with [dT 91]. change (visr [dtok 44]) with [dT 44]. cbn [app].
      rewrite <- !app_assoc. cbn [app].
      destruct (homogeneous_cases _ _ Hh) as [[Hfa Hra]|[Hfa Hra]]; rewrite map_app in Hra;
        destruct (forallb_app_inv _ _ _ Hra) as [Hba Hxa]; cbn [map forallb snd] in Hxa; apply andb_true_iff in Hxa as [Hxa _].
      - destruct (proj2 (gtoks_derive fparse crank f Hwf vf Hf) Hfa) as (ka & kb & -> & Da).
        destruct (inline_assocs_D fparse crank before (all_GD before) Hwb Hba vsb Hb) as (kvs & _ & Dk).
        apply (cs_later_assoc fparse crank (eq [b]) (eq [b]) (fun _ => False) (dT 91) (visr (gtoks f)) (ka, kb) (visr (flat_map item_i before)) kvs (dT 44));
          auto using dl_dT. apply IHa. left. exact Hxa.
      - apply negb_true_iff in Hxa.
        apply (cs_later_value fparse crank (eq [b]) (eq [b]) (fun _ => False) (dT 91) (visr (gtoks f)) vf (visr (flat_map item_i before)) vsb (dT 44));
          auto using dl_dT.
        + apply (proj1 (proj1 (gtoks_derive fparse crank f Hwf vf Hf) Hfa)).
        + apply (inline_vals_D fparse crank before (all_GD before) Hwb Hba vsb Hb).
        + apply IHv, Hxa. }
    split; [intros _; apply vs_coll, C|]. split; [intros [E|E]; discriminate|intros _; exact C].
  - cbn [wf] in Hw. apply andb_true_iff in Hw as [Hw Hh]. apply andb_true_iff in Hw as [_ Hwr].
    destruct (forallb_app_inv _ _ _ Hwr) as [Hwb Hwx]. cbn [forallb snd] in Hwx. apply andb_true_iff in Hwx as [Hwx _].
    destruct (IH Hwx) as (IHv & IHa & IHc).
    assert (C : sc b (visr (dtok 91 :: flat_map item_m before ++ eoltok :: gap g ++ pre) ++ [b])).
    { change (dtok 91 :: flat_map item_m before ++ eoltok :: gap g ++ pre)
        with ([dtok 91] ++ flat_map item_m before ++ [eoltok] ++ gap g ++ pre).
      rewrite !visr_app, visr_gap. change (visr [dtok 91]) with [dT 91]. change (visr [eoltok]) with [eolT]. cbn [app].
      destruct before as [|[g0 y] ys].
      - cbn [flat_map app]. destruct (is_coll x) eqn:Ec.
        + apply cs_multi_first_coll; [apply dl_dT|apply eolt_eolT|apply IHc; reflexivity].
        + apply cs_multi_first_assoc; [apply dl_dT|apply eolt_eolT|apply IHa; right; reflexivity].
      - cbn [map snd] in Hb. destruct (sequence_cons _ _ _ Hb) as (vy & vs' & Ey & Es & ->).
        cbn [forallb snd] in Hwb. apply andb_true_iff in Hwb as [Hwy Hwys].
        cbn [app map snd] in Hh.
        cbn [flat_map fst snd]. unfold item_m at 1. cbn [fst snd].
        change (eoltok :: gap g0 ++ gtoks y) with ([eoltok] ++ gap g0 ++ gtoks y).
        rewrite !visr_app, visr_gap. change (visr [eoltok]) with [eolT]. cbn [app]. rewrite <- !app_assoc. cbn [app].
        replace (visr (flat_map item_m ys) ++ eolT :: visr pre ++ [b])
          with ((visr (flat_map item_m ys) ++ [eolT]) ++ visr pre ++ [b]) by (rewrite <- app_assoc; reflexivity).
        destruct (homogeneous_cases _ _ Hh) as [[Hfa Hra]|[Hfa Hra]]; rewrite map_app in Hra;
          destruct (forallb_app_inv _ _ _ Hra) as [Hba Hxa]; cbn [map forallb snd] in Hxa; apply andb_true_iff in Hxa as [Hxa _].
        + destruct (proj2 (gtoks_derive fparse crank y Hwy vy Ey) Hfa) as (ka & kb & -> & Da).
          destruct (multi_assocs_D fparse crank ys (all_GD ys) Hwys Hba vs' Es) as (kvs & _ & Dk).
          apply (cs_multi_later_assoc fparse crank (eq [b]) (eq [b]) (fun _ => False) (dT 91) eolT (visr (gtoks y)) (ka, kb) (visr (flat_map item_m ys) ++ [eolT]) kvs);
            [apply dl_dT|apply eolt_eolT|exact Da|exact Dk|apply IHa; left; exact Hxa].
        + apply negb_true_iff in Hxa.
          apply (cs_multi_later_value fparse crank (eq [b]) (eq [b]) (fun _ => False) (dT 91) eolT (visr (gtoks y)) vy (visr (flat_map item_m ys) ++ [eolT]) vs');
            [apply dl_dT|apply eolt_eolT| | |apply IHv, Hxa].
          * apply (proj1 (proj1 (gtoks_derive fparse crank y Hwy vy Ey) Hfa)).
          * apply (multi_vals_D fparse crank ys (all_GD ys) Hwys Hba vs' Es). }
    split; [intros _; apply vs_coll, C|]. split; [intros [E|E]; discriminate|intros _; exact C].
Qed.
End Reject.

(* ---------- the scanner's tokens in front of the occurrence ---------- *)
Lemma place_app a : forall rest l p,
  place (a ++ rest) l p = fst (place_pre a l p) ++ place rest (fst (snd (place_pre a l p))) (snd (snd (place_pre a l p))).
Proof.
  induction a as [|[ty text] r IH]; intros rest l p; [reflexivity|].
  cbn [app place place_pre fst snd]. rewrite IH, <- app_assoc. reflexivity.
Qed.

Lemma place_pre_strip ts : forall l p, map strip (fst (place_pre ts l p)) = map strip (visr ts).
Proof.
  induction ts as [|[ty text] r IH]; intros l p; [reflexivity|].
  cbn [place_pre fst]. rewrite map_app, IH. unfold visr. cbn [filter]. unfold visible at 2. cbn [fst].
  destruct ty; reflexivity.
Qed.

Section RejectText.
Variable fparse : list Z -> option Z.
Variable crank : val -> val -> option comparison.

(* C11, REJECTION CLAUSE IN GENERAL POSITION *)
Theorem inexact_literal_rejected_anywhere t l pre n :
  wf_gtree t = true -> bad_at fparse crank l t pre -> wf_lit l = true -> lit_value fparse l = None ->
  parse_source fparse crank (gtext t n) =
  PSyntax (mkTok (lit_type l) (lit_text l) (fst (snd (place_pre pre 1 1))) (snd (snd (place_pre pre 1 1)))).
Proof.
  intros Hw Hb Hl Hv. pose proof (gtokens_scannable t n Hw) as Sc.
  unfold wf_gtree in Hw. apply andb_true_iff in Hw as [Hc Hw'].
  destruct (bad_at_tokens fparse crank l t pre Hb) as (suf & Et).
  unfold parse_source, gtext. rewrite (lex_render _ Sc). unfold gtokens. rewrite Et, <- app_assoc. cbn [app].
  rewrite place_app.
  set (lp := snd (place_pre pre 1 1)). set (toks := fst (place_pre pre 1 1)).
  set (b' := mkTok (lit_type l) (lit_text l) (fst lp) (snd lp)).
  assert (Eb : exists tl, place (lit_tok l :: suf ++ repeat eoltok n) (fst lp) (snd lp) = b' :: tl).
  { unfold lit_tok, b'. cbn [place]. rewrite (lit_rename l Hl). pose proof (lit_is_lit l) as L.
    destruct (lit_type l); try discriminate; eexists; reflexivity. }
  destruct Eb as (tl & Eb). rewrite Eb.
  replace (toks ++ b' :: tl) with ((toks ++ [b']) ++ tl) by (rewrite <- app_assoc; reflexivity).
  apply prefix_bad_literal.
  - split; [apply lit_is_lit|]. unfold b'. cbn [ttype_of tval]. rewrite (lit_meaning fparse l Hl). exact Hv.
  - destruct (bad_at_stops fparse crank l Hl t pre Hb Hw') as (_ & _ & C).
    destruct (stops_strip fparse crank (litT l) b' eq_refl) as (_ & _ & S).
    apply (S _ (C Hc)); [|exists toks; reflexivity].
    rewrite !map_app. unfold toks. rewrite place_pre_strip. reflexivity.
Qed.
End RejectText.
