(* GenC12.v — the token / line / position bookkeeping of v4/cdcn/scanner.go, REGENERATED on every run
   by tools/goscan (GenScan.v), is the scanner the C12 theorems are about:
   (a) the regenerated indexOfLastEOL is Lexer.index_of_last_eol for every rune list;
   (b) one foundToken call on a match of n runes updates (next, first, line, position) exactly as
       Lexer.lex_loop does and emits (unless Space) the token with the line/position BEFORE the update;
   (c) scanTokens tries the token types in Params.scan_order; (e) emitToken renames as Lexer.rename;
   (d) for EVERY source the regenerated scanTokens produces Lexer.lex src; hence C12_lex_total,
       C12_lex_positions and C12_diagnostic_located hold of the regenerated scanner.
   Compiled by ./check C12 after the correspondence run (not part of the common build). *)
From Coq Require Import ZArith List String Bool Arith Lia.
From Verif Require Import Base Params Value Lexer Literals Parser LexerProofs ParserProofs CdcnProofs
  ScanLang GenScan ScanSem ScanProofs.
Import ListNotations.
Open Scope Z_scope.

Arguments exec src !fuel ty !k st e.

Ltac xsimpl :=
  cbn [exec eval holds vlookup vset get_field set_field olookup oset String.eqb Ascii.eqb Bool.eqb cmp
       out_with breaks app body_of ttype_of_name x_st x_env x_out x_oc s_next s_first s_line s_pos s_other
       gen_foundToken gen_foundError gen_foundEOF gen_indexOfLastEOL gen_scanTokens negb].

(* ================= (a) indexOfLastEOL ================= *)
Fixpoint scan_down (l : list Z) (i : nat) : Z :=
  match i with
  | O => 0
  | S j => if nth j l 0 =? 10 then Z.of_nat (length l) - Z.of_nat (S j) + 1 else scan_down l j
  end.

Lemma iole_app_nl : forall p suf, count_nl suf = 0%nat ->
  index_of_last_eol (p ++ 10 :: suf) = Z.of_nat (S (length suf)).
Proof.
  induction p as [|a p IH]; intros suf Hs.
  - cbn [app]. rewrite index_of_last_eol_cons, (index_of_last_eol_no_nl suf Hs). reflexivity.
  - cbn [app]. rewrite index_of_last_eol_cons, (IH suf Hs).
    destruct (Z.eqb_spec (Z.of_nat (S (length suf))) 0); [lia|reflexivity].
Qed.

Lemma scan_down_spec : forall pre suf, count_nl suf = 0%nat ->
  scan_down (pre ++ suf) (length pre) = index_of_last_eol (pre ++ suf).
Proof.
  induction pre as [|c p IH] using rev_ind; intros suf Hs.
  - simpl. symmetry. apply index_of_last_eol_no_nl. exact Hs.
  - rewrite app_length. cbn [length]. rewrite Nat.add_1_r. cbn [scan_down].
    rewrite <- app_assoc. cbn [app]. rewrite app_nth2 by lia. rewrite Nat.sub_diag. cbn [nth].
    destruct (Z.eqb_spec c 10) as [->|Hc].
    + rewrite iole_app_nl by exact Hs. rewrite app_length. cbn [length]. lia.
    + apply IH. rewrite count_nl_cons. destruct (Z.eqb_spec c 10); [contradiction|]. exact Hs.
Qed.

Lemma scan_down_all l : scan_down l (length l) = index_of_last_eol l.
Proof. pose proof (scan_down_spec l [] eq_refl) as H. rewrite app_nil_r in H. exact H. Qed.

(* the loop of indexOfLastEOL after its init statement *)
Definition loop_head (k : list sstmt) : list sstmt :=
  match k with SFor lb _ c post body :: rest => SFor lb [] c post body :: rest | _ => k end.
Definition iole_K : list sstmt := Eval cbv in loop_head (tl gen_indexOfLastEOL).
Definition iole_env (l : list Z) (i : Z) : lenv :=
  [("runes1"%string, VText l); ("num1"%string, VInt (Z.of_nat (length l))); ("num2"%string, VInt i)].
Fixpoint fu (i F : nat) : nat := match i with O => S (S (S F)) | S j => S (S (S (fu j F))) end.

Lemma fu_le i F : (fu i F <= 3 * i + 3 + F)%nat.
Proof. induction i; cbn [fu]; lia. Qed.

Lemma iole_loop src st l F : forall i, (i <= length l)%nat ->
  exists e', exec src (fu i F) None iole_K st (iole_env l (Z.of_nat i)) =
             Some {| x_st := st; x_env := e'; x_out := []; x_oc := OReturn (Some (VInt (scan_down l i))) |}.
Proof.
  induction i as [|j IH]; intros Hi; unfold iole_K, iole_env.
  - cbn [fu]. xsimpl. eexists. reflexivity.
  - cbn [fu]. xsimpl.
    replace (Z.of_nat (S j) - 1) with (Z.of_nat j) by lia. rewrite Nat2Z.id.
    assert (E1 : (0 <? Z.of_nat (S j)) = true) by (apply Z.ltb_lt; lia).
    assert (E2 : ((0 <=? Z.of_nat j) && (Z.of_nat j <? Z.of_nat (length l)))%bool = true).
    { apply andb_true_iff. split; [apply Z.leb_le|apply Z.ltb_lt]; lia. }
    rewrite E1, E2.
    cbn [scan_down]. destruct (nth j l 0 =? 10).
    + xsimpl. eexists. reflexivity.
    + change (exists e', out_with [] (exec src (S (fu j F)) None iole_K st (iole_env l (Z.of_nat (S j) - 1))) =
                         Some {| x_st := st; x_env := e'; x_out := []; x_oc := OReturn (Some (VInt (scan_down l j))) |}).
      replace (Z.of_nat (S j) - 1) with (Z.of_nat j) by lia.
      destruct (IH ltac:(lia)) as [e' He].
      rewrite (exec_mono _ _ _ _ _ _ _ He (S (fu j F))) by lia. exists e'. reflexivity.
Qed.

Theorem gen_indexOfLastEOL_is_index_of_last_eol src st l F :
  exists e', exec src (S (S (S (fu (length l) F)))) None gen_indexOfLastEOL st [("runes1"%string, VText l)] =
             Some {| x_st := st; x_env := e'; x_out := []; x_oc := OReturn (Some (VInt (index_of_last_eol l))) |}.
Proof.
  destruct (iole_loop src st l F (length l) (le_n _)) as [e' He]. unfold iole_K, iole_env in He.
  exists e'. xsimpl. rewrite <- scan_down_all. exact He.
Qed.

(* ================= (e) the renaming table ================= *)
Lemma gen_rename_is_rename text : gen_rename text = rename text.
Proof.
  unfold gen_rename, gen_rename_table, rename. destruct text as [|c [|d t]]; try reflexivity.
  - cbn [table_lookup list_eqb]. rewrite !andb_true_r.
    repeat match goal with |- context [c =? ?k] => destruct (Z.eqb_spec c k); [subst; reflexivity|] end.
    reflexivity.
  - cbn [table_lookup list_eqb]. rewrite !andb_false_r. reflexivity.
Qed.

Lemma gen_emitToken_shape :
  gen_emit_shape = ["value = string(runes[first:next])"; "switch value { case <text>: value = <name> ... }";
                    "token = Token().Make(line, position, type, value)"; "tokens.AddValue(token)"]%string /\
  gen_roles_found = [FFirst; FNext; FLine; FPos].
Proof. split; reflexivity. Qed.

(* ================= (b) foundToken ================= *)
Ltac xsimpl' :=
  cbn [exec eval holds vlookup vset get_field set_field olookup oset String.eqb Ascii.eqb Bool.eqb cmp
       out_with breaks app body_of ttype_of_name x_st x_env x_out x_oc s_next s_first s_line s_pos s_other
       gen_foundToken gen_foundError gen_foundEOF negb].

Definition sigma (off : nat) (line pos : Z) (o : list (string * Z)) : sstate :=
  {| s_next := Z.of_nat off; s_first := Z.of_nat off; s_line := line; s_pos := pos; s_other := o |}.

Lemma slice_from src off : (off <= length src)%nat ->
  slice src (Z.of_nat off) (Z.of_nat (length src)) = Some (skipn off src).
Proof.
  intros H. unfold slice.
  assert (E : ((0 <=? Z.of_nat off) && (Z.of_nat off <=? Z.of_nat (length src)) && (Z.of_nat (length src) <=? Z.of_nat (length src)))%bool = true).
  { rewrite !andb_true_iff. repeat split; apply Z.leb_le; lia. }
  rewrite E. rewrite Nat2Z.id. f_equal. apply firstn_all2. rewrite skipn_length. lia.
Qed.

Lemma slice_mid src off n : (off + n <= length src)%nat ->
  slice src (Z.of_nat off) (Z.of_nat off + Z.of_nat n) = Some (firstn n (skipn off src)).
Proof.
  intros H. unfold slice.
  assert (E : ((0 <=? Z.of_nat off) && (Z.of_nat off <=? Z.of_nat off + Z.of_nat n) && (Z.of_nat off + Z.of_nat n <=? Z.of_nat (length src)))%bool = true).
  { rewrite !andb_true_iff. repeat split; apply Z.leb_le; lia. }
  rewrite E. rewrite Nat2Z.id. replace (Z.to_nat (Z.of_nat off + Z.of_nat n - Z.of_nat off)) with n by lia. reflexivity.
Qed.

Lemma found_none src off line pos o ty F : (off <= length src)%nat ->
  recognize ty (skipn off src) = None ->
  exists e', exec src (S (S (S (S F)))) (Some ty) gen_foundToken (sigma off line pos o) [] =
             Some {| x_st := sigma off line pos o; x_env := e'; x_out := []; x_oc := OReturn (Some (VInt 0)) |}.
Proof.
  intros Hoff Hr. unfold sigma. xsimpl. rewrite (slice_from src off Hoff). xsimpl. rewrite Hr. xsimpl.
  eexists. reflexivity.
Qed.

Definition found_tail : list sstmt := Eval cbv in
  match gen_foundToken with
  | _ :: _ :: SIf _ yes _ :: rest => (skipn 4 yes) ++ rest
  | _ => []
  end.
Definition found_env (src : list Z) (off n : nat) : lenv :=
  let l := skipn off src in
  [("str1"%string, VText l); ("ms1"%string, VMatches (Some n) l); ("str2"%string, VText (firstn n l));
   ("runes1"%string, VText (firstn n l)); ("num1"%string, VInt (Z.of_nat n))].
Definition sigma_mid (off n : nat) (line pos : Z) (o : list (string * Z)) : sstate :=
  {| s_next := Z.of_nat off + Z.of_nat n; s_first := Z.of_nat off; s_line := line; s_pos := pos; s_other := o |}.

(* the first statements of foundToken on a match of n runes: the text is taken from next_ on, next_ advances by n RUNES *)
Lemma found_prefix src off line pos o ty n f : (off <= length src)%nat ->
  recognize ty (skipn off src) = Some n -> (n <= length src - off)%nat ->
  exec src (S (S (S (S (S (S (S f))))))) (Some ty) gen_foundToken (sigma off line pos o) [] =
  exec src f (Some ty) found_tail (sigma_mid off n line pos o) (found_env src off n).
Proof.
  intros Hoff Hr Hnl.
  assert (Hlen : length (firstn n (skipn off src)) = n) by (rewrite firstn_length, skipn_length; lia).
  unfold sigma, sigma_mid, found_env, found_tail, gen_foundToken.
  xstep1. rewrite (slice_from src off Hoff). xstep1. xstep1. rewrite Hr. cbn [negb app]. xstep1.
  cbn [Z.eqb Pos.eqb]. xstep1. xstep1. rewrite Hlen. xstep1. reflexivity.
Qed.

Lemma ttype_eqb_space ty : ttype_eqb ty TSpace = match ty with TSpace => true | _ => false end.
Proof. destruct ty; reflexivity. Qed.

(* (b) one foundToken call on a match of n runes: the token (unless Space) carries the line / position BEFORE the
   update; next and first advance by n RUNES; line and position as in Lexer.lex_loop *)
Lemma found_some src off line pos o ty n F : (off <= length src)%nat ->
  recognize ty (skipn off src) = Some n ->
  let text := firstn n (skipn off src) in
  exists e', exec src (20 + (S (S (S (fu n F))))) (Some ty) gen_foundToken (sigma off line pos o) [] =
             Some {| x_st := sigma (off + n) (line_next line text) (pos_next pos text n) o; x_env := e';
                     x_out := (if ttype_eqb ty TSpace then [] else [mkTok ty (rename text) line pos]);
                     x_oc := OReturn (Some (VInt 1)) |}.
Proof.
  intros Hoff Hr text.
  destruct (recognize_pos ty _ n Hr) as [Hn0 Hnl]. rewrite skipn_length in Hnl.
  assert (Hlen : length text = n) by (unfold text; rewrite firstn_length, skipn_length; lia).
  cbn [Nat.add]. rewrite (found_prefix src off line pos o ty n _ Hoff Hr Hnl).
  unfold found_tail, sigma_mid, found_env, sigma. fold text.
  assert (Hst : forall a b c d a' b' c' d', a = a' -> b = b' -> c = c' -> d = d' ->
            {| s_next := a; s_first := b; s_line := c; s_pos := d; s_other := o |} =
            {| s_next := a'; s_first := b'; s_line := c'; s_pos := d'; s_other := o |}) by (intros ? ? ? ? ? ? ? ? -> -> -> ->; reflexivity).
  assert (Hcnt : (0 <? Z.of_nat (count_nl text)) = (0 <? count_nl text)%nat) by (destruct (count_nl text); reflexivity).
  unfold line_next, pos_next.
  xstep1. destruct (ttype_eqb ty TSpace); cbn [negb app].
  - xstep1. xstep1. rewrite Hcnt. destruct (0 <? count_nl text)%nat; cbn [app].
    + xstep1. xstep1. cbn [body_of String.eqb Ascii.eqb Bool.eqb].
      destruct (gen_indexOfLastEOL_is_index_of_last_eol src
          {| s_next := Z.of_nat off + Z.of_nat n; s_first := Z.of_nat off; s_line := line + Z.of_nat (count_nl text); s_pos := pos; s_other := o |} text F) as [e1 He1].
      rewrite Hlen in He1. pose proof (exec_mono _ _ _ _ _ _ _ He1) as M.
      match goal with |- context [exec src ?m None gen_indexOfLastEOL _ _] => specialize (M m ltac:(repeat first [apply le_n | apply le_S])) end.
      rewrite M. cbn [x_oc x_out x_st set_field s_next s_first s_line s_pos s_other]. xstep1. xstep1.
      eexists. f_equal; f_equal. apply Hst; lia.
    + xstep1. xstep1. xstep1. eexists. f_equal; f_equal. apply Hst; lia.
  - xstep1. rewrite (slice_mid src off n) by lia. fold text. rewrite gen_rename_is_rename.
    xstep1. xstep1. rewrite Hcnt. destruct (0 <? count_nl text)%nat; cbn [app].
    + xstep1. xstep1. cbn [body_of String.eqb Ascii.eqb Bool.eqb].
      destruct (gen_indexOfLastEOL_is_index_of_last_eol src
          {| s_next := Z.of_nat off + Z.of_nat n; s_first := Z.of_nat off; s_line := line + Z.of_nat (count_nl text); s_pos := pos; s_other := o |} text F) as [e1 He1].
      rewrite Hlen in He1. pose proof (exec_mono _ _ _ _ _ _ _ He1) as M.
      match goal with |- context [exec src ?m None gen_indexOfLastEOL _ _] => specialize (M m ltac:(repeat first [apply le_n | apply le_S])) end.
      rewrite M. cbn [x_oc x_out x_st set_field s_next s_first s_line s_pos s_other]. xstep1. xstep1.
      cbn [out_with app x_st x_env x_out x_oc]. eexists. f_equal; f_equal. apply Hst; lia.
    + xstep1. xstep1. xstep1. cbn [out_with app x_st x_env x_out x_oc]. eexists. f_equal; f_equal. apply Hst; lia.
Qed.

(* ================= (c) scanTokens: the order of the cases ================= *)
Definition gen_label : option string := match gen_scanTokens with SFor lb _ _ _ _ :: _ => lb | _ => None end.
Definition gen_cond : scond := match gen_scanTokens with SFor _ _ c _ _ :: _ => c | _ => CTypeIs "" end.
Definition gen_dflt : list sstmt :=
  match gen_scanTokens with SFor _ _ _ _ [SSwitchFound _ d] :: _ => d | _ => [SUnknown "no default"] end.

(* the loop of scanTokens tries foundToken on the token types in the order of Params.scan_order (regenerated from the
   same source by tools/genparams.py), every case body is empty, the default comes last, foundEOF follows the loop *)
Lemma gen_scanTokens_order :
  gen_scanTokens = [SFor gen_label [] gen_cond [] [SSwitchFound (map (fun nm => (nm, [])) Params.scan_order) gen_dflt];
                    SCall "foundEOF"].
Proof. reflexivity. Qed.

Lemma scan_order_valid : Forall (fun nm => ttype_of_name nm <> None) Params.scan_order.
Proof. repeat constructor; discriminate. Qed.

(* ================= the constructor ================= *)
Definition gen_others (src : list Z) : list (string * Z) :=
  match gen_make src with Some st => s_other st | None => [] end.
Lemma gen_make_spec src : gen_make src = Some (sigma 0 1 1 (gen_others src)).
Proof. reflexivity. Qed.

Lemma gen_cond_spec src off line pos :
  holds src None (sigma off line pos (gen_others src)) [] gen_cond = Some (off <? length src)%nat.
Proof.
  unfold gen_cond, gen_others, sigma. cbn -[Nat.ltb Z.ltb Z.of_nat length].
  destruct (Nat.ltb_spec off (length src)); f_equal; [apply Z.ltb_lt|apply Z.ltb_ge]; lia.
Qed.

(* ================= foundError / foundEOF ================= *)
Lemma eof_exec src st e text F : slice src (s_first st) (s_next st) = Some text ->
  exec src (S (S (S (S F)))) None [SCall "foundEOF"] st e =
  Some {| x_st := st; x_env := e; x_out := [mkTok TEOF (rename text) (s_line st) (s_pos st)]; x_oc := ONormal |}.
Proof.
  intros Hs. xstep1. cbn [body_of String.eqb Ascii.eqb Bool.eqb]. unfold gen_foundEOF.
  xstep1. rewrite Hs. xstep1. xstep1. rewrite gen_rename_is_rename. reflexivity.
Qed.

Lemma dflt_exec src off line pos o e c rest F : skipn off src = c :: rest -> (off < length src)%nat ->
  exec src (S (S (S (S (S (S F)))))) None gen_dflt (sigma off line pos o) e =
  Some {| x_st := {| s_next := Z.of_nat off + 1; s_first := Z.of_nat off; s_line := line; s_pos := pos; s_other := o |};
          x_env := e; x_out := [mkTok TError (rename [c]) line pos]; x_oc := OBreak gen_label |}.
Proof.
  intros Hsk Hlt. unfold gen_dflt, sigma. cbn [gen_scanTokens].
  xstep1. cbn [body_of String.eqb Ascii.eqb Bool.eqb]. unfold gen_foundError.
  xstep1. xstep1.
  pose proof (slice_mid src off 1 ltac:(lia)) as Hs. rewrite Hsk in Hs. cbn [firstn] in Hs.
  change (Z.of_nat 1) with 1 in Hs. rewrite Hs. rewrite gen_rename_is_rename.
  xstep1. xstep1. reflexivity.
Qed.

(* ================= the switch: foundToken in order ================= *)
Lemma fu_mono i j F : (i <= j)%nat -> (fu i F <= fu j F)%nat.
Proof. induction 1; cbn [fu]; lia. Qed.

Definition found_state (off : nat) (line pos : Z) (o : list (string * Z)) (l : list Z) (n : nat) : sstate :=
  sigma (off + n) (line_next line (firstn n l)) (pos_next pos (firstn n l) n) o.
Definition found_out (ty : ttype) (line pos : Z) (l : list Z) (n : nat) : list token :=
  if ttype_eqb ty TSpace then [] else [mkTok ty (rename (firstn n l)) line pos].

Lemma switch_exec src off line pos o dflt F : (off <= length src)%nat ->
  let l := skipn off src in
  let B := (30 + fu (length l) F)%nat in
  forall names, Forall (fun nm => ttype_of_name nm <> None) names ->
  exec src (length names + (S (S B))) None [SSwitchFound (map (fun nm => (nm, [])) names) dflt] (sigma off line pos o) [] =
  match try_types (names_to_types names) l with
  | Some (ty, n) => Some {| x_st := found_state off line pos o l n; x_env := []; x_out := found_out ty line pos l n; x_oc := ONormal |}
  | None => exec src (S (S B)) None [SSwitchFound [] dflt] (sigma off line pos o) []
  end.
Proof.
  intros Hoff l B names. induction names as [|nm more IH]; intros Hv.
  - reflexivity.
  - inversion Hv as [|x y Hnm Hmore]; subst. destruct (ttype_of_name nm) as [t|] eqn:Et; [|contradiction].
    cbn [map length Nat.add names_to_types]. rewrite Et. cbn [try_types].
    rewrite exec_SSwitch_cons. rewrite Et. cbn [body_of String.eqb Ascii.eqb Bool.eqb].
    destruct (recognize t l) as [n|] eqn:Er.
    + destruct (found_some src off line pos o t n F Hoff Er) as [e' He].
      destruct (recognize_pos t _ n Er) as [_ Hnl].
      rewrite (exec_mono _ _ _ _ _ _ _ He).
      2:{ unfold B. pose proof (fu_mono n (length l) F Hnl). lia. }
      cbn [x_oc x_out x_st x_env].
      unfold B. cbn [Nat.add]. rewrite Nat.add_succ_r. rewrite exec_nil. cbn [x_oc x_out x_st x_env out_with]. rewrite exec_nil.
      cbn [out_with x_oc x_out x_st x_env]. rewrite !app_nil_r. reflexivity.
    + destruct (found_none src off line pos o t (length more + (S (S B)) - 4) Hoff Er) as [e' He].
      rewrite (exec_mono _ _ _ _ _ _ _ He) by (unfold B; lia).
      cbn [x_oc x_out x_st x_env out_with].
      rewrite (IH Hmore). destruct (try_types (names_to_types more) l) as [[ty n]|]; [reflexivity|].
      destruct (exec src (S (S B)) None [SSwitchFound [] dflt] (sigma off line pos o) []) as [r|]; [|reflexivity].
      destruct r; reflexivity.
Qed.

(* ================= (d) scanTokens = Lexer.lex, for every source ================= *)
Definition C0 (src : list Z) : nat := 60 + fu (length src) 0.

Lemma skipn_cons_nonempty {A} off (l : list A) : (off < length l)%nat -> exists c rest, skipn off l = c :: rest.
Proof.
  revert off; induction l as [|a l IH]; intros [|off] H; simpl in *; try lia; eauto. apply IH; lia.
Qed.
Lemma skipn_skipn' {A} n off (l : list A) : skipn n (skipn off l) = skipn (off + n) l.
Proof.
  revert l; induction off as [|off IH]; intros l; [reflexivity|]. destruct l as [|a l]; [now rewrite !skipn_nil|]. apply IH.
Qed.

Lemma scan_loop src : forall fuel off line pos, (off <= length src)%nat -> (length src - off <= fuel)%nat ->
  exists st' e',
    exec src (length src - off + C0 src) None gen_scanTokens (sigma off line pos (gen_others src)) [] =
    Some {| x_st := st'; x_env := e'; x_out := lex_loop scan_order_t fuel (skipn off src) line pos; x_oc := ONormal |}.
Proof.
  induction fuel as [|fuel IH]; intros off line pos Hoff Hfuel.
  - (* nothing left *)
    assert (off = length src) by lia. subst off. rewrite skipn_all, lex_loop_nil.
    rewrite gen_scanTokens_order. unfold C0. rewrite Nat.sub_diag. cbn [Nat.add].
    rewrite exec_SFor, gen_cond_spec, Nat.ltb_irrefl.
    rewrite (eof_exec src _ _ []). 2:{ cbn [sigma s_first s_next]. pose proof (slice_mid src (length src) 0 ltac:(lia)) as H. rewrite Z.add_0_r in H. rewrite H. reflexivity. }
    do 2 eexists. reflexivity.
  - destruct (Nat.eq_dec off (length src)) as [->|Hne].
    + rewrite skipn_all, lex_loop_nil.
      rewrite gen_scanTokens_order. unfold C0. rewrite Nat.sub_diag. cbn [Nat.add].
      rewrite exec_SFor, gen_cond_spec, Nat.ltb_irrefl.
      rewrite (eof_exec src _ _ []). 2:{ cbn [sigma s_first s_next]. pose proof (slice_mid src (length src) 0 ltac:(lia)) as H. rewrite Z.add_0_r in H. rewrite H. reflexivity. }
      do 2 eexists. reflexivity.
    + assert (Hlt : (off < length src)%nat) by lia.
      destruct (skipn_cons_nonempty off src Hlt) as (c & rest & Hsk).
      rewrite Hsk, lex_loop_S, <- Hsk.
      set (l := skipn off src) in *.
      assert (Hl : (length l <= length src)%nat) by (unfold l; rewrite skipn_length; lia).
      rewrite gen_scanTokens_order.
      replace (length src - off + C0 src)%nat with (S (length src - off + (59 + fu (length src) 0)))%nat by (unfold C0; lia).
      set (f := (length src - off + (59 + fu (length src) 0))%nat).
      rewrite exec_SFor, gen_cond_spec. rewrite (proj2 (Nat.ltb_lt _ _) Hlt).
      pose proof (switch_exec src off line pos (gen_others src) gen_dflt 0%nat Hoff Params.scan_order scan_order_valid) as SW.
      cbv zeta in SW. fold l in SW. change (names_to_types scan_order) with scan_order_t in SW.
      assert (Hf : (length Params.scan_order + S (S (30 + fu (length l) 0)) <= f)%nat).
      { unfold f. pose proof (fu_mono (length l) (length src) 0%nat Hl). change (length scan_order) with 12%nat. lia. }
      destruct (try_types scan_order_t l) as [[ty n]|] eqn:Etry.
      * (* a token *)
        rewrite (exec_mono _ _ _ _ _ _ _ SW f Hf). cbn [x_oc x_out x_st x_env app].
        destruct (try_types_pos _ _ _ _ Etry) as [[Hn0 Hnl] _].
        assert (Hnl' : (n <= length src - off)%nat) by (rewrite <- (skipn_length off src); exact Hnl).
        destruct (IH (off + n)%nat (line_next line (firstn n l)) (pos_next pos (firstn n l) n) ltac:(lia) ltac:(lia)) as (st' & e' & He).
        rewrite gen_scanTokens_order in He. unfold found_state.
        rewrite (exec_mono _ _ _ _ _ _ _ He f) by (unfold f, C0; lia).
        cbn [out_with x_st x_env x_out x_oc]. assert (Hss : skipn n l = skipn (off + n) src) by (unfold l; apply skipn_skipn'). rewrite Hss.
        unfold found_out. rewrite ttype_eqb_space.
        do 2 eexists. f_equal. f_equal. destruct ty; reflexivity.
      * (* no token type matches: the error token, then EOF with the same text, line and position *)
        rewrite exec_SSwitch_nil in SW.
        pose proof (dflt_exec src off line pos (gen_others src) [] c rest 0%nat Hsk Hlt) as D.
        apply exec_mono with (m := S (30 + fu (length l) 0)) in D; [|lia]. rewrite D in SW. cbn [x_oc] in SW.
        assert (SW' : exec src (length scan_order + S (S (30 + fu (length l) 0))) None
                        [SSwitchFound (map (fun nm : string => (nm, [])) scan_order) gen_dflt] (sigma off line pos (gen_others src)) [] =
                      Some {| x_st := {| s_next := Z.of_nat off + 1; s_first := Z.of_nat off; s_line := line; s_pos := pos; s_other := gen_others src |};
                              x_env := []; x_out := [mkTok TError (rename [c]) line pos]; x_oc := OBreak gen_label |}).
        { rewrite SW. reflexivity. }
        rewrite (exec_mono _ _ _ _ _ _ _ SW' f Hf). cbn [x_oc x_out x_st x_env].
        assert (Hb : breaks gen_label gen_label = true) by reflexivity. rewrite Hb.
        unfold f. cbn [Nat.add]. rewrite !Nat.add_succ_r.
        rewrite (eof_exec src _ _ [c]).
        2:{ cbn [s_first s_next]. pose proof (slice_mid src off 1 ltac:(lia)) as H. fold l in H. rewrite Hsk in H. exact H. }
        cbn [out_with x_st x_env x_out x_oc s_line s_pos app]. do 2 eexists. reflexivity.
Qed.

Theorem gen_scan_is_lex src : gen_scan src = Some (lex src).
Proof.
  unfold gen_scan. rewrite gen_make_spec.
  destruct (scan_loop src (length src) 0 1 1 ltac:(lia) ltac:(lia)) as (st' & e' & He).
  rewrite (exec_mono _ _ _ _ _ _ _ He (scan_fuel src)).
  - reflexivity.
  - unfold scan_fuel, C0. pose proof (fu_le (length src) 0). lia.
Qed.

(* ---- the C12 theorems about the scanner, for the regenerated scanTokens ---- *)
Lemma gen_lex_total : forall src, exists toks, gen_scan src = Some toks /\ well_ended toks.
Proof. intros src. exists (lex src). split; [exact (gen_scan_is_lex src)|exact (lex_total src)]. Qed.
Theorem C12_gen_lex_total : forall src, exists toks, gen_scan src = Some toks /\ well_ended toks.
Proof. exact gen_lex_total. Qed.

Lemma gen_lex_positions : forall src toks, gen_scan src = Some toks ->
  toks = map snd (lex_off src) /\
  forall k t, In (k, t) (lex_off src) ->
    (k <= length src)%nat /\ tline t = line_of (firstn k src) /\ tpos t = col_of (firstn k src).
Proof.
  intros src toks H. rewrite gen_scan_is_lex in H. injection H as <-. split.
  - symmetry. exact (lex_off_erase src).
  - exact (lex_positions src).
Qed.
Theorem C12_gen_lex_positions : forall src toks, gen_scan src = Some toks ->
  toks = map snd (lex_off src) /\
  forall k t, In (k, t) (lex_off src) ->
    (k <= length src)%nat /\ tline t = line_of (firstn k src) /\ tpos t = col_of (firstn k src).
Proof. exact gen_lex_positions. Qed.

(* the diagnostic of the parser run on the tokens of the REGENERATED scanner names a token that scanner emitted, at the
   line and column at which its text begins *)
Lemma gen_diagnostic_located : forall fparse crank src toks t,
  gen_scan src = Some toks -> parse_tokens fparse crank toks = PSyntax t ->
  In t toks /\
  exists k, In (k, t) (lex_off src) /\ (k <= length src)%nat /\
            tline t = line_of (firstn k src) /\ tpos t = col_of (firstn k src).
Proof.
  intros fparse crank src toks t H Hp. rewrite gen_scan_is_lex in H. injection H as <-. split.
  - pose proof (parse_total fparse crank src) as T. unfold parse_source in T. rewrite Hp in T. exact T.
  - exact (diagnostic_located fparse crank src t Hp).
Qed.
Theorem C12_gen_diagnostic_located : forall fparse crank src toks t,
  gen_scan src = Some toks -> parse_tokens fparse crank toks = PSyntax t ->
  In t toks /\
  exists k, In (k, t) (lex_off src) /\ (k <= length src)%nat /\
            tline t = line_of (firstn k src) /\ tpos t = col_of (firstn k src).
Proof. exact gen_diagnostic_located. Qed.

(* non-vacuity: a two-byte rune inside a string, a newline inside nothing, an error character *)
Example gen_scan_example :
  gen_scan [91; 34; 233; 34; 44; 32; 49; 10; 120] =
  Some [mkTok TDelimiter [91] 1 1; mkTok TString [34; 233; 34] 1 2; mkTok TDelimiter [44] 1 5; mkTok TInteger [49] 1 7;
        mkTok TEOL (zs "<EOLN>") 1 8; mkTok TError [120] 2 1; mkTok TEOF [120] 2 1].
Proof. vm_compute. reflexivity. Qed.

Print Assumptions gen_indexOfLastEOL_is_index_of_last_eol.
Print Assumptions gen_rename_is_rename.
Print Assumptions found_some.
Print Assumptions gen_scanTokens_order.
Print Assumptions gen_scan_is_lex.
Print Assumptions C12_gen_lex_total.
Print Assumptions C12_gen_lex_positions.
Print Assumptions C12_gen_diagnostic_located.
