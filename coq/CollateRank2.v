(* CollateRank2.v — C07 continued: the shape of the order on sequences and maps,
   proper prefixes, independence of map insertion order. *)
From Verif Require Import Base Sorter Value SorterProofs CollateOrd CollateSort CollateBase CollateRank.
From Coq Require Import Permutation Sorted.
Open Scope nat_scope.

Definition rk0 (M : nat) (a b : val) : comparison := unres (rank0 M a b).

Lemma rk0_prank : forall M a b, inU M a = true -> inU M b = true -> rk0 M a b = prank a b.
Proof. intros. unfold rk0. rewrite rank0_prank by auto. simpl. reflexivity. Qed.

Lemma rk0_refl : forall M a, inU M a = true -> rk0 M a a = Eq.
Proof. intros. unfold rk0. rewrite rank_refl by auto. simpl. reflexivity. Qed.

Lemma inU_seq : forall M k l x, inU M (VSeq k l) = true -> In x l -> inU M x = true.
Proof.
  intros M k l x H Hx. apply inU_spec in H. destruct H as [W N]. unfold inU.
  rewrite (elems_wf0 (VSeq k l) x W Hx). simpl. apply Nat.leb_le.
  pose proof (elems_nest (VSeq k l) x Hx). simpl in *. lia.
Qed.

(* sequences of one kind are ordered lexicographically by the order of their elements *)
Theorem rank_seq_lex : forall M k xs ys,
  inU M (VSeq k xs) = true -> inU M (VSeq k ys) = true ->
  rank0 M (VSeq k xs) (VSeq k ys) = R (lex (rk0 M) xs ys).
Proof.
  intros M k xs ys Hx Hy. rewrite rank0_prank by auto.
  pose proof (inU_spec _ _ Hx) as [Wx _]. pose proof (inU_spec _ _ Hy) as [Wy _].
  rewrite prank_tags2 by auto.
  replace (tyrank (VSeq k xs) ?= tyrank (VSeq k ys))%Z with Eq
    by (symmetry; apply Z.compare_eq_iff; destruct k; reflexivity).
  unfold vtag, psame2. simpl. f_equal. apply lex_ext2.
  intros x y Ix Iy. symmetry. apply rk0_prank; [apply (inU_seq M k xs)|apply (inU_seq M k ys)]; auto.
Qed.

Lemma lnest_app : forall l1 l2, lnest (l1 ++ l2) = Nat.max (lnest l1) (lnest l2).
Proof. induction l1; simpl; intros; auto. rewrite IHl1. lia. Qed.

Lemma inU_seq_prefix : forall M k l1 l2, inU M (VSeq k (l1 ++ l2)) = true -> inU M (VSeq k l1) = true.
Proof.
  intros M k l1 l2 H. apply inU_spec in H. destruct H as [W N].
  change (forallb wf0 (l1 ++ l2) = true) in W. change (S (lnest (l1 ++ l2)) <= M) in N.
  rewrite forallb_app in W. apply andb_prop in W. destruct W as [W1 _].
  rewrite lnest_app in N.
  unfold inU. apply andb_true_intro. split.
  - exact W1.
  - apply Nat.leb_le. change (S (lnest l1) <= M). lia.
Qed.

(* a proper prefix ranks before the longer sequence *)
Theorem rank_prefix_lt : forall M k l1 x l2,
  inU M (VSeq k (l1 ++ x :: l2)) = true ->
  rank0 M (VSeq k l1) (VSeq k (l1 ++ x :: l2)) = R Lt.
Proof.
  intros M k l1 x l2 H.
  pose proof (inU_seq_prefix _ _ _ _ H) as H1.
  rewrite rank_seq_lex by auto. f_equal. apply lex_prefix.
  intros y Hy. apply rk0_refl. eapply inU_seq; eauto.
Qed.

(* ---------- maps ---------- *)
Lemma keyr_lrank_refl : forall p : val * val, keyr lrank p p = Eq.
Proof. intros. apply lrank_refl. Qed.
Lemma keyr_lrank_anti : forall p q : val * val, keyr lrank q p = CompOpp (keyr lrank p q).
Proof. intros. apply lrank_anti. Qed.
Lemma keyr_lrank_ctr : forall p q s : val * val,
  ctr (keyr lrank p q) (keyr lrank q s) (keyr lrank p s).
Proof. intros. apply lrank_ctr. Qed.

(* keys pairwise different under the ranking (computable) *)
Fixpoint kdistinctb (ks : list val) : bool :=
  match ks with
  | [] => true
  | k :: t => forallb (fun k' => negb (comparison_eqb (lrank k k') Eq)) t && kdistinctb t
  end.

Lemma kdistinct_zip : forall ks vs, kdistinctb ks = true ->
  distinct (val * val) (keyr lrank) (zipkv ks vs).
Proof.
  induction ks as [|k ks IH]; intros vs H.
  { simpl. split; [constructor|]. intros p q []. }
  destruct vs as [|v vs].
  { simpl. split; [constructor|]. intros p q []. }
  simpl in H. apply andb_prop in H. destruct H as [H1 H2].
  destruct (IH vs H2) as [ND PD].
  assert (Hk : forall q, In q (zipkv ks vs) -> lrank k (fst q) <> Eq).
  { intros [k' v'] Hq. apply zipkv_in in Hq. destruct Hq as [Hq _].
    pose proof (forallb_in _ _ _ H1 Hq) as N. simpl in N. simpl.
    destruct (lrank k k'); simpl in N; congruence. }
  simpl. split.
  - constructor; auto. intros Hin. apply (Hk _ Hin). simpl. apply lrank_refl.
  - intros p q [Hp|Hp] [Hq|Hq] E; subst; auto.
    + exfalso. apply (Hk _ Hq). exact E.
    + exfalso. apply (Hk _ Hp). unfold keyr in E. simpl in E.
      rewrite lrank_anti, E. reflexivity.
Qed.

Theorem sortk_perm : forall ks vs ks' vs', kdistinctb ks = true ->
  Permutation (zipkv ks vs) (zipkv ks' vs') ->
  sortk (zipkv ks vs) = sortk (zipkv ks' vs').
Proof.
  intros. unfold sortk.
  apply (sort_canonical _ _ keyr_lrank_refl keyr_lrank_anti keyr_lrank_ctr); auto.
  apply kdistinct_zip; auto.
Qed.

(* Go maps and Maps: key-then-value over the keys sorted by the order on leaves *)
Definition is_map_kind (m : mkind) : bool := match m with MCatalog => false | _ => true end.

Lemma inU_map : forall M m ks vs p, is_map_kind m = true ->
  inU M (VMapping m ks vs) = true -> In p (zipkv ks vs) ->
  inU M (fst p) = true /\ inU M (snd p) = true.
Proof.
  intros M m ks vs p Hm H Hp. apply inU_spec in H. destruct H as [W N].
  assert (V : view_of (VMapping m ks vs) = WMap (zipkv ks vs)) by (destruct m; try discriminate; reflexivity).
  destruct (pair_in_elems _ _ _ V Hp) as [P1 P2].
  pose proof (elems_nest _ _ P1) as N1. pose proof (elems_nest _ _ P2) as N2. rewrite V in N1, N2. simpl vstep in N1, N2.
  unfold inU. rewrite (elems_wf0 _ _ W P1), (elems_wf0 _ _ W P2). simpl.
  split; apply Nat.leb_le; lia.
Qed.

Theorem rank_map_shape : forall M m ks vs ks' vs', is_map_kind m = true ->
  inU M (VMapping m ks vs) = true -> inU M (VMapping m ks' vs') = true ->
  rank0 M (VMapping m ks vs) (VMapping m ks' vs') =
  R (lex (pairr (rk0 M)) (sortk (zipkv ks vs)) (sortk (zipkv ks' vs'))).
Proof.
  intros M m ks vs ks' vs' Hm Ha Hb. rewrite rank0_prank by auto.
  pose proof (inU_spec _ _ Ha) as [Wa _]. pose proof (inU_spec _ _ Hb) as [Wb _].
  rewrite prank_tags2 by auto.
  replace (tyrank (VMapping m ks vs) ?= tyrank (VMapping m ks' vs'))%Z with Eq
    by (symmetry; apply Z.compare_eq_iff; destruct m; reflexivity).
  assert (V : forall k v, view_of (VMapping m k v) = WMap (zipkv k v)) by (intros; destruct m; try discriminate; reflexivity).
  unfold vtag, psame2. rewrite !V. simpl. f_equal. apply lex_ext2.
  intros p q Hp Hq. unfold sortk in Hp, Hq. apply sorted_in in Hp, Hq.
  destruct (inU_map _ _ _ _ _ Hm Ha Hp), (inU_map _ _ _ _ _ Hm Hb Hq).
  unfold pairr. rewrite !rk0_prank; auto.
Qed.

(* e. the rank of a Go map / Map against anything does not depend on the order in which its
   associations are listed (keys pairwise different under the ranking) *)
Theorem rank_map_order_free : forall M m ks vs ks' vs' c, is_map_kind m = true ->
  kdistinctb ks = true -> Permutation (zipkv ks vs) (zipkv ks' vs') ->
  inU M (VMapping m ks vs) = true -> inU M (VMapping m ks' vs') = true -> inU M c = true ->
  rank0 M (VMapping m ks vs) c = rank0 M (VMapping m ks' vs') c /\
  rank0 M c (VMapping m ks vs) = rank0 M c (VMapping m ks' vs').
Proof.
  intros M m ks vs ks' vs' c Hm Hd HP Ha Hb Hc.
  apply rank_congr; auto.
  rewrite rank_map_shape by auto. rewrite <- (sortk_perm ks vs ks' vs') by auto. f_equal.
  apply lex_refl. intros p Hp. unfold sortk in Hp. apply sorted_in in Hp.
  destruct (inU_map _ _ _ _ _ Hm Ha Hp). unfold pairr. rewrite !rk0_refl; auto.
Qed.

(* k. calls are independent: the results of a sequence of calls on one collator are the
   results of the same calls made alone (every public call starts at depth 0) *)
Definition rank_calls (M : nat) (cs : list (val * val)) : list (res comparison) :=
  map (fun c => rank0 M (fst c) (snd c)) cs.
Theorem rank_calls_independent : forall M before c after,
  nth (length before) (rank_calls M (before ++ c :: after)) OutOfFuel = rank0 M (fst c) (snd c).
Proof.
  intros. unfold rank_calls. rewrite map_app. rewrite app_nth2; rewrite map_length; auto.
  rewrite Nat.sub_diag. reflexivity.
Qed.
