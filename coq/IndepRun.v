(* IndepRun.v — correspondence for C19: the verdict of the footprint table on the observed
   concurrent programs.  A case is the list of the goroutines' operation descriptors plus what
   was observed: [ic_equal] every goroutine obtained, in every repetition, the results of the
   sequential execution; [ic_race] the race detector reported something; [ic_classes] every
   generic accessor returned the one class of its type parameter to every goroutine;
   [ic_expect] what the generator intended (true: instances disjoint or shared read-only).
   Codes: 1 race although the table says no racy conflict; 2 results differ although ...;
   3 both; 4 two classes for one type although the registries are locked; 5 the generator
   meant the program to be conflict-free but the table sees a racy conflict (table too
   coarse / generator wrong); 6 the generator shared an instance on purpose but the table
   sees no conflict (table misses a footprint).  No proofs. *)
From Verif Require Import Base Params Indep.

Record icase := IC {
  ic_ops : list opdesc;
  ic_expect : bool;
  ic_equal : bool;
  ic_race : bool;
  ic_classes : bool
}.

Fixpoint any_pair {A} (p : A -> A -> bool) (l : list A) : bool :=
  match l with
  | [] => false
  | x :: r => existsb (p x) r || any_pair p r
  end.

Definition table_racy (ops : list opdesc) : bool := any_pair (racy_conflict current_facts) ops.
Definition table_conflict (ops : list opdesc) : bool := any_pair (conflict current_facts) ops.

Definition case_code (c : icase) : nat :=
  if negb (ic_classes c) && f_registries_locked current_facts then 4
  else if table_racy (ic_ops c) then (if ic_expect c then 5 else 0)
  else if negb (ic_expect c) then 6
  else match ic_race c, ic_equal c with
       | true, true => 1
       | false, false => 2
       | true, false => 3
       | false, true => 0
       end.

Fixpoint imismatches_from (n : nat) (cases : list icase) : list (nat * nat) :=
  match cases with
  | [] => []
  | c :: t => match case_code c with
              | O => imismatches_from (S n) t
              | k => (n, k) :: imismatches_from (S n) t
              end
  end.
Definition imismatches (cases : list icase) : list (nat * nat) := imismatches_from 0 cases.

(* for ./check explain: the facts, the table's two verdicts, the footprints, the code *)
Definition case_report (c : icase) :=
  (current_facts, table_racy (ic_ops c), table_conflict (ic_ops c),
   map (fun d => (insts d, fp_of current_facts d)) (ic_ops c), case_code c).
