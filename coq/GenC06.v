(* GenC06.v — the class functions of v4/collection/queue.go, REGENERATED on every run by
   tools/gopipes (GenPipes.v), are the programs the C05/C06 theorems are about:
   - the constructors compute the capacity max(default, N) (default for a requested capacity < 1)
     and then add the N values in order: the machine PipeSem.pstep that runs the regenerated
     MakeFromSequence over the regenerated queue methods is ConcLive.ctor_config, for EVERY N and
     every default >= 1;
   - the helper goroutines of Fork, Split and Join issue, for every sequence of RemoveHead results,
     exactly the calls that Conc.continue hands to the loops LFork / LSplit / LJoin, in the same
     order, and end with the close calls and the deferred Done exactly when they do; group.Add(1)
     and verifYield(8) precede the go statement, Done is deferred first in the goroutine;
   - so PipeSem.prun on the shapes of Pipes.v is Conc.run, and the headline theorems of C06.v hold of it.
   Compiled by ./check C05 / C06 after the correspondence run (not part of the common build). *)
From Coq Require Import ZArith List String Bool Arith Lia.
From Verif Require Import Base Params Seq Conc ConcProofs ConcLive Pipes PipesGen PipesProofs PipesTerm
  QueueLang GenQueue QueueSem GenC04 PipeLang GenPipes PipeSem PipeProofs.

Import ListNotations.
Open Scope nat_scope.
Open Scope list_scope.

Definition dflt0 : nat := Z.to_nat queue_default_capacity.

(* c.MakeWithCapacity(n): the channel and the capacity_ field get n, or the default when n < 1 *)
Lemma gen_mk_spec dflt n : gen_mk dflt n = Some (if n <? 1 then dflt else n, if n <? 1 then dflt else n).
Proof. unfold gen_mk. cbn -[Nat.ltb]. destruct (n <? 1); reflexivity. Qed.

Definition at_while (h : hstate) : bool := match h_k h with KS (PWhile _ _) :: _ => true | _ => false end.
Fixpoint run_until (stop : hstate -> bool) (dflt fuel : nat) (h : hstate) : hstate :=
  match fuel with
  | O => h
  | S f => if stop h then h else match hstep dflt (gen_mk dflt) h with HLocal h' => run_until stop dflt f h' | _ => h end
  end.


(* ================= constructors ================= *)
Definition ctor_K : list kitem := Eval cbv in h_k (run_until at_while 1 16 (ctor_start [])).

(* MakeFromSequence at the head of its loop over the initial values: s values added so far *)
Definition ctor_L (req cap n : nat) (vs : list Z) (s : nat) : hstate :=
  {| h_k := ctor_K;
     h_env := [("values1"%string, VVals vs); ("num1"%string, VNum req); ("num2"%string, VNum n);
               ("queue1"%string, VQ (Some 0)); ("iter1"%string, VIterV {| it_vals := vs; it_slot := s |})];
     h_defer := 0; h_qs := [(cap, cap)]; h_wg := 0; h_log := []; h_go := None; h_pending := None; h_ret := None |}.

Lemma max_cases dflt n : 1 <= dflt ->
  (if (if dflt <? n then n else dflt) <? 1 then dflt else (if dflt <? n then n else dflt)) = Nat.max dflt n.
Proof.
  intros H. destruct (Nat.ltb_spec dflt n).
  - destruct (Nat.ltb_spec n 1); lia.
  - destruct (Nat.ltb_spec dflt 1); lia.
Qed.

(* the capacity is max(default, N) *)
Lemma gen_ctor_reaches_loop dflt vs : 1 <= dflt ->
  exists n req, n <= 8 /\
  run_local dflt (gen_mk dflt) n (ctor_start vs) = HLocal (ctor_L req (Nat.max dflt (length vs)) (length vs) vs 0).
Proof.
  intros Hd. unfold ctor_start.
  destruct (dflt <? length vs) eqn:E;
    [ exists 6, (length vs) | exists 5, dflt ]; (split; [lia|]);
    rewrite <- (max_cases dflt (length vs) Hd), E;
    repeat (hs; rewrite ?E, ?gen_mk_spec; hsimpl); reflexivity.
Qed.

(* one more value is added / all are added: the constructor returns *)
Lemma gen_ctor_loop_step dflt req cap n vs s : s < length vs ->
  exists m, run_local dflt (gen_mk dflt) 3 (ctor_L req cap n vs s) = HCall (CAdd 0 (nth s vs 0%Z)) m /\
            same_shared (ctor_L req cap n vs s) m = true /\ h_qs m = [(cap, cap)] /\
            shared_eq m (ctor_L req cap n vs (S s)) /\
            run_local dflt (gen_mk dflt) 1 m = HLocal (ctor_L req cap n vs (S s)).
Proof.
  intros Hs. unfold ctor_L, ctor_K. eexists. split; [|split; [|split; [|split]]].
  - hs. apply Nat.ltb_lt in Hs. rewrite Hs. hs. rewrite Hs. hsimpl. hs. reflexivity.
  - reflexivity.
  - reflexivity.
  - split; reflexivity.
  - hs. reflexivity.
Qed.

Lemma gen_ctor_loop_exit dflt req cap n vs s : length vs <= s ->
  exists h, run_local dflt (gen_mk dflt) 3 (ctor_L req cap n vs s) = HExit h /\ h_qs h = [(cap, cap)].
Proof.
  intros Hs. unfold ctor_L, ctor_K. eexists. split.
  - hs. apply Nat.ltb_ge in Hs. rewrite Hs. hs. hs. reflexivity.
  - reflexivity.
Qed.

(* no RemoveHead in a constructor *)
Definition noI : hstate -> loop -> Prop := fun _ _ => False.
Lemma noI_closed dflt : forall w l v ok, noI w l ->
  exists e, Batch dflt (deliver w (RHead v ok)) (fst (continue l v ok)) e /\ End noI e (snd (continue l v ok)).
Proof. intros w l v ok []. Qed.

Lemma skipn_nth_cons {A} s (l : list A) d : s < length l -> skipn s l = nth s l d :: skipn (S s) l.
Proof.
  revert s; induction l as [|a l IH]; intros [|s] H; simpl in *; try lia; auto. apply IH; lia.
Qed.

(* from the loop head the constructor adds the remaining values in order and returns *)
Lemma gen_ctor_batch dflt req cap n vs : forall d s, length vs - s = d -> s <= length vs ->
  BatchF dflt 3 (ctor_L req cap n vs s) (map (CAdd 0) (skipn s vs)) BExit.
Proof.
  induction d as [|d IH]; intros s Hd Hs.
  - destruct (gen_ctor_loop_exit dflt req cap n vs s) as (h & H & _); [lia|].
    rewrite skipn_all2 by lia. eapply BF_exit; exact H.
  - destruct (gen_ctor_loop_step dflt req cap n vs s) as (m & H1 & H2 & _ & H3 & H4); [lia|].
    rewrite (skipn_nth_cons s vs 0%Z) by lia. cbn [map].
    eapply BF_call; [exact H1|reflexivity|exact H2|].
    apply (BatchF_Batch dflt 4); [unfold local_fuel; lia|].
    apply (BatchF_skip dflt 1 3 m _ _ _ H4 H3). apply IH; lia.
Qed.

Lemma nth_single_none {A} t (x : option A) : nth (S t) [x] None = None.
Proof. destruct t; reflexivity. Qed.

(* the regenerated constructor, loaded, stands in the simulation relation with ctor_config (max default N) *)
Theorem gen_ctor_loaded dflt vs : 1 <= dflt ->
  exists p, pctor_config dflt vs = Some p /\ gqueues (pg p) = [mkq (Nat.max dflt (length vs))] /\
            PR dflt noI p (gload (ctor_config (Nat.max dflt (length vs)) vs)).
Proof.
  intros Hd. destruct (gen_ctor_reaches_loop dflt vs Hd) as (n & req & Hn & Hreach).
  set (cap := Nat.max dflt (length vs)) in *. unfold pctor_config.
  destruct vs as [|v vs'].
  - destruct (gen_ctor_loop_exit dflt req cap 0 [] 0) as (h & H & Hq); [simpl; lia|].
    rewrite (next_call_after dflt n 3 _ _ (HExit h) Hreach H) by (simpl; auto; unfold local_fuel; lia).
    eexists. split; [reflexivity|]. rewrite Hq. split; [reflexivity|].
    unfold PR; cbn. repeat split; auto. intros [|t]; [reflexivity|]. destruct t; reflexivity.
  - destruct (gen_ctor_loop_step dflt req cap (length (v :: vs')) (v :: vs') 0) as (m & H1 & H2 & Hq & H3 & H4); [simpl; lia|].
    rewrite (next_call_after dflt n 3 _ _ _ Hreach H1) by (simpl; auto; unfold local_fuel; lia).
    eexists. split; [reflexivity|]. cbn [pg gqueues]. rewrite Hq. split; [reflexivity|].
    unfold PR; cbn [pg ph gload gqueues gwg gthreads ctor_config queues wg threads map length].
    repeat split; auto. intros [|t].
    + cbn [nth Rt ggett gthreads]. split; [reflexivity|]. cbn. exists BExit. split; [|reflexivity].
      apply (BatchF_Batch dflt 4); [unfold local_fuel; lia|].
      apply (BatchF_skip dflt 1 3 m _ _ _ H4 H3).
      apply (gen_ctor_batch dflt req cap _ (v :: vs') (length vs') 1); simpl; lia.
    + rewrite nth_single_none. destruct t; reflexivity.
Qed.

(* MakeFromArray wraps the array and is MakeFromSequence *)
Lemma gen_MakeFromArray_is_MakeFromSequence dflt vs :
  run_local dflt (gen_mk dflt) 2 (ctor_array_start vs) = HLocal (ctor_start vs).
Proof. unfold ctor_array_start, ctor_start. hs. hs. reflexivity. Qed.

(* ================= the regenerated machine and the model ================= *)
Lemma forallb_map {A B} (f : A -> B) (g : B -> bool) l : forallb g (map f l) = forallb (fun x => g (f x)) l.
Proof. induction l; simpl; congruence. Qed.

Lemma Rth_done th g : Rth th g -> gdone g = thread_done th.
Proof.
  destruct 1 as [th Hp | th q rest r Hp Hc | th q v rest Hp Hc | th q rest Hp Hc | th q rest r Hp Hc | th g Hp Hs Hb Hres];
    unfold gdone, thread_done; cbn [gmk g_stuck g_pos g_calls orb]; rewrite ?Hp, ?Hc, ?Hs; try reflexivity.
Qed.

Lemma Rc_done c g : Rc c g -> map gdone (gthreads g) = map thread_done (threads c).
Proof.
  intros (_ & _ & Ht). induction Ht as [|th gth l m Hr Ht IH]; simpl; [reflexivity|].
  rewrite (Rth_done _ _ Hr), IH. reflexivity.
Qed.

Section Machine.
Variable dflt : nat.
Variable I : hstate -> loop -> Prop.
Hypothesis I_closed : forall w l v ok, I w l ->
  exists e, Batch dflt (deliver w (RHead v ok)) (fst (continue l v ok)) e /\ End I e (snd (continue l v ok)).

(* a program of Conc.v whose goroutines are replaced by regenerated code that stands in the relation PR:
   under EVERY schedule the same queues, wait-group counter, per-goroutine results, the same steps
   enabled, the same goroutines finished; never outside the subset / the segment discipline *)
Theorem regenerated_machine_is_the_model p c0 sched :
  Forall (fun th => tph th = PIdle \/ tph th = PStuck) (threads c0) ->
  PR dflt I p (gload c0) ->
  let P := prun dflt p sched in
  let c := run c0 sched in
  gqueues (pg P) = queues c /\ gwg (pg P) = wg c /\
  map g_res (gthreads (pg P)) = map tres (threads c) /\
  Forall (fun th => g_bad th = false) (gthreads (pg P)) /\
  (forall t, pstep dflt P t = None <-> step c t = None) /\
  pfinal P = final c.
Proof.
  intros Hidle HPR P c.
  pose proof (prun_sim dflt I I_closed sched p (gload c0) HPR) as H1. fold P in H1.
  pose proof (run_sim sched c0 (gload c0) (Rc_load c0 Hidle)) as H2. fold c in H2.
  destruct (PR_observables dflt I _ _ H1) as (A1 & B1 & C1 & D1 & _).
  destruct (Rc_observables _ _ H2) as (A2 & B2 & C2 & D2).
  repeat split.
  - congruence.
  - congruence.
  - congruence.
  - rewrite Forall_forall in D2. rewrite Forall_forall. intros th Hin.
    apply (in_map g_bad) in Hin. rewrite D1 in Hin. apply in_map_iff in Hin. destruct Hin as (th' & <- & Hin'). auto.
  - intros Hn. apply (pstep_none_iff dflt I I_closed _ _ t H1) in Hn.
    pose proof (step_sim c _ t H2) as S. rewrite Hn in S. unfold sim in S. destruct (step c t); [contradiction|reflexivity].
  - intros Hn. apply (pstep_none_iff dflt I I_closed _ _ t H1).
    pose proof (step_sim c _ t H2) as S. rewrite Hn in S. unfold sim in S. destruct (gstep _ t); [contradiction|reflexivity].
  - unfold pfinal, final.
    rewrite <- (forallb_map gdone (fun b => b)), <- (forallb_map thread_done (fun b => b)).
    rewrite (PR_map dflt I _ _ gdone H1 gdone_pview), (Rc_done _ _ H2). reflexivity.
Qed.
End Machine.

(* ---- C05: constructors from N values, for every N and every default >= 1 ---- *)
Lemma ctor_idle cap vs : Forall (fun th => tph th = PIdle \/ tph th = PStuck) (threads (ctor_config cap vs)).
Proof. repeat constructor. Qed.

Theorem gen_ctor_is_the_model dflt vs sched : 1 <= dflt ->
  exists p, pctor_config dflt vs = Some p /\
  let cap := Nat.max dflt (length vs) in
  let P := prun dflt p sched in
  let c := run (ctor_config cap vs) sched in
  gqueues (pg p) = [mkq cap] /\
  gqueues (pg P) = queues c /\ gwg (pg P) = wg c /\
  map g_res (gthreads (pg P)) = map tres (threads c) /\
  Forall (fun th => g_bad th = false) (gthreads (pg P)) /\
  (forall t, pstep dflt P t = None <-> step c t = None) /\
  pfinal P = final c.
Proof.
  intros Hd. destruct (gen_ctor_loaded dflt vs Hd) as (p & Hp & Hq & HPR).
  exists p. split; [exact Hp|]. intros cap P c. split; [exact Hq|].
  exact (regenerated_machine_is_the_model dflt noI (noI_closed dflt) p _ sched (ctor_idle _ _) HPR).
Qed.

(* C05_ctor_returns_iff_sized, for the regenerated constructor: its capacity is max(default, N), so that
   "the N AddValue calls all return under some schedule iff N <= capacity" always holds on the right *)
Theorem gen_ctor_returns_iff_sized dflt vs : 1 <= dflt ->
  exists p cap, pctor_config dflt vs = Some p /\ gqueues (pg p) = [mkq cap] /\ cap = Nat.max dflt (length vs) /\
    ((exists sched, pfinal (prun dflt p sched) = true) <-> length vs <= cap) /\ length vs <= cap /\
    (exists sched, pfinal (prun dflt p sched) = true).
Proof.
  intros Hd. destruct (gen_ctor_loaded dflt vs Hd) as (p & Hp & Hq & HPR).
  exists p, (Nat.max dflt (length vs)). repeat split; auto; try lia.
  - destruct (proj2 (ctor_returns_iff (Nat.max dflt (length vs)) vs)) as [sched Hf]; [lia|].
    exists sched.
    destruct (regenerated_machine_is_the_model dflt noI (noI_closed dflt) p _ sched (ctor_idle _ _) HPR) as (_ & _ & _ & _ & _ & F).
    rewrite F. exact Hf.
  - destruct (proj2 (ctor_returns_iff (Nat.max dflt (length vs)) vs)) as [sched Hf]; [lia|].
    exists sched.
    destruct (regenerated_machine_is_the_model dflt noI (noI_closed dflt) p _ sched (ctor_idle _ _) HPR) as (_ & _ & _ & _ & _ & F).
    rewrite F. exact Hf.
Qed.

(* with the default capacity read from the source by tools/genparams.py *)
Theorem gen_ctor_default_capacity vs :
  exists p, pctor_config dflt0 vs = Some p /\ gqueues (pg p) = [mkq (Nat.max dflt0 (length vs))] /\
            exists sched, pfinal (prun dflt0 p sched) = true.
Proof.
  assert (Hd : 1 <= dflt0) by (apply Nat.leb_le; reflexivity).
  destruct (gen_ctor_returns_iff_sized dflt0 vs Hd) as (p & cap & A & B & -> & _ & _ & C).
  exists p. auto.
Qed.

(* ================= the helper goroutines of Fork, Split, Join ================= *)
Definition go_body (f : list pstmt) : list pstmt :=
  match find (fun s => match s with PGo _ => true | _ => false end) f with Some (PGo b) => b | _ => [] end.

Definition fan_env (inq : nat) (outs : list nat) (k c i : nat) : env :=
  [("group1"%string, VGroup); ("num1"%string, VNum k); ("queue1"%string, VQ (Some inq));
   ("num2"%string, VNum c); ("queues1"%string, VQs outs); ("num3"%string, VNum i)].

Definition probe_w (body : list pstmt) (e : env) : hstate :=
  match next_call 1 (hstart body e []) with HCall _ w => w | _ => hstart [] [] [] end.
Definition fork_probe : hstate := probe_w (go_body gen_Fork) (fan_env 0 [1; 2] 2 1 2).
Definition fork_KW : list kitem := Eval cbv in h_k fork_probe.
Definition fork_KA : list kitem := Eval cbv in h_k (run_until at_while 1 8 (deliver fork_probe (RHead 5%Z true))).
Definition fork_KC : list kitem := Eval cbv in h_k (run_until at_while 1 8 (deliver fork_probe (RHead 0%Z false))).

Lemma nth_map_some j (l : list nat) : j < length l -> nth j (map Some l) None = Some (nth j l 0).
Proof. revert j; induction l as [|a l IH]; intros [|j] H; simpl in *; try lia; auto. apply IH; lia. Qed.

Ltac ss := unfold same_shared; cbn [h_qs h_wg h_go]; rewrite ?Nat.eqb_refl; reflexivity.

Section Fork.
Variables (dflt inq : nat) (outs : list nat) (k c i : nat) (qs : list (nat * nat)).

Definition fan_state (K : list kitem) (s : nat) (tail : env) (dfr : nat) (pend : option (string * string)) : hstate :=
  {| h_k := K;
     h_env := fan_env inq outs k c i ++ ("iter1"%string, VIterQ {| it_vals := map Some outs; it_slot := s |}) :: tail;
     h_defer := dfr; h_qs := qs; h_wg := 0; h_log := [EvDefer]; h_go := None; h_pending := pend; h_ret := None |}.

Definition fork_W (s : nat) (v : Z) (b : bool) : hstate :=
  fan_state fork_KW s [("head1"%string, VZ v); ("ok1"%string, VBool b)] 1 (Some ("head1"%string, "ok1"%string)).
Definition fork_A (j : nat) (v : Z) : hstate :=
  fan_state fork_KA j [("head1"%string, VZ v); ("ok1"%string, VBool true)] 1 None.
Definition fork_C (j : nat) : hstate := fan_state fork_KC j [] 1 None.

Ltac unf := unfold fork_W, fork_A, fork_C, fan_state, fan_env, fork_KW, fork_KA, fork_KC, deliver.


Lemma gen_Fork_start :
  run_local dflt (gen_mk dflt) 4 (hstart (go_body gen_Fork) (fan_env inq outs k c i) qs) = HCall (CRemoveHead inq) (fork_W 0 0%Z false).
Proof. unfold go_body, fan_env. cbn [gen_Fork find]. do 4 hs. reflexivity. Qed.

Lemma gen_Fork_ok s v b v' :
  run_local dflt (gen_mk dflt) 2 (deliver (fork_W s v b) (RHead v' true)) = HLocal (fork_A 0 v').
Proof. unf. hsimpl. do 2 hs. reflexivity. Qed.

Lemma gen_Fork_add_step j v : j < length outs ->
  exists m, run_local dflt (gen_mk dflt) 3 (fork_A j v) = HCall (CAdd (nth j outs 0) v) m /\
            same_shared (fork_A j v) m = true /\ shared_eq m (fork_A (S j) v) /\
            run_local dflt (gen_mk dflt) 1 m = HLocal (fork_A (S j) v).
Proof.
  intros Hj. unf. eexists. split; [|split; [|split]].
  - hs. rewrite map_length. apply Nat.ltb_lt in Hj. rewrite Hj. hs. rewrite map_length, Hj. hsimpl.
    rewrite nth_map_some by (apply Nat.ltb_lt; exact Hj). hs. reflexivity.
  - ss.
  - split; reflexivity.
  - hs. reflexivity.
Qed.

Lemma gen_Fork_add_exit j v : length outs <= j ->
  run_local dflt (gen_mk dflt) 4 (fork_A j v) = HCall (CRemoveHead inq) (fork_W j 0%Z false).
Proof. intros Hj. unf. hs. rewrite map_length. apply Nat.ltb_ge in Hj. rewrite Hj. do 3 hs. reflexivity. Qed.

Lemma gen_Fork_closed s v b v' :
  run_local dflt (gen_mk dflt) 3 (deliver (fork_W s v b) (RHead v' false)) = HLocal (fork_C 0).
Proof. unf. hsimpl. do 3 hs. reflexivity. Qed.

Lemma gen_Fork_close_step j : j < length outs ->
  exists m, run_local dflt (gen_mk dflt) 3 (fork_C j) = HCall (CClose (nth j outs 0)) m /\
            same_shared (fork_C j) m = true /\ shared_eq m (fork_C (S j)) /\
            run_local dflt (gen_mk dflt) 1 m = HLocal (fork_C (S j)).
Proof.
  intros Hj. unf. eexists. split; [|split; [|split]].
  - hs. rewrite map_length. apply Nat.ltb_lt in Hj. rewrite Hj. hs. rewrite map_length, Hj. hsimpl.
    rewrite nth_map_some by (apply Nat.ltb_lt; exact Hj). hs. reflexivity.
  - ss.
  - split; reflexivity.
  - hs. reflexivity.
Qed.

Lemma gen_Fork_close_exit j : length outs <= j ->
  exists m h', run_local dflt (gen_mk dflt) 2 (fork_C j) = HCall CDone m /\ same_shared (fork_C j) m = true /\
               run_local dflt (gen_mk dflt) 1 m = HExit h'.
Proof.
  intros Hj. unf. eexists. eexists. split; [|split].
  - hs. rewrite map_length. apply Nat.ltb_ge in Hj. rewrite Hj. hs. reflexivity.
  - ss.
  - hs. reflexivity.
Qed.

Lemma gen_Fork_add_batch v : forall d j, length outs - j = d -> j <= length outs ->
  BatchF dflt 4 (fork_A j v) (map (fun o => CAdd o v) (skipn j outs) ++ [CRemoveHead inq]) (BAwait (fork_W (length outs) 0%Z false)).
Proof.
  induction d as [|d IH]; intros j Hd Hj.
  - assert (j = length outs) by lia. subst j. rewrite skipn_all. cbn [map app].
    eapply BF_await; [apply gen_Fork_add_exit; lia | ss].
  - destruct (gen_Fork_add_step j v) as (m & H1 & H2 & H3 & H4); [lia|].
    rewrite (skipn_nth_cons j outs 0) by lia. cbn [map app].
    eapply BF_call; [apply (run_local_le _ _ 3); [exact H1|exact Logic.I|lia] | reflexivity | exact H2 |].
    apply (BatchF_Batch dflt 5); [unfold local_fuel; lia|].
    apply (BatchF_skip dflt 1 4 m _ _ _ H4 H3). apply IH; lia.
Qed.

Lemma gen_Fork_close_batch : forall d j, length outs - j = d -> j <= length outs ->
  BatchF dflt 3 (fork_C j) (map CClose (skipn j outs) ++ [CDone]) BExit.
Proof.
  induction d as [|d IH]; intros j Hd Hj.
  - destruct (gen_Fork_close_exit j) as (m & h' & H1 & H2 & H3); [lia|].
    rewrite skipn_all2 by lia. cbn [map app].
    eapply BF_call; [apply (run_local_le _ _ 2); [exact H1|exact Logic.I|lia] | reflexivity | exact H2 |].
    eapply B_exit. unfold next_call. apply (run_local_le _ _ 1); [exact H3|exact Logic.I|unfold local_fuel; lia].
  - destruct (gen_Fork_close_step j) as (m & H1 & H2 & H3 & H4); [lia|].
    rewrite (skipn_nth_cons j outs 0) by lia. cbn [map app].
    eapply BF_call; [exact H1 | reflexivity | exact H2 |].
    apply (BatchF_Batch dflt 4); [unfold local_fuel; lia|].
    apply (BatchF_skip dflt 1 3 m _ _ _ H4 H3). apply IH; lia.
Qed.

(* a Fork helper that waits for the result of RemoveHead stands for the loop LFork inq outs *)
Definition I_fork (w : hstate) (l : loop) : Prop := exists s v b, w = fork_W s v b /\ l = LFork inq outs.

Lemma gen_Fork_helper_is_LFork w l v ok : I_fork w l ->
  exists e, Batch dflt (deliver w (RHead v ok)) (fst (continue l v ok)) e /\ End I_fork e (snd (continue l v ok)).
Proof.
  intros (s & v0 & b0 & -> & ->). destruct ok; cbn [continue fst snd].
  - exists (BAwait (fork_W (length outs) 0%Z false)). split.
    + apply (BatchF_Batch dflt 6); [unfold local_fuel; lia|].
      apply (BatchF_skip dflt 2 4 _ _ _ _ (gen_Fork_ok s v0 b0 v)); [split; reflexivity|].
      apply (gen_Fork_add_batch v (length outs) 0); lia.
    + exists (length outs), 0%Z, false. auto.
  - exists BExit. split; [|reflexivity].
    apply (BatchF_Batch dflt 6); [unfold local_fuel; lia|].
    apply (BatchF_skip dflt 3 3 _ _ _ _ (gen_Fork_closed s v0 b0 v)); [split; reflexivity|].
    apply (gen_Fork_close_batch (length outs) 0); lia.
Qed.
End Fork.

(* ================= Split ================= *)
Definition split_probe : hstate := probe_w (go_body gen_Split) (fan_env 0 [1; 2] 2 1 2).
Definition split_KW : list kitem := Eval cbv in h_k split_probe.
Definition split_KC : list kitem := Eval cbv in h_k (run_until at_while 1 8 (deliver split_probe (RHead 0%Z false))).

Section Split.
Variables (dflt inq : nat) (outs : list nat) (k c i : nat) (qs : list (nat * nat)).
Notation fan_state := (fan_state inq outs k c i qs) (only parsing).

Definition split_W (s : nat) (v : Z) (b : bool) : hstate :=
  fan_state split_KW s [("head1"%string, VZ v); ("ok1"%string, VBool b)] 1 (Some ("head1"%string, "ok1"%string)).
Definition split_C (j : nat) : hstate := fan_state split_KC j [] 1 None.
Definition wrap (n s : nat) : nat := if S s <? n then S s else 0.

Ltac unf := unfold split_W, split_C, fan_state, fan_env, split_KW, split_KC, deliver, wrap.

Lemma gen_Split_start :
  run_local dflt (gen_mk dflt) 4 (hstart (go_body gen_Split) (fan_env inq outs k c i) qs) = HCall (CRemoveHead inq) (split_W 0 0%Z false).
Proof. unfold go_body, fan_env. cbn [gen_Split find]. do 4 hs. reflexivity. Qed.

(* the value goes to the output whose turn it is; the iterator wraps around after the last one *)
Lemma gen_Split_ok s v b v' : s < length outs ->
  exists m, run_local dflt (gen_mk dflt) 3 (deliver (split_W s v b) (RHead v' true)) = HCall (CAdd (nth s outs 0) v') m /\
            same_shared (deliver (split_W s v b) (RHead v' true)) m = true /\
            run_local dflt (gen_mk dflt) 5 m = HCall (CRemoveHead inq) (split_W (wrap (length outs) s) 0%Z false) /\
            same_shared m (split_W (wrap (length outs) s) 0%Z false) = true.
Proof.
  intros Hs. unf. eexists. split; [|split; [|split]].
  - hsimpl. hs. hs. rewrite map_length. apply Nat.ltb_lt in Hs. rewrite Hs. hsimpl.
    rewrite nth_map_some by (apply Nat.ltb_lt; exact Hs). hs. reflexivity.
  - ss.
  - hs. rewrite map_length. destruct (S s <? length outs); hsimpl; repeat hs; reflexivity.
  - ss.
Qed.

Lemma gen_Split_closed s v b v' :
  run_local dflt (gen_mk dflt) 3 (deliver (split_W s v b) (RHead v' false)) = HLocal (split_C 0).
Proof. unf. hsimpl. do 3 hs. reflexivity. Qed.

Lemma gen_Split_close_step j : j < length outs ->
  exists m, run_local dflt (gen_mk dflt) 3 (split_C j) = HCall (CClose (nth j outs 0)) m /\
            same_shared (split_C j) m = true /\ shared_eq m (split_C (S j)) /\
            run_local dflt (gen_mk dflt) 1 m = HLocal (split_C (S j)).
Proof.
  intros Hj. unf. eexists. split; [|split; [|split]].
  - hs. rewrite map_length. apply Nat.ltb_lt in Hj. rewrite Hj. hs. rewrite map_length, Hj. hsimpl.
    rewrite nth_map_some by (apply Nat.ltb_lt; exact Hj). hs. reflexivity.
  - ss.
  - split; reflexivity.
  - hs. reflexivity.
Qed.

Lemma gen_Split_close_exit j : length outs <= j ->
  exists m h', run_local dflt (gen_mk dflt) 2 (split_C j) = HCall CDone m /\ same_shared (split_C j) m = true /\
               run_local dflt (gen_mk dflt) 1 m = HExit h'.
Proof.
  intros Hj. unf. eexists. eexists. split; [|split].
  - hs. rewrite map_length. apply Nat.ltb_ge in Hj. rewrite Hj. hs. reflexivity.
  - ss.
  - hs. reflexivity.
Qed.

Lemma gen_Split_close_batch : forall d j, length outs - j = d -> j <= length outs ->
  BatchF dflt 3 (split_C j) (map CClose (skipn j outs) ++ [CDone]) BExit.
Proof.
  induction d as [|d IH]; intros j Hd Hj.
  - destruct (gen_Split_close_exit j) as (m & h' & H1 & H2 & H3); [lia|].
    rewrite skipn_all2 by lia. cbn [map app].
    eapply BF_call; [apply (run_local_le _ _ 2); [exact H1|exact Logic.I|lia] | reflexivity | exact H2 |].
    eapply B_exit. unfold next_call. apply (run_local_le _ _ 1); [exact H3|exact Logic.I|unfold local_fuel; lia].
  - destruct (gen_Split_close_step j) as (m & H1 & H2 & H3 & H4); [lia|].
    rewrite (skipn_nth_cons j outs 0) by lia. cbn [map app].
    eapply BF_call; [exact H1 | reflexivity | exact H2 |].
    apply (BatchF_Batch dflt 4); [unfold local_fuel; lia|].
    apply (BatchF_skip dflt 1 3 m _ _ _ H4 H3). apply IH; lia.
Qed.

(* a Split helper that waits for the result of RemoveHead, its iterator at slot cur, stands for LSplit inq outs cur *)
Definition I_split (w : hstate) (l : loop) : Prop :=
  exists s v b, s < length outs /\ w = split_W s v b /\ l = LSplit inq outs s.

Lemma gen_Split_helper_is_LSplit w l v ok : I_split w l ->
  exists e, Batch dflt (deliver w (RHead v ok)) (fst (continue l v ok)) e /\ End I_split e (snd (continue l v ok)).
Proof.
  intros (s & v0 & b0 & Hs & -> & ->). destruct ok; cbn [continue fst snd].
  - destruct (gen_Split_ok s v0 b0 v Hs) as (m & H1 & H2 & H3 & H4).
    exists (BAwait (split_W (wrap (length outs) s) 0%Z false)). split.
    + apply (BatchF_Batch dflt 3); [unfold local_fuel; lia|].
      eapply BF_call; [exact H1 | reflexivity | exact H2 |].
      apply B_await; [|exact H4]. unfold next_call. apply (run_local_le _ _ 5); [exact H3|exact Logic.I|unfold local_fuel; lia].
    + exists (wrap (length outs) s), 0%Z, false. repeat split; auto.
      unfold wrap. destruct (Nat.ltb_spec (S s) (length outs)); lia.
  - exists BExit. split; [|reflexivity].
    apply (BatchF_Batch dflt 6); [unfold local_fuel; lia|].
    apply (BatchF_skip dflt 3 3 _ _ _ _ (gen_Split_closed s v0 b0 v)); [split; reflexivity|].
    apply (gen_Split_close_batch (length outs) 0); lia.
Qed.
End Split.

(* ================= Join ================= *)
Definition join_genv (ins : list nat) (c outq s : nat) : env :=
  [("group1"%string, VGroup); ("queues1"%string, VQs ins); ("inspector1"%string, VInspector);
   ("iter1"%string, VIterQ {| it_vals := map Some ins; it_slot := s |}); ("num1"%string, VNum c);
   ("queue1"%string, VQ (Some outq))].
Definition join_probe : hstate := probe_w (go_body gen_Join) (join_genv [1; 2] 1 3 1).
Definition join_KW : list kitem := Eval cbv in h_k join_probe.

Section Join.
Variables (dflt : nat) (ins : list nat) (c outq : nat) (qs : list (nat * nat)).

Definition join_W (cur : nat) (v : Z) (b : bool) : hstate :=
  {| h_k := join_KW;
     h_env := join_genv ins c outq (S cur) ++
              [("next1"%string, VQ (Some (nth cur ins 0))); ("head1"%string, VZ v); ("ok1"%string, VBool b)];
     h_defer := 1; h_qs := qs; h_wg := 0; h_log := [EvDefer]; h_go := None;
     h_pending := Some ("head1"%string, "ok1"%string); h_ret := None |}.

Ltac unf := unfold join_W, join_genv, join_KW, deliver, wrap.

Lemma gen_Join_start s0 : 0 < length ins ->
  run_local dflt (gen_mk dflt) 5 (hstart (go_body gen_Join) (join_genv ins c outq s0) qs) = HCall (CRemoveHead (nth 0 ins 0)) (join_W 0 0%Z false).
Proof.
  intros H0. unfold go_body, join_genv. cbn [gen_Join find]. do 4 hs.
  rewrite map_length. apply Nat.ltb_lt in H0. rewrite H0. hsimpl.
  rewrite nth_map_some by (apply Nat.ltb_lt; exact H0). hs. reflexivity.
Qed.

(* the value goes to the output; the next value is taken from the next input, round robin *)
Lemma gen_Join_ok cur v b v' : cur < length ins ->
  exists m, run_local dflt (gen_mk dflt) 2 (deliver (join_W cur v b) (RHead v' true)) = HCall (CAdd outq v') m /\
            same_shared (deliver (join_W cur v b) (RHead v' true)) m = true /\
            run_local dflt (gen_mk dflt) 6 m = HCall (CRemoveHead (nth (wrap (length ins) cur) ins 0)) (join_W (wrap (length ins) cur) 0%Z false) /\
            same_shared m (join_W (wrap (length ins) cur) 0%Z false) = true.
Proof.
  intros Hs. unf. eexists. split; [|split; [|split]].
  - hsimpl. hs. hs. reflexivity.
  - ss.
  - hs. rewrite map_length. destruct (S cur <? length ins) eqn:E; hsimpl.
    + do 3 hs. rewrite map_length, E. hsimpl. rewrite nth_map_some by (apply Nat.ltb_lt; exact E). hs. reflexivity.
    + do 4 hs. rewrite map_length. assert (E0 : (0 <? length ins) = true) by (apply Nat.ltb_lt; lia). rewrite E0. hsimpl.
      rewrite nth_map_some by lia. hs. reflexivity.
  - ss.
Qed.

Lemma gen_Join_closed cur v b v' :
  exists m m' h', run_local dflt (gen_mk dflt) 3 (deliver (join_W cur v b) (RHead v' false)) = HCall (CClose outq) m /\
            same_shared (deliver (join_W cur v b) (RHead v' false)) m = true /\
            run_local dflt (gen_mk dflt) 1 m = HCall CDone m' /\ same_shared m m' = true /\
            run_local dflt (gen_mk dflt) 1 m' = HExit h'.
Proof.
  unf. do 3 eexists. split; [|split; [|split; [|split]]].
  - hsimpl. do 3 hs. reflexivity.
  - ss.
  - hs. reflexivity.
  - ss.
  - hs. reflexivity.
Qed.

Definition I_join (w : hstate) (l : loop) : Prop :=
  exists cur v b, cur < length ins /\ w = join_W cur v b /\ l = LJoin ins cur outq.

Lemma gen_Join_helper_is_LJoin w l v ok : I_join w l ->
  exists e, Batch dflt (deliver w (RHead v ok)) (fst (continue l v ok)) e /\ End I_join e (snd (continue l v ok)).
Proof.
  intros (s & v0 & b0 & Hs & -> & ->). destruct ok; cbn [continue fst snd].
  - destruct (gen_Join_ok s v0 b0 v Hs) as (m & H1 & H2 & H3 & H4). fold (wrap (length ins) s).
    exists (BAwait (join_W (wrap (length ins) s) 0%Z false)). split.
    + apply (BatchF_Batch dflt 2); [unfold local_fuel; lia|].
      eapply BF_call; [exact H1 | reflexivity | exact H2 |].
      apply B_await; [|exact H4]. unfold next_call. apply (run_local_le _ _ 6); [exact H3|exact Logic.I|unfold local_fuel; lia].
    + exists (wrap (length ins) s), 0%Z, false. repeat split; auto.
      unfold wrap. destruct (Nat.ltb_spec (S s) (length ins)); lia.
  - destruct (gen_Join_closed s v0 b0 v) as (m & m' & h' & H1 & H2 & H3 & H4 & H5).
    exists BExit. split; [|reflexivity].
    apply (BatchF_Batch dflt 3); [unfold local_fuel; lia|].
    eapply BF_call; [exact H1 | reflexivity | exact H2 |].
    eapply B_call; [unfold next_call; apply (run_local_le _ _ 1); [exact H3|exact Logic.I|unfold local_fuel; lia] | reflexivity | exact H4 |].
    eapply B_exit. unfold next_call. apply (run_local_le _ _ 1); [exact H5|exact Logic.I|unfold local_fuel; lia].
Qed.
End Join.

(* ================= the callers' part of Fork / Split / Join ================= *)
Definition fan_KP (F : list pstmt) : list kitem := h_k (run_until at_while 1 12 (hstart F (fork_env 0 2) [(1, 1)])).
Definition fork_KP : list kitem := Eval cbv in fan_KP gen_Fork.
Definition split_KP : list kitem := Eval cbv in fan_KP gen_Split.

(* at the head of the loop that makes the outputs: j made so far *)
Definition fan_P (K : list kitem) (k cap j : nat) : hstate :=
  {| h_k := K; h_env := fan_env 0 (seq 1 j) k cap j;
     h_defer := 0; h_qs := repeat (cap, cap) (S j); h_wg := 0; h_log := []; h_go := None; h_pending := None; h_ret := None |}.

Definition spawned (F : list pstmt) (h : hstate) (e : env) (outs : pval) (qs : list (nat * nat)) : Prop :=
  h_go h = Some (go_body F, e) /\ h_ret h = Some outs /\ h_qs h = qs /\ h_wg h = 1 /\
  h_log h = [EvAdd 1; EvYield 8%Z; EvGo].

Lemma repeat_snoc {A} (x : A) n : repeat x n ++ [x] = repeat x (S n).
Proof. induction n as [|n IH]; simpl; [reflexivity|]. rewrite IH. reflexivity. Qed.

Lemma fan_reaches_loop dflt k cap F K : F = gen_Fork /\ K = fork_KP \/ F = gen_Split /\ K = split_KP -> 2 <= k ->
  exists n, n <= 8 /\ run_local dflt (gen_mk dflt) n (hstart F (fork_env 0 k) [(cap, cap)]) = HLocal (fan_P K k cap 0).
Proof.
  intros HF Hk. assert (E : (k <? 2) = false) by (apply Nat.ltb_ge; lia).
  destruct HF as [[-> ->]|[-> ->]]; unfold fork_env;
    first [ exists 5 | exists 6 | exists 4 | exists 7 ]; (split; [lia|]);
    hs; rewrite E; hsimpl; repeat hs; reflexivity.
Qed.

Lemma fan_loop_step dflt k cap K j : K = fork_KP \/ K = split_KP -> 1 <= cap -> j < k ->
  exists n, n <= 6 /\ run_local dflt (gen_mk dflt) n (fan_P K k cap j) = HLocal (fan_P K k cap (S j)).
Proof.
  intros HK Hc Hj. assert (E : (j <? k) = true) by (apply Nat.ltb_lt; lia).
  assert (Ec : (cap <? 1) = false) by (apply Nat.ltb_ge; lia).
  assert (R : fan_P K k cap (S j) =
    {| h_k := K; h_env := fan_env 0 (seq 1 j ++ [length (repeat (cap, cap) (S j))]) k cap (S j);
       h_defer := 0; h_qs := repeat (cap, cap) (S j) ++ [(cap, cap)]; h_wg := 0; h_log := []; h_go := None; h_pending := None; h_ret := None |}).
  { unfold fan_P. rewrite repeat_snoc, repeat_length, seq_S. reflexivity. }
  rewrite R. unfold fan_P, fan_env.
  destruct HK as [->| ->]; unfold fork_KP, split_KP;
    first [ exists 4; split; [lia|]; hs; rewrite E; hsimpl; repeat (hs; rewrite ?gen_mk_spec, ?Ec; hsimpl); reflexivity
          | exists 5; split; [lia|]; hs; rewrite E; hsimpl; repeat (hs; rewrite ?gen_mk_spec, ?Ec; hsimpl); reflexivity
          | exists 6; split; [lia|]; hs; rewrite E; hsimpl; repeat (hs; rewrite ?gen_mk_spec, ?Ec; hsimpl); reflexivity ].
Qed.

Lemma fan_loop_exit dflt k cap F K j : F = gen_Fork /\ K = fork_KP \/ F = gen_Split /\ K = split_KP -> k <= j ->
  exists n h, n <= 8 /\ run_local dflt (gen_mk dflt) n (fan_P K k cap j) = HExit h /\
              spawned F h (fan_env 0 (seq 1 j) k cap j) (VQs (seq 1 j)) (repeat (cap, cap) (S j)).
Proof.
  intros HF Hj. assert (E : (j <? k) = false) by (apply Nat.ltb_ge; lia).
  unfold fan_P, fan_env, spawned.
  destruct HF as [[-> ->]|[-> ->]]; unfold fork_KP, split_KP;
    first [ exists 6 | exists 5 | exists 7 ]; eexists; (split; [lia|]);
    (split; [hs; rewrite E; hsimpl; repeat hs; reflexivity | repeat split]).
Qed.

(* Fork / Split called on queue 0 (capacity cap) with size k: k queues of that capacity are made, 1 is added to the wait
   group and verifYield(8) is called BEFORE the go statement; the goroutine gets the k outputs in order *)
Lemma fan_prelude dflt k cap F K : F = gen_Fork /\ K = fork_KP \/ F = gen_Split /\ K = split_KP -> 2 <= k -> 1 <= cap ->
  exists h, call_fn dflt (prelude_fuel k) F (fork_env 0 k) [(cap, cap)] = Some h /\
            spawned F h (fan_env 0 (seq 1 k) k cap k) (VQs (seq 1 k)) (repeat (cap, cap) (S k)).
Proof.
  intros HF Hk Hc.
  assert (HK : K = fork_KP \/ K = split_KP) by (destruct HF as [[_ ->]|[_ ->]]; auto).
  assert (L : forall d j, k - j = d -> j <= k ->
            exists n h, n <= 6 * d + 8 /\ run_local dflt (gen_mk dflt) n (fan_P K k cap j) = HExit h /\
                        spawned F h (fan_env 0 (seq 1 k) k cap k) (VQs (seq 1 k)) (repeat (cap, cap) (S k))).
  { induction d as [|d IH]; intros j Hd Hj.
    - assert (j = k) by lia. subst j. destruct (fan_loop_exit dflt k cap F K k HF) as (n & h & Hn & H & Hs); [lia|].
      exists n, h. repeat split; auto; try lia; apply Hs.
    - destruct (fan_loop_step dflt k cap K j HK Hc) as (n1 & Hn1 & H1); [lia|].
      destruct (IH (S j)) as (n2 & h & Hn2 & H2 & Hs); try lia.
      exists (n1 + n2), h. split; [lia|]. split; [|exact Hs]. rewrite run_local_add, H1. exact H2. }
  destruct (fan_reaches_loop dflt k cap F K HF Hk) as (n0 & Hn0 & H0).
  destruct (L k 0) as (n & h & Hn & H & Hs); try lia.
  exists h. split; [|exact Hs]. unfold call_fn.
  rewrite (run_local_le _ _ (n0 + n) (prelude_fuel k) _ (HExit h)); auto.
  - rewrite run_local_add, H0. exact H.
  - exact Logic.I.
  - unfold prelude_fuel. lia.
Qed.

(* Join called on the queues i0 :: ins: its output gets the capacity of the FIRST input; then as above *)
Lemma join_prelude dflt i0 ins' Q c0 c : nth_error Q i0 = Some (c0, c) -> 1 <= c ->
  exists h, call_fn dflt (prelude_fuel 0) gen_Join (join_env (i0 :: ins')) Q = Some h /\
            spawned gen_Join h (join_genv (i0 :: ins') c (length Q) 1) (VQ (Some (length Q))) (Q ++ [(c, c)]).
Proof.
  intros HQ Hc. assert (Ec : (c <? 1) = false) by (apply Nat.ltb_ge; lia).
  unfold call_fn, join_env, spawned, join_genv.
  assert (X : exists h, run_local dflt (gen_mk dflt) 10 (hstart gen_Join [("group1"%string, VGroup); ("queues1"%string, VQs (i0 :: ins'))] Q) = HExit h /\
     (h_go h = Some (go_body gen_Join, [("group1"%string, VGroup); ("queues1"%string, VQs (i0 :: ins')); ("inspector1"%string, VInspector);
       ("iter1"%string, VIterQ {| it_vals := map Some (i0 :: ins'); it_slot := 1 |}); ("num1"%string, VNum c); ("queue1"%string, VQ (Some (length Q)))]) /\
      h_ret h = Some (VQ (Some (length Q))) /\ h_qs h = Q ++ [(c, c)] /\ h_wg h = 1 /\ h_log h = [EvAdd 1; EvYield 8%Z; EvGo])).
  { eexists. split.
    - do 2 hs. cbn [Nat.eqb]. hsimpl. do 2 hs. cbn [Nat.ltb Nat.leb nth]. hsimpl. rewrite HQ; hsimpl; hs; rewrite gen_mk_spec, Ec; hsimpl; repeat hs; reflexivity.
    - repeat split. }
  destruct X as (h & H & Hs). exists h. split; [|exact Hs].
  rewrite (run_local_le _ _ 10 (prelude_fuel 0) _ (HExit h)); auto. exact Logic.I. unfold prelude_fuel; lia.
Qed.

(* ================= the three shapes of Pipes.v, loaded ================= *)
Lemma map_repeat' {A B} (f : A -> B) x n : map f (repeat x n) = repeat (f x) n.
Proof. induction n as [|n IH]; simpl; [reflexivity|]. now rewrite IH. Qed.

Lemma PR_one dflt I qs w thp thg TL h :
  Rt dflt I (Some h) thp thg ->
  PR dflt I {| pg := {| gqueues := qs; gwg := w; gthreads := thp :: TL |}; ph := [Some h] |}
            {| gqueues := qs; gwg := w; gthreads := thg :: TL |}.
Proof.
  intros HR. unfold PR; cbn. repeat split; auto. intros [|t]; [exact HR|]. cbn. destruct t; reflexivity.
Qed.

Lemma PR_two dflt I qs w thp1 thg1 thp2 thg2 TL h1 h2 :
  Rt dflt I (Some h1) thp1 thg1 -> Rt dflt I (Some h2) thp2 thg2 ->
  PR dflt I {| pg := {| gqueues := qs; gwg := w; gthreads := thp1 :: thp2 :: TL |}; ph := [Some h1; Some h2] |}
            {| gqueues := qs; gwg := w; gthreads := thg1 :: thg2 :: TL |}.
Proof.
  intros HR1 HR2. unfold PR; cbn. repeat split; auto. intros [|[|t]]; [exact HR1|exact HR2|]. cbn. destruct t; reflexivity.
Qed.

Lemma fan_tail vs k :
  map gload_thread (feeder vs :: map consumer (outs k) ++ [waiter]) =
  idle_thread (feeder_calls vs) :: map consumer_thread (seq 1 k) ++ [idle_thread [CWait]].
Proof. unfold outs. cbn [map]. rewrite map_app, map_map. reflexivity. Qed.

Theorem gen_fork_loaded dflt vs k cap : 2 <= k -> 1 <= cap ->
  exists p, pfork_prog dflt vs k cap = Some p /\
            PR dflt (I_fork 0 (seq 1 k) k cap k (repeat (cap, cap) (S k))) p (gload (fork_prog vs k cap)).
Proof.
  intros Hk Hc. destruct (fan_prelude dflt k cap gen_Fork fork_KP (or_introl (conj eq_refl eq_refl)) Hk Hc) as (h & Hcall & Hgo & Hret & Hqs & Hwg & Hlog).
  unfold pfork_prog, pfan_prog. rewrite Hcall, Hgo, Hret, Hqs, Hwg. unfold start_thread.
  rewrite (next_call_after dflt 0 4 _ _ _ eq_refl (gen_Fork_start dflt 0 (seq 1 k) k cap k (repeat (cap, cap) (S k)))) by (simpl; auto; unfold local_fuel; lia).
  eexists. split; [reflexivity|].
  unfold gload, fork_prog. cbn [queues wg threads]. rewrite map_cons, fan_tail, map_repeat'. cbn [fst].
  apply PR_one. split; [reflexivity|]. cbn. split; [reflexivity|]. exists 0, 0%Z, false. auto.
Qed.

Theorem gen_split_loaded dflt vs k cap : 2 <= k -> 1 <= cap ->
  exists p, psplit_prog dflt vs k cap = Some p /\
            PR dflt (I_split 0 (seq 1 k) k cap k (repeat (cap, cap) (S k))) p (gload (split_prog vs k cap)).
Proof.
  intros Hk Hc. destruct (fan_prelude dflt k cap gen_Split split_KP (or_intror (conj eq_refl eq_refl)) Hk Hc) as (h & Hcall & Hgo & Hret & Hqs & Hwg & Hlog).
  unfold psplit_prog, pfan_prog. rewrite Hcall, Hgo, Hret, Hqs, Hwg. unfold start_thread.
  rewrite (next_call_after dflt 0 4 _ _ _ eq_refl (gen_Split_start dflt 0 (seq 1 k) k cap k (repeat (cap, cap) (S k)))) by (simpl; auto; unfold local_fuel; lia).
  eexists. split; [reflexivity|].
  unfold gload, split_prog. cbn [queues wg threads]. rewrite map_cons, fan_tail, map_repeat'. cbn [fst].
  apply PR_one. split; [reflexivity|]. cbn. split; [reflexivity|]. exists 0, 0%Z, false. rewrite seq_length. repeat split; auto. lia.
Qed.

Definition I_splitjoin (k cap : nat) (w : hstate) (l : loop) : Prop :=
  I_split 0 (seq 1 k) k cap k (repeat (cap, cap) (S k)) w l \/
  I_join (seq 1 k) cap (S k) (repeat (cap, cap) (S (S k))) w l.

Lemma End_mono (I J : hstate -> loop -> Prop) e l : (forall w l, I w l -> J w l) -> End I e l -> End J e l.
Proof. intros H. destruct e; simpl; auto. Qed.

Lemma I_splitjoin_closed dflt k cap w l v ok : I_splitjoin k cap w l ->
  exists e, Batch dflt (deliver w (RHead v ok)) (fst (continue l v ok)) e /\ End (I_splitjoin k cap) e (snd (continue l v ok)).
Proof.
  intros [H|H].
  - destruct (gen_Split_helper_is_LSplit dflt _ _ _ _ _ _ w l v ok H) as (e & A & B). exists e. split; [exact A|].
    eapply End_mono; [|exact B]. intros; left; assumption.
  - destruct (gen_Join_helper_is_LJoin dflt _ _ _ _ w l v ok H) as (e & A & B). exists e. split; [exact A|].
    eapply End_mono; [|exact B]. intros; right; assumption.
Qed.

Theorem gen_splitjoin_loaded dflt vs k cap : 2 <= k -> 1 <= cap ->
  exists p, psplitjoin_prog dflt vs k cap = Some p /\ PR dflt (I_splitjoin k cap) p (gload (splitjoin_prog vs k cap)).
Proof.
  intros Hk Hc. destruct (fan_prelude dflt k cap gen_Split split_KP (or_intror (conj eq_refl eq_refl)) Hk Hc) as (h1 & Hcall & Hgo & Hret & Hqs & Hwg & Hlog).
  unfold psplitjoin_prog. rewrite Hcall, Hgo, Hret, Hqs, Hwg.
  destruct k as [|k']; [lia|]. rewrite <- cons_seq.
  destruct (join_prelude dflt 1 (seq 2 k') (repeat (cap, cap) (S (S k'))) cap cap) as (h2 & Hcall2 & Hgo2 & Hret2 & Hqs2 & Hwg2 & Hlog2); [reflexivity|exact Hc|].
  rewrite Hcall2, Hgo2, Hret2, Hqs2, Hwg2. unfold start_thread.
  rewrite cons_seq.
  rewrite (next_call_after dflt 0 4 _ _ _ eq_refl (gen_Split_start dflt 0 (seq 1 (S k')) (S k') cap (S k') (repeat (cap, cap) (S (S k'))))) by (simpl; auto; unfold local_fuel; lia).
  rewrite repeat_length, repeat_snoc.
  rewrite (next_call_after dflt 0 5 _ _ _ eq_refl (gen_Join_start dflt (seq 1 (S k')) cap (S (S k')) (repeat (cap, cap) (S (S (S k')))) 1 ltac:(rewrite seq_length; lia))) by (simpl; auto; unfold local_fuel; lia).
  eexists. split; [reflexivity|].
  unfold gload, splitjoin_prog. cbn [queues wg threads]. cbn [map]. rewrite map_repeat'. cbn [fst].
  apply PR_two.
  - split; [reflexivity|]. cbn. split; [reflexivity|]. left. exists 0, 0%Z, false. rewrite seq_length. repeat split; auto. lia.
  - split; [reflexivity|]. cbn. split; [reflexivity|]. right. exists 0, 0%Z, false. rewrite seq_length. repeat split; auto. lia.
Qed.

(* ================= the headline theorems of C06, for the regenerated code ================= *)
(* what an observer of the regenerated machine sees, in the vocabulary of the model *)
Definition pgetq (P : pconfig) (q : nat) : qstate := ggetq (pg P) q.
Definition pres (P : pconfig) (t : nat) : list result := g_res (ggett (pg P) t).
Definition pquiet (dflt : nat) (P : pconfig) : Prop := forall t, pstep dflt P t = None.
Definition pall_closed_empty (P : pconfig) : Prop :=
  forall q, q < length (gqueues (pg P)) ->
    qclosed (pgetq P q) = true /\ qvals (pgetq P q) = [] /\ qtok (pgetq P q) = 0.

Section Transfer.
Variables (dflt : nat) (P : pconfig) (c : config).
Hypothesis Obs :
  gqueues (pg P) = queues c /\ gwg (pg P) = wg c /\
  map g_res (gthreads (pg P)) = map tres (threads c) /\
  Forall (fun th => g_bad th = false) (gthreads (pg P)) /\
  (forall t, pstep dflt P t = None <-> step c t = None) /\
  pfinal P = final c.

Lemma tr_getq q : pgetq P q = getq c q.
Proof. destruct Obs as (A & _). unfold pgetq, ggetq, getq. now rewrite A. Qed.
Lemma tr_res t : pres P t = tres (gett c t).
Proof.
  destruct Obs as (_ & _ & A & _). unfold pres, ggett, gett.
  change (g_res (nth t (gthreads (pg P)) dummyg)) with ((fun th => g_res th) (nth t (gthreads (pg P)) dummyg)).
  rewrite <- (map_nth g_res), A. change (g_res dummyg) with (tres dummyt). apply map_nth.
Qed.
Lemma tr_quiet : pquiet dflt P -> quiet c.
Proof. destruct Obs as (_ & _ & _ & _ & A & _). intros H t. apply A, H. Qed.
Lemma tr_all_closed : all_closed_empty c -> pall_closed_empty P.
Proof.
  destruct Obs as (A & _). intros H q Hq. rewrite tr_getq. apply H. now rewrite <- A.
Qed.
End Transfer.

(* Fork: every output is a prefix of the input under every schedule; when nothing can move any more every goroutine has
   finished, the wait group is back at zero, every queue is closed and empty, every output carried exactly the input *)
Theorem gen_fork_C06 dflt vs k cap sched : 2 <= k -> 1 <= cap ->
  exists p, pfork_prog dflt vs k cap = Some p /\
  let P := prun dflt p sched in
  (forall j, 1 <= j <= k -> prefix (qapp (pgetq P j)) vs /\ prefix (received (pres P (S j))) vs) /\
  Forall (fun th => g_bad th = false) (gthreads (pg P)) /\
  (pquiet dflt P ->
     pfinal P = true /\ gwg (pg P) = 0 /\ pall_closed_empty P /\
     forall j, 1 <= j <= k ->
       qapp (pgetq P j) = vs /\ received (pres P (S j)) = vs /\ told_closed (pres P (S j))).
Proof.
  intros Hk Hc. destruct (gen_fork_loaded dflt vs k cap Hk Hc) as (p & Hp & HPR). exists p. split; [exact Hp|]. intros P.
  assert (Hidle : Forall (fun th => tph th = PIdle \/ tph th = PStuck) (threads (fork_prog vs k cap))).
  { unfold fork_prog; cbn [threads]. repeat constructor. apply Forall_app. split; [|repeat constructor].
    apply Forall_forall. intros th Hin. apply in_map_iff in Hin. destruct Hin as (q & <- & _). left; reflexivity. }
  pose proof (regenerated_machine_is_the_model dflt _ (gen_Fork_helper_is_LFork dflt 0 (seq 1 k) k cap k _) p _ sched Hidle HPR) as Obs.
  cbv zeta in Obs. fold P in Obs. set (c := run (fork_prog vs k cap) sched) in *.
  split; [|split].
  - intros j Hj. rewrite (tr_getq dflt P c Obs), (tr_res dflt P c Obs). apply fork_safe; lia.
  - apply Obs.
  - intros Hq. apply (tr_quiet dflt P c Obs) in Hq.
    destruct (fork_terminate vs k cap ltac:(lia) Hc) as (_ & _ & T). destruct (T sched Hq) as (F & _ & W & A & J).
    destruct Obs as (O1 & O2 & O3 & O4 & O5 & O6). split; [|split; [|split]].
    + rewrite O6. exact F.
    + rewrite O2. exact W.
    + apply (tr_all_closed dflt P c (conj O1 (conj O2 (conj O3 (conj O4 (conj O5 O6)))))). exact A.
    + intros j Hj. rewrite (tr_getq dflt P c (conj O1 (conj O2 (conj O3 (conj O4 (conj O5 O6)))))), (tr_res dflt P c (conj O1 (conj O2 (conj O3 (conj O4 (conj O5 O6)))))). apply J. exact Hj.
Qed.

(* Split: output j gets the values at positions j-1, j-1+k, ... (round robin); all outputs are closed at the end *)
Theorem gen_split_C06 dflt vs k cap sched : 2 <= k -> 1 <= cap ->
  exists p, psplit_prog dflt vs k cap = Some p /\
  let P := prun dflt p sched in
  (forall j, 1 <= j <= k -> prefix (qapp (pgetq P j)) (rr k (j - 1) vs) /\ prefix (received (pres P (S j))) (rr k (j - 1) vs)) /\
  Forall (fun th => g_bad th = false) (gthreads (pg P)) /\
  (pquiet dflt P ->
     pfinal P = true /\ gwg (pg P) = 0 /\ pall_closed_empty P /\
     forall j, 1 <= j <= k ->
       qapp (pgetq P j) = rr k (j - 1) vs /\ received (pres P (S j)) = rr k (j - 1) vs /\ told_closed (pres P (S j))).
Proof.
  intros Hk Hc. destruct (gen_split_loaded dflt vs k cap Hk Hc) as (p & Hp & HPR). exists p. split; [exact Hp|]. intros P.
  assert (Hidle : Forall (fun th => tph th = PIdle \/ tph th = PStuck) (threads (split_prog vs k cap))).
  { unfold split_prog; cbn [threads]. repeat constructor. apply Forall_app. split; [|repeat constructor].
    apply Forall_forall. intros th Hin. apply in_map_iff in Hin. destruct Hin as (q & <- & _). left; reflexivity. }
  pose proof (regenerated_machine_is_the_model dflt _ (gen_Split_helper_is_LSplit dflt 0 (seq 1 k) k cap k _) p _ sched Hidle HPR) as Obs.
  cbv zeta in Obs. fold P in Obs. set (c := run (split_prog vs k cap) sched) in *.
  split; [|split].
  - intros j Hj. rewrite (tr_getq dflt P c Obs), (tr_res dflt P c Obs). apply split_safe; lia.
  - apply Obs.
  - intros Hq. apply (tr_quiet dflt P c Obs) in Hq.
    destruct (split_terminate vs k cap ltac:(lia) Hc) as (_ & _ & T). destruct (T sched Hq) as (F & _ & W & A & J).
    pose proof Obs as (O1 & O2 & O3 & O4 & O5 & O6). split; [|split; [|split]].
    + rewrite O6. exact F.
    + rewrite O2. exact W.
    + apply (tr_all_closed dflt P c Obs). exact A.
    + intros j Hj. rewrite (tr_getq dflt P c Obs), (tr_res dflt P c Obs). apply J. exact Hj.
Qed.

(* Split then Join is the identity on streams *)
Theorem gen_splitjoin_C06 dflt vs k cap sched : 2 <= k -> 1 <= cap ->
  exists p, psplitjoin_prog dflt vs k cap = Some p /\
  let P := prun dflt p sched in
  (prefix (qapp (pgetq P (S k))) vs /\ prefix (received (pres P 3)) vs) /\
  Forall (fun th => g_bad th = false) (gthreads (pg P)) /\
  (pquiet dflt P ->
     pfinal P = true /\ gwg (pg P) = 0 /\ pall_closed_empty P /\
     qapp (pgetq P (S k)) = vs /\ received (pres P 3) = vs /\ told_closed (pres P 3)).
Proof.
  intros Hk Hc. destruct (gen_splitjoin_loaded dflt vs k cap Hk Hc) as (p & Hp & HPR). exists p. split; [exact Hp|]. intros P.
  assert (Hidle : Forall (fun th => tph th = PIdle \/ tph th = PStuck) (threads (splitjoin_prog vs k cap))).
  { unfold splitjoin_prog; cbn [threads]. repeat constructor. }
  pose proof (regenerated_machine_is_the_model dflt _ (I_splitjoin_closed dflt k cap) p _ sched Hidle HPR) as Obs.
  cbv zeta in Obs. fold P in Obs. set (c := run (splitjoin_prog vs k cap) sched) in *.
  split; [|split].
  - rewrite (tr_getq dflt P c Obs), (tr_res dflt P c Obs). apply splitjoin_safe; lia.
  - apply Obs.
  - intros Hq. apply (tr_quiet dflt P c Obs) in Hq.
    destruct (splitjoin_terminate vs k cap ltac:(lia) Hc) as (_ & _ & T). destruct (T sched Hq) as (F & _ & W & A & J).
    pose proof Obs as (O1 & O2 & O3 & O4 & O5 & O6). split; [|split; [|split]].
    + rewrite O6. exact F.
    + rewrite O2. exact W.
    + apply (tr_all_closed dflt P c Obs). exact A.
    + rewrite (tr_getq dflt P c Obs), (tr_res dflt P c Obs). exact J.
Qed.

(* ---- the wait group is counted before the go statement; Done is deferred first in the goroutine ---- *)
Theorem gen_wait_group_counted_before_go dflt k cap : 2 <= k -> 1 <= cap ->
  (exists h, call_fn dflt (prelude_fuel k) gen_Fork (fork_env 0 k) [(cap, cap)] = Some h /\
             h_wg h = 1 /\ h_log h = [EvAdd 1; EvYield 8%Z; EvGo]) /\
  (exists h, call_fn dflt (prelude_fuel k) gen_Split (fork_env 0 k) [(cap, cap)] = Some h /\
             h_wg h = 1 /\ h_log h = [EvAdd 1; EvYield 8%Z; EvGo]) /\
  (forall i0 ins' Q c0, nth_error Q i0 = Some (c0, cap) ->
     exists h, call_fn dflt (prelude_fuel 0) gen_Join (join_env (i0 :: ins')) Q = Some h /\
               h_wg h = 1 /\ h_log h = [EvAdd 1; EvYield 8%Z; EvGo]) /\
  (exists r1 r2 r3, go_body gen_Fork = PDeferDone :: r1 /\ go_body gen_Split = PDeferDone :: r2 /\ go_body gen_Join = PDeferDone :: r3).
Proof.
  intros Hk Hc. repeat split.
  - destruct (fan_prelude dflt k cap gen_Fork fork_KP (or_introl (conj eq_refl eq_refl)) Hk Hc) as (h & A & _ & _ & _ & B & C). eauto.
  - destruct (fan_prelude dflt k cap gen_Split split_KP (or_intror (conj eq_refl eq_refl)) Hk Hc) as (h & A & _ & _ & _ & B & C). eauto.
  - intros i0 ins' Q c0 HQ. destruct (join_prelude dflt i0 ins' Q c0 cap HQ Hc) as (h & A & _ & _ & _ & B & C). eauto.
  - do 3 eexists. repeat split; reflexivity.
Qed.

(* non-vacuity: the regenerated machine on a concrete pipeline, run to the end *)
Example gen_pipes_example :
  (match psplitjoin_prog dflt0 [10; 11; 12]%Z 2 1 with
   | Some p => let P := prun dflt0 p (complete_sched false (splitjoin_prog [10; 11; 12]%Z 2 1) 300) in
               (pfinal P, gwg (pg P), received (pres P 3), map qclosed (gqueues (pg P)))
   | None => (false, 9, [], [])
   end) = (true, 0, [10; 11; 12]%Z, [true; true; true; true]) /\
  ctor_result dflt0 [1; 2; 3]%Z = Some ([dflt0], [CAdd 0 1%Z; CAdd 0 2%Z; CAdd 0 3%Z]).
Proof. vm_compute. split; reflexivity. Qed.

Print Assumptions gen_ctor_is_the_model.
Print Assumptions gen_ctor_returns_iff_sized.
Print Assumptions gen_ctor_default_capacity.
Print Assumptions gen_MakeFromArray_is_MakeFromSequence.
Print Assumptions gen_Fork_helper_is_LFork.
Print Assumptions gen_Split_helper_is_LSplit.
Print Assumptions gen_Join_helper_is_LJoin.
Print Assumptions gen_fork_C06.
Print Assumptions gen_split_C06.
Print Assumptions gen_splitjoin_C06.
Print Assumptions gen_wait_group_counted_before_go.
