(* GenC06.v — the class functions of v4/collection/queue.go, REGENERATED on every run by
   tools/gopipes (GenPipes.v), are the programs the C05/C06 theorems are about:
   - the constructors compute the capacity max(default, N) (default for a requested capacity < 1)
     and then add the N values in order: the machine PipeSem.pstep that runs the regenerated
     MakeFromSequence over the regenerated queue methods is ConcLive.ctor_config, for EVERY N and
     every default >= 1;
   - the helper goroutines of Fork, Split and Join issue, for every sequence of RemoveHead results,
     exactly the calls that Conc.continue hands to the loops LFork / LSplit / LJoin, in the same
     order, and end with the close calls and the deferred Done exactly when they do; group.Add(1)
     and verifYield(8) precede the go statement, Done is deferred first in the goroutine;
   - so PipeSem.prun on the shapes of Pipes.v is Conc.run, and the headline theorems of C06.v hold of it.
   Compiled by ./check C05 / C06 after the correspondence run (not part of the common build). *)
From Coq Require Import ZArith List String Bool Arith Lia.
From Verif Require Import Base Params Seq Conc ConcProofs ConcLive Pipes PipesGen PipesProofs PipesTerm
  QueueLang GenQueue QueueSem GenC04 PipeLang GenPipes PipeSem PipeProofs.

Import ListNotations.
Open Scope nat_scope.
Open Scope list_scope.

Definition dflt0 : nat := Z.to_nat queue_default_capacity.

(* c.MakeWithCapacity(n): the channel and the capacity_ field get n, or the default when n < 1 *)
Lemma gen_mk_spec dflt n : gen_mk dflt n = Some (if n <? 1 then dflt else n, if n <? 1 then dflt else n).
Proof. unfold gen_mk. cbn -[Nat.ltb]. destruct (n <? 1); reflexivity. Qed.

Definition at_while (h : hstate) : bool := match h_k h with KS (PWhile _ _) :: _ => true | _ => false end.
Fixpoint run_until (stop : hstate -> bool) (dflt fuel : nat) (h : hstate) : hstate :=
  match fuel with
  | O => h
  | S f => if stop h then h else match hstep dflt (gen_mk dflt) h with HLocal h' => run_until stop dflt f h' | _ => h end
  end.


(* ================= constructors ================= *)
Definition ctor_K : list kitem := Eval cbv in h_k (run_until at_while 1 16 (ctor_start [])).
Definition ctor_body : list pstmt := match ctor_K with KS (PWhile _ b) :: _ => b | _ => [] end.

(* MakeFromSequence at the head of its loop over the initial values: s values added so far *)
Definition ctor_L (req cap n : nat) (vs : list Z) (s : nat) : hstate :=
  {| h_k := ctor_K;
     h_env := [("values1"%string, VVals vs); ("num1"%string, VNum req); ("num2"%string, VNum n);
               ("queue1"%string, VQ (Some 0)); ("iter1"%string, VIterV {| it_vals := vs; it_slot := s |})];
     h_defer := 0; h_qs := [(cap, cap)]; h_wg := 0; h_log := []; h_go := None; h_pending := None; h_ret := None |}.

Lemma max_cases dflt n : 1 <= dflt ->
  (if (if dflt <? n then n else dflt) <? 1 then dflt else (if dflt <? n then n else dflt)) = Nat.max dflt n.
Proof.
  intros H. destruct (Nat.ltb_spec dflt n).
  - destruct (Nat.ltb_spec n 1); lia.
  - destruct (Nat.ltb_spec dflt 1); lia.
Qed.

(* the capacity is max(default, N) *)
Lemma gen_ctor_reaches_loop dflt vs : 1 <= dflt ->
  exists n req, n <= 8 /\
  run_local dflt (gen_mk dflt) n (ctor_start vs) = HLocal (ctor_L req (Nat.max dflt (length vs)) (length vs) vs 0).
Proof.
  intros Hd. unfold ctor_start.
  assert (T : forall n, n = 4 \/ n = 5 \/ n = 6 \/ n = 7 \/ n = 8 -> n <= 8) by (intros; lia).
  destruct (dflt <? length vs) eqn:E;
    [ exists 6, (length vs) | exists 5, dflt ]; (split; [lia|]);
    rewrite <- (max_cases dflt (length vs) Hd), E;
    repeat (hs; rewrite ?E, ?gen_mk_spec; hsimpl); reflexivity.
Qed.

(* one more value is added / all are added: the constructor returns *)
Lemma gen_ctor_loop_step dflt req cap n vs s : s < length vs ->
  exists m, run_local dflt (gen_mk dflt) 3 (ctor_L req cap n vs s) = HCall (CAdd 0 (nth s vs 0%Z)) m /\
            same_shared (ctor_L req cap n vs s) m = true /\ h_qs m = [(cap, cap)] /\
            shared_eq m (ctor_L req cap n vs (S s)) /\
            run_local dflt (gen_mk dflt) 1 m = HLocal (ctor_L req cap n vs (S s)).
Proof.
  intros Hs. unfold ctor_L, ctor_K. eexists. split; [|split; [|split; [|split]]].
  - hs. apply Nat.ltb_lt in Hs. rewrite Hs. hs. rewrite Hs. hsimpl. hs. reflexivity.
  - reflexivity.
  - reflexivity.
  - split; reflexivity.
  - hs. reflexivity.
Qed.

Lemma gen_ctor_loop_exit dflt req cap n vs s : length vs <= s ->
  exists h, run_local dflt (gen_mk dflt) 3 (ctor_L req cap n vs s) = HExit h /\ h_qs h = [(cap, cap)].
Proof.
  intros Hs. unfold ctor_L, ctor_K. eexists. split.
  - hs. apply Nat.ltb_ge in Hs. rewrite Hs. hs. hs. reflexivity.
  - reflexivity.
Qed.

(* no RemoveHead in a constructor *)
Definition noI : hstate -> loop -> Prop := fun _ _ => False.
Lemma noI_closed dflt : forall w l v ok, noI w l ->
  exists e, Batch dflt (deliver w (RHead v ok)) (fst (continue l v ok)) e /\ End noI e (snd (continue l v ok)).
Proof. intros w l v ok []. Qed.

Lemma skipn_nth_cons {A} s (l : list A) d : s < length l -> skipn s l = nth s l d :: skipn (S s) l.
Proof.
  revert s; induction l as [|a l IH]; intros [|s] H; simpl in *; try lia; auto. apply IH; lia.
Qed.

(* from the loop head the constructor adds the remaining values in order and returns *)
Lemma gen_ctor_batch dflt req cap n vs : forall d s, length vs - s = d -> s <= length vs ->
  BatchF dflt 3 (ctor_L req cap n vs s) (map (CAdd 0) (skipn s vs)) BExit.
Proof.
  induction d as [|d IH]; intros s Hd Hs.
  - destruct (gen_ctor_loop_exit dflt req cap n vs s) as (h & H & _); [lia|].
    rewrite skipn_all2 by lia. eapply BF_exit; exact H.
  - destruct (gen_ctor_loop_step dflt req cap n vs s) as (m & H1 & H2 & _ & H3 & H4); [lia|].
    rewrite (skipn_nth_cons s vs 0%Z) by lia. cbn [map].
    eapply BF_call; [exact H1|reflexivity|exact H2|].
    apply (BatchF_Batch dflt 4); [unfold local_fuel; lia|].
    apply (BatchF_skip dflt 1 3 m _ _ _ H4 H3). apply IH; lia.
Qed.

Lemma nth_single_none {A} t (x : option A) : nth (S t) [x] None = None.
Proof. destruct t; reflexivity. Qed.

(* the regenerated constructor, loaded, stands in the simulation relation with ctor_config (max default N) *)
Theorem gen_ctor_loaded dflt vs : 1 <= dflt ->
  exists p, pctor_config dflt vs = Some p /\ gqueues (pg p) = [mkq (Nat.max dflt (length vs))] /\
            PR dflt noI p (gload (ctor_config (Nat.max dflt (length vs)) vs)).
Proof.
  intros Hd. destruct (gen_ctor_reaches_loop dflt vs Hd) as (n & req & Hn & Hreach).
  set (cap := Nat.max dflt (length vs)) in *. unfold pctor_config.
  destruct vs as [|v vs'].
  - destruct (gen_ctor_loop_exit dflt req cap 0 [] 0) as (h & H & Hq); [simpl; lia|].
    rewrite (next_call_after dflt n 3 _ _ (HExit h) Hreach H) by (simpl; auto; unfold local_fuel; lia).
    eexists. split; [reflexivity|]. rewrite Hq. split; [reflexivity|].
    unfold PR; cbn. repeat split; auto. intros [|t]; [reflexivity|]. destruct t; reflexivity.
  - destruct (gen_ctor_loop_step dflt req cap (length (v :: vs')) (v :: vs') 0) as (m & H1 & H2 & Hq & H3 & H4); [simpl; lia|].
    rewrite (next_call_after dflt n 3 _ _ _ Hreach H1) by (simpl; auto; unfold local_fuel; lia).
    eexists. split; [reflexivity|]. cbn [pg gqueues]. rewrite Hq. split; [reflexivity|].
    unfold PR; cbn [pg ph gload gqueues gwg gthreads ctor_config queues wg threads map length].
    repeat split; auto. intros [|t].
    + cbn [nth Rt ggett gthreads]. split; [reflexivity|]. cbn. exists BExit. split; [|reflexivity].
      apply (BatchF_Batch dflt 4); [unfold local_fuel; lia|].
      apply (BatchF_skip dflt 1 3 m _ _ _ H4 H3).
      apply (gen_ctor_batch dflt req cap _ (v :: vs') (length vs') 1); simpl; lia.
    + rewrite nth_single_none. destruct t; reflexivity.
Qed.

(* MakeFromArray wraps the array and is MakeFromSequence *)
Lemma gen_MakeFromArray_is_MakeFromSequence dflt vs :
  run_local dflt (gen_mk dflt) 2 (ctor_array_start vs) = HLocal (ctor_start vs).
Proof. unfold ctor_array_start, ctor_start. hs. hs. reflexivity. Qed.

(* ================= the regenerated machine and the model ================= *)
Lemma forallb_map {A B} (f : A -> B) (g : B -> bool) l : forallb g (map f l) = forallb (fun x => g (f x)) l.
Proof. induction l; simpl; congruence. Qed.

Lemma Rth_done th g : Rth th g -> gdone g = thread_done th.
Proof.
  destruct 1 as [th Hp | th q rest r Hp Hc | th q v rest Hp Hc | th q rest Hp Hc | th q rest r Hp Hc | th g Hp Hs Hb Hres];
    unfold gdone, thread_done; cbn [gmk g_stuck g_pos g_calls orb]; rewrite ?Hp, ?Hc, ?Hs; try reflexivity.
Qed.

Lemma Rc_done c g : Rc c g -> map gdone (gthreads g) = map thread_done (threads c).
Proof.
  intros (_ & _ & Ht). induction Ht as [|th gth l m Hr Ht IH]; simpl; [reflexivity|].
  rewrite (Rth_done _ _ Hr), IH. reflexivity.
Qed.

Section Machine.
Variable dflt : nat.
Variable I : hstate -> loop -> Prop.
Hypothesis I_closed : forall w l v ok, I w l ->
  exists e, Batch dflt (deliver w (RHead v ok)) (fst (continue l v ok)) e /\ End I e (snd (continue l v ok)).

(* a program of Conc.v whose goroutines are replaced by regenerated code that stands in the relation PR:
   under EVERY schedule the same queues, wait-group counter, per-goroutine results, the same steps
   enabled, the same goroutines finished; never outside the subset / the segment discipline *)
Theorem regenerated_machine_is_the_model p c0 sched :
  Forall (fun th => tph th = PIdle \/ tph th = PStuck) (threads c0) ->
  PR dflt I p (gload c0) ->
  let P := prun dflt p sched in
  let c := run c0 sched in
  gqueues (pg P) = queues c /\ gwg (pg P) = wg c /\
  map g_res (gthreads (pg P)) = map tres (threads c) /\
  Forall (fun th => g_bad th = false) (gthreads (pg P)) /\
  (forall t, pstep dflt P t = None <-> step c t = None) /\
  pfinal P = final c.
Proof.
  intros Hidle HPR P c.
  pose proof (prun_sim dflt I I_closed sched p (gload c0) HPR) as H1. fold P in H1.
  pose proof (run_sim sched c0 (gload c0) (Rc_load c0 Hidle)) as H2. fold c in H2.
  destruct (PR_observables dflt I _ _ H1) as (A1 & B1 & C1 & D1 & _).
  destruct (Rc_observables _ _ H2) as (A2 & B2 & C2 & D2).
  repeat split.
  - congruence.
  - congruence.
  - congruence.
  - rewrite Forall_forall in D2. rewrite Forall_forall. intros th Hin.
    apply (in_map g_bad) in Hin. rewrite D1 in Hin. apply in_map_iff in Hin. destruct Hin as (th' & <- & Hin'). auto.
  - intros Hn. apply (pstep_none_iff dflt I I_closed _ _ t H1) in Hn.
    pose proof (step_sim c _ t H2) as S. rewrite Hn in S. unfold sim in S. destruct (step c t); [contradiction|reflexivity].
  - intros Hn. apply (pstep_none_iff dflt I I_closed _ _ t H1).
    pose proof (step_sim c _ t H2) as S. rewrite Hn in S. unfold sim in S. destruct (gstep _ t); [contradiction|reflexivity].
  - unfold pfinal, final.
    rewrite <- (forallb_map gdone (fun b => b)), <- (forallb_map thread_done (fun b => b)).
    rewrite (PR_map dflt I _ _ gdone H1 gdone_pview), (Rc_done _ _ H2). reflexivity.
Qed.
End Machine.

(* ---- C05: constructors from N values, for every N and every default >= 1 ---- *)
Lemma ctor_idle cap vs : Forall (fun th => tph th = PIdle \/ tph th = PStuck) (threads (ctor_config cap vs)).
Proof. repeat constructor. Qed.

Theorem gen_ctor_is_the_model dflt vs sched : 1 <= dflt ->
  exists p, pctor_config dflt vs = Some p /\
  let cap := Nat.max dflt (length vs) in
  let P := prun dflt p sched in
  let c := run (ctor_config cap vs) sched in
  gqueues (pg p) = [mkq cap] /\
  gqueues (pg P) = queues c /\ gwg (pg P) = wg c /\
  map g_res (gthreads (pg P)) = map tres (threads c) /\
  Forall (fun th => g_bad th = false) (gthreads (pg P)) /\
  (forall t, pstep dflt P t = None <-> step c t = None) /\
  pfinal P = final c.
Proof.
  intros Hd. destruct (gen_ctor_loaded dflt vs Hd) as (p & Hp & Hq & HPR).
  exists p. split; [exact Hp|]. intros cap P c. split; [exact Hq|].
  exact (regenerated_machine_is_the_model dflt noI (noI_closed dflt) p _ sched (ctor_idle _ _) HPR).
Qed.

(* C05_ctor_returns_iff_sized, for the regenerated constructor: its capacity is max(default, N), so that
   "the N AddValue calls all return under some schedule iff N <= capacity" always holds on the right *)
Theorem gen_ctor_returns_iff_sized dflt vs : 1 <= dflt ->
  exists p cap, pctor_config dflt vs = Some p /\ gqueues (pg p) = [mkq cap] /\ cap = Nat.max dflt (length vs) /\
    ((exists sched, pfinal (prun dflt p sched) = true) <-> length vs <= cap) /\ length vs <= cap /\
    (exists sched, pfinal (prun dflt p sched) = true).
Proof.
  intros Hd. destruct (gen_ctor_loaded dflt vs Hd) as (p & Hp & Hq & HPR).
  exists p, (Nat.max dflt (length vs)). repeat split; auto; try lia.
  - destruct (proj2 (ctor_returns_iff (Nat.max dflt (length vs)) vs)) as [sched Hf]; [lia|].
    exists sched.
    destruct (regenerated_machine_is_the_model dflt noI (noI_closed dflt) p _ sched (ctor_idle _ _) HPR) as (_ & _ & _ & _ & _ & F).
    rewrite F. exact Hf.
  - destruct (proj2 (ctor_returns_iff (Nat.max dflt (length vs)) vs)) as [sched Hf]; [lia|].
    exists sched.
    destruct (regenerated_machine_is_the_model dflt noI (noI_closed dflt) p _ sched (ctor_idle _ _) HPR) as (_ & _ & _ & _ & _ & F).
    rewrite F. exact Hf.
Qed.

(* with the default capacity read from the source by tools/genparams.py *)
Theorem gen_ctor_default_capacity vs :
  exists p, pctor_config dflt0 vs = Some p /\ gqueues (pg p) = [mkq (Nat.max dflt0 (length vs))] /\
            exists sched, pfinal (prun dflt0 p sched) = true.
Proof.
  assert (Hd : 1 <= dflt0) by (apply Nat.leb_le; reflexivity).
  destruct (gen_ctor_returns_iff_sized dflt0 vs Hd) as (p & cap & A & B & -> & _ & _ & C).
  exists p. auto.
Qed.
