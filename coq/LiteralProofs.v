(* LiteralProofs.v — meaning of the integer and hexadecimal literals (positional value,
   exact 64-bit range) and of every escape form, for Literals.v. *)
From Coq Require Import String.
From Verif Require Import Base Params Value Lexer Literals.
Close Scope string_scope.
Open Scope Z_scope.

Lemma dec_val_nonneg ds : forall acc, 0 <= acc -> all_digits ds = true -> 0 <= dec_val acc ds.
Proof.
  induction ds as [|c t IH]; intros acc Ha Hd; simpl; auto.
  simpl in Hd. apply andb_true_iff in Hd. destruct Hd as (Hc & Ht).
  apply IH; auto. unfold is_digit in Hc. lia.
Qed.

Lemma digit_not_sign c : is_digit c = true -> is_sign c = false /\ (c =? 45) = false.
Proof. unfold is_digit, is_sign. intro H. split; lia. Qed.

(* an unsigned decimal text denotes its positional value, or nothing when that exceeds int64 *)
Lemma parse_int_unsigned ds :
  ds <> [] -> all_digits ds = true ->
  parse_int ds = if dec_val 0 ds <=? max_int64 then Some (dec_val 0 ds) else None.
Proof.
  intros Hne Hd. unfold parse_int. destruct ds as [|c t]; [congruence|].
  pose proof Hd as Hd'. simpl in Hd'. apply andb_true_iff in Hd'. destruct Hd' as (Hc & _).
  destruct (digit_not_sign c Hc) as (S1 & S2). rewrite S1, S2, Hd.
  pose proof (dec_val_nonneg (c :: t) 0 ltac:(lia) Hd) as Hn.
  destruct (dec_val 0 (c :: t) <=? max_int64) eqn:E.
  - replace (min_int64 <=? dec_val 0 (c :: t)) with true; [reflexivity|]. unfold min_int64. lia.
  - rewrite andb_false_r. reflexivity.
Qed.

(* "+" digits *)
Lemma parse_int_plus ds :
  ds <> [] -> all_digits ds = true ->
  parse_int (43 :: ds) = if dec_val 0 ds <=? max_int64 then Some (dec_val 0 ds) else None.
Proof.
  intros Hne Hd. unfold parse_int. simpl. destruct ds as [|c t]; [congruence|]. rewrite Hd.
  pose proof (dec_val_nonneg (c :: t) 0 ltac:(lia) Hd) as Hn.
  destruct (dec_val 0 (c :: t) <=? max_int64) eqn:E.
  - replace (min_int64 <=? dec_val 0 (c :: t)) with true; [reflexivity|]. unfold min_int64. lia.
  - rewrite andb_false_r. reflexivity.
Qed.

(* "-" digits: the magnitude may be 2^63 *)
Lemma parse_int_minus ds :
  ds <> [] -> all_digits ds = true ->
  parse_int (45 :: ds) = if dec_val 0 ds <=? 9223372036854775808 then Some (- dec_val 0 ds) else None.
Proof.
  intros Hne Hd. unfold parse_int. simpl. destruct ds as [|c t]; [congruence|]. rewrite Hd.
  pose proof (dec_val_nonneg (c :: t) 0 ltac:(lia) Hd) as Hn.
  unfold min_int64, max_int64.
  destruct (Z.leb_spec (dec_val 0 (c :: t)) 9223372036854775808);
  destruct (Z.leb_spec (-9223372036854775808) (- dec_val 0 (c :: t)));
  destruct (Z.leb_spec (- dec_val 0 (c :: t)) 9223372036854775807); simpl; try reflexivity; lia.
Qed.

(* 0x digits: the positional value in base 16, or nothing when it needs more than 64 bits *)
Lemma parse_hex_meaning ds v :
  ds <> [] -> hex_val 0 ds = Some v ->
  parse_hex (48 :: 120 :: ds) = if v <? two64 then Some v else None.
Proof.
  intros Hne Hv. unfold parse_hex. change (skipn 2 (48 :: 120 :: ds)) with ds.
  destruct ds; [congruence|]. rewrite Hv. reflexivity.
Qed.

(* a parsed integer is always inside int64, a parsed hexadecimal inside uint64 *)
Lemma parse_int_range text v : parse_int text = Some v -> min_int64 <= v <= max_int64.
Proof.
  unfold parse_int. destruct (match text with [] => [] | c :: t => if is_sign c then t else text end); [discriminate|].
  destruct (all_digits (z :: l)); [|discriminate].
  match goal with |- (if ?c then _ else _) = _ -> _ => destruct c eqn:E end; [|discriminate].
  intro H. inversion H. subst. apply andb_true_iff in E. destruct E as (E1 & E2).
  apply Z.leb_le in E1. apply Z.leb_le in E2. split; assumption.
Qed.

Lemma parse_hex_range text v : parse_hex text = Some v -> v < two64.
Proof.
  unfold parse_hex. destruct (skipn 2 text); [discriminate|].
  destruct (hex_val 0 (z :: l)); [|discriminate].
  destruct (z0 <? two64) eqn:E; [|discriminate]. intro H. inversion H. subst. apply Z.ltb_lt. exact E.
Qed.

(* ---------- every escape form, by computation ---------- *)
Local Open Scope string_scope.
Example esc_simple : string_value (zs """\a\b\f\n\r\t\v\\\""""") = Some [7; 8; 12; 10; 13; 9; 11; 92; 34].
Proof. reflexivity. Qed.
Example esc_hex_byte : string_value (zs """\x41\xff""") = Some [65; 255].
Proof. reflexivity. Qed.
Example esc_u4 : string_value (zs """\u263a""") = Some [226; 152; 186].
Proof. reflexivity. Qed.
Example esc_u8 : string_value (zs """\U0001f600""") = Some [240; 159; 152; 128].
Proof. reflexivity. Qed.
Example esc_plain_unicode : string_value ([34; 9786; 32; 233; 34])%Z = Some [226; 152; 186; 32; 195; 169].
Proof. reflexivity. Qed.
Example esc_surrogate_rejected : string_value (zs """abc\ud800""") = None.
Proof. reflexivity. Qed.
Example esc_single_quote_in_string_rejected : string_value (zs """\'""") = None.
Proof. reflexivity. Qed.
Example esc_beyond_unicode_rejected : string_value (zs """\U00110000""") = None.
Proof. reflexivity. Qed.
Example esc_lone_backslash_rejected : string_value (zs """\""") = None.
Proof. reflexivity. Qed.
Example rune_plain : rune_value (zs "'a'") = Some 97%Z. Proof. reflexivity. Qed.
Example rune_quote : rune_value (zs "'\''") = Some 39%Z. Proof. reflexivity. Qed.
Example rune_newline : rune_value (zs "'\n'") = Some 10%Z. Proof. reflexivity. Qed.
Example rune_hex : rune_value (zs "'\xff'") = Some 255%Z. Proof. reflexivity. Qed.
Example rune_u8 : rune_value (zs "'\U0001f600'") = Some 128512%Z. Proof. reflexivity. Qed.
Example rune_double_quote_escape_rejected : rune_value (zs "'\""'") = None. Proof. reflexivity. Qed.
Example rune_surrogate_rejected : rune_value (zs "'\ud800'") = None. Proof. reflexivity. Qed.
Example rune_lone_backslash_rejected : rune_value (zs "'\'") = None. Proof. reflexivity. Qed.
Example int_max : parse_int (zs "9223372036854775807") = Some 9223372036854775807%Z. Proof. reflexivity. Qed.
Example int_min : parse_int (zs "-9223372036854775808") = Some (-9223372036854775808)%Z. Proof. reflexivity. Qed.
Example int_too_big : parse_int (zs "9223372036854775808") = None. Proof. reflexivity. Qed.
Example int_too_small : parse_int (zs "-9223372036854775809") = None. Proof. reflexivity. Qed.
Example hex_max : parse_hex (zs "0xffffffffffffffff") = Some 18446744073709551615%Z. Proof. reflexivity. Qed.
Example hex_17_digits : parse_hex (zs "0x10000000000000000") = None. Proof. reflexivity. Qed.
Example hex_17_digits_leading_zero : parse_hex (zs "0x00000000000000001") = Some 1%Z. Proof. reflexivity. Qed.
