(* PipeSweep.v — search for a concrete (program, schedule) on which the machine whose helper
   goroutines and constructors are REGENERATED from queue.go (PipeSem.pstep over GenPipes.v and
   GenQueue.v) departs from the hand-written model (Conc.step on the programs of Pipes.v /
   ConcLive.ctor_config).  Bounded exhaustive exploration of all schedules of small pipelines; used
   by the driver only to EXPLAIN a broken proof obligation of GenC06.v with a concrete input (a
   search, not a proof).  On the unchanged tree every sweep is empty.  Definitions only. *)
From Coq Require Import ZArith List String Bool Arith.
From Verif Require Import Base Params Conc ConcLive Pipes QueueLang GenQueue QueueSem QueueSweep PipeLang GenPipes PipeSem.
Import ListNotations.
Open Scope nat_scope.
Open Scope list_scope.

(* depth-first over all schedules: (kind, schedule in reverse) of the first departure found;
   kind 1: different queue contents / wait-group counter / results; 2: a step enabled in one machine
   and blocked in the other; 3: the regenerated code leaves the subset or the discipline. *)
Fixpoint pexplore (dflt depth : nat) (c : config) (p : pconfig) (sofar : list nat) : option (nat * list nat) :=
  if any_bad (pg p) then Some (3, sofar) else
  if negb (agree c (pg p)) then Some (1, sofar) else
  match depth with
  | O => None
  | S depth =>
    (fix try (ts : list nat) : option (nat * list nat) :=
       match ts with
       | [] => None
       | t :: ts' =>
         match step c t, pstep dflt p t with
         | Some c', Some p' =>
           match pexplore dflt depth c' p' (t :: sofar) with
           | Some s => Some s
           | None => try ts'
           end
         | None, None => try ts'
         | _, _ => Some (2, t :: sofar)
         end
       end) (seq 0 (length (threads c)))
  end.

Definition dflt0 : nat := Z.to_nat queue_default_capacity.

(* kind 0: the regenerated function does not even start (it panics, leaves the subset or runs out of fuel in the caller) *)
Definition psweep1 (name : string) (depth : nat) (c : config) (p : option pconfig) : list (string * nat * list nat) :=
  match p with
  | None => [(name, 0, [])]
  | Some p => match pexplore dflt0 depth c p [] with Some (k, s) => [(name, k, rev s)] | None => [] end
  end.

Definition streams : list (list Z) := [[]; [7]; [7; 8]; [7; 8; 9]]%Z.
Definition pipe_sweep_depth : nat := 60.

(* a deterministic complete schedule first (cheap, finds most departures), then all schedules to a bounded depth *)
Fixpoint pfollow (dflt fuel : nat) (hi : bool) (c : config) (p : pconfig) (sofar : list nat) : option (nat * list nat) :=
  if any_bad (pg p) then Some (3, sofar) else
  if negb (agree c (pg p)) then Some (1, sofar) else
  match fuel with
  | O => None
  | S f =>
    let ids := seq 0 (length (threads c)) in
    let ids := if hi then rev ids else ids in
    match find (fun t => match step c t, pstep dflt p t with None, None => false | _, _ => true end) ids with
    | None => None
    | Some t => match step c t, pstep dflt p t with
                | Some c', Some p' => pfollow dflt f hi c' p' (t :: sofar)
                | _, _ => Some (2, t :: sofar)
                end
    end
  end.
Definition pfollow1 (name : string) (c : config) (p : option pconfig) : list (string * nat * list nat) :=
  match p with
  | None => [(name, 0, [])]
  | Some p =>
    match pfollow dflt0 400 false c p [] with
    | Some (k, s) => [(name, k, rev s)]
    | None => match pfollow dflt0 400 true c p [] with Some (k, s) => [(name, k, rev s)] | None => [] end
    end
  end.

Definition first_of {A} (l : list (list A)) : list A :=
  match filter (fun x => match x with [] => false | _ => true end) l with [] => [] | x :: _ => x end.

Definition pipe_cases : list (list Z * nat) := flat_map (fun vs => [(vs, 1); (vs, 2)]) streams.

Definition sweep_fork (all : bool) : list (string * nat * list nat) :=
  first_of (map (fun vc => let '(vs, cap) := vc in
    (if all then psweep1 "Fork(2)" 11 else pfollow1 "Fork(2)") (fork_prog vs 2 cap) (pfork_prog dflt0 vs 2 cap)) pipe_cases).
Definition sweep_split (all : bool) : list (string * nat * list nat) :=
  first_of (map (fun vc => let '(vs, cap) := vc in
    (if all then psweep1 "Split(2)" 11 else pfollow1 "Split(2)") (split_prog vs 2 cap) (psplit_prog dflt0 vs 2 cap)) pipe_cases).
Definition sweep_splitjoin (all : bool) : list (string * nat * list nat) :=
  first_of (map (fun vc => let '(vs, cap) := vc in
    (if all then psweep1 "Split(2) then Join" 11 else pfollow1 "Split(2) then Join") (splitjoin_prog vs 2 cap) (psplitjoin_prog dflt0 vs 2 cap)) pipe_cases).

(* constructors: N initial values, N across the default capacity and its multiples *)
Definition ctor_sizes : list nat := [0; 1; 2; dflt0 - 1; dflt0; dflt0 + 1; 2 * dflt0 - 1; 2 * dflt0; 2 * dflt0 + 1; 3 * dflt0; 3 * dflt0 + 5].
Definition sweep_ctor : list (string * nat * list nat) :=
  first_of (map (fun n => let vs := map Z.of_nat (seq 1 n) in
    pfollow1 "MakeFromSequence" (ctor_config (Nat.max dflt0 n) vs) (pctor_config dflt0 vs)) ctor_sizes).
(* the number of initial values at which the constructor's capacity is not max(default, N) *)
Definition sweep_ctor_sizes : list (nat * option (list nat)) :=
  flat_map (fun n => match ctor_result dflt0 (repeat 0%Z n) with
                     | Some (caps, _) => if list_eq_dec Nat.eq_dec caps [Nat.max dflt0 n] then [] else [(n, Some caps)]
                     | None => [(n, None)]
                     end) (seq 0 (4 * dflt0 + 2)).

Definition pipe_sweep_quick : list (string * nat * list nat) :=
  sweep_fork false ++ sweep_split false ++ sweep_splitjoin false ++ sweep_ctor.
Definition pipe_sweep_all : list (string * nat * list nat) :=
  sweep_fork true ++ sweep_split true ++ sweep_splitjoin true.
(* the numbers of initial values for which the constructor's capacity is SMALLER than N: it blocks on its own AddValue *)
Definition sweep_ctor_blocks : list (nat * option (list nat)) :=
  filter (fun x => match snd x with Some [c] => c <? fst x | _ => true end) sweep_ctor_sizes.
