(* ParserPrefixStrip.v — the viable prefixes of ParserPrefix.v do not depend on the lines and positions
   of the tokens: a token list with the same types and texts, ending in a token with the type and text
   of the literal, is a viable prefix ending in THAT token. *)
From Coq Require Import String.
From Verif Require Import Base Params Value Coll Lexer Literals Parser ParserProofs Complete StripInv ParserPrefix.
Close Scope string_scope.
Close Scope Z_scope.

Section Strip.
Variable fparse : list Z -> option Z.
Variable crank : val -> val -> option comparison.
Notation vs b := (lstopv fparse crank b).
Notation as_ b := (lstopa fparse crank b).
Notation cs b := (lstopc fparse crank b).

(* every viable prefix ends in the literal's token *)
Lemma stops_end b :
  (forall X, vs b X -> exists Y, X = Y ++ [b]) /\ (forall X, as_ b X -> exists Y, X = Y ++ [b]) /\
  (forall X, cs b X -> exists Y, X = Y ++ [b]).
Proof.
  apply (stop_mind fparse crank (eq [b]) (eq [b]) (fun _ => False)).
  - intros X <-. exists []. reflexivity.
  - intros X _ IH. exact IH.
  - intros X <-. exists []. reflexivity.
  - intros k kv c X _ _ _ (Y & ->). exists (k :: c :: Y). reflexivity.
  - intros X [].
  - intros lb X _ _ (Y & ->). exists (lb :: Y). reflexivity.
  - intros lb X _ _ (Y & ->). exists (lb :: Y). reflexivity.
  - intros lb ts v tail vs0 c X _ _ _ _ _ (Y & ->). exists (lb :: ts ++ tail ++ c :: Y).
    cbn [app]. rewrite <- !app_assoc. reflexivity.
  - intros lb ts kv tail kvs c X _ _ _ _ _ (Y & ->). exists (lb :: ts ++ tail ++ c :: Y).
    cbn [app]. rewrite <- !app_assoc. reflexivity.
  - intros lb e X _ _ _ (Y & ->). exists (lb :: e :: Y). reflexivity.
  - intros lb e X _ _ _ (Y & ->). exists (lb :: e :: Y). reflexivity.
  - intros lb e ts v tm vs0 X _ _ _ _ _ (Y & ->). exists (lb :: e :: ts ++ tm ++ Y). cbn [app]. rewrite <- !app_assoc. reflexivity.
  - intros lb e ts kv tm kvs X _ _ _ _ _ (Y & ->). exists (lb :: e :: ts ++ tm ++ Y). cbn [app]. rewrite <- !app_assoc. reflexivity.
Qed.

Notation same ts' ts := (map strip ts' = map strip ts).
Let dstrip := derivation_strip fparse crank.

Lemma same_last X' Y b : same X' (Y ++ [b]) -> exists Y' b', X' = Y' ++ [b'] /\ same Y' Y /\ strip b' = strip b.
Proof.
  intros H. rewrite map_app in H. apply map_eq_app in H. destruct H as (Y' & l2 & -> & HY & H2).
  simpl in H2. apply map_eq_cons in H2. destruct H2 as (b' & r & -> & Hb & Hr). apply map_eq_nil in Hr. subst r.
  exists Y', b'. auto.
Qed.

Lemma ends_suffix (a X Y : list token) b' : a ++ X = Y ++ [b'] -> X <> [] -> exists Y0, X = Y0 ++ [b'].
Proof.
  intros E Hne. destruct (exists_last Hne) as (X1 & x & ->). rewrite app_assoc in E.
  apply app_inj_tail in E. destruct E as (_ & ->). exists X1. reflexivity.
Qed.
Lemma same_nonempty (X' X : list token) : same X' X -> X <> [] -> X' <> [].
Proof. intros H Hne E. subst X'. destruct X; [congruence|discriminate]. Qed.
Lemma end_nonempty (Y : list token) b : Y ++ [b] <> [].
Proof. destruct Y; discriminate. Qed.

(* the inner item of a strip-equal list still ends in b' *)
Ltac inner_end Hend Hin HX :=
  match type of Hend with
  | exists Y', ?whole = Y' ++ [?b'] =>
    let Yw := fresh "Yw" in let Ew := fresh "Ew" in
    destruct Hend as (Yw & Ew)
  end.

Theorem stops_strip b b' : strip b' = strip b ->
  (forall X, vs b X -> forall X', same X' X -> (exists Y', X' = Y' ++ [b']) -> vs b' X') /\
  (forall X, as_ b X -> forall X', same X' X -> (exists Y', X' = Y' ++ [b']) -> as_ b' X') /\
  (forall X, cs b X -> forall X', same X' X -> (exists Y', X' = Y' ++ [b']) -> cs b' X').
Proof.
  intros Sb. destruct (stops_end b) as (Ev & Ea & Ec).
  (* from a decomposition whole = pre ++ X0' = Yw ++ [b'] and X0' strip-equal to a viable prefix: X0' ends in b' *)
  assert (Inner : forall (pre X0' X0 : list token) Yw, pre ++ X0' = Yw ++ [b'] -> same X0' X0 -> (exists Y, X0 = Y ++ [b]) ->
                  exists Y0, X0' = Y0 ++ [b']).
  { intros pre X0' X0 Yw E HS (Y & ->). apply (ends_suffix pre X0' Yw b' E). eapply same_nonempty; [exact HS|apply end_nonempty]. }
  apply (stop_mind fparse crank (eq [b]) (eq [b]) (fun _ => False)).
  - intros X <- X' H (Yw & Ew). simpl in H. cons_in H a0 r0. apply map_eq_nil in H. subst.
    destruct Yw as [|y Yw]; [|destruct Yw; discriminate]. inversion Ew; subst. apply vs_base. reflexivity.
  - intros X C IH X' H Hend. apply vs_coll. apply IH; auto.
  - intros X <- X' H (Yw & Ew). simpl in H. cons_in H a0 r0. apply map_eq_nil in H. subst.
    destruct Yw as [|y Yw]; [|destruct Yw; discriminate]. inversion Ew; subst. apply as_base. reflexivity.
  - intros k kv c X L Bc V IH X' H (Yw & Ew). simpl in H. cons_in H k' r1. cons_in H c' r2.
    apply (as_value fparse crank (eq [b']) (eq [b']) (fun _ => False) k' kv c' r2); eauto using litv_strip, dl_strip.
    apply IH; auto. apply (Inner [k'; c'] r2 X Yw Ew H (Ev X V)).
  - intros X [].
  - intros lb X B A IH X' H (Yw & Ew). simpl in H. cons_in H lb' r1.
    apply cs_first_assoc; eauto using dl_strip. apply IH; auto. apply (Inner [lb'] r1 X Yw Ew H (Ea X A)).
  - intros lb X B C IH X' H (Yw & Ew). simpl in H. cons_in H lb' r1.
    apply cs_first_coll; eauto using dl_strip. apply IH; auto. apply (Inner [lb'] r1 X Yw Ew H (Ec X C)).
  - intros lb ts v tail vs0 c X B DV DT Bc V IH X' H (Yw & Ew).
    simpl in H. cons_in H lb' r1. rewrite map_app in H. app_in H ts' r2 Hts. rewrite map_app in H. app_in H tail' r3 Htail.
    simpl in H. cons_in H c' r4.
    apply (cs_later_value fparse crank (eq [b']) (eq [b']) (fun _ => False) lb' ts' v tail' vs0 c' r4); eauto using dl_strip.
    + apply (proj1 dstrip ts v DV ts' Hts).
    + apply (proj1 (proj2 (proj2 (proj2 dstrip))) tail vs0 DT tail' Htail).
    + apply IH; auto. apply (Inner (lb' :: ts' ++ tail' ++ [c']) r4 X Yw); auto.
      rewrite <- Ew. cbn [app]. rewrite <- !app_assoc. reflexivity.
  - intros lb ts kv tail kvs c X B DA DT Bc A IH X' H (Yw & Ew).
    simpl in H. cons_in H lb' r1. rewrite map_app in H. app_in H ts' r2 Hts. rewrite map_app in H. app_in H tail' r3 Htail.
    simpl in H. cons_in H c' r4.
    apply (cs_later_assoc fparse crank (eq [b']) (eq [b']) (fun _ => False) lb' ts' kv tail' kvs c' r4); eauto using dl_strip.
    + apply (proj1 (proj2 (proj2 (proj2 (proj2 (proj2 dstrip))))) ts kv DA ts' Hts).
    + apply (proj1 (proj2 (proj2 (proj2 (proj2 (proj2 (proj2 dstrip)))))) tail kvs DT tail' Htail).
    + apply IH; auto. apply (Inner (lb' :: ts' ++ tail' ++ [c']) r4 X Yw); auto.
      rewrite <- Ew. cbn [app]. rewrite <- !app_assoc. reflexivity.
  - intros lb e X B Ee A IH X' H (Yw & Ew). simpl in H. cons_in H lb' r1. cons_in H e' r2.
    apply cs_multi_first_assoc; eauto using dl_strip, eolt_strip. apply IH; auto. apply (Inner [lb'; e'] r2 X Yw Ew H (Ea X A)).
  - intros lb e X B Ee C IH X' H (Yw & Ew). simpl in H. cons_in H lb' r1. cons_in H e' r2.
    apply cs_multi_first_coll; eauto using dl_strip, eolt_strip. apply IH; auto. apply (Inner [lb'; e'] r2 X Yw Ew H (Ec X C)).
  - intros lb e ts v tm vs0 X B Ee DV DT V IH X' H (Yw & Ew).
    simpl in H. cons_in H lb' r1. cons_in H e' r2. rewrite map_app in H. app_in H ts' r3 Hts. rewrite map_app in H. app_in H tm' r4 Htm.
    apply (cs_multi_later_value fparse crank (eq [b']) (eq [b']) (fun _ => False) lb' e' ts' v tm' vs0 r4); eauto using dl_strip, eolt_strip.
    + apply (proj1 dstrip ts v DV ts' Hts).
    + apply (proj1 (proj2 (proj2 (proj2 (proj2 dstrip)))) tm vs0 DT tm' Htm).
    + apply IH; auto. apply (Inner (lb' :: e' :: ts' ++ tm') r4 X Yw); auto.
      rewrite <- Ew. cbn [app]. rewrite <- !app_assoc. reflexivity.
  - intros lb e ts kv tm kvs X B Ee DA DT A IH X' H (Yw & Ew).
    simpl in H. cons_in H lb' r1. cons_in H e' r2. rewrite map_app in H. app_in H ts' r3 Hts. rewrite map_app in H. app_in H tm' r4 Htm.
    apply (cs_multi_later_assoc fparse crank (eq [b']) (eq [b']) (fun _ => False) lb' e' ts' kv tm' kvs r4); eauto using dl_strip, eolt_strip.
    + apply (proj1 (proj2 (proj2 (proj2 (proj2 (proj2 dstrip))))) ts kv DA ts' Hts).
    + apply (proj2 (proj2 (proj2 (proj2 (proj2 (proj2 (proj2 dstrip)))))) tm kvs DT tm' Htm).
    + apply IH; auto. apply (Inner (lb' :: e' :: ts' ++ tm') r4 X Yw); auto.
      rewrite <- Ew. cbn [app]. rewrite <- !app_assoc. reflexivity.
Qed.
End Strip.
