(* PipesProofs.v — property C06: what the invariants of the Fork, Split and Split-then-Join
   programs (PipesFork.v, PipesSplit.v, PipesSJ.v) give for every schedule: safety (order,
   nothing invented / duplicated), closure, deadlock freedom and termination. *)
From Verif Require Import Base Conc Pipes PipesGen PipesRoles PipesFork PipesSplit PipesSJ.
Close Scope Z_scope.
Open Scope nat_scope.

(* ---------- facts read off the role invariants ---------- *)
Lemma feeder_prefix vs th app cl : feeder_ok vs th app cl -> prefix app vs.
Proof. intros [rest ? ? ? <- ?|v rest ? ? ? <- ?|? ? ? -> ?]; try apply prefix_app_l. apply prefix_refl. Qed.

Lemma forkh_app_prefix vs k th pop0 cl0 app cl j :
  forkh_ok vs k th pop0 cl0 app cl -> 1 <= j <= k -> prefix (app j) pop0.
Proof.
  intros Hok Hj.
  destruct Hok as [m v Hph Hc Hl Hm Ha1 Ha2 Hop|m v Hph Hc Hl Hm Ha1 Ha2 Hop|Hph Hc Hl Ha Hop
                  |m Hph Hc Hl Hm Ha Hvs Hc0 Hc1 Hc2|Hph Hc Hl Hdn Ha Hvs Hc0 Hc1].
  - destruct (Nat.le_gt_cases j m).
    + rewrite Ha1 by lia. apply prefix_refl.
    + rewrite <- (Ha2 j) by lia. apply prefix_app_l.
  - destruct (Nat.le_gt_cases j (S m)).
    + rewrite Ha1 by lia. apply prefix_refl.
    + rewrite <- (Ha2 j) by lia. apply prefix_app_l.
  - rewrite Ha by lia. apply prefix_refl.
  - rewrite Ha by lia. apply prefix_refl.
  - rewrite Ha by lia. apply prefix_refl.
Qed.

Lemma consumer_recv q th pop cl tok : consumer_ok q th pop cl tok -> received (tres th) = pop.
Proof. intros [? ? ? H ?|? ? ? H ?|? ? ? ? H ? ?]; exact H. Qed.

Lemma joinh_facts vs k th pops appo clo F :
  joinh_ok vs k th pops appo clo F ->
  prefix appo F /\ (forall j, 1 <= j <= k -> pops j = rr k (pred j) F).
Proof.
  intros Hok.
  destruct Hok as [cur Hph Hc Hl Hcur HF Hcl Hp|cur Hph Hc Hl Hcur HF Hcl Hp
                  |v cur Hph Hc Hl Hcur HF Hcl Hp|v cur Hph Hc Hl Hcur HF Hcl Hp
                  |Hph Hc Hl HF Hvs Hcl Hp|Hph Hc Hl HF Hvs Hcl Hp|Hph Hc Hl Hdn HF Hvs Hcl Hp];
    split; auto; subst; try apply prefix_refl. apply prefix_app_l.
Qed.

Lemma chan_pop_prefix c q p r : chan c q p r -> prefix (qpop (getq c q)) (qapp (getq c q)).
Proof. intros [H _ _ _]. rewrite H. apply prefix_app_l. Qed.

(* a reader that was told "closed" has received everything ever appended, and the queue is empty *)
Lemma reader_complete c q p r :
  chan c q p r ->
  consumer_ok q (gett c r) (qpop (getq c q)) (qclosed (getq c q)) (qtok (getq c q)) ->
  told_closed (tres (gett c r)) \/ tcalls (gett c r) = [] ->
  received (tres (gett c r)) = qapp (getq c q) /\ qvals (getq c q) = [] /\
  qclosed (getq c q) = true /\ qtok (getq c q) = 0.
Proof.
  intros [H1 H2 H3 H4] Hc Ht.
  destruct Hc as [Hph Hcl Hl Hr Hs|Hph Hcl Hl Hr Hs|Hph Hcl Hl Hsaw Hr Hclosed Htok].
  - destruct Ht as [Ht|Ht]; [contradiction|congruence].
  - destruct Ht as [Ht|Ht]; [contradiction|congruence].
  - rewrite (H4 Hclosed), Hph, Htok in H2. simpl in H2.
    destruct (qvals (getq c q)); [|discriminate]. rewrite app_nil_r in H1.
    repeat split; auto. congruence.
Qed.

(* ================= safety ================= *)
Theorem fork_safe vs k cap sched j :
  1 <= k -> 1 <= j <= k ->
  let c := run (fork_prog vs k cap) sched in
  prefix (qapp (getq c j)) vs /\ prefix (received (tres (gett c (S j)))) vs.
Proof.
  intros Hk Hj c. pose proof (fork_reachable vs k cap Hk sched) as I. fold c in I.
  assert (H0 : prefix (qpop (getq c 0)) vs).
  { apply prefix_trans with (qapp (getq c 0)).
    - apply (chan_pop_prefix c 0 _ _ (fi_ch _ _ _ _ I 0 ltac:(lia))).
    - apply (feeder_prefix _ _ _ _ (fi_f _ _ _ _ I)). }
  assert (Hj' : prefix (qapp (getq c j)) vs).
  { apply prefix_trans with (qpop (getq c 0)); auto.
    apply (forkh_app_prefix _ _ _ _ _ _ _ j (fi_h _ _ _ _ I) Hj). }
  split; auto.
  rewrite (consumer_recv _ _ _ _ _ (fi_c _ _ _ _ I j Hj)).
  apply prefix_trans with (qapp (getq c j)); auto.
  apply (chan_pop_prefix c j _ _ (fi_ch _ _ _ _ I j ltac:(lia))).
Qed.

Theorem split_safe vs k cap sched j :
  1 <= k -> 1 <= j <= k ->
  let c := run (split_prog vs k cap) sched in
  prefix (qapp (getq c j)) (rr k (j - 1) vs) /\
  prefix (received (tres (gett c (S j)))) (rr k (j - 1) vs).
Proof.
  intros Hk Hj c. pose proof (split_reachable vs k cap Hk sched) as I. fold c in I.
  assert (H0 : prefix (qpop (getq c 0)) vs).
  { apply prefix_trans with (qapp (getq c 0)).
    - apply (chan_pop_prefix c 0 _ _ (si_ch _ _ _ _ I 0 ltac:(lia))).
    - apply (feeder_prefix _ _ _ _ (si_f _ _ _ _ I)). }
  destruct (si_h _ _ _ _ I) as [D HD].
  destruct (splith_facts _ _ _ _ _ _ _ _ HD) as [HDp Ha].
  assert (Hj' : prefix (qapp (getq c j)) (rr k (j - 1) vs)).
  { change (qapp (getq c j)) with (view_app c j). rewrite Ha by auto.
    replace (pred j) with (j - 1) by lia. apply rr_prefix.
    now apply prefix_trans with (qpop (getq c 0)). }
  split; auto.
  rewrite (consumer_recv _ _ _ _ _ (si_c _ _ _ _ I j Hj)).
  apply prefix_trans with (qapp (getq c j)); auto.
  apply (chan_pop_prefix c j _ _ (si_ch _ _ _ _ I j ltac:(lia))).
Qed.

(* the coupled invariant of Split followed by Join *)
Theorem splitjoin_coupling vs k cap sched :
  1 <= k ->
  let c := run (splitjoin_prog vs k cap) sched in
  exists D F : list Z,
    prefix F D /\ prefix D vs /\
    prefix (qapp (getq c (S k))) F /\ length F <= S (length (qapp (getq c (S k)))) /\
    forall j, 1 <= j <= k ->
      qapp (getq c j) = rr k (j - 1) D /\ qpop (getq c j) = rr k (j - 1) F /\
      rr k (j - 1) D = rr k (j - 1) F ++ qvals (getq c j).
Proof.
  intros Hk c. pose proof (sj_reachable vs k cap Hk sched) as I. fold c in I. clearbody c.
  destruct (ji_h _ _ _ _ I) as (D & F & HD & HF & HFD).
  destruct (splith_facts _ _ _ _ _ _ _ _ HD) as [HDp Ha].
  destruct (joinh_facts _ _ _ _ _ _ _ HF) as [HFp Hp].
  exists D, F. split; auto. split; [|split; [|split]]; auto.
  - apply prefix_trans with (qpop (getq c 0)); auto.
    apply prefix_trans with (qapp (getq c 0)).
    + apply (chan_pop_prefix c 0 _ _ (ji_ch _ _ _ _ I 0 ltac:(lia))).
    + apply (feeder_prefix _ _ _ _ (ji_f _ _ _ _ I)).
  - destruct HF; subst; rewrite ?app_length; simpl; lia.
  - intros j Hj. replace (j - 1) with (pred j) by lia.
    rewrite <- Ha, <- Hp by auto. split; [reflexivity|]. split; [reflexivity|].
    rewrite Ha, Hp by auto. now apply sj_mid with vs cap.
Qed.

Theorem splitjoin_safe vs k cap sched :
  1 <= k ->
  let c := run (splitjoin_prog vs k cap) sched in
  prefix (qapp (getq c (S k))) vs /\ prefix (received (tres (gett c 3))) vs.
Proof.
  intros Hk c. pose proof (sj_reachable vs k cap Hk sched) as I. fold c in I.
  destruct (splitjoin_coupling vs k cap sched Hk) as (D & F & HFD & HDv & HoF & _).
  fold c in HoF.
  assert (Ho : prefix (qapp (getq c (S k))) vs).
  { apply prefix_trans with F; auto. now apply prefix_trans with D. }
  split; auto.
  rewrite (consumer_recv _ _ _ _ _ (ji_c _ _ _ _ I)).
  apply prefix_trans with (qapp (getq c (S k))); auto.
  apply (chan_pop_prefix c (S k) _ _ (ji_ch _ _ _ _ I (S k) ltac:(lia))).
Qed.

(* ================= closure ================= *)
Lemma feeder_alive vs th app cl : feeder_ok vs th app cl -> tph th <> PStuck /\ dones th = 0.
Proof.
  intros [rest Hp Hc Hl ? ?|v rest Hp Hc Hl ? ?|Hp Hc Hl ? ?]; unfold dones; rewrite Hp, Hc, Hl;
    split; try discriminate; simpl; rewrite ?ndone_feeder; auto.
  unfold ndone. simpl. fold (ndone (map (CAdd 0) rest ++ [CClose 0])). now rewrite ndone_feeder.
Qed.

Lemma consumer_alive q th pop cl tok : consumer_ok q th pop cl tok -> tph th <> PStuck /\ dones th = 0.
Proof.
  intros [Hp Hc Hl ? ?|Hp Hc Hl ? ?|Hp Hc Hl ? ? ? ?]; unfold dones; rewrite Hp, Hc, Hl;
    split; try discriminate; reflexivity.
Qed.

Lemma waiter_alive th : waiter_ok th -> tph th <> PStuck /\ dones th = 0.
Proof.
  intros (Hp & Hl & [Hc|Hc]); unfold dones; rewrite Hp, Hc, Hl; split; try discriminate; reflexivity.
Qed.

Lemma snoc_not_nil {A} (l : list A) x : l ++ [x] <> [].
Proof. destruct l; discriminate. Qed.

Lemma ndone_close_calls k m : ndone (close_calls k m) = 1.
Proof. unfold close_calls. rewrite ndone_app, ndone_map_add by auto. reflexivity. Qed.
Lemma ndone_fork_calls k m v : ndone (fork_calls k m v) = 0.
Proof. unfold fork_calls. rewrite ndone_app, ndone_map_add by auto. reflexivity. Qed.

Lemma forkh_alive vs k th pop0 cl0 app cl : forkh_ok vs k th pop0 cl0 app cl ->
  tph th <> PStuck /\
  ((tcalls th <> [] /\ dones th = 1) \/
   (tcalls th = [] /\ dones th = 0 /\ tph th = PIdle /\ In RDoneWg (tres th) /\ pop0 = vs /\ cl0 = true /\
    forall j, 1 <= j <= k -> app j = vs /\ cl j = true)).
Proof.
  intros Hok.
  destruct Hok as [m v Hph Hc Hl Hm Ha1 Ha2 Hop|m v Hph Hc Hl Hm Ha1 Ha2 Hop|Hph Hc Hl Ha Hop
                  |m Hph Hc Hl Hm Ha Hvs Hc0 Hc1 Hc2|Hph Hc Hl Hdn Ha Hvs Hc0 Hc1];
    (split; [rewrite Hph; discriminate|]); unfold dones; rewrite Hc, Hl.
  - left. split; [apply snoc_not_nil|]. now rewrite ndone_fork_calls.
  - left. split; [apply snoc_not_nil|]. now rewrite ndone_fork_calls.
  - left. split; [discriminate|reflexivity].
  - left. split; [apply snoc_not_nil|]. now rewrite ndone_close_calls.
  - right. repeat split; auto. rewrite Ha by auto. auto.
Qed.

Lemma splith_alive vs k th pop0 cl0 app cl D : splith_ok vs k th pop0 cl0 app cl D ->
  tph th <> PStuck /\
  ((tcalls th <> [] /\ dones th = 1) \/
   (tcalls th = [] /\ dones th = 0 /\ tph th = PIdle /\ In RDoneWg (tres th) /\ pop0 = vs /\ cl0 = true /\
    forall j, 1 <= j <= k -> app j = rr k (pred j) vs /\ cl j = true)).
Proof.
  intros Hok.
  destruct Hok as [cur Hph Hc Hl Hcur HD Ha Hop|cur Hph Hc Hl Hcur HD Ha Hop
                  |v cu cur Hph Hc Hl Hcur HD Hcu Ha Hop|v cu cur Hph Hc Hl Hcur HD Hcu Ha Hop
                  |m Hph Hc Hl Hm HD Ha Hvs Hc0 Hc1 Hc2|Hph Hc Hl Hdn HD Ha Hvs Hc0 Hc1];
    (split; [rewrite Hph; discriminate|]); unfold dones; rewrite Hc, Hl.
  - left. split; [discriminate|reflexivity].
  - left. split; [discriminate|reflexivity].
  - left. split; [discriminate|reflexivity].
  - left. split; [discriminate|reflexivity].
  - left. split; [apply snoc_not_nil|]. now rewrite ndone_close_calls.
  - right. repeat split; auto. rewrite Ha by auto. congruence.
Qed.

Lemma joinh_alive vs k th pops appo clo F : joinh_ok vs k th pops appo clo F ->
  tph th <> PStuck /\
  ((tcalls th <> [] /\ dones th = 1) \/
   (tcalls th = [] /\ dones th = 0 /\ tph th = PIdle /\ In RDoneWg (tres th) /\ F = vs /\ appo = vs /\ clo = true)).
Proof.
  intros Hok.
  destruct Hok as [cur Hph Hc Hl Hcur HF Hcl Hp|cur Hph Hc Hl Hcur HF Hcl Hp
                  |v cur Hph Hc Hl Hcur HF Hcl Hp|v cur Hph Hc Hl Hcur HF Hcl Hp
                  |Hph Hc Hl HF Hvs Hcl Hp|Hph Hc Hl HF Hvs Hcl Hp|Hph Hc Hl Hdn HF Hvs Hcl Hp];
    (split; [rewrite Hph; discriminate|]); unfold dones; rewrite Hc, Hl.
  1-6: left; split; [discriminate|reflexivity].
  right. repeat split; auto. congruence.
Qed.

Lemma thread_done_calls th : tph th <> PStuck -> thread_done th = true -> tcalls th = [].
Proof.
  unfold thread_done. destruct (tph th); try discriminate; try congruence.
  destruct (tcalls th); auto; discriminate.
Qed.

Lemma sum_zero {A} (f : A -> nat) l d : (forall t, f (nth t l d) = 0) -> list_sum (map f l) = 0.
Proof.
  induction l as [|x l IH]; intros H; simpl; auto.
  rewrite (H 0 : f x = 0). rewrite IH; auto. intros t. apply (H (S t)).
Qed.

Lemma sum_head_only {A} (f : A -> nat) l d :
  (forall t, 1 <= t -> f (nth t l d) = 0) -> list_sum (map f l) = f (nth 0 l d) \/ l = [].
Proof.
  destruct l as [|x l]; intros H; [now right|left]. simpl.
  rewrite (sum_zero f l d); [lia|]. intros t. apply (H (S t)). lia.
Qed.

(* nothing is appended to a queue once it is closed *)
Lemma no_append_after_close c t c' P R q :
  fp_all c P R -> chan c q (P q) (R q) -> P q <> R q ->
  step c t = Some c' -> qclosed (getq c q) = true -> qapp (getq c' q) = qapp (getq c q).
Proof.
  intros Hfp Hch Hne Hs Hcl. destruct (Nat.eq_dec t (R q)) as [->|Hn].
  - apply (eff_not_producer c (R q) c' P R q Hs Hfp). auto.
  - now rewrite (eff_closed_stable c t c' P R q).
Qed.

Lemma fork_dones_other vs k cap c t : fork_inv vs k cap c -> 1 <= t -> dones (gett c t) = 0.
Proof.
  intros I Ht.
  destruct (Nat.eq_dec t 1) as [->|H1]; [apply (feeder_alive _ _ _ _ (fi_f _ _ _ _ I))|].
  destruct (Nat.le_gt_cases t (S k)) as [Hle|Hgt].
  { pose proof (fi_c _ _ _ _ I (t - 1) ltac:(lia)) as Hc. replace (S (t - 1)) with t in Hc by lia.
    apply (consumer_alive _ _ _ _ _ Hc). }
  destruct (Nat.eq_dec t (k + 2)) as [->|H2]; [apply (waiter_alive _ (fi_w _ _ _ _ I))|].
  rewrite gett_out by (rewrite (fi_nt _ _ _ _ I); lia). reflexivity.
Qed.

Lemma fork_no_stuck vs k cap c : fork_inv vs k cap c -> no_stuck c.
Proof.
  intros I t Ht. rewrite (fi_nt _ _ _ _ I) in Ht.
  destruct (Nat.eq_dec t 0) as [->|H0]; [apply (forkh_alive _ _ _ _ _ _ _ (fi_h _ _ _ _ I))|].
  destruct (Nat.eq_dec t 1) as [->|H1]; [apply (feeder_alive _ _ _ _ (fi_f _ _ _ _ I))|].
  destruct (Nat.le_gt_cases t (S k)) as [Hle|Hgt].
  { pose proof (fi_c _ _ _ _ I (t - 1) ltac:(lia)) as Hc. replace (S (t - 1)) with t in Hc by lia.
    apply (consumer_alive _ _ _ _ _ Hc). }
  replace t with (k + 2) by lia. apply (waiter_alive _ (fi_w _ _ _ _ I)).
Qed.

Lemma fork_wg vs k cap c : fork_inv vs k cap c -> wg c = dones (gett c 0).
Proof.
  intros I. rewrite (fi_wg _ _ _ _ I).
  destruct (sum_head_only dones (threads c) dummyt) as [H|H]; auto.
  - intros t Ht. now apply (fork_dones_other vs k cap).
  - pose proof (fi_nt _ _ _ _ I) as Hn. rewrite H in Hn. simpl in Hn. lia.
Qed.

Theorem fork_closure vs k cap sched :
  1 <= k ->
  let c := run (fork_prog vs k cap) sched in
  no_stuck c /\
  (thread_done (gett c 0) = true ->
     (forall j, 1 <= j <= k -> qclosed (getq c j) = true) /\ In RDoneWg (tres (gett c 0)) /\ wg c = 0) /\
  (forall t c' q, step c t = Some c' -> qclosed (getq c q) = true ->
     qapp (getq c' q) = qapp (getq c q)) /\
  (forall j, 1 <= j <= k -> told_closed (tres (gett c (S j))) ->
     received (tres (gett c (S j))) = qapp (getq c j)).
Proof.
  intros Hk c. pose proof (fork_reachable vs k cap Hk sched) as I. fold c in I. clearbody c.
  split; [now apply (fork_no_stuck vs k cap)|]. split; [|split].
  - intros Hd. destruct (forkh_alive _ _ _ _ _ _ _ (fi_h _ _ _ _ I)) as [Hns [[Hne _]|(Hc & Hdn & _ & Hin & _ & _ & Hall)]].
    + destruct Hne. now apply thread_done_calls.
    + split; [intros j Hj; now apply Hall|]. split; auto.
      rewrite (fork_wg vs k cap); auto.
  - intros t c' q Hs Hcl. destruct (fork_fp vs k cap Hk c I) as [Hfp _].
    destruct (Nat.le_gt_cases q k) as [Hq|Hq].
    + apply no_append_after_close with t fP fR; auto.
      * now apply (fi_ch _ _ _ _ I).
      * destruct q; simpl; lia.
    + unfold getq in Hcl. rewrite nth_overflow in Hcl by (rewrite (fi_nq _ _ _ _ I); lia).
      discriminate.
  - intros j Hj Ht.
    apply (reader_complete c j (fP j) (S j)); auto.
    + replace (S j) with (fR j) by (destruct j; simpl; lia). apply (fi_ch _ _ _ _ I). lia.
    + now apply (fi_c _ _ _ _ I).
Qed.

Lemma split_dones_other vs k cap c t : split_inv vs k cap c -> 1 <= t -> dones (gett c t) = 0.
Proof.
  intros I Ht.
  destruct (Nat.eq_dec t 1) as [->|H1]; [apply (feeder_alive _ _ _ _ (si_f _ _ _ _ I))|].
  destruct (Nat.le_gt_cases t (S k)) as [Hle|Hgt].
  { pose proof (si_c _ _ _ _ I (t - 1) ltac:(lia)) as Hc. replace (S (t - 1)) with t in Hc by lia.
    apply (consumer_alive _ _ _ _ _ Hc). }
  destruct (Nat.eq_dec t (k + 2)) as [->|H2]; [apply (waiter_alive _ (si_w _ _ _ _ I))|].
  rewrite gett_out by (rewrite (si_nt _ _ _ _ I); lia). reflexivity.
Qed.

Lemma split_no_stuck vs k cap c : split_inv vs k cap c -> no_stuck c.
Proof.
  intros I t Ht. rewrite (si_nt _ _ _ _ I) in Ht.
  destruct (Nat.eq_dec t 0) as [->|H0]; [destruct (si_h _ _ _ _ I) as [D HD]; apply (splith_alive _ _ _ _ _ _ _ _ HD)|].
  destruct (Nat.eq_dec t 1) as [->|H1]; [apply (feeder_alive _ _ _ _ (si_f _ _ _ _ I))|].
  destruct (Nat.le_gt_cases t (S k)) as [Hle|Hgt].
  { pose proof (si_c _ _ _ _ I (t - 1) ltac:(lia)) as Hc. replace (S (t - 1)) with t in Hc by lia.
    apply (consumer_alive _ _ _ _ _ Hc). }
  replace t with (k + 2) by lia. apply (waiter_alive _ (si_w _ _ _ _ I)).
Qed.

Lemma split_wg vs k cap c : split_inv vs k cap c -> wg c = dones (gett c 0).
Proof.
  intros I. rewrite (si_wg _ _ _ _ I).
  destruct (sum_head_only dones (threads c) dummyt) as [H|H]; auto.
  - intros t Ht. now apply (split_dones_other vs k cap).
  - pose proof (si_nt _ _ _ _ I) as Hn. rewrite H in Hn. simpl in Hn. lia.
Qed.

Theorem split_closure vs k cap sched :
  1 <= k ->
  let c := run (split_prog vs k cap) sched in
  no_stuck c /\
  (thread_done (gett c 0) = true ->
     (forall j, 1 <= j <= k -> qclosed (getq c j) = true) /\ In RDoneWg (tres (gett c 0)) /\ wg c = 0) /\
  (forall t c' q, step c t = Some c' -> qclosed (getq c q) = true ->
     qapp (getq c' q) = qapp (getq c q)) /\
  (forall j, 1 <= j <= k -> told_closed (tres (gett c (S j))) ->
     received (tres (gett c (S j))) = qapp (getq c j)).
Proof.
  intros Hk c. pose proof (split_reachable vs k cap Hk sched) as I. fold c in I. clearbody c.
  split; [now apply (split_no_stuck vs k cap)|]. split; [|split].
  - intros Hd. destruct (si_h _ _ _ _ I) as [D HD].
    destruct (splith_alive _ _ _ _ _ _ _ _ HD) as [Hns [[Hne _]|(Hc & Hdn & _ & Hin & _ & _ & Hall)]].
    + destruct Hne. now apply thread_done_calls.
    + split; [intros j Hj; now apply Hall|]. split; auto.
      rewrite (split_wg vs k cap); auto.
  - intros t c' q Hs Hcl. destruct (split_fp vs k cap Hk c I) as [Hfp _].
    destruct (Nat.le_gt_cases q k) as [Hq|Hq].
    + apply no_append_after_close with t fP fR; auto.
      * now apply (si_ch _ _ _ _ I).
      * destruct q; simpl; lia.
    + unfold getq in Hcl. rewrite nth_overflow in Hcl by (rewrite (si_nq _ _ _ _ I); lia).
      discriminate.
  - intros j Hj Ht.
    apply (reader_complete c j (fP j) (S j)); auto.
    + replace (S j) with (fR j) by (destruct j; simpl; lia). apply (si_ch _ _ _ _ I). lia.
    + now apply (si_c _ _ _ _ I).
Qed.

Lemma td_dones th X :
  tph th <> PStuck ->
  ((tcalls th <> [] /\ dones th = 1) \/ (tcalls th = [] /\ dones th = 0 /\ tph th = PIdle /\ X)) ->
  dones th = if thread_done th then 0 else 1.
Proof.
  intros Hns [[Hne Hd]|(Hc & Hd & Hp & _)]; unfold thread_done.
  - destruct (tph th); try congruence; destruct (tcalls th); congruence.
  - now rewrite Hp, Hc.
Qed.

Lemma sj_no_stuck vs k cap c : 1 <= k -> sj_inv vs k cap c -> no_stuck c.
Proof.
  intros Hk I t Ht. rewrite (ji_nt _ _ _ _ I) in Ht.
  destruct (ji_h _ _ _ _ I) as (D & F & HD & HF & _).
  destruct (Nat.eq_dec t 0) as [->|H0]; [apply (splith_alive _ _ _ _ _ _ _ _ HD)|].
  destruct (Nat.eq_dec t 1) as [->|H1]; [apply (joinh_alive _ _ _ _ _ _ _ HF)|].
  destruct (Nat.eq_dec t 2) as [->|H2]; [apply (feeder_alive _ _ _ _ (ji_f _ _ _ _ I))|].
  destruct (Nat.eq_dec t 3) as [->|H3]; [apply (consumer_alive _ _ _ _ _ (ji_c _ _ _ _ I))|].
  replace t with 4 by lia. apply (waiter_alive _ (ji_w _ _ _ _ I)).
Qed.

Lemma sj_wg vs k cap c : sj_inv vs k cap c -> wg c = dones (gett c 0) + dones (gett c 1).
Proof.
  intros I. rewrite (ji_wg _ _ _ _ I).
  pose proof (proj2 (feeder_alive _ _ _ _ (ji_f _ _ _ _ I))) as H2.
  pose proof (proj2 (consumer_alive _ _ _ _ _ (ji_c _ _ _ _ I))) as H3.
  pose proof (proj2 (waiter_alive _ (ji_w _ _ _ _ I))) as H4.
  pose proof (ji_nt _ _ _ _ I) as Hn. unfold gett in *.
  destruct (threads c) as [|a [|b [|c2 [|d [|e [|]]]]]]; simpl in Hn; try lia.
  simpl in *. lia.
Qed.

Theorem splitjoin_closure vs k cap sched :
  1 <= k ->
  let c := run (splitjoin_prog vs k cap) sched in
  no_stuck c /\
  (thread_done (gett c 0) = true ->
     (forall j, 1 <= j <= k -> qclosed (getq c j) = true) /\ In RDoneWg (tres (gett c 0))) /\
  (thread_done (gett c 1) = true ->
     qclosed (getq c (S k)) = true /\ In RDoneWg (tres (gett c 1))) /\
  wg c = (if thread_done (gett c 0) then 0 else 1) + (if thread_done (gett c 1) then 0 else 1) /\
  (forall t c' q, step c t = Some c' -> qclosed (getq c q) = true ->
     qapp (getq c' q) = qapp (getq c q)) /\
  (told_closed (tres (gett c 3)) -> received (tres (gett c 3)) = qapp (getq c (S k))).
Proof.
  intros Hk c. pose proof (sj_reachable vs k cap Hk sched) as I. fold c in I. clearbody c.
  destruct (ji_h _ _ _ _ I) as (D & F & HD & HF & _).
  pose proof (splith_alive _ _ _ _ _ _ _ _ HD) as [Hns0 H0].
  pose proof (joinh_alive _ _ _ _ _ _ _ HF) as [Hns1 H1].
  split; [now apply (sj_no_stuck vs k cap)|]. split; [|split; [|split; [|split]]].
  - intros Hd. destruct H0 as [[Hne _]|(Hc & Hdn & _ & Hin & _ & _ & Hall)].
    + destruct Hne. now apply thread_done_calls.
    + split; [intros j Hj; now apply Hall|auto].
  - intros Hd. destruct H1 as [[Hne _]|(Hc & Hdn & _ & Hin & _ & _ & Hcl)].
    + destruct Hne. now apply thread_done_calls.
    + auto.
  - rewrite (sj_wg vs k cap); auto.
    erewrite (td_dones (gett c 0)), (td_dones (gett c 1)); eauto.
  - intros t c' q Hs Hcl. destruct (sj_fp vs k cap Hk c I) as [Hfp _].
    destruct (Nat.le_gt_cases q (S k)) as [Hq|Hq].
    + apply no_append_after_close with t (jP k) (jR k); auto.
      * now apply (ji_ch _ _ _ _ I).
      * apply jP_neq_jR; auto.
    + unfold getq in Hcl. rewrite nth_overflow in Hcl by (rewrite (ji_nq _ _ _ _ I); lia).
      discriminate.
  - intros Ht. apply (reader_complete c (S k) (jP k (S k)) 3); auto.
    + replace 3 with (jR k (S k)). apply (ji_ch _ _ _ _ I). lia.
      unfold jR. destruct (Nat.leb_spec (S k) k); lia.
    + apply (ji_c _ _ _ _ I).
Qed.
