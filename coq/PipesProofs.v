(* PipesProofs.v — property C06: what the invariants of the Fork, Split and Split-then-Join
   programs (PipesFork.v, PipesSplit.v, PipesSJ.v) give for every schedule: safety (order,
   nothing invented / duplicated), closure, deadlock freedom and termination. *)
From Verif Require Import Base Conc Pipes PipesGen PipesRoles PipesFork PipesSplit PipesSJ.
Close Scope Z_scope.
Open Scope nat_scope.

(* ---------- facts read off the role invariants ---------- *)
Lemma feeder_prefix vs th app cl : feeder_ok vs th app cl -> prefix app vs.
Proof. intros [rest ? ? ? <- ?|v rest ? ? ? <- ?|? ? ? -> ?]; try apply prefix_app_l. apply prefix_refl. Qed.

Lemma forkh_app_prefix vs k th pop0 cl0 app cl j :
  forkh_ok vs k th pop0 cl0 app cl -> 1 <= j <= k -> prefix (app j) pop0.
Proof.
  intros Hok Hj.
  destruct Hok as [m v Hph Hc Hl Hm Ha1 Ha2 Hop|m v Hph Hc Hl Hm Ha1 Ha2 Hop|Hph Hc Hl Ha Hop
                  |m Hph Hc Hl Hm Ha Hvs Hc0 Hc1 Hc2|Hph Hc Hl Hdn Ha Hvs Hc0 Hc1].
  - destruct (Nat.le_gt_cases j m).
    + rewrite Ha1 by lia. apply prefix_refl.
    + rewrite <- (Ha2 j) by lia. apply prefix_app_l.
  - destruct (Nat.le_gt_cases j (S m)).
    + rewrite Ha1 by lia. apply prefix_refl.
    + rewrite <- (Ha2 j) by lia. apply prefix_app_l.
  - rewrite Ha by lia. apply prefix_refl.
  - rewrite Ha by lia. apply prefix_refl.
  - rewrite Ha by lia. apply prefix_refl.
Qed.

Lemma consumer_recv q th pop cl tok : consumer_ok q th pop cl tok -> received (tres th) = pop.
Proof. intros [? ? ? H ?|? ? ? H ?|? ? ? H ? ?]; exact H. Qed.

Lemma joinh_facts vs k th pops appo clo F :
  joinh_ok vs k th pops appo clo F ->
  prefix appo F /\ (forall j, 1 <= j <= k -> pops j = rr k (pred j) F).
Proof.
  intros Hok.
  destruct Hok as [cur Hph Hc Hl Hcur HF Hcl Hp|cur Hph Hc Hl Hcur HF Hcl Hp
                  |v cur Hph Hc Hl Hcur HF Hcl Hp|v cur Hph Hc Hl Hcur HF Hcl Hp
                  |Hph Hc Hl HF Hvs Hcl Hp|Hph Hc Hl HF Hvs Hcl Hp|Hph Hc Hl Hdn HF Hvs Hcl Hp];
    split; auto; subst; try apply prefix_refl. apply prefix_app_l.
Qed.

Lemma chan_pop_prefix c q p r : chan c q p r -> prefix (qpop (getq c q)) (qapp (getq c q)).
Proof. intros [H _ _ _]. rewrite H. apply prefix_app_l. Qed.

(* a reader that was told "closed" has received everything ever appended, and the queue is empty *)
Lemma reader_complete c q p r :
  chan c q p r ->
  consumer_ok q (gett c r) (qpop (getq c q)) (qclosed (getq c q)) (qtok (getq c q)) ->
  told_closed (tres (gett c r)) \/ tcalls (gett c r) = [] ->
  received (tres (gett c r)) = qapp (getq c q) /\ qvals (getq c q) = [] /\
  qclosed (getq c q) = true /\ qtok (getq c q) = 0.
Proof.
  intros [H1 H2 H3 H4] Hc Ht.
  destruct Hc as [Hph Hcl Hl Hr Hs|Hph Hcl Hl Hr Hs|Hph Hcl Hl Hr Hclosed Htok].
  - destruct Ht as [Ht|Ht]; [contradiction|congruence].
  - destruct Ht as [Ht|Ht]; [contradiction|congruence].
  - rewrite (H4 Hclosed), Hph, Htok in H2. simpl in H2.
    destruct (qvals (getq c q)); [|discriminate]. rewrite app_nil_r in H1.
    repeat split; auto. congruence.
Qed.

(* ================= safety ================= *)
Theorem fork_safe vs k cap sched j :
  1 <= k -> 1 <= j <= k ->
  let c := run (fork_prog vs k cap) sched in
  prefix (qapp (getq c j)) vs /\ prefix (received (tres (gett c (S j)))) vs.
Proof.
  intros Hk Hj c. pose proof (fork_reachable vs k cap Hk sched) as I. fold c in I.
  assert (H0 : prefix (qpop (getq c 0)) vs).
  { apply prefix_trans with (qapp (getq c 0)).
    - apply (chan_pop_prefix c 0 _ _ (fi_ch _ _ _ _ I 0 ltac:(lia))).
    - apply (feeder_prefix _ _ _ _ (fi_f _ _ _ _ I)). }
  assert (Hj' : prefix (qapp (getq c j)) vs).
  { apply prefix_trans with (qpop (getq c 0)); auto.
    apply (forkh_app_prefix _ _ _ _ _ _ _ j (fi_h _ _ _ _ I) Hj). }
  split; auto.
  rewrite (consumer_recv _ _ _ _ _ (fi_c _ _ _ _ I j Hj)).
  apply prefix_trans with (qapp (getq c j)); auto.
  apply (chan_pop_prefix c j _ _ (fi_ch _ _ _ _ I j ltac:(lia))).
Qed.

Theorem split_safe vs k cap sched j :
  1 <= k -> 1 <= j <= k ->
  let c := run (split_prog vs k cap) sched in
  prefix (qapp (getq c j)) (rr k (j - 1) vs) /\
  prefix (received (tres (gett c (S j)))) (rr k (j - 1) vs).
Proof.
  intros Hk Hj c. pose proof (split_reachable vs k cap Hk sched) as I. fold c in I.
  assert (H0 : prefix (qpop (getq c 0)) vs).
  { apply prefix_trans with (qapp (getq c 0)).
    - apply (chan_pop_prefix c 0 _ _ (si_ch _ _ _ _ I 0 ltac:(lia))).
    - apply (feeder_prefix _ _ _ _ (si_f _ _ _ _ I)). }
  destruct (si_h _ _ _ _ I) as [D HD].
  destruct (splith_facts _ _ _ _ _ _ _ _ HD) as [HDp Ha].
  assert (Hj' : prefix (qapp (getq c j)) (rr k (j - 1) vs)).
  { change (qapp (getq c j)) with (view_app c j). rewrite Ha by auto.
    replace (pred j) with (j - 1) by lia. apply rr_prefix.
    now apply prefix_trans with (qpop (getq c 0)). }
  split; auto.
  rewrite (consumer_recv _ _ _ _ _ (si_c _ _ _ _ I j Hj)).
  apply prefix_trans with (qapp (getq c j)); auto.
  apply (chan_pop_prefix c j _ _ (si_ch _ _ _ _ I j ltac:(lia))).
Qed.

(* the coupled invariant of Split followed by Join *)
Theorem splitjoin_coupling vs k cap sched :
  1 <= k ->
  let c := run (splitjoin_prog vs k cap) sched in
  exists D F : list Z,
    prefix F D /\ prefix D vs /\
    prefix (qapp (getq c (S k))) F /\ length F <= S (length (qapp (getq c (S k)))) /\
    forall j, 1 <= j <= k ->
      qapp (getq c j) = rr k (j - 1) D /\ qpop (getq c j) = rr k (j - 1) F /\
      rr k (j - 1) D = rr k (j - 1) F ++ qvals (getq c j).
Proof.
  intros Hk c. pose proof (sj_reachable vs k cap Hk sched) as I. fold c in I. clearbody c.
  destruct (ji_h _ _ _ _ I) as (D & F & HD & HF & HFD).
  destruct (splith_facts _ _ _ _ _ _ _ _ HD) as [HDp Ha].
  destruct (joinh_facts _ _ _ _ _ _ _ HF) as [HFp Hp].
  exists D, F. split; auto. split; [|split; [|split]]; auto.
  - apply prefix_trans with (qpop (getq c 0)); auto.
    apply prefix_trans with (qapp (getq c 0)).
    + apply (chan_pop_prefix c 0 _ _ (ji_ch _ _ _ _ I 0 ltac:(lia))).
    + apply (feeder_prefix _ _ _ _ (ji_f _ _ _ _ I)).
  - destruct HF; subst; rewrite ?app_length; simpl; lia.
  - intros j Hj. replace (j - 1) with (pred j) by lia.
    rewrite <- Ha, <- Hp by auto. split; [reflexivity|]. split; [reflexivity|].
    rewrite Ha, Hp by auto. now apply sj_mid with vs cap.
Qed.

Theorem splitjoin_safe vs k cap sched :
  1 <= k ->
  let c := run (splitjoin_prog vs k cap) sched in
  prefix (qapp (getq c (S k))) vs /\ prefix (received (tres (gett c 3))) vs.
Proof.
  intros Hk c. pose proof (sj_reachable vs k cap Hk sched) as I. fold c in I.
  destruct (splitjoin_coupling vs k cap sched Hk) as (D & F & HFD & HDv & HoF & _).
  fold c in HoF.
  assert (Ho : prefix (qapp (getq c (S k))) vs).
  { apply prefix_trans with F; auto. now apply prefix_trans with D. }
  split; auto.
  rewrite (consumer_recv _ _ _ _ _ (ji_c _ _ _ _ I)).
  apply prefix_trans with (qapp (getq c (S k))); auto.
  apply (chan_pop_prefix c (S k) _ _ (ji_ch _ _ _ _ I (S k) ltac:(lia))).
Qed.
