(* GenSort.v — property C09 for the GENERATED sorter (GenSrc.v, regenerated from v4/agent/sorter.go): mergeArrays
   computes Sorter.merge for EVERY ranker (the ranking function is the oracle [rank_ext rank], any function
   A -> A -> comparison), in place in the caller's slice (written-back slice parameter).
   Not part of the common build: compiled by ./check C09. *)
From Verif Require Import Base Sorter Seq SeqProofs SorterProofs MiniGo GenSrc GenRep GenLib.

Section GenSort.
Variable A : Type.
Variable zero : A.
Variable rank : A -> A -> comparison.
Notation ext := (rank_ext rank).
Notation call_at F := (i_call (interp_at A zero ext prog F)).

Lemma gen_RankValues a b F : 1 <= F ->
  call_at F col_val id_RankValues [VElem a; VElem b] = ROk (VInt (rank_code (rank a b)), col_val).
Proof. intros HF. fuel F 1. gocall. reflexivity. Qed.

(* ---------- mergeArrays(left, right, merged) ---------- *)
(* variables: v left right merged leftIndex leftLength rightIndex rightLength mergedIndex mergedLength *)
Definition ma_loop : stmt := nth 6 (fn_body fn_sorter__mergeArrays) SBreak.
Definition ma_cond : option expr := Eval cbv in match ma_loop with SFor _ c _ _ => c | _ => None end.
Definition ma_body : list stmt := Eval cbv in match ma_loop with SFor _ _ _ b => b | _ => [] end.

Section Merge.
Variables (cls : val A) (L R : list A).
Definition ma_env (li ri mi : nat) (M : list A) : env A :=
  [(1%positive, srt_val cls); (2%positive, VSlice (elems L)); (3%positive, VSlice (elems R));
   (4%positive, VTag 3 (VSlice (elems M))); (5%positive, VInt (Z.of_nat li)); (6%positive, VInt (Z.of_nat (length L)));
   (7%positive, VInt (Z.of_nat ri)); (8%positive, VInt (Z.of_nat (length R))); (9%positive, VInt (Z.of_nat mi));
   (10%positive, VInt (Z.of_nat (length M)))].
Definition ma_run F li ri mi M := i_loop (interp_at A zero ext prog F) ma_cond None ma_body (ma_env li ri mi M).

Ltac ma_enter F :=
  unfold ma_run; rewrite loop_S; unfold loop_step; fuel F 40; unfold ma_cond, ma_body, ma_env, srt_val, ranker_val; gogo.

Lemma ma_exit F li ri mi M : 40 <= F -> length M <= mi ->
  ma_run (S F) li ri mi M = ROk (SgNormal, ma_env li ri mi M).
Proof. intros HF H. ma_enter F. reflexivity. Qed.

Lemma set_nth_length' (k : nat) (a : A) (M : list A) : length (set_nth k a M) = length M.
Proof. apply set_nth_length. Qed.

(* both sides still have values: the smaller head (the left one only when the ranker says Lesser) *)
Lemma ma_step_both F li ri mi M : 40 <= F -> mi < length M -> li < length L -> ri < length R ->
  ma_run (S F) li ri mi M =
  match rank (nth li L zero) (nth ri R zero) with
  | Lt => ma_run F (S li) ri (S mi) (set_nth mi (nth li L zero) M)
  | _ => ma_run F li (S ri) (S mi) (set_nth mi (nth ri R zero) M)
  end.
Proof.
  intros HF HM HL HR. ma_enter F.
  repeat (rewrite (zidx_elems A zero) by lia; gorun). rewrite gen_RankValues by lia. gorun. rewrite !Nat2Z.id.
  destruct (rank (nth li L zero) (nth ri R zero)); cbn [rank_code]; gogo.
  all: repeat (rewrite (zidx_elems A zero) by lia; gorun); rewrite zset_elems by lia; gorun; rewrite ?Nat2Z.id.
  all: rewrite <- ?(set_nth_length' mi (nth li L zero) M), <- ?(set_nth_length' mi (nth ri R zero) M) at 2.
  all: unfold ma_run, ma_cond, ma_body, ma_env, srt_val, ranker_val.
  all: replace (Z.of_nat li + 1)%Z with (Z.of_nat (S li)) by lia; replace (Z.of_nat ri + 1)%Z with (Z.of_nat (S ri)) by lia;
       replace (Z.of_nat mi + 1)%Z with (Z.of_nat (S mi)) by lia.
  all: rewrite ?set_nth_length'; reflexivity.
Qed.

(* only the left side has values left: the bulk copy copy(merged[mi:], left[li:]) *)
Lemma ma_step_left F li ri mi M : 40 <= F -> mi < length M -> li < length L -> length R <= ri ->
  length M - mi = length L - li ->
  ma_run (S F) li ri mi M = ma_run F (S li) ri (S mi) (firstn mi M ++ skipn li L).
Proof.
  intros HF HM HL HR HE. ma_enter F.
  rewrite ?elems_length. rewrite zsub_elems by lia. gorun. rewrite ?elems_length. rewrite zsub_elems by lia. gorun.
  rewrite zcopy_same by (rewrite !elems_length, !firstn_length, !skipn_length; lia).
  rewrite ?elems_length. rewrite zsub_elems by lia. gorun. rewrite !elems_length, !firstn_length, !skipn_length.
  match goal with |- context[Nat.eqb ?a ?b] => replace (Nat.eqb a b) with true by (symmetry; apply Nat.eqb_eq; lia) end.
  gorun. rewrite zsplice_elems. rewrite skipn_all, app_nil_r. gorun.
  replace (Z.to_nat (Z.of_nat (length L) - Z.of_nat li)) with (length L - li) by lia. rewrite Nat2Z.id.
  rewrite (firstn_all2 (skipn li L)) by (rewrite skipn_length; lia).
  assert (LM : length (firstn mi M ++ skipn li L) = length M) by (rewrite app_length, firstn_length, skipn_length; lia).
  unfold ma_run, ma_cond, ma_body, ma_env, srt_val, ranker_val. rewrite LM.
  replace (Z.of_nat li + 1)%Z with (Z.of_nat (S li)) by lia. replace (Z.of_nat mi + 1)%Z with (Z.of_nat (S mi)) by lia.
  reflexivity.
Qed.

Lemma ma_step_right F li ri mi M : 40 <= F -> mi < length M -> length L <= li -> ri < length R ->
  length M - mi = length R - ri ->
  ma_run (S F) li ri mi M = ma_run F li (S ri) (S mi) (firstn mi M ++ skipn ri R).
Proof.
  intros HF HM HL HR HE. ma_enter F.
  rewrite ?elems_length. rewrite zsub_elems by lia. gorun. rewrite ?elems_length. rewrite zsub_elems by lia. gorun.
  rewrite zcopy_same by (rewrite !elems_length, !firstn_length, !skipn_length; lia).
  rewrite ?elems_length. rewrite zsub_elems by lia. gorun. rewrite !elems_length, !firstn_length, !skipn_length.
  match goal with |- context[Nat.eqb ?a ?b] => replace (Nat.eqb a b) with true by (symmetry; apply Nat.eqb_eq; lia) end.
  gorun. rewrite zsplice_elems. rewrite skipn_all, app_nil_r. gorun.
  replace (Z.to_nat (Z.of_nat (length R) - Z.of_nat ri)) with (length R - ri) by lia. rewrite Nat2Z.id.
  rewrite (firstn_all2 (skipn ri R)) by (rewrite skipn_length; lia).
  assert (LM : length (firstn mi M ++ skipn ri R) = length M) by (rewrite app_length, firstn_length, skipn_length; lia).
  unfold ma_run, ma_cond, ma_body, ma_env, srt_val, ranker_val. rewrite LM.
  replace (Z.of_nat ri + 1)%Z with (Z.of_nat (S ri)) by lia. replace (Z.of_nat mi + 1)%Z with (Z.of_nat (S mi)) by lia.
  reflexivity.
Qed.

Lemma skipn_S_tl (k : nat) (l : list A) : skipn (S k) l = tl (skipn k l).
Proof.
  revert l. induction k as [|k IH]; intros l.
  - destruct l; reflexivity.
  - destruct l as [|h t]; [rewrite !skipn_nil; reflexivity|]. cbn [skipn]. apply IH.
Qed.

(* after the bulk copy the rest of the loop copies the same values again: nothing changes any more *)
Lemma ma_tail_left : forall k F li ri mi M, k = length L - li -> length R <= ri -> length M - mi = length L - li ->
  mi <= length M -> skipn mi M = skipn li L -> k + 41 <= F ->
  exists li', ma_run F li ri mi M = ROk (SgNormal, ma_env li' ri (length M) M).
Proof.
  induction k as [|k IH]; intros F li ri mi M HK HR HE HM HSk HF; (destruct F as [|F]; [lia|]).
  - rewrite ma_exit by lia. assert (mi = length M) by lia. subst mi. eexists; reflexivity.
  - rewrite ma_step_left by lia. rewrite <- HSk, firstn_skipn.
    apply IH; try lia. rewrite !skipn_S_tl, HSk. reflexivity.
Qed.
Lemma ma_tail_right : forall k F li ri mi M, k = length R - ri -> length L <= li -> length M - mi = length R - ri ->
  mi <= length M -> skipn mi M = skipn ri R -> k + 41 <= F ->
  exists ri', ma_run F li ri mi M = ROk (SgNormal, ma_env li ri' (length M) M).
Proof.
  induction k as [|k IH]; intros F li ri mi M HK HL HE HM HSk HF; (destruct F as [|F]; [lia|]).
  - rewrite ma_exit by lia. assert (mi = length M) by lia. subst mi. eexists; reflexivity.
  - rewrite ma_step_right by lia. rewrite <- HSk, firstn_skipn.
    apply IH; try lia. rewrite !skipn_S_tl, HSk. reflexivity.
Qed.

Lemma firstn_set_nth_S (mi : nat) (a : A) (M : list A) : mi < length M ->
  firstn (S mi) (set_nth mi a M) = firstn mi M ++ [a].
Proof.
  revert mi. induction M as [|h t IH]; intros [|mi] H; cbn in *; try lia; try reflexivity.
  rewrite IH by lia. reflexivity.
Qed.

(* the loop computes Sorter.merge: one unit of fuel per value still to be placed, plus a constant *)
Lemma ma_sim : forall rem F li ri mi M, rem = length M - mi -> mi <= length M ->
  length M - mi = (length L - li) + (length R - ri) -> li <= length L -> ri <= length R -> rem + 41 <= F ->
  exists li' ri' M', ma_run F li ri mi M = ROk (SgNormal, ma_env li' ri' (length M') M') /\
    M' = firstn mi M ++ merge rank rem (skipn li L) (skipn ri R) /\ length M' = length M.
Proof.
  induction rem as [|rem IH]; intros F li ri mi M HR HM HE HL HRr HF; (destruct F as [|F]; [lia|]).
  - rewrite ma_exit by lia. assert (mi = length M) by lia. subst mi.
    exists li, ri, M. cbn [merge]. rewrite firstn_all, app_nil_r. repeat split; reflexivity.
  - destruct (Nat.lt_ge_cases li (length L)) as [HLl|HLl]; destruct (Nat.lt_ge_cases ri (length R)) as [HRl|HRl].
    + rewrite ma_step_both by lia.
      rewrite (skipn_cons_nth A li L zero) by lia. rewrite (skipn_cons_nth A ri R zero) by lia.
      destruct (merge_cases rank rem (nth li L zero) (skipn (S li) L) (nth ri R zero) (skipn (S ri) R)) as [[E1 E2]|[E1 E2]];
        rewrite E2.
      * rewrite E1.
        destruct (IH F (S li) ri (S mi) (set_nth mi (nth li L zero) M)) as [li' [ri' [M' [RUN [EM LM]]]]];
          try (rewrite ?set_nth_length; lia).
        exists li', ri', M'. split; [exact RUN|]. rewrite set_nth_length in LM. split; [|exact LM].
        rewrite EM, firstn_set_nth_S by lia. rewrite <- app_assoc. cbn [app].
        rewrite <- (skipn_cons_nth A ri R zero) by lia. reflexivity.
      * assert (EQ : ma_run F li (S ri) (S mi) (set_nth mi (nth ri R zero) M) =
                     match rank (nth li L zero) (nth ri R zero) with
                     | Lt => ma_run F (S li) ri (S mi) (set_nth mi (nth li L zero) M)
                     | _ => ma_run F li (S ri) (S mi) (set_nth mi (nth ri R zero) M) end)
          by (destruct (rank (nth li L zero) (nth ri R zero)); [reflexivity|contradiction|reflexivity]).
        rewrite <- EQ.
        destruct (IH F li (S ri) (S mi) (set_nth mi (nth ri R zero) M)) as [li' [ri' [M' [RUN [EM LM]]]]];
          try (rewrite ?set_nth_length; lia).
        exists li', ri', M'. split; [exact RUN|]. rewrite set_nth_length in LM. split; [|exact LM].
        rewrite EM, firstn_set_nth_S by lia. rewrite <- app_assoc. cbn [app].
        rewrite <- (skipn_cons_nth A li L zero) by lia. reflexivity.
    + (* right exhausted *)
      rewrite (skipn_all2 R) by lia. rewrite (skipn_cons_nth A li L zero) by lia. cbn [merge].
      rewrite <- (skipn_cons_nth A li L zero) by lia.
      rewrite ma_step_left by lia.
      set (M1 := firstn mi M ++ skipn li L).
      assert (L1 : length M1 = length M) by (unfold M1; rewrite app_length, firstn_length, skipn_length; lia).
      destruct (ma_tail_left (length L - S li) F (S li) ri (S mi) M1) as [li' RUN]; try lia.
      { unfold M1. rewrite skipn_app, firstn_length. replace (S mi - Init.Nat.min mi (length M)) with 1 by lia.
        rewrite skipn_all2 by (rewrite firstn_length; lia). cbn [app]. rewrite (skipn_S_tl li L).
        destruct (skipn li L); reflexivity. }
      exists li', ri, M1. rewrite L1 in RUN. split; [rewrite L1; exact RUN|]. split; [reflexivity|exact L1].
    + (* left exhausted *)
      rewrite (skipn_all2 L) by lia. cbn [merge].
      rewrite ma_step_right by lia.
      set (M1 := firstn mi M ++ skipn ri R).
      assert (L1 : length M1 = length M) by (unfold M1; rewrite app_length, firstn_length, skipn_length; lia).
      destruct (ma_tail_right (length R - S ri) F li (S ri) (S mi) M1) as [ri' RUN]; try lia.
      { unfold M1. rewrite skipn_app, firstn_length. replace (S mi - Init.Nat.min mi (length M)) with 1 by lia.
        rewrite skipn_all2 by (rewrite firstn_length; lia). cbn [app]. rewrite (skipn_S_tl ri R).
        destruct (skipn ri R); reflexivity. }
      exists li, ri', M1. rewrite L1 in RUN. split; [rewrite L1; exact RUN|]. split; [reflexivity|exact L1].
    + lia.
Qed.
End Merge.

(* mergeArrays(left, right, merged) with len(merged) = len(left) + len(right): merged becomes Sorter.merge left right,
   handed back to the caller as written-back parameter 3; the sorter itself is unchanged *)
Definition wtag (t : bool) (x : val A) : val A := if t then VTag 1 x else x.
(* the arguments may carry the tag of the CALLER's own written-back parameter (sortValues passes segments of its
   two arrays, one of which is its parameter): it is removed at call entry *)
Lemma gen_mergeArrays_tagged cls (tl tm : bool) L R M F : length M = length L + length R -> length M + 80 <= F ->
  call_at F (srt_val cls) id_mergeArrays [wtag tl (VSlice (elems L)); wtag tl (VSlice (elems R)); wtag tm (VSlice (elems M))] =
  ROk (VTuple [], VWb (srt_val cls) [(3, VSlice (elems (merge rank (length M) L R)))]).
Proof.
  intros HM HF. fuel F 30. destruct tl, tm; cbn [wtag]; gocall; rewrite ?elems_length.
  all: match goal with |- context[i_loop (interp_at A zero ext prog ?FF) ?c ?p ?b ?en] =>
    destruct (ma_sim cls L R (length M) FF 0 0 0 M ltac:(lia) ltac:(lia) ltac:(lia) ltac:(lia) ltac:(lia) ltac:(lia))
      as [li' [ri' [M' [RUN [EM LM]]]]];
    change (i_loop (interp_at A zero ext prog FF) c p b en) with (ma_run cls L R FF 0 0 0 M)
  end.
  all: rewrite RUN; unfold ma_env; gorun; cbn [firstn skipn app] in EM; subst M'; reflexivity.
Qed.
Lemma gen_mergeArrays cls L R M F : length M = length L + length R -> length M + 80 <= F ->
  call_at F (srt_val cls) id_mergeArrays [VSlice (elems L); VSlice (elems R); VSlice (elems M)] =
  ROk (VTuple [], VWb (srt_val cls) [(3, VSlice (elems (merge rank (length M) L R)))]).
Proof. apply (gen_mergeArrays_tagged cls false false). Qed.

(* ---------- sortValues: the passes ---------- *)
(* variables: v values length buffer width left middle right.  The caller's array is the one under tag 1; the two
   variables exchange it after every pass ([t]: the tag is on values). *)
Definition sv_outer : stmt := nth 3 (fn_body fn_sorter__sortValues) SBreak.
Definition sv_inner : stmt := Eval cbv in match sv_outer with SFor _ _ _ (i :: _) => i | _ => SBreak end.
Definition pi_cond : option expr := Eval cbv in match sv_inner with SFor _ c _ _ => c | _ => None end.
Definition pi_post : option stmt := Eval cbv in match sv_inner with SFor _ _ p _ => p | _ => None end.
Definition pi_body : list stmt := Eval cbv in match sv_inner with SFor _ _ _ b => b | _ => [] end.
Definition seg (B : list A) (a b : nat) : list A := firstn (b - a) (skipn a B).

(* run, looking variables up through the declarations of earlier iterations, splitting on comparisons *)
Ltac golook :=
  gorun; repeat (first [rewrite lookup_set_same | rewrite lookup_set_other by discriminate | zsplit; try (exfalso; lia)]; gorun).

Section Pass.
Variables (cls : val A) (t : bool) (B : list A) (n w : nat).
Hypothesis HB : length B = n.
Hypothesis HW : 1 <= w.
Definition pi_env (V : list A) (left : nat) : env A :=
  [(1%positive, srt_val cls); (2%positive, wtag t (VSlice (elems V))); (3%positive, VInt (Z.of_nat n));
   (4%positive, wtag (negb t) (VSlice (elems B))); (5%positive, VInt (Z.of_nat w)); (6%positive, VInt (Z.of_nat left))].
Definition pi_run F V left T := i_loop (interp_at A zero ext prog F) pi_cond pi_post pi_body (pi_env V left ++ T).

Lemma pi_exit F V left T : 30 <= F -> n <= left ->
  pi_run (S F) V left T = ROk (SgNormal, pi_env V left ++ T).
Proof.
  intros HF H. unfold pi_run. rewrite loop_S; unfold loop_step. fuel F 30. unfold pi_cond, pi_post, pi_body, pi_env. gogo. reflexivity.
Qed.

Lemma seg_length a b : a <= b -> b <= n -> length (seg B a b) = b - a.
Proof. intros H1 H2. unfold seg. rewrite firstn_length, skipn_length. lia. Qed.

(* one chunk: merge buffer[left:middle] and buffer[middle:right] into values[left:right] *)
Lemma zsub_seg (X : list A) (a b : nat) : a <= b -> b <= length X ->
  zsub A (elems X) (Z.of_nat a) (Z.of_nat b) = Some (elems (seg X a b)).
Proof.
  intros H1 H2. rewrite zsub_elems by lia. unfold seg.
  replace (Z.to_nat (Z.of_nat b - Z.of_nat a)) with (b - a) by lia. rewrite Nat2Z.id. reflexivity.
Qed.

Lemma zsub_seg' (X : list A) (a b : nat) (za zb : Z) : za = Z.of_nat a -> zb = Z.of_nat b -> a <= b -> b <= length X ->
  zsub A (elems X) za zb = Some (elems (seg X a b)).
Proof. intros -> ->. apply zsub_seg. Qed.

Lemma zsplice_elems' (X : list A) (a b : nat) (za zb : Z) (sg : list A) : za = Z.of_nat a -> zb = Z.of_nat b ->
  zsplice A (elems X) za zb (elems sg) = elems (firstn a X ++ sg ++ skipn b X).
Proof. intros -> ->. apply zsplice_elems. Qed.

Lemma pi_step F V left T middle right :
  middle = Nat.min (left + w) n -> right = Nat.min (middle + w) n ->
  n + 200 <= F -> length V = n -> left < n ->
  exists T', pi_run (S F) V left T =
    pi_run F (firstn left V ++ merge rank (right - left) (seg B left middle) (seg B middle right) ++ skipn right V)
           (left + 2 * w) T'.
Proof.
  intros EM ER HF HV HL.
  assert (LV : length (seg V left right) = right - left) by (unfold seg; rewrite firstn_length, skipn_length; lia).
  pose proof (fun tl tm => gen_mergeArrays_tagged cls tl tm (seg B left middle) (seg B middle right) (seg V left right)) as GM.
  rewrite !seg_length, LV in GM by lia.
  pose proof (fun F => GM false true F ltac:(lia)) as GM1. pose proof (fun F => GM true false F ltac:(lia)) as GM2.
  cbn [wtag] in GM1, GM2. clear GM.
  unfold pi_run. rewrite loop_S; unfold loop_step. fuel F 60. unfold pi_cond, pi_post, pi_body, pi_env, wtag.
  destruct (le_gt_dec (left + w) n) as [C1|C1]; destruct (le_gt_dec (middle + w) n) as [C2|C2];
    try (exfalso; lia); destruct t; cbn [negb]; eexists; gorun; golook.
  all: rewrite (zsub_seg' B left middle) by lia; golook.
  all: rewrite (zsub_seg' B middle right) by lia; golook.
  all: rewrite (zsub_seg' V left right) by lia; golook.
  all: first [rewrite GM1 by lia | rewrite GM2 by lia]; golook.
  all: rewrite (zsub_seg' V left right) by lia; golook.
  all: rewrite (zsub_seg' V left right) by lia; golook.
  all: try (rewrite (zsplice_elems' V left right) by lia).
  all: replace (Z.of_nat left + Z.of_nat w * 2)%Z with (Z.of_nat (left + 2 * w)) by lia.
  all: try reflexivity.
  all: try (match goal with Hn : length (elems _) <> _ |- _ => exfalso; apply Hn end;
            rewrite !elems_length, LV, (merge_length0 rank) by (rewrite !seg_length by lia; lia);
            rewrite !seg_length by lia; lia).
Qed.
End Pass.
End GenSort.
