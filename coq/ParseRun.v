(* ParseRun.v — decoders and comparison for the CDCN scanner/parser correspondence
   (C11, C12).  A case is one source text (the runes of []rune(source)), the table of the
   float texts occurring in it with strconv.ParseFloat's answers (the oracle), and what the
   real code did: the token stream of Scanner().Make, the outcome of ParseSource, whether a
   scanner goroutine was left behind, and whether re-parsing under perturbed schedules gave
   the same outcome every time.  No proofs. *)
From Verif Require Import Base Params Value Lexer Literals Parser.
Close Scope string_scope.
Open Scope Z_scope.

Inductive pobs :=
| OValue (v : val)
| OSyntax (ty : ttype) (line pos : Z)   (* parsed from the diagnostic's text *)
| ORuntime                              (* a Go runtime.Error *)
| OPanic (code : Z)                     (* any other panic: 1 collator depth limit, 2 push-back stack overflow, 0 unknown *)
| OHang.

Record pcase := {
  pc_src : list Z;
  pc_floats : list (list Z * option Z);
  pc_cx : list (Z * Z * (Z * Z));   (* (re, im, (abs, phase)): cmplx.Abs / cmplx.Phase of the complex literals, for the collator *)
  pc_toks : list token;
  pc_out : pobs;
  pc_leak : bool;       (* a goroutine in scanTokens was still there after the call *)
  pc_stable : bool      (* all perturbed-schedule runs gave the same outcome as the first *)
}.

Definition table_fparse (tbl : list (list Z * option Z)) (t : list Z) : option Z :=
  match find (fun e => list_eqb Z.eqb (fst e) t) tbl with
  | Some e => snd e
  | None => None
  end.

(* The parser model leaves the two oracle fields of a complex number (cmplx.Abs, cmplx.Phase)
   at 0; the collator model of Value.v ranks complex numbers by them, so they are filled in
   from the table of the case before two values are ranked. *)
Fixpoint decorate (tbl : list (Z * Z * (Z * Z))) (v : val) {struct v} : val :=
  match v with
  | VComplex w re im _ _ =>
    match find (fun e => (fst (fst e) =? re) && (snd (fst e) =? im)) tbl with
    | Some e => VComplex w re im (fst (snd e)) (snd (snd e))
    | None => v
    end
  | VSeq k l => VSeq k (map (decorate tbl) l)
  | VAssoc k x => VAssoc (decorate tbl k) (decorate tbl x)
  | VMapping m ks vs => VMapping m (map (decorate tbl) ks) (map (decorate tbl) vs)
  | _ => v
  end.

(* the default collator of Value.v as the Set constructor's ranking *)
Definition default_crank (tbl : list (Z * Z * (Z * Z))) (a b : val) : option comparison :=
  match rank0 (Z.to_nat Params.collator_default_maximum) (decorate tbl a) (decorate tbl b) with
  | R c => Some c
  | _ => None
  end.

(* equality of parsed values: the oracle fields of complex numbers are ignored, the
   entries of a Map are compared as a set (keys are pairwise distinct on both sides) *)
(* keys of associations are intrinsics *)
Definition key_sim (a b : val) : bool :=
  match a, b with
  | VComplex w1 r1 i1 _ _, VComplex w2 r2 i2 _ _ => (w1 =? w2) && (r1 =? r2) && (i1 =? i2)
  | _, _ => val_eqb a b
  end.

Fixpoint val_sim (a b : val) {struct a} : bool :=
  let fix go (xs ys : list val) {struct xs} : bool :=
    match xs, ys with
    | [], [] => true
    | x :: xs', y :: ys' => val_sim x y && go xs' ys'
    | _, _ => false
    end in
  match a, b with
  | VComplex w1 r1 i1 _ _, VComplex w2 r2 i2 _ _ => (w1 =? w2) && (r1 =? r2) && (i1 =? i2)
  | VSeq k1 l1, VSeq k2 l2 => skind_eqb k1 k2 && go l1 l2
  | VAssoc k1 v1, VAssoc k2 v2 => val_sim k1 k2 && val_sim v1 v2
  | VMapping MMap ks1 vs1, VMapping MMap ks2 vs2 =>
    Nat.eqb (length ks1) (length ks2) && Nat.eqb (length vs1) (length vs2) &&
    (fix all_in (ks vs : list val) {struct vs} : bool :=
       match ks, vs with
       | k :: ks', v :: vs' =>
         (fix find_in (ks3 vs3 : list val) {struct ks3} : bool :=
            match ks3, vs3 with
            | k3 :: ks3', v3 :: vs3' => (key_sim k k3 && val_sim v v3) || find_in ks3' vs3'
            | _, _ => false
            end) ks2 vs2 && all_in ks' vs'
       | _, _ => true
       end) ks1 vs1
  | VMapping m1 ks1 vs1, VMapping m2 ks2 vs2 => mkind_eqb m1 m2 && go ks1 ks2 && go vs1 vs2
  | _, _ => val_eqb a b
  end.

Definition outcome_ok (o : outcome) (obs : pobs) : bool :=
  match o, obs with
  | PValue v, OValue w => val_sim v w
  | PSyntax t, OSyntax ty line pos => ttype_eqb (ttype_of t) ty && (tline t =? line) && (tpos t =? pos)
  | PRuntime RPushOverflow, OPanic 2 => true
  | PRuntime RStarved, OHang => true
  | _, _ => false
  end.

Definition model_outcome (c : pcase) : outcome :=
  parse_source (table_fparse (pc_floats c)) (default_crank (pc_cx c)) (pc_src c).

(* first disagreement of a case: 1 token stream, 2 outcome, 3 scanner goroutine left
   behind (the repaired ParseSource never leaves one), 4 schedule dependence *)
Definition case_code (c : pcase) : option nat :=
  if negb (list_eqb token_eqb (lex (pc_src c)) (pc_toks c)) then Some 1%nat
  else if negb (outcome_ok (model_outcome c) (pc_out c)) then Some 2%nat
  else if pc_leak c then Some 3%nat
  else if negb (pc_stable c) then Some 4%nat
  else None.

Fixpoint pmismatches_from (n : nat) (cases : list pcase) : list (nat * nat) :=
  match cases with
  | [] => []
  | c :: t =>
    match case_code c with
    | None => pmismatches_from (S n) t
    | Some k => (n, k) :: pmismatches_from (S n) t
    end
  end.
Definition pmismatches (cases : list pcase) : list (nat * nat) := pmismatches_from 0 cases.

Definition empty_case : pcase :=
  {| pc_src := []; pc_floats := []; pc_cx := []; pc_toks := []; pc_out := OHang; pc_leak := false; pc_stable := true |}.

(* what the model computes for a case: its token stream and outcome, next to the observed ones *)
Definition case_report (c : pcase) :=
  (lex (pc_src c), pc_toks c, model_outcome c, pc_out c, pc_leak c, pc_stable c).
