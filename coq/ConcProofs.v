(* ConcProofs.v — safety proofs about the interleaving model Conc.v of v4/collection/queue.go.
   Contents: list helpers; an inductive view [stepR] of the micro-step function (proved
   equivalent to [step]); the queue invariant [Q_inv] for every program and every schedule;
   the step-level and reachable-level facts used by C04.v.
   Everything is quantified over all thread lists (programs), all schedules, any number of
   queues, any capacities. *)
From Verif Require Import Base Conc.
From Coq Require Import Permutation.
Open Scope nat_scope.

(* ------------------------------------------------------------------------- *)
(* list helpers                                                              *)
(* ------------------------------------------------------------------------- *)

Lemma nth_set_nth_eq {A} k (v d : A) l : k < length l -> nth k (set_nth k v l) d = v.
Proof.
  revert k; induction l as [|h tl IH]; intros [|k] H; simpl in *; try lia; auto.
  apply IH; lia.
Qed.

Lemma nth_set_nth_neq {A} k j (v d : A) l : k <> j -> nth k (set_nth j v l) d = nth k l d.
Proof.
  revert k j; induction l as [|h tl IH]; intros [|k] [|j] H; simpl; auto; try lia.
Qed.

Lemma set_nth_oob {A} k (v : A) l : length l <= k -> set_nth k v l = l.
Proof.
  revert k; induction l as [|h tl IH]; intros [|k] H; simpl in *; auto; try lia.
  f_equal; apply IH; lia.
Qed.

Lemma set_nth_same {A} k (d : A) l : set_nth k (nth k l d) l = l.
Proof.
  revert k; induction l as [|h tl IH]; intros [|k]; simpl; auto.
  f_equal; apply IH.
Qed.

Lemma sum_set_nth {A} (f : A -> nat) t x l d : t < length l ->
  list_sum (map f (set_nth t x l)) + f (nth t l d) = list_sum (map f l) + f x.
Proof.
  revert t; induction l as [|h tl IH]; intros [|t] H; simpl in *; try lia.
  specialize (IH t ltac:(lia)). lia.
Qed.

Lemma concat_set_nth_perm {A B} (f : A -> list B) t x l d : t < length l ->
  Permutation (concat (map f (set_nth t x l)) ++ f (nth t l d)) (concat (map f l) ++ f x).
Proof.
  revert t; induction l as [|h tl IH]; intros [|t] H; simpl in *; try lia.
  - rewrite <- !app_assoc.
    etransitivity; [apply Permutation_app_swap_app|].
    etransitivity; [|apply Permutation_app_swap_app].
    apply Permutation_app_head. apply Permutation_app_comm.
  - rewrite <- !app_assoc. apply Permutation_app_head. apply IH; lia.
Qed.

Lemma map_set_nth_same {A B} (f : A -> B) k x l d :
  f x = f (nth k l d) -> map f (set_nth k x l) = map f l.
Proof.
  revert k; induction l as [|h tl IH]; intros [|k] H; simpl in *; auto.
  - now rewrite H.
  - f_equal; apply IH; auto.
Qed.

Lemma Forall_set_nth {A} (P : A -> Prop) k x l : Forall P l -> P x -> Forall P (set_nth k x l).
Proof.
  intros Hl Hx; revert k; induction Hl as [|h tl Hh Htl IH]; intros [|k]; simpl; auto.
Qed.

Lemma Forall_nth_d {A} (P : A -> Prop) l d k : Forall P l -> P d -> P (nth k l d).
Proof.
  intros Hl Hd; revert k; induction Hl as [|h tl Hh Htl IH]; intros [|k]; simpl; auto.
Qed.

(* ------------------------------------------------------------------------- *)
(* accessors of the configuration                                            *)
(* ------------------------------------------------------------------------- *)

Lemma getq_sett c t th q : getq (sett c t th) q = getq c q.
Proof. reflexivity. Qed.

Lemma getq_setq_eq c q s : q < length (queues c) -> getq (setq c q s) q = s.
Proof. intros H; unfold getq, setq; simpl. now apply nth_set_nth_eq. Qed.

Lemma getq_setq_neq c q q' s : q' <> q -> getq (setq c q s) q' = getq c q'.
Proof. intros H; unfold getq, setq; simpl. now apply nth_set_nth_neq. Qed.

Lemma setq_oob c q s : length (queues c) <= q -> queues (setq c q s) = queues c.
Proof. intros H; unfold setq; simpl. now apply set_nth_oob. Qed.

Lemma gett_sett_eq c t th : t < length (threads c) -> gett (sett c t th) t = th.
Proof. intros H; unfold gett, sett; simpl. now apply nth_set_nth_eq. Qed.

Lemma gett_sett_neq c t t' th : t' <> t -> gett (sett c t th) t' = gett c t'.
Proof. intros H; unfold gett, sett; simpl. now apply nth_set_nth_neq. Qed.

Lemma gett_setq c q s t : gett (setq c q s) t = gett c t.
Proof. reflexivity. Qed.

Lemma gett_live c t : tph (gett c t) <> PStuck -> t < length (threads c).
Proof.
  intros H. destruct (Nat.lt_ge_cases t (length (threads c))) as [Hlt|Hge]; auto.
  exfalso; apply H. unfold gett. now rewrite nth_overflow.
Qed.

Lemma getq_oob c q : length (queues c) <= q -> getq c q = dummyq.
Proof. intros H; unfold getq. now apply nth_overflow. Qed.

Lemma getq_tok_inrange c q : 0 < qtok (getq c q) -> q < length (queues c).
Proof.
  intros H. destruct (Nat.lt_ge_cases q (length (queues c))) as [Hlt|Hge]; auto.
  rewrite getq_oob in H by auto. simpl in H. lia.
Qed.

Lemma getq_cap_inrange c q : 0 < qcap (getq c q) -> q < length (queues c).
Proof.
  intros H. destruct (Nat.lt_ge_cases q (length (queues c))) as [Hlt|Hge]; auto.
  rewrite getq_oob in H by auto. simpl in H. lia.
Qed.

Lemma getq_vals_inrange c q : qvals (getq c q) <> [] -> q < length (queues c).
Proof.
  intros H. destruct (Nat.lt_ge_cases q (length (queues c))) as [Hlt|Hge]; auto.
  rewrite getq_oob in H by auto. simpl in H. congruence.
Qed.

(* ------------------------------------------------------------------------- *)
(* the micro-step as a relation: one constructor per branch of [step]        *)
(* ------------------------------------------------------------------------- *)

Section StepR.
Variable c : config.
Variable t : nat.
Let th := gett c t.

Inductive stepR : config -> Prop :=
(* AddValue, first half: append under the mutex *)
| SAppend q v rest :
    tph th = PIdle -> tcalls th = CAdd q v :: rest ->
    stepR (sett (setq c q {| qvals := qvals (getq c q) ++ [v]; qtok := qtok (getq c q);
                             qcap := qcap (getq c q); qclosed := qclosed (getq c q);
                             qapp := qapp (getq c q) ++ [v]; qpop := qpop (getq c q) |})
                t (in_phase th (PSend q)))
(* AddValue, second half: publish the token *)
| SSend q q1 v rest :
    tph th = PSend q -> tcalls th = CAdd q1 v :: rest ->
    qclosed (getq c q) = false -> qtok (getq c q) < qcap (getq c q) ->
    stepR (sett (setq c q {| qvals := qvals (getq c q); qtok := S (qtok (getq c q));
                             qcap := qcap (getq c q); qclosed := false;
                             qapp := qapp (getq c q); qpop := qpop (getq c q) |})
                t (finish th rest RAdded))
| SSendPanic q q1 v rest :
    tph th = PSend q -> tcalls th = CAdd q1 v :: rest ->
    qclosed (getq c q) = true ->
    stepR (sett c t (stuck th))
(* RemoveHead *)
| SClaim q rest :
    tph th = PIdle -> tcalls th = CRemoveHead q :: rest -> 0 < qtok (getq c q) ->
    stepR (sett (setq c q {| qvals := qvals (getq c q); qtok := qtok (getq c q) - 1;
                             qcap := qcap (getq c q); qclosed := qclosed (getq c q);
                             qapp := qapp (getq c q); qpop := qpop (getq c q) |})
                t (in_phase th (PPop q)))
| SHeadClosed q rest :
    tph th = PIdle -> tcalls th = CRemoveHead q :: rest ->
    qtok (getq c q) = 0 -> qclosed (getq c q) = true ->
    stepR (sett c t (finish_head th rest 0%Z false))
| SPop q q1 rest v vs :
    tph th = PPop q -> tcalls th = CRemoveHead q1 :: rest ->
    qvals (getq c q) = v :: vs ->
    stepR (sett (setq c q {| qvals := vs; qtok := qtok (getq c q);
                             qcap := qcap (getq c q); qclosed := qclosed (getq c q);
                             qapp := qapp (getq c q); qpop := qpop (getq c q) ++ [v] |})
                t (finish_head th rest v true))
| SPopPanic q q1 rest :
    tph th = PPop q -> tcalls th = CRemoveHead q1 :: rest ->
    qvals (getq c q) = [] ->
    stepR (sett c t (stuck th))
(* CloseQueue *)
| SClose q rest :
    tph th = PIdle -> tcalls th = CClose q :: rest -> qclosed (getq c q) = false ->
    stepR (sett (setq c q {| qvals := qvals (getq c q); qtok := qtok (getq c q);
                             qcap := qcap (getq c q); qclosed := true;
                             qapp := qapp (getq c q); qpop := qpop (getq c q) |})
                t (finish th rest RClosed))
| SClosePanic q rest :
    tph th = PIdle -> tcalls th = CClose q :: rest -> qclosed (getq c q) = true ->
    stepR (sett c t (stuck th))
(* RemoveAll *)
| SDrainClaim q rest :
    tph th = PIdle -> tcalls th = CRemoveAll q :: rest -> 0 < qtok (getq c q) ->
    stepR (sett (setq c q {| qvals := qvals (getq c q); qtok := qtok (getq c q) - 1;
                             qcap := qcap (getq c q); qclosed := qclosed (getq c q);
                             qapp := qapp (getq c q); qpop := qpop (getq c q) |})
                t (in_phase th (PDiscard q)))
| SDrainDone q rest :
    tph th = PIdle -> tcalls th = CRemoveAll q :: rest -> qtok (getq c q) = 0 ->
    stepR (sett c t (finish th rest RCleared))
| SDiscard q v vs :
    tph th = PDiscard q -> qvals (getq c q) = v :: vs ->
    stepR (sett (setq c q {| qvals := vs; qtok := qtok (getq c q);
                             qcap := qcap (getq c q); qclosed := qclosed (getq c q);
                             qapp := qapp (getq c q); qpop := qpop (getq c q) ++ [v] |})
                t (in_phase th PIdle))
| SDiscardPanic q :
    tph th = PDiscard q -> qvals (getq c q) = [] ->
    stepR (sett c t (stuck th))
(* observers *)
| SSize q rest :
    tph th = PIdle -> tcalls th = CGetSize q :: rest ->
    stepR (sett c t (finish th rest (RSize (qtok (getq c q)))))
| SEmpty q rest :
    tph th = PIdle -> tcalls th = CIsEmpty q :: rest ->
    stepR (sett c t (finish th rest (REmpty (qtok (getq c q) =? 0))))
| SArray q rest :
    tph th = PIdle -> tcalls th = CAsArray q :: rest ->
    stepR (sett c t (finish th rest (RArray (qvals (getq c q)))))
(* wait group *)
| SWait rest :
    tph th = PIdle -> tcalls th = CWait :: rest -> wg c = 0 ->
    stepR (sett c t (finish th rest RWaited))
| SDone rest :
    tph th = PIdle -> tcalls th = CDone :: rest ->
    stepR (sett {| queues := queues c; wg := wg c - 1; threads := threads c |} t
                (finish th rest RDoneWg)).
End StepR.

Lemma pop_head_some s v s' : pop_head s = Some (v, s') ->
  exists vs, qvals s = v :: vs /\
    s' = {| qvals := vs; qtok := qtok s; qcap := qcap s; qclosed := qclosed s;
            qapp := qapp s; qpop := qpop s ++ [v] |}.
Proof.
  unfold pop_head. destruct (qvals s) as [|w vs]; intros H; [discriminate|].
  inversion H; subst. eauto.
Qed.

Lemma pop_head_none s : pop_head s = None -> qvals s = [].
Proof. unfold pop_head. destruct (qvals s); intros H; [auto|discriminate]. Qed.

Lemma step_stepR c t c' : step c t = Some c' -> stepR c t c'.
Proof.
  unfold step. intros H.
  destruct (tph (gett c t)) as [|q|q|q|] eqn:Hph.
  - (* PIdle *)
    destruct (tcalls (gett c t)) as [|[q v|q|q|q|q|q|q| | ] rest] eqn:Hcalls.
    + discriminate.
    + inversion H; subst. eapply SAppend; eauto.
    + destruct (0 <? qtok (getq c q)) eqn:Htok.
      * apply Nat.ltb_lt in Htok. inversion H; subst. eapply SClaim; eauto.
      * apply Nat.ltb_ge in Htok.
        destruct (qclosed (getq c q)) eqn:Hcl; [|discriminate].
        inversion H; subst. eapply SHeadClosed; eauto. lia.
    + destruct (qclosed (getq c q)) eqn:Hcl; inversion H; subst.
      * eapply SClosePanic; eauto.
      * eapply SClose; eauto.
    + destruct (0 <? qtok (getq c q)) eqn:Htok; inversion H; subst.
      * apply Nat.ltb_lt in Htok. eapply SDrainClaim; eauto.
      * apply Nat.ltb_ge in Htok. eapply SDrainDone; eauto. lia.
    + inversion H; subst. eapply SSize; eauto.
    + inversion H; subst. eapply SEmpty; eauto.
    + inversion H; subst. eapply SArray; eauto.
    + destruct (wg c =? 0) eqn:Hwg; [|discriminate].
      apply Nat.eqb_eq in Hwg. inversion H; subst. eapply SWait; eauto.
    + inversion H; subst. eapply SDone; eauto.
  - (* PSend *)
    destruct (tcalls (gett c t)) as [|[q1 v|?|?|?|?|?|?| | ] rest] eqn:Hcalls; try discriminate.
    destruct (qclosed (getq c q)) eqn:Hcl.
    + inversion H; subst. eapply SSendPanic; eauto.
    + destruct (qtok (getq c q) <? qcap (getq c q)) eqn:Htok; [|discriminate].
      apply Nat.ltb_lt in Htok. inversion H; subst. eapply SSend; eauto.
  - (* PPop *)
    destruct (tcalls (gett c t)) as [|[?|q1|?|?|?|?|?| | ] rest] eqn:Hcalls; try discriminate.
    destruct (pop_head (getq c q)) as [[v s']|] eqn:Hpop.
    + apply pop_head_some in Hpop. destruct Hpop as [vs [Hv Hs]]. subst s'.
      inversion H; subst. eapply SPop; eauto.
    + apply pop_head_none in Hpop. inversion H; subst. eapply SPopPanic; eauto.
  - (* PDiscard *)
    destruct (pop_head (getq c q)) as [[v s']|] eqn:Hpop.
    + apply pop_head_some in Hpop. destruct Hpop as [vs [Hv Hs]]. subst s'.
      inversion H; subst. eapply SDiscard; eauto.
    + apply pop_head_none in Hpop. inversion H; subst. eapply SDiscardPanic; eauto.
  - discriminate.
Qed.

(* the relation says nothing more than the function *)
Lemma stepR_step c t c' : stepR c t c' -> step c t = Some c'.
Proof.
  intros H; unfold step; destruct H as
    [q v rest Hph Hc | q q1 v rest Hph Hc Hcl Htok | q q1 v rest Hph Hc Hcl
    | q rest Hph Hc Htok | q rest Hph Hc Htok Hcl | q q1 rest v vs Hph Hc Hv | q q1 rest Hph Hc Hv
    | q rest Hph Hc Hcl | q rest Hph Hc Hcl
    | q rest Hph Hc Htok | q rest Hph Hc Htok | q v vs Hph Hv | q Hph Hv
    | q rest Hph Hc | q rest Hph Hc | q rest Hph Hc | rest Hph Hc Hwg | rest Hph Hc];
    rewrite Hph; try rewrite Hc; auto.
  - rewrite Hcl. apply Nat.ltb_lt in Htok. now rewrite Htok.
  - now rewrite Hcl.
  - apply Nat.ltb_lt in Htok. now rewrite Htok.
  - rewrite Htok, Hcl. reflexivity.
  - unfold pop_head. now rewrite Hv.
  - unfold pop_head. now rewrite Hv.
  - now rewrite Hcl.
  - now rewrite Hcl.
  - apply Nat.ltb_lt in Htok. now rewrite Htok.
  - now rewrite Htok.
  - unfold pop_head. now rewrite Hv.
  - unfold pop_head. now rewrite Hv.
  - rewrite Hwg. reflexivity.
Qed.

Lemma step_iff_stepR c t c' : step c t = Some c' <-> stepR c t c'.
Proof. split; [apply step_stepR | apply stepR_step]. Qed.

(* ------------------------------------------------------------------------- *)
(* the invariant                                                             *)
(* ------------------------------------------------------------------------- *)

(* a thread inside a call still has that call at the head of its pending list *)
Definition T_inv (th : thread) : Prop :=
  match tph th with
  | PSend q => exists v rest, tcalls th = CAdd q v :: rest
  | PPop q => exists rest, tcalls th = CRemoveHead q :: rest
  | PDiscard q => exists rest, tcalls th = CRemoveAll q :: rest
  | PIdle | PStuck => True
  end.

Definition in_send (q : nat) (th : thread) : bool :=
  match tph th with PSend q' => q' =? q | _ => false end.
Definition in_pop (q : nat) (th : thread) : bool :=
  match tph th with PPop q' => q' =? q | _ => false end.
Definition in_disc (q : nat) (th : thread) : bool :=
  match tph th with PDiscard q' => q' =? q | _ => false end.
(* an AddValue whose send panicked on the closed channel: its value stays in the list *)
Definition orphan (q : nat) (th : thread) : bool :=
  match tph th, tcalls th with PStuck, CAdd q' _ :: _ => q' =? q | _, _ => false end.

Definition cnt (p : thread -> bool) (ths : list thread) : nat := length (filter p ths).

Definition Q_inv (c : config) (q : nat) : Prop :=
  let s := getq c q in
  qtok s <= qcap s /\
  length (qvals s) = qtok s + cnt (in_send q) (threads c) + cnt (in_pop q) (threads c)
                     + cnt (in_disc q) (threads c) + cnt (orphan q) (threads c) /\
  qapp s = qpop s ++ qvals s.

Definition Inv (c : config) : Prop :=
  Forall T_inv (threads c) /\ forall q, q < length (queues c) -> Q_inv c q.

(* the four counters as one weight per thread: moving one thread changes one summand *)
Definition b2n (b : bool) : nat := if b then 1 else 0.
Definition holds (q : nat) (th : thread) : nat :=
  b2n (in_send q th) + b2n (in_pop q th) + b2n (in_disc q th) + b2n (orphan q th).

Lemma cnt_sum p ths : cnt p ths = list_sum (map (fun th => b2n (p th)) ths).
Proof.
  unfold cnt; induction ths as [|h tl IH]; simpl; auto.
  destruct (p h); simpl; lia.
Qed.

Lemma holds_sum q ths :
  list_sum (map (holds q) ths) =
  cnt (in_send q) ths + cnt (in_pop q) ths + cnt (in_disc q) ths + cnt (orphan q) ths.
Proof.
  rewrite !cnt_sum. induction ths as [|h tl IH]; simpl; auto.
  unfold holds at 1. lia.
Qed.

Lemma cnt_set_nth p t x l : t < length l ->
  cnt p (set_nth t x l) + b2n (p (nth t l dummyt)) = cnt p l + b2n (p x).
Proof. intros H. rewrite !cnt_sum. exact (sum_set_nth (fun th => b2n (p th)) t x l dummyt H). Qed.

Lemma nth_le_sum {A} (f : A -> nat) t l d : t < length l -> f (nth t l d) <= list_sum (map f l).
Proof.
  revert t; induction l as [|h tl IH]; intros [|t] H; simpl in *; try lia.
  specialize (IH t ltac:(lia)). lia.
Qed.

Lemma cnt_pos_ex p l : 0 < cnt p l -> exists t, t < length l /\ p (nth t l dummyt) = true.
Proof.
  unfold cnt; induction l as [|h tl IH]; simpl; intros H; [lia|].
  destruct (p h) eqn:Hp.
  - exists 0; split; [lia|auto].
  - destruct (IH H) as [t [Hlt Ht]]. exists (S t); split; [lia|auto].
Qed.

Lemma cnt_ex_pos p l t : t < length l -> p (nth t l dummyt) = true -> 0 < cnt p l.
Proof.
  intros Hlt Hp. rewrite cnt_sum.
  pose proof (nth_le_sum (fun th => b2n (p th)) t l dummyt Hlt) as H.
  simpl in H. rewrite Hp in H. simpl in H. lia.
Qed.

Lemma cnt_zero_all p l t : cnt p l = 0 -> p (nth t l dummyt) = true -> t < length l -> False.
Proof. intros H0 Hp Hlt. pose proof (cnt_ex_pos p l t Hlt Hp). lia. Qed.

Lemma holds_idle q th : tph th = PIdle -> holds q th = 0.
Proof. intros H; unfold holds, in_send, in_pop, in_disc, orphan; now rewrite H. Qed.

Lemma holds_send q q0 th : tph th = PSend q -> holds q0 th = if q =? q0 then 1 else 0.
Proof.
  intros H; unfold holds, in_send, in_pop, in_disc, orphan; rewrite H.
  destruct (q =? q0); reflexivity.
Qed.

Lemma holds_pop q q0 th : tph th = PPop q -> holds q0 th = if q =? q0 then 1 else 0.
Proof.
  intros H; unfold holds, in_send, in_pop, in_disc, orphan; rewrite H.
  destruct (q =? q0); reflexivity.
Qed.

Lemma holds_disc q q0 th : tph th = PDiscard q -> holds q0 th = if q =? q0 then 1 else 0.
Proof.
  intros H; unfold holds, in_send, in_pop, in_disc, orphan; rewrite H.
  destruct (q =? q0); reflexivity.
Qed.

Lemma holds_stuck_add q v rest q0 th :
  tph th = PStuck -> tcalls th = CAdd q v :: rest -> holds q0 th = if q =? q0 then 1 else 0.
Proof.
  intros H Hc; unfold holds, in_send, in_pop, in_disc, orphan; rewrite H, Hc.
  destruct (q =? q0); reflexivity.
Qed.

Lemma holds_stuck_other q0 th :
  tph th = PStuck -> (forall q v rest, tcalls th <> CAdd q v :: rest) -> holds q0 th = 0.
Proof.
  intros H Hc; unfold holds, in_send, in_pop, in_disc, orphan; rewrite H.
  destruct (tcalls th) as [|[]]; try reflexivity. exfalso; eapply Hc; eauto.
Qed.

Lemma tph_finish_head th rest v ok : tph (finish_head th rest v ok) = PIdle.
Proof. unfold finish_head. destruct (continue (tloop th) v ok). reflexivity. Qed.

Lemma tres_finish_head th rest v ok : tres (finish_head th rest v ok) = tres th ++ [RHead v ok].
Proof. unfold finish_head. destruct (continue (tloop th) v ok). reflexivity. Qed.

Lemma holds_finish q th rest r : holds q (finish th rest r) = 0.
Proof. apply holds_idle; reflexivity. Qed.
Lemma holds_finish_head q th rest v ok : holds q (finish_head th rest v ok) = 0.
Proof. apply holds_idle; apply tph_finish_head. Qed.
Lemma holds_in_idle q th : holds q (in_phase th PIdle) = 0.
Proof. apply holds_idle; reflexivity. Qed.
Lemma holds_in_send q q0 th : holds q0 (in_phase th (PSend q)) = if q =? q0 then 1 else 0.
Proof. apply holds_send; reflexivity. Qed.
Lemma holds_in_pop q q0 th : holds q0 (in_phase th (PPop q)) = if q =? q0 then 1 else 0.
Proof. apply holds_pop; reflexivity. Qed.
Lemma holds_in_disc q q0 th : holds q0 (in_phase th (PDiscard q)) = if q =? q0 then 1 else 0.
Proof. apply holds_disc; reflexivity. Qed.

Lemma T_inv_idle th : tph th = PIdle -> T_inv th.
Proof. intros H; unfold T_inv; now rewrite H. Qed.

Lemma T_inv_stuck th : T_inv (stuck th).
Proof. exact I. Qed.

Lemma T_inv_gett c t : Forall T_inv (threads c) -> T_inv (gett c t).
Proof. intros H; unfold gett; apply Forall_nth_d; auto. exact I. Qed.

(* the invariant in terms of the weights *)
Definition Q_inv' (c : config) (q : nat) : Prop :=
  let s := getq c q in
  qtok s <= qcap s /\
  length (qvals s) = qtok s + list_sum (map (holds q) (threads c)) /\
  qapp s = qpop s ++ qvals s.

Lemma Q_inv_iff c q : Q_inv c q <-> Q_inv' c q.
Proof. unfold Q_inv, Q_inv'; rewrite holds_sum; simpl; split; intros (A & B & C); repeat split; auto; try lia. Qed.

(* updating one queue and one thread *)
Lemma Inv_update c q s' t th' :
  Inv c -> t < length (threads c) -> T_inv th' ->
  (q < length (queues c) ->
     qtok s' <= qcap s' /\ qapp s' = qpop s' ++ qvals s' /\
     length (qvals s') + holds q (gett c t) + qtok (getq c q) =
     length (qvals (getq c q)) + holds q th' + qtok s') ->
  (forall q0, q0 < length (queues c) -> q0 <> q -> holds q0 th' = holds q0 (gett c t)) ->
  Inv (sett (setq c q s') t th').
Proof.
  intros [HT HQ] Hlt Hth' Hq Hother. split.
  - simpl. apply Forall_set_nth; auto.
  - intros q0 Hq0. simpl in Hq0. rewrite set_nth_length in Hq0.
    apply Q_inv_iff. specialize (HQ q0 Hq0). apply Q_inv_iff in HQ.
    unfold Q_inv' in *. rewrite getq_sett. simpl threads.
    pose proof (sum_set_nth (holds q0) t th' (threads c) dummyt Hlt) as Hs.
    fold (gett c t) in Hs.
    destruct (Nat.eq_dec q0 q) as [->|Hne].
    + rewrite getq_setq_eq by auto. destruct (Hq Hq0) as (A & B & C).
      destruct HQ as (A0 & B0 & C0). repeat split; auto. lia.
    + rewrite getq_setq_neq by auto. rewrite (Hother q0 Hq0 Hne) in Hs.
      destruct HQ as (A0 & B0 & C0). repeat split; auto. lia.
Qed.

Lemma Inv_update_t c t th' :
  Inv c -> t < length (threads c) -> T_inv th' ->
  (forall q0, q0 < length (queues c) -> holds q0 th' = holds q0 (gett c t)) ->
  Inv (sett c t th').
Proof.
  intros [HT HQ] Hlt Hth' Hother. split.
  - simpl. apply Forall_set_nth; auto.
  - intros q0 Hq0. simpl in Hq0.
    apply Q_inv_iff. specialize (HQ q0 Hq0). apply Q_inv_iff in HQ.
    unfold Q_inv' in *. rewrite getq_sett. simpl threads.
    pose proof (sum_set_nth (holds q0) t th' (threads c) dummyt Hlt) as Hs.
    fold (gett c t) in Hs. rewrite (Hother q0 Hq0) in Hs.
    destruct HQ as (A0 & B0 & C0). repeat split; auto. lia.
Qed.

Lemma Inv_wg c w : Inv c -> Inv {| queues := queues c; wg := w; threads := threads c |}.
Proof. intros H; exact H. Qed.

(* a thread that holds a claim on queue q (in range) has a value behind it *)
Lemma holds_le_vals c q t :
  Inv c -> q < length (queues c) -> t < length (threads c) ->
  holds q (gett c t) + qtok (getq c q) <= length (qvals (getq c q)).
Proof.
  intros [_ HQ] Hq Hlt. specialize (HQ q Hq). apply Q_inv_iff in HQ.
  destruct HQ as (_ & B & _).
  pose proof (nth_le_sum (holds q) t (threads c) dummyt Hlt) as H.
  fold (gett c t) in H. lia.
Qed.

Ltac stepR_cases H :=
  destruct H as
    [q v rest Hph Hc | q q1 v rest Hph Hc Hcl Htok | q q1 v rest Hph Hc Hcl
    | q rest Hph Hc Htok | q rest Hph Hc Htok Hcl | q q1 rest v vs Hph Hc Hv | q q1 rest Hph Hc Hv
    | q rest Hph Hc Hcl | q rest Hph Hc Hcl
    | q rest Hph Hc Htok | q rest Hph Hc Htok | q v vs Hph Hv | q Hph Hv
    | q rest Hph Hc | q rest Hph Hc | q rest Hph Hc | rest Hph Hc Hwg | rest Hph Hc].

Ltac idle_idle Hph :=
  apply Inv_update_t; auto;
  [ apply T_inv_idle; (reflexivity || apply tph_finish_head)
  | intros q0 _; transitivity 0;
    [ apply holds_idle; (reflexivity || apply tph_finish_head)
    | symmetry; apply holds_idle; exact Hph ] ].

Lemma step_preserves_inv c t c' : Inv c -> step c t = Some c' -> Inv c'.
Proof.
  intros HI H. apply step_stepR in H.
  assert (Hth : T_inv (gett c t)) by (apply T_inv_gett; apply HI).
  stepR_cases H;
    assert (Hlt : t < length (threads c)) by (apply gett_live; rewrite Hph; discriminate).
  - (* append *)
    apply Inv_update; auto.
    + unfold T_inv; simpl; eauto.
    + intros Hq. destruct (proj2 HI q Hq) as (A0 & B0 & C0).
      rewrite (holds_idle q _ Hph), holds_in_send, Nat.eqb_refl.
      simpl.
      rewrite app_length; simpl. repeat split; auto; try lia; rewrite C0, app_assoc; auto.
    + intros q0 _ Hne. rewrite (holds_idle q0 _ Hph), holds_in_send.
      destruct (Nat.eqb_spec q q0); congruence.
  - (* send *)
    apply Inv_update; auto.
    + apply T_inv_idle; reflexivity.
    + intros Hq. destruct (proj2 HI q Hq) as (A0 & B0 & C0).
      rewrite (holds_send q q _ Hph), Nat.eqb_refl, holds_finish.
      simpl.
      repeat split; auto; try lia.
    + intros q0 _ Hne. rewrite (holds_send q q0 _ Hph), holds_finish.
      destruct (Nat.eqb_spec q q0); congruence.
  - (* send on closed *)
    apply Inv_update_t; auto; [apply T_inv_stuck|].
    intros q0 _. unfold T_inv in Hth; rewrite Hph in Hth. destruct Hth as (v' & rest' & E).
    rewrite Hc in E; inversion E; subst.
    rewrite (holds_send q q0 _ Hph).
    apply (holds_stuck_add q v' rest'); [reflexivity | exact Hc].
  - (* claim *)
    apply Inv_update; auto.
    + unfold T_inv; simpl; eauto.
    + intros Hq. destruct (proj2 HI q Hq) as (A0 & B0 & C0).
      rewrite (holds_idle q _ Hph), holds_in_pop, Nat.eqb_refl.
      simpl.
      repeat split; auto; try lia.
    + intros q0 _ Hne. rewrite (holds_idle q0 _ Hph), holds_in_pop.
      destruct (Nat.eqb_spec q q0); congruence.
  - (* head on closed and drained *) idle_idle Hph.
  - (* pop *)
    apply Inv_update; auto.
    + apply T_inv_idle; apply tph_finish_head.
    + intros Hq. destruct (proj2 HI q Hq) as (A0 & B0 & C0).
      rewrite (holds_pop q q _ Hph), Nat.eqb_refl, holds_finish_head.
      simpl.
      rewrite Hv in *. simpl in *. repeat split; auto; try lia; rewrite <- app_assoc; auto.
    + intros q0 _ Hne. rewrite (holds_pop q q0 _ Hph), holds_finish_head.
      destruct (Nat.eqb_spec q q0); congruence.
  - (* pop on empty list: excluded by the invariant when q is a queue *)
    apply Inv_update_t; auto; [apply T_inv_stuck|].
    intros q0 Hq0. rewrite (holds_pop q q0 _ Hph).
    rewrite holds_stuck_other; [|reflexivity|simpl; rewrite Hc; congruence].
    destruct (Nat.eqb_spec q q0) as [->|]; auto.
    pose proof (holds_le_vals c q0 t HI Hq0 Hlt) as Hle.
    rewrite (holds_pop q0 q0 _ Hph), Nat.eqb_refl, Hv in Hle. simpl in Hle. lia.
  - (* close *)
    apply Inv_update; auto.
    + apply T_inv_idle; reflexivity.
    + intros Hq. destruct (proj2 HI q Hq) as (A0 & B0 & C0).
      rewrite (holds_idle q _ Hph), holds_finish.
      simpl.
      repeat split; auto.
    + intros q0 _ Hne. rewrite (holds_idle q0 _ Hph), holds_finish. auto.
  - (* close of closed *)
    apply Inv_update_t; auto; [apply T_inv_stuck|].
    intros q0 _. rewrite (holds_idle q0 _ Hph).
    apply holds_stuck_other; [reflexivity|simpl; rewrite Hc; congruence].
  - (* RemoveAll claims a token *)
    apply Inv_update; auto.
    + unfold T_inv; simpl; eauto.
    + intros Hq. destruct (proj2 HI q Hq) as (A0 & B0 & C0).
      rewrite (holds_idle q _ Hph), holds_in_disc, Nat.eqb_refl.
      simpl.
      repeat split; auto; try lia.
    + intros q0 _ Hne. rewrite (holds_idle q0 _ Hph), holds_in_disc.
      destruct (Nat.eqb_spec q q0); congruence.
  - (* RemoveAll done *) idle_idle Hph.
  - (* discard *)
    apply Inv_update; auto.
    + apply T_inv_idle; reflexivity.
    + intros Hq. destruct (proj2 HI q Hq) as (A0 & B0 & C0).
      rewrite (holds_disc q q _ Hph), Nat.eqb_refl, holds_in_idle.
      simpl.
      rewrite Hv in *. simpl in *. repeat split; auto; try lia; rewrite <- app_assoc; auto.
    + intros q0 _ Hne. rewrite (holds_disc q q0 _ Hph), holds_in_idle.
      destruct (Nat.eqb_spec q q0); congruence.
  - (* discard on empty list: excluded by the invariant when q is a queue *)
    apply Inv_update_t; auto; [apply T_inv_stuck|].
    intros q0 Hq0. rewrite (holds_disc q q0 _ Hph).
    unfold T_inv in Hth; rewrite Hph in Hth. destruct Hth as (rest' & E).
    rewrite holds_stuck_other; [|reflexivity|simpl; rewrite E; congruence].
    destruct (Nat.eqb_spec q q0) as [->|]; auto.
    pose proof (holds_le_vals c q0 t HI Hq0 Hlt) as Hle.
    rewrite (holds_disc q0 q0 _ Hph), Nat.eqb_refl, Hv in Hle. simpl in Hle. lia.
  - idle_idle Hph.
  - idle_idle Hph.
  - idle_idle Hph.
  - idle_idle Hph.
  - apply (Inv_wg c (wg c - 1)) in HI. idle_idle Hph.
Qed.

(* ------------------------------------------------------------------------- *)
(* initial and reachable configurations                                      *)
(* ------------------------------------------------------------------------- *)

Definition fresh (th : thread) : Prop := tph th = PIdle /\ tres th = [].

Definition initial (c : config) : Prop :=
  (exists caps, queues c = map mkq caps) /\ Forall fresh (threads c).

Definition reachable (c0 c : config) : Prop := exists sched, run c0 sched = c.

Lemma run_app c s1 s2 : run c (s1 ++ s2) = run (run c s1) s2.
Proof.
  revert c; induction s1 as [|t s1 IH]; intros c; simpl; auto.
  destruct (step c t); apply IH.
Qed.

Lemma reachable_refl c : reachable c c.
Proof. exists []; reflexivity. Qed.

Lemma reachable_step c0 c t c' : reachable c0 c -> step c t = Some c' -> reachable c0 c'.
Proof.
  intros [s Hs] H. exists (s ++ [t]). rewrite run_app, Hs. simpl. now rewrite H.
Qed.

Lemma reachable_run c0 c s : reachable c0 c -> reachable c0 (run c s).
Proof. intros [s0 Hs]. exists (s0 ++ s). now rewrite run_app, Hs. Qed.

(* induction principle: a property of the initial configuration preserved by steps
   holds of every reachable configuration *)
Lemma run_ind_inv (P : config -> Prop) :
  (forall c t c', P c -> step c t = Some c' -> P c') ->
  forall s c, P c -> P (run c s).
Proof.
  intros Hstep s; induction s as [|t s IH]; intros c Hc; simpl; auto.
  destruct (step c t) eqn:E; eauto.
Qed.

Lemma fresh_holds q ths : Forall fresh ths -> list_sum (map (holds q) ths) = 0.
Proof.
  induction 1 as [|h tl [Hh _] _ IH]; simpl; auto. rewrite holds_idle; auto.
Qed.

Lemma initial_inv c : initial c -> Inv c.
Proof.
  intros [[caps Hq] Hf]. split.
  - eapply Forall_impl; [|exact Hf]. intros th [Hp _]. now apply T_inv_idle.
  - intros q Hlt. apply Q_inv_iff. unfold Q_inv', getq. rewrite Hq.
    change dummyq with (mkq 0). rewrite map_nth. simpl.
    rewrite fresh_holds by auto. repeat split; auto; lia.
Qed.

Lemma run_inv c s : Inv c -> Inv (run c s).
Proof. apply run_ind_inv. intros; eapply step_preserves_inv; eauto. Qed.

Theorem reachable_inv c0 c : initial c0 -> reachable c0 c -> Inv c.
Proof. intros Hi [s <-]. apply run_inv. now apply initial_inv. Qed.

(* claims are only ever held on existing queues *)
Definition T_rng (n : nat) (th : thread) : Prop :=
  match tph th with PPop q | PDiscard q => q < n | _ => True end.
Definition Rng (c : config) : Prop := Forall (T_rng (length (queues c))) (threads c).

Lemma step_queues_length c t c' : step c t = Some c' -> length (queues c') = length (queues c).
Proof.
  intros H; apply step_stepR in H. stepR_cases H; simpl; rewrite ?set_nth_length; auto.
Qed.

Lemma step_threads_length c t c' : step c t = Some c' -> length (threads c') = length (threads c).
Proof.
  intros H; apply step_stepR in H. stepR_cases H; simpl; rewrite ?set_nth_length; auto.
Qed.

Lemma step_tid c t c' : step c t = Some c' -> t < length (threads c).
Proof.
  intros H. apply gett_live. intros E. unfold step in H. rewrite E in H. discriminate.
Qed.

Lemma T_rng_idle n th : tph th = PIdle -> T_rng n th.
Proof. intros H; unfold T_rng; now rewrite H. Qed.

Lemma step_preserves_rng c t c' : Rng c -> step c t = Some c' -> Rng c'.
Proof.
  intros HR H. unfold Rng. rewrite (step_queues_length _ _ _ H).
  apply step_stepR in H. unfold Rng in HR.
  stepR_cases H; simpl; apply Forall_set_nth; auto;
    try exact I; try (apply T_rng_idle; (reflexivity || apply tph_finish_head)).
  - unfold T_rng; simpl. now apply getq_tok_inrange.
  - unfold T_rng; simpl. now apply getq_tok_inrange.
Qed.

Lemma initial_rng c : initial c -> Rng c.
Proof.
  intros [_ Hf]. eapply Forall_impl; [|exact Hf]. intros th [Hp _]. now apply T_rng_idle.
Qed.

Definition Inv2 (c : config) : Prop := Inv c /\ Rng c.

Lemma step_preserves_inv2 c t c' : Inv2 c -> step c t = Some c' -> Inv2 c'.
Proof.
  intros [A B] H; split; [eapply step_preserves_inv | eapply step_preserves_rng]; eauto.
Qed.

Theorem reachable_inv2 c0 c : initial c0 -> reachable c0 c -> Inv2 c.
Proof.
  intros Hi [s <-]. apply (run_ind_inv Inv2).
  - intros; eapply step_preserves_inv2; eauto.
  - split; [now apply initial_inv | now apply initial_rng].
Qed.

Lemma rng_gett c t q : Rng c -> tph (gett c t) = PPop q \/ tph (gett c t) = PDiscard q ->
  q < length (queues c).
Proof.
  intros HR Hp. assert (H : T_rng (length (queues c)) (gett c t)).
  { unfold gett; apply Forall_nth_d; auto. exact I. }
  unfold T_rng in H. destruct Hp as [Hp|Hp]; rewrite Hp in H; exact H.
Qed.

(* ------------------------------------------------------------------------- *)
(* reading a queue after an update                                           *)
(* ------------------------------------------------------------------------- *)

Lemma getq_setq c q s q0 :
  getq (setq c q s) q0 = if (q0 =? q) && (q <? length (queues c)) then s else getq c q0.
Proof.
  destruct (Nat.eqb_spec q0 q) as [->|Hne]; simpl.
  - destruct (Nat.ltb_spec q (length (queues c))) as [Hlt|Hge].
    + now apply getq_setq_eq.
    + unfold getq. now rewrite setq_oob.
  - now apply getq_setq_neq.
Qed.

(* fields that a queue update leaves alone are the same for every queue *)
Lemma getq_setq_field {A} (f : qstate -> A) c q s q0 :
  f s = f (getq c q) -> f (getq (setq c q s) q0) = f (getq c q0).
Proof.
  intros H. rewrite getq_setq.
  destruct (Nat.eqb_spec q0 q) as [->|Hne]; simpl; auto.
  destruct (q <? length (queues c)); auto.
Qed.

(* ------------------------------------------------------------------------- *)
(* frame facts: what a step can and cannot change                            *)
(* ------------------------------------------------------------------------- *)

Ltac frame_field f :=
  try reflexivity; rewrite getq_sett; apply (getq_setq_field f); simpl; congruence.

Lemma step_cap c t c' q0 : step c t = Some c' -> qcap (getq c' q0) = qcap (getq c q0).
Proof. intros H; apply step_stepR in H; stepR_cases H; frame_field qcap. Qed.

Lemma step_closed_mono c t c' q0 :
  step c t = Some c' -> qclosed (getq c q0) = true -> qclosed (getq c' q0) = true.
Proof.
  intros H Hclo; apply step_stepR in H; stepR_cases H; try exact Hclo;
    try (rewrite <- Hclo; frame_field qclosed).
  rewrite getq_sett, getq_setq. destruct (_ && _); auto.
Qed.

Lemma run_closed_mono c s q0 :
  qclosed (getq c q0) = true -> qclosed (getq (run c s) q0) = true.
Proof.
  revert c; induction s as [|t s IH]; intros c Hc; simpl; auto.
  destruct (step c t) eqn:E; auto. apply IH. eapply step_closed_mono; eauto.
Qed.

(* no token is published on a closed queue *)
Lemma step_closed_tok c t c' q0 :
  step c t = Some c' -> qclosed (getq c q0) = true -> qtok (getq c' q0) <= qtok (getq c q0).
Proof.
  intros H Hclo; apply step_stepR in H; stepR_cases H; try (apply Nat.le_refl);
    rewrite getq_sett, getq_setq;
    destruct (Nat.eqb_spec q0 q) as [->|]; simpl; try lia;
    destruct (q <? length (queues c)); simpl; try lia.
  congruence.
Qed.

(* the append history only grows, at its end; so does the pop history *)
Lemma step_app_mono c t c' q0 :
  step c t = Some c' -> exists l, qapp (getq c' q0) = qapp (getq c q0) ++ l.
Proof.
  intros H; apply step_stepR in H; stepR_cases H;
    try (exists []; rewrite app_nil_r; frame_field qapp).
  rewrite getq_sett, getq_setq. destruct (_ && _) eqn:E; simpl.
  - apply andb_prop in E. destruct E as [E _]. apply Nat.eqb_eq in E. subst. eauto.
  - exists []; now rewrite app_nil_r.
Qed.

Lemma step_pop_mono c t c' q0 :
  step c t = Some c' -> exists l, qpop (getq c' q0) = qpop (getq c q0) ++ l.
Proof.
  intros H; apply step_stepR in H; stepR_cases H;
    try (exists []; rewrite app_nil_r; frame_field qpop);
    rewrite getq_sett, getq_setq; (destruct (_ && _) eqn:E; simpl;
    [ apply andb_prop in E; destruct E as [E _]; apply Nat.eqb_eq in E; subst; eauto
    | exists []; now rewrite app_nil_r ]).
Qed.

Lemma run_app_mono c s q0 : exists l, qapp (getq (run c s) q0) = qapp (getq c q0) ++ l.
Proof.
  revert c; induction s as [|t s IH]; intros c; simpl.
  - exists []; now rewrite app_nil_r.
  - destruct (step c t) as [c1|] eqn:E; auto.
    destruct (step_app_mono _ _ _ q0 E) as [l1 H1]. destruct (IH c1) as [l2 H2].
    exists (l1 ++ l2). now rewrite H2, H1, app_assoc.
Qed.

Lemma run_pop_mono c s q0 : exists l, qpop (getq (run c s) q0) = qpop (getq c q0) ++ l.
Proof.
  revert c; induction s as [|t s IH]; intros c; simpl.
  - exists []; now rewrite app_nil_r.
  - destruct (step c t) as [c1|] eqn:E; auto.
    destruct (step_pop_mono _ _ _ q0 E) as [l1 H1]. destruct (IH c1) as [l2 H2].
    exists (l1 ++ l2). now rewrite H2, H1, app_assoc.
Qed.

Lemma run_queues_length c s : length (queues (run c s)) = length (queues c).
Proof.
  revert c; induction s as [|t s IH]; intros c; simpl; auto.
  destruct (step c t) eqn:E; auto. rewrite IH. eapply step_queues_length; eauto.
Qed.

Lemma run_threads_length c s : length (threads (run c s)) = length (threads c).
Proof.
  revert c; induction s as [|t s IH]; intros c; simpl; auto.
  destruct (step c t) eqn:E; auto. rewrite IH. eapply step_threads_length; eauto.
Qed.

(* ------------------------------------------------------------------------- *)
(* C04: FIFO                                                                 *)
(* ------------------------------------------------------------------------- *)

Theorem fifo_prefix c0 c q : initial c0 -> reachable c0 c ->
  qapp (getq c q) = qpop (getq c q) ++ qvals (getq c q).
Proof.
  intros Hi Hr. destruct (Nat.lt_ge_cases q (length (queues c))) as [Hlt|Hge].
  - apply (reachable_inv _ _ Hi Hr). exact Hlt.
  - rewrite getq_oob by auto. reflexivity.
Qed.

(* thread t is at the scheduling point of AddValue(v) on queue q *)
Definition at_add (c : config) (t q : nat) (v : Z) : Prop :=
  tph (gett c t) = PIdle /\ exists rest, tcalls (gett c t) = CAdd q v :: rest.
(* thread t holds a claim of RemoveHead on queue q and is about to pop *)
Definition at_pop (c : config) (t q : nat) : Prop :=
  tph (gett c t) = PPop q.

(* the append step appends exactly its value at the end of the list and of the history *)
Lemma append_step c t c' qa va :
  at_add c t qa va -> qa < length (queues c) -> step c t = Some c' ->
  qapp (getq c' qa) = qapp (getq c qa) ++ [va] /\
  qvals (getq c' qa) = qvals (getq c qa) ++ [va] /\
  qpop (getq c' qa) = qpop (getq c qa) /\
  qtok (getq c' qa) = qtok (getq c qa) /\
  tph (gett c' t) = PSend qa /\
  (forall q0, q0 <> qa -> getq c' q0 = getq c q0).
Proof.
  intros [Hp [rest0 Hc0]] Hq H. pose proof (step_tid _ _ _ H) as Hlt.
  apply step_stepR in H; stepR_cases H; try congruence.
  rewrite Hc0 in Hc; inversion Hc; subst.
  rewrite gett_sett_eq by (simpl; auto). rewrite getq_sett, getq_setq_eq by auto. simpl.
  repeat split; auto. intros q0 Hne. rewrite getq_sett. now apply getq_setq_neq.
Qed.

(* a step that is not an append step leaves every append history alone *)
Lemma non_append_step c t c' q0 :
  step c t = Some c' -> (forall q v, ~ at_add c t q v) -> qapp (getq c' q0) = qapp (getq c q0).
Proof.
  intros H Hn; apply step_stepR in H; stepR_cases H; try (frame_field qapp).
  exfalso; eapply Hn; split; eauto.
Qed.

(* the pop step of RemoveHead removes exactly the head of the list and returns it *)
Lemma pop_step c t c' qa :
  Inv2 c -> at_pop c t qa -> step c t = Some c' ->
  exists v vs,
    qvals (getq c qa) = v :: vs /\ qvals (getq c' qa) = vs /\
    qpop (getq c' qa) = qpop (getq c qa) ++ [v] /\
    qapp (getq c' qa) = qapp (getq c qa) /\
    qtok (getq c' qa) = qtok (getq c qa) /\
    tres (gett c' t) = tres (gett c t) ++ [RHead v true] /\
    tph (gett c' t) = PIdle /\
    (forall q0, q0 <> qa -> getq c' q0 = getq c q0).
Proof.
  intros [HI HR] Hp H. pose proof (step_tid _ _ _ H) as Hlt. unfold at_pop in Hp.
  assert (Hq : qa < length (queues c)) by (eapply rng_gett; eauto).
  apply step_stepR in H; stepR_cases H; try congruence;
    rewrite Hp in Hph; inversion Hph; subst q.
  - exists v, vs. rewrite gett_sett_eq by (simpl; auto).
    rewrite getq_sett, getq_setq_eq by auto. simpl.
    rewrite tres_finish_head, tph_finish_head. repeat split; auto.
    intros q0 Hne. rewrite getq_sett. now apply getq_setq_neq.
  - exfalso. pose proof (holds_le_vals c qa t HI Hq Hlt) as Hle.
    rewrite (holds_pop qa qa _ Hp), Nat.eqb_refl, Hv in Hle. simpl in Hle. lia.
Qed.

(* AddValue calls that do not overlap are appended in call order: if the append step of v
   happens before the append step of w then v precedes w in the append history *)
Theorem fifo_realtime_add c1 t1 c1' q v s t2 c2' w :
  q < length (queues c1) ->
  at_add c1 t1 q v -> step c1 t1 = Some c1' ->
  at_add (run c1' s) t2 q w -> step (run c1' s) t2 = Some c2' ->
  exists l1 l2, qapp (getq c2' q) = l1 ++ [v] ++ l2 ++ [w].
Proof.
  intros Hq A1 S1 A2 S2.
  destruct (append_step _ _ _ _ _ A1 Hq S1) as (E1 & _).
  assert (Hq2 : q < length (queues (run c1' s))).
  { rewrite run_queues_length. now rewrite (step_queues_length _ _ _ S1). }
  destruct (append_step _ _ _ _ _ A2 Hq2 S2) as (E2 & _).
  destruct (run_app_mono c1' s q) as [l2 E3].
  exists (qapp (getq c1 q)), l2. rewrite E2, E3, E1. now rewrite <- !app_assoc.
Qed.

(* RemoveHead calls that do not overlap pop in that order *)
Theorem fifo_realtime_pop c1 t1 c1' q s t2 c2' :
  Inv2 c1 -> at_pop c1 t1 q -> step c1 t1 = Some c1' ->
  at_pop (run c1' s) t2 q -> step (run c1' s) t2 = Some c2' ->
  exists v w l1 l2,
    qpop (getq c2' q) = l1 ++ [v] ++ l2 ++ [w] /\
    (exists r, tres (gett c1' t1) = r ++ [RHead v true]) /\
    (exists r, tres (gett c2' t2) = r ++ [RHead w true]).
Proof.
  intros HI A1 S1 A2 S2.
  destruct (pop_step _ _ _ _ HI A1 S1) as (v & vs & _ & _ & E1 & _ & _ & R1 & _).
  assert (HI1 : Inv2 (run c1' s)).
  { apply (run_ind_inv Inv2); [intros; eapply step_preserves_inv2; eauto|].
    eapply step_preserves_inv2; eauto. }
  destruct (pop_step _ _ _ _ HI1 A2 S2) as (w & ws & _ & _ & E2 & _ & _ & R2 & _).
  destruct (run_pop_mono c1' s q) as [l2 E3].
  exists v, w, (qpop (getq c1 q)), l2. split; [|split; eauto].
  rewrite E2, E3, E1. now rewrite <- !app_assoc.
Qed.

(* ------------------------------------------------------------------------- *)
(* C04: panics                                                               *)
(* ------------------------------------------------------------------------- *)

(* every way a thread can panic: a send on a closed channel (AddValue on a closed queue) or a
   close of a closed channel.  In particular the pop of RemoveHead and the discard of
   RemoveAll never meet an empty list. *)
Theorem stuck_only_by c t c' :
  Inv2 c -> step c t = Some c' -> tph (gett c' t) = PStuck ->
  (exists q v rest, tph (gett c t) = PSend q /\ tcalls (gett c t) = CAdd q v :: rest /\
                    qclosed (getq c q) = true) \/
  (exists q rest, tph (gett c t) = PIdle /\ tcalls (gett c t) = CClose q :: rest /\
                  qclosed (getq c q) = true).
Proof.
  intros [HI HR] H. pose proof (step_tid _ _ _ H) as Hlt.
  assert (Hth : T_inv (gett c t)) by (apply T_inv_gett; apply HI).
  apply step_stepR in H; stepR_cases H; rewrite gett_sett_eq by (simpl; auto);
    try rewrite tph_finish_head; simpl; try discriminate; intros _.
  - left. unfold T_inv in Hth; rewrite Hph in Hth. destruct Hth as (v' & rest' & E). eauto 8.
  - exfalso. assert (Hq : q < length (queues c)) by (eapply rng_gett; eauto).
    pose proof (holds_le_vals c q t HI Hq Hlt) as Hle.
    rewrite (holds_pop q q _ Hph), Nat.eqb_refl, Hv in Hle. simpl in Hle. lia.
  - right. eauto 8.
  - exfalso. assert (Hq : q < length (queues c)) by (eapply rng_gett; eauto).
    pose proof (holds_le_vals c q t HI Hq Hlt) as Hle.
    rewrite (holds_disc q q _ Hph), Nat.eqb_refl, Hv in Hle. simpl in Hle. lia.
Qed.

Theorem no_pop_panic c t c' qa :
  Inv2 c -> step c t = Some c' ->
  tph (gett c t) = PPop qa \/ tph (gett c t) = PDiscard qa ->
  tph (gett c' t) <> PStuck.
Proof.
  intros HI H Hp Hs. destruct (stuck_only_by _ _ _ HI H Hs) as [(q & v & rest & A & _)|(q & rest & A & _)];
    destruct Hp as [Hp|Hp]; congruence.
Qed.

(* ------------------------------------------------------------------------- *)
(* C04: results                                                              *)
(* ------------------------------------------------------------------------- *)

(* every step leaves the results of the other threads alone, and appends at most one result *)
Lemma step_other_thread c t c' t' : step c t = Some c' -> t' <> t -> gett c' t' = gett c t'.
Proof.
  intros H Hne; apply step_stepR in H; stepR_cases H; now rewrite gett_sett_neq.
Qed.

Ltac tres_len H :=
  apply (f_equal (@length result)) in H; rewrite app_length in H; simpl in H; lia.

Ltac tres_inj H :=
  first [ apply app_inv_head in H; inversion H; subst | tres_len H ].

(* ok = false only when the queue is closed and drained *)
Theorem ok_false_step c t c' va :
  step c t = Some c' -> tres (gett c' t) = tres (gett c t) ++ [RHead va false] ->
  exists q rest, tph (gett c t) = PIdle /\ tcalls (gett c t) = CRemoveHead q :: rest /\
    qclosed (getq c q) = true /\ qtok (getq c q) = 0 /\ va = 0%Z.
Proof.
  intros H. pose proof (step_tid _ _ _ H) as Hlt.
  apply step_stepR in H; stepR_cases H; rewrite gett_sett_eq by (simpl; auto);
    try rewrite tres_finish_head; simpl; intros E; tres_inj E.
  eauto 10.
Qed.

(* ... and then every value still in the list is claimed or belongs to an unfinished AddValue *)
Theorem ok_false_drained c t c' v q rest :
  Inv c -> step c t = Some c' -> tres (gett c' t) = tres (gett c t) ++ [RHead v false] ->
  tcalls (gett c t) = CRemoveHead q :: rest -> q < length (queues c) ->
  length (qvals (getq c q)) =
    cnt (in_send q) (threads c) + cnt (in_pop q) (threads c) +
    cnt (in_disc q) (threads c) + cnt (orphan q) (threads c).
Proof.
  intros HI H E Hc Hq. destruct (ok_false_step _ _ _ _ H E) as (q' & rest' & _ & Hc' & _ & Htok & _).
  rewrite Hc in Hc'; inversion Hc'; subst q'.
  destruct (proj2 HI q Hq) as (_ & B & _). lia.
Qed.

(* back-pressure: AddValue returns only through a send step taken with room in the channel *)
Theorem added_step c t c' :
  step c t = Some c' -> tres (gett c' t) = tres (gett c t) ++ [RAdded] ->
  exists q, tph (gett c t) = PSend q /\
    qclosed (getq c q) = false /\ qtok (getq c q) < qcap (getq c q) /\
    qtok (getq c' q) = S (qtok (getq c q)) /\ qvals (getq c' q) = qvals (getq c q).
Proof.
  intros H. pose proof (step_tid _ _ _ H) as Hlt.
  apply step_stepR in H; stepR_cases H; rewrite gett_sett_eq by (simpl; auto);
    try rewrite tres_finish_head; simpl; intros E; tres_inj E.
  exists q. assert (Hq : q < length (queues c)) by (apply getq_cap_inrange; lia).
  rewrite getq_sett, getq_setq_eq by auto. simpl. auto.
Qed.

Theorem size_step c t c' n :
  Inv c -> step c t = Some c' -> tres (gett c' t) = tres (gett c t) ++ [RSize n] ->
  exists q rest, tcalls (gett c t) = CGetSize q :: rest /\
    n = qtok (getq c q) /\ n <= qcap (getq c q).
Proof.
  intros HI H. pose proof (step_tid _ _ _ H) as Hlt.
  apply step_stepR in H; stepR_cases H; rewrite gett_sett_eq by (simpl; auto);
    try rewrite tres_finish_head; simpl; intros E; tres_inj E.
  exists q, rest. repeat split; auto.
  destruct (Nat.lt_ge_cases q (length (queues c))) as [Hq|Hq].
  - apply (proj2 HI q Hq).
  - rewrite getq_oob by auto. simpl. lia.
Qed.

Theorem empty_step c t c' b :
  step c t = Some c' -> tres (gett c' t) = tres (gett c t) ++ [REmpty b] ->
  exists q rest, tcalls (gett c t) = CIsEmpty q :: rest /\
    (b = true <-> qtok (getq c q) = 0).
Proof.
  intros H. pose proof (step_tid _ _ _ H) as Hlt.
  apply step_stepR in H; stepR_cases H; rewrite gett_sett_eq by (simpl; auto);
    try rewrite tres_finish_head; simpl; intros E; tres_inj E.
  exists q, rest. split; auto. apply Nat.eqb_eq.
Qed.

(* AsArray returns the list: exactly the values appended and not yet popped, in append order *)
Theorem array_step c t c' l :
  Inv c -> step c t = Some c' -> tres (gett c' t) = tres (gett c t) ++ [RArray l] ->
  exists q rest, tcalls (gett c t) = CAsArray q :: rest /\
    l = qvals (getq c q) /\ qapp (getq c q) = qpop (getq c q) ++ l.
Proof.
  intros HI H. pose proof (step_tid _ _ _ H) as Hlt.
  apply step_stepR in H; stepR_cases H; rewrite gett_sett_eq by (simpl; auto);
    try rewrite tres_finish_head; simpl; intros E; tres_inj E.
  exists q, rest. repeat split; auto.
  destruct (Nat.lt_ge_cases q (length (queues c))) as [Hq|Hq].
  - apply (proj2 HI q Hq).
  - rewrite getq_oob by auto. reflexivity.
Qed.

(* a value delivered with ok = true is the head that the same step popped *)
Theorem ok_true_step c t c' va :
  Inv2 c -> step c t = Some c' -> tres (gett c' t) = tres (gett c t) ++ [RHead va true] ->
  exists q vs, tph (gett c t) = PPop q /\ qvals (getq c q) = va :: vs /\
    qvals (getq c' q) = vs /\ qpop (getq c' q) = qpop (getq c q) ++ [va].
Proof.
  intros HI2 H. pose proof (step_tid _ _ _ H) as Hlt. pose proof HI2 as [HI HR].
  apply step_stepR in H; stepR_cases H; rewrite gett_sett_eq by (simpl; auto);
    try rewrite tres_finish_head; simpl; intros E; tres_inj E.
  assert (Hq : q < length (queues c)) by (eapply rng_gett; eauto).
  exists q, vs. rewrite getq_sett, getq_setq_eq by auto. simpl. auto.
Qed.

(* ------------------------------------------------------------------------- *)
(* C04: RemoveAll                                                            *)
(* ------------------------------------------------------------------------- *)

(* Every micro-step of a RemoveAll call: either it sees no token and returns (nothing
   changed), or it claims one token, or it discards exactly the head of the list.  It never
   changes the capacity, the closed flag or the append history of any queue.  (The model has
   no channel identity: the repaired RemoveAll never replaces the channel, so there is
   nothing to change.) *)
Theorem removeall_step c t c' qa rest0 :
  Inv2 c -> step c t = Some c' -> tcalls (gett c t) = CRemoveAll qa :: rest0 ->
  (forall q0, qcap (getq c' q0) = qcap (getq c q0) /\
              qclosed (getq c' q0) = qclosed (getq c q0) /\
              qapp (getq c' q0) = qapp (getq c q0)) /\
  (forall q0, q0 <> qa -> getq c' q0 = getq c q0) /\
  ( (tph (gett c t) = PIdle /\ qtok (getq c qa) = 0 /\
     c' = sett c t (finish (gett c t) rest0 RCleared))
    \/ (tph (gett c t) = PIdle /\ 0 < qtok (getq c qa) /\
        qtok (getq c' qa) = qtok (getq c qa) - 1 /\ qvals (getq c' qa) = qvals (getq c qa) /\
        qpop (getq c' qa) = qpop (getq c qa) /\
        tph (gett c' t) = PDiscard qa /\ tcalls (gett c' t) = tcalls (gett c t))
    \/ (tph (gett c t) = PDiscard qa /\
        exists v vs, qvals (getq c qa) = v :: vs /\ qvals (getq c' qa) = vs /\
          qpop (getq c' qa) = qpop (getq c qa) ++ [v] /\ qtok (getq c' qa) = qtok (getq c qa) /\
          tph (gett c' t) = PIdle /\ tcalls (gett c' t) = tcalls (gett c t)) ).
Proof.
  intros [HI HR] H Hc0. pose proof (step_tid _ _ _ H) as Hlt.
  assert (Hth : T_inv (gett c t)) by (apply T_inv_gett; apply HI).
  apply step_stepR in H; stepR_cases H; try (rewrite Hc0 in Hc; discriminate).
  - (* claim *)
    rewrite Hc0 in Hc; inversion Hc; subst.
    assert (Hq : q < length (queues c)) by (now apply getq_tok_inrange).
    split; [intros q0; split; [frame_field qcap | split; [frame_field qclosed | frame_field qapp]]|].
    split; [intros q0 Hne; rewrite getq_sett; now apply getq_setq_neq|].
    right; left. rewrite gett_sett_eq by (simpl; auto).
    rewrite getq_sett, getq_setq_eq by auto. simpl. repeat split; auto.
  - (* done *)
    rewrite Hc0 in Hc; inversion Hc; subst.
    split; [intros q0; repeat split; reflexivity|].
    split; [intros q0 Hne; reflexivity|].
    left. auto.
  - (* discard *)
    unfold T_inv in Hth; rewrite Hph in Hth. destruct Hth as (rest' & E).
    rewrite Hc0 in E; inversion E; subst.
    assert (Hq : q < length (queues c)) by (eapply rng_gett; eauto).
    split; [intros q0; split; [frame_field qcap | split; [frame_field qclosed | frame_field qapp]]|].
    split; [intros q0 Hne; rewrite getq_sett; now apply getq_setq_neq|].
    right; right. split; auto. exists v, vs. rewrite gett_sett_eq by (simpl; auto).
    rewrite getq_sett, getq_setq_eq by auto. simpl. repeat split; auto.
  - (* discard on an empty list: excluded *)
    exfalso. assert (Hq : q < length (queues c)) by (eapply rng_gett; eauto).
    pose proof (holds_le_vals c q t HI Hq Hlt) as Hle.
    rewrite (holds_disc q q _ Hph), Nat.eqb_refl, Hv in Hle. simpl in Hle. lia.
Qed.

(* ------------------------------------------------------------------------- *)
(* C04: exactly-once delivery (programs without RemoveAll)                   *)
(* ------------------------------------------------------------------------- *)

Fixpoint heads (rs : list result) : list Z :=
  match rs with
  | [] => []
  | RHead v true :: r => v :: heads r
  | _ :: r => heads r
  end.

(* every value some RemoveHead returned with ok = true, thread by thread *)
Definition delivered (c : config) : list Z := concat (map (fun th => heads (tres th)) (threads c)).
(* every value popped from some queue *)
Definition popped (c : config) : list Z := concat (map qpop (queues c)).

(* a thread that never calls RemoveAll *)
Definition NoRA (th : thread) : Prop :=
  (forall q, tph th <> PDiscard q) /\ (forall q, ~ In (CRemoveAll q) (tcalls th)).

Lemma heads_app a b : heads (a ++ b) = heads a ++ heads b.
Proof.
  induction a as [|r a IH]; simpl; auto.
  destruct r as [|v [|]| | | | | | | |]; simpl; now rewrite ?IH.
Qed.

Lemma concat_set_nth_ext {A B} (f : A -> list B) t x l d ex :
  t < length l -> f x = f (nth t l d) ++ ex ->
  Permutation (concat (map f (set_nth t x l))) (concat (map f l) ++ ex).
Proof.
  intros Hlt Hf. pose proof (concat_set_nth_perm f t x l d Hlt) as H. rewrite Hf in H.
  apply Permutation_app_inv_r with (l := f (nth t l d)).
  etransitivity; [exact H|].
  rewrite <- !app_assoc. apply Permutation_app_head. apply Permutation_app_comm.
Qed.

Lemma continue_no_ra l v ok q : ~ In (CRemoveAll q) (fst (continue l v ok)).
Proof.
  destruct l, ok; simpl; intros H;
    repeat match goal with
    | H : In _ (_ ++ _) |- _ => apply in_app_or in H; destruct H as [H|H]
    | H : In _ (map _ _) |- _ => apply in_map_iff in H; destruct H as (? & ? & ?)
    | H : In _ (_ :: _) |- _ => destruct H as [H|H]
    | H : In _ [] |- _ => destruct H
    | H : _ \/ _ |- _ => destruct H as [H|H]
    | H : False |- _ => destruct H
    end; subst; try discriminate.
Qed.

Lemma NoRA_gett c t : Forall NoRA (threads c) -> t < length (threads c) -> NoRA (gett c t).
Proof. intros H Hlt. unfold gett. rewrite Forall_forall in H. apply H. now apply nth_In. Qed.

Lemma step_preserves_nora c t c' :
  Forall NoRA (threads c) -> step c t = Some c' -> Forall NoRA (threads c').
Proof.
  intros HN H. pose proof (step_tid _ _ _ H) as Hlt.
  pose proof (NoRA_gett c t HN Hlt) as [Np Nc].
  apply step_stepR in H; stepR_cases H; simpl; apply Forall_set_nth; auto;
    try (exfalso; eapply Np; eauto; fail);
    try (exfalso; eapply Nc; rewrite Hc; left; eauto; fail);
    try (split; simpl; [intros; discriminate | exact Nc]; fail);
    try (split; simpl; [intros; discriminate | intros q' Hin; apply (Nc q'); rewrite Hc; right; exact Hin]; fail).
  - split; [rewrite tph_finish_head; intros; discriminate|].
    intros q' Hin. unfold finish_head in Hin.
    pose proof (continue_no_ra (tloop (gett c t)) 0%Z false q') as Hn.
    destruct (continue (tloop (gett c t)) 0%Z false) as [more l']. simpl in *.
    apply in_app_or in Hin. destruct Hin as [Hin|Hin]; [|tauto].
    apply (Nc q'); rewrite Hc; right; exact Hin.
  - split; [rewrite tph_finish_head; intros; discriminate|].
    intros q' Hin. unfold finish_head in Hin.
    pose proof (continue_no_ra (tloop (gett c t)) v true q') as Hn.
    destruct (continue (tloop (gett c t)) v true) as [more l']. simpl in *.
    apply in_app_or in Hin. destruct Hin as [Hin|Hin]; [|tauto].
    apply (Nc q'); rewrite Hc; right; exact Hin.
Qed.

Lemma popped_upd_same c c' q s' :
  queues c' = set_nth q s' (queues c) -> qpop s' = qpop (getq c q) -> popped c' = popped c.
Proof.
  intros E H. unfold popped. rewrite E. f_equal. now apply map_set_nth_same with (d := dummyq).
Qed.

Lemma delivered_upd c c' t th' ex :
  threads c' = set_nth t th' (threads c) -> t < length (threads c) ->
  heads (tres th') = heads (tres (gett c t)) ++ ex ->
  Permutation (delivered c') (delivered c ++ ex).
Proof.
  intros E Hlt H. unfold delivered. rewrite E.
  apply (concat_set_nth_ext (fun th => heads (tres th)) t th' (threads c) dummyt ex); auto.
Qed.

(* one step adds the same values (none, or the popped head) to both sides *)
Lemma step_delivered c t c' :
  Forall NoRA (threads c) -> step c t = Some c' ->
  exists l, Permutation (delivered c') (delivered c ++ l) /\
            Permutation (popped c') (popped c ++ l).
Proof.
  intros HN H. pose proof (step_tid _ _ _ H) as Hlt.
  pose proof (NoRA_gett c t HN Hlt) as [Np Nc].
  apply step_stepR in H; stepR_cases H;
    try (exfalso; eapply Np; eauto; fail);
    try (exists []; split;
         [ eapply delivered_upd; [reflexivity | exact Hlt |];
           rewrite ?tres_finish_head; simpl; rewrite ?heads_app; simpl;
           rewrite ?app_nil_r; reflexivity
         | rewrite app_nil_r;
           match goal with |- Permutation ?a ?b =>
             replace a with b; [apply Permutation_refl | symmetry] end;
           first [ reflexivity
                 | eapply (popped_upd_same c _ q); [reflexivity | reflexivity] ] ]; fail).
  (* the pop step *)
  exists [v]. split.
  - eapply delivered_upd; [reflexivity | exact Hlt |].
    rewrite tres_finish_head, heads_app. reflexivity.
  - assert (Hq : q < length (queues c)) by (apply getq_vals_inrange; rewrite Hv; discriminate).
    apply (concat_set_nth_ext qpop q _ (queues c) dummyq [v]); auto.
Qed.

Definition no_removeall (c : config) : Prop := Forall NoRA (threads c).

Lemma initial_delivered c : initial c -> delivered c = [] /\ popped c = [].
Proof.
  intros [[caps Hq] Hf]. unfold delivered, popped. rewrite Hq. split.
  - induction Hf as [|h tl [_ Hr] _ IH]; simpl; auto. now rewrite Hr, IH.
  - clear. induction caps; simpl; auto.
Qed.

Theorem exactly_once c0 c :
  initial c0 -> no_removeall c0 -> reachable c0 c -> Permutation (delivered c) (popped c).
Proof.
  intros Hi Hn [s <-].
  cut (no_removeall (run c0 s) /\ Permutation (delivered (run c0 s)) (popped (run c0 s))); [tauto|].
  apply (run_ind_inv (fun c => no_removeall c /\ Permutation (delivered c) (popped c))).
  - intros c t c' [HN HP] H. split; [eapply step_preserves_nora; eauto|].
    destruct (step_delivered c t c' HN H) as (l & A & B).
    rewrite A, B. now apply Permutation_app_tail.
  - split; auto. destruct (initial_delivered c0 Hi) as [-> ->]. constructor.
Qed.

(* single queue *)
Theorem exactly_once_single c0 c cap :
  initial c0 -> queues c0 = [mkq cap] -> no_removeall c0 -> reachable c0 c ->
  Permutation (delivered c) (qpop (getq c 0)).
Proof.
  intros Hi Hq Hn Hr. pose proof (exactly_once c0 c Hi Hn Hr) as H.
  destruct Hr as [s <-].
  pose proof (run_queues_length c0 s) as Hl. rewrite Hq in Hl. simpl in Hl.
  unfold popped in H. unfold getq.
  destruct (queues (run c0 s)) as [|s0 [|s1 r]]; simpl in Hl; try discriminate.
  simpl in *. now rewrite app_nil_r in H.
Qed.

(* in a final configuration without panicked threads nobody is inside a call: every value
   whose AddValue completed was popped exactly once or is still available behind a token *)
Definition no_stuck (c : config) : Prop := Forall (fun th => tph th <> PStuck) (threads c).

Lemma final_no_holds c q :
  final c = true -> no_stuck c -> list_sum (map (holds q) (threads c)) = 0.
Proof.
  unfold final, no_stuck. intros Hf Hs.
  assert (Hall : forall th, In th (threads c) -> tph th = PIdle).
  { intros th Hin. rewrite forallb_forall in Hf. specialize (Hf th Hin).
    rewrite Forall_forall in Hs. specialize (Hs th Hin). unfold thread_done in Hf.
    destruct (tph th) eqn:E; auto; try discriminate. congruence. }
  revert Hall. generalize (threads c) as l.
  induction l as [|h tl IH]; intros Hall; simpl; auto.
  rewrite holds_idle by (apply Hall; now left). rewrite IH; auto.
  intros th Hin; apply Hall; now right.
Qed.

Theorem final_accounting c0 c q :
  initial c0 -> reachable c0 c -> final c = true -> no_stuck c ->
  qapp (getq c q) = qpop (getq c q) ++ qvals (getq c q) /\
  length (qvals (getq c q)) = qtok (getq c q).
Proof.
  intros Hi Hr Hf Hs. split; [now apply (fifo_prefix c0)|].
  destruct (Nat.lt_ge_cases q (length (queues c))) as [Hq|Hq].
  - pose proof (reachable_inv _ _ Hi Hr) as [_ HQ]. specialize (HQ q Hq).
    apply Q_inv_iff in HQ. destruct HQ as (_ & B & _).
    rewrite (final_no_holds c q Hf Hs) in B. lia.
  - rewrite getq_oob by auto. reflexivity.
Qed.

(* ------------------------------------------------------------------------- *)
(* the same facts stated over reachable configurations (as used by C04.v)    *)
(* ------------------------------------------------------------------------- *)

Lemma reachable_Q_inv c0 c :
  initial c0 -> reachable c0 c -> forall q, q < length (queues c) -> Q_inv c q.
Proof. intros Hi Hr. exact (proj2 (reachable_inv _ _ Hi Hr)). Qed.

Lemma initial_open c0 q : initial c0 -> qclosed (getq c0 q) = false /\ qtok (getq c0 q) = 0.
Proof.
  intros [[caps Hq] _]. unfold getq. rewrite Hq. change dummyq with (mkq 0).
  rewrite map_nth. split; reflexivity.
Qed.

Lemma r_pop_step c0 c t c' qa :
  initial c0 -> reachable c0 c -> at_pop c t qa -> step c t = Some c' ->
  exists v vs,
    qvals (getq c qa) = v :: vs /\ qvals (getq c' qa) = vs /\
    qpop (getq c' qa) = qpop (getq c qa) ++ [v] /\
    qapp (getq c' qa) = qapp (getq c qa) /\
    qtok (getq c' qa) = qtok (getq c qa) /\
    tres (gett c' t) = tres (gett c t) ++ [RHead v true] /\
    tph (gett c' t) = PIdle /\
    (forall q0, q0 <> qa -> getq c' q0 = getq c q0).
Proof. intros Hi Hr. apply pop_step. eapply reachable_inv2; eauto. Qed.

Lemma r_fifo_realtime_pop c0 c1 t1 c1' q s t2 c2' :
  initial c0 -> reachable c0 c1 -> at_pop c1 t1 q -> step c1 t1 = Some c1' ->
  at_pop (run c1' s) t2 q -> step (run c1' s) t2 = Some c2' ->
  exists v w l1 l2,
    qpop (getq c2' q) = l1 ++ [v] ++ l2 ++ [w] /\
    (exists r, tres (gett c1' t1) = r ++ [RHead v true]) /\
    (exists r, tres (gett c2' t2) = r ++ [RHead w true]).
Proof. intros Hi Hr. apply fifo_realtime_pop. eapply reachable_inv2; eauto. Qed.

Lemma r_stuck_only_by c0 c t c' :
  initial c0 -> reachable c0 c -> step c t = Some c' -> tph (gett c' t) = PStuck ->
  (exists q v rest, tph (gett c t) = PSend q /\ tcalls (gett c t) = CAdd q v :: rest /\
                    qclosed (getq c q) = true) \/
  (exists q rest, tph (gett c t) = PIdle /\ tcalls (gett c t) = CClose q :: rest /\
                  qclosed (getq c q) = true).
Proof. intros Hi Hr. apply stuck_only_by. eapply reachable_inv2; eauto. Qed.

Lemma r_no_pop_panic c0 c t c' qa :
  initial c0 -> reachable c0 c -> step c t = Some c' ->
  tph (gett c t) = PPop qa \/ tph (gett c t) = PDiscard qa ->
  tph (gett c' t) <> PStuck.
Proof. intros Hi Hr. apply no_pop_panic. eapply reachable_inv2; eauto. Qed.

Lemma r_ok_false_drained c0 c t c' v q rest :
  initial c0 -> reachable c0 c -> step c t = Some c' ->
  tres (gett c' t) = tres (gett c t) ++ [RHead v false] ->
  tcalls (gett c t) = CRemoveHead q :: rest -> q < length (queues c) ->
  length (qvals (getq c q)) =
    cnt (in_send q) (threads c) + cnt (in_pop q) (threads c) +
    cnt (in_disc q) (threads c) + cnt (orphan q) (threads c).
Proof. intros Hi Hr. apply ok_false_drained. eapply reachable_inv; eauto. Qed.

Lemma r_size_step c0 c t c' n :
  initial c0 -> reachable c0 c -> step c t = Some c' ->
  tres (gett c' t) = tres (gett c t) ++ [RSize n] ->
  exists q rest, tcalls (gett c t) = CGetSize q :: rest /\
    n = qtok (getq c q) /\ n <= qcap (getq c q).
Proof. intros Hi Hr. apply size_step. eapply reachable_inv; eauto. Qed.

Lemma r_array_step c0 c t c' l :
  initial c0 -> reachable c0 c -> step c t = Some c' ->
  tres (gett c' t) = tres (gett c t) ++ [RArray l] ->
  exists q rest, tcalls (gett c t) = CAsArray q :: rest /\
    l = qvals (getq c q) /\ qapp (getq c q) = qpop (getq c q) ++ l.
Proof. intros Hi Hr. apply array_step. eapply reachable_inv; eauto. Qed.

Lemma r_ok_true_step c0 c t c' va :
  initial c0 -> reachable c0 c -> step c t = Some c' ->
  tres (gett c' t) = tres (gett c t) ++ [RHead va true] ->
  exists q vs, tph (gett c t) = PPop q /\ qvals (getq c q) = va :: vs /\
    qvals (getq c' q) = vs /\ qpop (getq c' q) = qpop (getq c q) ++ [va].
Proof. intros Hi Hr. apply ok_true_step. eapply reachable_inv2; eauto. Qed.

Lemma r_removeall_step c0 c t c' qa rest0 :
  initial c0 -> reachable c0 c -> step c t = Some c' ->
  tcalls (gett c t) = CRemoveAll qa :: rest0 ->
  (forall q0, qcap (getq c' q0) = qcap (getq c q0) /\
              qclosed (getq c' q0) = qclosed (getq c q0) /\
              qapp (getq c' q0) = qapp (getq c q0)) /\
  (forall q0, q0 <> qa -> getq c' q0 = getq c q0) /\
  ( (tph (gett c t) = PIdle /\ qtok (getq c qa) = 0 /\
     c' = sett c t (finish (gett c t) rest0 RCleared))
    \/ (tph (gett c t) = PIdle /\ 0 < qtok (getq c qa) /\
        qtok (getq c' qa) = qtok (getq c qa) - 1 /\ qvals (getq c' qa) = qvals (getq c qa) /\
        qpop (getq c' qa) = qpop (getq c qa) /\
        tph (gett c' t) = PDiscard qa /\ tcalls (gett c' t) = tcalls (gett c t))
    \/ (tph (gett c t) = PDiscard qa /\
        exists v vs, qvals (getq c qa) = v :: vs /\ qvals (getq c' qa) = vs /\
          qpop (getq c' qa) = qpop (getq c qa) ++ [v] /\ qtok (getq c' qa) = qtok (getq c qa) /\
          tph (gett c' t) = PIdle /\ tcalls (gett c' t) = tcalls (gett c t)) ).
Proof. intros Hi Hr. apply removeall_step. eapply reachable_inv2; eauto. Qed.

(* ------------------------------------------------------------------------- *)
(* at-most-once delivery for every program (RemoveAll allowed)               *)
(* ------------------------------------------------------------------------- *)

(* one step adds the popped head (if any) to [popped]; it adds it to [delivered] as well unless
   the step is the discard step of a RemoveAll *)
Lemma step_delivered_any c t c' :
  Inv2 c -> step c t = Some c' ->
  exists l d, Permutation (delivered c') (delivered c ++ l) /\
              Permutation (popped c') (popped c ++ l ++ d).
Proof.
  intros [HI HR] H. pose proof (step_tid _ _ _ H) as Hlt.
  apply step_stepR in H; stepR_cases H;
    try (exists [], []; split;
         [ eapply delivered_upd; [reflexivity | exact Hlt |];
           rewrite ?tres_finish_head; simpl; rewrite ?heads_app; simpl;
           rewrite ?app_nil_r; reflexivity
         | rewrite !app_nil_r;
           match goal with |- Permutation ?a ?b =>
             replace a with b; [apply Permutation_refl | symmetry] end;
           first [ reflexivity
                 | eapply (popped_upd_same c _ q); [reflexivity | reflexivity] ] ]; fail).
  - (* the pop step of RemoveHead *)
    exists [v], []. split.
    + eapply delivered_upd; [reflexivity | exact Hlt |].
      rewrite tres_finish_head, heads_app. reflexivity.
    + assert (Hq : q < length (queues c)) by (apply getq_vals_inrange; rewrite Hv; discriminate).
      rewrite app_nil_r.
      apply (concat_set_nth_ext qpop q _ (queues c) dummyq [v]); auto.
  - (* the discard step of RemoveAll *)
    exists [], [v]. split.
    + eapply delivered_upd; [reflexivity | exact Hlt |]. simpl. now rewrite app_nil_r.
    + assert (Hq : q < length (queues c)) by (apply getq_vals_inrange; rewrite Hv; discriminate).
      apply (concat_set_nth_ext qpop q _ (queues c) dummyq [v]); auto.
Qed.

(* nothing is delivered that was not popped, and no popped value is delivered twice: the
   delivered values together with some others (those discarded by RemoveAll) are exactly
   the popped values *)
Theorem at_most_once c0 c :
  initial c0 -> reachable c0 c -> exists d, Permutation (delivered c ++ d) (popped c).
Proof.
  intros Hi [s <-].
  cut (Inv2 (run c0 s) /\ exists d, Permutation (delivered (run c0 s) ++ d) (popped (run c0 s))); [tauto|].
  apply (run_ind_inv (fun c => Inv2 c /\ exists d, Permutation (delivered c ++ d) (popped c))).
  - intros c t c' [HI [d HP]] H. split; [eapply step_preserves_inv2; eauto|].
    destruct (step_delivered_any c t c' HI H) as (l & d' & A & B).
    exists (d ++ d'). rewrite A, B.
    rewrite <- HP. rewrite <- !app_assoc. apply Permutation_app_head.
    rewrite !app_assoc. apply Permutation_app_tail. apply Permutation_app_comm.
  - split; [split; [now apply initial_inv | now apply initial_rng]|].
    exists []. destruct (initial_delivered c0 Hi) as [-> ->]. constructor.
Qed.
