(* ConcProofs.v — safety proofs about the interleaving model Conc.v of v4/collection/queue.go.
   Contents: list helpers; an inductive view [stepR] of the micro-step function (proved
   equivalent to [step]); the queue invariant [Q_inv] for every program and every schedule;
   the step-level and reachable-level facts used by C04.v.
   Everything is quantified over all thread lists (programs), all schedules, any number of
   queues, any capacities. *)
From Verif Require Import Base Conc.
From Coq Require Import Permutation.
Open Scope nat_scope.

(* ------------------------------------------------------------------------- *)
(* list helpers                                                              *)
(* ------------------------------------------------------------------------- *)

Lemma nth_set_nth_eq {A} k (v d : A) l : k < length l -> nth k (set_nth k v l) d = v.
Proof.
  revert k; induction l as [|h tl IH]; intros [|k] H; simpl in *; try lia; auto.
  apply IH; lia.
Qed.

Lemma nth_set_nth_neq {A} k j (v d : A) l : k <> j -> nth k (set_nth j v l) d = nth k l d.
Proof.
  revert k j; induction l as [|h tl IH]; intros [|k] [|j] H; simpl; auto; try lia.
Qed.

Lemma set_nth_oob {A} k (v : A) l : length l <= k -> set_nth k v l = l.
Proof.
  revert k; induction l as [|h tl IH]; intros [|k] H; simpl in *; auto; try lia.
  f_equal; apply IH; lia.
Qed.

Lemma set_nth_same {A} k (d : A) l : set_nth k (nth k l d) l = l.
Proof.
  revert k; induction l as [|h tl IH]; intros [|k]; simpl; auto.
  f_equal; apply IH.
Qed.

Lemma sum_set_nth {A} (f : A -> nat) t x l d : t < length l ->
  list_sum (map f (set_nth t x l)) + f (nth t l d) = list_sum (map f l) + f x.
Proof.
  revert t; induction l as [|h tl IH]; intros [|t] H; simpl in *; try lia.
  specialize (IH t ltac:(lia)). lia.
Qed.

Lemma concat_set_nth_perm {A B} (f : A -> list B) t x l d : t < length l ->
  Permutation (concat (map f (set_nth t x l)) ++ f (nth t l d)) (concat (map f l) ++ f x).
Proof.
  revert t; induction l as [|h tl IH]; intros [|t] H; simpl in *; try lia.
  - rewrite <- !app_assoc.
    etransitivity; [apply Permutation_app_swap_app|].
    etransitivity; [|apply Permutation_app_swap_app].
    apply Permutation_app_head. apply Permutation_app_comm.
  - rewrite <- !app_assoc. apply Permutation_app_head. apply IH; lia.
Qed.

Lemma map_set_nth_same {A B} (f : A -> B) k x l d :
  f x = f (nth k l d) -> map f (set_nth k x l) = map f l.
Proof.
  revert k; induction l as [|h tl IH]; intros [|k] H; simpl in *; auto.
  - now rewrite H.
  - f_equal; apply IH; auto.
Qed.

Lemma Forall_set_nth {A} (P : A -> Prop) k x l : Forall P l -> P x -> Forall P (set_nth k x l).
Proof.
  intros Hl Hx; revert k; induction Hl as [|h tl Hh Htl IH]; intros [|k]; simpl; auto.
Qed.

Lemma Forall_nth_d {A} (P : A -> Prop) l d k : Forall P l -> P d -> P (nth k l d).
Proof.
  intros Hl Hd; revert k; induction Hl as [|h tl Hh Htl IH]; intros [|k]; simpl; auto.
Qed.

(* ------------------------------------------------------------------------- *)
(* accessors of the configuration                                            *)
(* ------------------------------------------------------------------------- *)

Lemma getq_sett c t th q : getq (sett c t th) q = getq c q.
Proof. reflexivity. Qed.

Lemma getq_setq_eq c q s : q < length (queues c) -> getq (setq c q s) q = s.
Proof. intros H; unfold getq, setq; simpl. now apply nth_set_nth_eq. Qed.

Lemma getq_setq_neq c q q' s : q' <> q -> getq (setq c q s) q' = getq c q'.
Proof. intros H; unfold getq, setq; simpl. now apply nth_set_nth_neq. Qed.

Lemma setq_oob c q s : length (queues c) <= q -> queues (setq c q s) = queues c.
Proof. intros H; unfold setq; simpl. now apply set_nth_oob. Qed.

Lemma gett_sett_eq c t th : t < length (threads c) -> gett (sett c t th) t = th.
Proof. intros H; unfold gett, sett; simpl. now apply nth_set_nth_eq. Qed.

Lemma gett_sett_neq c t t' th : t' <> t -> gett (sett c t th) t' = gett c t'.
Proof. intros H; unfold gett, sett; simpl. now apply nth_set_nth_neq. Qed.

Lemma gett_setq c q s t : gett (setq c q s) t = gett c t.
Proof. reflexivity. Qed.

Lemma gett_live c t : tph (gett c t) <> PStuck -> t < length (threads c).
Proof.
  intros H. destruct (Nat.lt_ge_cases t (length (threads c))) as [Hlt|Hge]; auto.
  exfalso; apply H. unfold gett. now rewrite nth_overflow.
Qed.

Lemma getq_oob c q : length (queues c) <= q -> getq c q = dummyq.
Proof. intros H; unfold getq. now apply nth_overflow. Qed.

Lemma getq_tok_inrange c q : 0 < qtok (getq c q) -> q < length (queues c).
Proof.
  intros H. destruct (Nat.lt_ge_cases q (length (queues c))) as [Hlt|Hge]; auto.
  rewrite getq_oob in H by auto. simpl in H. lia.
Qed.

Lemma getq_cap_inrange c q : 0 < qcap (getq c q) -> q < length (queues c).
Proof.
  intros H. destruct (Nat.lt_ge_cases q (length (queues c))) as [Hlt|Hge]; auto.
  rewrite getq_oob in H by auto. simpl in H. lia.
Qed.

Lemma getq_vals_inrange c q : qvals (getq c q) <> [] -> q < length (queues c).
Proof.
  intros H. destruct (Nat.lt_ge_cases q (length (queues c))) as [Hlt|Hge]; auto.
  rewrite getq_oob in H by auto. simpl in H. congruence.
Qed.

(* ------------------------------------------------------------------------- *)
(* the micro-step as a relation: one constructor per branch of [step]        *)
(* ------------------------------------------------------------------------- *)

Section StepR.
Variable c : config.
Variable t : nat.
Let th := gett c t.

Inductive stepR : config -> Prop :=
(* AddValue, first half: append under the mutex *)
| SAppend q v rest :
    tph th = PIdle -> tcalls th = CAdd q v :: rest ->
    stepR (sett (setq c q {| qvals := qvals (getq c q) ++ [v]; qtok := qtok (getq c q);
                             qcap := qcap (getq c q); qclosed := qclosed (getq c q);
                             qapp := qapp (getq c q) ++ [v]; qpop := qpop (getq c q) |})
                t (in_phase th (PSend q)))
(* AddValue, second half: publish the token *)
| SSend q q1 v rest :
    tph th = PSend q -> tcalls th = CAdd q1 v :: rest ->
    qclosed (getq c q) = false -> qtok (getq c q) < qcap (getq c q) ->
    stepR (sett (setq c q {| qvals := qvals (getq c q); qtok := S (qtok (getq c q));
                             qcap := qcap (getq c q); qclosed := false;
                             qapp := qapp (getq c q); qpop := qpop (getq c q) |})
                t (finish th rest RAdded))
| SSendPanic q q1 v rest :
    tph th = PSend q -> tcalls th = CAdd q1 v :: rest ->
    qclosed (getq c q) = true ->
    stepR (sett c t (stuck th))
(* RemoveHead *)
| SClaim q rest :
    tph th = PIdle -> tcalls th = CRemoveHead q :: rest -> 0 < qtok (getq c q) ->
    stepR (sett (setq c q {| qvals := qvals (getq c q); qtok := qtok (getq c q) - 1;
                             qcap := qcap (getq c q); qclosed := qclosed (getq c q);
                             qapp := qapp (getq c q); qpop := qpop (getq c q) |})
                t (in_phase th (PPop q)))
| SHeadClosed q rest :
    tph th = PIdle -> tcalls th = CRemoveHead q :: rest ->
    qtok (getq c q) = 0 -> qclosed (getq c q) = true ->
    stepR (sett c t (finish_head th rest 0%Z false))
| SPop q q1 rest v vs :
    tph th = PPop q -> tcalls th = CRemoveHead q1 :: rest ->
    qvals (getq c q) = v :: vs ->
    stepR (sett (setq c q {| qvals := vs; qtok := qtok (getq c q);
                             qcap := qcap (getq c q); qclosed := qclosed (getq c q);
                             qapp := qapp (getq c q); qpop := qpop (getq c q) ++ [v] |})
                t (finish_head th rest v true))
| SPopPanic q q1 rest :
    tph th = PPop q -> tcalls th = CRemoveHead q1 :: rest ->
    qvals (getq c q) = [] ->
    stepR (sett c t (stuck th))
(* CloseQueue *)
| SClose q rest :
    tph th = PIdle -> tcalls th = CClose q :: rest -> qclosed (getq c q) = false ->
    stepR (sett (setq c q {| qvals := qvals (getq c q); qtok := qtok (getq c q);
                             qcap := qcap (getq c q); qclosed := true;
                             qapp := qapp (getq c q); qpop := qpop (getq c q) |})
                t (finish th rest RClosed))
| SClosePanic q rest :
    tph th = PIdle -> tcalls th = CClose q :: rest -> qclosed (getq c q) = true ->
    stepR (sett c t (stuck th))
(* RemoveAll *)
| SDrainClaim q rest :
    tph th = PIdle -> tcalls th = CRemoveAll q :: rest -> 0 < qtok (getq c q) ->
    stepR (sett (setq c q {| qvals := qvals (getq c q); qtok := qtok (getq c q) - 1;
                             qcap := qcap (getq c q); qclosed := qclosed (getq c q);
                             qapp := qapp (getq c q); qpop := qpop (getq c q) |})
                t (in_phase th (PDiscard q)))
| SDrainDone q rest :
    tph th = PIdle -> tcalls th = CRemoveAll q :: rest -> qtok (getq c q) = 0 ->
    stepR (sett c t (finish th rest RCleared))
| SDiscard q v vs :
    tph th = PDiscard q -> qvals (getq c q) = v :: vs ->
    stepR (sett (setq c q {| qvals := vs; qtok := qtok (getq c q);
                             qcap := qcap (getq c q); qclosed := qclosed (getq c q);
                             qapp := qapp (getq c q); qpop := qpop (getq c q) ++ [v] |})
                t (in_phase th PIdle))
| SDiscardPanic q :
    tph th = PDiscard q -> qvals (getq c q) = [] ->
    stepR (sett c t (stuck th))
(* observers *)
| SSize q rest :
    tph th = PIdle -> tcalls th = CGetSize q :: rest ->
    stepR (sett c t (finish th rest (RSize (qtok (getq c q)))))
| SEmpty q rest :
    tph th = PIdle -> tcalls th = CIsEmpty q :: rest ->
    stepR (sett c t (finish th rest (REmpty (qtok (getq c q) =? 0))))
| SArray q rest :
    tph th = PIdle -> tcalls th = CAsArray q :: rest ->
    stepR (sett c t (finish th rest (RArray (qvals (getq c q)))))
(* wait group *)
| SWait rest :
    tph th = PIdle -> tcalls th = CWait :: rest -> wg c = 0 ->
    stepR (sett c t (finish th rest RWaited))
| SDone rest :
    tph th = PIdle -> tcalls th = CDone :: rest ->
    stepR (sett {| queues := queues c; wg := wg c - 1; threads := threads c |} t
                (finish th rest RDoneWg)).
End StepR.

Lemma pop_head_some s v s' : pop_head s = Some (v, s') ->
  exists vs, qvals s = v :: vs /\
    s' = {| qvals := vs; qtok := qtok s; qcap := qcap s; qclosed := qclosed s;
            qapp := qapp s; qpop := qpop s ++ [v] |}.
Proof.
  unfold pop_head. destruct (qvals s) as [|w vs]; intros H; [discriminate|].
  inversion H; subst. eauto.
Qed.

Lemma pop_head_none s : pop_head s = None -> qvals s = [].
Proof. unfold pop_head. destruct (qvals s); intros H; [auto|discriminate]. Qed.

Lemma step_stepR c t c' : step c t = Some c' -> stepR c t c'.
Proof.
  unfold step. intros H.
  destruct (tph (gett c t)) as [|q|q|q|] eqn:Hph.
  - (* PIdle *)
    destruct (tcalls (gett c t)) as [|[q v|q|q|q|q|q|q| | ] rest] eqn:Hcalls.
    + discriminate.
    + inversion H; subst. eapply SAppend; eauto.
    + destruct (0 <? qtok (getq c q)) eqn:Htok.
      * apply Nat.ltb_lt in Htok. inversion H; subst. eapply SClaim; eauto.
      * apply Nat.ltb_ge in Htok.
        destruct (qclosed (getq c q)) eqn:Hcl; [|discriminate].
        inversion H; subst. eapply SHeadClosed; eauto. lia.
    + destruct (qclosed (getq c q)) eqn:Hcl; inversion H; subst.
      * eapply SClosePanic; eauto.
      * eapply SClose; eauto.
    + destruct (0 <? qtok (getq c q)) eqn:Htok; inversion H; subst.
      * apply Nat.ltb_lt in Htok. eapply SDrainClaim; eauto.
      * apply Nat.ltb_ge in Htok. eapply SDrainDone; eauto. lia.
    + inversion H; subst. eapply SSize; eauto.
    + inversion H; subst. eapply SEmpty; eauto.
    + inversion H; subst. eapply SArray; eauto.
    + destruct (wg c =? 0) eqn:Hwg; [|discriminate].
      apply Nat.eqb_eq in Hwg. inversion H; subst. eapply SWait; eauto.
    + inversion H; subst. eapply SDone; eauto.
  - (* PSend *)
    destruct (tcalls (gett c t)) as [|[q1 v|?|?|?|?|?|?| | ] rest] eqn:Hcalls; try discriminate.
    destruct (qclosed (getq c q)) eqn:Hcl.
    + inversion H; subst. eapply SSendPanic; eauto.
    + destruct (qtok (getq c q) <? qcap (getq c q)) eqn:Htok; [|discriminate].
      apply Nat.ltb_lt in Htok. inversion H; subst. eapply SSend; eauto.
  - (* PPop *)
    destruct (tcalls (gett c t)) as [|[?|q1|?|?|?|?|?| | ] rest] eqn:Hcalls; try discriminate.
    destruct (pop_head (getq c q)) as [[v s']|] eqn:Hpop.
    + apply pop_head_some in Hpop. destruct Hpop as [vs [Hv Hs]]. subst s'.
      inversion H; subst. eapply SPop; eauto.
    + apply pop_head_none in Hpop. inversion H; subst. eapply SPopPanic; eauto.
  - (* PDiscard *)
    destruct (pop_head (getq c q)) as [[v s']|] eqn:Hpop.
    + apply pop_head_some in Hpop. destruct Hpop as [vs [Hv Hs]]. subst s'.
      inversion H; subst. eapply SDiscard; eauto.
    + apply pop_head_none in Hpop. inversion H; subst. eapply SDiscardPanic; eauto.
  - discriminate.
Qed.

(* the relation says nothing more than the function *)
Lemma stepR_step c t c' : stepR c t c' -> step c t = Some c'.
Proof.
  intros H; unfold step; destruct H as
    [q v rest Hph Hc | q q1 v rest Hph Hc Hcl Htok | q q1 v rest Hph Hc Hcl
    | q rest Hph Hc Htok | q rest Hph Hc Htok Hcl | q q1 rest v vs Hph Hc Hv | q q1 rest Hph Hc Hv
    | q rest Hph Hc Hcl | q rest Hph Hc Hcl
    | q rest Hph Hc Htok | q rest Hph Hc Htok | q v vs Hph Hv | q Hph Hv
    | q rest Hph Hc | q rest Hph Hc | q rest Hph Hc | rest Hph Hc Hwg | rest Hph Hc];
    rewrite Hph; try rewrite Hc; auto.
  - rewrite Hcl. apply Nat.ltb_lt in Htok. now rewrite Htok.
  - now rewrite Hcl.
  - apply Nat.ltb_lt in Htok. now rewrite Htok.
  - rewrite Htok, Hcl. reflexivity.
  - unfold pop_head. now rewrite Hv.
  - unfold pop_head. now rewrite Hv.
  - now rewrite Hcl.
  - now rewrite Hcl.
  - apply Nat.ltb_lt in Htok. now rewrite Htok.
  - now rewrite Htok.
  - unfold pop_head. now rewrite Hv.
  - unfold pop_head. now rewrite Hv.
  - rewrite Hwg. reflexivity.
Qed.

Lemma step_iff_stepR c t c' : step c t = Some c' <-> stepR c t c'.
Proof. split; [apply step_stepR | apply stepR_step]. Qed.

(* ------------------------------------------------------------------------- *)
(* the invariant                                                             *)
(* ------------------------------------------------------------------------- *)

(* a thread inside a call still has that call at the head of its pending list *)
Definition T_inv (th : thread) : Prop :=
  match tph th with
  | PSend q => exists v rest, tcalls th = CAdd q v :: rest
  | PPop q => exists rest, tcalls th = CRemoveHead q :: rest
  | PDiscard q => exists rest, tcalls th = CRemoveAll q :: rest
  | PIdle | PStuck => True
  end.

Definition in_send (q : nat) (th : thread) : bool :=
  match tph th with PSend q' => q' =? q | _ => false end.
Definition in_pop (q : nat) (th : thread) : bool :=
  match tph th with PPop q' => q' =? q | _ => false end.
Definition in_disc (q : nat) (th : thread) : bool :=
  match tph th with PDiscard q' => q' =? q | _ => false end.
(* an AddValue whose send panicked on the closed channel: its value stays in the list *)
Definition orphan (q : nat) (th : thread) : bool :=
  match tph th, tcalls th with PStuck, CAdd q' _ :: _ => q' =? q | _, _ => false end.

Definition cnt (p : thread -> bool) (ths : list thread) : nat := length (filter p ths).

Definition Q_inv (c : config) (q : nat) : Prop :=
  let s := getq c q in
  qtok s <= qcap s /\
  length (qvals s) = qtok s + cnt (in_send q) (threads c) + cnt (in_pop q) (threads c)
                     + cnt (in_disc q) (threads c) + cnt (orphan q) (threads c) /\
  qapp s = qpop s ++ qvals s.

Definition Inv (c : config) : Prop :=
  Forall T_inv (threads c) /\ forall q, q < length (queues c) -> Q_inv c q.

(* the four counters as one weight per thread: moving one thread changes one summand *)
Definition b2n (b : bool) : nat := if b then 1 else 0.
Definition holds (q : nat) (th : thread) : nat :=
  b2n (in_send q th) + b2n (in_pop q th) + b2n (in_disc q th) + b2n (orphan q th).

Lemma cnt_sum p ths : cnt p ths = list_sum (map (fun th => b2n (p th)) ths).
Proof.
  unfold cnt; induction ths as [|h tl IH]; simpl; auto.
  destruct (p h); simpl; lia.
Qed.

Lemma holds_sum q ths :
  list_sum (map (holds q) ths) =
  cnt (in_send q) ths + cnt (in_pop q) ths + cnt (in_disc q) ths + cnt (orphan q) ths.
Proof.
  rewrite !cnt_sum. induction ths as [|h tl IH]; simpl; auto.
  unfold holds at 1. lia.
Qed.

Lemma cnt_set_nth p t x l : t < length l ->
  cnt p (set_nth t x l) + b2n (p (nth t l dummyt)) = cnt p l + b2n (p x).
Proof. intros H. rewrite !cnt_sum. exact (sum_set_nth (fun th => b2n (p th)) t x l dummyt H). Qed.

Lemma nth_le_sum {A} (f : A -> nat) t l d : t < length l -> f (nth t l d) <= list_sum (map f l).
Proof.
  revert t; induction l as [|h tl IH]; intros [|t] H; simpl in *; try lia.
  specialize (IH t ltac:(lia)). lia.
Qed.

Lemma cnt_pos_ex p l : 0 < cnt p l -> exists t, t < length l /\ p (nth t l dummyt) = true.
Proof.
  unfold cnt; induction l as [|h tl IH]; simpl; intros H; [lia|].
  destruct (p h) eqn:Hp.
  - exists 0; split; [lia|auto].
  - destruct (IH H) as [t [Hlt Ht]]. exists (S t); split; [lia|auto].
Qed.

Lemma cnt_ex_pos p l t : t < length l -> p (nth t l dummyt) = true -> 0 < cnt p l.
Proof.
  intros Hlt Hp. rewrite cnt_sum.
  pose proof (nth_le_sum (fun th => b2n (p th)) t l dummyt Hlt) as H.
  simpl in H. rewrite Hp in H. simpl in H. lia.
Qed.

Lemma cnt_zero_all p l t : cnt p l = 0 -> p (nth t l dummyt) = true -> t < length l -> False.
Proof. intros H0 Hp Hlt. pose proof (cnt_ex_pos p l t Hlt Hp). lia. Qed.

Lemma holds_idle q th : tph th = PIdle -> holds q th = 0.
Proof. intros H; unfold holds, in_send, in_pop, in_disc, orphan; now rewrite H. Qed.

Lemma holds_send q q0 th : tph th = PSend q -> holds q0 th = if q =? q0 then 1 else 0.
Proof.
  intros H; unfold holds, in_send, in_pop, in_disc, orphan; rewrite H.
  destruct (q =? q0); reflexivity.
Qed.

Lemma holds_pop q q0 th : tph th = PPop q -> holds q0 th = if q =? q0 then 1 else 0.
Proof.
  intros H; unfold holds, in_send, in_pop, in_disc, orphan; rewrite H.
  destruct (q =? q0); reflexivity.
Qed.

Lemma holds_disc q q0 th : tph th = PDiscard q -> holds q0 th = if q =? q0 then 1 else 0.
Proof.
  intros H; unfold holds, in_send, in_pop, in_disc, orphan; rewrite H.
  destruct (q =? q0); reflexivity.
Qed.

Lemma holds_stuck_add q v rest q0 th :
  tph th = PStuck -> tcalls th = CAdd q v :: rest -> holds q0 th = if q =? q0 then 1 else 0.
Proof.
  intros H Hc; unfold holds, in_send, in_pop, in_disc, orphan; rewrite H, Hc.
  destruct (q =? q0); reflexivity.
Qed.

Lemma holds_stuck_other q0 th :
  tph th = PStuck -> (forall q v rest, tcalls th <> CAdd q v :: rest) -> holds q0 th = 0.
Proof.
  intros H Hc; unfold holds, in_send, in_pop, in_disc, orphan; rewrite H.
  destruct (tcalls th) as [|[]]; try reflexivity. exfalso; eapply Hc; eauto.
Qed.

Lemma tph_finish_head th rest v ok : tph (finish_head th rest v ok) = PIdle.
Proof. unfold finish_head. destruct (continue (tloop th) v ok). reflexivity. Qed.

Lemma tres_finish_head th rest v ok : tres (finish_head th rest v ok) = tres th ++ [RHead v ok].
Proof. unfold finish_head. destruct (continue (tloop th) v ok). reflexivity. Qed.

Lemma holds_finish q th rest r : holds q (finish th rest r) = 0.
Proof. apply holds_idle; reflexivity. Qed.
Lemma holds_finish_head q th rest v ok : holds q (finish_head th rest v ok) = 0.
Proof. apply holds_idle; apply tph_finish_head. Qed.
Lemma holds_in_idle q th : holds q (in_phase th PIdle) = 0.
Proof. apply holds_idle; reflexivity. Qed.
Lemma holds_in_send q q0 th : holds q0 (in_phase th (PSend q)) = if q =? q0 then 1 else 0.
Proof. apply holds_send; reflexivity. Qed.
Lemma holds_in_pop q q0 th : holds q0 (in_phase th (PPop q)) = if q =? q0 then 1 else 0.
Proof. apply holds_pop; reflexivity. Qed.
Lemma holds_in_disc q q0 th : holds q0 (in_phase th (PDiscard q)) = if q =? q0 then 1 else 0.
Proof. apply holds_disc; reflexivity. Qed.

Lemma T_inv_idle th : tph th = PIdle -> T_inv th.
Proof. intros H; unfold T_inv; now rewrite H. Qed.

Lemma T_inv_stuck th : T_inv (stuck th).
Proof. exact I. Qed.

Lemma T_inv_gett c t : Forall T_inv (threads c) -> T_inv (gett c t).
Proof. intros H; unfold gett; apply Forall_nth_d; auto. exact I. Qed.

(* the invariant in terms of the weights *)
Definition Q_inv' (c : config) (q : nat) : Prop :=
  let s := getq c q in
  qtok s <= qcap s /\
  length (qvals s) = qtok s + list_sum (map (holds q) (threads c)) /\
  qapp s = qpop s ++ qvals s.

Lemma Q_inv_iff c q : Q_inv c q <-> Q_inv' c q.
Proof. unfold Q_inv, Q_inv'; rewrite holds_sum; simpl; split; intros (A & B & C); repeat split; auto; try lia. Qed.

(* updating one queue and one thread *)
Lemma Inv_update c q s' t th' :
  Inv c -> t < length (threads c) -> T_inv th' ->
  (q < length (queues c) ->
     qtok s' <= qcap s' /\ qapp s' = qpop s' ++ qvals s' /\
     length (qvals s') + holds q (gett c t) + qtok (getq c q) =
     length (qvals (getq c q)) + holds q th' + qtok s') ->
  (forall q0, q0 < length (queues c) -> q0 <> q -> holds q0 th' = holds q0 (gett c t)) ->
  Inv (sett (setq c q s') t th').
Proof.
  intros [HT HQ] Hlt Hth' Hq Hother. split.
  - simpl. apply Forall_set_nth; auto.
  - intros q0 Hq0. simpl in Hq0. rewrite set_nth_length in Hq0.
    apply Q_inv_iff. specialize (HQ q0 Hq0). apply Q_inv_iff in HQ.
    unfold Q_inv' in *. rewrite getq_sett. simpl threads.
    pose proof (sum_set_nth (holds q0) t th' (threads c) dummyt Hlt) as Hs.
    fold (gett c t) in Hs.
    destruct (Nat.eq_dec q0 q) as [->|Hne].
    + rewrite getq_setq_eq by auto. destruct (Hq Hq0) as (A & B & C).
      destruct HQ as (A0 & B0 & C0). repeat split; auto. lia.
    + rewrite getq_setq_neq by auto. rewrite (Hother q0 Hq0 Hne) in Hs.
      destruct HQ as (A0 & B0 & C0). repeat split; auto. lia.
Qed.

Lemma Inv_update_t c t th' :
  Inv c -> t < length (threads c) -> T_inv th' ->
  (forall q0, q0 < length (queues c) -> holds q0 th' = holds q0 (gett c t)) ->
  Inv (sett c t th').
Proof.
  intros [HT HQ] Hlt Hth' Hother. split.
  - simpl. apply Forall_set_nth; auto.
  - intros q0 Hq0. simpl in Hq0.
    apply Q_inv_iff. specialize (HQ q0 Hq0). apply Q_inv_iff in HQ.
    unfold Q_inv' in *. rewrite getq_sett. simpl threads.
    pose proof (sum_set_nth (holds q0) t th' (threads c) dummyt Hlt) as Hs.
    fold (gett c t) in Hs. rewrite (Hother q0 Hq0) in Hs.
    destruct HQ as (A0 & B0 & C0). repeat split; auto. lia.
Qed.

Lemma Inv_wg c w : Inv c -> Inv {| queues := queues c; wg := w; threads := threads c |}.
Proof. intros H; exact H. Qed.

(* a thread that holds a claim on queue q (in range) has a value behind it *)
Lemma holds_le_vals c q t :
  Inv c -> q < length (queues c) -> t < length (threads c) ->
  holds q (gett c t) + qtok (getq c q) <= length (qvals (getq c q)).
Proof.
  intros [_ HQ] Hq Hlt. specialize (HQ q Hq). apply Q_inv_iff in HQ.
  destruct HQ as (_ & B & _).
  pose proof (nth_le_sum (holds q) t (threads c) dummyt Hlt) as H.
  fold (gett c t) in H. lia.
Qed.

Ltac stepR_cases H :=
  destruct H as
    [q v rest Hph Hc | q q1 v rest Hph Hc Hcl Htok | q q1 v rest Hph Hc Hcl
    | q rest Hph Hc Htok | q rest Hph Hc Htok Hcl | q q1 rest v vs Hph Hc Hv | q q1 rest Hph Hc Hv
    | q rest Hph Hc Hcl | q rest Hph Hc Hcl
    | q rest Hph Hc Htok | q rest Hph Hc Htok | q v vs Hph Hv | q Hph Hv
    | q rest Hph Hc | q rest Hph Hc | q rest Hph Hc | rest Hph Hc Hwg | rest Hph Hc].

Ltac idle_idle Hph :=
  apply Inv_update_t; auto;
  [ apply T_inv_idle; (reflexivity || apply tph_finish_head)
  | intros q0 _; transitivity 0;
    [ apply holds_idle; (reflexivity || apply tph_finish_head)
    | symmetry; apply holds_idle; exact Hph ] ].

Lemma step_preserves_inv c t c' : Inv c -> step c t = Some c' -> Inv c'.
Proof.
  intros HI H. apply step_stepR in H.
  assert (Hth : T_inv (gett c t)) by (apply T_inv_gett; apply HI).
  stepR_cases H;
    assert (Hlt : t < length (threads c)) by (apply gett_live; rewrite Hph; discriminate).
  - (* append *)
    apply Inv_update; auto.
    + unfold T_inv; simpl; eauto.
    + intros Hq. destruct (proj2 HI q Hq) as (A0 & B0 & C0).
      rewrite (holds_idle q _ Hph), holds_in_send, Nat.eqb_refl.
      simpl.
      rewrite app_length; simpl. repeat split; auto; try lia; rewrite C0, app_assoc; auto.
    + intros q0 _ Hne. rewrite (holds_idle q0 _ Hph), holds_in_send.
      destruct (Nat.eqb_spec q q0); congruence.
  - (* send *)
    apply Inv_update; auto.
    + apply T_inv_idle; reflexivity.
    + intros Hq. destruct (proj2 HI q Hq) as (A0 & B0 & C0).
      rewrite (holds_send q q _ Hph), Nat.eqb_refl, holds_finish.
      simpl.
      repeat split; auto; try lia.
    + intros q0 _ Hne. rewrite (holds_send q q0 _ Hph), holds_finish.
      destruct (Nat.eqb_spec q q0); congruence.
  - (* send on closed *)
    apply Inv_update_t; auto; [apply T_inv_stuck|].
    intros q0 _. unfold T_inv in Hth; rewrite Hph in Hth. destruct Hth as (v' & rest' & E).
    rewrite Hc in E; inversion E; subst.
    rewrite (holds_send q q0 _ Hph).
    apply (holds_stuck_add q v' rest'); [reflexivity | exact Hc].
  - (* claim *)
    apply Inv_update; auto.
    + unfold T_inv; simpl; eauto.
    + intros Hq. destruct (proj2 HI q Hq) as (A0 & B0 & C0).
      rewrite (holds_idle q _ Hph), holds_in_pop, Nat.eqb_refl.
      simpl.
      repeat split; auto; try lia.
    + intros q0 _ Hne. rewrite (holds_idle q0 _ Hph), holds_in_pop.
      destruct (Nat.eqb_spec q q0); congruence.
  - (* head on closed and drained *) idle_idle Hph.
  - (* pop *)
    apply Inv_update; auto.
    + apply T_inv_idle; apply tph_finish_head.
    + intros Hq. destruct (proj2 HI q Hq) as (A0 & B0 & C0).
      rewrite (holds_pop q q _ Hph), Nat.eqb_refl, holds_finish_head.
      simpl.
      rewrite Hv in *. simpl in *. repeat split; auto; try lia; rewrite <- app_assoc; auto.
    + intros q0 _ Hne. rewrite (holds_pop q q0 _ Hph), holds_finish_head.
      destruct (Nat.eqb_spec q q0); congruence.
  - (* pop on empty list: excluded by the invariant when q is a queue *)
    apply Inv_update_t; auto; [apply T_inv_stuck|].
    intros q0 Hq0. rewrite (holds_pop q q0 _ Hph).
    rewrite holds_stuck_other; [|reflexivity|simpl; rewrite Hc; congruence].
    destruct (Nat.eqb_spec q q0) as [->|]; auto.
    pose proof (holds_le_vals c q0 t HI Hq0 Hlt) as Hle.
    rewrite (holds_pop q0 q0 _ Hph), Nat.eqb_refl, Hv in Hle. simpl in Hle. lia.
  - (* close *)
    apply Inv_update; auto.
    + apply T_inv_idle; reflexivity.
    + intros Hq. destruct (proj2 HI q Hq) as (A0 & B0 & C0).
      rewrite (holds_idle q _ Hph), holds_finish.
      simpl.
      repeat split; auto.
    + intros q0 _ Hne. rewrite (holds_idle q0 _ Hph), holds_finish. auto.
  - (* close of closed *)
    apply Inv_update_t; auto; [apply T_inv_stuck|].
    intros q0 _. rewrite (holds_idle q0 _ Hph).
    apply holds_stuck_other; [reflexivity|simpl; rewrite Hc; congruence].
  - (* RemoveAll claims a token *)
    apply Inv_update; auto.
    + unfold T_inv; simpl; eauto.
    + intros Hq. destruct (proj2 HI q Hq) as (A0 & B0 & C0).
      rewrite (holds_idle q _ Hph), holds_in_disc, Nat.eqb_refl.
      simpl.
      repeat split; auto; try lia.
    + intros q0 _ Hne. rewrite (holds_idle q0 _ Hph), holds_in_disc.
      destruct (Nat.eqb_spec q q0); congruence.
  - (* RemoveAll done *) idle_idle Hph.
  - (* discard *)
    apply Inv_update; auto.
    + apply T_inv_idle; reflexivity.
    + intros Hq. destruct (proj2 HI q Hq) as (A0 & B0 & C0).
      rewrite (holds_disc q q _ Hph), Nat.eqb_refl, holds_in_idle.
      simpl.
      rewrite Hv in *. simpl in *. repeat split; auto; try lia; rewrite <- app_assoc; auto.
    + intros q0 _ Hne. rewrite (holds_disc q q0 _ Hph), holds_in_idle.
      destruct (Nat.eqb_spec q q0); congruence.
  - (* discard on empty list: excluded by the invariant when q is a queue *)
    apply Inv_update_t; auto; [apply T_inv_stuck|].
    intros q0 Hq0. rewrite (holds_disc q q0 _ Hph).
    unfold T_inv in Hth; rewrite Hph in Hth. destruct Hth as (rest' & E).
    rewrite holds_stuck_other; [|reflexivity|simpl; rewrite E; congruence].
    destruct (Nat.eqb_spec q q0) as [->|]; auto.
    pose proof (holds_le_vals c q0 t HI Hq0 Hlt) as Hle.
    rewrite (holds_disc q0 q0 _ Hph), Nat.eqb_refl, Hv in Hle. simpl in Hle. lia.
  - idle_idle Hph.
  - idle_idle Hph.
  - idle_idle Hph.
  - idle_idle Hph.
  - apply (Inv_wg c (wg c - 1)) in HI. idle_idle Hph.
Qed.

(* ------------------------------------------------------------------------- *)
(* initial and reachable configurations                                      *)
(* ------------------------------------------------------------------------- *)

Definition fresh (th : thread) : Prop := tph th = PIdle /\ tres th = [].

Definition initial (c : config) : Prop :=
  (exists caps, queues c = map mkq caps) /\ Forall fresh (threads c).

Definition reachable (c0 c : config) : Prop := exists sched, run c0 sched = c.

Lemma run_app c s1 s2 : run c (s1 ++ s2) = run (run c s1) s2.
Proof.
  revert c; induction s1 as [|t s1 IH]; intros c; simpl; auto.
  destruct (step c t); apply IH.
Qed.

Lemma reachable_refl c : reachable c c.
Proof. exists []; reflexivity. Qed.

Lemma reachable_step c0 c t c' : reachable c0 c -> step c t = Some c' -> reachable c0 c'.
Proof.
  intros [s Hs] H. exists (s ++ [t]). rewrite run_app, Hs. simpl. now rewrite H.
Qed.

Lemma reachable_run c0 c s : reachable c0 c -> reachable c0 (run c s).
Proof. intros [s0 Hs]. exists (s0 ++ s). now rewrite run_app, Hs. Qed.

(* induction principle: a property of the initial configuration preserved by steps
   holds of every reachable configuration *)
Lemma run_ind_inv (P : config -> Prop) :
  (forall c t c', P c -> step c t = Some c' -> P c') ->
  forall s c, P c -> P (run c s).
Proof.
  intros Hstep s; induction s as [|t s IH]; intros c Hc; simpl; auto.
  destruct (step c t) eqn:E; eauto.
Qed.

Lemma fresh_holds q ths : Forall fresh ths -> list_sum (map (holds q) ths) = 0.
Proof.
  induction 1 as [|h tl [Hh _] _ IH]; simpl; auto. rewrite holds_idle; auto.
Qed.

Lemma initial_inv c : initial c -> Inv c.
Proof.
  intros [[caps Hq] Hf]. split.
  - eapply Forall_impl; [|exact Hf]. intros th [Hp _]. now apply T_inv_idle.
  - intros q Hlt. apply Q_inv_iff. unfold Q_inv', getq. rewrite Hq.
    change dummyq with (mkq 0). rewrite map_nth. simpl.
    rewrite fresh_holds by auto. repeat split; auto; lia.
Qed.

Lemma run_inv c s : Inv c -> Inv (run c s).
Proof. apply run_ind_inv. intros; eapply step_preserves_inv; eauto. Qed.

Theorem reachable_inv c0 c : initial c0 -> reachable c0 c -> Inv c.
Proof. intros Hi [s <-]. apply run_inv. now apply initial_inv. Qed.

(* claims are only ever held on existing queues *)
Definition T_rng (n : nat) (th : thread) : Prop :=
  match tph th with PPop q | PDiscard q => q < n | _ => True end.
Definition Rng (c : config) : Prop := Forall (T_rng (length (queues c))) (threads c).

Lemma step_queues_length c t c' : step c t = Some c' -> length (queues c') = length (queues c).
Proof.
  intros H; apply step_stepR in H. stepR_cases H; simpl; rewrite ?set_nth_length; auto.
Qed.

Lemma step_threads_length c t c' : step c t = Some c' -> length (threads c') = length (threads c).
Proof.
  intros H; apply step_stepR in H. stepR_cases H; simpl; rewrite ?set_nth_length; auto.
Qed.

Lemma step_tid c t c' : step c t = Some c' -> t < length (threads c).
Proof.
  intros H. apply gett_live. intros E. unfold step in H. rewrite E in H. discriminate.
Qed.

Lemma T_rng_idle n th : tph th = PIdle -> T_rng n th.
Proof. intros H; unfold T_rng; now rewrite H. Qed.

Lemma step_preserves_rng c t c' : Rng c -> step c t = Some c' -> Rng c'.
Proof.
  intros HR H. unfold Rng. rewrite (step_queues_length _ _ _ H).
  apply step_stepR in H. unfold Rng in HR.
  stepR_cases H; simpl; apply Forall_set_nth; auto;
    try exact I; try (apply T_rng_idle; (reflexivity || apply tph_finish_head)).
  - unfold T_rng; simpl. now apply getq_tok_inrange.
  - unfold T_rng; simpl. now apply getq_tok_inrange.
Qed.

Lemma initial_rng c : initial c -> Rng c.
Proof.
  intros [_ Hf]. eapply Forall_impl; [|exact Hf]. intros th [Hp _]. now apply T_rng_idle.
Qed.

Definition Inv2 (c : config) : Prop := Inv c /\ Rng c.

Lemma step_preserves_inv2 c t c' : Inv2 c -> step c t = Some c' -> Inv2 c'.
Proof.
  intros [A B] H; split; [eapply step_preserves_inv | eapply step_preserves_rng]; eauto.
Qed.

Theorem reachable_inv2 c0 c : initial c0 -> reachable c0 c -> Inv2 c.
Proof.
  intros Hi [s <-]. apply (run_ind_inv Inv2).
  - intros; eapply step_preserves_inv2; eauto.
  - split; [now apply initial_inv | now apply initial_rng].
Qed.

Lemma rng_gett c t q : Rng c -> tph (gett c t) = PPop q \/ tph (gett c t) = PDiscard q ->
  q < length (queues c).
Proof.
  intros HR Hp. assert (H : T_rng (length (queues c)) (gett c t)).
  { unfold gett; apply Forall_nth_d; auto. exact I. }
  unfold T_rng in H. destruct Hp as [Hp|Hp]; rewrite Hp in H; exact H.
Qed.

(* ------------------------------------------------------------------------- *)
(* reading a queue after an update                                           *)
(* ------------------------------------------------------------------------- *)

Lemma getq_setq c q s q0 :
  getq (setq c q s) q0 = if (q0 =? q) && (q <? length (queues c)) then s else getq c q0.
Proof.
  destruct (Nat.eqb_spec q0 q) as [->|Hne]; simpl.
  - destruct (Nat.ltb_spec q (length (queues c))) as [Hlt|Hge].
    + now apply getq_setq_eq.
    + unfold getq. now rewrite setq_oob.
  - now apply getq_setq_neq.
Qed.

(* fields that a queue update leaves alone are the same for every queue *)
Lemma getq_setq_field {A} (f : qstate -> A) c q s q0 :
  f s = f (getq c q) -> f (getq (setq c q s) q0) = f (getq c q0).
Proof.
  intros H. rewrite getq_setq.
  destruct (Nat.eqb_spec q0 q) as [->|Hne]; simpl; auto.
  destruct (q <? length (queues c)); auto.
Qed.
