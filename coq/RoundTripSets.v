(* RoundTripSets.v — a sufficient condition for RoundTrip.sets_sorted: a Set whose members are
   listed in strictly ascending collator order (every member ranks Greater than every member
   listed before it) is left as it is by the Set constructor: the binary search of set.go
   (Parser.set_find) always answers "behind the last member".  No transitivity of the ranking is
   needed, because the hypothesis speaks of all earlier members. *)
From Verif Require Import Base Params Value Coll Lexer Literals Parser RoundTrip.
Close Scope Z_scope.

Section Sets.
Variable crank : val -> val -> option comparison.

Lemma set_find_behind l v : (forall x, In x l -> crank v x = Some Gt) ->
  forall fuel first size, 1 <= first -> first + size = S (length l) -> size <= fuel ->
  set_find crank fuel l v first (length l) size = Some (length l, false).
Proof.
  intros Hgt. induction fuel as [|f IH]; intros first size H1 Hs Hf.
  - assert (size = 0) by lia. subst. reflexivity.
  - destruct size as [|sz]; [reflexivity|]. cbn [set_find].
    change (S sz =? 0) with false. cbv iota.
    set (middle := first + S sz / 2).
    assert (Hdiv : S sz / 2 < S sz) by (apply Nat.div_lt_upper_bound; lia).
    assert (Hm : middle - 1 < length l) by (unfold middle; lia).
    rewrite (Hgt _ (nth_In l VNil Hm)).
    apply IH; unfold middle; lia.
Qed.

Lemma set_add1_behind l v : (forall x, In x l -> crank v x = Some Gt) -> set_add1 crank l v = Some (l ++ [v]).
Proof.
  intros Hgt. unfold set_add1. rewrite (set_find_behind l v Hgt (S (length l)) 1 (length l)) by lia.
  rewrite firstn_all, skipn_all. reflexivity.
Qed.

(* every item ranks Greater than everything in [seen] and than every item before it *)
Fixpoint ascending (seen items : list val) : Prop :=
  match items with
  | [] => True
  | v :: r => (forall x, In x seen -> crank v x = Some Gt) /\ ascending (seen ++ [v]) r
  end.

Lemma set_build_ascending items : forall acc, ascending acc items -> set_build crank acc items = Some (acc ++ items).
Proof.
  induction items as [|v r IH]; intros acc H; [rewrite app_nil_r; reflexivity|].
  destruct H as [Hv Hr]. cbn [set_build]. rewrite (set_add1_behind acc v Hv), (IH _ Hr), <- app_assoc. reflexivity.
Qed.

(* the members of a Set, as the parser will see them, in strictly ascending order: the clause of
   sets_sorted for that Set *)
Theorem ascending_sorted l : ascending [] (map (canon crank) l) ->
  set_build crank [] (map (canon crank) l) = Some (map (canon crank) l).
Proof. intros H. apply (set_build_ascending _ [] H). Qed.
End Sets.
