(* FormatDeep.v — the converse of FormatBound.no_elision_within_limit: a value nested deeper than
   the limit is elided somewhere: its token view holds "...". *)
From Coq Require Import String Ascii.
From Verif Require Import Base Value Formatter FormatSpec FormatProofs FormatBound.
Open Scope Z_scope.

Lemma max_fold_witness (f : val -> nat) l :
  (0 < fold_right (fun x m => Nat.max (f x) m) O l)%nat ->
  exists x, In x l /\ f x = fold_right (fun x m => Nat.max (f x) m) O l.
Proof.
  induction l as [|y t IH]; cbn [fold_right]; intros H; [lia|].
  destruct (Nat.max_spec (f y) (fold_right (fun x m => Nat.max (f x) m) O t)) as [[Hlt E]|[Hle E]]; rewrite E in *.
  - destruct (IH H) as (x & Hin & Ex). exists x. split; [right; exact Hin|exact Ex].
  - exists y. split; [left; reflexivity|reflexivity].
Qed.

Section Deep.
Variable ftext : Z -> list Z.
Variable printable : Z -> bool.
Variable maximum : nat.
Notation tokens_at := (tokens_at ftext printable maximum).

Definition D (v : val) : Prop := forall d n ts,
  (n <= maximum)%nat -> (maximum < nest_depth v + n)%nat -> tokens_at d n v = Some ts -> has_elision ts = true.

Lemma tassoc_deep k x : D x -> forall d n ts, (n <= maximum)%nat -> (maximum < nest_depth x + n)%nat ->
  tassoc ftext printable tokens_at d n k x = Some ts -> has_elision ts = true.
Proof.
  intros Dx d n ts Hm Hn H. unfold tassoc in H. destruct (leaf_token ftext printable k) as [kt|]; [|discriminate].
  destruct (tokens_at d n x) as [vt|] eqn:Ex; [|discriminate]. inversion H; subst.
  change (has_elision (kt :: delim 58 :: tok TSpace [32] :: vt)) with (is_elision kt || (false || (false || has_elision vt))).
  rewrite (Dx d n vt Hm Hn Ex). cbn [orb]. apply orb_true_r.
Qed.

Lemma tlines_deep l : Forall D l -> forall d n b, (n <= maximum)%nat ->
  (exists x, In x l /\ (maximum < nest_depth x + n)%nat) -> tlines tokens_at d n l = Some b -> has_elision b = true.
Proof.
  induction 1 as [|y t Dy Dt IH]; intros d n b Hm (x & Hin & Hn) H; [destruct Hin|].
  cbn [tlines] in H. destruct (tokens_at d n y) as [a|] eqn:Ey; [|discriminate].
  destruct (tlines tokens_at d n t) as [b'|] eqn:Et; [|discriminate]. inversion H; subst.
  rewrite !has_elision_app. destruct Hin as [->|Hin].
  - rewrite (Dy d n a Hm Hn Ey). cbn [orb]. rewrite orb_true_r. reflexivity.
  - rewrite (IH d n b' Hm (ex_intro _ x (conj Hin Hn)) Et). rewrite !orb_true_r. reflexivity.
Qed.

Lemma talines_deep vs : Forall D vs -> forall ks d n b, (n <= maximum)%nat ->
  (exists x, In x vs /\ (maximum < nest_depth x + n)%nat) ->
  talines ftext printable tokens_at d n ks vs = Some b -> has_elision b = true.
Proof.
  induction 1 as [|y t Dy Dt IH]; intros ks d n b Hm (x & Hin & Hn) H; [destruct Hin|].
  cbn [talines] in H. destruct (tassoc ftext printable tokens_at d n (hd VNil ks) y) as [a|] eqn:Ey; [|discriminate].
  destruct (talines ftext printable tokens_at d n (tl ks) t) as [b'|] eqn:Et; [|discriminate]. inversion H; subst.
  rewrite !has_elision_app. destruct Hin as [->|Hin].
  - rewrite (tassoc_deep _ x Dy d n a Hm Hn Ey). cbn [orb]. rewrite orb_true_r. reflexivity.
  - rewrite (IH (tl ks) d n b' Hm (ex_intro _ x (conj Hin Hn)) Et). rewrite !orb_true_r. reflexivity.
Qed.

Lemma elided_items b ty ts : tcoll (Some b) ty = Some ts -> has_elision b = true -> has_elision ts = true.
Proof.
  unfold tcoll. cbn [option_map]. intros H Hb. inversion H; subst.
  change (has_elision (delim 91 :: b ++ ctx_toks ty)) with (false || has_elision (b ++ ctx_toks ty)).
  rewrite has_elision_app, Hb. reflexivity.
Qed.

Theorem deep_elides : forall v, D v.
Proof.
  induction v as [ | | | bo | w z | w z | z | z | w bits | w re im ab ph | s | i x | kd l IHl | key x IHkey IHx | kd ks vs IHks IHvs ] using val_ind2;
    intros d n ts Hm Hn H; try (cbn [nest_depth] in Hn; lia).
  - (* VNilSlice *) cbn [nest_depth] in Hn. cbn [FormatSpec.tokens_at] in H. unfold titems in H.
    replace (maximum <? S n)%nat with true in H by (symmetry; apply Nat.ltb_lt; lia).
    apply (elided_items _ _ _ H). reflexivity.
  - (* VNilMap *) cbn [nest_depth] in Hn. cbn [FormatSpec.tokens_at] in H. unfold tentries in H.
    replace (maximum <? S n)%nat with true in H by (symmetry; apply Nat.ltb_lt; lia).
    apply (elided_items _ _ _ H). reflexivity.
  - (* VSeq *) cbn [nest_depth] in Hn. cbn [FormatSpec.tokens_at] in H.
    destruct (titems maximum tokens_at d (S n) l) as [b|] eqn:Eb; [|discriminate].
    apply (elided_items _ _ _ H). unfold titems in Eb.
    destruct (maximum <? S n)%nat eqn:Elim; [inversion Eb; reflexivity|]. apply Nat.ltb_ge in Elim.
    destruct (max_fold_witness nest_depth l ltac:(lia)) as (x & Hin & Ex).
    assert (Hx : (maximum < nest_depth x + S n)%nat) by lia.
    destruct l as [|y [|z t]]; [destruct Hin| |].
    + destruct Hin as [->|[]]. inversion IHl as [|? ? Dx _]; subst. apply (Dx d (S n) b Elim Hx Eb).
    + destruct (tlines tokens_at (S d) (S n) (y :: z :: t)) as [c|] eqn:Ec; [|discriminate]. inversion Eb; subst.
      rewrite has_elision_app, (tlines_deep _ IHl (S d) (S n) c Elim (ex_intro _ x (conj Hin Hx)) Ec). reflexivity.
  - (* VAssoc *) cbn [nest_depth] in Hn. cbn [FormatSpec.tokens_at] in H. apply (tassoc_deep key x IHx d n ts Hm Hn H).
  - (* VMapping *) cbn [nest_depth] in Hn. cbn [FormatSpec.tokens_at] in H.
    destruct (tentries ftext printable maximum tokens_at d (S n) ks vs) as [b|] eqn:Eb; [|discriminate].
    apply (elided_items _ _ _ H). unfold tentries in Eb.
    destruct (maximum <? S n)%nat eqn:Elim; [inversion Eb; reflexivity|]. apply Nat.ltb_ge in Elim.
    destruct (max_fold_witness nest_depth vs ltac:(lia)) as (x & Hin & Ex).
    assert (Hx : (maximum < nest_depth x + S n)%nat) by lia.
    destruct vs as [|y [|z t]]; [destruct Hin| |].
    + destruct Hin as [->|[]]. inversion IHvs as [|? ? Dx _]; subst. apply (tassoc_deep _ x Dx d (S n) b Elim Hx Eb).
    + destruct (talines ftext printable tokens_at (S d) (S n) ks (y :: z :: t)) as [c|] eqn:Ec; [|discriminate]. inversion Eb; subst.
      rewrite has_elision_app, (talines_deep _ IHvs ks (S d) (S n) c Elim (ex_intro _ x (conj Hin Hx)) Ec). reflexivity.
Qed.

Theorem format_elides_beyond_limit v ts : (maximum < nest_depth v)%nat ->
  tokens_of ftext printable maximum v = Some ts -> has_elision ts = true.
Proof.
  unfold tokens_of. intros Hn H. destruct (tokens_at 0 0 v) as [b|] eqn:Eb; [|discriminate]. inversion H; subst.
  rewrite has_elision_app, (deep_elides v 0%nat 0%nat b ltac:(lia) ltac:(lia) Eb). reflexivity.
Qed.
End Deep.
