(* ParserProofs.v — one specification lemma per parse function of Parser.v, from which
   totality (never out of fuel, never starved behind EOF), the push-back bound, and the
   location of diagnostics follow for EVERY token list, oracle and collator.

   Bookkeeping: P s = size of the push-back stack, R s = tokens not yet read from the
   queue, stream s = pb ++ rest (what the parser will see).  A parse function called in s0
     - answers Yes in s1: stream s0 = consumed ++ stream s1, no EOF consumed, and either
       nothing new was read from the queue (R s1 = R s0) or at most d tokens are pushed back;
     - answers No in s1: the stream is unchanged and either R s1 = R s0 or P s1 <= c;
     - stops with a diagnostic about a token of stream s0, or with a collator panic; any other
       stop is conditional on a defect of the token list itself (no EOF token: starved;
       a type token with an unknown name).
   With c, d <= 3 the push-back stack never holds more than 3 tokens. *)
From Verif Require Import Base Params Value Coll Lexer Literals Parser.
Close Scope string_scope.
Close Scope Z_scope.

Definition stream (s : pstate) : list token := pb s ++ rest s.
Definition P (s : pstate) : nat := length (pb s).
Definition R (s : pstate) : nat := length (rest s).

Lemma stream_len s : length (stream s) = P s + R s.
Proof. unfold stream, P, R. apply app_length. Qed.

Definition has_eof (ts : list token) : Prop := exists t, In t ts /\ ttype_of t = TEOF.
Definition valid_type (v : list Z) : Prop := In v (map zs type_names).
Definition bad_type (ts : list token) : Prop :=
  exists t, In t ts /\ ttype_of t = TType /\ ~ valid_type (tval t).

Section Specs.
Hypothesis cap3 : 3 <= stack_cap.
Variable fparse : list Z -> option Z.
Variable crank : val -> val -> option comparison.

(* what the parser may consume silently: never an EOF token, and a literal only when its
   conversion succeeded *)
Definition is_lit (ty : ttype) : bool :=
  match ty with
  | TBoolean | TComplex | TFloat | THexadecimal | TInteger | TNil | TRune | TString => true
  | _ => false
  end.
Definition lit_ok (t : token) : Prop :=
  is_lit (ttype_of t) = true -> literal_value fparse (ttype_of t) (tval t) <> None.
Definition nonEOF (t : token) : Prop := ttype_of t <> TEOF /\ ttype_of t <> TError /\ lit_ok t.
Definition plain (ty : ttype) : bool :=
  match ty with TDelimiter | TEOL | TType => true | _ => false end.
Lemma nonEOF_plain t : plain (ttype_of t) = true -> nonEOF t.
Proof.
  intro H. split; [|split].
  - intro E. rewrite E in H. discriminate.
  - intro E. rewrite E in H. discriminate.
  - intro L. destruct (ttype_of t); discriminate.
Qed.

(* what a stop may be, relative to the stream the function started from *)
Definition good (o : outcome) (ts : list token) : Prop :=
  match o with
  | PValue _ => False
  | PSyntax t => In t ts
  | PRuntime RStarved => ~ has_eof ts
  | PRuntime RUnknownType => bad_type ts
  | PRuntime RPushOverflow => False
  | POutOfFuel => False
  end.

Definition adv (s0 s1 : pstate) : Prop :=
  exists cs, stream s0 = cs ++ stream s1 /\ Forall nonEOF cs.

Lemma adv_refl s : adv s s.
Proof. exists []. split; auto. Qed.
Lemma adv_eq s0 s1 : stream s1 = stream s0 -> adv s0 s1.
Proof. intro E. exists []. rewrite E. split; auto. Qed.
Lemma adv_trans s0 s1 s2 : adv s0 s1 -> adv s1 s2 -> adv s0 s2.
Proof.
  intros (c1 & E1 & F1) (c2 & E2 & F2). exists (c1 ++ c2). split.
  - rewrite E1, E2, app_assoc. reflexivity.
  - apply Forall_app; auto.
Qed.
Lemma adv_one s0 s1 t : stream s0 = t :: stream s1 -> nonEOF t -> adv s0 s1.
Proof. intros E H. exists [t]. split; auto. Qed.
Lemma adv_len s0 s1 : adv s0 s1 -> P s1 + R s1 <= P s0 + R s0.
Proof.
  intros (cs & E & _). rewrite <- !stream_len, E, app_length. lia.
Qed.
Lemma adv_in s0 s1 t : adv s0 s1 -> In t (stream s1) -> In t (stream s0).
Proof. intros (cs & E & _) H. rewrite E. apply in_or_app. auto. Qed.
Lemma adv_good s0 s1 o : adv s0 s1 -> good o (stream s1) -> good o (stream s0).
Proof.
  intros (cs & E & F) G. destruct o as [v|t|k|]; simpl in *; auto.
  - rewrite E. apply in_or_app. auto.
  - destruct k; auto.
    + (* starved *)
      intros (t & Ht & Et). apply G. rewrite E in Ht. apply in_app_or in Ht. destruct Ht as [Ht|Ht].
      * rewrite Forall_forall in F. exfalso. destruct (F t Ht) as [F1 _]. apply F1. exact Et.
      * exists t. auto.
    + destruct G as (t & Ht & Ty & Nv). exists t. split; auto. rewrite E. apply in_or_app. auto.
Qed.

Definition post {A : Type} (c d : nat) (s0 : pstate) (r : pres A) : Prop :=
  match r with
  | Yes _ t s1 => adv s0 s1 /\ R s1 <= R s0 /\ (R s1 = R s0 \/ P s1 <= d) /\ In t (stream s0)
  | No t s1 => stream s1 = stream s0 /\ R s1 <= R s0 /\ (R s1 = R s0 \/ P s1 <= c) /\ In t (stream s0)
  | Stop o => good o (stream s0)
  end.

(* numeric consequences, for lia *)
Lemma eq_len s0 s1 : stream s1 = stream s0 -> P s1 + R s1 = P s0 + R s0.
Proof. intro E. rewrite <- !stream_len, E. reflexivity. Qed.
Lemma cons_len s0 s1 t : stream s0 = t :: stream s1 -> P s0 + R s0 = S (P s1 + R s1).
Proof. intro E. rewrite <- !stream_len, E. reflexivity. Qed.

Ltac nums :=
  repeat match goal with
  | H : adv ?a ?b |- _ => lazymatch goal with
                          | _ : P b + R b <= P a + R a |- _ => fail
                          | _ => pose proof (adv_len _ _ H)
                          end
  | H : stream ?b = stream ?a |- _ => lazymatch goal with
                          | _ : P b + R b = P a + R a |- _ => fail
                          | _ => pose proof (eq_len _ _ H)
                          end
  | H : stream ?a = ?t :: stream ?b |- _ => lazymatch goal with
                          | _ : P a + R a = S (P b + R b) |- _ => fail
                          | _ => pose proof (cons_len _ _ _ H)
                          end
  end.

Ltac tok_yes S E A I s0 :=
  match type of S with
  | stream _ = ?t :: stream ?s1 /\ ttype_of ?t = ?ty /\ _ =>
    let Et := fresh "Et" in
    destruct S as (E & Et & _ & _ & ?HR & ?HD);
    assert (A : adv s0 s1) by (eapply adv_one; [exact E | apply nonEOF_plain; rewrite Et; reflexivity]);
    assert (I : In t (stream s0)) by (rewrite E; left; reflexivity)
  end.

(* ---------- getNextToken / putBack / parseToken ---------- *)
Lemma get_next_spec s0 :
  match get_next s0 with
  | inl (t, s1) => stream s0 = t :: stream s1 /\ R s1 <= R s0 /\ (R s1 = R s0 \/ P s1 = 0)
  | inr o => good o (stream s0)
  end.
Proof.
  unfold get_next, stream, P, R. destruct s0 as [p r]; simpl.
  destruct p as [|t p]; simpl.
  - destruct r as [|t r]; simpl.
    + intros (t & [] & _).
    + destruct (ttype_of t) eqn:E; simpl; auto; repeat split; auto.
  - repeat split; auto.
Qed.

Lemma put_back_spec t s :
  P s <= 2 ->
  exists s', put_back t s = inl s' /\ stream s' = t :: stream s /\ R s' = R s /\ P s' = S (P s).
Proof.
  intro H. unfold put_back. unfold P in H.
  destruct (Nat.leb_spec stack_cap (length (pb s))); [lia|].
  eexists. split; [reflexivity|]. unfold stream, P, R. simpl. auto.
Qed.

Definition tok_matches (ty : ttype) (want : option (list Z)) (t : token) : bool :=
  ttype_eqb (ttype_of t) ty &&
  match want with None => true | Some w => list_eqb Z.eqb (tval t) w end.

Lemma ttype_eqb_eq a b : ttype_eqb a b = true -> a = b.
Proof. destruct a, b; simpl; intro H; try discriminate; reflexivity. Qed.

Lemma parse_token_spec ty want s0 :
  P s0 <= 3 ->
  match parse_token ty want s0 with
  | Yes text t s1 => stream s0 = t :: stream s1 /\ ttype_of t = ty /\ text = tval t /\
                     tok_matches ty want t = true /\ R s1 <= R s0 /\ (R s1 = R s0 \/ P s1 = 0)
  | No t s1 => stream s1 = stream s0 /\ R s1 <= R s0 /\ (R s1 = R s0 \/ P s1 <= 1) /\
               (exists tl, stream s0 = t :: tl) /\ tok_matches ty want t = false
  | Stop o => good o (stream s0)
  end.
Proof.
  intro HP. unfold parse_token.
  pose proof (get_next_spec s0) as G. destruct (get_next s0) as [[t s1]|o]; [|exact G].
  destruct G as (E & HR & HD).
  fold (tok_matches ty want t).
  destruct (tok_matches ty want t) eqn:M.
  - repeat split; auto. unfold tok_matches in M. apply andb_true_iff in M. apply ttype_eqb_eq, M.
  - nums. assert (P s1 <= 2) by lia.
    destruct (put_back_spec t s1 H0) as (s2 & E2 & S2 & R2 & P2). rewrite E2.
    repeat split; try lia.
    + congruence.
    + eauto.
    + exact M.
Qed.

(* parseToken in the shape of [post] *)
Lemma parse_token_post ty want s0 :
  P s0 <= 3 -> plain ty = true -> post 1 0 s0 (parse_token ty want s0).
Proof.
  intros HP Hty. pose proof (parse_token_spec ty want s0 HP) as S.
  destruct (parse_token ty want s0) as [text t s1|t s1|o]; simpl; auto.
  - destruct S as (E & Et & _ & _ & HR & HD). repeat split; auto.
    + eapply adv_one; eauto. apply nonEOF_plain. rewrite Et. exact Hty.
    + destruct HD; [left|right]; lia.
    + rewrite E. left. reflexivity.
  - destruct S as (E & HR & HD & (tl & Etl) & _). repeat split; auto. rewrite Etl. left. reflexivity.
Qed.


(* ---------- parseIntrinsic ---------- *)
Lemma pif_spec tys : forall t0 s,
  P s <= 3 -> (forall ty, In ty tys -> ty <> TEOF /\ ty <> TError) -> (tys = [] -> In t0 (stream s)) ->
  match parse_intrinsic_from fparse tys (No t0 s) with
  | Yes v t s1 => stream s = t :: stream s1 /\ nonEOF t /\ R s1 <= R s /\ (R s1 = R s \/ P s1 = 0)
  | No t s1 => stream s1 = stream s /\ R s1 <= R s /\ (R s1 = R s \/ P s1 <= 1) /\ In t (stream s)
  | Stop o => good o (stream s)
  end.
Proof.
  induction tys as [|ty r IH]; intros t0 s HP Hty H0; simpl.
  - repeat split; auto.
  - destruct (Hty ty (or_introl eq_refl)) as [Hne Hne2].
    pose proof (parse_token_spec ty None s HP) as S.
    destruct (parse_token ty None s) as [text t s1|t s1|o]; auto.
    + destruct S as (E & Et & Ex & _ & HR & HD).
      destruct (literal_value fparse ty text) eqn:LV.
      * repeat split; auto.
        -- congruence.
        -- congruence.
        -- intros _. rewrite Et, <- Ex, LV. discriminate.
      * simpl. rewrite E. left. reflexivity.
    + destruct S as (E & HR & HD & (tl & Etl) & _).
      nums. assert (HP1 : P s1 <= 3) by lia.
      assert (Hin : In t (stream s1)) by (rewrite E, Etl; left; reflexivity).
      specialize (IH t s1 HP1 (fun ty' H' => Hty ty' (or_intror H')) (fun _ => Hin)).
      destruct (parse_intrinsic_from fparse r (No t s1)) as [v t' s2|t' s2|o].
      * destruct IH as (E2 & N2 & HR2 & HD2). nums. rewrite <- E.
        split; [exact E2|]. split; [exact N2|]. split; lia.
      * destruct IH as (E2 & HR2 & HD2 & I2). nums. repeat split; try congruence; try lia.
      * rewrite <- E. exact IH.
Qed.

Lemma intrinsic_types_ne : forall ty, In ty intrinsic_types -> ty <> TEOF /\ ty <> TError.
Proof. intros ty H. simpl in H. intuition (subst; discriminate). Qed.

Lemma parse_intrinsic_spec s :
  P s <= 3 ->
  match parse_intrinsic fparse s with
  | Yes v t s1 => stream s = t :: stream s1 /\ nonEOF t /\ R s1 <= R s /\ (R s1 = R s \/ P s1 = 0)
  | No t s1 => stream s1 = stream s /\ R s1 <= R s /\ (R s1 = R s \/ P s1 <= 1) /\ In t (stream s)
  | Stop o => good o (stream s)
  end.
Proof.
  intro HP. unfold parse_intrinsic.
  apply (pif_spec intrinsic_types (mkTok TError [] 0 0) s HP intrinsic_types_ne).
  intro; discriminate.
Qed.

(* consuming functions: a Yes consumed at least one token *)
Definition shrinks {A} (s0 : pstate) (r : pres A) : Prop :=
  match r with Yes _ _ s1 => P s1 + R s1 < P s0 + R s0 | _ => True end.

(* ---------- parseContext ---------- *)
Lemma delim_ne : plain TDelimiter = true. Proof. reflexivity. Qed.

Lemma parse_context_spec s :
  P s <= 3 ->
  post 1 0 s (parse_context s) /\
  match parse_context s with
  | Yes context tyt s' => ttype_of tyt = TType /\ context = tval tyt /\ P s' + R s' + 3 = P s + R s
  | _ => True
  end.
Proof.
  intro HP. unfold parse_context.
  pose proof (parse_token_spec TDelimiter (delim 40) s HP) as S1.
  pose proof (parse_token_post TDelimiter (delim 40) s HP delim_ne) as Q1.
  destruct (parse_token TDelimiter (delim 40) s) as [x1 t1 s1|t1 s1|o]; [|split; auto|split; auto].
  destruct S1 as (E1 & Et1 & _ & _ & HR1 & HD1). nums.
  assert (HP1 : P s1 <= 3) by lia.
  assert (A1 : adv s s1) by (eapply adv_one; eauto; apply nonEOF_plain; rewrite Et1; reflexivity).
  pose proof (parse_token_spec TType None s1 HP1) as S2.
  destruct (parse_token TType None s1) as [context tyt s2|t2 s2|o].
  - destruct S2 as (E2 & Et2 & Ex2 & _ & HR2 & HD2). nums.
    assert (HP2 : P s2 <= 3) by lia.
    assert (A2 : adv s1 s2) by (eapply adv_one; eauto; apply nonEOF_plain; rewrite Et2; reflexivity).
    pose proof (parse_token_spec TDelimiter (delim 41) s2 HP2) as S3.
    destruct (parse_token TDelimiter (delim 41) s2) as [x3 t3 s3|t3 s3|o].
    + destruct S3 as (E3 & Et3 & _ & _ & HR3 & HD3). nums.
      assert (A3 : adv s2 s3) by (eapply adv_one; eauto; apply nonEOF_plain; rewrite Et3; reflexivity).
      split; [|repeat split; auto; lia]. simpl. repeat split.
      * eapply adv_trans; [exact A1|]. eapply adv_trans; eauto.
      * lia.
      * destruct HD1, HD2, HD3; try (left; lia); right; lia.
      * eapply adv_in; [exact A1|]. rewrite E2. left. reflexivity.
    + split; [|auto]. simpl. destruct S3 as (E3 & _ & _ & (tl & Etl) & _).
      eapply adv_in; [eapply adv_trans; eauto|]. rewrite Etl. left. reflexivity.
    + split; [|auto]. simpl. eapply adv_good; [eapply adv_trans; eauto|]. exact S3.
  - split; [|auto]. simpl. destruct S2 as (E2 & _ & _ & (tl & Etl) & _).
    eapply adv_in; [exact A1|]. rewrite Etl. left. reflexivity.
  - split; [|auto]. simpl. eapply adv_good; eauto.
Qed.


(* ---------- transfer lemmas ---------- *)
Definition postY {A : Type} (d : nat) (s0 : pstate) (r : pres A) : Prop :=
  match r with
  | Yes _ t s1 => adv s0 s1 /\ R s1 <= R s0 /\ (R s1 = R s0 \/ P s1 <= d) /\ In t (stream s0)
  | No _ _ => False
  | Stop o => good o (stream s0)
  end.

Lemma postY_post {A} c d s (r : pres A) : postY d s r -> post c d s r.
Proof. destruct r; simpl; tauto. Qed.

Lemma postY_adv {A} d s s2 (r : pres A) :
  adv s s2 -> R s2 <= R s -> (R s2 = R s \/ P s2 <= d) -> postY d s2 r -> postY d s r.
Proof.
  intros A0 HR HD Q. destruct r as [a t s3|t s3|o]; simpl in *; auto.
  - destruct Q as (A3 & HR3 & HD3 & I3). nums. repeat split.
    + eapply adv_trans; eauto.
    + lia.
    + lia.
    + eapply adv_in; eauto.
  - eapply adv_good; eauto.
Qed.

Lemma post_eq {A} c d c0 s s1 (r : pres A) :
  stream s1 = stream s -> R s1 <= R s -> (R s1 = R s \/ P s1 <= c0) -> c0 <= c -> c0 <= d ->
  post c d s1 r -> post c d s r.
Proof.
  intros E HR HD Hc Hd Q. destruct r as [a t s3|t s3|o]; simpl in *.
  - destruct Q as (A3 & HR3 & HD3 & I3). nums. repeat split.
    + eapply adv_trans; [apply adv_eq; exact E|exact A3].
    + lia.
    + lia.
    + rewrite <- E. exact I3.
  - destruct Q as (E3 & HR3 & HD3 & I3). nums. repeat split; try lia; try congruence.
  - rewrite <- E. exact Q.
Qed.

Lemma post_weaken {A} c d c' d' s (r : pres A) : c <= c' -> d <= d' -> post c d s r -> post c' d' s r.
Proof.
  intros Hc Hd Q. destruct r as [a t s3|t s3|o]; simpl in *; auto.
  - destruct Q as (A3 & HR3 & HD3 & I3). repeat split; auto. lia.
  - destruct Q as (A3 & HR3 & HD3 & I3). repeat split; auto. lia.
Qed.

Lemma shrinks_eq {A} s s1 (r : pres A) : stream s1 = stream s -> shrinks s1 r -> shrinks s r.
Proof. intros E Q. destruct r; simpl in *; auto. nums. lia. Qed.

(* ---------- one nesting level, relative to the recursive call ---------- *)
Section Knot.
Variable pcoll : pstate -> pres val.
Variable n : nat.
Hypothesis pcoll_spec : forall s, P s <= 3 -> P s + R s < n -> post 1 0 s (pcoll s) /\ shrinks s (pcoll s).

Lemma parse_value_spec s :
  P s <= 3 -> P s + R s < n ->
  post 1 0 s (parse_value fparse pcoll s) /\ shrinks s (parse_value fparse pcoll s).
Proof.
  intros HP Hn. unfold parse_value.
  pose proof (parse_intrinsic_spec s HP) as S.
  destruct (parse_intrinsic fparse s) as [v t s1|t s1|o]; [..|split; simpl; auto].
  - destruct S as (E & Ne & HR & HD). nums. split; simpl; [|lia]. repeat split; auto.
    + eapply adv_one; eauto.
    + lia.
    + rewrite E. left. reflexivity.
  - destruct S as (E & HR & HD & I). nums.
    assert (HP1 : P s1 <= 3) by lia. assert (Hn1 : P s1 + R s1 < n) by lia.
    destruct (pcoll_spec s1 HP1 Hn1) as (Q & Sh).
    destruct (pcoll s1) as [v t' s2|t' s2|o]; simpl in *.
    + destruct Q as (A2 & HR2 & HD2 & I2). nums. split; [|lia]. repeat split.
      * eapply adv_trans; [apply adv_eq; exact E|exact A2].
      * lia.
      * lia.
      * rewrite <- E. exact I2.
    + destruct Q as (E2 & HR2 & HD2 & I2). nums. split; auto. repeat split; try lia; try congruence.
    + split; auto. rewrite <- E. exact Q.
Qed.

Lemma parse_association_spec s :
  P s <= 3 -> P s + R s < n ->
  post 2 0 s (parse_association fparse pcoll s) /\ shrinks s (parse_association fparse pcoll s).
Proof.
  intros HP Hn. unfold parse_association.
  pose proof (parse_intrinsic_spec s HP) as S.
  destruct (parse_intrinsic fparse s) as [key kt s1|t s1|o]; [..|split; simpl; auto].
  - destruct S as (E1 & Ne1 & HR1 & HD1). nums.
    assert (A1 : adv s s1) by (eapply adv_one; eauto).
    assert (HP1 : P s1 <= 3) by lia.
    pose proof (parse_token_spec TDelimiter (delim 58) s1 HP1) as S2.
    destruct (parse_token TDelimiter (delim 58) s1) as [x t2 s2|t2 s2|o].
    + tok_yes S2 E2 A2 I2 s1. nums.
      assert (HP2 : P s2 <= 3) by lia. assert (Hn2 : P s2 + R s2 < n) by lia.
      destruct (parse_value_spec s2 HP2 Hn2) as (Q & Sh3).
      destruct (parse_value fparse pcoll s2) as [v t3 s3|t3 s3|o]; simpl in *.
      * destruct Q as (A3 & HR3 & HD3 & I3). nums. split; [|lia]. repeat split.
        -- eapply adv_trans; [exact A1|]. eapply adv_trans; eauto.
        -- lia.
        -- lia.
        -- eapply adv_in; [eapply adv_trans; eauto|]. exact I3.
      * split; auto. destruct Q as (_ & _ & _ & I3). eapply adv_in; [eapply adv_trans; eauto|]. exact I3.
      * split; auto. eapply adv_good; [eapply adv_trans; eauto|]. exact Q.
    + destruct S2 as (E2 & HR2 & HD2 & _ & _). nums.
      assert (HP2 : P s2 <= 2) by lia.
      destruct (put_back_spec kt s2 HP2) as (s3 & E3 & S3 & R3 & P3). rewrite E3.
      split; simpl; auto. repeat split.
      * congruence.
      * lia.
      * lia.
      * rewrite E1. left. reflexivity.
    + split; simpl; auto. eapply adv_good; eauto.
  - destruct S as (E & HR & HD & I). split; simpl; auto. repeat split; auto. lia.
Qed.

Lemma inline_assocs_loop_spec fuel : forall cat s,
  P s <= 3 -> P s + R s < fuel -> P s + R s < n ->
  postY 1 s (inline_assocs_loop fparse pcoll fuel cat s).
Proof.
  induction fuel as [|f IH]; intros cat s HP Hf Hn; [lia|]. simpl.
  pose proof (parse_token_spec TDelimiter (delim 44) s HP) as S1.
  destruct (parse_token TDelimiter (delim 44) s) as [x t1 s1|t1 s1|o]; simpl; auto.
  - tok_yes S1 E1 A1 I1 s. nums.
    assert (HP1 : P s1 <= 3) by lia. assert (Hn1 : P s1 + R s1 < n) by lia.
    destruct (parse_association_spec s1 HP1 Hn1) as (Q & Sh).
    destruct (parse_association fparse pcoll s1) as [[k v] t2 s2|t2 s2|o]; simpl in *.
    + destruct Q as (A2 & HR2 & HD2 & I2). nums.
      eapply (postY_adv 1 s s2).
      * eapply adv_trans; eauto.
      * lia.
      * lia.
      * apply IH; lia.
    + destruct Q as (_ & _ & _ & I2). eapply adv_in; eauto.
    + eapply adv_good; eauto.
  - destruct S1 as (E1 & HR1 & HD1 & (tl & Etl) & _). repeat split; auto.
    + apply adv_eq; auto.
    + rewrite Etl. left. reflexivity.
Qed.

Local Arguments inline_assocs_loop : simpl never.
Lemma parse_inline_associations_spec s :
  P s <= 3 -> P s + R s < n ->
  post 2 1 s (parse_inline_associations fparse pcoll (S n) s).
Proof.
  intros HP Hn. unfold parse_inline_associations.
  destruct (parse_association_spec s HP Hn) as (Q & Sh).
  destruct (parse_association fparse pcoll s) as [[k v] t1 s1|t1 s1|o]; simpl in *; auto.
  - destruct Q as (A1 & HR1 & HD1 & I1). nums.
    apply postY_post. eapply (postY_adv 1 s s1); eauto; try lia.
    apply inline_assocs_loop_spec; lia.
Qed.

Lemma multi_assocs_loop_spec fuel : forall cat s,
  P s <= 3 -> P s + R s < fuel -> P s + R s < n ->
  postY 2 s (multi_assocs_loop fparse pcoll fuel cat s).
Proof.
  induction fuel as [|f IH]; intros cat s HP Hf Hn; [lia|]. simpl.
  pose proof (parse_token_spec TEOL None s HP) as S1.
  destruct (parse_token TEOL None s) as [x t1 s1|t1 s1|o]; simpl; auto.
  - tok_yes S1 E1 A1 I1 s. nums.
    assert (HP1 : P s1 <= 3) by lia. assert (Hn1 : P s1 + R s1 < n) by lia.
    destruct (parse_association_spec s1 HP1 Hn1) as (Q & Sh).
    destruct (parse_association fparse pcoll s1) as [[k v] t2 s2|t2 s2|o]; simpl in *.
    + destruct Q as (A2 & HR2 & HD2 & I2). nums.
      eapply (postY_adv 2 s s2).
      * eapply adv_trans; eauto.
      * lia.
      * lia.
      * apply IH; lia.
    + destruct Q as (E2 & HR2 & HD2 & I2). nums. repeat split.
      * eapply adv_trans; [exact A1|apply adv_eq; exact E2].
      * lia.
      * lia.
      * eapply adv_in; eauto.
    + eapply adv_good; eauto.
  - destruct S1 as (E1 & HR1 & HD1 & (tl & Etl) & _). rewrite Etl. left. reflexivity.
Qed.

Local Arguments multi_assocs_loop : simpl never.
Lemma parse_multiline_associations_spec s :
  P s <= 3 -> P s + R s < n ->
  post 3 2 s (parse_multiline_associations fparse pcoll (S n) s).
Proof.
  intros HP Hn. unfold parse_multiline_associations.
  pose proof (parse_token_spec TEOL None s HP) as S1.
  destruct (parse_token TEOL None s) as [x eol s1|t1 s1|o]; simpl; auto.
  - tok_yes S1 E1 A1 I1 s. nums.
    assert (HP1 : P s1 <= 3) by lia. assert (Hn1 : P s1 + R s1 < n) by lia.
    destruct (parse_association_spec s1 HP1 Hn1) as (Q & Sh).
    destruct (parse_association fparse pcoll s1) as [[k v] t2 s2|t2 s2|o]; simpl in *.
    + destruct Q as (A2 & HR2 & HD2 & I2). nums.
      apply postY_post. eapply (postY_adv 2 s s2).
      * eapply adv_trans; eauto.
      * lia.
      * lia.
      * apply multi_assocs_loop_spec; lia.
    + destruct Q as (E2 & HR2 & HD2 & I2). nums.
      assert (HP2 : P s2 <= 2) by lia.
      destruct (put_back_spec eol s2 HP2) as (s3 & E3 & S3 & R3 & P3). rewrite E3. simpl.
      repeat split.
      * congruence.
      * lia.
      * lia.
      * eapply adv_in; eauto.
    + eapply adv_good; eauto.
  - destruct S1 as (E1 & HR1 & HD1 & (tl & Etl) & _). repeat split; auto.
    + lia.
    + rewrite Etl. left. reflexivity.
Qed.

Lemma parse_associations_spec s :
  P s <= 3 -> P s + R s < n ->
  post 3 2 s (parse_associations fparse pcoll (S n) s).
Proof.
  intros HP Hn. unfold parse_associations.
  pose proof (parse_token_spec TDelimiter (delim 58) s HP) as S1.
  destruct (parse_token TDelimiter (delim 58) s) as [x t1 s1|t1 s1|o]; simpl; auto.
  - tok_yes S1 E1 A1 I1 s. repeat split; auto. lia.
  - destruct S1 as (E1 & HR1 & HD1 & _ & _). nums.
    assert (HP1 : P s1 <= 3) by lia. assert (Hn1 : P s1 + R s1 < n) by lia.
    pose proof (parse_inline_associations_spec s1 HP1 Hn1) as Q.
    destruct (parse_inline_associations fparse pcoll (S n) s1) as [c t2 s2|t2 s2|o].
    + eapply (post_eq 3 2 1 s s1); eauto; try lia.
      eapply post_weaken; [| |exact Q]; lia.
    + destruct Q as (E2 & HR2 & HD2 & I2). nums.
      assert (HP2 : P s2 <= 3) by lia. assert (Hn2 : P s2 + R s2 < n) by lia.
      pose proof (parse_multiline_associations_spec s2 HP2 Hn2) as Q2.
      eapply (post_eq 3 2 2 s s2); eauto; try lia; try congruence.
    + simpl in *. rewrite <- E1. exact Q.
Qed.

Lemma inline_values_loop_spec fuel : forall acc s,
  P s <= 3 -> P s + R s < fuel -> P s + R s < n ->
  postY 1 s (inline_values_loop fparse pcoll fuel acc s).
Proof.
  induction fuel as [|f IH]; intros acc s HP Hf Hn; [lia|]. simpl.
  pose proof (parse_token_spec TDelimiter (delim 44) s HP) as S1.
  destruct (parse_token TDelimiter (delim 44) s) as [x t1 s1|t1 s1|o]; simpl; auto.
  - tok_yes S1 E1 A1 I1 s. nums.
    assert (HP1 : P s1 <= 3) by lia. assert (Hn1 : P s1 + R s1 < n) by lia.
    destruct (parse_value_spec s1 HP1 Hn1) as (Q & Sh).
    destruct (parse_value fparse pcoll s1) as [v t2 s2|t2 s2|o]; simpl in *.
    + destruct Q as (A2 & HR2 & HD2 & I2). nums.
      eapply (postY_adv 1 s s2).
      * eapply adv_trans; eauto.
      * lia.
      * lia.
      * apply IH; lia.
    + destruct Q as (_ & _ & _ & I2). eapply adv_in; eauto.
    + eapply adv_good; eauto.
  - destruct S1 as (E1 & HR1 & HD1 & (tl & Etl) & _). repeat split; auto.
    + apply adv_eq; auto.
    + rewrite Etl. left. reflexivity.
Qed.

Local Arguments inline_values_loop : simpl never.
Lemma parse_inline_values_spec s :
  P s <= 3 -> P s + R s < n ->
  post 1 1 s (parse_inline_values fparse pcoll (S n) s).
Proof.
  intros HP Hn. unfold parse_inline_values.
  destruct (parse_value_spec s HP Hn) as (Q & Sh).
  destruct (parse_value fparse pcoll s) as [v t1 s1|t1 s1|o]; simpl in *; auto.
  destruct Q as (A1 & HR1 & HD1 & I1). nums.
  apply postY_post. eapply (postY_adv 1 s s1); eauto; try lia.
  apply inline_values_loop_spec; lia.
Qed.

Lemma multi_values_loop_spec fuel : forall acc s,
  P s <= 3 -> P s + R s < fuel -> P s + R s < n ->
  postY 1 s (multi_values_loop fparse pcoll fuel acc s).
Proof.
  induction fuel as [|f IH]; intros acc s HP Hf Hn; [lia|]. simpl.
  pose proof (parse_token_spec TEOL None s HP) as S1.
  destruct (parse_token TEOL None s) as [x t1 s1|t1 s1|o]; simpl; auto.
  - tok_yes S1 E1 A1 I1 s. nums.
    assert (HP1 : P s1 <= 3) by lia. assert (Hn1 : P s1 + R s1 < n) by lia.
    destruct (parse_value_spec s1 HP1 Hn1) as (Q & Sh).
    destruct (parse_value fparse pcoll s1) as [v t2 s2|t2 s2|o]; simpl in *.
    + destruct Q as (A2 & HR2 & HD2 & I2). nums.
      eapply (postY_adv 1 s s2).
      * eapply adv_trans; eauto.
      * lia.
      * lia.
      * apply IH; lia.
    + destruct Q as (E2 & HR2 & HD2 & I2). nums. repeat split.
      * eapply adv_trans; [exact A1|apply adv_eq; exact E2].
      * lia.
      * lia.
      * eapply adv_in; eauto.
    + eapply adv_good; eauto.
  - destruct S1 as (E1 & HR1 & HD1 & (tl & Etl) & _). rewrite Etl. left. reflexivity.
Qed.

Local Arguments multi_values_loop : simpl never.
Lemma parse_multiline_values_spec s :
  P s <= 3 -> P s + R s < n ->
  post 1 1 s (parse_multiline_values fparse pcoll (S n) s).
Proof.
  intros HP Hn. unfold parse_multiline_values.
  pose proof (parse_token_spec TEOL None s HP) as S1.
  destruct (parse_token TEOL None s) as [x eol s1|t1 s1|o]; simpl; auto.
  - tok_yes S1 E1 A1 I1 s. nums.
    assert (HP1 : P s1 <= 3) by lia. assert (Hn1 : P s1 + R s1 < n) by lia.
    destruct (parse_value_spec s1 HP1 Hn1) as (Q & Sh).
    destruct (parse_value fparse pcoll s1) as [v t2 s2|t2 s2|o]; simpl in *.
    + destruct Q as (A2 & HR2 & HD2 & I2). nums.
      apply postY_post. eapply (postY_adv 1 s s2).
      * eapply adv_trans; eauto.
      * lia.
      * lia.
      * apply multi_values_loop_spec; lia.
    + destruct Q as (_ & _ & _ & I2). eapply adv_in; eauto.
    + eapply adv_good; eauto.
  - destruct S1 as (E1 & HR1 & HD1 & (tl & Etl) & _). repeat split; auto.
    rewrite Etl. left. reflexivity.
Qed.

Lemma parse_values_spec s :
  P s <= 3 -> P s + R s < n ->
  post 1 1 s (parse_values fparse pcoll (S n) s).
Proof.
  intros HP Hn. unfold parse_values.
  pose proof (parse_token_spec TDelimiter (delim 93) s HP) as S1.
  destruct (parse_token TDelimiter (delim 93) s) as [x t1 s1|t1 s1|o]; simpl; auto.
  - tok_yes S1 E1 A1 I1 s. nums.
    assert (HP1 : P s1 <= 2) by lia.
    destruct (put_back_spec t1 s1 HP1) as (s2 & E2 & S2 & R2 & P2). rewrite E2. simpl.
    repeat split; auto.
    + apply adv_eq. congruence.
    + lia.
    + lia.
  - destruct S1 as (E1 & HR1 & HD1 & _ & _). nums.
    assert (HP1 : P s1 <= 3) by lia. assert (Hn1 : P s1 + R s1 < n) by lia.
    pose proof (parse_inline_values_spec s1 HP1 Hn1) as Q.
    destruct (parse_inline_values fparse pcoll (S n) s1) as [c t2 s2|t2 s2|o].
    + eapply (post_eq 1 1 1 s s1); eauto.
    + destruct Q as (E2 & HR2 & HD2 & I2). nums.
      assert (HP2 : P s2 <= 3) by lia. assert (Hn2 : P s2 + R s2 < n) by lia.
      pose proof (parse_multiline_values_spec s2 HP2 Hn2) as Q2.
      eapply (post_eq 1 1 1 s s2); eauto; try lia; try congruence.
    + simpl in *. rewrite <- E1. exact Q.
Qed.

Lemma parse_items_spec s :
  P s <= 3 -> P s + R s < n ->
  post 3 3 s (parse_items fparse pcoll (S n) s).
Proof.
  intros HP Hn. unfold parse_items.
  pose proof (parse_associations_spec s HP Hn) as Q.
  destruct (parse_associations fparse pcoll (S n) s) as [c t1 s1|t1 s1|o]; simpl in *; auto.
  - destruct Q as (A1 & HR1 & HD1 & I1). repeat split; auto. lia.
  - destruct Q as (E1 & HR1 & HD1 & I1). nums.
    assert (HP1 : P s1 <= 3) by lia. assert (Hn1 : P s1 + R s1 < n) by lia.
    pose proof (parse_values_spec s1 HP1 Hn1) as Q2.
    eapply (post_eq 3 3 3 s s1); eauto.
    eapply post_weaken; [| |exact Q2]; lia.
Qed.

Lemma parse_sequence_spec s :
  P s <= 3 -> P s + R s <= n ->
  post 1 2 s (parse_sequence fparse pcoll (S n) s) /\ shrinks s (parse_sequence fparse pcoll (S n) s).
Proof.
  intros HP Hn. unfold parse_sequence.
  pose proof (parse_token_spec TDelimiter (delim 91) s HP) as S1.
  destruct (parse_token TDelimiter (delim 91) s) as [x t1 s1|t1 s1|o]; simpl; auto.
  - tok_yes S1 E1 A1 I1 s. nums.
    assert (HP1 : P s1 <= 3) by lia. assert (Hn1 : P s1 + R s1 < n) by lia.
    pose proof (parse_items_spec s1 HP1 Hn1) as Q.
    destruct (parse_items fparse pcoll (S n) s1) as [items t2 s2|t2 s2|o]; simpl in *.
    + destruct Q as (A2 & HR2 & HD2 & I2). nums.
      assert (HP2 : P s2 <= 3) by lia.
      pose proof (parse_token_spec TDelimiter (delim 93) s2 HP2) as S3.
      destruct (parse_token TDelimiter (delim 93) s2) as [x3 t3 s3|t3 s3|o]; simpl.
      * tok_yes S3 E3 A3 I3 s2. nums. split; [|lia]. repeat split.
        -- eapply adv_trans; [exact A1|]. eapply adv_trans; eauto.
        -- lia.
        -- lia.
        -- eapply adv_in; [eapply adv_trans; eauto|]. exact I3.
      * split; auto. destruct S3 as (_ & _ & _ & (tl & Etl) & _).
        eapply adv_in; [eapply adv_trans; eauto|]. rewrite Etl. left. reflexivity.
      * split; auto. eapply adv_good; [eapply adv_trans; eauto|]. exact S3.
    + split; auto. destruct Q as (_ & _ & _ & I2). eapply adv_in; eauto.
    + split; auto. eapply adv_good; eauto.
  - destruct S1 as (E1 & HR1 & HD1 & (tl & Etl) & _). split; auto. repeat split; auto.
    rewrite Etl. left. reflexivity.
Qed.

Lemma build_unknown context items : build crank context items = BUnknown -> ~ valid_type context.
Proof.
  intros B V. unfold valid_type in V. simpl in V.
  destruct V as [V|[V|[V|[V|[V|[V|[V|[]]]]]]]]; subst context; unfold build in B; simpl in B;
    repeat match type of B with
           | match ?x with _ => _ end = _ => destruct x
           end; discriminate.
Qed.

Lemma set_find_none fuel : forall l v first last size,
  set_find crank fuel l v first last size = None -> exists a b, crank a b = None.
Proof.
  induction fuel as [|f IH]; intros l v first last size.
  - simpl. destruct size; simpl; discriminate.
  - destruct size as [|sz]; [simpl; discriminate|].
    change (set_find crank (S f) l v first last (S sz)) with
      (match crank v (nth (first + S sz / 2 - 1) l VNil) with
       | Some Lt => set_find crank f l v first (first + S sz / 2 - 1) (first + S sz / 2 - first)
       | Some Eq => Some (first + S sz / 2, true)
       | Some Gt => set_find crank f l v (first + S sz / 2 + 1) last (last - (first + S sz / 2))
       | None => None
       end).
    destruct (crank v (nth (first + S sz / 2 - 1) l VNil)) as [c|] eqn:E; [|intros _; eauto].
    destruct c; eauto. discriminate.
Qed.

Lemma set_build_none items : forall acc, set_build crank acc items = None -> exists a b, crank a b = None.
Proof.
  induction items as [|v r IH]; intro acc; simpl; [discriminate|].
  unfold set_add1.
  destruct (set_find crank (S (length acc)) acc v 1 (length acc) (length acc)) as [[slot found]|] eqn:E.
  - destruct found; apply IH.
  - intros _. eapply set_find_none; eauto.
Qed.

Lemma build_collator context items : build crank context items = BCollator -> exists a b, crank a b = None.
Proof.
  unfold build.
  repeat match goal with
         | |- (if ?c then _ else _) = _ -> _ => destruct c
         | |- match as_pairs ?x with _ => _ end = _ -> _ => destruct (as_pairs x)
         end; try discriminate.
  destruct (set_build crank [] items) eqn:E; [discriminate|]. intros _. eapply set_build_none; eauto.
Qed.

Lemma parse_collection_body_spec s :
  P s <= 3 -> P s + R s <= n ->
  post 1 0 s (parse_collection_body fparse crank pcoll (S n) s) /\
  shrinks s (parse_collection_body fparse crank pcoll (S n) s).
Proof.
  intros HP Hn. unfold parse_collection_body.
  destruct (parse_sequence_spec s HP Hn) as (Q & Sh).
  destruct (parse_sequence fparse pcoll (S n) s) as [items t1 s1|t1 s1|o]; simpl in *; auto.
  destruct Q as (A1 & HR1 & HD1 & I1). nums.
  assert (HP1 : P s1 <= 3) by lia.
  destruct (parse_context_spec s1 HP1) as (Q2 & X2).
  destruct (parse_context s1) as [context tyt s2|t2 s2|o]; simpl in *.
  - destruct Q2 as (A2 & HR2 & HD2 & I2). destruct X2 as (Ty & Ec & N3).
    destruct (build crank context items) eqn:B; simpl.
    + split; [|lia]. repeat split.
      * eapply adv_trans; eauto.
      * lia.
      * lia.
      * eapply adv_in; eauto.
    + split; auto. eapply adv_in; eauto.
    + split; auto. eapply adv_in; eauto.
    + split; auto. exists tyt. repeat split; auto.
      * eapply adv_in; eauto.
      * rewrite <- Ec. eapply build_unknown; eauto.
  - split; auto. destruct Q2 as (_ & _ & _ & I2). eapply adv_in; eauto.
  - split; auto. eapply adv_good; eauto.
Qed.
End Knot.

Lemma parse_collection_spec fuel : forall s,
  P s <= 3 -> P s + R s < fuel ->
  post 1 0 s (parse_collection fparse crank fuel s) /\ shrinks s (parse_collection fparse crank fuel s).
Proof.
  induction fuel as [|f IH]; intros s HP Hf; [lia|]. simpl.
  apply (parse_collection_body_spec (parse_collection fparse crank f) f IH); auto. lia.
Qed.


(* ---------- ParseSource after the scanner ---------- *)
Lemma trailing_eols_spec fuel : forall s,
  P s <= 3 -> P s + R s < fuel ->
  match trailing_eols fuel s with
  | inl s1 => adv s s1 /\ P s1 <= 3
  | inr o => good o (stream s)
  end.
Proof.
  induction fuel as [|f IH]; intros s HP Hf; [lia|]. simpl.
  pose proof (parse_token_spec TEOL None s HP) as S1.
  destruct (parse_token TEOL None s) as [x t1 s1|t1 s1|o]; auto.
  - tok_yes S1 E1 A1 I1 s. nums.
    assert (HP1 : P s1 <= 3) by lia. assert (Hf1 : P s1 + R s1 < f) by lia.
    specialize (IH s1 HP1 Hf1).
    destruct (trailing_eols f s1) as [s2|o].
    + destruct IH as (A2 & HP2). split; auto. eapply adv_trans; eauto.
    + eapply adv_good; eauto.
  - destruct S1 as (E1 & HR1 & HD1 & _ & _). nums. split; [apply adv_eq; auto|lia].
Qed.

Lemma stream_init ts : stream (mkSt [] ts) = ts.
Proof. reflexivity. Qed.

(* the specification of the parser over an arbitrary token list *)
Theorem parse_tokens_spec ts :
  match parse_tokens fparse crank ts with
  | PValue _ => exists cs e tl, ts = cs ++ e :: tl /\ Forall nonEOF cs /\ ttype_of e = TEOF
  | o => good o ts
  end.
Proof.
  unfold parse_tokens.
  set (s0 := mkSt [] ts).
  assert (HP0 : P s0 <= 3) by (unfold P; simpl; lia).
  assert (Hf0 : P s0 + R s0 < S (length ts)) by (unfold P, R; simpl; lia).
  destruct (parse_collection_spec (S (length ts)) s0 HP0 Hf0) as (Q & Sh).
  destruct (parse_collection fparse crank (S (length ts)) s0) as [v t1 s1|t1 s1|o]; simpl in Q.
  - destruct Q as (A1 & HR1 & HD1 & I1). simpl in Sh. nums.
    assert (HP1 : P s1 <= 3) by lia. assert (Hf1 : P s1 + R s1 < S (length ts)) by lia.
    pose proof (trailing_eols_spec (S (length ts)) s1 HP1 Hf1) as T.
    destruct (trailing_eols (S (length ts)) s1) as [s2|o].
    + destruct T as (A2 & HP2).
      pose proof (parse_token_spec TEOF None s2 HP2) as S3.
      destruct (parse_token TEOF None s2) as [x t3 s3|t3 s3|o]; auto.
      * destruct S3 as (E3 & Et3 & _).
        destruct (adv_trans _ _ _ A1 A2) as (cs & Ecs & Fcs).
        exists cs, t3, (stream s3). rewrite <- E3. repeat split; auto.
      * destruct S3 as (_ & _ & _ & (tl & Etl) & _).
        change (In t3 (stream s0)). eapply adv_in; [eapply adv_trans; eauto|]. rewrite Etl. left. reflexivity.
      * assert (G : good o (stream s0)) by (eapply adv_good; [eapply adv_trans; eauto|exact S3]).
        destruct o; simpl in G; try contradiction; auto.
    + assert (G : good o (stream s0)) by (eapply adv_good; eauto).
      destruct o; simpl in G; try contradiction; auto.
  - destruct Q as (_ & _ & _ & I1). exact I1.
  - destruct o; simpl in Q; try contradiction; auto.
Qed.

End Specs.

(* ---------- the bound against the regenerated constant ---------- *)
Lemma stack_cap_ok : 3 <= stack_cap.
Proof. unfold stack_cap. vm_compute. lia. Qed.

Section Corollaries.
Variable fparse : list Z -> option Z.
Variable crank : val -> val -> option comparison.

(* the push-back stack of capacity Params.parser_stack_size never overflows: for every token
   list (lexed or not), every oracle and every collator *)
Theorem pushback_bound_tokens ts : parse_tokens fparse crank ts <> PRuntime RPushOverflow.
Proof.
  pose proof (parse_tokens_spec stack_cap_ok fparse crank ts) as S. intro E. rewrite E in S. exact S.
Qed.

Theorem never_out_of_fuel_tokens ts : parse_tokens fparse crank ts <> POutOfFuel.
Proof.
  pose proof (parse_tokens_spec stack_cap_ok fparse crank ts) as S. intro E. rewrite E in S. exact S.
Qed.

(* the token a diagnostic names is a token of the stream *)
Theorem diagnostic_token_in_stream ts t : parse_tokens fparse crank ts = PSyntax t -> In t ts.
Proof.
  pose proof (parse_tokens_spec stack_cap_ok fparse crank ts) as S. intro E. rewrite E in S. exact S.
Qed.

(* the parser never reads behind an EOF token *)
Theorem never_starved_tokens ts : has_eof ts -> parse_tokens fparse crank ts <> PRuntime RStarved.
Proof.
  pose proof (parse_tokens_spec stack_cap_ok fparse crank ts) as S. intros H E. rewrite E in S. exact (S H).
Qed.

Theorem parse_total_tokens ts :
  has_eof ts -> (forall t, In t ts -> ttype_of t = TType -> valid_type (tval t)) ->
  match parse_tokens fparse crank ts with
  | PValue _ => True
  | PSyntax t => In t ts
  | _ => False
  end.
Proof.
  intros He Hty. pose proof (parse_tokens_spec stack_cap_ok fparse crank ts) as S.
  destruct (parse_tokens fparse crank ts) as [v|t|k|]; auto.
  destruct k; simpl in S; auto.
  destruct S as (t & It & Ty & Nv). apply Nv. apply Hty; auto.
Qed.

(* since fix 37 (the Set constructor's panic is a located diagnostic) no hypothesis on the collator is needed *)
Theorem parse_total_tokens_strict ts :
  has_eof ts -> (forall t, In t ts -> ttype_of t = TType -> valid_type (tval t)) ->
  match parse_tokens fparse crank ts with
  | PValue _ => True
  | PSyntax t => In t ts
  | _ => False
  end.
Proof. exact (parse_total_tokens ts). Qed.
End Corollaries.

