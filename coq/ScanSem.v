(* ScanSem.v — meaning of the micro-language of ScanLang.v, into which tools/goscan translates the
   token / line / position bookkeeping of v4/cdcn/scanner.go (GenScan.v, regenerated on every
   run).  Definitions only; GenC12.v proves that the regenerated scanTokens produces, for every
   source, the token list of the hand-written model Lexer.lex about which the C12 theorems are.

   A scanner state holds the four int fields by role (next, first, line, position; any other int
   field by its Go name) over the rune list []rune(source).  The one external call is the regular
   expression match: Scanner().MatchToken(type_, text) is the oracle Lexer.recognize (the number of
   runes of the leftmost-first match of that token type at the start of text, or none; pinned to
   the expressions of the source in LexerProofs.regexps_pinned and validated by ./check C11/C12).
   A string local is the list of its runes; len(string) is the number of BYTES of its UTF-8
   encoding (Literals.utf8_all), len([]rune) and utf8.RuneCountInString the number of RUNES.
   emitToken (its shape and roles are data of GenScan.v) appends the token (type, renamed text of
   runes[first:next], line, position).  Not modelled: int overflow (Z), the token queue (a list),
   the goroutine. *)
From Coq Require Import ZArith List String Bool.
From Verif Require Import Base Params Lexer Literals ScanLang GenScan.
Import ListNotations.
Open Scope Z_scope.

Record sstate := { s_next : Z; s_first : Z; s_line : Z; s_pos : Z; s_other : list (string * Z) }.

Fixpoint olookup (x : string) (e : list (string * Z)) : Z :=
  match e with [] => 0 | (y, v) :: r => if String.eqb x y then v else olookup x r end.
Fixpoint oset (x : string) (v : Z) (e : list (string * Z)) : list (string * Z) :=
  match e with [] => [(x, v)] | (y, w) :: r => if String.eqb x y then (x, v) :: r else (y, w) :: oset x v r end.

Definition get_field (st : sstate) (f : sfield) : Z :=
  match f with
  | FNext => s_next st | FFirst => s_first st | FLine => s_line st | FPos => s_pos st
  | FOther n => olookup n (s_other st)
  end.
Definition set_field (st : sstate) (f : sfield) (v : Z) : sstate :=
  match f with
  | FNext => {| s_next := v; s_first := s_first st; s_line := s_line st; s_pos := s_pos st; s_other := s_other st |}
  | FFirst => {| s_next := s_next st; s_first := v; s_line := s_line st; s_pos := s_pos st; s_other := s_other st |}
  | FLine => {| s_next := s_next st; s_first := s_first st; s_line := v; s_pos := s_pos st; s_other := s_other st |}
  | FPos => {| s_next := s_next st; s_first := s_first st; s_line := s_line st; s_pos := v; s_other := s_other st |}
  | FOther n => {| s_next := s_next st; s_first := s_first st; s_line := s_line st; s_pos := s_pos st; s_other := oset n v (s_other st) |}
  end.

(* locals *)
Inductive sval :=
| VInt (z : Z)
| VText (l : list Z)                             (* a string or a []rune: its runes *)
| VMatches (m : option nat) (text : list Z).     (* the result of MatchToken on text *)
Definition lenv := list (string * sval).
Fixpoint vlookup (x : string) (e : lenv) : option sval :=
  match e with [] => None | (y, v) :: r => if String.eqb x y then Some v else vlookup x r end.
Fixpoint vset (x : string) (v : sval) (e : lenv) : lenv :=
  match e with [] => [(x, v)] | (y, w) :: r => if String.eqb x y then (x, v) :: r else (y, w) :: vset x v r end.

(* runes[lo:hi]; out of range: the call panics *)
Definition slice (src : list Z) (lo hi : Z) : option (list Z) :=
  if (0 <=? lo) && (lo <=? hi) && (hi <=? Z.of_nat (length src))
  then Some (firstn (Z.to_nat (hi - lo)) (skipn (Z.to_nat lo) src)) else None.

Definition byte_length (l : list Z) : Z := Z.of_nat (length (utf8_all l)).

Section Eval.
Variable src : list Z.

Fixpoint eval (st : sstate) (e : lenv) (x : sexp) : option Z :=
  match x with
  | XLit n => Some n
  | XField f => Some (get_field st f)
  | XVar v => match vlookup v e with Some (VInt z) => Some z | _ => None end
  | XLenRunes v | XRuneCount v => match vlookup v e with Some (VText l) => Some (Z.of_nat (length l)) | _ => None end
  | XLenBytes v => match vlookup v e with Some (VText l) => Some (byte_length l) | _ => None end
  | XCountNL v => match vlookup v e with Some (VText l) => Some (Z.of_nat (count_nl l)) | _ => None end
  | XLenSource => Some (Z.of_nat (length src))
  | XAdd a b => match eval st e a, eval st e b with Some m, Some n => Some (m + n) | _, _ => None end
  | XSub a b => match eval st e a, eval st e b with Some m, Some n => Some (m - n) | _, _ => None end
  end.

Definition cmp (op : scmp) (a b : Z) : bool :=
  match op with
  | KLt => a <? b | KGt => b <? a | KLe => a <=? b | KGe => b <=? a | KEq => a =? b | KNe => negb (a =? b)
  end.

Fixpoint holds (ty : option ttype) (st : sstate) (e : lenv) (c : scond) : option bool :=
  match c with
  | CCmp op a b => match eval st e a, eval st e b with Some m, Some n => Some (cmp op m n) | _, _ => None end
  | CRuneAtIs x i ch =>
    match vlookup x e, eval st e i with
    | Some (VText l), Some z =>
      if (0 <=? z) && (z <? Z.of_nat (length l)) then Some (nth (Z.to_nat z) l 0 =? ch) else None
    | _, _ => None
    end
  | CMatchIsEmpty m => match vlookup m e with Some (VMatches None _) => Some true | Some (VMatches (Some _) _) => Some false | _ => None end
  | CTypeIs name =>
    match ty, ttype_of_name name with Some t, Some t' => Some (ttype_eqb t t') | _, _ => None end
  | CNot a => match holds ty st e a with Some b => Some (negb b) | None => None end
  end.

(* emitToken's renaming of a text that is exactly one control character, from the regenerated table *)
Fixpoint table_lookup (text : list Z) (tb : list (list Z * list Z)) : list Z :=
  match tb with
  | [] => text
  | (k, v) :: r => if list_eqb Z.eqb text k then v else table_lookup text r
  end.
Definition gen_rename (text : list Z) : list Z := table_lookup text gen_rename_table.

Inductive outcome := ONormal | OBreak (label : option string) | OReturn (v : option sval).

Record xres := { x_st : sstate; x_env : lenv; x_out : list token; x_oc : outcome }.

Definition body_of (fn : string) : list sstmt :=
  if String.eqb fn "foundToken" then gen_foundToken
  else if String.eqb fn "foundError" then gen_foundError
  else if String.eqb fn "foundEOF" then gen_foundEOF
  else if String.eqb fn "indexOfLastEOL" then gen_indexOfLastEOL
  else if String.eqb fn "scanTokens" then gen_scanTokens
  else [SUnknown "no such method"].

Definition out_with (pre : list token) (r : option xres) : option xres :=
  match r with
  | Some r => Some {| x_st := x_st r; x_env := x_env r; x_out := pre ++ x_out r; x_oc := x_oc r |}
  | None => None
  end.

(* does a loop with this label end at this break? *)
Definition breaks (label : option string) (b : option string) : bool :=
  match b, label with
  | None, _ => true
  | Some x, Some y => String.eqb x y
  | Some _, None => false
  end.

(* One unit of fuel per statement, loop iteration and call; None = out of fuel, panic or outside the subset.
   [SFor label [] c post body] also stands for the loop after its init statements have run. *)
Fixpoint exec (fuel : nat) (ty : option ttype) (k : list sstmt) (st : sstate) (e : lenv) : option xres :=
  match fuel with
  | O => None
  | S f =>
    match k with
    | [] => Some {| x_st := st; x_env := e; x_out := []; x_oc := ONormal |}
    | s :: k' =>
      match s with
      | SSetField fld x => match eval st e x with Some z => exec f ty k' (set_field st fld z) e | None => None end
      | SAddField fld x => match eval st e x with Some z => exec f ty k' (set_field st fld (get_field st fld + z)) e | None => None end
      | SIncField fld => exec f ty k' (set_field st fld (get_field st fld + 1)) e
      | SSetFieldCall fld fn a =>
        let arg := match a with
                   | TRunesVar x | TRunesOf x => match vlookup x e with Some (VText l) => Some l | _ => None end
                   end in
        match arg with
        | Some l =>
          match exec f None (body_of fn) st [("runes1"%string, VText l)] with
          | Some r =>
            match x_oc r, x_out r with
            | OReturn (Some (VInt z)), [] => exec f ty k' (set_field (x_st r) fld z) e
            | _, _ => None
            end
          | None => None
          end
        | None => None
        end
      | SVar x ex => match eval st e ex with Some z => exec f ty k' st (vset x (VInt z) e) | None => None end
      | SIncVar x => match vlookup x e with Some (VInt z) => exec f ty k' st (vset x (VInt (z + 1)) e) | _ => None end
      | SDecVar x => match vlookup x e with Some (VInt z) => exec f ty k' st (vset x (VInt (z - 1)) e) | _ => None end
      | STextSlice x lo hi =>
        let lo' := match lo with Some a => eval st e a | None => Some 0 end in
        let hi' := match hi with Some a => eval st e a | None => Some (Z.of_nat (length src)) end in
        match lo', hi' with
        | Some a, Some b => match slice src a b with Some l => exec f ty k' st (vset x (VText l) e) | None => None end
        | _, _ => None
        end
      | SMatch m x =>
        match ty, vlookup x e with
        | Some t, Some (VText l) => exec f ty k' st (vset m (VMatches (recognize t l) l) e)
        | _, _ => None
        end
      | SGroup x m n =>
        match vlookup m e with
        | Some (VMatches (Some len) l) => if n =? 1 then exec f ty k' st (vset x (VText (firstn len l)) e) else None
        | _ => None
        end
      | SRunes x y => match vlookup y e with Some (VText l) => exec f ty k' st (vset x (VText l) e) | _ => None end
      | SIf c yes no =>
        match holds ty st e c with
        | Some b => exec f ty ((if b then yes else no) ++ k') st e
        | None => None
        end
      | SFor label (i :: init) c post body => exec f ty (i :: init ++ SFor label [] c post body :: k') st e
      | SFor label [] c post body =>
        match holds ty st e c with
        | Some false => exec f ty k' st e
        | Some true =>
          match exec f ty body st e with
          | Some r =>
            match x_oc r with
            | ONormal => out_with (x_out r) (exec f ty (post ++ s :: k') (x_st r) (x_env r))
            | OBreak b => if breaks label b then out_with (x_out r) (exec f ty k' (x_st r) (x_env r)) else Some r
            | OReturn _ => Some r
            end
          | None => None
          end
        | None => None
        end
      | SSwitchFound [] dflt =>
        match exec f ty dflt st e with
        | Some r =>
          match x_oc r with
          | ONormal | OBreak None => out_with (x_out r) (exec f ty k' (x_st r) (x_env r))
          | _ => Some r
          end
        | None => None
        end
      | SSwitchFound ((name, body) :: more) dflt =>
        match ttype_of_name name with
        | Some t =>
          match exec f (Some t) (body_of "foundToken") st [] with
          | Some r =>
            match x_oc r with
            | OReturn (Some (VInt 1)) =>      (* true *)
              out_with (x_out r)
                (match exec f ty body (x_st r) e with
                 | Some r2 =>
                   match x_oc r2 with
                   | ONormal | OBreak None => out_with (x_out r2) (exec f ty k' (x_st r2) (x_env r2))
                   | _ => Some r2
                   end
                 | None => None
                 end)
            | OReturn (Some (VInt 0)) => out_with (x_out r) (exec f ty (SSwitchFound more dflt :: k') (x_st r) e)
            | _ => None
            end
          | None => None
          end
        | None => None
        end
      | SBreak label => Some {| x_st := st; x_env := e; x_out := []; x_oc := OBreak label |}
      | SEmit t =>
        let t' := match t with TyParam => ty | TyConst name => ttype_of_name name end in
        match t', slice src (s_first st) (s_next st) with
        | Some tk, Some text => out_with [mkTok tk (gen_rename text) (s_line st) (s_pos st)] (exec f ty k' st e)
        | _, _ => None
        end
      | SCall fn =>
        match exec f None (body_of fn) st [] with
        | Some r =>
          match x_oc r with
          | ONormal | OReturn None => out_with (x_out r) (exec f ty k' (x_st r) e)
          | _ => None
          end
        | None => None
        end
      | SReturn => Some {| x_st := st; x_env := e; x_out := []; x_oc := OReturn None |}
      | SReturnInt x => match eval st e x with Some z => Some {| x_st := st; x_env := e; x_out := []; x_oc := OReturn (Some (VInt z)) |} | None => None end
      | SReturnBool b => Some {| x_st := st; x_env := e; x_out := []; x_oc := OReturn (Some (VInt (if b then 1 else 0))) |}
      | SUnknown _ => None
      end
    end
  end.
End Eval.

(* the constructor Make: line_ and position_ as the literal says, every other int field 0 unless initialised *)
Definition init_value (src : list Z) (i : sinit) : option Z :=
  match i with InitLit n => Some n | InitLenSource => Some (Z.of_nat (length src)) | InitUnknown _ => None end.
Fixpoint init_fields (src : list Z) (l : list (sfield * sinit)) (st : sstate) : option sstate :=
  match l with
  | [] => Some st
  | (f, i) :: r => match init_value src i with Some v => init_fields src r (set_field st f v) | None => None end
  end.
Definition state0 : sstate := {| s_next := 0; s_first := 0; s_line := 0; s_pos := 0; s_other := [] |}.
Definition gen_make (src : list Z) : option sstate :=
  if gen_init_runes_ok && String.eqb gen_started "scanTokens" then init_fields src gen_init state0 else None.

Definition scan_fuel (src : list Z) : nat := 64 * (length src + 2).

(* Scanner().Make(source, tokens) and the goroutine it starts, run to the end: the tokens added to the queue;
   None: out of fuel, a panic, or outside the subset *)
Definition gen_scan (src : list Z) : option (list token) :=
  match gen_make src with
  | Some st0 =>
    match exec src (scan_fuel src) None gen_scanTokens st0 [] with
    | Some r => match x_oc r with ONormal | OReturn None => Some (x_out r) | _ => None end
    | None => None
    end
  | None => None
  end.
