(* StackProofs2.v — additions for C13 (StackProofs.v is not changed):
   the stack discipline over arbitrary interleavings of pushes and pops (a frame rule: what lies
   below is never touched and never influences the results; a pop returns the matching push),
   composition of histories, the pool-level constructors and views of Pool.v, and the data of the
   non-vacuity Examples. *)
From Verif Require Import Base Sorter Value Seq Coll Pool StackProofs.
Local Open Scope nat_scope.

Section StackProofs2.
Variable A : Type.

Lemma krun_app : forall cap (ops1 ops2 : list (kop A)) l,
  krun A cap l (ops1 ++ ops2) =
  (fst (krun A cap (fst (krun A cap l ops1)) ops2),
   snd (krun A cap l ops1) ++ snd (krun A cap (fst (krun A cap l ops1)) ops2)).
Proof.
  intros cap ops1 ops2. induction ops1 as [|o rest IH]; intros l.
  - cbn [app krun fst snd]. destruct (krun A cap l ops2); reflexivity.
  - cbn [app krun]. destruct (kstep A cap l o) as [l' ob]. rewrite IH.
    destruct (krun A cap l' rest) as [lf obs]. reflexivity.
Qed.

Definition no_clear (ops : list (kop A)) : Prop := ~ In (KClear A) ops.

(* FRAME RULE.  Run a history on a stack [u] with capacity [c]; if no call panics, then the same
   history on [u ++ l] (anything below) with capacity [c + length l] gives the same results and
   leaves [l] untouched below the same upper part.  RemoveAll is excluded (it empties [l] too). *)
Theorem stack_frame_rule : forall (ops : list (kop A)) c u l,
  no_clear ops -> ~ In (KPanic A) (snd (krun A c u ops)) ->
  krun A (c + length l) (u ++ l) ops = (fst (krun A c u ops) ++ l, snd (krun A c u ops)).
Proof.
  induction ops as [|o rest IH]; intros c u l NC NP.
  - reflexivity.
  - assert (NC' : no_clear rest) by (intros H; apply NC; right; exact H).
    cbn [krun] in *. destruct o as [v| |].
    + cbn [kstep] in *. unfold stack_push in *. rewrite app_length.
      destruct (Nat.eqb_spec (length u) c) as [E|E].
      * exfalso. apply NP. destruct (krun A c u rest). left. reflexivity.
      * destruct (Nat.eqb_spec (length u + length l) (c + length l)) as [E'|E']; [lia|].
        change (v :: u ++ l) with ((v :: u) ++ l).
        destruct (krun A c (v :: u) rest) as [lf obs] eqn:R.
        assert (NP' : ~ In (KPanic A) (snd (krun A c (v :: u) rest))).
        { rewrite R. cbn [snd] in *. intros H. apply NP. right. exact H. }
        rewrite (IH c (v :: u) l NC' NP'). rewrite R. reflexivity.
    + destruct u as [|x t].
      * exfalso. apply NP. cbn [kstep stack_pop]. destruct (krun A c [] rest). left. reflexivity.
      * cbn [kstep stack_pop app] in *.
        destruct (krun A c t rest) as [lf obs] eqn:R.
        assert (NP' : ~ In (KPanic A) (snd (krun A c t rest))).
        { rewrite R. cbn [snd] in *. intros H. apply NP. right. exact H. }
        rewrite (IH c t l NC' NP'). rewrite R. reflexivity.
    + exfalso. apply NC. left. reflexivity.
Qed.

(* LIFO for arbitrary interleavings: after pushing v, any history [mid] that is balanced (from the
   empty stack with capacity c it never panics and ends empty), then a pop: the pop returns v, the
   stack is as before, and the results of [mid] are those it has on its own *)
Theorem pop_returns_matching_push : forall c (mid : list (kop A)) l v,
  no_clear mid -> ~ In (KPanic A) (snd (krun A c [] mid)) -> fst (krun A c [] mid) = [] ->
  krun A (c + S (length l)) l (KPush A v :: mid ++ [KPop A]) =
  (l, KUnit A :: snd (krun A c [] mid) ++ [KVal A v]).
Proof.
  intros c mid l v NC NP E.
  change (KPush A v :: mid ++ [KPop A]) with ([KPush A v] ++ (mid ++ [KPop A])).
  rewrite krun_app.
  assert (P : krun A (c + S (length l)) l [KPush A v] = (v :: l, [KUnit A])).
  { cbn [krun kstep]. unfold stack_push.
    destruct (Nat.eqb_spec (length l) (c + S (length l))) as [H|H]; [lia|]. reflexivity. }
  rewrite P. cbn [fst snd]. rewrite krun_app.
  pose proof (stack_frame_rule mid c [] (v :: l) NC NP) as F. cbn [app length] in F.
  rewrite F. cbn [fst snd]. rewrite E. cbn [app krun kstep stack_pop fst snd]. reflexivity.
Qed.

(* the array view / iteration order: top first.  After pushing v1 … vn (in this order) on l, the
   view is vn … v1 followed by l *)
Theorem pushes_view : forall (vs : list A) cap l, length vs + length l <= cap ->
  krun A cap l (map (KPush A) vs) = (rev vs ++ l, map (fun _ => KUnit A) vs).
Proof.
  induction vs as [|v vs IH]; intros cap l H.
  - reflexivity.
  - cbn [map krun length] in *. rewrite (C13_push_ok A cap l v) by lia.
    rewrite (IH cap (v :: l)) by (cbn [length]; lia).
    cbn [rev]. rewrite <- app_assoc. reflexivity.
Qed.

(* popping everything returns the values from top to bottom, then panics on the empty stack *)
Theorem pops_drain : forall (l : list A) cap,
  krun A cap l (repeat (KPop A) (S (length l))) = ([], map (KVal A) l ++ [KPanic A]).
Proof.
  induction l as [|x t IH]; intros cap.
  - reflexivity.
  - change (repeat (KPop A) (S (length (x :: t)))) with (KPop A :: repeat (KPop A) (S (length t))).
    cbn [krun kstep stack_pop]. rewrite IH. reflexivity.
Qed.

End StackProofs2.

(* ---------- pool level (Pool.v): constructors, capacity, views ---------- *)
Theorem pool_stack_constructors_within_capacity : forall zero l,
  build zero CStack l = Ret (OStk (Nat.max default_stack_cap (length l)) l) /\
  length l <= Nat.max default_stack_cap (length l) /\
  default_stack_cap <= Nat.max default_stack_cap (length l).
Proof.
  intros zero l. split; [reflexivity|]. split; [apply Nat.le_max_r|apply Nat.le_max_l].
Qed.

Theorem pool_make_stack : forall zero p cap,
  step zero p (MakeEmpty CStack) = (p ++ [OStk default_stack_cap []], RNew) /\
  (cap <> 0 -> step zero p (MakeCap CStack cap) = (p ++ [OStk cap []], RNew)) /\
  step zero p (MakeCap CStack 0) = (p, RPanic).
Proof.
  intros zero p cap. split; [reflexivity|]. split; [|reflexivity].
  intros H. cbn [step]. destruct (Nat.eqb_spec cap 0) as [E|E]; [contradiction|]. reflexivity.
Qed.

Definition kobs_ret (ob : kobs val) : ret :=
  match ob with KUnit _ => RUnit | KVal _ v => RVal v | KPanic _ => RPanic end.

(* Push / Pop / RemoveAll of the pool machine on a stack object ARE kstep *)
Theorem pool_stack_step : forall zero p o cap l v, (o < length p)%nat -> get p o = OStk cap l ->
  (nth o (fst (step zero p (Push o v))) ODead = OStk cap (fst (kstep val cap l (KPush val v))) /\
   snd (step zero p (Push o v)) = kobs_ret (snd (kstep val cap l (KPush val v)))) /\
  (nth o (fst (step zero p (Pop o))) ODead = OStk cap (fst (kstep val cap l (KPop val))) /\
   snd (step zero p (Pop o)) = kobs_ret (snd (kstep val cap l (KPop val)))) /\
  (nth o (fst (step zero p (RemoveAll o))) ODead = OStk cap [] /\ snd (step zero p (RemoveAll o)) = RUnit) /\
  snd (step zero p (GetCapacity o)) = RInt (Z.of_nat cap) /\
  seq_plain (get p o) = Some l.
Proof.
  intros zero p o cap l v Ho G. cbn [step]. rewrite G. cbn [kstep seq_plain seq_view].
  assert (S : forall x, nth o (put p o x) ODead = x).
  { intros x. unfold put. clear G. revert o Ho. induction p as [|h t IH]; intros o Ho; cbn [length] in Ho; [lia|].
    destruct o as [|o]; [reflexivity|]. cbn [set_nth nth]. apply IH. lia. }
  repeat split.
  - unfold stack_push. destruct (length l =? cap); cbn [of_out fst]; [exact G|apply S].
  - unfold stack_push. destruct (length l =? cap); reflexivity.
  - destruct l as [|x t]; cbn [stack_pop of_out fst snd]; [exact G|apply S].
  - destruct l as [|x t]; reflexivity.
  - apply S.
Qed.

(* ---------- data for the Examples ---------- *)
Definition ex_stack : list Z := [3; 2; 1]%Z.            (* 3 is the top; capacity 3: full *)
Definition ex_kops : list (kop Z) :=
  [KPush Z 4%Z; KPop Z; KPush Z 5%Z; KPush Z 6%Z; KPop Z; KPop Z; KPop Z; KPop Z; KPush Z 7%Z].
Definition ex_mid : list (kop Z) := [KPush Z 8%Z; KPush Z 9%Z; KPop Z; KPop Z; KPush Z 10%Z; KPop Z].
