(* QueueSweep.v — search for a concrete (program, schedule) on which the machine over the
   REGENERATED queue methods (QueueSem.gstep over GenQueue.v) departs from the hand-written model
   (Conc.step): different enabledness, different queue contents, different results, or a segment
   outside the discipline.  Bounded exhaustive exploration of all schedules of a few small
   programs; used by the driver only to EXPLAIN a broken proof obligation of GenC04.v with a
   concrete input (a search, not a proof).  On the unchanged tree every sweep is empty.
   Definitions only. *)
From Coq Require Import ZArith List String Bool Arith.
From Verif Require Import Base Conc QueueLang GenQueue QueueSem.
Import ListNotations.
Open Scope Z_scope.
Open Scope list_scope.

Definition zlist_eqb (a b : list Z) : bool := if list_eq_dec Z.eq_dec a b then true else false.

Definition qstate_eqb (a b : qstate) : bool :=
  zlist_eqb (qvals a) (qvals b) && (qtok a =? qtok b)%nat && (qcap a =? qcap b)%nat &&
  Bool.eqb (qclosed a) (qclosed b) && zlist_eqb (qapp a) (qapp b) && zlist_eqb (qpop a) (qpop b).

Definition result_eqb (a b : result) : bool :=
  match a, b with
  | RAdded, RAdded | RClosed, RClosed | RCleared, RCleared | RWaited, RWaited | RDoneWg, RDoneWg
  | RPanicked, RPanicked => true
  | RHead v ok, RHead v' ok' => (v =? v') && Bool.eqb ok ok'
  | RSize n, RSize n' => (n =? n')%nat
  | REmpty x, REmpty y => Bool.eqb x y
  | RArray l, RArray l' => zlist_eqb l l'
  | _, _ => false
  end.

Fixpoint list_eqb {A B} (eqb : A -> B -> bool) (a : list A) (b : list B) : bool :=
  match a, b with
  | [], [] => true
  | x :: a', y :: b' => eqb x y && list_eqb eqb a' b'
  | _, _ => false
  end.

(* the observable agreement of the two machines *)
Definition agree (c : config) (g : gconfig) : bool :=
  list_eqb qstate_eqb (queues c) (gqueues g) && (wg c =? gwg g)%nat &&
  list_eqb (fun th gth => list_eqb result_eqb (tres th) (g_res gth)) (threads c) (gthreads g).
Definition any_bad (g : gconfig) : bool := existsb g_bad (gthreads g).

(* depth-first over all schedules.  Result: (kind, schedule in reverse) of the first departure found;
   kind 1: different queue contents / counters / results; 2: a step enabled in one machine and blocked
   in the other; 3: a segment of the regenerated code outside the discipline of QueueSem.seg (more than
   one shared action between two scheduling points, list touched outside the mutex, statement outside
   the subset).  With report_bad = false, states of kind 3 are not explored further and not reported,
   so that what is found is a difference in BEHAVIOUR. *)
Fixpoint explore (report_bad : bool) (depth : nat) (c : config) (g : gconfig) (sofar : list nat) : option (nat * list nat) :=
  if any_bad g then (if report_bad then Some (3%nat, sofar) else None) else
  if negb (agree c g) then Some (1%nat, sofar) else
  match depth with
  | O => None
  | S depth =>
    (fix try (ts : list nat) : option (nat * list nat) :=
       match ts with
       | [] => None
       | t :: ts' =>
         match step c t, gstep g t with
         | Some c', Some g' =>
           match explore report_bad depth c' g' (t :: sofar) with
           | Some s => Some s
           | None => try ts'
           end
         | None, None => try ts'
         | _, _ => Some (2%nat, t :: sofar)
         end
       end) (seq 0 (length (threads c)))
  end.

Definition prog (caps : list nat) (ths : list thread) : config :=
  {| queues := map mkq caps; wg := 0; threads := ths |}.

Definition sweep_programs : list (string * config) := [
  ("two producers, one consumer, capacity 1",
   prog [1%nat] [client [CAdd 0 11; CAdd 0 12; CClose 0]; client [CAdd 0 21]; consumer 0]);
  ("producer, RemoveAll and an observer, capacity 2",
   prog [2%nat] [client [CAdd 0 1; CAdd 0 2; CAdd 0 3]; client [CRemoveAll 0; CGetSize 0; CAsArray 0]; client [CRemoveHead 0; CIsEmpty 0]]);
  ("two consumers race for the last value, then close",
   prog [2%nat] [client [CAdd 0 5; CClose 0]; client [CRemoveHead 0; CRemoveHead 0]; client [CRemoveHead 0]]);
  ("close, RemoveAll on a closed queue that still holds values, observers",
   prog [3%nat] [client [CAdd 0 1; CAdd 0 2; CClose 0; CRemoveAll 0; CAsArray 0; CGetSize 0]; client [CIsEmpty 0; CRemoveHead 0]]);
  ("add on a closed queue, close twice",
   prog [1%nat] [client [CClose 0; CAdd 0 9]; client [CClose 0]; client [CAsArray 0]]);
  ("full queue: blocked producer, RemoveAll makes room",
   prog [1%nat] [client [CAdd 0 1; CAdd 0 2]; client [CRemoveAll 0; CRemoveAll 0]; client [CGetSize 0]])
].

Definition sweep_depth : nat := 14.

(* (program, kind, schedule) for every program on which a departure is reachable *)
Definition sweep_with (report_bad : bool) : list (string * nat * list nat) :=
  flat_map (fun p => match explore report_bad sweep_depth (snd p) (gload (snd p)) [] with
                     | Some (k, s) => [(fst p, k, rev s)]
                     | None => []
                     end) sweep_programs.
Definition queue_sweep_behaviour : list (string * nat * list nat) := sweep_with false.
Definition queue_sweep_discipline : list (string * nat * list nat) := sweep_with true.
