(* RoundTripProofs.v — the composed CDCN round-trip theorem (property C10) and its corollaries:
     round_trip        parse_source (format0 v) = PValue (canon v)         for rt_ok v, under the float oracle hypothesis
     text_fixpoint     format0 (canon v) = format0 v                       when every Set is listed in collator order
     canon_canonical   canon v = v                                         on the canonical dynamic types
     round_trip_equal  CompareValues(v, parsed) = true                     (C08's compare_refl on the parsed value)
     elided ...        the text of a value nested deeper than the limit is rejected with a located diagnostic (partial)
   Composition of: FormatProofs.format0_tokens (the text is the rendering of tokens_of v),
   RoundTripScan.tokens_of_scannable, LexRender.parse_render_strip (scanner on a scannable
   rendering + parser completeness for derivations) and RoundTripDeriv.tokens_derive. *)
From Coq Require Import String Ascii.
From Verif Require Import Base Params Value Coll Formatter FormatSpec FormatProofs FormatText FormatBound.
From Verif Require Import Lexer Literals Parser LexerProofs LexBridge LexBridge2 LexBridge3 ParserProofs Complete StripInv LexRender ParseRun.
From Verif Require Import CollateRank CollateCompare.
From Verif Require Import RoundTripLit RoundTrip RoundTripLeaf RoundTripScan RoundTripDeriv.
Close Scope string_scope.
Open Scope Z_scope.

Lemma strip_mk x : strip (mk x) = (fst x, rename (snd x)).
Proof. reflexivity. Qed.

Section Compose.
Variable fparse : list Z -> option Z.
Variable crank : val -> val -> option comparison.
Variable ftext : Z -> list Z.
Variable printable : Z -> bool.
Variable maximum : nat.
Notation canon := (canon crank).
Notation format0 := (format0 ftext printable maximum).
Notation tokens_at := (tokens_at ftext printable maximum).

Lemma rt_ok_inv v : rt_ok crank maximum v = true ->
  is_collection v = true /\ rt_val crank v = true /\ (nest_depth v <= maximum)%nat.
Proof.
  unfold rt_ok. intros H. apply andb_true_iff in H as [H H3]. apply andb_true_iff in H as [H1 H2].
  apply Nat.leb_le in H3. auto.
Qed.

(* ---------- THE ROUND TRIP ---------- *)
Theorem round_trip v text :
  rt_ok crank maximum v = true -> floats_roundtrip fparse ftext v = true ->
  format0 v = Ret text -> parse_source fparse crank text = PValue (canon v).
Proof.
  intros Hok Fl Hf. destruct (rt_ok_inv v Hok) as (Hc & Hv & Hn).
  rewrite format0_tokens in Hf. destruct (tokens_of ftext printable maximum v) as [ts|] eqn:Ets; [|discriminate].
  cbn [out_of_tokens] in Hf. inversion Hf; subst text. clear Hf.
  pose proof (format_no_elision ftext printable maximum v ts Hn Ets) as He.
  pose proof (tokens_of_scannable fparse ftext printable maximum v ts Ets He Fl) as Sc.
  unfold tokens_of in Ets. destruct (tokens_at 0%nat 0%nat v) as [b|] eqn:Eb; [|discriminate].
  cbn [option_map] in Ets. inversion Ets; subst ts. clear Ets.
  rewrite has_elision_app in He. apply orb_false_iff in He as [He _].
  destruct (tokens_derive fparse crank ftext printable maximum v 0%nat 0%nat b Eb He Hv Fl) as [_ D].
  rewrite <- render_convs.
  apply (parse_render_strip fparse crank (convs (b ++ [eol_tok])) (vis b) (canon v) 1 Sc); [|exact (D Hc)].
  rewrite convs_app, filter_app, map_app. unfold vis. rewrite map_map.
  f_equal.
Qed.

(* what the scanner makes of the text: the formatter's tokens with the scanner's lines and
   positions, Space tokens dropped, the newline renamed, then EOF *)
Theorem round_trip_lexes v ts :
  tokens_of ftext printable maximum v = Some ts -> has_elision ts = false ->
  floats_roundtrip fparse ftext v = true ->
  lex (render ts) = place (convs ts) 1 1.
Proof.
  intros Ets He Fl. rewrite <- render_convs. apply lex_render.
  apply (tokens_of_scannable fparse ftext printable maximum v ts Ets He Fl).
Qed.

(* ---------- the parsed value is the original one on the canonical dynamic types ---------- *)
Lemma fold_conj_Forall (P : val -> Prop) l : fold_right (fun x Q => P x /\ Q) True l -> Forall P l.
Proof. induction l as [|x t IH]; cbn [fold_right]; intros H; constructor; tauto. Qed.

Lemma map_eq_Forall {A B} (f g : A -> B) (P : A -> Prop) l :
  Forall (fun x => P x -> f x = g x) l -> Forall P l -> map f l = map g l.
Proof.
  induction 1 as [|x t Hx Ht IH]; intros HP; [reflexivity|]. inversion HP; subst. cbn [map]. rewrite Hx, IH; auto.
Qed.

Lemma canon_seq k l : canon (VSeq k l) =
  match k with
  | KSlice | KArray => VSeq KArray (map canon l)
  | KSet => VSeq KSet (match set_build crank [] (map canon l) with Some s => s | None => map canon l end)
  | _ => VSeq k (map canon l)
  end.
Proof. reflexivity. Qed.

(* when every Set is listed in collator order, canon re-orders nothing *)
Lemma canon_keep_eq : forall v, sets_sorted crank v -> canon v = canon_keep v.
Proof.
  induction v as [ | | | bo | w z | w z | z | z | w bits | w re im ab ph | s | i x | kd l IHl | key x IHkey IHx | kd ks vs IHks IHvs ] using val_ind2;
    intros H; try reflexivity.
  - cbn [sets_sorted] in H. destruct H as [Hl Hs]. apply fold_conj_Forall in Hl.
    pose proof (map_eq_Forall _ _ _ l IHl Hl) as Em.
    rewrite canon_seq. change (canon_keep (VSeq kd l)) with (VSeq (match kd with KSlice => KArray | _ => kd end) (map canon_keep l)).
    destruct kd; try (rewrite Em; reflexivity). rewrite (Hs eq_refl), Em. reflexivity.
  - cbn [sets_sorted] in H. change (canon (VAssoc key x)) with (VAssoc (canon_leaf key) (canon x)).
    rewrite (IHx H). reflexivity.
  - cbn [sets_sorted] in H. apply fold_conj_Forall in H.
    change (canon (VMapping kd ks vs)) with (VMapping (match kd with MCatalog => MCatalog | _ => MMap end) (map canon_leaf ks) (map canon vs)).
    rewrite (map_eq_Forall _ _ _ vs IHvs H). reflexivity.
Qed.

Lemma canon_leaf_canonical k : canonical_leaf k = true -> canon_leaf k = k.
Proof.
  destruct k; cbn [canonical_leaf canon_leaf]; intros H; try reflexivity; try discriminate.
  - apply Z.eqb_eq in H. subst. reflexivity.
  - apply Z.eqb_eq in H. subst. reflexivity.
  - apply Z.eqb_eq in H. subst. reflexivity.
  - apply andb_true_iff in H as [H H3]. apply andb_true_iff in H as [H1 H2].
    apply Z.eqb_eq in H1. apply Z.eqb_eq in H2. apply Z.eqb_eq in H3. subst. reflexivity.
Qed.

Lemma map_id_Forall {A} (f : A -> A) (p : A -> bool) l :
  Forall (fun x => p x = true -> f x = x) l -> forallb p l = true -> map f l = l.
Proof.
  induction 1 as [|x t Hx Ht IH]; intros HP; [reflexivity|]. cbn [forallb] in HP. apply andb_true_iff in HP as [H1 H2].
  cbn [map]. rewrite Hx, IH; auto.
Qed.

Lemma canon_keep_canonical : forall v, canonical v = true -> canon_keep v = v.
Proof.
  induction v as [ | | | bo | w z | w z | z | z | w bits | w re im ab ph | s | i x | kd l IHl | key x IHkey IHx | kd ks vs IHks IHvs ] using val_ind2;
    intros H; try reflexivity; try discriminate; try (apply (canon_leaf_canonical _ H)).
  - cbn [canonical] in H. apply andb_true_iff in H as [Hk Hl].
    change (canon_keep (VSeq kd l)) with (VSeq (match kd with KSlice => KArray | _ => kd end) (map canon_keep l)).
    rewrite (map_id_Forall _ _ l IHl Hl). destruct kd; try reflexivity. discriminate.
  - cbn [canonical] in H. apply andb_true_iff in H as [Hk Hx].
    change (canon_keep (VAssoc key x)) with (VAssoc (canon_leaf key) (canon_keep x)).
    rewrite (canon_leaf_canonical _ Hk), (IHx Hx). reflexivity.
  - cbn [canonical] in H. apply andb_true_iff in H as [H Hv]. apply andb_true_iff in H as [Hk Hks].
    change (canon_keep (VMapping kd ks vs)) with (VMapping (match kd with MCatalog => MCatalog | _ => MMap end) (map canon_leaf ks) (map canon_keep vs)).
    rewrite (map_id_Forall _ _ vs IHvs Hv).
    rewrite (map_id_Forall canon_leaf canonical_leaf ks); [|apply Forall_forall; intros k _; apply canon_leaf_canonical|exact Hks].
    destruct kd; try reflexivity. discriminate.
Qed.

Theorem canon_canonical v : canonical v = true -> sets_sorted crank v -> canon v = v.
Proof. intros Hc Hs. rewrite (canon_keep_eq v Hs). apply canon_keep_canonical, Hc. Qed.

(* ---------- the text fixpoint ---------- *)
Lemma leaf_token_canon_leaf k : leaf_token ftext printable (canon_leaf k) = leaf_token ftext printable k.
Proof. destruct k; reflexivity. Qed.
Lemma same_keys_canon ks : same_keys ftext printable (map canon_leaf ks) ks.
Proof. intros i. change VNil with (canon_leaf VNil) at 1. rewrite map_nth. apply leaf_token_canon_leaf. Qed.
Lemma seq_type_keep kd : seq_type (match kd with KSlice => KArray | _ => kd end) = seq_type kd.
Proof. destruct kd; reflexivity. Qed.
Lemma map_type_keep kd : map_type (match kd with MCatalog => MCatalog | _ => MMap end) = map_type kd.
Proof. destruct kd; reflexivity. Qed.

Lemma tokens_canon_keep : forall v d n, tokens_at d n (canon_keep v) = tokens_at d n v.
Proof.
  induction v as [ | | | bo | w z | w z | z | z | w bits | w re im ab ph | s | i x | kd l IHl | key x IHkey IHx | kd ks vs IHks IHvs ] using val_ind2;
    intros d n; try reflexivity.
  - change (canon_keep (VSeq kd l)) with (VSeq (match kd with KSlice => KArray | _ => kd end) (map canon_keep l)).
    cbn [FormatSpec.tokens_at]. rewrite seq_type_keep. f_equal. symmetry. apply titems_ext.
    apply Forall2_map_r. eapply Forall_impl'; [exact IHl|]. intros x Hx d'. symmetry. apply Hx.
  - change (canon_keep (VAssoc key x)) with (VAssoc (canon_leaf key) (canon_keep x)).
    cbn [FormatSpec.tokens_at]. unfold tassoc. rewrite leaf_token_canon_leaf, IHx. reflexivity.
  - change (canon_keep (VMapping kd ks vs)) with (VMapping (match kd with MCatalog => MCatalog | _ => MMap end) (map canon_leaf ks) (map canon_keep vs)).
    cbn [FormatSpec.tokens_at]. rewrite map_type_keep. f_equal. symmetry. apply tentries_ext.
    + apply Forall2_map_r. eapply Forall_impl'; [exact IHvs|]. intros x Hx d'. symmetry. apply Hx.
    + intros i. symmetry. apply same_keys_canon.
Qed.

(* formatting what the parser built gives the same text again (a Map: with its entries in the
   order of the text, which is the order [canon v] lists them in) *)
Theorem text_fixpoint v : sets_sorted crank v -> format0 (canon v) = format0 v.
Proof.
  intros Hs. rewrite (canon_keep_eq v Hs), !format0_tokens. unfold tokens_of. rewrite tokens_canon_keep. reflexivity.
Qed.

(* ---------- equality of the parsed value under CompareValues ---------- *)
Lemma decorate_nil : forall v, decorate [] v = v.
Proof.
  induction v as [ | | | bo | w z | w z | z | z | w bits | w re im ab ph | s | i x | kd l IHl | key x IHkey IHx | kd ks vs IHks IHvs ] using val_ind2;
    try reflexivity.
  - change (decorate [] (VSeq kd l)) with (VSeq kd (map (decorate []) l)).
    rewrite (map_id_Forall _ (fun _ => true) l); [reflexivity| |apply forallb_forall; auto].
    eapply Forall_impl; [|exact IHl]. auto.
  - change (decorate [] (VAssoc key x)) with (VAssoc (decorate [] key) (decorate [] x)). rewrite IHkey, IHx. reflexivity.
  - change (decorate [] (VMapping kd ks vs)) with (VMapping kd (map (decorate []) ks) (map (decorate []) vs)).
    rewrite (map_id_Forall _ (fun _ => true) ks), (map_id_Forall _ (fun _ => true) vs); try reflexivity;
      try (apply forallb_forall; auto).
    + eapply Forall_impl; [|exact IHvs]. auto.
    + eapply Forall_impl; [|exact IHks]. auto.
Qed.

(* the parser leaves the two collator oracle fields of a complex number (cmplx.Abs, cmplx.Phase,
   functions of the two parts) at 0; [decorate tbl] fills them in from the table of the case
   (ParseRun.v), as the correspondence of C11 does before two parsed values are ranked.  With
   them restored the parsed value IS the original one, and CompareValues answers true (C08). *)
Theorem round_trip_equal M tbl v text :
  rt_ok crank maximum v = true -> floats_roundtrip fparse ftext v = true ->
  decorate tbl (canon v) = v -> inW M v = true ->
  format0 v = Ret text ->
  exists p, parse_source fparse crank text = PValue p /\ compare0 M v (decorate tbl p) = Value.R true.
Proof.
  intros Hok Fl Hd Hw Hf. exists (canon v). split; [apply round_trip; assumption|].
  rewrite Hd. apply compare_refl, Hw.
Qed.

Corollary decorate_canonical v : canonical v = true -> sets_sorted crank v -> decorate [] (canon v) = v.
Proof. intros Hc Hs. rewrite decorate_nil. apply canon_canonical; assumption. Qed.
End Compose.

(* ---------- elided values are not parsed (partial) ---------- *)
(* A chain of single-item sequences deeper than the formatter's default limit: every unfolding of
   a self-containing list / array / set / stack / queue.  The text is "[[[[[[[[[...](List)](List)...";
   the scanner reports the first dot as an Error token and ParseSource stops with the
   diagnostic for that token: line 1, position 10. *)
Theorem elided_selfnest_not_parsed fparse crank ftext printable k n :
  (Z.to_nat formatter_default_maximum < n)%nat ->
  exists text t,
    Formatter.format0 ftext printable (Z.to_nat formatter_default_maximum) (selfnest k n) = Ret text /\
    parse_source fparse crank text = PSyntax t /\
    ttype_of t = Lexer.TError /\ tval t = [46] /\ tline t = 1 /\ tpos t = formatter_default_maximum + 2.
Proof.
  intros Hn.
  rewrite (selfnest_stable ftext printable _ k n (S (Z.to_nat formatter_default_maximum)) Hn (Nat.lt_succ_diag_r _)).
  destruct k; eexists _, _; (split; [vm_compute; reflexivity|]); vm_compute; repeat split; reflexivity.
Qed.
