(* Value.v — the universe of Go values the library can inspect, and the model of
   v4/agent/collator.go (rankValues / compareValues with the depth counter).
   Definitions only; the order-theoretic proofs are in CollateProofs.v. *)
From Verif Require Import Base Sorter.
Open Scope Z_scope.

(* kinds of ordered sequences *)
Inductive skind := KSlice | KArray | KList | KSet | KStack | KQueue.
(* kinds of key/value collections *)
Inductive mkind := MGoMap | MMap | MCatalog.

(* Go values.  Integers carry a width tag (0 = int/uint); floats are the raw IEEE-754
   bits of the float64 the collator converts to; complex numbers carry the bits of both
   parts and, as oracle fields, the bits of cmplx.Abs and cmplx.Phase as computed by Go. *)
Inductive val :=
| VNil                                        (* nil interface / invalid reflect value *)
| VNilSlice | VNilMap                         (* typed nil slice / nil Go map *)
| VBool (b : bool)
| VInt (w : Z) (z : Z)                        (* int, int8, int16, int64 : "integer" *)
| VUint (w : Z) (z : Z)                       (* uint, uint16, uint32, uint64 : "unsigned" *)
| VByte (z : Z)                               (* uint8 : "byte" *)
| VRune (z : Z)                               (* int32 : "rune" *)
| VFloat (w : Z) (bits : Z)                   (* float32 (widened) / float64 *)
| VComplex (w : Z) (re im ab ph : Z)
| VStr (s : list Z)                           (* bytes *)
| VPtr (id : Z) (x : Z)                       (* *struct{X int}: identity id, content x *)
| VSeq (k : skind) (l : list val)
| VAssoc (k v : val)
| VMapping (k : mkind) (ks vs : list val).    (* parallel key / value lists *)

Definition skind_eqb (a b : skind) : bool :=
  match a, b with
  | KSlice, KSlice | KArray, KArray | KList, KList | KSet, KSet | KStack, KStack | KQueue, KQueue => true
  | _, _ => false
  end.
Definition mkind_eqb (a b : mkind) : bool :=
  match a, b with
  | MGoMap, MGoMap | MMap, MMap | MCatalog, MCatalog => true
  | _, _ => false
  end.

(* syntactic equality (used to compare observations, never by the modelled code) *)
Fixpoint val_eqb (a b : val) {struct a} : bool :=
  let fix go (xs ys : list val) {struct xs} : bool :=
    match xs, ys with
    | [], [] => true
    | x :: xs', y :: ys' => val_eqb x y && go xs' ys'
    | _, _ => false
    end in
  match a, b with
  | VNil, VNil | VNilSlice, VNilSlice | VNilMap, VNilMap => true
  | VBool x, VBool y => Bool.eqb x y
  | VInt w1 x, VInt w2 y | VUint w1 x, VUint w2 y | VFloat w1 x, VFloat w2 y => (w1 =? w2) && (x =? y)
  | VByte x, VByte y | VRune x, VRune y => x =? y
  | VComplex w1 r1 i1 a1 p1, VComplex w2 r2 i2 a2 p2 =>
      (w1 =? w2) && (r1 =? r2) && (i1 =? i2) && (a1 =? a2) && (p1 =? p2)
  | VStr s, VStr t => list_eqb Z.eqb s t
  | VPtr i x, VPtr j y => (i =? j) && (x =? y)
  | VSeq k1 l1, VSeq k2 l2 => skind_eqb k1 k2 && go l1 l2
  | VAssoc k1 v1, VAssoc k2 v2 => val_eqb k1 k2 && val_eqb v1 v2
  | VMapping m1 ks1 vs1, VMapping m2 ks2 vs2 => mkind_eqb m1 m2 && go ks1 ks2 && go vs1 vs2
  | _, _ => false
  end.

(* ---------- floats as raw bits ---------- *)
Definition two63 : Z := 9223372036854775808.
Definition exp_mask : Z := 9218868437227405312.   (* 0x7FF0000000000000 *)
Definition f_mag (bits : Z) : Z := bits mod two63.
Definition f_isnan (bits : Z) : bool := exp_mask <? f_mag bits.
(* sign-magnitude key: IEEE "<" on non-NaN values is Z.lt on keys; -0 and +0 both map to 0 *)
Definition f_key (bits : Z) : Z := if bits <? two63 then bits else - (f_mag bits).
(* Go's own comparisons on float64 *)
Definition f_lt (a b : Z) : bool := negb (f_isnan a) && negb (f_isnan b) && (f_key a <? f_key b).
Definition f_eq_go (a b : Z) : bool := negb (f_isnan a) && negb (f_isnan b) && (f_key a =? f_key b).
(* the collator's order on floats (after the fix recorded in known_findings.json): NaN is
   ranked before every number and equal to any other NaN *)
Definition f_ord (bits : Z) : Z := if f_isnan bits then - two63 - 1 else f_key bits.
(* rankFloats: "if a < b Lesser; if a > b Greater; NaN first; else Equal" *)
Definition rank_float (a b : Z) : comparison := Z.compare (f_ord a) (f_ord b).
Definition f_eq (a b : Z) : bool := f_ord a =? f_ord b.

(* ---------- coarse type names of getType, as their rank in byte-wise string order ---------- *)
(* "array" < "boolean" < "byte" < "collection.array_" < "collection.association_" <
   "collection.catalog_" < "collection.list_" < "collection.map_" < "collection.queue_" <
   "collection.set_" < "collection.stack_" < "complex" < "float" < "integer" <
   "main.PK" (the harness's pointer-key struct) < "map" < "rune" < "string" < "unsigned" *)
Definition tyrank (v : val) : Z :=
  match v with
  | VNil => -1
  | VNilSlice => 0
  | VSeq KSlice _ => 0
  | VBool _ => 1
  | VByte _ => 2
  | VSeq KArray _ => 3
  | VAssoc _ _ => 4
  | VMapping MCatalog _ _ => 5
  | VSeq KList _ => 6
  | VMapping MMap _ _ => 7
  | VSeq KQueue _ => 8
  | VSeq KSet _ => 9
  | VSeq KStack _ => 10
  | VComplex _ _ _ _ _ => 11
  | VFloat _ _ => 12
  | VInt _ _ => 13
  | VPtr _ _ => 14
  | VNilMap => 15
  | VMapping MGoMap _ _ => 15
  | VRune _ => 16
  | VStr _ => 17
  | VUint _ _ => 18
  end.

Fixpoint lexZ (a b : list Z) : comparison :=
  match a, b with
  | [], [] => Eq | [], _ => Lt | _, [] => Gt
  | x :: a', y :: b' => match Z.compare x y with Eq => lexZ a' b' | c => c end
  end.

Definition rank_bool (a b : bool) : comparison :=
  match a, b with false, true => Lt | true, false => Gt | _, _ => Eq end.

(* rankComplex: negative zeros normalized, then magnitude, phase (oracle fields, computed by
   Go on the normalized value), real part, imaginary part *)
Definition rank_complex (r1 i1 a1 p1 r2 i2 a2 p2 : Z) : comparison :=
  match rank_float a1 a2 with
  | Eq => match rank_float p1 p2 with
          | Eq => match rank_float r1 r2 with
                  | Eq => rank_float i1 i2
                  | c => c
                  end
          | c => c
          end
  | c => c
  end.

(* results of a collator call *)
Inductive res (A : Type) := R (a : A) | DepthPanic | OutOfFuel.
Arguments R {A} a.
Arguments DepthPanic {A}.
Arguments OutOfFuel {A}.

Definition flip_rank (r : res comparison) : res comparison :=
  match r with R c => R (CompOpp c) | x => x end.

(* zip parallel key/value lists *)
Fixpoint zipkv (ks vs : list val) : list (val * val) :=
  match ks, vs with
  | k :: ks', v :: vs' => (k, v) :: zipkv ks' vs'
  | _, _ => []
  end.

(* Go "==" on map keys of the supported key types (string, integers, rune, float64, bool,
   pointers, and those under `any`): identical dynamic type and equal value; NaN is not
   equal to itself; pointers compare by identity. *)
Definition keq (a b : val) : bool :=
  match a, b with
  | VNil, VNil => true
  | VBool x, VBool y => Bool.eqb x y
  | VInt w1 x, VInt w2 y | VUint w1 x, VUint w2 y => (w1 =? w2) && (x =? y)
  | VByte x, VByte y | VRune x, VRune y => x =? y
  | VFloat w1 x, VFloat w2 y => (w1 =? w2) && f_eq_go x y
  | VComplex w1 r1 i1 _ _, VComplex w2 r2 i2 _ _ => (w1 =? w2) && f_eq_go r1 r2 && f_eq_go i1 i2
  | VStr s, VStr t => list_eqb Z.eqb s t
  | VPtr i _, VPtr j _ => i =? j
  | _, _ => false
  end.

(* compareIntrinsics: Go "==" on identical dynamic types, except that floats and complex
   numbers use the collator's own notion of equality (NaN equals NaN) *)
Definition ieq (a b : val) : bool :=
  match a, b with
  | VFloat w1 x, VFloat w2 y => (w1 =? w2) && f_eq x y
  | VComplex w1 r1 i1 a1 p1, VComplex w2 r2 i2 a2 p2 =>
      (w1 =? w2) && comparison_eqb (rank_complex r1 i1 a1 p1 r2 i2 a2 p2) Eq
  | _, _ => keq a b
  end.

Fixpoint lookup_kv (k : val) (kvs : list (val * val)) : option val :=
  match kvs with
  | [] => None
  | (k', v) :: t => if keq k k' then Some v else lookup_kv k t
  end.

Section Collate.
Variable maximum : nat.

(* elements of a value seen as a Go array by rankArrays/compareArrays:
   sequences via AsArray (a catalog yields its associations) *)
Definition as_elems (v : val) : option (list val) :=
  match v with
  | VSeq _ l => Some l
  | VMapping MCatalog ks vs => Some (map (fun kv => VAssoc (fst kv) (snd kv)) (zipkv ks vs))
  | _ => None
  end.

(* rankValues with the collator's depth counter; [fuel] bounds the recursion
   (any fuel > the total size of both values suffices, see CollateProofs) *)
Fixpoint rank (fuel : nat) (depth : nat) (a b : val) {struct fuel} : res comparison :=
  match fuel with
  | O => OutOfFuel
  | S f =>
    (* the element loop of rankArrays on equal-or-shorter first *)
    let rank_lists :=
      (fix go (xs ys : list val) : res comparison :=
         match xs, ys with
         | [], [] => R Eq
         | [], _ => R Lt
         | _, [] => R Gt        (* unreachable after the swap; kept total *)
         | x :: xs', y :: ys' =>
           match rank f (S depth) x y with
           | R Eq => go xs' ys'
           | r => r
           end
         end) in
    let arrays (xs ys : list val) : res comparison :=
      if Nat.eqb depth maximum then DepthPanic
      else if (length ys <? length xs)%nat then
        (* swap the arrays and reverse the result; the recursive call re-checks the depth *)
        flip_rank (rank_lists ys xs)
      else rank_lists xs ys in
    let rank_pairs :=
      (fix go (xs ys : list (val * val)) : res comparison :=
         match xs, ys with
         | [], [] => R Eq
         | [], _ => R Lt
         | _, [] => R Gt
         | (k1, v1) :: xs', (k2, v2) :: ys' =>
           match rank f (S depth) k1 k2 with
           | R Eq => match rank f (S depth) v1 v2 with R Eq => go xs' ys' | r => r end
           | r => r
           end
         end) in
    let maps (m1 m2 : list (val * val)) : res comparison :=
      if Nat.eqb depth maximum then DepthPanic
      else
        (* keys sorted with the merge sorter and this very ranking at the current depth;
           a panic inside the sorter's ranker surfaces as the panic of the whole call *)
        let rk x y := match rank f depth (fst x) (fst y) with R c => c | _ => Eq end in
        let s1 := sort_values rk m1 in
        let s2 := sort_values rk m2 in
        if (length s2 <? length s1)%nat then flip_rank (rank_pairs s2 s1)
        else rank_pairs s1 s2 in
    match a, b with
    | VNil, VNil => R Eq
    | VNil, _ => R Lt
    | _, VNil => R Gt
    | _, _ =>
      match Z.compare (tyrank a) (tyrank b) with
      | Eq =>
        match a, b with
        | VBool x, VBool y => R (rank_bool x y)
        | VInt _ x, VInt _ y | VUint _ x, VUint _ y | VRune x, VRune y | VByte x, VByte y => R (Z.compare x y)
        | VFloat _ x, VFloat _ y => R (rank_float x y)
        | VComplex _ r1 i1 a1 p1, VComplex _ r2 i2 a2 p2 => R (rank_complex r1 i1 a1 p1 r2 i2 a2 p2)
        | VStr x, VStr y => R (lexZ x y)
        | VPtr _ x, VPtr _ y => R (Z.compare x y)
        | VNilSlice, VNilSlice | VNilMap, VNilMap => R Eq
        | VNilSlice, _ | VNilMap, _ => R Lt
        | _, VNilSlice | _, VNilMap => R Gt
        | VAssoc k1 v1, VAssoc k2 v2 =>
          match rank f depth k1 k2 with R Eq => rank f depth v1 v2 | r => r end
        | VMapping MCatalog _ _, VMapping MCatalog _ _
        | VSeq _ _, VSeq _ _ =>
          match as_elems a, as_elems b with
          | Some xs, Some ys => arrays xs ys
          | _, _ => R Eq
          end
        | VMapping _ ks1 vs1, VMapping _ ks2 vs2 => maps (zipkv ks1 vs1) (zipkv ks2 vs2)
        | _, _ => R Eq
        end
      | c => R c
      end
    end
  end.

(* compareValues *)
Fixpoint compare (fuel : nat) (depth : nat) (a b : val) {struct fuel} : res bool :=
  match fuel with
  | O => OutOfFuel
  | S f =>
    let cmp_lists :=
      (fix go (xs ys : list val) : res bool :=
         match xs, ys with
         | [], _ => R true
         | _, [] => R true
         | x :: xs', y :: ys' =>
           match compare f (S depth) x y with
           | R true => go xs' ys'
           | r => r
           end
         end) in
    let arrays (xs ys : list val) : res bool :=
      if Nat.eqb depth maximum then DepthPanic
      else if negb (Nat.eqb (length xs) (length ys)) then R false
      else cmp_lists xs ys in
    let maps (m1 m2 : list (val * val)) : res bool :=
      if Nat.eqb depth maximum then DepthPanic
      else if negb (Nat.eqb (length m1) (length m2)) then R false
      else
        (fix go (xs : list (val * val)) : res bool :=
           match xs with
           | [] => R true
           | (k, v1) :: xs' =>
             match lookup_kv k m2 with
             | None => R false               (* MapIndex yields an invalid value *)
             | Some v2 =>
               match compare f (S depth) v1 v2 with
               | R true => go xs'
               | r => r
               end
             end
           end) m1 in
    match a, b with
    | VNil, VNil => R true
    | VNil, _ => R false
    | _, VNil => R false
    | _, _ =>
      if negb (tyrank a =? tyrank b) then R false else
      match a, b with
      | VBool _, _ | VInt _ _, _ | VUint _ _, _ | VByte _, _ | VRune _, _ | VFloat _ _, _
      | VComplex _ _ _ _ _, _ | VStr _, _ => R (ieq a b)          (* compareIntrinsics *)
      | VPtr _ x, VPtr _ y => R (x =? y)                            (* Elem(): struct == struct *)
      | VNilSlice, VNilSlice | VNilMap, VNilMap => R true
      | VNilSlice, _ | VNilMap, _ | _, VNilSlice | _, VNilMap => R false
      | VAssoc k1 v1, VAssoc k2 v2 =>
        match compare f depth k1 k2 with R true => compare f depth v1 v2 | r => r end
      | VMapping MCatalog _ _, VMapping MCatalog _ _
      | VSeq _ _, VSeq _ _ =>
        match as_elems a, as_elems b with
        | Some xs, Some ys => arrays xs ys
        | _, _ => R false
        end
      | VMapping _ ks1 vs1, VMapping _ ks2 vs2 => maps (zipkv ks1 vs1) (zipkv ks2 vs2)
      | _, _ => R false
      end
    end
  end.

End Collate.

(* total size, used as fuel *)
Fixpoint vsize (v : val) : nat :=
  let fix go (xs : list val) : nat :=
    match xs with [] => 0%nat | x :: xs' => (vsize x + go xs')%nat end in
  match v with
  | VSeq _ l => S (go l)
  | VAssoc k v => S (vsize k + vsize v)
  | VMapping _ ks vs => S (go ks + go vs)
  | _ => 1%nat
  end.

Definition fuel_for (a b : val) : nat := S (vsize a + vsize b).

(* a fresh collator (depth 0) with the default maximum, as used by List.GetIndex, Set.Make, SortValues *)
Definition rank0 (maximum : nat) (a b : val) : res comparison := rank maximum (fuel_for a b) 0 a b.
Definition compare0 (maximum : nat) (a b : val) : res bool := compare maximum (fuel_for a b) 0 a b.
