(* ErrorTokens.v — the two general facts behind "a text with an illegal character is rejected":
   (1) the SCANNER on a scannable PREFIX followed by arbitrary text: if every token text of ts,
       followed by the rest of the rendering AND the text behind it, is picked by one round of
       scanTokens as its class and length (scan_before tail ts), then lexing
       render_toks ts ++ tail gives the tokens of ts with the scanner's lines and positions
       (Space tokens dropped) followed by what the scanner makes of the tail from there; when the
       tail starts with a dot (no token class starts with a dot) that is the Error token "."
       followed by EOF;
   (2) the PARSER never consumes an Error token: ParserProofs.nonEOF — what every parse function
       may consume silently — now excludes the Error type (get_next stops on it), so an accepted
       source contains no Error token, and a source whose token list contains one is rejected:
       with a located diagnostic for a token of the stream. *)
From Coq Require Import String Ascii.
From Verif Require Import Base Params Value Coll Lexer Literals Parser LexerProofs LexBridge ParserProofs CdcnProofs Complete StripInv LexRender.
Close Scope string_scope.
Open Scope Z_scope.

(* ====================================================================== *)
(* 1. The scanner on a scannable prefix                                   *)
(* ====================================================================== *)
Inductive scan_before (tail : list Z) : list rtok -> Prop :=
| sb_nil : scan_before tail []
| sb_cons : forall ty text rest,
    try_types scan_order_t (text ++ render_toks rest ++ tail) = Some (ty, length text) ->
    scan_before tail rest -> scan_before tail ((ty, text) :: rest).

Lemma scannable_scan_before ts : scannable ts <-> scan_before [] ts.
Proof.
  split; induction 1 as [|ty text rest T S IH]; constructor; auto.
  - rewrite app_nil_r. exact T.
  - rewrite app_nil_r in T. exact T.
Qed.

(* the tokens of the prefix, and the line / position at which the scanner goes on *)
Fixpoint place_pre (ts : list rtok) (line pos : Z) : list token * (Z * Z) :=
  match ts with
  | [] => ([], (line, pos))
  | (ty, text) :: r =>
    let cnt := count_nl text in
    let res := place_pre r (if (0 <? cnt)%nat then line + Z.of_nat cnt else line)
                           (if (0 <? cnt)%nat then index_of_last_eol text else pos + Z.of_nat (length text)) in
    ((match ty with TSpace => [] | _ => [mkTok ty (rename text) line pos] end) ++ fst res, snd res)
  end.

Theorem lex_loop_prefix tail : forall ts, scan_before tail ts -> forall fuel line pos,
  (length (render_toks ts ++ tail) <= fuel)%nat ->
  exists fuel', (length tail <= fuel')%nat /\
    lex_loop scan_order_t fuel (render_toks ts ++ tail) line pos =
    fst (place_pre ts line pos) ++
    lex_loop scan_order_t fuel' tail (fst (snd (place_pre ts line pos))) (snd (snd (place_pre ts line pos))).
Proof.
  intros ts S. induction S as [|ty text rest T S IH]; intros fuel line pos Hf.
  - exists fuel. split; [exact Hf|reflexivity].
  - rewrite render_cons, <- app_assoc in *.
    destruct (try_types_pos _ _ _ _ T) as ((Hpos & _) & _).
    assert (Hne : text ++ render_toks rest ++ tail <> []).
    { destruct text; [simpl in Hpos; lia|discriminate]. }
    destruct fuel as [|f]; [rewrite app_length in Hf; lia|].
    rewrite (lex_loop_step scan_order_t f _ line pos ty (length text) Hne T).
    rewrite firstn_app, Nat.sub_diag, firstn_all. simpl firstn. rewrite app_nil_r.
    rewrite skipn_app, Nat.sub_diag, skipn_all. simpl skipn. cbn [app].
    destruct (IH f (if (0 <? count_nl text)%nat then line + Z.of_nat (count_nl text) else line)
                   (if (0 <? count_nl text)%nat then index_of_last_eol text else pos + Z.of_nat (length text)))
      as (fuel' & Hf' & E).
    { rewrite app_length in Hf. lia. }
    exists fuel'. split; [exact Hf'|]. rewrite E. cbn [place_pre fst snd]. rewrite <- app_assoc. reflexivity.
Qed.

(* no token class starts with a dot: foundError, then foundEOF *)
Lemma first_dot r : try_types scan_order_t (46 :: r) = None.
Proof.
  rewrite scan_order_pinned.
  repeat (rewrite tt_none by (try reflexivity; try (apply m_hexadecimal_head; lia); try (apply m_boolean_head; lia))).
  reflexivity.
Qed.

Lemma lex_loop_dot fuel r line pos :
  lex_loop scan_order_t (S fuel) (46 :: r) line pos = [mkTok TError [46] line pos; mkTok TEOF [46] line pos].
Proof. cbn [lex_loop]. rewrite first_dot. reflexivity. Qed.

(* a scannable prefix followed by a dot: the token list is the prefix's tokens, the Error token "."
   at the position the scanner has reached, and EOF *)
Theorem lex_prefix_dot ts r : scan_before (46 :: r) ts ->
  lex (render_toks ts ++ 46 :: r) =
  fst (place_pre ts 1 1) ++
  [mkTok TError [46] (fst (snd (place_pre ts 1 1))) (snd (snd (place_pre ts 1 1)));
   mkTok TEOF [46] (fst (snd (place_pre ts 1 1))) (snd (snd (place_pre ts 1 1)))].
Proof.
  intros S. unfold lex. destruct (lex_loop_prefix (46 :: r) ts S _ 1 1 (le_n _)) as (fuel' & Hf & E).
  rewrite E. destruct fuel' as [|f]; [simpl in Hf; lia|]. rewrite lex_loop_dot. reflexivity.
Qed.

(* ====================================================================== *)
(* 2. The parser never consumes an Error token                            *)
(* ====================================================================== *)
Section Parser.
Variable fparse : list Z -> option Z.
Variable crank : val -> val -> option comparison.

(* an accepted source contains no Error token *)
Theorem accepted_no_error src v : parse_source fparse crank src = PValue v ->
  Forall (fun t => ttype_of t <> TError) (lex src).
Proof.
  intros H. destruct (accepted_consumes_all fparse crank src v H) as (cs & e & E & Te & F).
  rewrite E. apply Forall_app. split.
  - eapply Forall_impl; [|exact F]. intros t (_ & Ne & _). exact Ne.
  - constructor; [congruence|constructor].
Qed.

(* a source whose token list holds an Error token is rejected with a located diagnostic *)
Theorem error_token_rejected src t : In t (lex src) -> ttype_of t = TError ->
  exists t', parse_source fparse crank src = PSyntax t' /\ In t' (lex src).
Proof.
  intros Hin Ht. pose proof (parse_total fparse crank src) as S.
  destruct (parse_source fparse crank src) as [v|t'|k|] eqn:E; try contradiction.
  - pose proof (accepted_no_error src v E) as F. rewrite Forall_forall in F. exfalso. exact (F t Hin Ht).
  - exists t'. auto.
Qed.

(* the two together: a text whose prefix is scannable in front of a dot is rejected *)
Theorem prefix_dot_rejected ts r : scan_before (46 :: r) ts ->
  exists t', parse_source fparse crank (render_toks ts ++ 46 :: r) = PSyntax t' /\
             In t' (lex (render_toks ts ++ 46 :: r)).
Proof.
  intros S. apply (error_token_rejected _ (mkTok TError [46] (fst (snd (place_pre ts 1 1))) (snd (snd (place_pre ts 1 1))))); [|reflexivity].
  rewrite (lex_prefix_dot ts r S). apply in_or_app. right. left. reflexivity.
Qed.
End Parser.
