(* IndepFacts.v - the expected inventory of package-level variables of the library (C19), and the
   expected results of the static footprint extraction (tools/gofootprint -> ParamsFoot.v).
   Definitions only; compared with the regenerated Params.package_vars in IndepProofs.v and with the
   regenerated ParamsFoot tables in IndepStatic.v (compiled by ./check C19 only). *)
From Coq Require Import String List Bool Arith.
From Verif Require Import Params ParamsFoot Indep.
Import ListNotations.

(* ------------------------------------------------------------------------------------ *)
(* the inventory of package-level variables of the library                      *)
(* ------------------------------------------------------------------------------------ *)

(* What the table assumes to be ALL the package-level state: the eleven class registries with
   their mutexes (cells CReg, guarded), class singletons whose methods never assign a field,
   one constant map, and the test hook of the verif build.  tools/genparams.py regenerates
   the actual list (Params.package_vars) with its classification; IndepProofs.v compares. *)
Definition expected_package_vars : list (String.string * String.string) := [
  ("agent/collator.go:collatorClass"%string, "registry"%string);
  ("agent/collator.go:collatorMutex"%string, "mutex"%string);
  ("agent/inspector.go:inspectorClass"%string, "class-constants"%string);
  ("agent/iterator.go:iteratorClass"%string, "registry"%string);
  ("agent/iterator.go:iteratorMutex"%string, "mutex"%string);
  ("agent/sorter.go:sorterClass"%string, "registry"%string);
  ("agent/sorter.go:sorterMutex"%string, "mutex"%string);
  ("cdcn/formatter.go:formatterClass"%string, "class-constants"%string);
  ("cdcn/notation.go:notationClass"%string, "class-constants"%string);
  ("cdcn/parser.go:parserClass"%string, "class-constants"%string);
  ("cdcn/parser.go:syntax"%string, "map-constant"%string);
  ("cdcn/scanner.go:scannerClass"%string, "class-constants"%string);
  ("cdcn/token.go:tokenClass"%string, "class-constants"%string);
  ("collection/array.go:arrayClass"%string, "registry"%string);
  ("collection/array.go:arrayMutex"%string, "mutex"%string);
  ("collection/association.go:associationClass"%string, "registry"%string);
  ("collection/association.go:associationMutex"%string, "mutex"%string);
  ("collection/catalog.go:catalogClass"%string, "registry"%string);
  ("collection/catalog.go:catalogMutex"%string, "mutex"%string);
  ("collection/list.go:listClass"%string, "registry"%string);
  ("collection/list.go:listMutex"%string, "mutex"%string);
  ("collection/map.go:mapClass"%string, "registry"%string);
  ("collection/map.go:mapMutex"%string, "mutex"%string);
  ("collection/queue.go:queueClass"%string, "registry"%string);
  ("collection/queue.go:queueMutex"%string, "mutex"%string);
  ("collection/set.go:setClass"%string, "registry"%string);
  ("collection/set.go:setMutex"%string, "mutex"%string);
  ("collection/stack.go:stackClass"%string, "registry"%string);
  ("collection/stack.go:stackMutex"%string, "mutex"%string);
  ("collection/verif_on.go:VerifHook"%string, "test-hook"%string)].

Definition benign_kind (k : String.string) : bool :=
  existsb (String.eqb k) ["registry"%string; "mutex"%string; "class-constants"%string; "map-constant"%string; "test-hook"%string].

(* every registry map is one of the registries whose accessor was found to hold its mutex *)
Definition registry_is_locked (p : String.string * String.string) : bool :=
  if String.eqb (snd p) "registry"%string
  then existsb (fun q => String.eqb (fst q) (fst p) && snd q) Params.registry_locked
  else true.

Definition is_registry (p : String.string * String.string) : bool := String.eqb (snd p) "registry"%string.

(* ------------------------------------------------------------------------------------ *)
(* Static footprint extraction (tools/gofootprint, go/ast + go/types): expected tables   *)
(* ------------------------------------------------------------------------------------ *)

(* NAMING.  The tables of ParamsFoot.v use canonical identifiers, so that renaming a private field, a local, a
   parameter, a receiver or a private helper, or reordering declarations, changes nothing (tools/gofootprint/canon.go):
   a field is <struct>.<tag><n> - tag = kind of its type (int, bool, slice, map, chan, class = link to the class, T = type
   parameter, or the bare name of its named type: CollatorLike, ListLike, ArrayLike, QueueLike, RankingFunction, Mutex ...),
   n = ordinal among the fields of that struct with that tag (e.g. collection.set_.CollatorLike0 is set_.collator_,
   agent.iterator_.slice0 is iterator_.values_, agent.collator_.int0 / int1 are depth_ / maximum_); a parameter is
   "arg n" / "parameter n"; all unexported functions / methods of a type are ONE identifier: <private> in the place
   of the method name;
   exported names, type names and package-level variables are kept.  build/footprint.json has the real names. *)

(* References that outlive a call and come from somewhere else than a fresh allocation: (where it is
   kept, where it comes from).  Objects without state of their own (every field is the link to the
   class: the notation, the inspector) are omitted by the tool; if notation_ gets a field again all
   the places that keep or hand on a notation appear here.  Each entry is reviewed:
   - an iterator keeps the Go array it is given: every caller in the library hands it a fresh copy
     (AsArray) - the tool finds no call-level edge for that argument;
   - a sorter keeps the ranking function it is given (Sorter.MakeWithRanker); rankers are handed down
     catalog -> list -> array -> sorter; the collator hands its own per-call traversal copy's
     rankValues to the sorter it makes for map keys (receiver of rankMaps);
   - a set keeps the collator it is given; Set.And/Or/Sans hand the collator FIELD of their first operand
     to the result (the summaries of the analysis see through GetCollator), Xor hands its operands on to
     Sans and the collators of the intermediate results on to Or: harmless since fix 4091d12 (CompareValues/RankValues work on a
     per-call copy: [static_collator_shares_depth] below is false); module.Set forwards its argument;
   - the scanner keeps the token queue of the parser that started it (a synchronised queue: C04/C05). *)
Definition expected_shared_edges : list (String.string * String.string) := [
  ("agent.iterator_.slice0", "arg 1 of agent.(*iteratorClass_).MakeFromArray");
  ("agent.sorter_.RankingFunction0", "arg 1 of agent.(*sorterClass_).MakeWithRanker");
  ("arg 1 of agent.(*sorterClass_).MakeWithRanker", "arg 1 of collection.(array_).SortValuesWithRanker");
  ("arg 1 of agent.(*sorterClass_).MakeWithRanker", "receiver of agent.(*collator_).<private>");
  ("arg 1 of collection.(*list_).SortValuesWithRanker", "arg 1 of collection.(*catalog_).SortValuesWithRanker");
  ("arg 1 of collection.(*list_).SortValuesWithRanker", "arg 1 of collection.(*list_).SortValuesWithRanker");
  ("arg 1 of collection.(*setClass_).MakeWithCollator", "arg 1 of collection.(*setClass_).And field collection.set_.CollatorLike0");
  ("arg 1 of collection.(*setClass_).MakeWithCollator", "arg 1 of collection.(*setClass_).Or field collection.set_.CollatorLike0");
  ("arg 1 of collection.(*setClass_).MakeWithCollator", "arg 1 of collection.(*setClass_).Sans field collection.set_.CollatorLike0");
  ("arg 1 of collection.(*setClass_).MakeWithCollator", "arg 1 of module.Set");
  ("arg 1 of collection.(*setClass_).Or", "arg 1 of collection.(*setClass_).Xor field collection.set_.CollatorLike0");
  ("arg 1 of collection.(*setClass_).Sans", "arg 1 of collection.(*setClass_).Xor");
  ("arg 1 of collection.(*setClass_).Sans", "arg 2 of collection.(*setClass_).Xor");
  ("arg 1 of collection.(array_).SortValuesWithRanker", "arg 1 of collection.(*list_).SortValuesWithRanker");
  ("arg 2 of cdcn.(*scannerClass_).Make", "field cdcn.parser_.QueueLike0");
  ("cdcn.scanner_.QueueLike0", "arg 2 of cdcn.(*scannerClass_).Make");
  ("collection.set_.CollatorLike0", "arg 1 of collection.(*setClass_).MakeWithCollator")]%string.

(* Functions that write through something that is neither their receiver nor memory allocated in the
   call.  Reviewed: the sorter works in place on the caller's Go array (that array is the caller's
   instance cell); Scanner.Make starts the goroutine that feeds the parser's token queue (kept in the new
   scanner: a synchronised queue); Queue.Fork/Split consume their input queue (a synchronised queue, in a goroutine);
   module.Queue/Stack append to a slice that the flow-insensitive analysis cannot separate from the
   caller's argument (in fact it is re-made before the append). *)
Definition expected_escapes : list (String.string * String.string) := [
  ("agent.(*sorter_).<private>", "parameter 1");
  ("agent.(*sorter_).<private>", "parameter 3");
  ("agent.(*sorter_).ReverseValues", "parameter 1");
  ("agent.(*sorter_).ShuffleValues", "parameter 1");
  ("agent.(*sorter_).SortValues", "parameter 1");
  ("cdcn.(*scannerClass_).Make", "parameter 2");
  ("collection.(*queueClass_).Fork", "parameter 2");
  ("collection.(*queueClass_).Split", "parameter 2");
  ("module.Queue", "parameter 1");
  ("module.Stack", "parameter 1")]%string.

(* the generic accessors and their registries *)
Definition expected_accessors : list (String.string * String.string) := [
  ("agent/collator.go:collatorClass", "agent.Collator");
  ("agent/iterator.go:iteratorClass", "agent.Iterator");
  ("agent/sorter.go:sorterClass", "agent.Sorter");
  ("collection/array.go:arrayClass", "collection.Array");
  ("collection/association.go:associationClass", "collection.Association");
  ("collection/catalog.go:catalogClass", "collection.Catalog");
  ("collection/list.go:listClass", "collection.List");
  ("collection/map.go:mapClass", "collection.Map");
  ("collection/queue.go:queueClass", "collection.Queue");
  ("collection/set.go:setClass", "collection.Set");
  ("collection/stack.go:stackClass", "collection.Stack")]%string.

(* exported package-level variables (anybody may assign them): none; the hook of the verif build *)
Definition expected_exported_vars : list String.string := [].
Definition expected_verif_exported_vars : list String.string := ["collection/verif_on.go:VerifHook"%string].

(* ---- comparison functions ---- *)
Fixpoint strs_eqb (a b : list String.string) : bool :=
  match a, b with
  | [], [] => true
  | x :: a', y :: b' => String.eqb x y && strs_eqb a' b'
  | _, _ => false
  end.
Fixpoint pairs_eqb (a b : list (String.string * String.string)) : bool :=
  match a, b with
  | [], [] => true
  | (x1, x2) :: a', (y1, y2) :: b' => String.eqb x1 y1 && String.eqb x2 y2 && pairs_eqb a' b'
  | _, _ => false
  end.
Definition is_nil {A} (l : list A) : bool := match l with [] => true | _ => false end.

(* ---- the facts of Indep.v derived a second time, from the typed syntax trees ---- *)
Definition field_row := (String.string * String.string * String.string)%type.
Definition fields_of (s : String.string) : list field_row :=
  filter (fun r : field_row => String.prefix (String.append s "."%string) (fst (fst r))) foot_fields.
Definition kind_in (ks : list String.string) (r : field_row) : bool := existsb (String.eqb (snd (fst r))) ks.

Definition static_notation_shares_formatter : bool :=
  existsb (kind_in ["iface:cdcn.FormatterLike"; "ptr:cdcn.formatter_"; "struct:cdcn.formatter_"]%string) (fields_of "cdcn.notation_"%string).
Definition static_notation_shares_parser : bool :=
  existsb (kind_in ["iface:cdcn.ParserLike"; "ptr:cdcn.parser_"; "struct:cdcn.parser_"]%string) (fields_of "cdcn.notation_"%string).
Definition static_sorter_shares_collator : bool :=
  existsb (kind_in ["func:agent.RankingFunction"; "iface:agent.CollatorLike"; "ptr:agent.collator_"; "struct:agent.collator_"]%string)
          (fields_of "agent.sorterClass_"%string).

Definition method_row := (String.string * String.string * String.string * (list String.string * list String.string * list String.string * list String.string))%type.
Definition m_name (m : method_row) : String.string := fst (fst (fst m)).
Definition m_struct (m : method_row) : String.string := snd (fst (fst m)).
Definition m_role (m : method_row) : String.string := snd (fst m).
Definition m_writes (m : method_row) : list String.string := fst (fst (fst (snd m))).
Definition method_writes (n : String.string) : option (list String.string) :=
  match find (fun m => String.eqb (m_name m) n) foot_methods with Some m => Some (m_writes m) | None => None end.
(* a public call of a collator writes (transitively, through its own methods) a field of the collator *)
Definition static_collator_shares_depth : bool :=
  match method_writes "agent.(*collator_).CompareValues"%string, method_writes "agent.(*collator_).RankValues"%string with
  | Some [], Some [] => false
  | _, _ => true
  end.

Definition accessor_row := (String.string * String.string * (bool * bool * bool * bool))%type.
Definition accessor_ok (r : accessor_row) : bool :=
  let '(_, _, (one_section, covers, sole, returned)) := r in one_section && covers && sole && returned.
Definition static_registries_locked : bool :=
  forallb accessor_ok foot_accessors &&
  pairs_eqb (map (fun r : accessor_row => (fst (fst r), snd (fst r))) foot_accessors) expected_accessors &&
  strs_eqb (map (fun r : accessor_row => fst (fst r)) foot_accessors) (map fst Params.registry_locked).

Definition static_facts : facts :=
  {| f_registries_locked := static_registries_locked;
     f_notation_shares_formatter := static_notation_shares_formatter;
     f_notation_shares_parser := static_notation_shares_parser;
     f_sorter_shares_collator := static_sorter_shares_collator;
     f_collator_shares_depth := static_collator_shares_depth |}.

(* ---- the obligations, one boolean each (IndepStatic.v proves each [= true] by computation) ---- *)

(* (a) no field of a class struct (one object per element type, shared by all instances) is written
   outside the literal that creates the class object.
   BREAKS WHEN: a scratch buffer / cache / counter / mutex / pool / lazily made default agent is put
   into a ...Class_ struct and assigned, appended to, locked, address-taken or mutated by a method. *)
Definition static_no_class_mutable : bool := is_nil foot_class_mutable.
(* no field of an instance struct is written by a function that is not a method of that struct
   (constructors fill the fields in the composite literal).
   BREAKS WHEN: a constructor or another object re-initialises an instance it did not just make,
   e.g. MakeWithRanker assigning the ranker of a sorter obtained from c.Make(). *)
Definition static_no_foreign_writes : bool := is_nil foot_foreign_writes.
(* (b) the references kept across calls are exactly the documented ones.
   BREAKS WHEN: an instance or a class keeps an agent / collection / slice taken from an argument,
   from another object's field or from a getter (a class-level collator handed to every sorter, a
   collection handing its own agent to a derived collection), or notation_ gets state. *)
Definition static_shared_edges_expected : bool := pairs_eqb foot_shared_edges expected_shared_edges.
(* (c) every write of a package-level variable happens while the write lock of a package-level mutex is
   held, every read of a variable that is written holds a lock; no exported variables.
   BREAKS WHEN: a package-level cache / pool / once / counter is added and used, a registry is read
   under RLock and written later, or a hook variable is exported in the normal build. *)
Definition static_pkgvars_guarded : bool :=
  is_nil foot_pkgvar_unguarded && is_nil foot_verif_pkgvar_unguarded &&
  strs_eqb foot_exported_vars expected_exported_vars && strs_eqb foot_verif_exported_vars expected_verif_exported_vars &&
  strs_eqb (map fst foot_verif_pkgvars) (map fst Params.package_vars).
(* (d) every generic accessor has exactly one critical section that contains every use of its registry,
   nobody else uses the registry, and the class returned is the one found in or inserted into the
   registry inside that critical section.
   BREAKS WHEN: the lookup moves under RLock / out of the lock (double-checked locking), the freshly
   built class is returned without being the registered one, a second function touches the map. *)
Definition static_accessors_disciplined : bool := static_registries_locked.
(* (e) every method of an instance struct writes (directly, through its own methods, through its own
   sub-objects) only fields of its own receiver - the cell CInst of Indep.v -; class methods write
   nothing through the class; the functions that write through a parameter are the documented ones.
   BREAKS WHEN: a method writes through a pointer / slice it got from its class or from another
   object, or a new in-place operation on the caller's memory is added. *)
Definition method_writes_own (m : method_row) : bool :=
  if String.eqb (m_role m) "class"%string then is_nil (m_writes m)
  else forallb (String.prefix (String.append (m_struct m) "."%string)) (m_writes m).
Definition static_methods_write_own : bool :=
  forallb method_writes_own foot_methods && negb (is_nil foot_methods) &&
  pairs_eqb foot_escapes expected_escapes.
(* the structural facts of Indep.v, derived from the typed syntax trees, are those of the repaired tree
   and agree with the ones tools/genparams.py finds by regular expressions.
   BREAKS WHEN: as [current_facts_repaired]; or the two extractions disagree. *)
Definition facts_repaired_b (F : facts) : bool :=
  f_registries_locked F && negb (f_notation_shares_formatter F) && negb (f_notation_shares_parser F) &&
  negb (f_sorter_shares_collator F) && negb (f_collator_shares_depth F).
Definition static_facts_agree : bool := facts_repaired_b static_facts && facts_eqb static_facts current_facts.

Definition static_ok : bool :=
  foot_tool_ok && static_no_class_mutable && static_no_foreign_writes && static_shared_edges_expected &&
  static_pkgvars_guarded && static_accessors_disciplined && static_methods_write_own && static_facts_agree.
