(* IndepFacts.v - the expected inventory of package-level variables of the library (C19).
   Definitions only; compared with the regenerated Params.package_vars in IndepProofs.v. *)
From Coq Require Import String List Bool.
From Verif Require Import Params.
Import ListNotations.

(* ------------------------------------------------------------------------------------ *)
(* the inventory of package-level variables of the library                      *)
(* ------------------------------------------------------------------------------------ *)

(* What the table assumes to be ALL the package-level state: the eleven class registries with
   their mutexes (cells CReg, guarded), class singletons whose methods never assign a field,
   one constant map, and the test hook of the verif build.  tools/genparams.py regenerates
   the actual list (Params.package_vars) with its classification; IndepProofs.v compares. *)
Definition expected_package_vars : list (String.string * String.string) := [
  ("agent/collator.go:collatorClass"%string, "registry"%string);
  ("agent/collator.go:collatorMutex"%string, "mutex"%string);
  ("agent/inspector.go:inspectorClass"%string, "class-constants"%string);
  ("agent/iterator.go:iteratorClass"%string, "registry"%string);
  ("agent/iterator.go:iteratorMutex"%string, "mutex"%string);
  ("agent/sorter.go:sorterClass"%string, "registry"%string);
  ("agent/sorter.go:sorterMutex"%string, "mutex"%string);
  ("cdcn/formatter.go:formatterClass"%string, "class-constants"%string);
  ("cdcn/notation.go:notationClass"%string, "class-constants"%string);
  ("cdcn/parser.go:parserClass"%string, "class-constants"%string);
  ("cdcn/parser.go:syntax"%string, "map-constant"%string);
  ("cdcn/scanner.go:scannerClass"%string, "class-constants"%string);
  ("cdcn/token.go:tokenClass"%string, "class-constants"%string);
  ("collection/array.go:arrayClass"%string, "registry"%string);
  ("collection/array.go:arrayMutex"%string, "mutex"%string);
  ("collection/association.go:associationClass"%string, "registry"%string);
  ("collection/association.go:associationMutex"%string, "mutex"%string);
  ("collection/catalog.go:catalogClass"%string, "registry"%string);
  ("collection/catalog.go:catalogMutex"%string, "mutex"%string);
  ("collection/list.go:listClass"%string, "registry"%string);
  ("collection/list.go:listMutex"%string, "mutex"%string);
  ("collection/map.go:mapClass"%string, "registry"%string);
  ("collection/map.go:mapMutex"%string, "mutex"%string);
  ("collection/queue.go:queueClass"%string, "registry"%string);
  ("collection/queue.go:queueMutex"%string, "mutex"%string);
  ("collection/set.go:setClass"%string, "registry"%string);
  ("collection/set.go:setMutex"%string, "mutex"%string);
  ("collection/stack.go:stackClass"%string, "registry"%string);
  ("collection/stack.go:stackMutex"%string, "mutex"%string);
  ("collection/verif_on.go:VerifHook"%string, "test-hook"%string)].

Definition benign_kind (k : String.string) : bool :=
  existsb (String.eqb k) ["registry"%string; "mutex"%string; "class-constants"%string; "map-constant"%string; "test-hook"%string].

(* every registry map is one of the registries whose accessor was found to hold its mutex *)
Definition registry_is_locked (p : String.string * String.string) : bool :=
  if String.eqb (snd p) "registry"%string
  then existsb (fun q => String.eqb (fst q) (fst p) && snd q) Params.registry_locked
  else true.

Definition is_registry (p : String.string * String.string) : bool := String.eqb (snd p) "registry"%string.
