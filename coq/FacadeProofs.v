(* FacadeProofs.v — the universal constructors (Facade.v) agree with the class-level
   constructors of the pool model for every documented argument form, with an optional
   notation before or after; the source forms have the contents and order of the parsed
   collection; Association(k, v) has key k and value v for every pair of types. *)
From Verif Require Import Base Sorter Value Seq Coll Pool Params AssocProofs SetProofs Facade.
Open Scope Z_scope.

(* an optional notation argument: none, first, last *)
Definition with_notation (pos : nat) (args : list arg) : list arg :=
  match pos with
  | 0%nat => args
  | 1%nat => ANotation :: args
  | _ => args ++ [ANotation]
  end.

(* ---------- the notation argument is transparent ---------- *)
Lemma assign_app_notation : forall k args s, assign k s (args ++ [ANotation]) = assign k s args.
Proof.
  intros k args. induction args as [|a rest IH]; intros s; simpl.
  - reflexivity.
  - destruct (accept k s a) as [s'|]; [apply IH|reflexivity].
Qed.

Lemma assign_with_notation : forall k pos args s, assign k s (with_notation pos args) = assign k s args.
Proof.
  intros k pos args s. destruct pos as [|[|pos]]; simpl.
  - reflexivity.
  - reflexivity.
  - apply assign_app_notation.
Qed.

Lemma assoc_loop_app_notation : forall tk tv args key value,
  assoc_loop tk tv key value (args ++ [ANotation]) = assoc_loop tk tv key value args.
Proof.
  intros tk tv args. induction args as [|a rest IH]; intros key value.
  - reflexivity.
  - destruct a; simpl; try apply IH; try reflexivity;
      repeat match goal with
             | |- context [if ?c then _ else _] => destruct c
             | |- context [match ?o with Some _ => _ | None => _ end] => destruct o
             end; try apply IH; reflexivity.
Qed.

Lemma assoc_loop_with_notation : forall tk tv pos args key value,
  assoc_loop tk tv key value (with_notation pos args) = assoc_loop tk tv key value args.
Proof.
  intros tk tv pos args key value. destruct pos as [|[|pos]]; simpl.
  - reflexivity.
  - reflexivity.
  - apply assoc_loop_app_notation.
Qed.

Theorem facade_notation_transparent : forall k tk tv pos args,
  facade k tk tv (with_notation pos args) = facade k tk tv args.
Proof.
  intros k tk tv pos args. destruct k; unfold facade, association;
    rewrite ?assign_with_notation, ?assoc_loop_with_notation; reflexivity.
Qed.

(* ---------- every documented argument form = the class-level constructor ---------- *)
Definition is_seq_kind (k : fkind) : Prop := k = FArray \/ k = FList \/ k = FSet \/ k = FStack \/ k = FQueue.
Definition is_pair_kind (k : fkind) : Prop := k = FCatalog \/ k = FMap.
Definition is_sized_kind (k : fkind) : Prop := k = FArray \/ k = FStack \/ k = FQueue.

(* no data argument: Make(); the Array constructor requires an argument *)
Theorem facade_agrees_none : forall k tk tv pos,
  k <> FArray -> k <> FAssociation ->
  facade k tk tv (with_notation pos []) = out_map FObj (class_ctor k tv CMake).
Proof.
  intros k tk tv pos HA HS. rewrite facade_notation_transparent.
  destruct k; try congruence; reflexivity.
Qed.

Theorem facade_array_requires_argument : forall tk tv pos,
  facade FArray tk tv (with_notation pos []) = Panic.
Proof. intros. rewrite facade_notation_transparent. reflexivity. Qed.

(* size / capacity, as a Go uint or int *)
Lemma facade_size_uint : forall k tk tv n, is_sized_kind k -> 0 <= n ->
  facade k tk tv [AUint n] = out_map FObj (class_ctor k tv (CSize (Z.to_nat n))).
Proof.
  intros k tk tv n Hk Hn.
  assert (Hle : (0 <=? n) = true) by (apply Z.leb_le; exact Hn).
  destruct Hk as [-> | [-> | ->]]; unfold facade, assign, accept; simpl; rewrite Hle; simpl.
  - unfold finish_array; simpl. destruct (0 <? n) eqn:Hlt; [reflexivity|].
    apply Z.ltb_ge in Hlt. assert (n = 0) by lia. subst n. reflexivity.
  - unfold finish_stack; simpl. destruct (0 <? n) eqn:Hlt; reflexivity.
  - unfold finish_queue; simpl. destruct (0 <? n) eqn:Hlt; [reflexivity|].
    apply Z.ltb_ge in Hlt. assert (n = 0) by lia. subst n. reflexivity.
Qed.

Theorem facade_agrees_size : forall k tk tv n pos (as_int : bool), is_sized_kind k -> 0 <= n ->
  facade k tk tv (with_notation pos [if as_int then AInt n else AUint n])
  = out_map FObj (class_ctor k tv (CSize (Z.to_nat n))).
Proof.
  intros k tk tv n pos as_int Hk Hn. rewrite facade_notation_transparent.
  rewrite <- (facade_size_uint k tk tv n Hk Hn).
  destruct as_int; [|reflexivity].
  destruct Hk as [-> | [-> | ->]]; reflexivity.
Qed.

(* a Go array (slice) of values *)
Theorem facade_agrees_slice : forall k tk tv vs pos, is_seq_kind k ->
  facade k tk tv (with_notation pos [ASlice vs]) = out_map FObj (class_ctor k tv (CFromArray vs)).
Proof.
  intros k tk tv vs pos Hk. rewrite facade_notation_transparent.
  destruct Hk as [-> | [-> | [-> | [-> | ->]]]]; destruct vs; reflexivity.
Qed.

(* a sequence of values (any collection kind as the source) *)
Theorem facade_agrees_sequence : forall k tk tv sk vs pos, is_seq_kind k ->
  facade k tk tv (with_notation pos [ASeq sk vs]) = out_map FObj (class_ctor k tv (CFromSeq vs)).
Proof.
  intros k tk tv sk vs pos Hk. rewrite facade_notation_transparent.
  destruct Hk as [-> | [-> | [-> | [-> | ->]]]]; reflexivity.
Qed.

(* Set: a collator alone, and a collator with data in either order *)
Theorem facade_agrees_collator : forall tk tv c pos,
  facade FSet tk tv (with_notation pos [ACollator c]) = out_map FObj (class_ctor FSet tv (CWithCollator c [])).
Proof. intros. rewrite facade_notation_transparent. reflexivity. Qed.

Theorem facade_agrees_collator_slice : forall tk tv c vs pos (coll_first : bool),
  facade FSet tk tv (with_notation pos (if coll_first then [ACollator c; ASlice vs] else [ASlice vs; ACollator c]))
  = out_map FObj (class_ctor FSet tv (CWithCollator c vs)).
Proof.
  intros. rewrite facade_notation_transparent. destruct coll_first; destruct vs; reflexivity.
Qed.

Theorem facade_agrees_collator_sequence : forall tk tv c sk vs pos (coll_first : bool),
  facade FSet tk tv (with_notation pos (if coll_first then [ACollator c; ASeq sk vs] else [ASeq sk vs; ACollator c]))
  = out_map FObj (class_ctor FSet tv (CWithCollator c vs)).
Proof.
  intros. rewrite facade_notation_transparent. destruct coll_first; reflexivity.
Qed.

(* Catalog / Map: a Go map, a Go array of associations, a sequence of associations *)
Theorem facade_agrees_gomap : forall k tk tv kvs okeys pos, is_pair_kind k ->
  facade k tk tv (with_notation pos [AGoMap kvs okeys])
  = out_map FObj (class_ctor k tv (CFromMap (ordered kvs okeys))).
Proof.
  intros k tk tv kvs okeys pos Hk. rewrite facade_notation_transparent.
  destruct Hk as [-> | ->]; unfold facade, assign, accept; simpl;
    destruct (ordered kvs okeys) as [|p l]; reflexivity.
Qed.

Theorem facade_agrees_assoc_slice : forall k tk tv kvs pos, is_pair_kind k ->
  facade k tk tv (with_notation pos [AAssocSlice kvs])
  = out_map FObj (class_ctor k tv (CFromAssocArray kvs)).
Proof.
  intros k tk tv kvs pos Hk. rewrite facade_notation_transparent.
  destruct Hk as [-> | ->]; destruct kvs; reflexivity.
Qed.

Theorem facade_agrees_assoc_sequence : forall k tk tv kvs okeys pos, is_pair_kind k ->
  facade k tk tv (with_notation pos [AAssocSeq kvs okeys])
  = out_map FObj (class_ctor k tv (CFromAssocSeq (ordered kvs okeys))).
Proof.
  intros k tk tv kvs okeys pos Hk. rewrite facade_notation_transparent.
  destruct Hk as [-> | ->]; reflexivity.
Qed.

(* ---------- what the class-level constructors of the pool model are, in closed form ---------- *)
Theorem class_ctor_closed_forms : forall t l n,
  class_ctor FList t CMake = Ret (OLst []) /\
  class_ctor FSet t CMake = Ret (OSet 0 []) /\
  class_ctor FStack t CMake = Ret (OStk default_stack_cap []) /\
  class_ctor FQueue t CMake = Ret (OQue default_queue_cap []) /\
  class_ctor FCatalog t CMake = Ret (OCat []) /\
  class_ctor FMap t CMake = Ret (OMap []) /\
  class_ctor FArray t (CSize n) = Ret (OArr (repeat (zero_of t) n)) /\
  class_ctor FStack t (CSize n) = (if (n =? 0)%nat then Panic else Ret (OStk n [])) /\
  class_ctor FQueue t (CSize n) = Ret (OQue (if (n =? 0)%nat then default_queue_cap else n) []) /\
  class_ctor FArray t (CFromArray l) = Ret (OArr l) /\
  class_ctor FList t (CFromArray l) = Ret (OLst l) /\
  class_ctor FStack t (CFromArray l) = Ret (OStk (Nat.max default_stack_cap (length l)) l) /\
  class_ctor FQueue t (CFromArray l) = Ret (OQue (Nat.max default_queue_cap (length l)) l) /\
  class_ctor FArray t (CFromSeq l) = Ret (OArr l) /\
  class_ctor FList t (CFromSeq l) = Ret (OLst l) /\
  class_ctor FStack t (CFromSeq l) = Ret (OStk (Nat.max default_stack_cap (length l)) l) /\
  class_ctor FQueue t (CFromSeq l) = Ret (OQue (Nat.max default_queue_cap (length l)) l).
Proof.
  intros t l n. repeat split; try reflexivity.
  - unfold class_ctor, via_step; simpl. destruct (n =? 0)%nat; reflexivity.
Qed.

Lemma class_ctor_set_from : forall t l,
  class_ctor FSet t (CFromArray l) = out_map (OSet 0) (set_add_all (zero_of t) rk_default [] l) /\
  class_ctor FSet t (CFromSeq l) = out_map (OSet 0) (set_add_all (zero_of t) rk_default [] l).
Proof.
  intros t l. unfold class_ctor, via_step; simpl.
  destruct (set_add_all (zero_of t) rk_default [] l); split; reflexivity.
Qed.

Lemma class_ctor_pairs_from : forall t kvs,
  class_ctor FCatalog t (CFromAssocArray kvs) = Ret (OCat (a_set_all keq [] kvs)) /\
  class_ctor FCatalog t (CFromAssocSeq kvs) = Ret (OCat (a_set_all keq [] kvs)) /\
  class_ctor FMap t (CFromAssocArray kvs) = Ret (OMap (a_set_all keq [] kvs)) /\
  class_ctor FMap t (CFromAssocSeq kvs) = Ret (OMap (a_set_all keq [] kvs)).
Proof.
  intros t kvs.
  assert (H : vals_assoc (assoc_vals kvs) = Some kvs).
  { induction kvs as [|[k v] r IH]; simpl; [reflexivity|]. fold (assoc_vals r). rewrite IH. reflexivity. }
  unfold class_ctor, via_step; simpl. unfold seq_view; simpl. rewrite H. repeat split; reflexivity.
Qed.

(* ---------- conversions of parsed items ---------- *)
Lemma as_type_some : forall t x v, as_type t x = Some v -> v = x.
Proof.
  intros t x v H. destruct x; simpl in H; destruct t; simpl in H; try congruence;
    match type of H with (if ?c then _ else _) = _ => destruct c; congruence end.
Qed.

Lemma convert_all_some : forall t items vs, convert_all t items = Some vs -> vs = items.
Proof.
  intros t items. induction items as [|x rest IH]; intros vs H; simpl in H.
  - congruence.
  - destruct (as_type t x) as [v|] eqn:Hx; [|congruence].
    destruct (convert_all t rest) as [r|] eqn:Hr; [|congruence].
    inversion H; subst. rewrite (as_type_some _ _ _ Hx), (IH r eq_refl). reflexivity.
Qed.

Lemma convert_all_typed : forall t items,
  Forall (fun x => as_type t x <> None) items -> convert_all t items = Some items.
Proof.
  intros t items H. induction H as [|x rest Hx _ IH]; simpl; [reflexivity|].
  destruct (as_type t x) as [v|] eqn:E; [|congruence].
  rewrite (as_type_some _ _ _ E), IH. reflexivity.
Qed.

Lemma convert_all_in : forall t items, convert_all t items = Some items ->
  forall x, In x items -> as_type t x = Some x.
Proof.
  intros t items. induction items as [|y rest IH]; intros H x Hin; simpl in *; [contradiction|].
  destruct (as_type t y) as [v|] eqn:Hy; [|congruence].
  destruct (convert_all t rest) as [r|] eqn:Hr; [|congruence].
  pose proof (as_type_some _ _ _ Hy); subst v.
  pose proof (convert_all_some _ _ _ Hr); subst r.
  destruct Hin as [-> | Hin]; [exact Hy | apply IH; auto].
Qed.

Lemma convert_pairs_some : forall tk tv kvs r, convert_pairs tk tv kvs = Some r -> r = kvs.
Proof.
  intros tk tv kvs. induction kvs as [|[k v] rest IH]; intros r H; simpl in H.
  - congruence.
  - destruct (as_type tk k) as [k'|] eqn:Hk; [|congruence].
    destruct (as_type tv v) as [v'|] eqn:Hv; [|congruence].
    destruct (convert_pairs tk tv rest) as [r'|] eqn:Hr; [|congruence].
    inversion H; subst. rewrite (as_type_some _ _ _ Hk), (as_type_some _ _ _ Hv), (IH r' eq_refl). reflexivity.
Qed.

(* ---------- Array source: Make(n), then SetValue(1..n) rebuilds the items ---------- *)
Lemma set_nth_app_length : forall (d : list val) x y r, set_nth (length d) x (d ++ y :: r) = d ++ x :: r.
Proof. intros d x y r. induction d as [|a d IH]; simpl; [reflexivity|]. rewrite IH. reflexivity. Qed.

Lemma set_value_next : forall (d : list val) x y r,
  set_value (d ++ y :: r) (Z.of_nat (length d) + 1) x = Ret (d ++ x :: r).
Proof.
  intros d x y r. unfold set_value, pos. rewrite app_length. simpl length.
  replace (length d + S (length r) =? 0)%nat with false by (symmetry; apply Nat.eqb_neq; lia).
  replace (Z.of_nat (length d) + 1 =? 0) with false by (symmetry; apply Z.eqb_neq; lia).
  replace (Z.of_nat (length d) + 1 <? - Z.of_nat (length d + S (length r))) with false by (symmetry; apply Z.ltb_ge; lia).
  replace (Z.of_nat (length d + S (length r)) <? Z.of_nat (length d) + 1) with false by (symmetry; apply Z.ltb_ge; lia).
  replace (Z.of_nat (length d) + 1 <? 0) with false by (symmetry; apply Z.ltb_ge; lia).
  simpl. replace (Z.to_nat (Z.of_nat (length d) + 1 - 1)) with (length d) by lia.
  rewrite set_nth_app_length. reflexivity.
Qed.

Lemma array_fill_spec : forall t items d,
  (forall x, In x items -> as_type t x = Some x) ->
  array_fill t (d ++ repeat (zero_of t) (length items)) (Z.of_nat (length d) + 1) items = Ret (d ++ items).
Proof.
  intros t items. induction items as [|x rest IH]; intros d H; simpl.
  - rewrite app_nil_r. reflexivity.
  - rewrite (H x (or_introl eq_refl)). rewrite set_value_next. simpl.
    replace (d ++ x :: repeat (zero_of t) (length rest)) with ((d ++ [x]) ++ repeat (zero_of t) (length rest))
      by (rewrite <- app_assoc; reflexivity).
    replace (Z.of_nat (length d) + 1 + 1) with (Z.of_nat (length (d ++ [x])) + 1)
      by (rewrite app_length; simpl; lia).
    rewrite IH by (intros y Hy; apply H; right; exact Hy).
    rewrite <- app_assoc. reflexivity.
Qed.

Theorem array_from_source_spec : forall t items, convert_all t items = Some items ->
  array_from_source t items = Ret items.
Proof.
  intros t items H. unfold array_from_source.
  apply (array_fill_spec t items [] (convert_all_in t items H)).
Qed.

(* ---------- the source form of the sequence kinds ---------- *)
Theorem facade_source_sequence : forall k tk tv text sk items pos,
  is_seq_kind k -> text <> [] -> sk <> KSlice -> convert_all tv items = Some items ->
  facade k tk tv (with_notation pos [AString text (PColl (VSeq sk items))])
  = out_map FObj (class_ctor k tv (CFromSeq items)).
Proof.
  intros k tk tv text sk items pos Hk Ht Hsk Hc. rewrite facade_notation_transparent.
  destruct text as [|c text]; [congruence|].
  destruct Hk as [-> | [-> | [-> | [-> | ->]]]]; destruct sk; try congruence;
    rewrite ?(proj2 (class_ctor_set_from tv items));
    unfold facade, assign, accept; simpl;
    unfold finish_array, finish_list, finish_set, finish_stack, finish_queue, source_values; simpl;
    rewrite ?Hc, ?(array_from_source_spec tv items Hc); reflexivity.
Qed.

(* contents, order and capacity of the source form = those of the parsed collection *)
Theorem facade_source_contents : forall k tk tv text sk items pos,
  k = FArray \/ k = FList \/ k = FStack \/ k = FQueue ->
  text <> [] -> sk <> KSlice -> convert_all tv items = Some items ->
  exists o, facade k tk tv (with_notation pos [AString text (PColl (VSeq sk items))]) = Ret (FObj o) /\
            seq_plain o = Some items /\
            (k = FStack -> o = OStk (Nat.max default_stack_cap (length items)) items) /\
            (k = FQueue -> o = OQue (Nat.max default_queue_cap (length items)) items).
Proof.
  intros k tk tv text sk items pos Hk Ht Hsk Hc.
  assert (Hs : is_seq_kind k) by (unfold is_seq_kind; tauto).
  rewrite (facade_source_sequence k tk tv text sk items pos Hs Ht Hsk Hc).
  destruct Hk as [-> | [-> | [-> | ->]]].
  - exists (OArr items). repeat split; try reflexivity; congruence.
  - exists (OLst items). repeat split; try reflexivity; congruence.
  - exists (OStk (Nat.max default_stack_cap (length items)) items). repeat split; try reflexivity; congruence.
  - exists (OQue (Nat.max default_queue_cap (length items)) items). repeat split; try reflexivity; congruence.
Qed.

(* an item that is not of the element type makes the source form panic *)
Theorem facade_source_ill_typed : forall k tk tv text sk items pos,
  is_seq_kind k -> text <> [] -> sk <> KSlice -> convert_all tv items = None ->
  facade k tk tv (with_notation pos [AString text (PColl (VSeq sk items))]) = Panic.
Proof.
  intros k tk tv text sk items pos Hk Ht Hsk Hc. rewrite facade_notation_transparent.
  destruct text as [|c text]; [congruence|].
  assert (G : forall its arr i, convert_all tv its = None -> array_fill tv arr i its = Panic).
  { intros its. induction its as [|x r IH]; intros arr i H; simpl in *; [congruence|].
    destruct (as_type tv x) as [v|]; [|reflexivity].
    destruct (convert_all tv r) eqn:E; [congruence|].
    unfold set_value. destruct (Seq.pos (length arr) i); simpl; auto. }
  destruct Hk as [-> | [-> | [-> | [-> | ->]]]]; destruct sk; try congruence;
    unfold facade, assign, accept; simpl;
    unfold finish_array, finish_list, finish_set, finish_stack, finish_queue, source_values, array_from_source; simpl;
    rewrite ?Hc, ?(G items _ _ Hc); reflexivity.
Qed.

(* ---------- Set source: adding the values of a strictly sorted list, in order, rebuilds it ---------- *)
Section SortedAdd.
Open Scope nat_scope.
Variable A : Type.
Variable zero : A.
Variable rank : A -> A -> comparison.
Hypothesis TP : total_preorder A rank.

Lemma set_add_last : forall l v, StrictSorted A rank l ->
  (forall y, In y l -> rank y v = Lt) -> set_add zero rank l v = Ret (l ++ [v]).
Proof.
  intros l v HS Hlt. unfold set_add.
  destruct (find_index_returns A zero rank l v) as (k & b & Hr & Hk & Hb).
  rewrite Hr. destruct b.
  - exfalso. destruct (find_index_found A zero rank TP l v k HS Hr) as (Hrange & Heq).
    assert (Hin : In (nth (k - 1) l zero) l) by (apply nth_In; lia).
    pose proof (Hlt _ Hin) as H1.
    pose proof (rk_opp A rank TP (nth (k - 1) l zero) v) as H2. rewrite H1 in H2. simpl in H2. congruence.
  - destruct (find_index_absent A zero rank TP l v k HS Hr) as (Hle & _ & Hafter).
    assert (k = length l).
    { destruct (Nat.eq_dec k (length l)) as [E|E]; [exact E|]. exfalso.
      assert (Hj : k <= k < length l) by lia.
      pose proof (Hafter k Hj) as H1.
      assert (Hin : In (nth k l zero) l) by (apply nth_In; lia).
      pose proof (Hlt _ Hin) as H2.
      pose proof (rk_opp A rank TP (nth k l zero) v) as H3. rewrite H2 in H3. simpl in H3. congruence. }
    subst k. unfold insert_value. rewrite Nat.ltb_irrefl, firstn_all, skipn_all. reflexivity.
Qed.

Lemma set_add_all_sorted : forall vs acc, StrictSorted A rank (acc ++ vs) ->
  set_add_all zero rank acc vs = Ret (acc ++ vs).
Proof.
  intros vs. induction vs as [|v rest IH]; intros acc HS; simpl.
  - rewrite app_nil_r. reflexivity.
  - assert (HS' : StrictSorted A rank ((acc ++ [v]) ++ rest)) by (rewrite <- app_assoc; exact HS).
    destruct (proj1 (StrictSorted_app A rank acc (v :: rest)) HS) as (Hacc & _ & Hcross).
    rewrite (set_add_last acc v Hacc) by (intros y Hy; apply Hcross; [exact Hy | left; reflexivity]).
    simpl. rewrite (IH (acc ++ [v]) HS'). rewrite <- app_assoc. reflexivity.
Qed.
End SortedAdd.

(* when the default ranking is a total preorder on the values at hand (C07) and the parsed
   collection is itself a set, i.e. strictly sorted by it, the set built by the source form
   has exactly the contents and order of the parsed set *)
Theorem facade_source_set : forall tk tv text items pos,
  total_preorder val rk_default -> StrictSorted val rk_default items ->
  text <> [] -> convert_all tv items = Some items ->
  facade FSet tk tv (with_notation pos [AString text (PColl (VSeq KSet items))]) = Ret (FObj (OSet 0 items)).
Proof.
  intros tk tv text items pos TP HS Ht Hc.
  rewrite (facade_source_sequence FSet tk tv text KSet items pos) by (unfold is_seq_kind; auto; congruence).
  rewrite (proj2 (class_ctor_set_from tv items)).
  rewrite (set_add_all_sorted val (zero_of tv) rk_default TP items [] HS). reflexivity.
Qed.

(* in general the result is the set of the items: strictly sorted, same members *)
Theorem facade_source_set_members : forall tk tv text sk items pos,
  total_preorder val rk_default -> sk <> KSlice ->
  text <> [] -> convert_all tv items = Some items ->
  exists l, facade FSet tk tv (with_notation pos [AString text (PColl (VSeq sk items))]) = Ret (FObj (OSet 0 l)) /\
            StrictSorted val rk_default l /\
            (forall x, mem val rk_default x l <-> mem val rk_default x items).
Proof.
  intros tk tv text sk items pos TP Hsk Ht Hc.
  rewrite (facade_source_sequence FSet tk tv text sk items pos) by (unfold is_seq_kind; auto).
  rewrite (proj2 (class_ctor_set_from tv items)).
  destruct (set_add_all_spec val (zero_of tv) rk_default TP items [] (StrictSorted_nil val rk_default))
    as (l & Hl & HS & Hm).
  exists l. rewrite Hl. split; [reflexivity|]. split; [exact HS|].
  intros x. rewrite Hm. split; [intros [H|H]; [destruct (mem_nil val rk_default x H)|exact H] | auto].
Qed.

(* ---------- Go's == on keys is symmetric ---------- *)
Lemma list_eqb_Z_sym : forall a b : list Z, list_eqb Z.eqb a b = list_eqb Z.eqb b a.
Proof.
  induction a as [|x a IH]; destruct b as [|y b]; simpl; try reflexivity.
  rewrite (Z.eqb_sym x y), IH. reflexivity.
Qed.
Lemma f_eq_go_sym : forall a b, f_eq_go a b = f_eq_go b a.
Proof.
  intros a b. unfold f_eq_go. rewrite (Z.eqb_sym (f_key a) (f_key b)).
  destruct (f_isnan a), (f_isnan b); reflexivity.
Qed.
Lemma val_keq_sym : forall a b : val, keq a b = keq b a.
Proof.
  destruct a, b; simpl; try reflexivity.
  all: try rewrite (Z.eqb_sym w w0); try rewrite (Z.eqb_sym z z0); try rewrite (Z.eqb_sym id id0);
       try rewrite (f_eq_go_sym bits bits0); try rewrite (f_eq_go_sym re re0), (f_eq_go_sym im im0);
       try apply list_eqb_Z_sym; try reflexivity.
Qed.

(* ---------- the source form of Catalog and Map ---------- *)
Definition pairs_obj (k : fkind) (m : list (val * val)) : obj :=
  match k with FCatalog => OCat m | _ => OMap m end.

Theorem facade_source_pairs : forall k tk tv text mk ks vs pos,
  is_pair_kind k -> (mk = MCatalog \/ mk = MMap) -> text <> [] ->
  convert_pairs tk tv (zipkv ks vs) = Some (zipkv ks vs) ->
  facade k tk tv (with_notation pos [AString text (PColl (VMapping mk ks vs))])
  = Ret (FObj (pairs_obj k (a_set_all keq [] (zipkv ks vs)))).
Proof.
  intros k tk tv text mk ks vs pos Hk Hmk Ht Hc. rewrite facade_notation_transparent.
  destruct text as [|c text]; [congruence|].
  destruct Hk as [-> | ->]; destruct Hmk as [-> | ->];
    unfold facade, assign, accept; simpl; unfold finish_pairs, source_pairs; simpl; rewrite Hc; reflexivity.
Qed.

(* the keys of a parsed catalog (or map) are pairwise distinct: the result has exactly the
   associations of the parsed collection, a catalog in the same order *)
Theorem facade_source_pairs_contents : forall k tk tv text mk ks vs pos,
  is_pair_kind k -> (mk = MCatalog \/ mk = MMap) -> text <> [] ->
  convert_pairs tk tv (zipkv ks vs) = Some (zipkv ks vs) ->
  wfm val val keq (zipkv ks vs) ->
  facade k tk tv (with_notation pos [AString text (PColl (VMapping mk ks vs))])
  = Ret (FObj (pairs_obj k (zipkv ks vs))).
Proof.
  intros k tk tv text mk ks vs pos Hk Hmk Ht Hc Hwf.
  rewrite (facade_source_pairs k tk tv text mk ks vs pos Hk Hmk Ht Hc).
  rewrite (a_set_all_fresh val val keq val_keq_sym (zipkv ks vs) []) by exact Hwf. reflexivity.
Qed.

(* ---------- Association(k, v) ---------- *)
Lemma has_ty_not_nil : forall t v, has_ty t v = true -> is_nil v = false.
Proof. intros t v H. destruct v; try reflexivity. destruct t; simpl in H; congruence. Qed.

Lemma assoc_two : forall tk tv k v, has_ty tk k = true -> has_ty tv v = true ->
  facade FAssociation tk tv [AVal k; AVal v] = Ret (FAssoc k v).
Proof.
  intros tk tv k v Hk Hv. unfold facade, association; simpl. rewrite Hk.
  destruct (has_ty tk v); rewrite Hv; simpl;
    rewrite (has_ty_not_nil _ _ Hk), (has_ty_not_nil _ _ Hv); reflexivity.
Qed.

(* for every pair of types, identical ones and [any] included; the notation may come first,
   last (with_notation) or between the key and the value *)
Theorem assoc_kv : forall tk tv k v pos, has_ty tk k = true -> has_ty tv v = true ->
  facade FAssociation tk tv (with_notation pos [AVal k; AVal v]) = Ret (FAssoc k v).
Proof.
  intros. rewrite facade_notation_transparent. apply assoc_two; assumption.
Qed.

Theorem assoc_kv_notation_between : forall tk tv k v, has_ty tk k = true -> has_ty tv v = true ->
  facade FAssociation tk tv [AVal k; ANotation; AVal v] = Ret (FAssoc k v).
Proof.
  intros tk tv k v Hk Hv. rewrite <- (assoc_two tk tv k v Hk Hv).
  unfold facade, association; simpl. rewrite Hk. reflexivity.
Qed.

(* when the types differ the arguments may come in either order *)
Theorem assoc_vk_distinct_types : forall tk tv k v,
  has_ty tk k = true -> has_ty tv v = true -> has_ty tk v = false ->
  facade FAssociation tk tv [AVal v; AVal k] = Ret (FAssoc k v).
Proof.
  intros tk tv k v Hk Hv Hkv. unfold facade, association; simpl. rewrite Hkv, Hv, Hk. simpl.
  rewrite (has_ty_not_nil _ _ Hk), (has_ty_not_nil _ _ Hv). reflexivity.
Qed.

(* the default capacities of the source tree (Params.v is regenerated from stack.go / queue.go on every run) are
   positive; the correspondence takes its sizes around them from DefaultCapacity() at run time *)
Lemma default_capacities_positive :
  (1 <=? default_stack_cap)%nat = true /\ (1 <=? default_queue_cap)%nat = true.
Proof. split; reflexivity. Qed.
