(* PipeLang.v — syntax of the micro-language into which tools/gopipes translates, statement by
   statement, the CLASS FUNCTIONS of v4/collection/queue.go: the constructors MakeWithCapacity,
   MakeFromArray, MakeFromSequence and the functions Fork, Split, Join with their helper
   goroutines (GenPipes.v, regenerated on every run).  Definitions only; the meaning is given in
   PipeSem.v.  Variables carry canonical names chosen by the translator from the TYPE of a
   parameter and from the USE of a local (what it is initialised from), numbered per function in
   order of declaration: num1, queue1, queues1, iter1, next1, head1, ok1, ... *)
From Coq Require Import ZArith List String.
Import ListNotations.

Inductive pbinop := OAdd | OSub | OMul | ODiv | OOr | OAnd.          (* + - * / | &   on uint *)
Inductive pcmpop := OLt | OGt | OLe | OGe | OEq | ONe.

Inductive pexp :=                                  (* expressions of type uint *)
| ELit (n : nat)
| EVar (x : string)
| EDefault                                         (* c.defaultCapacity_ *)
| ESize (x : string)                               (* uint(x.GetSize()) *)
| ECap (x : string)                                (* x.GetCapacity() *)
| EBin (op : pbinop) (a b : pexp).

Inductive pcond :=
| CCmp (op : pcmpop) (a b : pexp)
| CVar (x : string)                                (* a bool local: ok *)
| CHasNext (it : string)                           (* it.HasNext() *)
| CIsDefined (x : string)                          (* inspector.IsDefined(x) *)
| CIsEmpty (x : string)                            (* x.IsEmpty() *)
| CNot (c : pcond)
| COr (a b : pcond)
| CAnd (a b : pcond).

Inductive pstmt :=
| PVar (x : string) (e : pexp)                     (* var x = e  /  var x uint  /  x := e *)
| PAssign (x : string) (e : pexp)                  (* x = e   (x op= e  is  x = x op e) *)
| PInc (x : string)                                (* x++ *)
| PIf (c : pcond) (yes no : list pstmt)
| PWhile (c : pcond) (body : list pstmt)           (* for c { … } *)
| PFor (init : list pstmt) (c : pcond) (post body : list pstmt)   (* for init; c; post { … } *)
| PForever (body : list pstmt)                     (* for { … } *)
| PBreak
| PPanic                                           (* panic("…") *)
| PMakeChan (x : string) (e : pexp)                (* var x = make(chan bool, e) *)
| PMakeList (x : string)                           (* var x = List[V](c.notation_).Make() *)
| PMakeQueues (x : string)                         (* var x = List[QueueLike[V]](c.notation_).Make() *)
| PReturnQueue (ch cap ls : string)                (* return &queue_[V]{class_: c, <chan>: ch, <capacity>: cap, <list>: ls}  (fields by type) *)
| PWrapArray (x a : string)                        (* var x = Array[V](c.notation_).MakeFromArray(a) *)
| PReturnFromSequence (x : string)                 (* return c.MakeFromSequence(x) *)
| PMakeQueue (x : string) (e : pexp)               (* var x = c.MakeWithCapacity(e) *)
| PAppendMakeQueue (l : string) (e : pexp)         (* l.AppendValue(c.MakeWithCapacity(e)) *)
| PAppend (l x : string)                           (* l.AppendValue(x) *)
| PInspector (x : string)                          (* var x = age.Inspector().Make() *)
| PGetIterator (it x : string)                     (* var it = x.GetIterator() *)
| PGetNext (x it : string)                         (* var x = it.GetNext() *)
| PToStart (it : string)                           (* it.ToStart() *)
| PVarCapNext (x it : string)                      (* var x = it.GetNext().GetCapacity() *)
| PAddValue (q v : string)                         (* q.AddValue(v) *)
| PRemoveHead (v ok q : string)                    (* var v, ok = q.RemoveHead() *)
| PCloseQueue (q : string)                         (* q.CloseQueue() *)
| PGroupAdd (n : nat)                              (* group.Add(n) *)
| PDeferDone                                       (* defer group.Done() *)
| PYield (kind : Z)                                (* verifYield(kind, nil) *)
| PGo (body : list pstmt)                          (* go func() { … }() *)
| PReturn (x : string)                             (* return x *)
| PUnknown (text : string).                        (* anything else: no meaning *)
