(* C02.v — Set stays strictly ordered, duplicate-free and equal to the mathematical set
   Statements only: every theorem is closed by [exact] of a lemma proved elsewhere, and its
   axioms are printed.  Generated once by tools/mkprop.py from the proved lemmas' statements. *)
From Verif Require Import Base Seq Coll SetProofs.

Theorem C02_search_terminates_for_every_ranker :
  forall (A : Type) (zero : A) (rank : A -> A -> comparison) (l : list A) (v : A),
         exists (k : nat) (b : bool),
           find_index zero rank l v = Ret (k, b) /\ k <= length l /\ (b = true -> 1 <= k).
Proof. exact find_index_returns. Qed.

Theorem C02_search_found :
  forall (A : Type) (zero : A) (rank : A -> A -> comparison),
         total_preorder A rank ->
         forall (l : list A) (v : A) (k : nat),
         StrictSorted A rank l ->
         find_index zero rank l v = Ret (k, true) ->
         1 <= k <= length l /\ rank v (nth (k - 1) l zero) = Eq.
Proof. exact find_index_found. Qed.

Theorem C02_search_absent :
  forall (A : Type) (zero : A) (rank : A -> A -> comparison),
         total_preorder A rank ->
         forall (l : list A) (v : A) (s : nat),
         StrictSorted A rank l ->
         find_index zero rank l v = Ret (s, false) ->
         s <= length l /\
         (forall j : nat, j < s -> rank (nth j l zero) v = Lt) /\
         (forall j : nat, s <= j < length l -> rank v (nth j l zero) = Lt).
Proof. exact find_index_absent. Qed.

Theorem C02_search_iff_member :
  forall (A : Type) (zero : A) (rank : A -> A -> comparison),
         total_preorder A rank ->
         forall (l : list A) (v : A),
         StrictSorted A rank l ->
         mem A rank v l <-> (exists k : nat, find_index zero rank l v = Ret (k, true)).
Proof. exact find_index_iff_mem. Qed.

Theorem C02_add :
  forall (A : Type) (zero : A) (rank : A -> A -> comparison),
         total_preorder A rank ->
         forall (l : list A) (v : A),
         StrictSorted A rank l ->
         exists l' : list A,
           set_add zero rank l v = Ret l' /\
           StrictSorted A rank l' /\
           (forall x : A, mem A rank x l' <-> equiv A rank x v \/ mem A rank x l) /\
           (mem A rank v l -> l' = l) /\ (~ mem A rank v l -> Permutation.Permutation l' (v :: l)).
Proof. exact set_add_spec. Qed.

Theorem C02_remove :
  forall (A : Type) (zero : A) (rank : A -> A -> comparison),
         total_preorder A rank ->
         forall (l : list A) (v : A),
         StrictSorted A rank l ->
         exists l' : list A,
           set_remove zero rank l v = Ret l' /\
           StrictSorted A rank l' /\
           (forall x : A, mem A rank x l' <-> mem A rank x l /\ ~ equiv A rank x v) /\
           (forall y : A, In y l' -> In y l) /\ (~ mem A rank v l -> l' = l).
Proof. exact set_remove_spec. Qed.

Theorem C02_equal_ranked_stored_once :
  forall (A : Type) (zero : A) (rank : A -> A -> comparison),
         total_preorder A rank ->
         forall (l : list A) (i j : nat),
         StrictSorted A rank l ->
         i < length l -> j < length l -> rank (nth i l zero) (nth j l zero) = Eq -> i = j.
Proof. exact strict_sorted_unique. Qed.

Theorem C02_every_history_strictly_ordered :
  forall (A : Type) (zero : A) (rank : A -> A -> comparison),
         total_preorder A rank ->
         forall (ops : list (sop A)) (l : list A),
         StrictSorted A rank l ->
         exists l' : list A, srun A zero rank l ops = Ret l' /\ StrictSorted A rank l'.
Proof. exact C02_inv. Qed.

Theorem C02_every_history_is_the_mathematical_set :
  forall (A : Type) (zero : A) (rank : A -> A -> comparison),
         total_preorder A rank ->
         forall (ops : list (sop A)) (l l' : list A),
         StrictSorted A rank l ->
         srun A zero rank l ops = Ret l' ->
         forall (x : A) (m : bool),
         mem A rank x l <-> m = true -> mem A rank x l' <-> spec_member A rank ops x m = true.
Proof. exact C02_membership. Qed.

Theorem C02_from_empty :
  forall (A : Type) (zero : A) (rank : A -> A -> comparison),
         total_preorder A rank ->
         forall (ops : list (sop A)) (l' : list A),
         srun A zero rank [] ops = Ret l' ->
         forall x : A, mem A rank x l' <-> spec_member A rank ops x false = true.
Proof. exact C02_membership_empty. Qed.

Theorem C02_contains_value :
  forall (A : Type) (zero : A) (rank : A -> A -> comparison),
         total_preorder A rank ->
         forall (l : list A) (v : A),
         StrictSorted A rank l ->
         exists b : bool, set_contains zero rank l v = Ret b /\ (b = true <-> mem A rank v l).
Proof. exact set_contains_spec. Qed.

Theorem C02_get_index_agrees_with_order :
  forall (A : Type) (zero : A) (rank : A -> A -> comparison),
         total_preorder A rank ->
         forall (l : list A) (v : A),
         StrictSorted A rank l ->
         exists n : nat,
           set_get_index zero rank l v = Ret n /\
           (n = 0 <-> ~ mem A rank v l) /\
           (forall k : nat, n = S k -> k < length l /\ rank v (nth k l zero) = Eq) /\
           (forall k : nat, k < length l -> rank v (nth k l zero) = Eq -> n = S k).
Proof. exact set_get_index_spec. Qed.

Theorem C02_contains_any :
  forall (A : Type) (zero : A) (rank : A -> A -> comparison),
         total_preorder A rank ->
         forall l vs : list A,
         StrictSorted A rank l ->
         exists b : bool,
           set_contains_any zero rank l vs = Ret b /\
           (b = true <-> (exists v : A, In v vs /\ mem A rank v l)).
Proof. exact set_contains_any_spec. Qed.

Theorem C02_contains_all :
  forall (A : Type) (zero : A) (rank : A -> A -> comparison),
         total_preorder A rank ->
         forall l vs : list A,
         StrictSorted A rank l ->
         exists b : bool,
           set_contains_all zero rank l vs = Ret b /\
           (b = true <-> (forall v : A, In v vs -> mem A rank v l)).
Proof. exact set_contains_all_spec. Qed.


Print Assumptions C02_search_terminates_for_every_ranker.
Print Assumptions C02_search_found.
Print Assumptions C02_search_absent.
Print Assumptions C02_search_iff_member.
Print Assumptions C02_add.
Print Assumptions C02_remove.
Print Assumptions C02_equal_ranked_stored_once.
Print Assumptions C02_every_history_strictly_ordered.
Print Assumptions C02_every_history_is_the_mathematical_set.
Print Assumptions C02_from_empty.
Print Assumptions C02_contains_value.
Print Assumptions C02_get_index_agrees_with_order.
Print Assumptions C02_contains_any.
Print Assumptions C02_contains_all.
