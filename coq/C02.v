(* C02.v — Set stays strictly ordered, duplicate-free and equal to the mathematical set
   Statements only: every theorem is closed by [exact] of a lemma proved elsewhere, and its
   axioms are printed.  Generated once by tools/mkprop.py from the proved lemmas' statements. 
   Round 2 (polish): an [Example] of non-vacuity beside every theorem (concrete states from SetProofs2.v,
   hypotheses established by computation, conclusion obtained by applying the theorem), and the
   C02_default_collator_* theorems: the same statements for the REAL default collator's ranking
   [rkU M] on the universe [U M] (well-formed values within the depth limit M), where the hypothesis
   [total_preorder] is discharged (CollateUse.rank_total_preorder_for_sets); and the C02_raw_default_*
   theorems: the same for [Pool.rk_default] on RAW values — the ranking the pool model executes for a
   Set with the default collator — under [Forall inUd] (inUd v := inU cmax v = true; SetTransfer.v). *)
From Verif Require Import Base Sorter SorterProofs2 Seq Coll SetProofs Value Pool CollateRank CollateUse SetProofs2 SetTransfer CoarseProofs.

Theorem C02_search_terminates_for_every_ranker :
  forall (A : Type) (zero : A) (rank : A -> A -> comparison) (l : list A) (v : A),
         exists (k : nat) (b : bool),
           find_index zero rank l v = Ret (k, b) /\ k <= length l /\ (b = true -> 1 <= k).
Proof. exact find_index_returns. Qed.

(* non-vacuity: inconsistent rankers (always Greater / always Lesser) still get a slot in 0..size *)
Example C02_search_terminates_example :
  find_index 0%Z (fun _ _ => Gt) ex_set 25%Z = Ret (4, false) /\
  find_index 0%Z (fun _ _ => Lt) ex_set 25%Z = Ret (0, false).
Proof. split; vm_compute; reflexivity. Qed.

Theorem C02_search_found :
  forall (A : Type) (zero : A) (rank : A -> A -> comparison),
         total_preorder A rank ->
         forall (l : list A) (v : A) (k : nat),
         StrictSorted A rank l ->
         find_index zero rank l v = Ret (k, true) ->
         1 <= k <= length l /\ rank v (nth (k - 1) l zero) = Eq.
Proof. exact find_index_found. Qed.

(* non-vacuity: ex_set = [5;17;31;48] under the coarse ranker x/10; 39 ranks equal to 31 (ordinal 3) *)
Example C02_search_found_example :
  total_preorder Z coarseZ /\ StrictSorted Z coarseZ ex_set /\
  find_index 0%Z coarseZ ex_set 39%Z = Ret (3, true) /\
  (1 <= 3 <= length ex_set /\ coarseZ 39%Z (nth (3 - 1) ex_set 0%Z) = Eq).
Proof.
  split; [exact coarseZ_total_preorder|]. split; [apply strict_sortedb_ok; vm_compute; reflexivity|].
  split; [vm_compute; reflexivity|].
  apply (C02_search_found Z 0%Z coarseZ coarseZ_total_preorder ex_set 39%Z 3 (strict_sortedb_ok Z coarseZ ex_set eq_refl)). vm_compute; reflexivity.
Qed.

Theorem C02_search_absent :
  forall (A : Type) (zero : A) (rank : A -> A -> comparison),
         total_preorder A rank ->
         forall (l : list A) (v : A) (s : nat),
         StrictSorted A rank l ->
         find_index zero rank l v = Ret (s, false) ->
         s <= length l /\
         (forall j : nat, j < s -> rank (nth j l zero) v = Lt) /\
         (forall j : nat, s <= j < length l -> rank v (nth j l zero) = Lt).
Proof. exact find_index_absent. Qed.

(* non-vacuity: 25 (class 2) is absent; the slot 2 separates the smaller from the larger members *)
Example C02_search_absent_example :
  total_preorder Z coarseZ /\ StrictSorted Z coarseZ ex_set /\
  find_index 0%Z coarseZ ex_set 25%Z = Ret (2, false) /\
  (2 <= length ex_set /\
   (forall j : nat, j < 2 -> coarseZ (nth j ex_set 0%Z) 25%Z = Lt) /\
   (forall j : nat, 2 <= j < length ex_set -> coarseZ 25%Z (nth j ex_set 0%Z) = Lt)).
Proof.
  split; [exact coarseZ_total_preorder|]. split; [apply strict_sortedb_ok; vm_compute; reflexivity|].
  split; [vm_compute; reflexivity|].
  apply (C02_search_absent Z 0%Z coarseZ coarseZ_total_preorder ex_set 25%Z 2 (strict_sortedb_ok Z coarseZ ex_set eq_refl)). vm_compute; reflexivity.
Qed.

Theorem C02_search_iff_member :
  forall (A : Type) (zero : A) (rank : A -> A -> comparison),
         total_preorder A rank ->
         forall (l : list A) (v : A),
         StrictSorted A rank l ->
         mem A rank v l <-> (exists k : nat, find_index zero rank l v = Ret (k, true)).
Proof. exact find_index_iff_mem. Qed.

Example C02_search_iff_member_example :
  total_preorder Z coarseZ /\ StrictSorted Z coarseZ ex_set /\
  mem Z coarseZ 39%Z ex_set /\ ~ mem Z coarseZ 25%Z ex_set /\
  (exists k : nat, find_index 0%Z coarseZ ex_set 39%Z = Ret (k, true)) /\
  ~ (exists k : nat, find_index 0%Z coarseZ ex_set 25%Z = Ret (k, true)).
Proof.
  split; [exact coarseZ_total_preorder|]. split; [apply strict_sortedb_ok; vm_compute; reflexivity|].
  assert (M1 : mem Z coarseZ 39%Z ex_set) by (apply memb_ok; vm_compute; reflexivity).
  assert (M2 : ~ mem Z coarseZ 25%Z ex_set) by (apply memb_false; vm_compute; reflexivity).
  split; [exact M1|]. split; [exact M2|]. split.
  - apply (C02_search_iff_member Z 0%Z coarseZ coarseZ_total_preorder ex_set 39%Z (strict_sortedb_ok Z coarseZ ex_set eq_refl)). exact M1.
  - intros H. apply M2. apply (C02_search_iff_member Z 0%Z coarseZ coarseZ_total_preorder ex_set 25%Z (strict_sortedb_ok Z coarseZ ex_set eq_refl)). exact H.
Qed.

Theorem C02_add :
  forall (A : Type) (zero : A) (rank : A -> A -> comparison),
         total_preorder A rank ->
         forall (l : list A) (v : A),
         StrictSorted A rank l ->
         exists l' : list A,
           set_add zero rank l v = Ret l' /\
           StrictSorted A rank l' /\
           (forall x : A, mem A rank x l' <-> equiv A rank x v \/ mem A rank x l) /\
           (mem A rank v l -> l' = l) /\ (~ mem A rank v l -> Permutation.Permutation l' (v :: l)).
Proof. exact set_add_spec. Qed.

(* non-vacuity: adding 25 inserts it between 17 and 31; adding 12 (rank-equal to 17) changes nothing *)
Example C02_add_example :
  total_preorder Z coarseZ /\ StrictSorted Z coarseZ ex_set /\
  set_add 0%Z coarseZ ex_set 25%Z = Ret [5; 17; 25; 31; 48]%Z /\
  StrictSorted Z coarseZ [5; 17; 25; 31; 48]%Z /\
  set_add 0%Z coarseZ ex_set 12%Z = Ret ex_set /\
  (exists l' : list Z, set_add 0%Z coarseZ ex_set 25%Z = Ret l' /\ StrictSorted Z coarseZ l' /\
     forall x : Z, mem Z coarseZ x l' <-> equiv Z coarseZ x 25%Z \/ mem Z coarseZ x ex_set).
Proof.
  split; [exact coarseZ_total_preorder|]. split; [apply strict_sortedb_ok; vm_compute; reflexivity|].
  split; [vm_compute; reflexivity|]. split; [apply strict_sortedb_ok; vm_compute; reflexivity|]. split; [vm_compute; reflexivity|].
  destruct (C02_add Z 0%Z coarseZ coarseZ_total_preorder ex_set 25%Z (strict_sortedb_ok Z coarseZ ex_set eq_refl)) as [l' [E [S [Mm _]]]].
  exists l'. auto.
Qed.

Theorem C02_remove :
  forall (A : Type) (zero : A) (rank : A -> A -> comparison),
         total_preorder A rank ->
         forall (l : list A) (v : A),
         StrictSorted A rank l ->
         exists l' : list A,
           set_remove zero rank l v = Ret l' /\
           StrictSorted A rank l' /\
           (forall x : A, mem A rank x l' <-> mem A rank x l /\ ~ equiv A rank x v) /\
           (forall y : A, In y l' -> In y l) /\ (~ mem A rank v l -> l' = l).
Proof. exact set_remove_spec. Qed.

(* non-vacuity: removing 12 deletes its rank-equal member 17; removing the absent 25 changes nothing *)
Example C02_remove_example :
  total_preorder Z coarseZ /\ StrictSorted Z coarseZ ex_set /\
  set_remove 0%Z coarseZ ex_set 12%Z = Ret [5; 31; 48]%Z /\
  set_remove 0%Z coarseZ ex_set 25%Z = Ret ex_set /\
  (exists l' : list Z, set_remove 0%Z coarseZ ex_set 12%Z = Ret l' /\ StrictSorted Z coarseZ l' /\
     forall x : Z, mem Z coarseZ x l' <-> mem Z coarseZ x ex_set /\ ~ equiv Z coarseZ x 12%Z).
Proof.
  split; [exact coarseZ_total_preorder|]. split; [apply strict_sortedb_ok; vm_compute; reflexivity|].
  split; [vm_compute; reflexivity|]. split; [vm_compute; reflexivity|].
  destruct (C02_remove Z 0%Z coarseZ coarseZ_total_preorder ex_set 12%Z (strict_sortedb_ok Z coarseZ ex_set eq_refl)) as [l' [E [S [Mm _]]]].
  exists l'. auto.
Qed.

Theorem C02_equal_ranked_stored_once :
  forall (A : Type) (zero : A) (rank : A -> A -> comparison),
         total_preorder A rank ->
         forall (l : list A) (i j : nat),
         StrictSorted A rank l ->
         i < length l -> j < length l -> rank (nth i l zero) (nth j l zero) = Eq -> i = j.
Proof. exact strict_sorted_unique. Qed.

Example C02_equal_ranked_stored_once_example :
  total_preorder Z coarseZ /\ StrictSorted Z coarseZ ex_set /\
  (forall i j : nat, i < 4 -> j < 4 -> coarseZ (nth i ex_set 0%Z) (nth j ex_set 0%Z) = Eq -> i = j).
Proof.
  split; [exact coarseZ_total_preorder|]. split; [apply strict_sortedb_ok; vm_compute; reflexivity|].
  intros i j Hi Hj. apply (C02_equal_ranked_stored_once Z 0%Z coarseZ coarseZ_total_preorder ex_set i j (strict_sortedb_ok Z coarseZ ex_set eq_refl)); exact Hi || exact Hj.
Qed.

Theorem C02_every_history_strictly_ordered :
  forall (A : Type) (zero : A) (rank : A -> A -> comparison),
         total_preorder A rank ->
         forall (ops : list (sop A)) (l : list A),
         StrictSorted A rank l ->
         exists l' : list A, srun A zero rank l ops = Ret l' /\ StrictSorted A rank l'.
Proof. exact C02_inv. Qed.

(* non-vacuity: the 6-operation history ex_ops (SAdd 25; SAddAll [7;31;12;18]; SRemove 39; SAdd 44;
   SRemoveAll [0;99]; SAdd 13) from the empty set and from ex_set; a history with a clear *)
Example C02_every_history_strictly_ordered_example :
  total_preorder Z coarseZ /\ StrictSorted Z coarseZ ex_set /\
  srun Z 0%Z coarseZ [] ex_ops = Ret [12; 25; 44]%Z /\ StrictSorted Z coarseZ [12; 25; 44]%Z /\
  srun Z 0%Z coarseZ ex_set ex_ops = Ret [17; 25; 48]%Z /\ StrictSorted Z coarseZ [17; 25; 48]%Z /\
  srun Z 0%Z coarseZ [] ex_ops_clear = Ret [35]%Z /\
  (exists l' : list Z, srun Z 0%Z coarseZ ex_set ex_ops = Ret l' /\ StrictSorted Z coarseZ l').
Proof.
  split; [exact coarseZ_total_preorder|]. split; [apply strict_sortedb_ok; vm_compute; reflexivity|].
  split; [vm_compute; reflexivity|]. split; [apply strict_sortedb_ok; vm_compute; reflexivity|].
  split; [vm_compute; reflexivity|]. split; [apply strict_sortedb_ok; vm_compute; reflexivity|]. split; [vm_compute; reflexivity|].
  exact (C02_every_history_strictly_ordered Z 0%Z coarseZ coarseZ_total_preorder ex_ops ex_set (strict_sortedb_ok Z coarseZ ex_set eq_refl)).
Qed.

Theorem C02_every_history_is_the_mathematical_set :
  forall (A : Type) (zero : A) (rank : A -> A -> comparison),
         total_preorder A rank ->
         forall (ops : list (sop A)) (l l' : list A),
         StrictSorted A rank l ->
         srun A zero rank l ops = Ret l' ->
         forall (x : A) (m : bool),
         mem A rank x l <-> m = true -> mem A rank x l' <-> spec_member A rank ops x m = true.
Proof. exact C02_membership. Qed.

(* non-vacuity: from ex_set, after ex_ops the members are exactly those of the mathematical set; e.g.
   19 (equal to the initial 17) is a member, 33 is not (31 was removed through its equal 39) *)
Example C02_every_history_is_the_mathematical_set_example :
  total_preorder Z coarseZ /\ StrictSorted Z coarseZ ex_set /\
  srun Z 0%Z coarseZ ex_set ex_ops = Ret [17; 25; 48]%Z /\
  (forall x : Z, mem Z coarseZ x [17; 25; 48]%Z <->
                 spec_member Z coarseZ ex_ops x (memb coarseZ x ex_set) = true) /\
  spec_member Z coarseZ ex_ops 19%Z (memb coarseZ 19%Z ex_set) = true /\
  spec_member Z coarseZ ex_ops 33%Z (memb coarseZ 33%Z ex_set) = false.
Proof.
  split; [exact coarseZ_total_preorder|]. split; [apply strict_sortedb_ok; vm_compute; reflexivity|].
  split; [vm_compute; reflexivity|]. split; [|split; vm_compute; reflexivity].
  intros x. apply (C02_every_history_is_the_mathematical_set Z 0%Z coarseZ coarseZ_total_preorder ex_ops ex_set [17; 25; 48]%Z (strict_sortedb_ok Z coarseZ ex_set eq_refl)).
  - vm_compute; reflexivity.
  - symmetry. apply memb_ok.
Qed.

Theorem C02_from_empty :
  forall (A : Type) (zero : A) (rank : A -> A -> comparison),
         total_preorder A rank ->
         forall (ops : list (sop A)) (l' : list A),
         srun A zero rank [] ops = Ret l' ->
         forall x : A, mem A rank x l' <-> spec_member A rank ops x false = true.
Proof. exact C02_membership_empty. Qed.

(* non-vacuity: 7 was added and later removed through its equal 0; 49 is a member through 44 *)
Example C02_from_empty_example :
  total_preorder Z coarseZ /\ srun Z 0%Z coarseZ [] ex_ops = Ret [12; 25; 44]%Z /\
  (forall x : Z, mem Z coarseZ x [12; 25; 44]%Z <-> spec_member Z coarseZ ex_ops x false = true) /\
  spec_member Z coarseZ ex_ops 49%Z false = true /\ spec_member Z coarseZ ex_ops 7%Z false = false.
Proof.
  split; [exact coarseZ_total_preorder|]. split; [vm_compute; reflexivity|]. split; [|split; vm_compute; reflexivity].
  apply (C02_from_empty Z 0%Z coarseZ coarseZ_total_preorder ex_ops). vm_compute; reflexivity.
Qed.

Theorem C02_contains_value :
  forall (A : Type) (zero : A) (rank : A -> A -> comparison),
         total_preorder A rank ->
         forall (l : list A) (v : A),
         StrictSorted A rank l ->
         exists b : bool, set_contains zero rank l v = Ret b /\ (b = true <-> mem A rank v l).
Proof. exact set_contains_spec. Qed.

Example C02_contains_value_example :
  total_preorder Z coarseZ /\ StrictSorted Z coarseZ ex_set /\
  set_contains 0%Z coarseZ ex_set 39%Z = Ret true /\ set_contains 0%Z coarseZ ex_set 25%Z = Ret false /\
  (exists b : bool, set_contains 0%Z coarseZ ex_set 39%Z = Ret b /\ (b = true <-> mem Z coarseZ 39%Z ex_set)).
Proof.
  split; [exact coarseZ_total_preorder|]. split; [apply strict_sortedb_ok; vm_compute; reflexivity|].
  split; [vm_compute; reflexivity|]. split; [vm_compute; reflexivity|].
  exact (C02_contains_value Z 0%Z coarseZ coarseZ_total_preorder ex_set 39%Z (strict_sortedb_ok Z coarseZ ex_set eq_refl)).
Qed.

Theorem C02_get_index_agrees_with_order :
  forall (A : Type) (zero : A) (rank : A -> A -> comparison),
         total_preorder A rank ->
         forall (l : list A) (v : A),
         StrictSorted A rank l ->
         exists n : nat,
           set_get_index zero rank l v = Ret n /\
           (n = 0 <-> ~ mem A rank v l) /\
           (forall k : nat, n = S k -> k < length l /\ rank v (nth k l zero) = Eq) /\
           (forall k : nat, k < length l -> rank v (nth k l zero) = Eq -> n = S k).
Proof. exact set_get_index_spec. Qed.

(* non-vacuity: GetIndex(39) = 3 and GetValue(3) = 31 ranks equal to 39; GetIndex(25) = 0 *)
Example C02_get_index_agrees_with_order_example :
  total_preorder Z coarseZ /\ StrictSorted Z coarseZ ex_set /\
  set_get_index 0%Z coarseZ ex_set 39%Z = Ret 3 /\ coarseZ 39%Z (nth 2 ex_set 0%Z) = Eq /\
  set_get_index 0%Z coarseZ ex_set 25%Z = Ret 0 /\
  (exists n : nat, set_get_index 0%Z coarseZ ex_set 25%Z = Ret n /\ (n = 0 <-> ~ mem Z coarseZ 25%Z ex_set)).
Proof.
  split; [exact coarseZ_total_preorder|]. split; [apply strict_sortedb_ok; vm_compute; reflexivity|].
  split; [vm_compute; reflexivity|]. split; [vm_compute; reflexivity|]. split; [vm_compute; reflexivity|].
  destruct (C02_get_index_agrees_with_order Z 0%Z coarseZ coarseZ_total_preorder ex_set 25%Z (strict_sortedb_ok Z coarseZ ex_set eq_refl)) as [n [E [Z0 _]]].
  exists n. auto.
Qed.

Theorem C02_contains_any :
  forall (A : Type) (zero : A) (rank : A -> A -> comparison),
         total_preorder A rank ->
         forall l vs : list A,
         StrictSorted A rank l ->
         exists b : bool,
           set_contains_any zero rank l vs = Ret b /\
           (b = true <-> (exists v : A, In v vs /\ mem A rank v l)).
Proof. exact set_contains_any_spec. Qed.

Example C02_contains_any_example :
  total_preorder Z coarseZ /\ StrictSorted Z coarseZ ex_set /\
  set_contains_any 0%Z coarseZ ex_set [25; 60; 39]%Z = Ret true /\
  set_contains_any 0%Z coarseZ ex_set [25; 60]%Z = Ret false /\
  (exists b : bool, set_contains_any 0%Z coarseZ ex_set [25; 60]%Z = Ret b /\
     (b = true <-> (exists v : Z, In v [25; 60]%Z /\ mem Z coarseZ v ex_set))).
Proof.
  split; [exact coarseZ_total_preorder|]. split; [apply strict_sortedb_ok; vm_compute; reflexivity|].
  split; [vm_compute; reflexivity|]. split; [vm_compute; reflexivity|].
  exact (C02_contains_any Z 0%Z coarseZ coarseZ_total_preorder ex_set [25; 60]%Z (strict_sortedb_ok Z coarseZ ex_set eq_refl)).
Qed.

Theorem C02_contains_all :
  forall (A : Type) (zero : A) (rank : A -> A -> comparison),
         total_preorder A rank ->
         forall l vs : list A,
         StrictSorted A rank l ->
         exists b : bool,
           set_contains_all zero rank l vs = Ret b /\
           (b = true <-> (forall v : A, In v vs -> mem A rank v l)).
Proof. exact set_contains_all_spec. Qed.

Example C02_contains_all_example :
  total_preorder Z coarseZ /\ StrictSorted Z coarseZ ex_set /\
  set_contains_all 0%Z coarseZ ex_set [39; 10; 5]%Z = Ret true /\
  set_contains_all 0%Z coarseZ ex_set [39; 25]%Z = Ret false /\
  (exists b : bool, set_contains_all 0%Z coarseZ ex_set [39; 10; 5]%Z = Ret b /\
     (b = true <-> (forall v : Z, In v [39; 10; 5]%Z -> mem Z coarseZ v ex_set))).
Proof.
  split; [exact coarseZ_total_preorder|]. split; [apply strict_sortedb_ok; vm_compute; reflexivity|].
  split; [vm_compute; reflexivity|]. split; [vm_compute; reflexivity|].
  exact (C02_contains_all Z 0%Z coarseZ coarseZ_total_preorder ex_set [39; 10; 5]%Z (strict_sortedb_ok Z coarseZ ex_set eq_refl)).
Qed.

Theorem C02_default_collator_search_found :
  forall (M : nat) (zero : U M),
         forall (l : list (U M)) (v : (U M)) (k : nat),
         StrictSorted (U M) (rkU M) l ->
         find_index zero (rkU M) l v = Ret (k, true) ->
         1 <= k <= length l /\ (rkU M) v (nth (k - 1) l zero) = Eq.
Proof. exact dc_search_found. Qed.

Theorem C02_default_collator_search_absent :
  forall (M : nat) (zero : U M),
         forall (l : list (U M)) (v : (U M)) (s : nat),
         StrictSorted (U M) (rkU M) l ->
         find_index zero (rkU M) l v = Ret (s, false) ->
         s <= length l /\
         (forall j : nat, j < s -> (rkU M) (nth j l zero) v = Lt) /\
         (forall j : nat, s <= j < length l -> (rkU M) v (nth j l zero) = Lt).
Proof. exact dc_search_absent. Qed.

Theorem C02_default_collator_search_iff_member :
  forall (M : nat) (zero : U M),
         forall (l : list (U M)) (v : (U M)),
         StrictSorted (U M) (rkU M) l ->
         mem (U M) (rkU M) v l <-> (exists k : nat, find_index zero (rkU M) l v = Ret (k, true)).
Proof. exact dc_search_iff_member. Qed.

Theorem C02_default_collator_add :
  forall (M : nat) (zero : U M),
         forall (l : list (U M)) (v : (U M)),
         StrictSorted (U M) (rkU M) l ->
         exists l' : list (U M),
           set_add zero (rkU M) l v = Ret l' /\
           StrictSorted (U M) (rkU M) l' /\
           (forall x : (U M), mem (U M) (rkU M) x l' <-> equiv (U M) (rkU M) x v \/ mem (U M) (rkU M) x l) /\
           (mem (U M) (rkU M) v l -> l' = l) /\ (~ mem (U M) (rkU M) v l -> Permutation.Permutation l' (v :: l)).
Proof. exact dc_add. Qed.

Theorem C02_default_collator_remove :
  forall (M : nat) (zero : U M),
         forall (l : list (U M)) (v : (U M)),
         StrictSorted (U M) (rkU M) l ->
         exists l' : list (U M),
           set_remove zero (rkU M) l v = Ret l' /\
           StrictSorted (U M) (rkU M) l' /\
           (forall x : (U M), mem (U M) (rkU M) x l' <-> mem (U M) (rkU M) x l /\ ~ equiv (U M) (rkU M) x v) /\
           (forall y : (U M), In y l' -> In y l) /\ (~ mem (U M) (rkU M) v l -> l' = l).
Proof. exact dc_remove. Qed.

Theorem C02_default_collator_equal_ranked_stored_once :
  forall (M : nat) (zero : U M),
         forall (l : list (U M)) (i j : nat),
         StrictSorted (U M) (rkU M) l ->
         i < length l -> j < length l -> (rkU M) (nth i l zero) (nth j l zero) = Eq -> i = j.
Proof. exact dc_stored_once. Qed.

Theorem C02_default_collator_every_history_strictly_ordered :
  forall (M : nat) (zero : U M),
         forall (ops : list (sop (U M))) (l : list (U M)),
         StrictSorted (U M) (rkU M) l ->
         exists l' : list (U M), srun (U M) zero (rkU M) l ops = Ret l' /\ StrictSorted (U M) (rkU M) l'.
Proof. exact dc_history_strictly_ordered. Qed.

(* non-vacuity for the default-collator theorems: a set of Go ints 3, 7, 20 (universe members at depth
   limit 5) ordered by the real ranking; adding 10 inserts it, adding 7 again changes nothing, and a
   history over it keeps the order *)
Example C02_default_collator_example :
  StrictSorted (U 5) (rkU 5) [u_int 5 3; u_int 5 7; u_int 5 20] /\
  set_add (u_nil 5) (rkU 5) [u_int 5 3; u_int 5 7; u_int 5 20] (u_int 5 10)
    = Ret [u_int 5 3; u_int 5 7; u_int 5 10; u_int 5 20] /\
  set_add (u_nil 5) (rkU 5) [u_int 5 3; u_int 5 7; u_int 5 20] (u_int 5 7)
    = Ret [u_int 5 3; u_int 5 7; u_int 5 20] /\
  srun (U 5) (u_nil 5) (rkU 5) [u_int 5 3; u_int 5 7; u_int 5 20]
       [SAdd _ (u_int 5 10); SRemoveAll _ [u_int 5 3; u_int 5 4]; SAddAll _ [u_str 5 [97; 98]%Z; u_int 5 (-1)]]
    = Ret [u_int 5 (-1); u_int 5 7; u_int 5 10; u_int 5 20; u_str 5 [97; 98]%Z] /\
  (exists l' : list (U 5),
     srun (U 5) (u_nil 5) (rkU 5) [u_int 5 3; u_int 5 7; u_int 5 20]
       [SAdd _ (u_int 5 10); SRemoveAll _ [u_int 5 3; u_int 5 4]; SAddAll _ [u_str 5 [97; 98]%Z; u_int 5 (-1)]] = Ret l' /\
     StrictSorted (U 5) (rkU 5) l').
Proof.
  assert (S : StrictSorted (U 5) (rkU 5) [u_int 5 3; u_int 5 7; u_int 5 20]) by (apply strict_sortedb_ok; vm_compute; reflexivity).
  split; [exact S|]. split; [vm_compute; reflexivity|]. split; [vm_compute; reflexivity|]. split; [vm_compute; reflexivity|].
  exact (C02_default_collator_every_history_strictly_ordered 5 (u_nil 5) _ _ S).
Qed.

Theorem C02_default_collator_every_history_is_the_mathematical_set :
  forall (M : nat) (zero : U M),
         forall (ops : list (sop (U M))) (l l' : list (U M)),
         StrictSorted (U M) (rkU M) l ->
         srun (U M) zero (rkU M) l ops = Ret l' ->
         forall (x : (U M)) (m : bool),
         mem (U M) (rkU M) x l <-> m = true -> mem (U M) (rkU M) x l' <-> spec_member (U M) (rkU M) ops x m = true.
Proof. exact dc_history_membership. Qed.

Theorem C02_default_collator_from_empty :
  forall (M : nat) (zero : U M),
         forall (ops : list (sop (U M))) (l' : list (U M)),
         srun (U M) zero (rkU M) [] ops = Ret l' ->
         forall x : (U M), mem (U M) (rkU M) x l' <-> spec_member (U M) (rkU M) ops x false = true.
Proof. exact dc_from_empty. Qed.

Theorem C02_default_collator_contains_value :
  forall (M : nat) (zero : U M),
         forall (l : list (U M)) (v : (U M)),
         StrictSorted (U M) (rkU M) l ->
         exists b : bool, set_contains zero (rkU M) l v = Ret b /\ (b = true <-> mem (U M) (rkU M) v l).
Proof. exact dc_contains_value. Qed.

Theorem C02_default_collator_get_index_agrees_with_order :
  forall (M : nat) (zero : U M),
         forall (l : list (U M)) (v : (U M)),
         StrictSorted (U M) (rkU M) l ->
         exists n : nat,
           set_get_index zero (rkU M) l v = Ret n /\
           (n = 0 <-> ~ mem (U M) (rkU M) v l) /\
           (forall k : nat, n = S k -> k < length l /\ (rkU M) v (nth k l zero) = Eq) /\
           (forall k : nat, k < length l -> (rkU M) v (nth k l zero) = Eq -> n = S k).
Proof. exact dc_get_index. Qed.

Theorem C02_default_collator_contains_any :
  forall (M : nat) (zero : U M),
         forall l vs : list (U M),
         StrictSorted (U M) (rkU M) l ->
         exists b : bool,
           set_contains_any zero (rkU M) l vs = Ret b /\
           (b = true <-> (exists v : (U M), In v vs /\ mem (U M) (rkU M) v l)).
Proof. exact dc_contains_any. Qed.

Theorem C02_default_collator_contains_all :
  forall (M : nat) (zero : U M),
         forall l vs : list (U M),
         StrictSorted (U M) (rkU M) l ->
         exists b : bool,
           set_contains_all zero (rkU M) l vs = Ret b /\
           (b = true <-> (forall v : (U M), In v vs -> mem (U M) (rkU M) v l)).
Proof. exact dc_contains_all. Qed.

Theorem C02_raw_default_every_history :
  forall zero : val, inUd zero ->
         forall (ops : list (sop val)) (l : list val),
         Forall sop_inU ops -> Forall inUd l -> StrictSorted val Pool.rk_default l ->
         exists l' : list val,
           srun val zero Pool.rk_default l ops = Ret l' /\ Forall inUd l' /\ StrictSorted val Pool.rk_default l' /\
           (forall (x : val) (m : bool), inUd x -> (mem val Pool.rk_default x l <-> m = true) ->
              (mem val Pool.rk_default x l' <-> spec_member val Pool.rk_default ops x m = true)).
Proof. exact raw_history. Qed.

(* non-vacuity: a Set of []int values ([1], [1 2], [3]) under the ranking the pool model executes for the
   default collator; the history adds [0 9], removes [1] and the absent [7], adds [], [1 2] (duplicate), [2] *)
Example C02_raw_default_every_history_example :
  inUd VNilSlice /\ Forall sop_inU ex_raw_ops /\ Forall inUd ex_raw_set /\ StrictSorted val Pool.rk_default ex_raw_set /\
  srun val VNilSlice Pool.rk_default ex_raw_set ex_raw_ops = Ret [sl []; sl [0; 9]; sl [1; 2]; sl [2]; sl [3]]%Z /\
  (exists l' : list val, srun val VNilSlice Pool.rk_default ex_raw_set ex_raw_ops = Ret l' /\ Forall inUd l' /\
     StrictSorted val Pool.rk_default l').
Proof.
  assert (Z0 : inUd VNilSlice) by (vm_compute; reflexivity).
  assert (O : Forall sop_inU ex_raw_ops) by (apply sop_inU_check; vm_compute; reflexivity).
  assert (I : Forall inUd ex_raw_set) by (apply inUd_check; vm_compute; reflexivity).
  assert (S : StrictSorted val Pool.rk_default ex_raw_set) by (apply strict_sortedb_ok; vm_compute; reflexivity).
  split; [exact Z0|]. split; [exact O|]. split; [exact I|]. split; [exact S|]. split; [vm_compute; reflexivity|].
  destruct (C02_raw_default_every_history VNilSlice Z0 ex_raw_ops ex_raw_set O I S) as [l' [E [I' [S' _]]]].
  exists l'. auto.
Qed.

Theorem C02_raw_default_add :
  forall zero : val, inUd zero ->
         forall (l : list val) (v : val),
         Forall inUd l -> inUd v -> StrictSorted val Pool.rk_default l ->
         exists l' : list val,
           set_add zero Pool.rk_default l v = Ret l' /\ Forall inUd l' /\ StrictSorted val Pool.rk_default l' /\
           (forall x : val, inUd x -> (mem val Pool.rk_default x l' <-> equiv val Pool.rk_default x v \/ mem val Pool.rk_default x l)) /\
           (mem val Pool.rk_default v l -> l' = l) /\ (~ mem val Pool.rk_default v l -> Permutation.Permutation l' (v :: l)).
Proof. exact raw_add. Qed.

Example C02_raw_default_add_example :
  Forall inUd ex_raw_set /\ inUd (sl [2]%Z) /\ StrictSorted val Pool.rk_default ex_raw_set /\
  set_add VNilSlice Pool.rk_default ex_raw_set (sl [2]%Z) = Ret [sl [1]; sl [1; 2]; sl [2]; sl [3]]%Z.
Proof.
  split; [apply inUd_check; vm_compute; reflexivity|]. split; [vm_compute; reflexivity|].
  split; [apply strict_sortedb_ok; vm_compute; reflexivity|]. vm_compute; reflexivity.
Qed.

Theorem C02_raw_default_remove :
  forall zero : val, inUd zero ->
         forall (l : list val) (v : val),
         Forall inUd l -> inUd v -> StrictSorted val Pool.rk_default l ->
         exists l' : list val,
           set_remove zero Pool.rk_default l v = Ret l' /\ Forall inUd l' /\ StrictSorted val Pool.rk_default l' /\
           (forall x : val, inUd x -> (mem val Pool.rk_default x l' <-> mem val Pool.rk_default x l /\ ~ equiv val Pool.rk_default x v)) /\
           (forall y : val, In y l' -> In y l) /\ (~ mem val Pool.rk_default v l -> l' = l).
Proof. exact raw_remove. Qed.

Theorem C02_raw_default_get_index :
  forall zero : val, inUd zero ->
         forall (l : list val) (v : val),
         Forall inUd l -> inUd v -> StrictSorted val Pool.rk_default l ->
         exists n : nat,
           set_get_index zero Pool.rk_default l v = Ret n /\
           (n = 0 <-> ~ mem val Pool.rk_default v l) /\
           (forall k : nat, n = S k -> k < length l /\ Pool.rk_default v (nth k l zero) = Eq) /\
           (forall k : nat, k < length l -> Pool.rk_default v (nth k l zero) = Eq -> n = S k).
Proof. exact raw_get_index. Qed.

Theorem C02_raw_default_contains_value :
  forall zero : val, inUd zero ->
         forall (l : list val) (v : val),
         Forall inUd l -> inUd v -> StrictSorted val Pool.rk_default l ->
         exists b : bool, set_contains zero Pool.rk_default l v = Ret b /\ (b = true <-> mem val Pool.rk_default v l).
Proof. exact raw_contains. Qed.

Theorem C02_get_index_agrees_with_get_value :
  forall (A : Type) (zero : A) (rank : A -> A -> comparison),
         total_preorder A rank ->
         forall (l : list A) (v : A),
         StrictSorted A rank l ->
         exists n : nat,
           set_get_index zero rank l v = Ret n /\
           (n = 0 <-> ~ mem A rank v l) /\
           (0 < n -> exists w : A, get_value zero l (Z.of_nat n) = Ret w /\ rank v w = Eq) /\
           (forall (k : nat) (w : A), get_value zero l (Z.of_nat (S k)) = Ret w -> rank v w = Eq -> n = S k).
Proof. exact get_index_agrees_with_get_value. Qed.

(* non-vacuity: GetIndex(39) = 3 and GetValue(3) returns 31, which ranks equal to 39 *)
Example C02_get_index_agrees_with_get_value_example :
  total_preorder Z coarseZ /\ StrictSorted Z coarseZ ex_set /\
  set_get_index 0%Z coarseZ ex_set 39%Z = Ret 3 /\ get_value 0%Z ex_set 3%Z = Ret 31%Z /\ coarseZ 39%Z 31%Z = Eq /\
  get_value 0%Z ex_set (-2)%Z = Ret 31%Z.
Proof.
  split; [exact coarseZ_total_preorder|]. split; [apply strict_sortedb_ok; vm_compute; reflexivity|].
  repeat split; vm_compute; reflexivity.
Qed.

Theorem C02_default_collator_get_index_agrees_with_get_value :
  forall (M : nat) (zero : U M),
         forall (l : list (U M)) (v : (U M)),
         StrictSorted (U M) (rkU M) l ->
         exists n : nat,
           set_get_index zero (rkU M) l v = Ret n /\
           (n = 0 <-> ~ mem (U M) (rkU M) v l) /\
           (0 < n -> exists w : (U M), get_value zero l (Z.of_nat n) = Ret w /\ (rkU M) v w = Eq) /\
           (forall (k : nat) (w : (U M)), get_value zero l (Z.of_nat (S k)) = Ret w -> (rkU M) v w = Eq -> n = S k).
Proof. exact dc_get_index_get_value. Qed.

Theorem C02_default_collator_reversed_history_strictly_ordered :
  forall (M : nat) (zero : U M),
         forall (ops : list (sop (U M))) (l : list (U M)),
         StrictSorted (U M) (fun a b : U M => rkU M b a) l ->
         exists l' : list (U M), srun (U M) zero (fun a b : U M => rkU M b a) l ops = Ret l' /\ StrictSorted (U M) (fun a b : U M => rkU M b a) l'.
Proof. exact dc_rev_history_strictly_ordered. Qed.

(* non-vacuity: the reversed default ranking keeps Go ints in descending order *)
Example C02_default_collator_reversed_example :
  StrictSorted (U 5) (fun a b => rkU 5 b a) [u_int 5 20; u_int 5 7; u_int 5 3] /\
  srun (U 5) (u_nil 5) (fun a b => rkU 5 b a) [u_int 5 20; u_int 5 7; u_int 5 3]
       [SAdd _ (u_int 5 10); SRemove _ (u_int 5 3); SAdd _ (u_int 5 7)]
    = Ret [u_int 5 20; u_int 5 10; u_int 5 7].
Proof. split; [apply strict_sortedb_ok; vm_compute; reflexivity|vm_compute; reflexivity]. Qed.

Theorem C02_default_collator_reversed_history_is_the_mathematical_set :
  forall (M : nat) (zero : U M),
         forall (ops : list (sop (U M))) (l l' : list (U M)),
         StrictSorted (U M) (fun a b : U M => rkU M b a) l ->
         srun (U M) zero (fun a b : U M => rkU M b a) l ops = Ret l' ->
         forall (x : (U M)) (m : bool),
         mem (U M) (fun a b : U M => rkU M b a) x l <-> m = true -> mem (U M) (fun a b : U M => rkU M b a) x l' <-> spec_member (U M) (fun a b : U M => rkU M b a) ops x m = true.
Proof. exact dc_rev_history_membership. Qed.


(* ====================================================================================================
   Round 3: the coarse collator of the correspondence (Pool.rk_coarse = harness rankWith case 2: integers
   by floor(x/4), strings by length, every other pair — in particular every pair of DIFFERENT kinds under
   element type `any` — by the default ranking) is a total preorder on the universe of the default
   collator, so the caller-supplied-collator hypothesis of the Set theorems holds for it, mixed kinds included
   ([rkc a b := rk_coarse (pU a) (pU b)] on universe members).
   ==================================================================================================== *)
Theorem C02_coarse_collator_is_a_total_preorder : total_preorder (U cmax) rkc.
Proof. exact rk_coarse_total_preorder_for_sets. Qed.

Theorem C02_coarse_collator_every_history_strictly_ordered :
  forall (zero : U cmax) (ops : list (sop (U cmax))) (l : list (U cmax)),
  StrictSorted (U cmax) rkc l ->
  exists l' : list (U cmax), srun (U cmax) zero rkc l ops = Ret l' /\ StrictSorted (U cmax) rkc l'.
Proof. exact coarse_history_strictly_ordered. Qed.

(* non-vacuity: a mixed `any` sample (nil, bool, float, four ints, a rune, two strings, an unsigned) lies in
   the universe and is ascending under the coarse ranking; 1 and 2 are rank-equal (same x/4), -3 is below
   (floor division), "x" is below "ab" (length), every int is below every string *)
Example C02_coarse_collator_example :
  forallb (inU cmax) ex_mixed = true /\ ascendingb rk_coarse ex_mixed = true /\
  rk_coarse (VInt 64 1) (VInt 64 2) = Eq /\ rk_coarse (VInt 64 (-3)) (VInt 64 1) = Lt /\
  rk_coarse (VStr [120]%Z) (VStr [97; 98]%Z) = Lt /\ rk_coarse (VInt 64 9) (VStr [120]%Z) = Lt /\
  rk_coarse (VStr [120]%Z) (VInt 64 9) = Gt /\ rk_coarse (VFloat 64 0) (VInt 64 (-3)) = Lt.
Proof. repeat split; vm_compute; reflexivity. Qed.

Print Assumptions C02_search_terminates_for_every_ranker.
Print Assumptions C02_search_found.
Print Assumptions C02_search_absent.
Print Assumptions C02_search_iff_member.
Print Assumptions C02_add.
Print Assumptions C02_remove.
Print Assumptions C02_equal_ranked_stored_once.
Print Assumptions C02_every_history_strictly_ordered.
Print Assumptions C02_every_history_is_the_mathematical_set.
Print Assumptions C02_from_empty.
Print Assumptions C02_contains_value.
Print Assumptions C02_get_index_agrees_with_order.
Print Assumptions C02_contains_any.
Print Assumptions C02_contains_all.
Print Assumptions C02_default_collator_search_found.
Print Assumptions C02_default_collator_search_absent.
Print Assumptions C02_default_collator_search_iff_member.
Print Assumptions C02_default_collator_add.
Print Assumptions C02_default_collator_remove.
Print Assumptions C02_default_collator_equal_ranked_stored_once.
Print Assumptions C02_default_collator_every_history_strictly_ordered.
Print Assumptions C02_default_collator_every_history_is_the_mathematical_set.
Print Assumptions C02_default_collator_from_empty.
Print Assumptions C02_default_collator_contains_value.
Print Assumptions C02_default_collator_get_index_agrees_with_order.
Print Assumptions C02_default_collator_contains_any.
Print Assumptions C02_default_collator_contains_all.
Print Assumptions C02_raw_default_every_history.
Print Assumptions C02_raw_default_add.
Print Assumptions C02_raw_default_remove.
Print Assumptions C02_raw_default_get_index.
Print Assumptions C02_raw_default_contains_value.
Print Assumptions C02_get_index_agrees_with_get_value.
Print Assumptions C02_default_collator_get_index_agrees_with_get_value.
Print Assumptions C02_default_collator_reversed_history_strictly_ordered.
Print Assumptions C02_default_collator_reversed_history_is_the_mathematical_set.
Print Assumptions C02_coarse_collator_is_a_total_preorder.
Print Assumptions C02_coarse_collator_every_history_strictly_ordered.
