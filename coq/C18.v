(* C18.v — Go arrays and maps crossing the API are copied, never aliased
   Statements only: every theorem is closed by [exact] of a lemma proved elsewhere, and its
   axioms are printed.  Generated once by tools/mkprop.py from the proved lemmas' statements. *)
From Verif Require Import Base Sorter Value Seq Coll Pool PoolFrame.

Theorem C18_step_changes_only_its_receiver :
  forall (zero : val) (p : pool) (o : op) (p' : pool) (r : ret),
         step zero p o = (p', r) ->
         (length p <= length p' <= S (length p))%nat /\
         (forall i : nat, (i < length p)%nat -> writes o <> Some i -> nth i p' ODead = nth i p ODead).
Proof. exact step_frame. Qed.

Theorem C18_failed_call_changes_nothing :
  forall (zero : val) (p : pool) (o : op) (p' : pool) (r : ret),
         step zero p o = (p', r) -> r = RPanic \/ r = RHang \/ r = RBad -> p' = p.
Proof. exact step_panic_frame. Qed.

Theorem C18_history_frame :
  forall (zero : val) (ops : list op) (p : list obj) (i : nat),
         (i < length p)%nat ->
         (forall o : op, In o ops -> writes o <> Some i) ->
         nth i (run zero p ops) ODead = nth i p ODead.
Proof. exact run_frame. Qed.

Theorem C18_product_independent_of_source :
  forall (zero : val) (p : pool) (o : op) (p' : pool) (r : ret) (ops : list op) (src : nat),
         step zero p o = (p', r) ->
         r = RNew ->
         writes o <> Some src ->
         (src < length p)%nat ->
         (forall o' : op, In o' ops -> writes o' = Some src \/ writes o' = None) ->
         src <> (length p' - 1)%nat ->
         nth (length p' - 1) (run zero p' ops) ODead = nth (length p' - 1) p' ODead.
Proof. exact product_independent_of_source. Qed.

Theorem C18_source_independent_of_product :
  forall (zero : val) (p : pool) (o : op) (p' : pool) (r : ret) (ops : list op) (src : nat),
         step zero p o = (p', r) ->
         r = RNew ->
         writes o <> Some src ->
         (src < length p)%nat ->
         (forall o' : op, In o' ops -> writes o' = Some (length p' - 1)%nat \/ writes o' = None) ->
         src <> (length p' - 1)%nat -> nth src (run zero p' ops) ODead = nth src p ODead.
Proof. exact source_independent_of_product. Qed.

Theorem C18_iterator_snapshot_stable :
  forall (zero : val) (ops : list op) (p : list obj) (i : nat) (z : val) 
           (s : list val) (k : nat),
         nth i p ODead = OIter z s k -> exists k' : nat, nth i (run zero p ops) ODead = OIter z s k'.
Proof. exact iter_snapshot_stable. Qed.

Theorem C18_self_append :
  forall (zero : val) (p : list obj) (o c : nat),
         o <> c ->
         (c < length p)%nat ->
         seq_plain (get p c) = seq_plain (get p o) ->
         nth o (fst (step zero p (AppendValues o o))) ODead =
         nth o (fst (step zero p (AppendValues o c))) ODead /\
         snd (step zero p (AppendValues o o)) = snd (step zero p (AppendValues o c)).
Proof. exact self_operand_append. Qed.

Theorem C18_self_insert :
  forall (zero : val) (p : list obj) (o c slot : nat),
         o <> c ->
         (c < length p)%nat ->
         seq_plain (get p c) = seq_plain (get p o) ->
         nth o (fst (step zero p (InsertValues o slot o))) ODead =
         nth o (fst (step zero p (InsertValues o slot c))) ODead /\
         snd (step zero p (InsertValues o slot o)) = snd (step zero p (InsertValues o slot c)).
Proof. exact self_operand_insert. Qed.

Theorem C18_self_set :
  forall (zero : val) (p : list obj) (o c : nat) (i : Z),
         o <> c ->
         (c < length p)%nat ->
         seq_plain (get p c) = seq_plain (get p o) ->
         nth o (fst (step zero p (SetValues o i o))) ODead =
         nth o (fst (step zero p (SetValues o i c))) ODead /\
         snd (step zero p (SetValues o i o)) = snd (step zero p (SetValues o i c)).
Proof. exact self_operand_set. Qed.

Theorem C18_self_add :
  forall (zero : val) (p : list obj) (o c : nat),
         o <> c ->
         (c < length p)%nat ->
         seq_plain (get p c) = seq_plain (get p o) ->
         nth o (fst (step zero p (AddValues o o))) ODead =
         nth o (fst (step zero p (AddValues o c))) ODead /\
         snd (step zero p (AddValues o o)) = snd (step zero p (AddValues o c)).
Proof. exact self_operand_add. Qed.

Theorem C18_self_remove :
  forall (zero : val) (p : list obj) (o c : nat),
         o <> c ->
         (c < length p)%nat ->
         seq_plain (get p c) = seq_plain (get p o) ->
         nth o (fst (step zero p (DelValues o o))) ODead =
         nth o (fst (step zero p (DelValues o c))) ODead /\
         snd (step zero p (DelValues o o)) = snd (step zero p (DelValues o c)).
Proof. exact self_operand_del. Qed.


Print Assumptions C18_step_changes_only_its_receiver.
Print Assumptions C18_failed_call_changes_nothing.
Print Assumptions C18_history_frame.
Print Assumptions C18_product_independent_of_source.
Print Assumptions C18_source_independent_of_product.
Print Assumptions C18_iterator_snapshot_stable.
Print Assumptions C18_self_append.
Print Assumptions C18_self_insert.
Print Assumptions C18_self_set.
Print Assumptions C18_self_add.
Print Assumptions C18_self_remove.
