(* C18.v — Go arrays and maps crossing the API are copied, never aliased
   Statements only: every theorem is closed by [exact] of a lemma proved elsewhere, and its
   axioms are printed.  Generated once by tools/mkprop.py from the proved lemmas' statements. 
   Round 2 (polish): [Example]s of non-vacuity (data in PoolFrame2.v: a history in which a Go slice is written after
   the constructors copied it, returned arrays are written, the collection is mutated) and, from
   C18_new_object_is_appended on, the frame theorem stated per API entry point (PoolFrame2.v). *)
From Verif Require Import Base Sorter Value Seq Coll Pool PoolFrame PoolFrame2 ParamsFoot AliasFacts AliasProofs.

Theorem C18_step_changes_only_its_receiver :
  forall (zero : val) (p : pool) (o : op) (p' : pool) (r : ret),
         step zero p o = (p', r) ->
         (length p <= length p' <= S (length p))%nat /\
         (forall i : nat, (i < length p)%nat -> writes o <> Some i -> nth i p' ODead = nth i p ODead).
Proof. exact step_frame. Qed.

(* non-vacuity: the history ex_alias_ops — a Go slice [1;2;3]; a List, a Set and a Stack constructed from it (slots 1-3);
   the caller's slice is then overwritten at every position; AsArray of the list (slot 4) is written; the list is
   mutated; GetValues (slot 5) and RemoveValues (slot 6) results; a returned Array is written; AppendValues with the
   receiver as its own operand.  The collections still hold 1,2,3 after the slice became 7,8,9, the returned arrays are
   not affected by later mutation of the list and vice versa. *)
Example C18_history_example :
  run (wi 0) [] ex_alias_ops =
    [OSlice [wi 7; wi 8; wi 9]; OLst [wi 3; wi 4; wi 3; wi 4]; OSet 0 [wi 1; wi 2; wi 3]; OStk default_stack_cap [wi 1; wi 2; wi 3];
     OSlice [wi 5; wi 2; wi 3]; OArr [wi 0; wi 2]; OArr [wi 1; wi 2]].
Proof. vm_compute; reflexivity. Qed.

Theorem C18_failed_call_changes_nothing :
  forall (zero : val) (p : pool) (o : op) (p' : pool) (r : ret),
         step zero p o = (p', r) -> r = RPanic \/ r = RHang \/ r = RBad -> p' = p.
Proof. exact step_panic_frame. Qed.

Example C18_failed_call_changes_nothing_example :
  step (wi 0) [OLst [wi 1; wi 2]; OSlice [wi 1]] (SetValues 0 2 0) = ([OLst [wi 1; wi 2]; OSlice [wi 1]], RPanic) /\
  step (wi 0) [OLst [wi 1; wi 2]; OSlice [wi 1]] (GetValues 0 2 5) = ([OLst [wi 1; wi 2]; OSlice [wi 1]], RPanic) /\
  step (wi 0) [OLst [wi 1; wi 2]; OSlice [wi 1]] (InsertValue 1 0 (wi 3)) = ([OLst [wi 1; wi 2]; OSlice [wi 1]], RBad).
Proof. repeat split; vm_compute; reflexivity. Qed.

Theorem C18_history_frame :
  forall (zero : val) (ops : list op) (p : list obj) (i : nat),
         (i < length p)%nat ->
         (forall o : op, In o ops -> writes o <> Some i) ->
         nth i (run zero p ops) ODead = nth i p ODead.
Proof. exact run_frame. Qed.

(* non-vacuity: ops addressing only the list (slot 1) leave the caller's slice (slot 0) unchanged *)
Example C18_history_frame_example :
  (0 < length [OSlice [wi 1]; OLst [wi 1]])%nat /\
  (forall o : op, In o [AppendValue 1 (wi 2); RemoveAll 1] -> writes o <> Some 0%nat) /\
  nth 0 (run (wi 0) [OSlice [wi 1]; OLst [wi 1]] [AppendValue 1 (wi 2); RemoveAll 1]) ODead = OSlice [wi 1].
Proof.
  assert (H : forall o : op, In o [AppendValue 1 (wi 2); RemoveAll 1] -> writes o <> Some 0%nat).
  { intros o [<-|[<-|[]]]; discriminate. }
  split; [vm_compute; lia|]. split; [exact H|].
  apply (C18_history_frame (wi 0) _ [OSlice [wi 1]; OLst [wi 1]] 0%nat); [vm_compute; lia|exact H].
Qed.

Theorem C18_product_independent_of_source :
  forall (zero : val) (p : pool) (o : op) (p' : pool) (r : ret) (ops : list op) (src : nat),
         step zero p o = (p', r) ->
         r = RNew ->
         writes o <> Some src ->
         (src < length p)%nat ->
         (forall o' : op, In o' ops -> writes o' = Some src \/ writes o' = None) ->
         src <> (length p' - 1)%nat ->
         nth (length p' - 1) (run zero p' ops) ODead = nth (length p' - 1) p' ODead.
Proof. exact product_independent_of_source. Qed.

(* non-vacuity: a Map built from a Go map; the Go map is then changed and a key deleted, then the Map is changed *)
Example C18_go_map_example :
  run (wi 0) [] ex_gomap_ops =
    [OGoMap [(VStr [97]%Z, wi 9)]; OMap [(VStr [97]%Z, wi 1); (VStr [98]%Z, wi 2); (VStr [99]%Z, wi 3)]].
Proof. vm_compute; reflexivity. Qed.

Theorem C18_source_independent_of_product :
  forall (zero : val) (p : pool) (o : op) (p' : pool) (r : ret) (ops : list op) (src : nat),
         step zero p o = (p', r) ->
         r = RNew ->
         writes o <> Some src ->
         (src < length p)%nat ->
         (forall o' : op, In o' ops -> writes o' = Some (length p' - 1)%nat \/ writes o' = None) ->
         src <> (length p' - 1)%nat -> nth src (run zero p' ops) ODead = nth src p ODead.
Proof. exact source_independent_of_product. Qed.

(* non-vacuity: AsArray of a list, then writes through the returned array: the list is unchanged *)
Example C18_source_independent_of_product_example :
  step (wi 0) [OLst [wi 1; wi 2]] (AsArray 0 []) = ([OLst [wi 1; wi 2]; OSlice [wi 1; wi 2]], RNew) /\
  writes (AsArray 0 []) <> Some 0%nat /\
  nth 0 (run (wi 0) [OLst [wi 1; wi 2]; OSlice [wi 1; wi 2]] [SliceSet 1 0 (wi 9); SliceSet 1 1 (wi 9)]) ODead = OLst [wi 1; wi 2].
Proof. split; [vm_compute; reflexivity|]. split; [discriminate|vm_compute; reflexivity]. Qed.

Theorem C18_iterator_snapshot_stable :
  forall (zero : val) (ops : list op) (p : list obj) (i : nat) (z : val) 
           (s : list val) (k : nat),
         nth i p ODead = OIter z s k -> exists k' : nat, nth i (run zero p ops) ODead = OIter z s k'.
Proof. exact iter_snapshot_stable. Qed.

Example C18_iterator_snapshot_stable_example :
  nth 1 [OLst [wi 1; wi 2]; OIter (wi 0) [wi 1; wi 2] 0] ODead = OIter (wi 0) [wi 1; wi 2] 0 /\
  nth 1 (run (wi 0) [OLst [wi 1; wi 2]; OIter (wi 0) [wi 1; wi 2] 0] [RemoveAll 0; INext 1; AppendValue 0 (wi 5)]) ODead
    = OIter (wi 0) [wi 1; wi 2] 1.
Proof. split; [reflexivity|vm_compute; reflexivity]. Qed.

Theorem C18_self_append :
  forall (zero : val) (p : list obj) (o c : nat),
         o <> c ->
         (c < length p)%nat ->
         seq_plain (get p c) = seq_plain (get p o) ->
         nth o (fst (step zero p (AppendValues o o))) ODead =
         nth o (fst (step zero p (AppendValues o c))) ODead /\
         snd (step zero p (AppendValues o o)) = snd (step zero p (AppendValues o c)).
Proof. exact self_operand_append. Qed.

(* non-vacuity: a list and a separate copy of it (slot 1): appending the list to itself = appending the copy *)
Example C18_self_append_example :
  (0 <> 1)%nat /\ (1 < length [OLst [wi 1; wi 2]; OLst [wi 1; wi 2]])%nat /\
  seq_plain (get [OLst [wi 1; wi 2]; OLst [wi 1; wi 2]] 1) = seq_plain (get [OLst [wi 1; wi 2]; OLst [wi 1; wi 2]] 0) /\
  nth 0 (fst (step (wi 0) [OLst [wi 1; wi 2]; OLst [wi 1; wi 2]] (AppendValues 0 0))) ODead = OLst [wi 1; wi 2; wi 1; wi 2] /\
  nth 0 (fst (step (wi 0) [OLst [wi 1; wi 2]; OLst [wi 1; wi 2]] (AppendValues 0 1))) ODead = OLst [wi 1; wi 2; wi 1; wi 2].
Proof. split; [discriminate|]. split; [vm_compute; lia|]. repeat split; vm_compute; reflexivity. Qed.

Theorem C18_self_insert :
  forall (zero : val) (p : list obj) (o c slot : nat),
         o <> c ->
         (c < length p)%nat ->
         seq_plain (get p c) = seq_plain (get p o) ->
         nth o (fst (step zero p (InsertValues o slot o))) ODead =
         nth o (fst (step zero p (InsertValues o slot c))) ODead /\
         snd (step zero p (InsertValues o slot o)) = snd (step zero p (InsertValues o slot c)).
Proof. exact self_operand_insert. Qed.

Example C18_self_insert_example :
  nth 0 (fst (step (wi 0) [OLst [wi 1; wi 2]; OLst [wi 1; wi 2]] (InsertValues 0 1 0))) ODead = OLst [wi 1; wi 1; wi 2; wi 2] /\
  nth 0 (fst (step (wi 0) [OLst [wi 1; wi 2]; OLst [wi 1; wi 2]] (InsertValues 0 1 1))) ODead = OLst [wi 1; wi 1; wi 2; wi 2].
Proof. split; vm_compute; reflexivity. Qed.

Theorem C18_self_set :
  forall (zero : val) (p : list obj) (o c : nat) (i : Z),
         o <> c ->
         (c < length p)%nat ->
         seq_plain (get p c) = seq_plain (get p o) ->
         nth o (fst (step zero p (SetValues o i o))) ODead =
         nth o (fst (step zero p (SetValues o i c))) ODead /\
         snd (step zero p (SetValues o i o)) = snd (step zero p (SetValues o i c)).
Proof. exact self_operand_set. Qed.

Example C18_self_set_example :
  nth 0 (fst (step (wi 0) [OLst [wi 1; wi 2]; OLst [wi 1; wi 2]] (SetValues 0 1 0))) ODead = OLst [wi 1; wi 2] /\
  nth 0 (fst (step (wi 0) [OLst [wi 1; wi 2]; OLst [wi 1; wi 2]] (SetValues 0 1 1))) ODead = OLst [wi 1; wi 2] /\
  snd (step (wi 0) [OLst [wi 1; wi 2]; OLst [wi 1; wi 2]] (SetValues 0 2 0)) = RPanic /\
  snd (step (wi 0) [OLst [wi 1; wi 2]; OLst [wi 1; wi 2]] (SetValues 0 2 1)) = RPanic.
Proof. repeat split; vm_compute; reflexivity. Qed.

Theorem C18_self_add :
  forall (zero : val) (p : list obj) (o c : nat),
         o <> c ->
         (c < length p)%nat ->
         seq_plain (get p c) = seq_plain (get p o) ->
         nth o (fst (step zero p (AddValues o o))) ODead =
         nth o (fst (step zero p (AddValues o c))) ODead /\
         snd (step zero p (AddValues o o)) = snd (step zero p (AddValues o c)).
Proof. exact self_operand_add. Qed.

Example C18_self_add_remove_example :
  nth 0 (fst (step (wi 0) [OSet 0 [wi 1; wi 2]; OSet 0 [wi 1; wi 2]] (AddValues 0 0))) ODead = OSet 0 [wi 1; wi 2] /\
  nth 0 (fst (step (wi 0) [OSet 0 [wi 1; wi 2]; OSet 0 [wi 1; wi 2]] (DelValues 0 0))) ODead = OSet 0 [] /\
  nth 0 (fst (step (wi 0) [OSet 0 [wi 1; wi 2]; OSet 0 [wi 1; wi 2]] (DelValues 0 1))) ODead = OSet 0 [].
Proof. repeat split; vm_compute; reflexivity. Qed.

Theorem C18_self_remove :
  forall (zero : val) (p : list obj) (o c : nat),
         o <> c ->
         (c < length p)%nat ->
         seq_plain (get p c) = seq_plain (get p o) ->
         nth o (fst (step zero p (DelValues o o))) ODead =
         nth o (fst (step zero p (DelValues o c))) ODead /\
         snd (step zero p (DelValues o o)) = snd (step zero p (DelValues o c)).
Proof. exact self_operand_del. Qed.

Theorem C18_new_object_is_appended :
  forall (zero : val) (p : pool) (o : op) (p' : pool),
         step zero p o = (p', RNew) -> length p' = S (length p).
Proof. exact new_object_is_appended. Qed.

Theorem C18_new_object_call_frame :
  forall (zero : val) (p : pool) (o : op) (p' : pool),
         step zero p o = (p', RNew) ->
         forall i : nat, (i < length p)%nat -> writes o <> Some i -> nth i p' ODead = nth i p ODead.
Proof. exact new_object_call_frame. Qed.

Theorem C18_product_survives_writes_to_old_objects :
  forall (zero : val) (p : pool) (o : op) (p' : pool) (ops : list op),
         step zero p o = (p', RNew) ->
         (forall (o' : op) (w : nat), In o' ops -> writes o' = Some w -> (w < length p)%nat) ->
         nth (length p) (run zero p' ops) ODead = nth (length p) p' ODead.
Proof. exact product_survives_writes_to_old_objects. Qed.

Theorem C18_source_survives_writes_to_the_product :
  forall (zero : val) (p : pool) (o : op) (p' : pool) (ops : list op) (src : nat),
         step zero p o = (p', RNew) ->
         (src < length p)%nat ->
         writes o <> Some src ->
         (forall o' : op, In o' ops -> writes o' <> Some src) ->
         nth src (run zero p' ops) ODead = nth src p ODead.
Proof. exact source_survives_writes_to_the_product. Qed.

Theorem C18_entry_from_array :
  forall (zero : val) (p : pool) (k : ckind) (src : nat) (l : list val),
         get p src = OSlice l ->
         writes (FromArray k src) = None /\
         step zero p (FromArray k src) =
         match build zero k l with
         | Ret x => (p ++ [x], RNew)
         | Panic => (p, RPanic)
         | Hang => (p, RHang)
         end.
Proof. exact entry_from_array. Qed.

Theorem C18_entry_from_sequence :
  forall (zero : val) (p : pool) (k : ckind) (src : nat) (okeys l : list val),
         seq_view (get p src) okeys = Some l ->
         writes (FromSeq k src okeys) = None /\
         step zero p (FromSeq k src okeys) =
         match build zero k l with
         | Ret x => (p ++ [x], RNew)
         | Panic => (p, RPanic)
         | Hang => (p, RHang)
         end.
Proof. exact entry_from_sequence. Qed.

Theorem C18_entry_from_map :
  forall (zero : val) (p : pool) (src : nat) (okeys : list val) (m m' : list (val * val)),
         get p src = OGoMap m ->
         reorder m okeys = Some m' ->
         writes (FromMap CMap src okeys) = None /\
         writes (FromMap CCatalog src okeys) = None /\
         step zero p (FromMap CMap src okeys) = (p ++ [OMap m'], RNew) /\
         step zero p (FromMap CCatalog src okeys) = (p ++ [OCat m'], RNew).
Proof. exact entry_from_map. Qed.

Theorem C18_entry_as_array :
  forall (zero : val) (p : pool) (o : nat) (okeys l : list val),
         seq_view (get p o) okeys = Some l ->
         writes (AsArray o okeys) = None /\ step zero p (AsArray o okeys) = (p ++ [OSlice l], RNew).
Proof. exact entry_as_array. Qed.

Theorem C18_entry_get_values :
  forall (zero : val) (p : pool) (o : nat) (i j : Z) (l : list val),
         get p o = OLst l \/ get p o = OArr l \/ (exists c : nat, get p o = OSet c l) ->
         writes (GetValues o i j) = None /\
         step zero p (GetValues o i j) =
         match get_values l i j with
         | Ret r => (p ++ [OArr r], RNew)
         | Panic => (p, RPanic)
         | Hang => (p, RHang)
         end.
Proof. exact entry_get_values. Qed.

Theorem C18_entry_get_keys :
  forall (zero : val) (p : pool) (o : nat) (okeys : list val) (m : list (val * val)),
         get p o = OCat m ->
         writes (AKeys o okeys) = None /\
         step zero p (AKeys o okeys) = (p ++ [OLst (map fst m)], RNew).
Proof. exact entry_get_keys. Qed.

Theorem C18_entry_get_keys_map :
  forall (zero : val) (p : pool) (o : nat) (okeys : list val) (m m' : list (val * val)),
         get p o = OMap m ->
         reorder m okeys = Some m' ->
         writes (AKeys o okeys) = None /\
         step zero p (AKeys o okeys) = (p ++ [OArr (map fst m')], RNew).
Proof. exact entry_get_keys_map. Qed.

Theorem C18_entry_remove_values :
  forall (zero : val) (p : pool) (o : nat) (i j : Z) (l : list val),
         get p o = OLst l ->
         writes (RemoveValues o i j) = Some o /\
         step zero p (RemoveValues o i j) =
         match remove_values l i j with
         | Ret r => (put p o (OLst (snd r)) ++ [OArr (fst r)], RNew)
         | Panic => (p, RPanic)
         | Hang => (p, RHang)
         end.
Proof. exact entry_remove_values. Qed.

Theorem C18_entry_get_iterator :
  forall (o : nat) (okeys : list val), writes (GetIterator o okeys) = None.
Proof. exact entry_get_iterator. Qed.

Theorem C18_entry_class_functions :
  forall a b : nat,
         writes (Concat a b) = None /\
         writes (SAnd a b) = None /\
         writes (SOr a b) = None /\
         writes (SSans a b) = None /\
         writes (SXor a b) = None /\ writes (Merge a b) = None /\ writes (Extract a b) = None.
Proof. exact entry_class_functions. Qed.

Theorem C18_caller_writes_address_only_the_callers_object :
  forall (s i : nat) (v k : val),
         writes (SliceSet s i v) = Some s /\
         writes (GoMapSet s k v) = Some s /\ writes (GoMapDel s k) = Some s.
Proof. exact caller_writes_address_only_the_callers_object. Qed.

Theorem C18_slice_written_after_construction :
  forall (zero : val) (p : pool) (src : nat) (l : list val) (x : obj) (ws : list op),
         get p src = OSlice l ->
         (src < length p)%nat ->
         build zero CList l = Ret x ->
         (forall o' : op, In o' ws -> exists (i : nat) (v : val), o' = SliceSet src i v) ->
         nth (length p) (run zero (fst (step zero p (FromArray CList src))) ws) ODead = x.
Proof. exact slice_written_after_construction. Qed.

(* Round 3: writes through a returned ELEMENT object (SetValue on an association taken from AsArray()'s result) and a
   sorter instance working on the caller's own Go array address only the caller's array *)
Theorem C18_element_writes_address_only_the_callers_array :
  forall (s i : nat) (v : val) (rk : nat),
         writes (AssocSet s i v) = Some s /\ writes (SortSlice s rk) = Some s.
Proof. exact element_writes_address_only_the_callers_array. Qed.

Theorem C18_element_write_leaves_the_collection_unchanged :
  forall (zero : val) (p : pool) (s i : nat) (v : val) (p' : pool) (r : ret) (c : nat),
         step zero p (AssocSet s i v) = (p', r) -> (c < length p)%nat -> c <> s -> nth c p' ODead = nth c p ODead.
Proof. exact element_write_leaves_the_collection_unchanged. Qed.

(* non-vacuity: a Catalog {a:1}, its AsArray() (slot 1), SetValue(9) on the association object of the array: the
   array shows 9, the Catalog still 1; a sorter sorts the caller's array [3;1;2] in place *)
Example C18_element_write_example :
  run (wi 0) [] [NewSlice [VAssoc (VStr [97]%Z) (wi 1)]; FromArray CCatalog 0; AsArray 1 []; AssocSet 2 0 (wi 9)] =
    [OSlice [VAssoc (VStr [97]%Z) (wi 1)]; OCat [(VStr [97]%Z, wi 1)]; OSlice [VAssoc (VStr [97]%Z) (wi 9)]] /\
  step (wi 0) [OSlice [wi 3; wi 1; wi 2]] (SortSlice 0 0) = ([OSlice [wi 1; wi 2; wi 3]], RUnit).
Proof. split; vm_compute; reflexivity. Qed.

(* non-vacuity: the hypotheses of the scenario theorem on a concrete pool *)
Example C18_slice_written_after_construction_example :
  get [OSlice [wi 1; wi 2; wi 3]] 0 = OSlice [wi 1; wi 2; wi 3] /\ (0 < length [OSlice [wi 1; wi 2; wi 3]])%nat /\
  build (wi 0) CList [wi 1; wi 2; wi 3] = Ret (OLst [wi 1; wi 2; wi 3]) /\
  nth 1 (run (wi 0) (fst (step (wi 0) [OSlice [wi 1; wi 2; wi 3]] (FromArray CList 0)))
             [SliceSet 0 0 (wi 7); SliceSet 0 1 (wi 8); SliceSet 0 2 (wi 9)]) ODead = OLst [wi 1; wi 2; wi 3] /\
  nth 0 (run (wi 0) (fst (step (wi 0) [OSlice [wi 1; wi 2; wi 3]] (FromArray CList 0)))
             [SliceSet 0 0 (wi 7); SliceSet 0 1 (wi 8); SliceSet 0 2 (wi 9)]) ODead = OSlice [wi 7; wi 8; wi 9].
Proof. split; [reflexivity|]. split; [vm_compute; lia|]. repeat split; vm_compute; reflexivity. Qed.


(* ---- with the static aliasing extraction as the premise (closed in AliasStatic.v, compiled by ./check C18) ----
   The frame theorems above read "every object of the pool owns its storage" - true of the model by construction.
   tools/gofootprint derives the same reading for the Go code from its typed syntax trees (ParamsFoot.foot_api ...):
   with [alias_ok = true] every array or sequence the property names (AsArray, GetValues, GetKeys, RemoveValues,
   GetIterator, every constructor and class function) is memory allocated in the call and stored nowhere else (or a
   new set keeping only the collator of its operand), the rows that are not clean are exactly the reviewed agents,
   storage is written in place only by the reviewed methods and no field is set to memory that is not fresh, and no
   result contains element objects of the receiver - so that the separate objects of the pool are a faithful picture
   of the implementation's objects.  The analysis and its rules are trusted (docs/C18.md). *)
Theorem C18_static_no_shared_storage :
  alias_ok = true ->
  ((forall r, In r foot_api -> c18_named r = true -> api_is_result r = true ->
              api_clean r = true \/ keeps_only_a_collator r = true) /\
   filter (fun r => negb (api_clean r)) foot_api = expected_api_exceptions /\
   foot_storage_writes = expected_storage_writes /\ foot_field_sets = [] /\
   (forall r, In r foot_api -> contains shared_elements_phrase (api_verdict r) = false)) /\
  (forall (zero : val) (p : pool) (o : op) (p' : pool) (r : ret),
     step zero p o = (p', r) ->
     (length p <= length p' <= S (length p))%nat /\
     (forall i : nat, (i < length p)%nat -> writes o <> Some i -> nth i p' ODead = nth i p ODead)).
Proof. exact alias_static_no_shared_storage. Qed.


Print Assumptions C18_step_changes_only_its_receiver.
Print Assumptions C18_failed_call_changes_nothing.
Print Assumptions C18_history_frame.
Print Assumptions C18_product_independent_of_source.
Print Assumptions C18_source_independent_of_product.
Print Assumptions C18_iterator_snapshot_stable.
Print Assumptions C18_self_append.
Print Assumptions C18_self_insert.
Print Assumptions C18_self_set.
Print Assumptions C18_self_add.
Print Assumptions C18_self_remove.
Print Assumptions C18_new_object_is_appended.
Print Assumptions C18_new_object_call_frame.
Print Assumptions C18_product_survives_writes_to_old_objects.
Print Assumptions C18_source_survives_writes_to_the_product.
Print Assumptions C18_entry_from_array.
Print Assumptions C18_entry_from_sequence.
Print Assumptions C18_entry_from_map.
Print Assumptions C18_entry_as_array.
Print Assumptions C18_entry_get_values.
Print Assumptions C18_entry_get_keys.
Print Assumptions C18_entry_get_keys_map.
Print Assumptions C18_entry_remove_values.
Print Assumptions C18_entry_get_iterator.
Print Assumptions C18_entry_class_functions.
Print Assumptions C18_caller_writes_address_only_the_callers_object.
Print Assumptions C18_slice_written_after_construction.
Print Assumptions C18_element_writes_address_only_the_callers_array.
Print Assumptions C18_element_write_leaves_the_collection_unchanged.
Print Assumptions C18_static_no_shared_storage.
