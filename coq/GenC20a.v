(* GenC20a.v — LATE file of C20 (compiled in parallel with the other GenC20*.v): what is checked of the regenerated table by
   evaluation: the Array constructor against the model on a fixed family of argument lists (its for-all-arguments proof is
   not written yet), and the vocabulary of the table. *)
From Coq Require Import String.
From Verif Require Import Base Sorter Value Seq Coll Pool PoolRun Params Facade FacadeProofs ModuleLang ModuleSem GenModule.
Open Scope Z_scope.
Open Scope list_scope.

Definition gen_of (k : fkind) : gen_ctor :=
  match k with
  | FAssociation => gen_Association | FArray => gen_Array | FCatalog => gen_Catalog | FList => gen_List
  | FMap => gen_Map | FQueue => gen_Queue | FSet => gen_Set | FStack => gen_Stack
  end.

(* ---------- the remaining constructors: not yet proved for every argument list ---------- *)
(* Array: the regenerated constructor and the model are compared BY EVALUATION on a
   fixed family of argument lists (every argument form alone, with a notation before / after, pairs of forms in
   both orders, sources of every parsed kind with a well- and an ill-typed item) — a weaker obligation than the
   theorems above, kept until their simulation proofs are written. *)
Definition sv (z : Z) : val := VInt 64 z.
Definition sample_forms : list arg :=
  [ANotation; AInt 0; AInt 3; AUint 0; AUint 2; ASlice []; ASlice [sv 2; sv 1; sv 2]; ASeq KList []; ASeq KSet [sv 1; sv 5];
   AGoMap [] []; AGoMap [(sv 1, sv 10); (sv 2, sv 20)] [sv 2; sv 1]; AAssocSlice []; AAssocSlice [(sv 1, sv 10); (sv 1, sv 11)];
   AAssocSeq [(sv 3, sv 30); (sv 1, sv 10)] []; ACollator 1; ACollator 0; AVal (sv 7); AOther;
   AString [] PPanic; AString [65] PPanic; AString [65] (PColl (VSeq KList [sv 3; sv 1; sv 3]));
   AString [65] (PColl (VSeq KSet [sv 1; VStr [66]])); AString [65] (PColl (VSeq KSlice [sv 1]));
   AString [65] (PColl (VMapping MCatalog [sv 1; sv 2; sv 1] [sv 10; sv 20; sv 30]));
   AString [65] (PColl (VMapping MMap [sv 1; VNil] [sv 10; sv 20])); AString [65] (PColl (VSeq KQueue [VNil; sv 1]))].
Definition sample_calls : list (list arg) :=
  [[]] ++ map (fun a => [a]) sample_forms ++ map (fun a => [ANotation; a]) sample_forms ++ map (fun a => [a; ANotation]) sample_forms
  ++ flat_map (fun a => map (fun b => [a; b]) sample_forms) sample_forms.
Definition out_fobj_eqb (a : out fobj) (b : out fres) : bool :=
  match a, b with
  | Ret (FO (FObj x)), Ret (FObj y) => obj_eqb x y
  | Ret (FO (FAssoc k v)), Ret (FAssoc k' v') => val_eqb k k' && val_eqb v v'
  | Panic, Panic => true
  | Hang, Hang => true
  | _, _ => false
  end.
Definition sample_agree (k : fkind) (tk tv : ety) : bool :=
  forallb (fun args => out_fobj_eqb (run_ctor (gen_of k) tk tv args) (facade k tk tv args)) sample_calls.

Lemma gen_Array_agrees_on_samples_partial :
  forallb (fun k => sample_agree k TInt64 TInt64 && sample_agree k TAny TAny) [FArray] = true.
Proof. vm_compute. reflexivity. Qed.

(* every case type of the regenerated type switches is one the interpreter gives a meaning to *)
Lemma gen_case_types_known : forallb known_case_type (flat_map (fun g => case_types 10 (g_body g)) gen_ctors) = true.
Proof. vm_compute. reflexivity. Qed.

(* no statement or expression of the regenerated constructors is outside the language *)
Fixpoint has_unknown (fuel : nat) (ss : list mstmt) : bool :=
  match fuel with
  | O => true
  | S f => existsb (fun s => match s with
                             | SUnknown _ => true
                             | SIf _ a b => has_unknown f a || has_unknown f b
                             | SSwitch cases d => existsb (fun cb => has_unknown f (snd cb)) cases || match d with Some b => has_unknown f b | None => false end
                             | STypeSwitch cases d => existsb (fun cb => has_unknown f (snd cb)) cases || match d with Some b => has_unknown f b | None => false end
                             | SArgLoop b | SIterLoop _ b | SRange _ _ b => has_unknown f b
                             | _ => false
                             end) ss
  end.
Lemma gen_no_unknown_statement : existsb (fun g => has_unknown 10 (g_body g)) gen_ctors = false.
Proof. vm_compute. reflexivity. Qed.

Print Assumptions gen_Array_agrees_on_samples_partial.
Print Assumptions gen_case_types_known.
Print Assumptions gen_no_unknown_statement.
