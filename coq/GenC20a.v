(* GenC20a.v — LATE file of C20 (compiled in parallel with the other GenC20*.v): the vocabulary of the regenerated table (checked by evaluation):
   every case type of the type switches is one the interpreter gives a meaning to, no statement is outside the language. *)
From Coq Require Import String.
From Verif Require Import Base Sorter Value Seq Coll Pool PoolRun Params Facade FacadeProofs ModuleLang ModuleSem GenModule.
Open Scope Z_scope.
Open Scope list_scope.

Definition gen_of (k : fkind) : gen_ctor :=
  match k with
  | FAssociation => gen_Association | FArray => gen_Array | FCatalog => gen_Catalog | FList => gen_List
  | FMap => gen_Map | FQueue => gen_Queue | FSet => gen_Set | FStack => gen_Stack
  end.

(* every case type of the regenerated type switches is one the interpreter gives a meaning to *)
Lemma gen_case_types_known : forallb known_case_type (flat_map (fun g => case_types 10 (g_body g)) gen_ctors) = true.
Proof. vm_compute. reflexivity. Qed.

(* no statement or expression of the regenerated constructors is outside the language *)
Fixpoint has_unknown (fuel : nat) (ss : list mstmt) : bool :=
  match fuel with
  | O => true
  | S f => existsb (fun s => match s with
                             | SUnknown _ => true
                             | SIf _ a b => has_unknown f a || has_unknown f b
                             | SSwitch cases d => existsb (fun cb => has_unknown f (snd cb)) cases || match d with Some b => has_unknown f b | None => false end
                             | STypeSwitch cases d => existsb (fun cb => has_unknown f (snd cb)) cases || match d with Some b => has_unknown f b | None => false end
                             | SArgLoop b | SIterLoop _ b | SRange _ _ b => has_unknown f b
                             | _ => false
                             end) ss
  end.
Lemma gen_no_unknown_statement : existsb (fun g => has_unknown 10 (g_body g)) gen_ctors = false.
Proof. vm_compute. reflexivity. Qed.

Print Assumptions gen_case_types_known.
Print Assumptions gen_no_unknown_statement.
