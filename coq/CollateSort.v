(* CollateSort.v — facts about the sorter under a "strongly transitive" ranker:
   extensionality in the ranker, canonicity on pairwise-distinct inputs, and
   pointwise matching of two sorted lists whose elements correspond up to the ranker. *)
From Verif Require Import Base Sorter SorterProofs CollateOrd.
From Coq Require Import Permutation Sorted.

(* ------------------------------------------------------------------ *)
(* 1. the sorter only consults the ranker on elements of the list       *)
(* ------------------------------------------------------------------ *)

Lemma In_firstn_in {A} : forall (n : nat) (l : list A) x, In x (firstn n l) -> In x l.
Proof.
  intros n l x H. rewrite <- (firstn_skipn n l). apply in_or_app. left. exact H.
Qed.

Lemma In_skipn_in {A} : forall (n : nat) (l : list A) x, In x (skipn n l) -> In x l.
Proof.
  intros n l x H. rewrite <- (firstn_skipn n l). apply in_or_app. right. exact H.
Qed.

Lemma merge_ext : forall (A : Type) (rk1 rk2 : A -> A -> comparison) fuel (l r : list A),
  (forall x y, In x l -> In y r -> rk1 x y = rk2 x y) ->
  merge rk1 fuel l r = merge rk2 fuel l r.
Proof.
  intros A rk1 rk2. induction fuel as [|f IH]; intros l r H.
  - reflexivity.
  - destruct l as [|a l']; [reflexivity|].
    destruct r as [|b r']; [reflexivity|].
    simpl. rewrite (H a b) by (left; reflexivity).
    destruct (rk2 a b).
    + f_equal. apply IH. intros x y Hx Hy. apply H; [exact Hx|right; exact Hy].
    + f_equal. apply IH. intros x y Hx Hy. apply H; [right; exact Hx|exact Hy].
    + f_equal. apply IH. intros x y Hx Hy. apply H; [exact Hx|right; exact Hy].
Qed.

Lemma pass_ext : forall (A : Type) (rk1 rk2 : A -> A -> comparison) fuel w (l : list A),
  (forall x y, In x l -> In y l -> rk1 x y = rk2 x y) ->
  pass rk1 fuel w l = pass rk2 fuel w l.
Proof.
  intros A rk1 rk2. induction fuel as [|f IH]; intros w l H.
  - reflexivity.
  - destruct l as [|a t]; [reflexivity|].
    rewrite !pass_S_cons by discriminate.
    remember (a :: t) as l eqn:El. clear El a t.
    f_equal.
    + apply merge_ext. intros x y Hx Hy. apply H.
      * apply In_firstn_in with w. exact Hx.
      * apply In_skipn_in with w. apply In_firstn_in with w. exact Hy.
    + apply IH. intros x y Hx Hy.
      apply H; apply In_skipn_in with (2 * w); assumption.
Qed.

Lemma sort_loop_ext : forall (A : Type) (rk1 rk2 : A -> A -> comparison) fuel w (l : list A),
  (forall x y, In x l -> In y l -> rk1 x y = rk2 x y) ->
  sort_loop rk1 fuel w l = sort_loop rk2 fuel w l.
Proof.
  intros A rk1 rk2. induction fuel as [|f IH]; intros w l H.
  - reflexivity.
  - simpl. destruct (w <? length l); [|reflexivity].
    rewrite (pass_ext A rk1 rk2 (length l) w l H).
    apply IH. intros x y Hx Hy.
    apply H; apply (Permutation_in _ (pass_perm A rk2 (length l) w l)); assumption.
Qed.

Lemma sort_ext : forall (A : Type) (rk1 rk2 : A -> A -> comparison) (l : list A),
  (forall x y, In x l -> In y l -> rk1 x y = rk2 x y) ->
  sort_values rk1 l = sort_values rk2 l.
Proof.
  intros A rk1 rk2 l H. unfold sort_values. apply sort_loop_ext. exact H.
Qed.

Lemma Forall2_In_r {A B} : forall (R : A -> B -> Prop) l1 l2 q,
  Forall2 R l1 l2 -> In q l2 -> exists p, In p l1 /\ R p q.
Proof.
  intros R l1 l2 q F. induction F as [|a b l1 l2 Hab F IH]; intros Hq.
  - destruct Hq.
  - destruct Hq as [<-|Hq].
    + exists a. split; [left; reflexivity|exact Hab].
    + destruct (IH Hq) as [p [Hp Rp]]. exists p. split; [right; exact Hp|exact Rp].
Qed.

(* ------------------------------------------------------------------ *)
(* 2, 3. canonicity and matching                                        *)
(* ------------------------------------------------------------------ *)

Section Canon.
Variable A : Type.
Variable rk : A -> A -> comparison.
Hypothesis rk_refl : forall a, rk a a = Eq.
Hypothesis rk_anti : forall a b, rk b a = CompOpp (rk a b).
Hypothesis rk_ctr : forall a b c, ctr (rk a b) (rk b c) (rk a c).

Lemma ctr_total_preorder : total_preorder rk.
Proof.
  split; [exact rk_refl|]. split; [exact rk_anti|].
  intros a b c. apply (ctr_le _ _ _ (rk_ctr a b c)).
Qed.

Lemma rk_eq_sym : forall a b, rk a b = Eq -> rk b a = Eq.
Proof. intros a b H. rewrite rk_anti, H. reflexivity. Qed.

Lemma rk_lt_gt : forall a b, rk a b = Lt -> rk b a = Gt.
Proof. intros a b H. rewrite rk_anti, H. reflexivity. Qed.

Lemma rk_eq_trans : forall a b c, rk a b = Eq -> rk b c = Eq -> rk a c = Eq.
Proof.
  intros a b c H1 H2. pose proof (rk_ctr a b c) as H.
  rewrite H1, H2 in H. simpl in H. exact H.
Qed.

Lemma rk_eq_lt : forall a b c, rk a b = Eq -> rk b c = Lt -> rk a c = Lt.
Proof.
  intros a b c H1 H2. pose proof (rk_ctr a b c) as H.
  rewrite H1, H2 in H. simpl in H. exact H.
Qed.

Lemma rk_lt_eq : forall a b c, rk a b = Lt -> rk b c = Eq -> rk a c = Lt.
Proof.
  intros a b c H1 H2. pose proof (rk_ctr a b c) as H.
  rewrite H1, H2 in H. simpl in H. exact H.
Qed.

(* pairwise distinct up to the ranker *)
Definition distinct (l : list A) : Prop :=
  NoDup l /\ forall p q, In p l -> In q l -> rk p q = Eq -> p = q.

Lemma distinct_perm : forall l l', Permutation l l' -> distinct l -> distinct l'.
Proof.
  intros l l' P [ND H]. split.
  - apply (Permutation_NoDup P ND).
  - intros p q Hp Hq. apply H.
    + apply (Permutation_in _ (Permutation_sym P) Hp).
    + apply (Permutation_in _ (Permutation_sym P) Hq).
Qed.

Lemma distinct_tail : forall a l, distinct (a :: l) -> distinct l.
Proof.
  intros a l [ND H]. split.
  - inversion ND; assumption.
  - intros p q Hp Hq. apply H; right; assumption.
Qed.

Definition ssorted (l : list A) : Prop := StronglySorted (fun a b => rk a b = Lt) l.

Lemma sorted_strict : forall l,
  StronglySorted (not_gt rk) l -> distinct l -> ssorted l.
Proof.
  induction l as [|a l IH]; intros S D.
  - constructor.
  - destruct (StronglySorted_inv S) as [S' F].
    constructor.
    + apply IH; [exact S'|apply distinct_tail with a; exact D].
    + rewrite Forall_forall in *. intros b Hb.
      pose proof (F b Hb) as Hng. unfold not_gt in Hng.
      destruct (rk a b) eqn:E.
      * exfalso. destruct D as [ND H].
        assert (a = b) by (apply H; [left; reflexivity|right; exact Hb|exact E]).
        subst b. inversion ND; contradiction.
      * reflexivity.
      * congruence.
Qed.

Lemma sort_ssorted : forall l, distinct l -> ssorted (sort_values rk l).
Proof.
  intros l D. apply sorted_strict.
  - apply sort_strongly_sorted. apply ctr_total_preorder.
  - apply distinct_perm with l; [apply Permutation_sym; apply sort_perm|exact D].
Qed.

Lemma ssorted_canon : forall l1 l2,
  ssorted l1 -> ssorted l2 -> Permutation l1 l2 -> l1 = l2.
Proof.
  induction l1 as [|x t1 IH]; intros l2 S1 S2 P.
  - apply Permutation_nil in P. subst. reflexivity.
  - destruct l2 as [|y t2].
    + apply Permutation_sym in P. apply Permutation_nil in P. discriminate.
    + destruct (StronglySorted_inv S1) as [S1' F1].
      destruct (StronglySorted_inv S2) as [S2' F2].
      rewrite Forall_forall in F1, F2.
      assert (Hxy : x = y).
      { assert (Hx : In x (y :: t2)) by (apply (Permutation_in _ P); left; reflexivity).
        destruct Hx as [Hx|Hx]; [symmetry; exact Hx|].
        assert (Hy : In y (x :: t1))
          by (apply (Permutation_in _ (Permutation_sym P)); left; reflexivity).
        destruct Hy as [Hy|Hy]; [exact Hy|].
        exfalso.
        pose proof (F1 y Hy) as L1. pose proof (F2 x Hx) as L2.
        apply rk_lt_gt in L1. congruence. }
      subst y. f_equal. apply IH; [exact S1'|exact S2'|].
      apply Permutation_cons_inv with x. exact P.
Qed.

(* 2. sorting is canonical on distinct lists: insertion order does not matter *)
Lemma sort_canonical : forall l1 l2,
  distinct l1 -> Permutation l1 l2 -> sort_values rk l1 = sort_values rk l2.
Proof.
  intros l1 l2 D P. apply ssorted_canon.
  - apply sort_ssorted. exact D.
  - apply sort_ssorted. apply distinct_perm with l1; assumption.
  - apply Permutation_trans with l1; [apply sort_perm|].
    apply Permutation_trans with l2; [exact P|].
    apply Permutation_sym. apply sort_perm.
Qed.

Lemma match_gen : forall s1 s2,
  ssorted s1 -> ssorted s2 -> length s2 <= length s1 ->
  (forall p, In p s1 -> exists q, In q s2 /\ rk p q = Eq) ->
  Forall2 (fun p q => rk p q = Eq) s1 s2.
Proof.
  induction s1 as [|p0 t1 IH]; intros s2 S1 S2 L M.
  - destruct s2 as [|q0 t2]; [constructor|simpl in L; lia].
  - destruct s2 as [|q0 t2].
    + destruct (M p0 (or_introl eq_refl)) as [q [[] _]].
    + destruct (StronglySorted_inv S1) as [S1' F1].
      destruct (StronglySorted_inv S2) as [S2' F2].
      rewrite Forall_forall in F1, F2.
      assert (M' : forall p, In p t1 -> exists q, In q t2 /\ rk p q = Eq).
      { intros p Hp. destruct (M p (or_intror Hp)) as [qp [[Hqp|Hqp] Ep]].
        - exfalso. subst qp.
          pose proof (F1 p Hp) as L0p.
          destruct (M p0 (or_introl eq_refl)) as [q [[Hq|Hq] E0]].
          + subst q.
            pose proof (rk_eq_trans _ _ _ E0 (rk_eq_sym _ _ Ep)) as H. congruence.
          + pose proof (F2 q Hq) as Lq.
            pose proof (rk_eq_lt _ _ _ Ep Lq) as H1.
            pose proof (rk_lt_eq _ _ _ H1 (rk_eq_sym _ _ E0)) as H2.
            apply rk_lt_gt in H2. congruence.
        - exists qp. split; assumption. }
      assert (FT : Forall2 (fun p q => rk p q = Eq) t1 t2)
        by (apply IH; [exact S1'|exact S2'|simpl in L; lia|exact M']).
      constructor; [|exact FT].
      destruct (M p0 (or_introl eq_refl)) as [q [[Hq|Hq] E0]].
      * subst q. exact E0.
      * exfalso. destruct (Forall2_In_r _ _ _ q FT Hq) as [p [Hp Ep]].
        pose proof (F1 p Hp) as L0p.
        pose proof (rk_eq_trans _ _ _ E0 (rk_eq_sym _ _ Ep)) as H. congruence.
Qed.

(* 3. two distinct lists of equal length, every element of the first has an rk-equal
      element in the second: then the sorted lists are pointwise rk-equal *)
Lemma sort_match : forall l1 l2,
  distinct l1 -> distinct l2 -> length l1 = length l2 ->
  (forall p, In p l1 -> exists q, In q l2 /\ rk p q = Eq) ->
  Forall2 (fun p q => rk p q = Eq) (sort_values rk l1) (sort_values rk l2).
Proof.
  intros l1 l2 D1 D2 L M. apply match_gen.
  - apply sort_ssorted. exact D1.
  - apply sort_ssorted. exact D2.
  - rewrite !sort_length. lia.
  - intros p Hp.
    destruct (M p (Permutation_in _ (sort_perm A rk l1) Hp)) as [q [Hq E]].
    exists q. split; [|exact E].
    apply (Permutation_in _ (Permutation_sym (sort_perm A rk l2)) Hq).
Qed.
End Canon.









