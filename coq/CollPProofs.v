(* CollPProofs.v — the panic-aware Set operations of CollP.v coincide with those of Coll.v (about which
   SetProofs*.v prove the Set properties) whenever the collator's ranking never panics. *)
From Verif Require Import Base Seq Coll CollP.

Section Agree.
Variable A : Type.
Variable zero : A.
Variable rank : A -> A -> comparison.
Variable rankp : A -> A -> option comparison.
Hypothesis total : forall a b, rankp a b = Some (rank a b).

Lemma find_index_loop_p_agrees : forall fuel l v first last size,
  find_index_loop_p zero rankp fuel l v first last size = find_index_loop zero rank fuel l v first last size.
Proof.
  induction fuel as [|f IH]; intros l v first last size; cbn [find_index_loop_p find_index_loop].
  - reflexivity.
  - destruct (size =? 0); [reflexivity|]. rewrite total.
    destruct (rank v (nth (first + size / 2 - 1) l zero)); [reflexivity | apply IH | apply IH].
Qed.

Lemma find_index_p_agrees : forall l v, find_index_p zero rankp l v = find_index zero rank l v.
Proof. intros. unfold find_index_p, find_index. apply find_index_loop_p_agrees. Qed.

Lemma set_add_p_agrees : forall l v, set_add_p zero rankp l v = set_add zero rank l v.
Proof. intros. unfold set_add_p, set_add. rewrite find_index_p_agrees. reflexivity. Qed.

Lemma set_remove_p_agrees : forall l v, set_remove_p zero rankp l v = set_remove zero rank l v.
Proof. intros. unfold set_remove_p, set_remove. rewrite find_index_p_agrees. reflexivity. Qed.

Lemma set_contains_p_agrees : forall l v, set_contains_p zero rankp l v = set_contains zero rank l v.
Proof. intros. unfold set_contains_p, set_contains. rewrite find_index_p_agrees. reflexivity. Qed.

Lemma set_get_index_p_agrees : forall l v, set_get_index_p zero rankp l v = set_get_index zero rank l v.
Proof. intros. unfold set_get_index_p, set_get_index. rewrite find_index_p_agrees. reflexivity. Qed.

Lemma set_add_all_p_agrees : forall vs l, set_add_all_p zero rankp l vs = set_add_all zero rank l vs.
Proof.
  induction vs as [|v vs IH]; intros l; cbn [set_add_all_p set_add_all]; [reflexivity|].
  rewrite set_add_p_agrees. destruct (set_add zero rank l v); cbn [out_bind]; [apply IH | reflexivity | reflexivity].
Qed.

Lemma set_remove_all_p_agrees : forall vs l, set_remove_all_p zero rankp l vs = set_remove_all zero rank l vs.
Proof.
  induction vs as [|v vs IH]; intros l; cbn [set_remove_all_p set_remove_all]; [reflexivity|].
  rewrite set_remove_p_agrees. destruct (set_remove zero rank l v); cbn [out_bind]; [apply IH | reflexivity | reflexivity].
Qed.

Lemma set_contains_any_p_agrees : forall vs l, set_contains_any_p zero rankp l vs = set_contains_any zero rank l vs.
Proof.
  induction vs as [|v vs IH]; intros l; cbn [set_contains_any_p set_contains_any]; [reflexivity|].
  rewrite set_contains_p_agrees. destruct (set_contains zero rank l v) as [[|]| |]; cbn [out_bind]; try reflexivity. apply IH.
Qed.

Lemma set_contains_all_p_agrees : forall vs l, set_contains_all_p zero rankp l vs = set_contains_all zero rank l vs.
Proof.
  induction vs as [|v vs IH]; intros l; cbn [set_contains_all_p set_contains_all]; [reflexivity|].
  rewrite set_contains_p_agrees. destruct (set_contains zero rank l v) as [[|]| |]; cbn [out_bind]; try reflexivity. apply IH.
Qed.
End Agree.

Section AgreeAlgebra.
Variable A : Type.
Variable zero : A.
Variable rank1 rank2 : A -> A -> comparison.
Variable rk1 rk2 : A -> A -> option comparison.
Hypothesis total1 : forall a b, rk1 a b = Some (rank1 a b).
Hypothesis total2 : forall a b, rk2 a b = Some (rank2 a b).

Lemma and_loop_p_agrees : forall xs acc b, and_loop_p A zero rk1 rk2 acc xs b = and_loop A zero rank1 rank2 acc xs b.
Proof.
  induction xs as [|x xs IH]; intros acc b; cbn [and_loop_p and_loop]; [reflexivity|].
  rewrite (set_contains_p_agrees A zero rank2 rk2 total2).
  destruct (set_contains zero rank2 b x) as [[|]| |]; cbn [out_bind]; try reflexivity.
  - rewrite (set_add_p_agrees A zero rank1 rk1 total1).
    destruct (set_add zero rank1 acc x); cbn [out_bind]; [apply IH | reflexivity | reflexivity].
  - apply IH.
Qed.

Theorem set_and_p_agrees : forall a b, set_and_p zero rk1 rk2 a b = set_and zero rank1 rank2 a b.
Proof. intros. apply and_loop_p_agrees. Qed.

Theorem set_or_p_agrees : forall a b, set_or_p zero rk1 a b = set_or zero rank1 a b.
Proof.
  intros. unfold set_or_p, set_or. rewrite (set_add_all_p_agrees A zero rank1 rk1 total1).
  destruct (set_add_all zero rank1 [] a); cbn [out_bind]; try reflexivity.
  apply (set_add_all_p_agrees A zero rank1 rk1 total1).
Qed.

Theorem set_sans_p_agrees : forall a b, set_sans_p zero rk1 a b = set_sans zero rank1 a b.
Proof.
  intros. unfold set_sans_p, set_sans. rewrite (set_add_all_p_agrees A zero rank1 rk1 total1).
  destruct (set_add_all zero rank1 [] a); cbn [out_bind]; try reflexivity.
  apply (set_remove_all_p_agrees A zero rank1 rk1 total1).
Qed.
End AgreeAlgebra.

Theorem set_xor_p_agrees : forall A (zero : A) rank1 rank2 rk1 rk2,
  (forall a b, rk1 a b = Some (rank1 a b)) -> (forall a b, rk2 a b = Some (rank2 a b)) ->
  forall a b, set_xor_p zero rk1 rk2 a b = set_xor zero rank1 rank2 a b.
Proof.
  intros A zero rank1 rank2 rk1 rk2 T1 T2 a b. unfold set_xor_p, set_xor.
  rewrite (set_sans_p_agrees A zero rank1 rk1 T1).
  destruct (set_sans zero rank1 a b); cbn [out_bind]; try reflexivity.
  rewrite (set_sans_p_agrees A zero rank2 rk2 T2).
  destruct (set_sans zero rank2 b a); cbn [out_bind]; try reflexivity.
  apply (set_or_p_agrees A zero rank1 rk1 T1).
Qed.

(* a call that panics leaves no result: whatever was gathered before the panic is dropped *)
Print Assumptions set_and_p_agrees.
Print Assumptions set_xor_p_agrees.
