(* PipeProofs.v — generic facts about the machine of PipeSem.v, independent of what tools/gopipes
   generated (GenPipes.v is never unfolded here, so this file compiles for any output):
   - run_local composes;
   - QueueSem.gstep acts on one thread, the queues and the wait-group counter only (tstep);
   - the simulation: if the calls that the regenerated goroutines issue are, batch by batch, the
     calls that Conc.continue hands to the hand-written loops (an invariant I closed under the
     arrival of RemoveHead results), then PipeSem.pstep is QueueSem.gstep step for step.
   GenC06.v supplies the invariant for the regenerated Fork/Split/Join helpers and constructors. *)
From Coq Require Import ZArith List String Bool Arith Lia.
From Verif Require Import Base Seq Conc QueueLang GenQueue QueueSem PipeLang GenPipes PipeSem.
Import ListNotations.
Open Scope nat_scope.
Open Scope list_scope.

Lemma run_local_add dflt mk n m h :
  run_local dflt mk (n + m) h = match run_local dflt mk n h with HLocal h' => run_local dflt mk m h' | r => r end.
Proof.
  revert h; induction n as [|n IH]; intros h; simpl; [reflexivity|].
  destruct (hstep dflt mk h); auto.
Qed.

(* ---- fuel ---- *)
Definition nonlocal (r : hres) : Prop := match r with HLocal _ => False | _ => True end.

Lemma run_local_le dflt mk n m h r :
  run_local dflt mk n h = r -> nonlocal r -> n <= m -> run_local dflt mk m h = r.
Proof.
  intros H Hr Hle. replace m with (n + (m - n)) by lia. rewrite run_local_add, H.
  destruct r; try reflexivity. contradiction.
Qed.

Lemma run_local_S dflt mk f h :
  run_local dflt mk (S f) h = match hstep dflt mk h with HLocal h' => run_local dflt mk f h' | r => r end.
Proof. reflexivity. Qed.

(* ---- gstep on one thread ---- *)
Definition tstep (th : gthread) (qs : list qstate) (w : nat) : option (gthread * list qstate * nat) :=
  if g_stuck th then None else
  match g_calls th with
  | [] => None
  | CWait :: rest => if (w =? 0)%nat then Some (gfinish th rest RWaited, qs, w) else None
  | CDone :: rest => Some (gfinish th rest RDoneWg, qs, w - 1)
  | cl :: rest =>
    match queue_of cl with
    | None => None
    | Some q =>
      match gsegment cl (g_pos th) (nth q qs dummyq) with
      | GBlocked => None
      | GPanic s' => Some (gstuck th, set_nth q s' qs, w)
      | GBad => Some (gbad th, qs, w)
      | GEnd s' r =>
        Some (match cl with
              | CRemoveHead _ => gfinish_head th rest (r_head r) (r_ok r)
              | _ => gfinish th rest (result_of cl r)
              end, set_nth q s' qs, w)
      | GYield _ k' s' r => Some (gat th k' r, set_nth q s' qs, w)
      end
    end
  end.

Definition gput (g : gconfig) (t : nat) (x : gthread * list qstate * nat) : gconfig :=
  {| gqueues := snd (fst x); gwg := snd x; gthreads := set_nth t (fst (fst x)) (gthreads g) |}.

Lemma gstep_tstep g t :
  gstep g t = match tstep (ggett g t) (gqueues g) (gwg g) with Some x => Some (gput g t x) | None => None end.
Proof.
  unfold gstep, tstep, gput. destruct (g_stuck (ggett g t)); [reflexivity|].
  destruct (g_calls (ggett g t)) as [|cl rest]; [reflexivity|].
  destruct cl; cbn [queue_of]; unfold ggetq;
    try (destruct (gsegment _ _ _); reflexivity).
  - destruct (gwg g =? 0); reflexivity.
  - reflexivity.
Qed.

(* the view of a thread whose calls are generated one at a time *)
Definition pview (th : gthread) : gthread :=
  {| g_pos := g_pos th; g_calls := firstn 1 (g_calls th); g_loop := LNone; g_res := g_res th; g_stuck := g_stuck th; g_bad := g_bad th |}.
Definition emptied (th : gthread) : gthread :=
  {| g_pos := g_pos th; g_calls := []; g_loop := LNone; g_res := g_res th; g_stuck := g_stuck th; g_bad := g_bad th |}.

Definition is_head (c : call) : bool := match c with CRemoveHead _ => true | _ => false end.
Definition nohead (r : result) : bool := match r with RHead _ _ => false | _ => true end.

Inductive tsim (c : call) (rest : list call) (th : gthread) : option (gthread * list qstate * nat) -> option (gthread * list qstate * nat) -> Prop :=
| ts_none : tsim c rest th None None
| ts_progress th' qs w :
    g_calls th' = c :: rest -> g_loop th' = g_loop th ->
    tsim c rest th (Some (th', qs, w)) (Some (pview th', qs, w))
| ts_finish_head th' qs w q v ok :
    c = CRemoveHead q -> g_stuck th' = false -> g_res th' = g_res th ++ [RHead v ok] ->
    g_calls th' = rest ++ fst (continue (g_loop th) v ok) -> g_loop th' = snd (continue (g_loop th) v ok) ->
    tsim c rest th (Some (th', qs, w)) (Some (emptied th', qs, w))
| ts_finish th' qs w r :
    is_head c = false -> nohead r = true -> g_stuck th' = false -> g_res th' = g_res th ++ [r] ->
    g_calls th' = rest -> g_loop th' = g_loop th ->
    tsim c rest th (Some (th', qs, w)) (Some (emptied th', qs, w)).

Ltac seg_cases Hc P Pst Pbad Fin :=
  match goal with |- context [gsegment ?cl ?p ?s] =>
    let kind := fresh "kind" in let k' := fresh "k'" in let s' := fresh "s'" in let r := fresh "r" in
    destruct (gsegment cl p s) as [kind k' s' r|s' r| |s'|];
    [ rewrite <- (P k' r); apply ts_progress; [exact Hc|reflexivity]
    | first [ rewrite <- Fin; apply ts_finish with (r := result_of cl r); try reflexivity; simpl; auto | idtac ]
    | constructor
    | rewrite <- Pst; apply ts_progress; [exact Hc|reflexivity]
    | rewrite <- Pbad; apply ts_progress; [exact Hc|reflexivity] ]
  end.

Lemma tstep_pview th qs w c rest :
  g_calls th = c :: rest -> tsim c rest th (tstep th qs w) (tstep (pview th) qs w).
Proof.
  intros Hc. unfold tstep. cbn [pview g_stuck g_calls g_pos]. rewrite Hc. cbn [firstn].
  destruct (g_stuck th) eqn:Hs; [constructor|].
  assert (P : forall k r, pview (gat th k r) = gat (pview th) k r) by (intros; unfold pview, gat; simpl; rewrite Hc; reflexivity).
  assert (Pst : pview (gstuck th) = gstuck (pview th)) by (unfold pview, gstuck; simpl; rewrite Hc; reflexivity).
  assert (Pbad : pview (gbad th) = gbad (pview th)) by (unfold pview, gbad; simpl; rewrite Hc; reflexivity).
  assert (Fin : forall r, emptied (gfinish th rest r) = gfinish (pview th) [] r) by (intros; reflexivity).
  destruct c; cbn [queue_of]; try seg_cases Hc P Pst Pbad Fin.
  - (* RemoveHead returns *)
    match goal with x : regs |- _ => rename x into r end.
    unfold gfinish_head. cbn [pview g_loop continue g_res].
    destruct (continue (g_loop th) (r_head r) (r_ok r)) as [more l'] eqn:E.
    rewrite app_nil_r.
    change {| g_pos := None; g_calls := []; g_loop := LNone; g_res := g_res th ++ [RHead (r_head r) (r_ok r)]; g_stuck := false; g_bad := false |}
      with (emptied {| g_pos := None; g_calls := rest ++ more; g_loop := l'; g_res := g_res th ++ [RHead (r_head r) (r_ok r)]; g_stuck := false; g_bad := false |}).
    apply ts_finish_head with (q := q) (v := r_head r) (ok := r_ok r); simpl; try rewrite E; auto.
  - (* Wait *)
    destruct (w =? 0); [|constructor]. rewrite <- Fin. apply ts_finish with (r := RWaited); auto.
  - (* Done *)
    rewrite <- Fin. apply ts_finish with (r := RDoneWg); auto.
Qed.

Lemma tstep_nocalls th qs w : g_calls th = [] -> tstep th qs w = None.
Proof. intros H. unfold tstep. rewrite H. destruct (g_stuck th); reflexivity. Qed.

(* a goroutine that has returned from its last call, or panicked *)
Definition gdone (th : gthread) : bool :=
  g_stuck th || match g_pos th, g_calls th with None, [] => true | _, _ => false end.
Definition pfinal (p : pconfig) : bool := forallb gdone (gthreads (pg p)).

Lemma gdone_pview th : gdone (pview th) = gdone th.
Proof. unfold gdone, pview; simpl. destruct (g_calls th); reflexivity. Qed.

(* ---- batches of calls ---- *)
Lemma deliver_nohead h r : nohead r = true -> deliver h r = h.
Proof. destruct r; simpl; try discriminate; reflexivity. Qed.

Lemma same_shared_deliver h r h' : same_shared (deliver h r) h' = same_shared h h'.
Proof. unfold deliver. destruct r; try reflexivity. destruct (h_pending h) as [[x y]|]; reflexivity. Qed.

Section Sim.
Variable dflt : nat.
Variable I : hstate -> loop -> Prop.      (* a goroutine waiting for the result of RemoveHead stands for this hand-written loop *)

Inductive bend := BAwait (w : hstate) | BExit.

(* from the state h (about to run local code) the goroutine issues exactly these calls, each after the
   return of the one before, and then waits for the result of the last one (a RemoveHead) or is done *)
Inductive Batch : hstate -> list call -> bend -> Prop :=
| B_exit h h' : next_call dflt h = HExit h' -> Batch h [] BExit
| B_await h q w : next_call dflt h = HCall (CRemoveHead q) w -> same_shared h w = true -> Batch h [CRemoveHead q] (BAwait w)
| B_call h c h' cs e : next_call dflt h = HCall c h' -> is_head c = false -> same_shared h h' = true ->
                       Batch h' cs e -> Batch h (c :: cs) e.

Definition End (e : bend) (l : loop) : Prop := match e with BAwait w => I w l | BExit => l = LNone end.

Hypothesis I_closed : forall w l v ok, I w l ->
  exists e, Batch (deliver w (RHead v ok)) (fst (continue l v ok)) e /\ End e (snd (continue l v ok)).

(* h: the state of the goroutine while its call (the head of cs) is in progress *)
Definition Live (h : hstate) (cs : list call) (l : loop) : Prop :=
  match cs with
  | [] => False
  | c :: rest => if is_head c then rest = [] /\ I h l else exists e, Batch h rest e /\ End e l
  end.

Definition Rt (o : option hstate) (thp thg : gthread) : Prop :=
  match o with
  | None => thp = thg
  | Some h => thp = pview thg /\ Live h (g_calls thg) (g_loop thg)
  end.

Definition PR (p : pconfig) (g : gconfig) : Prop :=
  gqueues (pg p) = gqueues g /\ gwg (pg p) = gwg g /\ length (gthreads (pg p)) = length (gthreads g) /\
  forall t, Rt (nth t (ph p) None) (ggett (pg p) t) (ggett g t).

Definition psim (a : option pconfig) (b : option gconfig) : Prop :=
  match a, b with
  | Some p', Some g' => PR p' g'
  | None, None => True
  | _, _ => False
  end.

Lemma ggett_live g t : g_stuck (ggett g t) = false -> t < length (gthreads g).
Proof.
  intros H. destruct (Nat.lt_ge_cases t (length (gthreads g))) as [|Hge]; auto.
  unfold ggett in H. rewrite nth_overflow in H by lia. discriminate.
Qed.

Lemma nth_set_nth_same {A} t (x d : A) l : t < length l -> nth t (set_nth t x l) d = x.
Proof. revert t; induction l as [|a l IH]; intros [|t] H; simpl in *; try lia; auto. apply IH; lia. Qed.
Lemma nth_set_nth_other {A} t t' (x d : A) l : t <> t' -> nth t' (set_nth t x l) d = nth t' l d.
Proof. revert t t'; induction l as [|a l IH]; intros [|t] [|t'] H; simpl; auto; try lia. Qed.
Lemma nth_set_nth_other_opt {A} t t' (x : option A) l : t <> t' -> nth t' (set_nth t x l) None = nth t' l None.
Proof. apply nth_set_nth_other. Qed.

(* the state after the update of thread t (and of the queues / counter) on both sides *)
Lemma PR_put p g t thp thg qs w o hs :
  PR p g -> t < length (gthreads g) ->
  Rt o thp thg ->
  (forall t', t' <> t -> nth t' hs None = nth t' (ph p) None) -> nth t hs None = o ->
  PR {| pg := {| gqueues := qs; gwg := w; gthreads := set_nth t thp (gthreads (pg p)) |}; ph := hs |}
     {| gqueues := qs; gwg := w; gthreads := set_nth t thg (gthreads g) |}.
Proof.
  intros (Hq & Hw & Hl & Ht) Hlt Hr Hother Hsame. unfold PR; cbn [pg ph gqueues gwg gthreads].
  repeat split; auto.
  - rewrite !set_nth_length. exact Hl.
  - intros t'. unfold ggett; cbn [gthreads]. destruct (Nat.eq_dec t' t) as [->|Hne].
    + rewrite Hsame. rewrite !nth_set_nth_same by lia. exact Hr.
    + rewrite Hother by exact Hne. rewrite !nth_set_nth_other by auto. apply Ht.
Qed.

Lemma set_nth_set_nth {A} t (x y : A) l : set_nth t x (set_nth t y l) = set_nth t x l.
Proof. revert t; induction l as [|a l IH]; intros [|t]; simpl; auto. now rewrite IH. Qed.

Lemma nth_set_nth_opt_same {A} t (x : option A) l : t < length l -> nth t (set_nth t x l) None = x.
Proof. apply nth_set_nth_same. Qed.

(* the call in progress returned: the goroutine runs on to its next call *)
Lemma refill_ok p g t h0 h r cs l e th' qs w :
  PR p g -> t < length (gthreads g) -> nth t (ph p) None = Some h ->
  h0 = deliver h r -> Batch h0 cs e -> End e l ->
  g_calls th' = cs -> g_loop th' = l -> g_stuck th' = false -> last (g_res th') RAdded = r ->
  PR (refill dflt {| gqueues := qs; gwg := w; gthreads := set_nth t (emptied th') (gthreads (pg p)) |} t h (ph p))
     {| gqueues := qs; gwg := w; gthreads := set_nth t th' (gthreads g) |}.
Proof.
  intros HPR Hlt Hph Hh0 HB HE Hcs Hloop Hst Hlast.
  pose proof HPR as (Hq & Hw & Hl & Ht).
  assert (Hphlen : t < length (ph p)).
  { destruct (Nat.lt_ge_cases t (length (ph p))) as [|Hge]; auto. rewrite nth_overflow in Hph by lia. discriminate. }
  unfold refill. cbv zeta.
  assert (EG : ggett {| gqueues := qs; gwg := w; gthreads := set_nth t (emptied th') (gthreads (pg p)) |} t = emptied th').
  { unfold ggett. cbn [gthreads]. apply nth_set_nth_same. lia. }
  rewrite !EG. cbn [emptied g_res]. rewrite Hlast, <- Hh0.
  destruct HB as [h1 h1' Hn | h1 q w1 Hn Hss | h1 c h1' cs' e' Hn Hnh Hss HB'].
  - (* the goroutine is done *)
    rewrite Hn. simpl in HE. subst l.
    apply (PR_put p g t (emptied th') th' qs w None); auto.
    + unfold Rt, emptied. destruct th'; simpl in *; subst; reflexivity.
    + intros t' Hne. apply nth_set_nth_other. auto.
    + apply nth_set_nth_opt_same. exact Hphlen.
  - (* its next call is a RemoveHead *)
    rewrite Hn. subst h1. rewrite same_shared_deliver in Hss. rewrite Hss.
    unfold gsett; cbn [gqueues gwg gthreads]. rewrite set_nth_set_nth.
    apply (PR_put p g t _ th' qs w (Some w1)); auto.
    + unfold Rt. split.
      * unfold pview, with_calls, emptied. rewrite Hcs. reflexivity.
      * rewrite Hcs. cbn. split; [reflexivity|]. rewrite Hloop. exact HE.
    + intros t' Hne. apply nth_set_nth_other. auto.
    + apply nth_set_nth_opt_same. exact Hphlen.
  - rewrite Hn. subst h1. rewrite same_shared_deliver in Hss. rewrite Hss.
    unfold gsett; cbn [gqueues gwg gthreads]. rewrite set_nth_set_nth.
    apply (PR_put p g t _ th' qs w (Some h1')); auto.
    + unfold Rt. split.
      * unfold pview, with_calls, emptied. rewrite Hcs. reflexivity.
      * rewrite Hcs. cbn [Live]. rewrite Hnh. exists e'. split; [exact HB'|]. rewrite Hloop. exact HE.
    + intros t' Hne. apply nth_set_nth_other. auto.
    + apply nth_set_nth_opt_same. exact Hphlen.
Qed.

Theorem pstep_sim p g t : PR p g -> psim (pstep dflt p t) (gstep g t).
Proof.
  intros HPR. pose proof HPR as (Hq & Hw & Hl & Ht).
  unfold pstep. rewrite !gstep_tstep. rewrite Hq, Hw.
  pose proof (Ht t) as Hr.
  destruct (nth t (ph p) None) as [h|] eqn:Hph.
  - (* a regenerated goroutine *)
    destruct Hr as [Hv HL].
    destruct (g_calls (ggett g t)) as [|c rest] eqn:Hc; [contradiction|].
    rewrite Hv.
    pose proof (tstep_pview (ggett g t) (gqueues g) (gwg g) c rest Hc) as S.
    inversion S as [E1 E2 | th' qs w Hc' Hloop' E1 E2 | th' qs w q v ok Hcq Hst Hres Hcalls Hloop' E1 E2 | th' qs w r Hnh Hnr Hst Hres Hcalls Hloop' E1 E2]; clear S.
    + exact Logic.I.
    + (* still inside the call (or panicked, or left the discipline) *)
      unfold gput; cbn [psim fst snd]. unfold ggett at 1 2. cbn [gthreads].
      assert (Hlt : t < length (gthreads g)).
      { destruct (Nat.lt_ge_cases t (length (gthreads g))) as [|Hge]; auto.
        unfold ggett in Hc. rewrite nth_overflow in Hc by lia. discriminate. }
      rewrite nth_set_nth_same by lia.
      assert (Hnoref : forall x, (if g_stuck (pview th') then Some x else match g_calls (pview th') with [] => Some (refill dflt {| gqueues := qs; gwg := w; gthreads := set_nth t (pview th') (gthreads (pg p)) |} t h (ph p)) | _ :: _ => Some x end) = Some x).
      { intros x. destruct (g_stuck (pview th')); [reflexivity|]. cbn [pview g_calls]. rewrite Hc'. reflexivity. }
      rewrite Hnoref. cbn [psim].
      apply (PR_put p g t (pview th') th' qs w (Some h)); auto.
      unfold Rt. split; [reflexivity|]. rewrite Hc', Hloop'. exact HL.
    + (* RemoveHead returned (v, ok) *)
      unfold gput; cbn [psim fst snd]. unfold ggett at 1 2. cbn [gthreads].
      assert (Hlt : t < length (gthreads g)).
      { destruct (Nat.lt_ge_cases t (length (gthreads g))) as [|Hge]; auto.
        unfold ggett in Hc. rewrite nth_overflow in Hc by lia. discriminate. }
      rewrite nth_set_nth_same by lia. cbn [emptied g_stuck g_calls]. rewrite Hst.
      subst c. cbn [Live is_head] in HL. destruct HL as [-> HI].
      destruct (I_closed h (g_loop (ggett g t)) v ok HI) as (e & HB & HE).
      apply (refill_ok p g t (deliver h (RHead v ok)) h (RHead v ok) (fst (continue (g_loop (ggett g t)) v ok)) (snd (continue (g_loop (ggett g t)) v ok)) e th' qs w); auto.
      rewrite Hres. apply last_last.
    + (* another call returned *)
      unfold gput; cbn [psim fst snd]. unfold ggett at 1 2. cbn [gthreads].
      assert (Hlt : t < length (gthreads g)).
      { destruct (Nat.lt_ge_cases t (length (gthreads g))) as [|Hge]; auto.
        unfold ggett in Hc. rewrite nth_overflow in Hc by lia. discriminate. }
      rewrite nth_set_nth_same by lia. cbn [emptied g_stuck g_calls]. rewrite Hst.
      cbn [Live] in HL. rewrite Hnh in HL. destruct HL as (e & HB & HE).
      apply (refill_ok p g t h h r rest (g_loop (ggett g t)) e th' qs w); auto.
      * symmetry. apply deliver_nohead. exact Hnr.
      * rewrite Hres. apply last_last.
  - (* any other thread *)
    cbn [Rt] in Hr. rewrite Hr.
    destruct (tstep (ggett g t) (gqueues g) (gwg g)) as [[[th' qs] w]|] eqn:E; [|exact Logic.I].
    unfold gput; cbn [psim fst snd].
    assert (Hlt : t < length (gthreads g)).
    { apply ggett_live. unfold tstep in E. destruct (g_stuck (ggett g t)); [discriminate|reflexivity]. }
    apply (PR_put p g t th' th' qs w None); auto. reflexivity.
Qed.

Theorem prun_sim : forall sched p g, PR p g -> PR (prun dflt p sched) (grun g sched).
Proof.
  induction sched as [|t rest IH]; intros p g HR; simpl; [exact HR|].
  pose proof (pstep_sim p g t HR) as H. unfold psim in H.
  destruct (pstep dflt p t) as [p'|], (gstep g t) as [g'|]; try contradiction; apply IH; assumption.
Qed.

(* the same with an explicit (small) bound on the local statements before the first call, so that local
   statements can be prepended *)
Inductive BatchF (f : nat) : hstate -> list call -> bend -> Prop :=
| BF_exit h h' : run_local dflt (gen_mk dflt) f h = HExit h' -> BatchF f h [] BExit
| BF_await h q w : run_local dflt (gen_mk dflt) f h = HCall (CRemoveHead q) w -> same_shared h w = true ->
                   BatchF f h [CRemoveHead q] (BAwait w)
| BF_call h c h' cs e : run_local dflt (gen_mk dflt) f h = HCall c h' -> is_head c = false -> same_shared h h' = true ->
                        Batch h' cs e -> BatchF f h (c :: cs) e.

Lemma BatchF_Batch f h cs e : f <= local_fuel -> BatchF f h cs e -> Batch h cs e.
Proof.
  intros Hf HB. destruct HB as [h h' H | h q w H Hs | h c h' cs e H Hn Hs HB].
  - apply (B_exit h h'). unfold next_call. apply (run_local_le _ _ f); simpl; auto.
  - apply B_await; auto. unfold next_call. apply (run_local_le _ _ f); simpl; auto.
  - apply (B_call h c h'); auto. unfold next_call. apply (run_local_le _ _ f); simpl; auto.
Qed.

Definition shared_eq (h h' : hstate) : Prop :=
  length (h_qs h) = length (h_qs h') /\ h_wg h = h_wg h'.

Lemma same_shared_eq h h' x : shared_eq h h' -> same_shared h x = same_shared h' x.
Proof. intros [A B]. unfold same_shared. rewrite A, B. reflexivity. Qed.

Lemma BatchF_skip n f h h' cs e :
  run_local dflt (gen_mk dflt) n h = HLocal h' -> shared_eq h h' -> BatchF f h' cs e -> BatchF (n + f) h cs e.
Proof.
  intros Hn Hsh HB. destruct HB as [h1 h1' H | h1 q w H Hs | h1 c h1' cs e H Hnh Hs HB].
  - apply (BF_exit _ h h1'). rewrite run_local_add, Hn. exact H.
  - apply BF_await. rewrite run_local_add, Hn. exact H. rewrite (same_shared_eq h h1); auto.
  - apply (BF_call _ h c h1'); auto. rewrite run_local_add, Hn. exact H. rewrite (same_shared_eq h h1); auto.
Qed.

Lemma PR_map p g {A} (f : gthread -> A) : PR p g -> (forall th, f (pview th) = f th) ->
  map f (gthreads (pg p)) = map f (gthreads g).
Proof.
  intros (Hq & Hw & Hl & Ht) Hf. apply (nth_ext _ _ (f dummyg) (f dummyg)); [rewrite !map_length; exact Hl|].
  intros t _. rewrite !(map_nth f). specialize (Ht t). unfold ggett in Ht.
  destruct (nth t (ph p) None); [destruct Ht as [-> _]; apply Hf | rewrite Ht; reflexivity].
Qed.

(* what the two machines show: queues, counter, per-goroutine results, never outside the discipline *)
Lemma PR_observables p g : PR p g ->
  gqueues (pg p) = gqueues g /\ gwg (pg p) = gwg g /\
  map g_res (gthreads (pg p)) = map g_res (gthreads g) /\
  map g_bad (gthreads (pg p)) = map g_bad (gthreads g) /\
  map g_stuck (gthreads (pg p)) = map g_stuck (gthreads g).
Proof.
  intros (Hq & Hw & Hl & Ht).
  assert (K : forall (A : Type) (f : gthread -> A), (forall th, f (pview th) = f th) ->
              map f (gthreads (pg p)) = map f (gthreads g)).
  { intros A f Hf. apply (nth_ext _ _ (f dummyg) (f dummyg)); [rewrite !map_length; exact Hl|].
    intros t _. rewrite !(map_nth f). specialize (Ht t). unfold ggett in Ht.
    destruct (nth t (ph p) None); [destruct Ht as [-> _]; apply Hf | rewrite Ht; reflexivity]. }
  repeat split; auto; apply K; reflexivity.
Qed.

Lemma pstep_none_iff p g t : PR p g -> (pstep dflt p t = None <-> gstep g t = None).
Proof.
  intros HR. pose proof (pstep_sim p g t HR) as S. unfold psim in S.
  destruct (pstep dflt p t), (gstep g t); try contradiction; split; intros; try discriminate; reflexivity.
Qed.

End Sim.


(* symbolic execution of the regenerated code: one statement, then normalise the state *)
Ltac hsimpl :=
  cbn [hstep upd with_defer with_qs with_wg with_go with_pending with_ret hstart
       h_k h_env h_defer h_qs h_wg h_log h_go h_pending h_ret
       eval holds lookup set binop cmpop break_out String.eqb Ascii.eqb Bool.eqb
       map app firstn length fst snd negb
       get_next has_next to_start it_make it_slot it_vals it_size nth_error
       gen_MakeFromSequence gen_MakeFromArray gen_MakeWithCapacity gen_Fork gen_Split gen_Join];
  cbv beta iota delta [upd with_defer with_qs with_wg with_go with_pending with_ret hstart
       h_k h_env h_defer h_qs h_wg h_log h_go h_pending h_ret
       has_next it_size it_make to_start get_next it_slot it_vals];
  cbn [map app length fst snd].
Ltac hs := rewrite run_local_S; hsimpl.

(* n local statements, then the result r within the remaining fuel *)
Lemma next_call_after dflt n m h h' r :
  run_local dflt (gen_mk dflt) n h = HLocal h' -> run_local dflt (gen_mk dflt) m h' = r -> nonlocal r ->
  n + m <= local_fuel -> next_call dflt h = r.
Proof.
  intros H1 H2 Hr Hle. unfold next_call. apply (run_local_le _ _ (n + m)); auto.
  rewrite run_local_add, H1. exact H2.
Qed.

