(* GenRep.v — how the states of the hand-written models are represented as MiniGo values (receivers of
   the generated methods of GenSrc.v).  Definitions only; used by the sweeps (GenSweep.v) and by the
   proofs (GenLib.v, Gen*.v).  Part of the common build: it mentions only names that the translator always emits
   (receiver types of its selection table) and the canonical field identifiers of MiniGo.v (kind of the field's
   type + ordinal among the fields of that kind), listed in the order of those identifiers, as the translator
   lists them in [p_structs].  So it compiles whatever the Go source looks like; whether these values ARE what the
   code builds is a matter of the late proofs (e.g. gen_MakeFromArray). *)
From Verif Require Import Base Seq MiniGo GenSrc.

Section Rep.
Variable A : Type.

Definition elems (l : list A) : list (val A) := map VElem l.

(* agent/iterator.go: iterator_ {class_ (nil0), values_ (slice0), size_ (int0), slot_ (int1)}; [cls] is any class value *)
Definition it_val (cls : val A) (l : list A) (slot : Z) : val A :=
  VObj id_iterator_ [(f_int0, VInt (Z.of_nat (length l))); (f_slice0, VSlice (elems l));
                     (f_nil0, cls); (f_int1, VInt slot)].

(* an iterator of the model (Seq.iter) as an object *)
Definition mk_it (l : list A) (k : nat) : iter A := {| it_vals := l; it_slot := k |}.
Definition it_rep (cls : val A) (i : iter A) : val A := it_val cls (it_vals i) (Z.of_nat (it_slot i)).

(* collection/array.go: array_ is a named slice type *)
Definition arr_val (l : list A) : val A := VNamed id_array_ (VSlice (elems l)).

(* collection/list.go: list_ {class_ (nil0), values_ (nil1)}; the class object {notation_ (nil0)} carries the
   notation [n] (any value) *)
Definition lcls_val (n : val A) : val A := VObj id_listClass_ [(f_nil0, n)].
Definition lst_val (n : val A) (l : list A) : val A :=
  VObj id_list_ [(f_nil0, lcls_val n); (f_nil1, arr_val l)].

(* collection/stack.go: stack_ {class_ (nil0), capacity_ (int0), values_ (nil1)} *)
Definition stk_val (cls : val A) (n : val A) (cap : Z) (l : list A) : val A :=
  VObj id_stack_ [(f_int0, VInt cap); (f_nil0, cls); (f_nil1, lst_val n l)].

(* collection/set.go: set_ {class_ (nil0), collator_ (nil1), values_ (nil2)}; the collator is an object of the
   untranslated type collator_ whose RankValues is answered by the oracle [rank_ext] *)
Definition col_val : val A := VObj id_collator_ [].
Definition set_val (cls : val A) (n : val A) (l : list A) : val A :=
  VObj id_set_ [(f_nil0, cls); (f_nil1, col_val); (f_nil2, lst_val n l)].
(* age.LesserRank / EqualRank / GreaterRank = 0 / 1 / 2 (const .. = iota, read by the translator) *)
Definition rank_code (c : comparison) : Z := match c with Lt => 0 | Eq => 1 | Gt => 2 end.
Definition rank_ext (rank : A -> A -> comparison) (t m : ident) (r : val A) (args : list (val A)) : option (val A) :=
  if Pos.eqb t id_collator_ && Pos.eqb m id_RankValues then
    match args with
    | [VElem a; VElem b] => Some (VInt (rank_code (rank a b)))
    | _ => None
    end
  else if Pos.eqb t id_collatorClass_ && Pos.eqb m id_Make then
    match args with [] => Some (VObj id_collator_ []) | _ => None end
  else None.

(* agent/sorter.go: sorter_ {class_ (nil0), ranker_ (nil1)}; the ranking function is the method value RankValues of a
   collator (what Sorter[V]().Make() and the Sort methods of the collections install), answered by [rank_ext] *)
Definition ranker_val : val A := VMeth col_val id_RankValues.
Definition srt_val (cls : val A) : val A := VObj id_sorter_ [(f_nil0, cls); (f_nil1, ranker_val)].

(* list.GetIndex compares through a fresh default collator: Collator[V]().Make() and its CompareValues are answered
   by the oracle [cmp_ext eqb] *)
Definition cmp_ext (eqb : A -> A -> bool) (t m : ident) (r : val A) (args : list (val A)) : option (val A) :=
  if Pos.eqb t id_collatorClass_ && Pos.eqb m id_Make then
    match args with [] => Some col_val | _ => None end
  else if Pos.eqb t id_collator_ && Pos.eqb m id_CompareValues then
    match args with
    | [VElem a; VElem b] => Some (VBool (eqb a b))
    | _ => None
    end
  else None.

(* no external methods are needed by the other functions translated so far *)
Definition no_ext (t m : ident) (r : val A) (args : list (val A)) : option (val A) := None.
End Rep.

Arguments elems {A}. Arguments it_val {A}. Arguments arr_val {A}. Arguments lcls_val {A}.
Arguments lst_val {A}. Arguments stk_val {A}. Arguments no_ext {A}.
Arguments col_val {A}. Arguments set_val {A}. Arguments rank_ext {A}. Arguments cmp_ext {A}. Arguments ranker_val {A}. Arguments srt_val {A}.
