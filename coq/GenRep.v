(* GenRep.v — how the states of the hand-written models are represented as MiniGo values (receivers of
   the generated methods of GenSrc.v).  Definitions only; used by the sweeps (GenSweep.v) and by the
   proofs (GenLib.v, Gen*.v).  The order of the fields is the order of the struct declarations. *)
From Verif Require Import Base MiniGo GenSrc.

Section Rep.
Variable A : Type.

Definition elems (l : list A) : list (val A) := map VElem l.

(* agent/iterator.go: iterator_ {class_, values_, size_, slot_}; [cls] is any class value *)
Definition it_val (cls : val A) (l : list A) (slot : Z) : val A :=
  VObj id_iterator_ [(id_class_, cls); (id_values_, VSlice (elems l));
                     (id_size_, VInt (Z.of_nat (length l))); (id_slot_, VInt slot)].

(* collection/array.go: array_ is a named slice type *)
Definition arr_val (l : list A) : val A := VNamed id_array_ (VSlice (elems l)).

(* collection/list.go: list_ {class_, values_}; the class object carries the notation [n] (any value) *)
Definition lcls_val (n : val A) : val A := VObj id_listClass_ [(id_notation_, n)].
Definition lst_val (n : val A) (l : list A) : val A :=
  VObj id_list_ [(id_class_, lcls_val n); (id_values_, arr_val l)].

(* collection/stack.go: stack_ {class_, capacity_, values_} *)
Definition stk_val (cls : val A) (n : val A) (cap : Z) (l : list A) : val A :=
  VObj id_stack_ [(id_class_, cls); (id_capacity_, VInt cap); (id_values_, lst_val n l)].

(* no external methods are needed by the functions translated so far *)
Definition no_ext (t m : ident) (r : val A) (args : list (val A)) : option (val A) := None.
End Rep.

Arguments elems {A}. Arguments it_val {A}. Arguments arr_val {A}. Arguments lcls_val {A}.
Arguments lst_val {A}. Arguments stk_val {A}. Arguments no_ext {A}.
