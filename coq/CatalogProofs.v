(* CatalogProofs.v — the two-structure Catalog (CatalogImpl.v) refines the association-list model
   (Coll.v section Assoc): representation invariant [cat_inv], abstraction [abs], every method preserves the
   invariant and commutes with [abs]; frame lemmas (which heap cells a call may write); histories. *)
From Verif Require Import Base Sorter SorterProofs SorterProofs2 Value Seq Coll Pool AssocProofs AssocProofs2 ReorderProofs CatalogImpl.
From Coq Require Import Permutation.
Local Open Scope nat_scope.

(* ---------- list helpers ---------- *)
Section ListFacts.
Context {A B : Type}.

Lemma set_nth_map : forall (f : A -> B) k v l, set_nth k (f v) (map f l) = map f (set_nth k v l).
Proof. intros f k v l. revert k. induction l as [|a t IH]; intros [|k]; cbn; try reflexivity. rewrite IH. reflexivity. Qed.

Lemma remove_nth_map' : forall (f : A -> B) k l, remove_nth k (map f l) = map f (remove_nth k l).
Proof. intros f k l. revert k. induction l as [|a t IH]; intros [|k]; cbn; try reflexivity. rewrite IH. reflexivity. Qed.

Lemma remove_nth_In : forall k (l : list A) x, In x (remove_nth k l) -> In x l.
Proof.
  intros k l. revert k. induction l as [|a t IH]; intros [|k] x H; cbn in *; auto.
  destruct H as [H|H]; auto. right. apply (IH k). exact H.
Qed.

Lemma remove_nth_NoDup : forall k (l : list A), NoDup l -> NoDup (remove_nth k l).
Proof.
  intros k l. revert k. induction l as [|a t IH]; intros [|k] H; cbn; auto; inversion H; subst; auto.
  constructor; [|apply IH; assumption]. intros X. apply remove_nth_In in X. contradiction.
Qed.

Lemma swap_nth_map : forall (f : A -> B) d i j l, swap_nth (f d) i j (map f l) = map f (swap_nth d i j l).
Proof. intros f d i j l. unfold swap_nth. rewrite !map_nth, !set_nth_map. reflexivity. Qed.

Lemma shuffle_loop_map : forall (f : A -> B) d rs i l,
  shuffle_loop (f d) i rs (map f l) = map f (shuffle_loop d i rs l).
Proof.
  intros f d. induction rs as [|r rs IH]; intros i l; cbn [shuffle_loop]; [reflexivity|].
  rewrite map_length. destruct ((i <? length l) && (r <? length l)).
  - rewrite swap_nth_map. apply IH.
  - apply IH.
Qed.

Lemma shuffle_values_map : forall (f : A -> B) rs l, shuffle_values rs (map f l) = map f (shuffle_values rs l).
Proof. intros f rs [|d t]; [reflexivity|]. unfold shuffle_values. cbn [map]. apply (shuffle_loop_map f d rs 0 (d :: t)). Qed.

Lemma reverse_values_map : forall (f : A -> B) l, reverse_values (map f l) = map f (reverse_values l).
Proof. intros f l. rewrite !reverse_spec. symmetry. apply map_rev. Qed.

Lemma map_Some_inj : forall (l l' : list A), map Some l = map Some l' -> l = l'.
Proof.
  induction l as [|a t IH]; intros [|b t'] H; cbn in H; try discriminate; [reflexivity|].
  injection H as -> H. f_equal. apply IH. exact H.
Qed.
Lemma NoDup_app_single : forall (l : list A) x, NoDup l -> ~ In x l -> NoDup (l ++ [x]).
Proof.
  induction l as [|a t IH]; intros x Hn Hx; cbn.
  - constructor; [intros []|constructor].
  - inversion Hn; subst. constructor.
    + intros X. apply in_app_or in X. destruct X as [X|[X|[]]]; [contradiction|]. subst. apply Hx. left. reflexivity.
    + apply IH; [assumption|]. intros X. apply Hx. right. exact X.
Qed.

End ListFacts.

Section CatalogProofs.
Variables K V : Type.
Variable kzero : K.
Variable vzero : V.
Variable keq : K -> K -> bool.
Hypothesis keq_sym : forall a b, keq a b = keq b a.
Hypothesis keq_trans : forall a b c, keq a b = true -> keq b c = true -> keq a c = true.

Notation heap := (heap K V).
Notation cat := (cat K).
Notation wf := (wfm K V keq).

(* read a cell; the default is never used for an allocated id *)
Definition deref (h : heap) (i : id) : K * V := nth i h (kzero, vzero).
Definition key_of (h : heap) (i : id) : K := fst (deref h i).
Definition alloc (h : heap) (ids : list id) : Prop := Forall (fun i => i < length h) ids.
(* the abstraction: the ordered list read through the heap *)
Definition abs (h : heap) (c : cat) : list (K * V) := map (deref h) (c_assocs c).
(* what keys_ must hold: one entry per list element, under that element's key, pointing at it *)
Definition ents (h : heap) (ids : list id) : list (K * id) := map (fun i => (key_of h i, i)) ids.

Definition cat_inv (h : heap) (c : cat) : Prop :=
  NoDup (c_assocs c) /\ alloc h (c_assocs c) /\
  Permutation (c_keys c) (ents h (c_assocs c)) /\
  wf (abs h c).

(* ---------- heap facts ---------- *)
Lemma h_get_alloc : forall (h : heap) i, i < length h -> h_get h i = Some (deref h i).
Proof. intros h i Hi. unfold h_get, deref. apply nth_error_nth'. exact Hi. Qed.

Lemma h_get_none : forall (h : heap) i, length h <= i -> h_get h i = None.
Proof. intros h i Hi. unfold h_get. apply nth_error_None. exact Hi. Qed.

Lemma alloc_In : forall (h : heap) ids i, alloc h ids -> In i ids -> i < length h.
Proof. intros h ids i Ha Hi. unfold alloc in Ha. rewrite Forall_forall in Ha. apply Ha. exact Hi. Qed.

Lemma read_all_alloc : forall (h : heap) ids, alloc h ids -> read_all h ids = Ret (map (deref h) ids).
Proof.
  intros h. induction ids as [|i t IH]; intros Ha; cbn [read_all map]; [reflexivity|].
  inversion Ha as [|? ? Hi Ht]; subst. rewrite (h_get_alloc h i Hi), (IH Ht). reflexivity.
Qed.

(* [same_on P h h']: h' extends h and agrees with it on the allocated cells satisfying P *)
Definition same_on (P : id -> Prop) (h h' : heap) : Prop :=
  length h <= length h' /\ forall i, i < length h -> P i -> deref h' i = deref h i.

Lemma same_on_refl : forall P h, same_on P h h.
Proof. intros P h. split; [lia|reflexivity]. Qed.

Lemma same_on_trans : forall (P : id -> Prop) h1 h2 h3, same_on P h1 h2 -> same_on P h2 h3 -> same_on P h1 h3.
Proof.
  intros P h1 h2 h3 [L1 E1] [L2 E2]. split; [lia|]. intros i Hi Pi.
  rewrite E2 by (try lia; exact Pi). apply E1; assumption.
Qed.

Lemma same_on_weaken : forall (P Q : id -> Prop) h h', (forall i, Q i -> P i) -> same_on P h h' -> same_on Q h h'.
Proof. intros P Q h h' PQ [L E]. split; [exact L|]. intros i Hi Qi. apply E; auto. Qed.

Lemma same_on_app : forall P (h e : heap), same_on P h (h ++ e).
Proof.
  intros P h e. split; [rewrite app_length; lia|]. intros i Hi _. unfold deref. apply app_nth1. exact Hi.
Qed.

Lemma map_deref_same : forall (P : id -> Prop) h h' ids, same_on P h h' -> alloc h ids -> (forall i, In i ids -> P i) ->
  map (deref h') ids = map (deref h) ids.
Proof.
  intros P h h' ids [L E] Ha HP. apply map_ext_in. intros i Hi. apply E; [apply (alloc_In h ids); assumption|auto].
Qed.

Lemma alloc_same : forall P h h' ids, same_on P h h' -> alloc h ids -> alloc h' ids.
Proof.
  intros P h h' ids [L _] Ha. unfold alloc in *. rewrite Forall_forall in *. intros i Hi. specialize (Ha i Hi). lia.
Qed.

(* an invariant survives every change of the heap outside the catalog's own cells *)
Lemma inv_same : forall h h' c, cat_inv h c -> same_on (fun i => In i (c_assocs c)) h h' ->
  cat_inv h' c /\ abs h' c = abs h c.
Proof.
  intros h h' c (Hn & Ha & Hp & Hw) S.
  assert (E : abs h' c = abs h c).
  { unfold abs. apply (map_deref_same _ h h' _ S Ha). auto. }
  split; [|exact E]. split; [exact Hn|]. split; [apply (alloc_same _ h h' _ S Ha)|]. split.
  - replace (ents h' (c_assocs c)) with (ents h (c_assocs c)); [exact Hp|].
    unfold ents. apply map_ext_in. intros i Hi. unfold key_of. destruct S as [L Ed].
    rewrite Ed; [reflexivity|apply (alloc_In h _ i Ha Hi)|exact Hi].
  - rewrite E. exact Hw.
Qed.

(* ---------- lookups through the list of ids ---------- *)
(* the first id of the list whose object's key equals k *)
Fixpoint lk (h : heap) (ids : list id) (k : K) : option id :=
  match ids with
  | [] => None
  | i :: t => if keq k (key_of h i) then Some i else lk h t k
  end.

Lemma a_get_ents : forall h ids k, a_get keq (ents h ids) k = lk h ids k.
Proof.
  intros h. induction ids as [|i t IH]; intros k; cbn; [reflexivity|].
  destruct (keq k (key_of h i)); [reflexivity|apply IH].
Qed.

Lemma a_get_abs : forall h ids k, a_get keq (map (deref h) ids) k = option_map (fun i => snd (deref h i)) (lk h ids k).
Proof.
  intros h. induction ids as [|i t IH]; intros k; cbn [map a_get lk]; [reflexivity|].
  unfold key_of. destruct (deref h i) as [k' v'] eqn:E. cbn [fst].
  destruct (keq k k'); [cbn; rewrite E; reflexivity|apply IH].
Qed.

Lemma lk_some : forall h ids k i, lk h ids k = Some i -> In i ids /\ keq k (key_of h i) = true.
Proof.
  intros h. induction ids as [|j t IH]; intros k i H; cbn in H; [discriminate|].
  destruct (keq k (key_of h j)) eqn:E.
  - injection H as <-. split; [left; reflexivity|exact E].
  - destruct (IH k i H) as [H1 H2]. split; [right; exact H1|exact H2].
Qed.

(* the keys_ lookup of a catalog in its invariant *)
Lemma keys_lookup : forall h c k, cat_inv h c -> a_get keq (c_keys c) k = lk h (c_assocs c) k.
Proof.
  intros h c k (Hn & Ha & Hp & Hw).
  rewrite <- a_get_ents. symmetry.
  apply (a_get_perm K id keq keq_sym keq_trans (c_keys c) (ents h (c_assocs c))); [|exact Hp].
  apply (wfm_perm K id keq keq_sym (ents h (c_assocs c)) (c_keys c)); [|apply Permutation_sym; exact Hp].
  unfold wfm, keys, ents. rewrite map_map. cbn [fst].
  unfold wfm, keys, abs in Hw. rewrite map_map in Hw. exact Hw.
Qed.

Lemma ents_keys : forall h ids, map fst (ents h ids) = map fst (map (deref h) ids).
Proof. intros h ids. unfold ents. rewrite !map_map. reflexivity. Qed.

(* ---------- GetValue ---------- *)
Theorem get_value_refines : forall h c k, cat_inv h c ->
  c_get_value vzero keq h c k = Ret (a_get_or_zero vzero keq (abs h c) k).
Proof.
  intros h c k I. unfold c_get_value. rewrite (keys_lookup h c k I).
  unfold a_get_or_zero, abs. rewrite a_get_abs.
  destruct (lk h (c_assocs c) k) as [i|] eqn:E; cbn [option_map]; [|reflexivity].
  destruct (lk_some _ _ _ _ E) as [Hin _]. destruct I as (_ & Ha & _).
  rewrite (h_get_alloc h i (alloc_In _ _ _ Ha Hin)). destruct (deref h i); reflexivity.
Qed.

Theorem get_values_refines : forall h c ks, cat_inv h c ->
  c_get_values vzero keq h c ks = Ret (map (a_get_or_zero vzero keq (abs h c)) ks).
Proof.
  intros h c ks I. induction ks as [|k t IH]; cbn [c_get_values map]; [reflexivity|].
  rewrite (get_value_refines h c k I). cbn [out_bind]. rewrite IH. reflexivity.
Qed.

(* ---------- what a call may do to the heap and to the id list ---------- *)
(* only the catalog's own cells are written, new cells are appended; the ids of the new list are old
   ones or newly allocated ones *)
Definition frame (h : heap) (c : cat) (h' : heap) (c' : cat) : Prop :=
  same_on (fun i => ~ In i (c_assocs c)) h h' /\
  (forall i, In i (c_assocs c') -> In i (c_assocs c) \/ length h <= i).

Lemma frame_refl : forall h c, frame h c h c.
Proof. intros h c. split; [apply same_on_refl|auto]. Qed.

Lemma frame_trans : forall h1 c1 h2 c2 h3 c3, alloc h1 (c_assocs c1) ->
  frame h1 c1 h2 c2 -> frame h2 c2 h3 c3 -> frame h1 c1 h3 c3.
Proof.
  intros h1 c1 h2 c2 h3 c3 Ha [[L1 E1] N1] [[L2 E2] N2]. split; [split; [lia|]|].
  - intros i Hi Hn. rewrite E2; [apply E1; assumption|lia|].
    intros X. destruct (N1 i X) as [Y|Y]; [contradiction|lia].
  - intros i Hi. destruct (N2 i Hi) as [Y|Y]; [destruct (N1 i Y); [left; assumption|right; assumption]|right; lia].
Qed.

(* ---------- SetValue ---------- *)
Lemma deref_set_nth : forall (h : heap) i x j,
  deref (set_nth i x h) j = if (j =? i) && (i <? length h) then x else deref h j.
Proof. intros h i x j. unfold deref. apply nth_set_nth. Qed.

Lemma lk_set_other : forall h ids k i x, key_of h i = fst x ->
  lk (set_nth i x h) ids k = lk h ids k.
Proof.
  intros h ids k i x Hk. induction ids as [|j t IH]; cbn [lk]; [reflexivity|].
  assert (E : key_of (set_nth i x h) j = key_of h j).
  { unfold key_of. rewrite deref_set_nth. destruct ((j =? i) && (i <? length h)) eqn:B; [|reflexivity].
    apply andb_prop in B. destruct B as [B _]. apply Nat.eqb_eq in B. subst j. symmetry. exact Hk. }
  rewrite E, IH. reflexivity.
Qed.

Lemma set_existing_abs : forall h ids k i v, NoDup ids -> alloc h ids -> lk h ids k = Some i ->
  map (deref (set_nth i (key_of h i, v) h)) ids = a_set keq (map (deref h) ids) k v.
Proof.
  intros h ids k i v. induction ids as [|j t IH]; intros Hn Ha Hl; cbn [lk] in Hl; [discriminate|].
  inversion Hn as [|? ? Hj Ht]; subst. inversion Ha as [|? ? Aj At]; subst.
  cbn [map a_set]. unfold key_of in Hl at 1. destruct (deref h j) as [kj vj] eqn:Ej. cbn [fst] in Hl.
  destruct (keq k kj) eqn:Ek.
  - injection Hl as <-. rewrite deref_set_nth, Nat.eqb_refl. apply Nat.ltb_lt in Aj. rewrite Aj. cbn [andb].
    unfold key_of. rewrite Ej. cbn [fst]. f_equal.
    apply map_ext_in. intros x Hx. rewrite deref_set_nth.
    destruct (Nat.eqb_spec x j) as [->|_]; [contradiction|reflexivity].
  - destruct (lk_some _ _ _ _ Hl) as [Hin _].
    rewrite deref_set_nth. destruct (Nat.eqb_spec j i) as [->|_]; [contradiction|]. cbn [andb]. rewrite Ej.
    f_equal. apply IH; assumption.
Qed.

Lemma ents_app : forall h a b, ents h (a ++ b) = ents h a ++ ents h b.
Proof. intros. unfold ents. apply map_app. Qed.

Lemma map_deref_app : forall (h e : heap) ids, alloc h ids -> map (deref (h ++ e)) ids = map (deref h) ids.
Proof.
  intros h e ids Ha. apply map_ext_in. intros i Hi. unfold deref. apply app_nth1. apply (alloc_In h ids i Ha Hi).
Qed.

Theorem set_value_refines : forall h c k v, cat_inv h c ->
  exists h' c', c_set_value keq h c k v = Ret (h', c') /\ cat_inv h' c' /\
                abs h' c' = a_set keq (abs h c) k v /\ frame h c h' c'.
Proof.
  intros h c k v I. unfold c_set_value. rewrite (keys_lookup h c k I).
  destruct I as (Hn & Ha & Hp & Hw).
  destruct (lk h (c_assocs c) k) as [i|] eqn:E.
  - (* existing key: write through the object *)
    destruct (lk_some _ _ _ _ E) as [Hin Hk]. pose proof (alloc_In _ _ _ Ha Hin) as Hi.
    rewrite (h_get_alloc h i Hi). unfold h_set_value. rewrite (h_get_alloc h i Hi).
    destruct (deref h i) as [ki vi] eqn:Ei.
    assert (Eki : key_of h i = ki) by (unfold key_of; rewrite Ei; reflexivity).
    exists (set_nth i (ki, v) h), c. split; [reflexivity|].
    assert (EA : abs (set_nth i (ki, v) h) c = a_set keq (abs h c) k v).
    { unfold abs. rewrite <- Eki. apply set_existing_abs; assumption. }
    split; [|split; [exact EA|]].
    + split; [exact Hn|]. split.
      { unfold alloc in *. rewrite set_nth_length. exact Ha. }
      split.
      { replace (ents (set_nth i (ki, v) h) (c_assocs c)) with (ents h (c_assocs c)); [exact Hp|].
        unfold ents. apply map_ext. intros j. f_equal. unfold key_of. rewrite deref_set_nth.
        destruct ((j =? i) && (i <? length h)) eqn:B; [|reflexivity].
        apply andb_prop in B. destruct B as [B _]. apply Nat.eqb_eq in B. subst j. rewrite Ei. reflexivity. }
      rewrite EA. apply (a_set_wf K V keq keq_sym). exact Hw.
    + split; [|auto]. split; [rewrite set_nth_length; lia|].
      intros j Hj Hnj. rewrite deref_set_nth. destruct (Nat.eqb_spec j i) as [->|_]; [contradiction|reflexivity].
  - (* new key: allocate, append, index *)
    cbn [h_alloc]. eexists. eexists. split; [reflexivity|].
    assert (Eabs : a_get keq (abs h c) k = None).
    { unfold abs. rewrite a_get_abs, E. reflexivity. }
    assert (Ekeys : a_get keq (c_keys c) k = None).
    { rewrite (keys_lookup h c k); [exact E|]. repeat split; assumption. }
    assert (EA : abs (h ++ [(k, v)]) {| c_assocs := c_assocs c ++ [length h]; c_keys := a_set keq (c_keys c) k (length h) |}
                 = a_set keq (abs h c) k v).
    { unfold abs. cbn [c_assocs]. rewrite map_app, (map_deref_app h _ _ Ha). cbn [map].
      unfold deref at 2. rewrite nth_middle. symmetry. apply (a_set_absent K V keq). exact Eabs. }
    split; [|split; [exact EA|]].
    + split; cbn [c_assocs c_keys].
      { apply NoDup_app_single. exact Hn. intros X. apply (alloc_In _ _ _ Ha) in X. lia. }
      split.
      { unfold alloc. apply Forall_app. split.
        - unfold alloc in Ha. rewrite Forall_forall in *. intros x Hx. specialize (Ha x Hx). rewrite app_length. cbn. lia.
        - constructor; [rewrite app_length; cbn; lia|constructor]. }
      split.
      { rewrite (a_set_absent K id keq _ _ _ Ekeys), ents_app. apply Permutation_app.
        - replace (ents (h ++ [(k, v)]) (c_assocs c)) with (ents h (c_assocs c)); [exact Hp|].
          unfold ents. apply map_ext_in. intros j Hj. f_equal. unfold key_of, deref. rewrite app_nth1; [reflexivity|].
          apply (alloc_In _ _ _ Ha Hj).
        - cbn. unfold key_of, deref. rewrite nth_middle. apply Permutation_refl. }
      exact (eq_ind_r (fun m => wf m) (a_set_wf K V keq keq_sym _ k v Hw) EA).
    + split; [apply same_on_app|]. cbn [c_assocs]. intros j Hj. apply in_app_or in Hj.
      destruct Hj as [Hj|[<-|[]]]; [left; exact Hj|right; lia].
Qed.

(* ---------- RemoveValue ---------- *)
Lemma search_spec : forall (rest pre : list id) f (i : id) idx p,
  find_pos (fun x => Nat.eqb x i) rest = Some p -> length rest <= f ->
  search_loop f {| it_vals := pre ++ rest; it_slot := length pre |} i idx = Ret (idx + S p).
Proof.
  induction rest as [|x t IH]; intros pre f i idx p Hf Hl; cbn [find_pos] in Hf; [discriminate|].
  destruct f as [|f]; [cbn in Hl; lia|]. cbn [search_loop].
  assert (HN : (length pre <? length (pre ++ x :: t)) = true).
  { apply Nat.ltb_lt. rewrite app_length. cbn. lia. }
  unfold get_next, has_next, it_size. cbn [it_vals it_slot]. unfold id in *. rewrite HN. rewrite nth_middle.
  destruct (Nat.eqb x i).
  - injection Hf as <-. f_equal. lia.
  - destruct (find_pos (fun x0 => Nat.eqb x0 i) t) as [p'|] eqn:E; [|discriminate]. cbn in Hf. injection Hf as <-.
    replace {| it_vals := pre ++ x :: t; it_slot := S (length pre) |}
      with {| it_vals := (pre ++ [x]) ++ t; it_slot := length (pre ++ [x]) |}.
    + rewrite (IH (pre ++ [x]) f i (S idx) p' E); [f_equal; lia|cbn in Hl; lia].
    + rewrite <- app_assoc, app_length. cbn. f_equal. lia.
Qed.

Lemma remove_value_at : forall (l : list id) p, p < length l ->
  remove_value 0 l (Z.of_nat (S p)) = Ret (nth p l 0, remove_nth p l).
Proof.
  intros l p Hp. unfold remove_value, pos. unfold id in *.
  destruct (Nat.eqb_spec (length l) 0) as [E|_]; [lia|].
  destruct (Z.eqb_spec (Z.of_nat (S p)) 0) as [E|_]; [lia|].
  destruct (Z.ltb_spec (Z.of_nat (S p)) (- Z.of_nat (length l))) as [E|_]; [lia|].
  destruct (Z.ltb_spec (Z.of_nat (length l)) (Z.of_nat (S p))) as [E|_]; [lia|]. cbn [orb].
  destruct (Z.ltb_spec (Z.of_nat (S p)) 0) as [E|_]; [lia|].
  replace (Z.to_nat (Z.of_nat (S p) - 1)) with p by lia. reflexivity.
Qed.

Lemma lk_position : forall h ids k i, lk h ids k = Some i ->
  exists p, find_pos (fun x => Nat.eqb x i) ids = Some p /\ p < length ids /\ nth p ids 0 = i /\
    map (deref h) (remove_nth p ids) = a_remove keq (map (deref h) ids) k /\
    ents h (remove_nth p ids) = a_remove keq (ents h ids) k.
Proof.
  intros h. induction ids as [|j t IH]; intros k i Hl; cbn [lk] in Hl; [discriminate|].
  destruct (keq k (key_of h j)) eqn:Ek.
  - injection Hl as <-. exists 0. cbn [find_pos]. rewrite Nat.eqb_refl. cbn [length nth remove_nth map ents a_remove].
    rewrite Ek. unfold key_of in Ek. destruct (deref h j) as [kj vj] eqn:Ej. cbn [fst] in Ek. rewrite Ek.
    repeat split. lia.
  - destruct (IH k i Hl) as (p & H1 & H2 & H3 & H4 & H5).
    destruct (lk_some _ _ _ _ Hl) as [_ Hki].
    assert (Hji : Nat.eqb j i = false).
    { apply Nat.eqb_neq. intros ->. rewrite Hki in Ek. discriminate. }
    exists (S p). cbn [find_pos]. rewrite Hji, H1. cbn [option_map length nth remove_nth map ents a_remove].
    rewrite Ek. unfold ents in H5. rewrite H4, H5.
    unfold key_of in Ek. destruct (deref h j) as [kj vj] eqn:Ej. cbn [fst] in Ek. rewrite Ek.
    repeat split; try lia; try assumption.
Qed.

Lemma lk_none_remove : forall h ids k, lk h ids k = None -> a_remove keq (map (deref h) ids) k = map (deref h) ids.
Proof.
  intros h ids k E. apply (a_remove_absent K V keq). rewrite a_get_abs, E. reflexivity.
Qed.

Lemma a_remove_perm : forall (X : Type) (m m' : list (K * X)) k, wfm K X keq m -> Permutation m m' ->
  Permutation (a_remove keq m k) (a_remove keq m' k).
Proof.
  intros X m m' k W P. revert W.
  induction P as [|[kx vx] l l' P IH|[ky vy] [kx vx] l|l l' l'' P1 IH1 P2 IH2]; intros W.
  - apply Permutation_refl.
  - cbn [a_remove]. destruct W as [_ W]. destruct (keq k kx); [exact P|]. constructor. apply IH. exact W.
  - cbn [a_remove]. destruct (keq k ky) eqn:E1; destruct (keq k kx) eqn:E2.
    + exfalso. destruct W as [W1 _]. cbn in W1. specialize (W1 ky (or_introl eq_refl)).
      rewrite keq_sym in E2. rewrite (keq_trans kx k ky E2 E1) in W1. discriminate.
    + apply Permutation_refl.
    + apply Permutation_refl.
    + apply perm_swap.
  - apply Permutation_trans with (a_remove keq l' k); [apply IH1; exact W|apply IH2].
    apply (wfm_perm K X keq keq_sym l l' W P1).
Qed.

Lemma wf_ents : forall h c, wf (abs h c) -> wfm K id keq (ents h (c_assocs c)).
Proof.
  intros h c Hw. unfold wfm, keys in *. rewrite ents_keys. exact Hw.
Qed.

Theorem remove_value_refines : forall h c k, cat_inv h c ->
  exists c', c_remove_value vzero keq h c k = Ret (a_get_or_zero vzero keq (abs h c) k, c') /\
             cat_inv h c' /\ abs h c' = a_remove keq (abs h c) k /\
             (forall i, In i (c_assocs c') -> In i (c_assocs c)).
Proof.
  intros h c k I. unfold c_remove_value. rewrite (keys_lookup h c k I).
  pose proof I as (Hn & Ha & Hp & Hw).
  unfold a_get_or_zero. unfold abs at 1. rewrite a_get_abs.
  destruct (lk h (c_assocs c) k) as [i|] eqn:E; cbn [option_map].
  - destruct (lk_position _ _ _ _ E) as (p & P1 & P2 & P3 & P4 & P5).
    destruct (lk_some _ _ _ _ E) as [Hin _]. pose proof (alloc_In _ _ _ Ha Hin) as Hi.
    change (it_make (c_assocs c)) with {| it_vals := [] ++ c_assocs c; it_slot := length (@nil id) |}.
    rewrite (search_spec (c_assocs c) [] _ i 0 p P1) by lia. cbn [out_bind plus].
    rewrite (remove_value_at _ p P2). cbn [out_bind snd].
    rewrite (h_get_alloc h i Hi). destruct (deref h i) as [ki vi] eqn:Ei. cbn [snd].
    eexists. split; [reflexivity|].
    assert (EA : abs h {| c_assocs := remove_nth p (c_assocs c); c_keys := a_remove keq (c_keys c) k |}
                 = a_remove keq (abs h c) k) by exact P4.
    split; [|split; [exact EA|]].
    + split; cbn [c_assocs c_keys]; [apply remove_nth_NoDup; exact Hn|]. split.
      { unfold alloc in *. rewrite Forall_forall in *. intros x Hx. apply Ha. apply (remove_nth_In p). exact Hx. }
      split.
      { rewrite P5. apply a_remove_perm; [|exact Hp].
        apply (wfm_perm K id keq keq_sym (ents h (c_assocs c)) (c_keys c)); [apply wf_ents; exact Hw|apply Permutation_sym; exact Hp]. }
      exact (eq_ind_r (fun m => wf m) (a_remove_wf K V keq _ k Hw) EA).
    + cbn [c_assocs]. intros x Hx. apply (remove_nth_In p). exact Hx.
  - exists c. split; [reflexivity|]. split; [exact I|]. split; [|auto].
    unfold abs. symmetry. apply lk_none_remove. exact E.
Qed.

Theorem remove_values_refines : forall ks h c, cat_inv h c ->
  exists c', c_remove_values vzero keq h c ks =
               Ret (fst (a_remove_all vzero keq (abs h c) ks), c') /\
             cat_inv h c' /\ abs h c' = snd (a_remove_all vzero keq (abs h c) ks) /\
             (forall i, In i (c_assocs c') -> In i (c_assocs c)).
Proof.
  induction ks as [|k t IH]; intros h c I; cbn [c_remove_values a_remove_all fst snd].
  - exists c. split; [reflexivity|]. split; [exact I|]. split; [reflexivity|auto].
  - destruct (remove_value_refines h c k I) as (c1 & E1 & I1 & A1 & S1). rewrite E1. cbn [out_bind fst snd].
    destruct (IH h c1 I1) as (c2 & E2 & I2 & A2 & S2). rewrite E2. cbn [out_map fst snd].
    exists c2. rewrite <- A1. split; [reflexivity|]. split; [exact I2|]. split; [exact A2|auto].
Qed.

(* ---------- RemoveAll, size, GetKeys ---------- *)
Lemma inv_make : forall h, cat_inv h (c_make : cat).
Proof. intros h. split; [constructor|]. split; [constructor|]. split; [apply Permutation_refl|exact I]. Qed.

Theorem get_keys_refines : forall h c, cat_inv h c -> c_get_keys h c = Ret (map fst (abs h c)).
Proof. intros h c (_ & Ha & _). unfold c_get_keys. rewrite (read_all_alloc h _ Ha). reflexivity. Qed.

Theorem size_refines : forall h c, c_get_size c = length (abs h c) /\ length (c_keys c) = length (c_keys c).
Proof. intros h c. unfold c_get_size, abs. rewrite map_length. split; reflexivity. Qed.

(* the index has exactly as many entries as the list *)
Theorem keys_length : forall h c, cat_inv h c -> length (c_keys c) = length (c_assocs c).
Proof.
  intros h c (_ & _ & Hp & _). rewrite (Permutation_length Hp). unfold ents. apply map_length.
Qed.

(* ---------- SortValues / SortValuesWithRanker / ReverseValues / ShuffleValues ---------- *)
Lemma inv_perm : forall h c ids', cat_inv h c -> Permutation (c_assocs c) ids' ->
  cat_inv h {| c_assocs := ids'; c_keys := c_keys c |}.
Proof.
  intros h c ids' (Hn & Ha & Hp & Hw) P. split; cbn [c_assocs c_keys].
  - apply (Permutation_NoDup P Hn).
  - split; [unfold alloc; apply (Permutation_Forall P Ha)|]. split.
    + apply (Permutation_trans Hp). unfold ents. apply Permutation_map. exact P.
    + apply (wfm_perm K V keq keq_sym (abs h c)); [exact Hw|]. unfold abs. cbn [c_assocs]. apply Permutation_map. exact P.
Qed.

Lemma map_h_get : forall (h : heap) ids, alloc h ids -> map (h_get h) ids = map Some (map (deref h) ids).
Proof.
  intros h ids Ha. rewrite map_map. apply map_ext_in. intros i Hi. apply h_get_alloc. apply (alloc_In h ids i Ha Hi).
Qed.

Lemma sort_abs : forall rk (h : heap) ids, alloc h ids ->
  map (deref h) (sort_values (rk_through rk h) ids) = sort_values rk (map (deref h) ids).
Proof.
  intros rk h ids Ha. apply map_Some_inj.
  rewrite <- map_h_get.
  - change (rk_through rk h) with (fun x y : id => rk_opt rk (h_get h x) (h_get h y)).
    rewrite <- (sort_values_map (option (K * V)) id (h_get h) (rk_opt rk) ids).
    rewrite (map_h_get h ids Ha).
    rewrite (sort_values_map (option (K * V)) (K * V) Some (rk_opt rk) (map (deref h) ids)). reflexivity.
  - unfold alloc. apply (Permutation_Forall (Permutation_sym (sort_perm _ _ ids)) Ha).
Qed.

Theorem sort_refines : forall rk h c, cat_inv h c ->
  cat_inv h (c_sort rk h c) /\ abs h (c_sort rk h c) = sort_values rk (abs h c).
Proof.
  intros rk h c I. split.
  - apply (inv_perm h c _ I). apply Permutation_sym. apply sort_perm.
  - destruct I as (_ & Ha & _). unfold abs, c_sort. cbn [c_assocs]. apply sort_abs. exact Ha.
Qed.

Theorem reverse_refines : forall h c, cat_inv h c ->
  cat_inv h (c_reverse c) /\ abs h (c_reverse c) = reverse_values (abs h c).
Proof.
  intros h c I. split.
  - apply (inv_perm h c _ I). rewrite reverse_spec. apply Permutation_rev.
  - unfold abs, c_reverse. cbn [c_assocs]. symmetry. apply reverse_values_map.
Qed.

Theorem shuffle_refines : forall rs h c, cat_inv h c ->
  cat_inv h (c_shuffle rs c) /\ abs h (c_shuffle rs c) = shuffle_values rs (abs h c).
Proof.
  intros rs h c I. split.
  - apply (inv_perm h c _ I). apply Permutation_sym. apply shuffle_perm.
  - unfold abs, c_shuffle. cbn [c_assocs]. symmetry. apply shuffle_values_map.
Qed.

(* ---------- AsArray / GetIterator: fresh copies ---------- *)
Lemma copy_all_spec : forall ids (h0 e : heap), alloc h0 ids ->
  copy_all (h0 ++ e) ids = Ret (h0 ++ e ++ map (deref h0) ids, seq (length (h0 ++ e)) (length ids)).
Proof.
  induction ids as [|i t IH]; intros h0 e Ha; cbn [copy_all map length seq].
  - rewrite app_nil_r. reflexivity.
  - inversion Ha as [|? ? Hi Ht]; subst.
    assert (G : h_get (h0 ++ e) i = Some (deref h0 i)).
    { unfold h_get, deref. rewrite nth_error_app1 by exact Hi. apply nth_error_nth'. exact Hi. }
    rewrite G. destruct (deref h0 i) as [k v] eqn:Ed. cbn [h_alloc].
    rewrite <- app_assoc. rewrite (IH h0 (e ++ [(k, v)]) Ht). cbn [out_map fst snd].
    rewrite <- !app_assoc. cbn [app]. f_equal. f_equal. f_equal. f_equal. rewrite !app_length. cbn. lia.
Qed.

Lemma read_all_fresh : forall (l h : heap), read_all (h ++ l) (seq (length h) (length l)) = Ret l.
Proof.
  induction l as [|x l IH]; intros h; cbn [length seq read_all]; [reflexivity|].
  unfold h_get. rewrite nth_error_app2 by lia. rewrite Nat.sub_diag. cbn [nth_error].
  replace (h ++ x :: l) with ((h ++ [x]) ++ l) by (rewrite <- app_assoc; reflexivity).
  replace (S (length h)) with (length (h ++ [x])) by (rewrite app_length; cbn; lia).
  rewrite IH. reflexivity.
Qed.

(* AsArray: the heap grows by one copy per association; the array holds the new ids, in order *)
Theorem as_array_spec : forall h c, cat_inv h c ->
  c_as_array h c = Ret (h ++ abs h c, seq (length h) (length (c_assocs c))) /\
  read_all (h ++ abs h c) (seq (length h) (length (c_assocs c))) = Ret (abs h c).
Proof.
  intros h c (_ & Ha & _). unfold c_as_array. split.
  - pose proof (copy_all_spec (c_assocs c) h [] Ha) as H. rewrite app_nil_r in H. exact H.
  - pose proof (read_all_fresh (abs h c) h) as H. unfold abs in H at 2. rewrite map_length in H. exact H.
Qed.

Lemma drain_spec : forall (h : heap) (rest pre : list id) f, length rest <= f ->
  drain f h {| it_vals := pre ++ rest; it_slot := length pre |} = read_all h rest.
Proof.
  intros h. induction rest as [|x t IH]; intros pre f Hl.
  - destruct f; cbn [drain]; unfold has_next, it_size; cbn [it_vals it_slot]; unfold id in *;
      rewrite app_nil_r, Nat.ltb_irrefl; reflexivity.
  - destruct f as [|f]; [cbn in Hl; lia|]. cbn [drain read_all].
    assert (HN : (length pre <? length (pre ++ x :: t)) = true).
    { apply Nat.ltb_lt. rewrite app_length. cbn. lia. }
    unfold get_next, has_next, it_size. cbn [it_vals it_slot]. unfold id in *. rewrite HN. rewrite nth_middle.
    destruct (h_get h x) as [kv|]; [|reflexivity].
    replace {| it_vals := pre ++ x :: t; it_slot := S (length pre) |}
      with {| it_vals := (pre ++ [x]) ++ t; it_slot := length (pre ++ [x]) |}.
    + rewrite (IH (pre ++ [x]) f); [reflexivity|cbn in Hl; lia].
    + rewrite <- app_assoc, app_length. cbn. f_equal. lia.
Qed.

(* ---------- every step of the two-structure machine refines the abstract step ---------- *)
Theorem cstep_refines : forall h c o, cat_inv h c ->
  exists h' c', cstep vzero keq (h, c) o = Ret ((h', c'), snd (sstep vzero keq (abs h c) o)) /\
                cat_inv h' c' /\ abs h' c' = fst (sstep vzero keq (abs h c) o) /\ frame h c h' c'.
Proof.
  intros h c o I. destruct o as [k v|k| |k| |ks|ks| | | |rk| |rs]; cbn [cstep sstep fst snd].
  - destruct (set_value_refines h c k v I) as (h' & c' & E & I' & A & F). rewrite E. cbn [out_map].
    exists h', c'. auto.
  - destruct (remove_value_refines h c k I) as (c' & E & I' & A & S). rewrite E. cbn [out_map fst snd].
    exists h, c'. split; [reflexivity|]. split; [exact I'|]. split; [exact A|]. split; [apply same_on_refl|auto].
  - exists h, (c_make : cat). split; [reflexivity|]. split; [apply inv_make|]. split; [reflexivity|].
    split; [apply same_on_refl|]. intros i [].
  - rewrite (get_value_refines h c k I). cbn [out_map]. exists h, c. split; [reflexivity|]. split; [exact I|].
    split; [reflexivity|apply frame_refl].
  - rewrite (get_keys_refines h c I). cbn [out_map]. exists h, c. split; [reflexivity|]. split; [exact I|].
    split; [reflexivity|apply frame_refl].
  - rewrite (get_values_refines h c ks I). cbn [out_map]. exists h, c. split; [reflexivity|]. split; [exact I|].
    split; [reflexivity|apply frame_refl].
  - destruct (remove_values_refines ks h c I) as (c' & E & I' & A & S). rewrite E. cbn [out_map fst snd].
    exists h, c'. split; [reflexivity|]. split; [exact I'|]. split; [exact A|]. split; [apply same_on_refl|auto].
  - exists h, c. split; [destruct (size_refines h c) as [-> _]; reflexivity|]. split; [exact I|].
    split; [reflexivity|apply frame_refl].
  - destruct (as_array_spec h c I) as [E1 E2]. rewrite E1. cbn [out_bind fst snd]. rewrite E2. cbn [out_map].
    exists (h ++ abs h c), c. split; [reflexivity|].
    destruct (inv_same h (h ++ abs h c) c I (same_on_app _ h _)) as [I' A'].
    split; [exact I'|]. split; [exact A'|]. split; [apply same_on_app|auto].
  - unfold c_get_iterator. destruct (as_array_spec h c I) as [E1 E2]. rewrite E1. cbn [out_map out_bind fst snd].
    change (it_make (seq (length h) (length (c_assocs c))))
      with {| it_vals := [] ++ seq (length h) (length (c_assocs c)); it_slot := length (@nil id) |}.
    rewrite drain_spec by (unfold it_size; cbn [it_vals app]; lia). rewrite E2. cbn [out_map].
    exists (h ++ abs h c), c. split; [reflexivity|].
    destruct (inv_same h (h ++ abs h c) c I (same_on_app _ h _)) as [I' A'].
    split; [exact I'|]. split; [exact A'|]. split; [apply same_on_app|auto].
  - destruct (sort_refines rk h c I) as [I' A]. exists h, (c_sort rk h c). split; [reflexivity|]. split; [exact I'|].
    split; [exact A|]. split; [apply same_on_refl|]. cbn [c_sort c_assocs]. intros i Hi. left.
    apply (Permutation_in i (sort_perm _ _ _) Hi).
  - destruct (reverse_refines h c I) as [I' A]. exists h, (c_reverse c). split; [reflexivity|]. split; [exact I'|].
    split; [exact A|]. split; [apply same_on_refl|]. cbn [c_reverse c_assocs]. intros i Hi. left.
    rewrite reverse_spec in Hi. apply in_rev. exact Hi.
  - destruct (shuffle_refines rs h c I) as [I' A]. exists h, (c_shuffle rs c). split; [reflexivity|]. split; [exact I'|].
    split; [exact A|]. split; [apply same_on_refl|]. cbn [c_shuffle c_assocs]. intros i Hi. left.
    apply (Permutation_in i (shuffle_perm _ _ _) Hi).
Qed.

(* ---------- every history ---------- *)
Theorem crun_refines : forall ops h c, cat_inv h c ->
  exists h' c', crun vzero keq (h, c) ops = Ret ((h', c'), snd (srun vzero keq (abs h c) ops)) /\
                cat_inv h' c' /\ abs h' c' = fst (srun vzero keq (abs h c) ops) /\ frame h c h' c'.
Proof.
  induction ops as [|o t IH]; intros h c I; cbn [crun srun fst snd].
  - exists h, c. split; [reflexivity|]. split; [exact I|]. split; [reflexivity|apply frame_refl].
  - destruct (cstep_refines h c o I) as (h1 & c1 & E1 & I1 & A1 & F1). rewrite E1. cbn [out_bind fst snd].
    destruct (IH h1 c1 I1) as (h2 & c2 & E2 & I2 & A2 & F2). rewrite E2. cbn [out_map fst snd].
    exists h2, c2. rewrite <- A1. split; [reflexivity|]. split; [exact I2|]. split; [exact A2|].
    destruct I as (_ & Ha & _). apply (frame_trans h c h1 c1 h2 c2 Ha F1 F2).
Qed.

(* ---------- a handed-out array is out of reach of the catalog ---------- *)
Definition sep (h : heap) (c : cat) (arr : list id) : Prop :=
  Forall (fun i => i < length h /\ ~ In i (c_assocs c)) arr.

Lemma frame_sep : forall h c h' c' arr, frame h c h' c' -> sep h c arr ->
  sep h' c' arr /\ map (deref h') arr = map (deref h) arr.
Proof.
  intros h c h' c' arr [[L E] N] S. unfold sep in *. rewrite Forall_forall in S. split.
  - apply Forall_forall. intros i Hi. destruct (S i Hi) as [S1 S2]. split; [lia|].
    intros X. destruct (N i X) as [Y|Y]; [contradiction|lia].
  - apply map_ext_in. intros i Hi. destruct (S i Hi) as [S1 S2]. apply E; assumption.
Qed.

Lemma sep_alloc : forall h c arr, sep h c arr -> alloc h arr.
Proof. intros h c arr S. unfold sep, alloc in *. rewrite Forall_forall in *. intros i Hi. apply (S i Hi). Qed.

Lemma sep_fresh : forall h c (e : heap), alloc h (c_assocs c) -> sep (h ++ e) c (seq (length h) (length e)).
Proof.
  intros h c e Ha. unfold sep. apply Forall_forall. intros i Hi. apply in_seq in Hi. split.
  - rewrite app_length. lia.
  - intros X. apply (alloc_In _ _ _ Ha) in X. lia.
Qed.

Theorem snapshot_independent : forall h c, cat_inv h c ->
  forall h2 arr, c_as_array h c = Ret (h2, arr) ->
  read_all h2 arr = Ret (abs h c) /\
  forall ops h3 c3 obs, crun vzero keq (h2, c) ops = Ret ((h3, c3), obs) -> read_all h3 arr = Ret (abs h c).
Proof.
  intros h c I h2 arr E. destruct (as_array_spec h c I) as [E1 E2]. rewrite E1 in E. injection E as <- <-.
  split; [exact E2|]. intros ops h3 c3 obs R.
  destruct (inv_same h (h ++ abs h c) c I (same_on_app _ h _)) as [I2 A2].
  destruct (crun_refines ops _ c I2) as (h3' & c3' & R' & _ & _ & F). rewrite R' in R. injection R as <- <- _.
  assert (S : sep (h ++ abs h c) c (seq (length h) (length (c_assocs c)))).
  { pose proof (sep_fresh h c (abs h c)) as X. unfold abs in X at 2. rewrite map_length in X. apply X. apply I. }
  destruct (frame_sep _ _ _ _ _ F S) as [S3 M].
  rewrite (read_all_alloc _ _ (sep_alloc _ _ _ S3)), M.
  rewrite <- (read_all_alloc _ _ (sep_alloc _ _ _ S)). exact E2.
Qed.

(* ---------- class functions ---------- *)
Theorem set_all_refines : forall kvs h c, cat_inv h c ->
  exists h' c', c_set_all keq h c kvs = Ret (h', c') /\ cat_inv h' c' /\
                abs h' c' = a_set_all keq (abs h c) kvs /\ frame h c h' c'.
Proof.
  induction kvs as [|[k v] t IH]; intros h c I; cbn [c_set_all].
  - exists h, c. split; [reflexivity|]. split; [exact I|]. split; [reflexivity|apply frame_refl].
  - destruct (set_value_refines h c k v I) as (h1 & c1 & E1 & I1 & A1 & F1). rewrite E1. cbn [out_bind fst snd].
    destruct (IH h1 c1 I1) as (h2 & c2 & E2 & I2 & A2 & F2). exists h2, c2. split; [exact E2|]. split; [exact I2|].
    split; [rewrite A2, A1; reflexivity|]. destruct I as (_ & Ha & _). apply (frame_trans h c h1 c1 h2 c2 Ha F1 F2).
Qed.

(* MakeFromMap: from the empty catalog, in the order the range statement visits the Go map *)
Theorem from_map_refines : forall h m,
  exists h' c', c_from_map keq h m = Ret (h', c') /\ cat_inv h' c' /\ abs h' c' = a_set_all keq [] m /\
                same_on (fun _ => True) h h'.
Proof.
  intros h m. destruct (set_all_refines m h c_make (inv_make h)) as (h' & c' & E & I & A & [S _]).
  exists h', c'. split; [exact E|]. split; [exact I|]. split; [exact A|].
  apply (same_on_weaken _ _ h h' (fun i _ => (fun X : In i [] => X)) S).
Qed.

Theorem load_refines : forall arr h c, cat_inv h c -> sep h c arr ->
  exists h' c', c_load keq h c arr = Ret (h', c') /\ cat_inv h' c' /\
                abs h' c' = a_set_all keq (abs h c) (map (deref h) arr) /\ frame h c h' c'.
Proof.
  induction arr as [|i t IH]; intros h c I S; cbn [c_load map].
  - exists h, c. split; [reflexivity|]. split; [exact I|]. split; [reflexivity|apply frame_refl].
  - inversion S as [|? ? [Hi Hni] St]; subst.
    rewrite (h_get_alloc h i Hi). destruct (deref h i) as [k v] eqn:Ed.
    destruct (set_value_refines h c k v I) as (h1 & c1 & E1 & I1 & A1 & F1). rewrite E1. cbn [out_bind fst snd].
    destruct (frame_sep h c h1 c1 t F1 St) as [S1 M1].
    destruct (IH h1 c1 I1 S1) as (h2 & c2 & E2 & I2 & A2 & F2). exists h2, c2. split; [exact E2|]. split; [exact I2|].
    split; [rewrite A2, A1, M1; reflexivity|]. destruct I as (_ & Ha & _). apply (frame_trans h c h1 c1 h2 c2 Ha F1 F2).
Qed.

Lemma same_on_all : forall (h h' : heap) c', frame h (c_make : cat) h' c' -> same_on (fun _ => True) h h'.
Proof. intros h h' c' [S _]. apply (same_on_weaken _ _ h h' (fun i _ => (fun X : In i [] => X)) S). Qed.

Lemma inv_same_all : forall h h' c, cat_inv h c -> same_on (fun _ => True) h h' -> cat_inv h' c /\ abs h' c = abs h c.
Proof. intros h h' c I S. apply (inv_same h h' c I). apply (same_on_weaken _ _ h h' (fun _ _ => Logic.I) S). Qed.

Lemma abs_length : forall h (c : cat), length (abs h c) = length (c_assocs c).
Proof. intros. unfold abs. apply map_length. Qed.

(* reading the copies made by AsArray yields the abstraction *)
Lemma copies_read : forall h c, cat_inv h c ->
  map (deref (h ++ abs h c)) (seq (length h) (length (c_assocs c))) = abs h c.
Proof.
  intros h c I. destruct (as_array_spec h c I) as [_ E2].
  assert (Ha : alloc (h ++ abs h c) (seq (length h) (length (c_assocs c)))).
  { apply (sep_alloc _ (c_make : cat)). rewrite <- (abs_length h c). apply sep_fresh. constructor. }
  rewrite (read_all_alloc _ _ Ha) in E2. injection E2 as E2. exact E2.
Qed.

(* Merge(first, second): a NEW catalog; no existing cell is written, so both operands (which may be the same
   catalog) keep their invariant and their contents *)
Theorem merge_refines : forall h a b, cat_inv h a -> cat_inv h b ->
  exists h' c', c_merge keq h a b = Ret (h', c') /\ cat_inv h' c' /\
                abs h' c' = a_merge keq (abs h a) (abs h b) /\ same_on (fun _ => True) h h'.
Proof.
  intros h a b Ia Ib. unfold c_merge, c_from_sequence.
  destruct (as_array_spec h a Ia) as [E1 _]. rewrite E1. cbn [out_bind fst snd].
  set (h1 := h ++ abs h a).
  assert (S1 : sep h1 (c_make : cat) (seq (length h) (length (c_assocs a)))).
  { rewrite <- (abs_length h a). apply sep_fresh. constructor. }
  destruct (load_refines _ h1 c_make (inv_make h1) S1) as (h2 & c2 & E2 & I2 & A2 & F2). rewrite E2. cbn [out_bind fst snd].
  unfold h1 in A2. rewrite (copies_read h a Ia) in A2. fold h1 in A2.
  assert (S02 : same_on (fun _ => True) h h2).
  { apply (same_on_trans _ h h1 h2); [apply same_on_app|apply (same_on_all h1 h2 c2 F2)]. }
  destruct (inv_same_all h h2 b Ib S02) as [Ib2 Ab2].
  destruct (as_array_spec h2 b Ib2) as [E3 _]. rewrite E3. cbn [out_bind fst snd].
  set (h3 := h2 ++ abs h2 b).
  destruct (inv_same h2 h3 c2 I2 (same_on_app _ h2 _)) as [I23 A23].
  assert (S3 : sep h3 c2 (seq (length h2) (length (c_assocs b)))).
  { rewrite <- (abs_length h2 b). apply sep_fresh. apply I2. }
  destruct (load_refines _ h3 c2 I23 S3) as (h4 & c4 & E4 & I4 & A4 & F4). exists h4, c4.
  split; [exact E4|]. split; [exact I4|]. split.
  - rewrite A4, A23, A2. unfold h3. rewrite (copies_read h2 b Ib2), Ab2. reflexivity.
  - destruct S02 as [L02 D02]. destruct F4 as [[L34 D34] _]. destruct F2 as [_ N2].
    assert (L23 : length h2 <= length h3) by (unfold h3; rewrite app_length; lia).
    split; [lia|]. intros i Hi _. rewrite D34.
    + unfold h3, deref. rewrite app_nth1 by lia. apply D02; auto.
    + lia.
    + intros X. destruct (N2 i X) as [[]|Y]. unfold h1 in Y. rewrite app_length in Y. lia.
Qed.

Lemma extract_fill_spec : forall arr (h : heap) ex, alloc h arr ->
  extract_fill keq h ex arr = Ret (a_set_all keq ex (map (deref h) arr)).
Proof.
  induction arr as [|i t IH]; intros h ex Ha; cbn [extract_fill map]; [reflexivity|].
  inversion Ha as [|? ? Hi Ht]; subst. rewrite (h_get_alloc h i Hi). destruct (deref h i) as [k v] eqn:Ed.
  rewrite (IH h _ Ht). reflexivity.
Qed.

Lemma extract_loop_spec : forall ex ks h r, cat_inv h r ->
  exists h' r', extract_loop keq h ex r ks = Ret (h', r') /\ cat_inv h' r' /\
    abs h' r' = fold_left (fun acc k => match a_get keq ex k with Some v => a_set keq acc k v | None => acc end) ks (abs h r) /\
    frame h r h' r'.
Proof.
  intros ex. induction ks as [|k t IH]; intros h r I; cbn [extract_loop fold_left].
  - exists h, r. split; [reflexivity|]. split; [exact I|]. split; [reflexivity|apply frame_refl].
  - destruct (a_get keq ex k) as [v|]; [|apply IH; exact I].
    destruct (set_value_refines h r k v I) as (h1 & r1 & E1 & I1 & A1 & F1). rewrite E1. cbn [out_bind fst snd].
    destruct (IH h1 r1 I1) as (h2 & r2 & E2 & I2 & A2 & F2). exists h2, r2. split; [exact E2|]. split; [exact I2|].
    split; [rewrite A2, A1; reflexivity|]. destruct I as (_ & Ha & _). apply (frame_trans h r h1 r1 h2 r2 Ha F1 F2).
Qed.

Theorem extract_refines : forall h c ks, cat_inv h c ->
  exists h' c', c_extract keq h c ks = Ret (h', c') /\ cat_inv h' c' /\
                abs h' c' = a_extract keq (abs h c) ks /\ same_on (fun _ => True) h h'.
Proof.
  intros h c ks I. unfold c_extract.
  destruct (as_array_spec h c I) as [E1 _]. rewrite E1. cbn [out_bind fst snd].
  set (h1 := h ++ abs h c).
  assert (Ha : alloc h1 (seq (length h) (length (c_assocs c)))).
  { apply (sep_alloc _ (c_make : cat)). rewrite <- (abs_length h c). apply sep_fresh. constructor. }
  rewrite (extract_fill_spec _ h1 [] Ha). cbn [out_bind]. unfold h1 at 2. rewrite (copies_read h c I).
  assert (Efresh : a_set_all keq [] (abs h c) = abs h c).
  { apply (a_set_all_fresh K V keq keq_sym (abs h c) []). cbn [app]. apply I. }
  rewrite Efresh.
  destruct (extract_loop_spec (abs h c) ks h1 c_make (inv_make h1)) as (h2 & c2 & E2 & I2 & A2 & F2).
  exists h2, c2. split; [exact E2|]. split; [exact I2|]. split; [exact A2|].
  apply (same_on_trans _ h h1 h2); [apply same_on_app|apply (same_on_all h1 h2 c2 F2)].
Qed.

(* MakeFromSequence / MakeFromArray over association objects that live in the heap (a list or a Go array of
   associations): the objects are only read *)
Theorem from_sequence_refines : forall h arr, alloc h arr ->
  exists h' c', c_from_sequence keq h arr = Ret (h', c') /\ cat_inv h' c' /\
                abs h' c' = a_set_all keq [] (map (deref h) arr) /\ same_on (fun _ => True) h h'.
Proof.
  intros h arr Ha. unfold c_from_sequence.
  assert (S : sep h (c_make : cat) arr).
  { unfold sep, alloc in *. rewrite Forall_forall in *. intros i Hi. split; [apply Ha; exact Hi|intros []]. }
  destruct (load_refines arr h c_make (inv_make h) S) as (h' & c' & E & I & A & F).
  exists h', c'. split; [exact E|]. split; [exact I|]. split; [exact A|apply (same_on_all h h' c' F)].
Qed.

(* ---------- from the empty catalog ---------- *)
Theorem crun_from_empty : forall ops,
  exists h c, crun vzero keq cinit ops = Ret ((h, c), snd (srun vzero keq [] ops)) /\
              cat_inv h c /\ abs h c = fst (srun vzero keq [] ops).
Proof.
  intros ops. destruct (crun_refines ops [] c_make (inv_make [])) as (h & c & E & I & A & _).
  exists h, c. split; [exact E|]. split; [exact I|exact A].
Qed.

(* C03, title clause, for the two-structure machine: after ANY history the key index and the ordered list
   describe the same associations *)
Theorem index_and_order_agree : forall ops h c obs, crun vzero keq cinit ops = Ret ((h, c), obs) ->
  cat_inv h c /\
  c_get_keys h c = Ret (map fst (abs h c)) /\
  (exists h' arr, c_as_array h c = Ret (h', arr) /\ read_all h' arr = Ret (abs h c)) /\
  (exists h' it, c_get_iterator h c = Ret (h', it) /\ drain (S (it_size it)) h' it = Ret (abs h c)) /\
  c_get_size c = length (abs h c) /\ length (c_keys c) = length (abs h c) /\
  (forall k, c_get_value vzero keq h c k = Ret (a_get_or_zero vzero keq (abs h c) k)) /\
  (forall k v, In (k, v) (abs h c) -> keq k k = true -> c_get_value vzero keq h c k = Ret v) /\
  (forall k, a_get keq (c_keys c) k = None <-> a_get keq (abs h c) k = None) /\
  wf (abs h c).
Proof.
  intros ops h c obs R. destruct (crun_from_empty ops) as (h' & c' & E & I & _). rewrite E in R. injection R as <- <- _.
  split; [exact I|]. split; [apply get_keys_refines; exact I|].
  destruct (as_array_spec h' c' I) as [E1 E2].
  split; [eexists; eexists; split; [exact E1|exact E2]|]. split.
  { unfold c_get_iterator. rewrite E1. cbn [out_map fst snd]. eexists. eexists. split; [reflexivity|].
    change (it_make (seq (length h') (length (c_assocs c'))))
      with {| it_vals := [] ++ seq (length h') (length (c_assocs c')); it_slot := length (@nil id) |}.
    rewrite drain_spec by (unfold it_size; cbn [it_vals app]; lia). exact E2. }
  split; [apply size_refines|]. split; [rewrite abs_length; apply (keys_length h' c' I)|].
  split; [intros k; apply get_value_refines; exact I|]. split.
  { intros k v Hin Hr. rewrite (get_value_refines h' c' k I). f_equal. unfold a_get_or_zero.
    assert (G : a_get keq (abs h' c') k = Some v).
    { apply (views_agree_at K V keq keq_sym (abs h' c')); [apply I|exact Hin|exact Hr]. }
    rewrite G. reflexivity. }
  split; [|apply I].
  intros k. rewrite (keys_lookup h' c' k I). unfold abs. rewrite a_get_abs.
  destruct (lk h' (c_assocs c') k); cbn; split; intros X; try discriminate; reflexivity.
Qed.

End CatalogProofs.

(* ---------- the instance the pool uses: Go values, Go's "==" (Value.keq: symmetric and transitive) ---------- *)
Definition vinv (zero : val) : heap val val -> cat val -> Prop := cat_inv val val VNil zero Value.keq.
Definition vabs (zero : val) : heap val val -> cat val -> list (val * val) := abs val val VNil zero.
Definition vframe (zero : val) := frame val val VNil zero.
Definition vsame (zero : val) := same_on val val VNil zero (fun _ => True).

Definition val_cstep_refines zero := cstep_refines val val VNil zero Value.keq keq_sym keq_trans.
Definition val_crun_refines zero := crun_refines val val VNil zero Value.keq keq_sym keq_trans.
Definition val_crun_from_empty zero := crun_from_empty val val VNil zero Value.keq keq_sym keq_trans.
Definition val_index_and_order_agree zero := index_and_order_agree val val VNil zero Value.keq keq_sym keq_trans.
Definition val_snapshot_independent zero := snapshot_independent val val VNil zero Value.keq keq_sym keq_trans.
Definition val_set_value_refines zero := set_value_refines val val VNil zero Value.keq keq_sym keq_trans.
Definition val_remove_value_refines zero := remove_value_refines val val VNil zero Value.keq keq_sym keq_trans.
Definition val_merge_refines zero := merge_refines val val VNil zero Value.keq keq_sym keq_trans.
Definition val_extract_refines zero := extract_refines val val VNil zero Value.keq keq_sym keq_trans.
Definition val_from_map_refines zero := from_map_refines val val VNil zero Value.keq keq_sym keq_trans.
Definition val_from_sequence_refines zero := from_sequence_refines val val VNil zero Value.keq keq_sym keq_trans.

(* MakeFromMap of the code-shaped model, fed with the Go map's entries in the order the range statement
   visited them (the oracle order of Pool.step (FromMap ...)): the catalog lists exactly these entries *)
Theorem from_map_oracle : forall zero h okeys m m', wfm val val Value.keq m -> reorder m okeys = Some m' ->
  exists h' c', c_from_map Value.keq h m' = Ret (h', c') /\ vinv zero h' c' /\ vabs zero h' c' = m' /\ vsame zero h h'.
Proof.
  intros zero h okeys m m' W R. destruct (val_from_map_refines zero h m') as (h' & c' & E & I & A & S).
  exists h', c'. split; [exact E|]. split; [exact I|]. split; [|exact S].
  fold (vabs zero) in A. rewrite A. apply (a_set_all_fresh val val Value.keq keq_sym m' []). cbn [app].
  apply (reorder_keeps_mapping okeys m m' W R).
Qed.

(* structural equality of two association objects, as the default collator sees them (the comparison
   List.GetIndex used before fix 0d7f9f0) *)
Definition assoc_seq (a b : val * val) : bool := eq_default (VAssoc (fst a) (snd a)) (VAssoc (fst b) (snd b)).

(* data of the Examples: the 6-step history  a:=1, b:=2, c:=3, b:=20 (repeated key), remove b (the middle
   one), b:=5  — and its observers *)
Definition ex6 : list (cop val val) :=
  [CSet ka (iv 1); CSet kb (iv 2); CSet kc (iv 3); CSet kb (iv 20); CRemove kb; CSet kb (iv 5)].
Definition ex6_heap : heap val val := [(ka, iv 1); (kb, iv 20); (kc, iv 3); (kb, iv 5)].
Definition ex6_cat : cat val := {| c_assocs := [0; 2; 3]; c_keys := [(ka, 0); (kc, 2); (kb, 3)] |}.
(* two pointer keys with distinct identity and equal content (findings/pre-fix/C03-1-9.json is the float
   variant of the same history shape), both mapped to 5 *)
Definition kp1 : val := VPtr 1 7.
Definition kp2 : val := VPtr 2 7.
Definition ex_ptr_heap : heap val val := [(kp1, iv 5); (kp2, iv 5)].
Definition ex_ptr_cat : cat val := {| c_assocs := [0; 1]; c_keys := [(kp1, 0); (kp2, 1)] |}.

Lemma ex_states_from_histories :
  crun (iv 0) Value.keq cinit ex6 = Ret ((ex6_heap, ex6_cat), [BUnit; BUnit; BUnit; BUnit; BVal (iv 20); BUnit]) /\
  crun (iv 0) Value.keq cinit [CSet kp1 (iv 5); CSet kp2 (iv 5)] = Ret ((ex_ptr_heap, ex_ptr_cat), [BUnit; BUnit]).
Proof. split; vm_compute; reflexivity. Qed.

Lemma ex6_inv : vinv (iv 0) ex6_heap ex6_cat.
Proof. exact (proj1 (val_index_and_order_agree (iv 0) ex6 _ _ _ (proj1 ex_states_from_histories))). Qed.
Lemma ex_ptr_inv : vinv (iv 0) ex_ptr_heap ex_ptr_cat.
Proof. exact (proj1 (val_index_and_order_agree (iv 0) _ _ _ _ (proj2 ex_states_from_histories))). Qed.

(* before fix 5269313 AsArray handed out the catalog's own objects: a later SetValue on an existing key
   shows through the array *)
Theorem snapshot_refuted_before_fix :
  exists (zero : val) (h : heap val val) (c : cat val) h2 arr ops h3 c3 obs,
    vinv zero h c /\ c_as_array_before_fix h c = Ret (h2, arr) /\ read_all h2 arr = Ret (vabs zero h c) /\
    crun zero Value.keq (h2, c) ops = Ret ((h3, c3), obs) /\ read_all h3 arr <> Ret (vabs zero h c).
Proof.
  exists (iv 0), ex6_heap, ex6_cat, ex6_heap, [0; 2; 3], [CSet ka (iv 9)].
  eexists. eexists. eexists. split; [exact ex6_inv|]. split; [reflexivity|]. split; [vm_compute; reflexivity|].
  split; [vm_compute; reflexivity|]. vm_compute. discriminate.
Qed.

(* before fix 0d7f9f0 RemoveValue located the list entry with the structural GetIndex: with two pointer keys
   of equal content the entry of the OTHER key leaves the list, the index loses the requested key: the key
   that GetKeys still lists reads as zero, the two structures have diverged *)
Theorem remove_refuted_before_fix :
  exists (zero : val) (h : heap val val) (c : cat val) k r c',
    vinv zero h c /\ c_remove_value_before_fix zero Value.keq assoc_seq h c k = Ret (r, c') /\
    vabs zero h c' <> a_remove Value.keq (vabs zero h c) k /\
    c_get_keys h c' = Ret [k] /\ c_get_value zero Value.keq h c' k = Ret zero /\ r <> zero /\
    ~ vinv zero h c'.
Proof.
  exists (iv 0), ex_ptr_heap, ex_ptr_cat, kp2. eexists. eexists.
  split; [exact ex_ptr_inv|]. split; [vm_compute; reflexivity|].
  split; [vm_compute; discriminate|]. split; [vm_compute; reflexivity|]. split; [vm_compute; reflexivity|].
  split; [vm_compute; discriminate|].
  intros (_ & _ & P & _). apply Permutation_length_1 in P. vm_compute in P. discriminate.
Qed.

(* the repaired RemoveValue on the same state removes the requested entry *)
Lemma remove_after_fix_example :
  c_remove_value (iv 0) Value.keq ex_ptr_heap ex_ptr_cat kp2 =
    Ret (iv 5, {| c_assocs := [0]; c_keys := [(kp1, 0)] |}).
Proof. vm_compute. reflexivity. Qed.

Print Assumptions crun_refines.
Print Assumptions index_and_order_agree.
Print Assumptions snapshot_independent.
Print Assumptions merge_refines.
Print Assumptions extract_refines.
Print Assumptions snapshot_refuted_before_fix.
Print Assumptions remove_refuted_before_fix.
