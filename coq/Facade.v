(* Facade.v — model of the universal (module-level) constructors of v4/Module.go:
   Association, Array, Catalog, List, Map, Queue, Set, Stack.
   Each constructor is transcribed in two parts, as in the code:
     1. the [for _, argument := range arguments { switch ... }] loop that assigns every argument
        to a slot (a later argument overwrites an earlier one of the same slot; an argument
        that no case accepts panics);
     2. the final [switch] whose PRIORITY picks the class-level constructor.
   The class-level constructors are the ones of the pool model (Pool.v: [step] on MakeEmpty,
   MakeArr, MakeCap, MakeSetColl, FromArray, FromSeq, FromMap), so that "same kind, contents,
   order and capacity" is equality of [obj].  The CDCN parser is NOT modelled here: a source
   argument carries the collection that ParseSource returned for its text (supplied, per
   case, by the harness) and the model covers what the facade does with it: the assertion to
   a sequence, the element-wise conversion to the element type and the insertion.
   The model is the behaviour after the repairs listed in docs/C20.md.  Definitions only. *)
From Verif Require Import Base Sorter Value Seq Coll Pool Params.
Open Scope Z_scope.

Inductive fkind := FAssociation | FArray | FCatalog | FList | FMap | FQueue | FSet | FStack.

(* element / key types of the instantiation *)
Inductive ety := TInt64 | TUint64 | TFloat64 | TString | TRune | TBool | TAny.

(* "the value has dynamic type t" — the Go type assertion v.(T) succeeds.  A nil interface
   value satisfies no assertion, not even to [any]. *)
Definition has_ty (t : ety) (v : val) : bool :=
  match t, v with
  | TInt64, VInt w _ => w =? 64
  | TUint64, VUint w _ => w =? 64
  | TFloat64, VFloat w _ => w =? 64
  | TString, VStr _ => true
  | TRune, VRune _ => true
  | TBool, VBool _ => true
  | TAny, VNil => false
  | TAny, _ => true
  | _, _ => false
  end.

Definition zero_of (t : ety) : val :=
  match t with
  | TInt64 => VInt 64 0
  | TUint64 => VUint 64 0
  | TFloat64 => VFloat 64 0
  | TString => VStr []
  | TRune => VRune 0
  | TBool => VBool false
  | TAny => VNil
  end.

(* asType[T](value): the conversion of an item parsed from a source; the parsed nil is the
   zero value of an interface type, every other mismatch panics (None) *)
Definition as_type (t : ety) (v : val) : option val :=
  match v with
  | VNil => match t with TAny => Some VNil | _ => None end
  | _ => if has_ty t v then Some v else None
  end.

Fixpoint convert_all (t : ety) (items : list val) : option (list val) :=
  match items with
  | [] => Some []
  | x :: rest =>
    match as_type t x, convert_all t rest with
    | Some v, Some vs => Some (v :: vs)
    | _, _ => None
    end
  end.

Fixpoint convert_pairs (tk tv : ety) (kvs : list (val * val)) : option (list (val * val)) :=
  match kvs with
  | [] => Some []
  | (k, v) :: rest =>
    match as_type tk k, as_type tv v, convert_pairs tk tv rest with
    | Some k', Some v', Some r => Some ((k', v') :: r)
    | _, _, _ => None
    end
  end.

(* what ParseSource did with the text of a source argument *)
Inductive parsed := PColl (v : val) | PPanic.

(* the assertion  ParseSource(source).(Sequential[any]) : every sequence kind, no catalog or map *)
Definition parsed_items (p : parsed) : option (list val) :=
  match p with
  | PColl (VSeq KSlice _) => None
  | PColl (VSeq _ l) => Some l
  | _ => None
  end.
(* the assertion  ParseSource(source).(Sequential[AssociationLike[any, any]]) : catalogs and maps *)
Definition parsed_pairs (p : parsed) : option (list (val * val)) :=
  match p with
  | PColl (VMapping MCatalog ks vs) => Some (zipkv ks vs)
  | PColl (VMapping MMap ks vs) => Some (zipkv ks vs)
  | _ => None
  end.

(* the arguments of a call *)
Inductive arg :=
| ANotation                                   (* a NotationLike *)
| AInt (z : Z)                                (* a Go int *)
| AUint (z : Z)                               (* a Go uint *)
| ASlice (vs : list val)                      (* a non-nil []V of the constructor's own V *)
| ASeq (k : skind) (vs : list val)            (* a Sequential[V]; vs = what its iterator yields *)
| AGoMap (kvs : list (val * val)) (okeys : list val)      (* a map[K]V; okeys: oracle for its iteration order *)
| AAssocSlice (kvs : list (val * val))        (* a []AssociationLike[K, V] *)
| AAssocSeq (kvs : list (val * val)) (okeys : list val)   (* a Sequential[AssociationLike[K, V]]; okeys = [] when it is ordered *)
| AString (text : list Z) (p : parsed)        (* a Go string and what ParseSource makes of it *)
| ACollator (c : nat)                         (* a CollatorLike[V]: ranker c of Pool.v *)
| AVal (v : val)                              (* any other value of the universe (association arguments) *)
| AOther.                                     (* a value (or nil) that no case of any constructor accepts *)

(* the oracle for the iteration order of an unordered source: the pairs in the observed key
   order when that is a rearrangement of the keys, the given order otherwise *)
Definition ordered (kvs : list (val * val)) (okeys : list val) : list (val * val) :=
  match reorder kvs okeys with
  | Some m => m
  | None => kvs
  end.

(* ---------- part 1: the assignment loops ---------- *)
Record slots := {
  s_size : Z;  s_has_size : bool;                          (* size / capacity *)
  s_values : option (list val);                            (* values []V *)
  s_seq : option (list val);                               (* sequence Sequential[V] *)
  s_text : list Z;  s_parsed : parsed;                     (* source string *)
  s_coll : option nat;                                     (* collator *)
  s_assocs : option (list (val * val));                    (* associations []AssociationLike[K, V] *)
  s_map : option (list (val * val));                       (* mappings map[K]V, in iteration order *)
  s_aseq : option (list (val * val))                       (* sequence Sequential[AssociationLike[K, V]] *)
}.
Definition slots0 : slots :=
  {| s_size := 0; s_has_size := false; s_values := None; s_seq := None; s_text := []; s_parsed := PPanic;
     s_coll := None; s_assocs := None; s_map := None; s_aseq := None |}.

Definition set_size (s : slots) (z : Z) : slots :=
  {| s_size := z; s_has_size := true; s_values := s_values s; s_seq := s_seq s; s_text := s_text s; s_parsed := s_parsed s;
     s_coll := s_coll s; s_assocs := s_assocs s; s_map := s_map s; s_aseq := s_aseq s |}.
Definition set_values (s : slots) (l : list val) : slots :=
  {| s_size := s_size s; s_has_size := s_has_size s; s_values := Some l; s_seq := s_seq s; s_text := s_text s; s_parsed := s_parsed s;
     s_coll := s_coll s; s_assocs := s_assocs s; s_map := s_map s; s_aseq := s_aseq s |}.
Definition set_seq (s : slots) (l : list val) : slots :=
  {| s_size := s_size s; s_has_size := s_has_size s; s_values := s_values s; s_seq := Some l; s_text := s_text s; s_parsed := s_parsed s;
     s_coll := s_coll s; s_assocs := s_assocs s; s_map := s_map s; s_aseq := s_aseq s |}.
Definition set_source (s : slots) (t : list Z) (p : parsed) : slots :=
  {| s_size := s_size s; s_has_size := s_has_size s; s_values := s_values s; s_seq := s_seq s; s_text := t; s_parsed := p;
     s_coll := s_coll s; s_assocs := s_assocs s; s_map := s_map s; s_aseq := s_aseq s |}.
Definition set_coll (s : slots) (c : nat) : slots :=
  {| s_size := s_size s; s_has_size := s_has_size s; s_values := s_values s; s_seq := s_seq s; s_text := s_text s; s_parsed := s_parsed s;
     s_coll := Some c; s_assocs := s_assocs s; s_map := s_map s; s_aseq := s_aseq s |}.
Definition set_assocs (s : slots) (l : list (val * val)) : slots :=
  {| s_size := s_size s; s_has_size := s_has_size s; s_values := s_values s; s_seq := s_seq s; s_text := s_text s; s_parsed := s_parsed s;
     s_coll := s_coll s; s_assocs := Some l; s_map := s_map s; s_aseq := s_aseq s |}.
Definition set_map (s : slots) (l : list (val * val)) : slots :=
  {| s_size := s_size s; s_has_size := s_has_size s; s_values := s_values s; s_seq := s_seq s; s_text := s_text s; s_parsed := s_parsed s;
     s_coll := s_coll s; s_assocs := s_assocs s; s_map := Some l; s_aseq := s_aseq s |}.
Definition set_aseq (s : slots) (l : list (val * val)) : slots :=
  {| s_size := s_size s; s_has_size := s_has_size s; s_values := s_values s; s_seq := s_seq s; s_text := s_text s; s_parsed := s_parsed s;
     s_coll := s_coll s; s_assocs := s_assocs s; s_map := s_map s; s_aseq := Some l |}.

(* which cases the type switch of each constructor has *)
Definition takes_size (k : fkind) : bool := match k with FArray | FQueue | FStack => true | _ => false end.
Definition takes_values (k : fkind) : bool := match k with FArray | FList | FQueue | FSet | FStack => true | _ => false end.
Definition takes_pairs (k : fkind) : bool := match k with FCatalog | FMap => true | _ => false end.
Definition takes_collator (k : fkind) : bool := match k with FSet => true | _ => false end.

(* one iteration of the loop of a collection constructor; None = "Unknown argument type" panic
   (or the nil-pointer panic of reflect on a nil argument).
   A negative int converts to a uint near 2^64: the make of the array / channel panics; the
   model answers Panic for every kind (a Stack would get an astronomic capacity: not covered,
   the harness generates no negative sizes).  Strings are always given as AString and Go
   ints as AInt / AUint in calls of collection constructors; AVal is a value of another type. *)
Definition accept (k : fkind) (s : slots) (a : arg) : option slots :=
  match a with
  | ANotation => Some s
  | AInt z | AUint z => if takes_size k && (0 <=? z) then Some (set_size s z) else None
  | ASlice vs => if takes_values k then Some (set_values s vs) else None
  | ASeq _ vs => if takes_values k then Some (set_seq s vs) else None
  | AString t p => Some (set_source s t p)
  | ACollator c => if takes_collator k then Some (set_coll s c) else None
  | AAssocSlice kvs => if takes_pairs k then Some (set_assocs s kvs) else None
  | AGoMap kvs okeys => if takes_pairs k then Some (set_map s (ordered kvs okeys)) else None
  | AAssocSeq kvs okeys => if takes_pairs k then Some (set_aseq s (ordered kvs okeys)) else None
  | AVal _ | AOther => None
  end.

Fixpoint assign (k : fkind) (s : slots) (args : list arg) : option slots :=
  match args with
  | [] => Some s
  | a :: rest =>
    match accept k s a with
    | Some s' => assign k s' rest
    | None => None
    end
  end.

(* ---------- the class-level constructors: the pool model ---------- *)
Definition ckind_of (k : fkind) : ckind :=
  match k with
  | FArray => CArray | FList => CList | FSet => CSet | FStack => CStack | FQueue => CQueue
  | FCatalog => CCatalog | FMap => CMap
  | FAssociation => CList    (* unused *)
  end.

(* run one constructor op of the pool model on a pool holding its operands; the new object *)
Definition via_step (zero : val) (p : pool) (o : op) : out obj :=
  match step zero p o with
  | (p', RNew) => Ret (nth (length p) p' ODead)
  | (_, RHang) => Hang
  | (_, _) => Panic
  end.

Inductive cform :=
| CMake                                            (* Make() *)
| CSize (n : nat)                                  (* Array.Make(n), Stack/Queue.MakeWithCapacity(n) *)
| CFromArray (l : list val)                        (* MakeFromArray([]V) *)
| CFromSeq (l : list val)                          (* MakeFromSequence(Sequential[V]) *)
| CFromAssocArray (kvs : list (val * val))         (* Catalog/Map.MakeFromArray *)
| CFromAssocSeq (kvs : list (val * val))           (* Catalog/Map.MakeFromSequence *)
| CFromMap (kvs : list (val * val))                (* Catalog/Map.MakeFromMap, pairs in iteration order *)
| CWithCollator (c : nat) (l : list val).          (* Set.MakeWithCollator(c), then AddValue of each of l *)

Definition class_ctor (k : fkind) (t : ety) (f : cform) : out obj :=
  let z := zero_of t in
  let ck := ckind_of k in
  match f with
  | CMake => match k with FArray | FAssociation => Panic | _ => via_step z [] (MakeEmpty ck) end
  | CSize n => match k with
               | FArray => via_step z [] (MakeArr n)
               | FStack | FQueue => via_step z [] (MakeCap ck n)
               | _ => Panic
               end
  | CFromArray l => via_step z [OSlice l] (FromArray ck 0)
  | CFromSeq l => via_step z [OArr l] (FromSeq ck 0 [])
  | CFromAssocArray kvs => via_step z [OSlice (assoc_vals kvs)] (FromArray ck 0)
  | CFromAssocSeq kvs => via_step z [OArr (assoc_vals kvs)] (FromSeq ck 0 [])
  | CFromMap kvs => via_step z [OGoMap kvs] (FromMap ck 0 (map fst kvs))
  | CWithCollator c l =>
    match k with
    | FSet => out_map (OSet c) (set_add_all z (ranker c) [] l)
    | _ => Panic
    end
  end.

(* ---------- part 2: the final switch of each constructor ---------- *)
Definition nonempty {A} (o : option (list A)) : bool :=
  match o with Some (_ :: _) => true | _ => false end.
Definition has_text (s : slots) : bool := match s_text s with [] => false | _ => true end.
Definition get_list {A} (o : option (list A)) : list A := match o with Some l => l | None => [] end.

(* Array source: Make(size), then SetValue(index, value) for index = 1, 2, ... *)
Fixpoint array_fill (t : ety) (arr : list val) (index : Z) (items : list val) : out (list val) :=
  match items with
  | [] => Ret arr
  | x :: rest =>
    match as_type t x with
    | None => Panic
    | Some v => out_bind (set_value arr index v) (fun arr' => array_fill t arr' (index + 1) rest)
    end
  end.
Definition array_from_source (t : ety) (items : list val) : out (list val) :=
  array_fill t (repeat (zero_of t) (length items)) 1 items.

(* the converted items of a sequence source; None = some assertion fails *)
Definition source_values (t : ety) (s : slots) : option (list val) :=
  match parsed_items (s_parsed s) with
  | Some items => convert_all t items
  | None => None
  end.
Definition source_pairs (tk tv : ety) (s : slots) : option (list (val * val)) :=
  match parsed_pairs (s_parsed s) with
  | Some kvs => convert_pairs tk tv kvs
  | None => None
  end.

Definition finish_array (t : ety) (s : slots) : out obj :=
  if 0 <? s_size s then class_ctor FArray t (CSize (Z.to_nat (s_size s)))
  else if nonempty (s_values s) then class_ctor FArray t (CFromArray (get_list (s_values s)))
  else match s_seq s with
  | Some l => class_ctor FArray t (CFromSeq l)
  | None =>
    if has_text s then
      match parsed_items (s_parsed s) with
      | Some items => out_map OArr (array_from_source t items)
      | None => Panic
      end
    else if s_has_size s || (match s_values s with Some _ => true | None => false end)
    then class_ctor FArray t (CSize 0)
    else Panic
  end.

Definition finish_list (t : ety) (s : slots) : out obj :=
  if nonempty (s_values s) then class_ctor FList t (CFromArray (get_list (s_values s)))
  else match s_seq s with
  | Some l => class_ctor FList t (CFromSeq l)
  | None =>
    if has_text s then
      match source_values t s with
      | Some vs => Ret (OLst ([] ++ vs))             (* Make(), then AppendValue of each *)
      | None => Panic
      end
    else class_ctor FList t CMake
  end.

Definition finish_queue (t : ety) (s : slots) : out obj :=
  if 0 <? s_size s then class_ctor FQueue t (CSize (Z.to_nat (s_size s)))
  else if nonempty (s_values s) then class_ctor FQueue t (CFromArray (get_list (s_values s)))
  else match s_seq s with
  | Some l => class_ctor FQueue t (CFromSeq l)
  | None =>
    if has_text s then
      match source_values t s with
      | Some vs => class_ctor FQueue t (CFromArray vs)
      | None => Panic
      end
    else class_ctor FQueue t CMake
  end.

Definition finish_stack (t : ety) (s : slots) : out obj :=
  if 0 <? s_size s then class_ctor FStack t (CSize (Z.to_nat (s_size s)))
  else if nonempty (s_values s) then class_ctor FStack t (CFromArray (get_list (s_values s)))
  else match s_seq s with
  | Some l => class_ctor FStack t (CFromSeq l)
  | None =>
    if has_text s then
      match source_values t s with
      | Some vs => class_ctor FStack t (CFromArray vs)
      | None => Panic
      end
    else if s_has_size s then class_ctor FStack t (CSize (Z.to_nat (s_size s)))
    else class_ctor FStack t CMake
  end.

Definition finish_set (t : ety) (s : slots) : out obj :=
  match s_coll s with
  | Some c =>
    if nonempty (s_values s) then class_ctor FSet t (CWithCollator c (get_list (s_values s)))
    else match s_seq s with
    | Some l => class_ctor FSet t (CWithCollator c l)
    | None =>
      if has_text s then
        match source_values t s with
        | Some vs => class_ctor FSet t (CWithCollator c vs)
        | None => Panic
        end
      else class_ctor FSet t (CWithCollator c [])
    end
  | None =>
    if nonempty (s_values s) then class_ctor FSet t (CFromArray (get_list (s_values s)))
    else match s_seq s with
    | Some l => class_ctor FSet t (CFromSeq l)
    | None =>
      if has_text s then
        match source_values t s with
        | Some vs => out_map (OSet 0) (set_add_all (zero_of t) rk_default [] vs)   (* Make(), then AddValue of each *)
        | None => Panic
        end
      else class_ctor FSet t CMake
    end
  end.

Definition finish_pairs (k : fkind) (tk tv : ety) (s : slots) : out obj :=
  if nonempty (s_assocs s) then class_ctor k tv (CFromAssocArray (get_list (s_assocs s)))
  else if nonempty (s_map s) then class_ctor k tv (CFromMap (get_list (s_map s)))
  else match s_aseq s with
  | Some kvs => class_ctor k tv (CFromAssocSeq kvs)
  | None =>
    if has_text s then
      match source_pairs tk tv s with
      | Some kvs =>                                        (* Make(), then SetValue of each *)
        match k with
        | FCatalog => Ret (OCat (a_set_all keq [] kvs))
        | _ => Ret (OMap (a_set_all keq [] kvs))
        end
      | None => Panic
      end
    else class_ctor k tv CMake
  end.

(* ---------- Association ---------- *)
(* the Go value an argument is, as far as the association constructor can tell *)
Definition arg_val (a : arg) : option val :=
  match a with
  | AVal v => Some v
  | AInt z => Some (VInt 0 z)
  | AUint z => Some (VUint 0 z)
  | AString t _ => Some (VStr t)
  | ASlice vs => Some (VSeq KSlice vs)
  | _ => None
  end.

(* key, value and whether each was seen: "case K" comes before "case V"; an argument that
   is both a K and a V is the value when a key was already seen and no value yet *)
Fixpoint assoc_loop (tk tv : ety) (key value : option val) (args : list arg) : option (option val * option val) :=
  match args with
  | [] => Some (key, value)
  | ANotation :: rest => assoc_loop tk tv key value rest
  | a :: rest =>
    match arg_val a with
    | None => None
    | Some x =>
      if has_ty tk x then
        match key, value with
        | Some _, None => if has_ty tv x then assoc_loop tk tv key (Some x) rest
                          else assoc_loop tk tv (Some x) value rest
        | _, _ => assoc_loop tk tv (Some x) value rest
        end
      else if has_ty tv x then assoc_loop tk tv key (Some x) rest
      else None
    end
  end.

Definition is_nil (v : val) : bool := match v with VNil => true | _ => false end.

Inductive fres := FObj (o : obj) | FAssoc (k v : val).

Definition association (tk tv : ety) (args : list arg) : out fres :=
  match assoc_loop tk tv None None args with
  | None => Panic
  | Some (key, value) =>
    let k := match key with Some x => x | None => zero_of tk end in
    let v := match value with Some x => x | None => zero_of tv end in
    (* "The constructor for an association requires a key and value." (invalid reflect value = nil interface) *)
    if is_nil k || is_nil v then Panic else Ret (FAssoc k v)
  end.

(* ---------- the eight universal constructors ---------- *)
Definition facade (k : fkind) (tk tv : ety) (args : list arg) : out fres :=
  match k with
  | FAssociation => association tk tv args
  | _ =>
    match assign k slots0 args with
    | None => Panic
    | Some s =>
      out_map FObj
        match k with
        | FArray => finish_array tv s
        | FList => finish_list tv s
        | FQueue => finish_queue tv s
        | FStack => finish_stack tv s
        | FSet => finish_set tv s
        | _ => finish_pairs k tk tv s
        end
    end
  end.
