(* ModuleSem.v — the MEANING of the table that tools/gomodule regenerates from v4/Module.go (GenModule.v,
   syntax in ModuleLang.v): an interpreter over the argument universe of Facade.v.  Definitions only.

   * Go's type switch: the first case whose type list contains a type the dynamic value has ([arg_is]).
     With generic instantiation: `case K` matches every argument that has the key type — also one that is a V
     as well; under K = any every non-nil argument, a notation object included.
   * locals hold [mval]s; a local of slice / map / interface type is [MNone] while it is nil, a string local is
     the empty string [AString [] PPanic]; K / V typed locals start as the zero value of the type.
   * the class-level constructors are [Facade.class_ctor] (the pool model), the element conversion is
     [Facade.as_type], the assertions on the parsed collection are [Facade.parsed_items] / [parsed_pairs].
   * the loop variable is normalised ([norm_arg]): the oracle for the iteration order of an unordered source is
     applied when the argument is bound, the kind of a sequence object is dropped (nothing reads it).
   * a statement or expression without meaning here (SUnknown, EUnknown, an ill-typed use) is [RStuck]; the
     run of a constructor then answers [Hang], which no theorem about Facade.v equals.
   * [FOutside]: the call returns an object that the model's universe cannot express (an association whose key
     or value is a notation / collection object, possible under K or V = any). *)
From Coq Require Import String.
From Verif Require Import Base Sorter Value Seq Coll Pool Params Facade ModuleLang GenModule.
Open Scope Z_scope.

Inductive mval :=
| MZ (z : Z) | MB (b : bool)
| MNone                              (* nil / unset / a value nothing reads *)
| MArgV (a : arg)                    (* an argument object *)
| MVal (v : val)                     (* a Go value of the universe *)
| MParsed (p : parsed)               (* what ParseSource returned *)
| MItems (l : list val)              (* the parsed collection asserted to Sequential[any] *)
| MPairs (l : list (val * val))      (* ... to Sequential[AssociationLike[any, any]] *)
| MPair (k v : val)                  (* one parsed association *)
| MObj (o : obj)                     (* a collection *)
| MAssocV (k v : val)                (* an association *)
| MAssocOutside
| MClass (name : string)
| MNotation
| MIface (t : mty)
| MRType (a : arg)
| MRValue (valid : bool).

Inductive fobj := FO (r : fres) | FOutside.

Definition menv := list mval.
Definition lget (e : menv) (n : nat) : mval := nth n e MNone.
Definition lset (e : menv) (n : nat) (m : mval) : menv := set_nth n m e.

Record mctx := { c_tk : ety; c_tv : ety; c_actual : option arg; c_argument : option arg; c_item : mval }.

Inductive ev := EV (m : mval) | EPanic | EHang | EStuck.
Inductive mres := RNormal (e : menv) | RBreak (e : menv) | RReturn (m : mval) | RPanic | RHang | RStuck.

(* ---------- types of arguments ---------- *)
Definition is_any (t : ety) : bool := match t with TAny => true | _ => false end.
(* the dynamic value has the element type t: a value of the universe by [has_ty]; an object (notation,
   collection, collator, ...) is a non-nil Go value and so has the type `any` only *)
Definition arg_has_ety (t : ety) (a : arg) : bool :=
  match arg_val a with
  | Some x => has_ty t x
  | None => match a with AOther => false | _ => is_any t end
  end.

Definition named (t : mty) (pkg name : string) : option (list mty) :=
  match t with
  | TyNamed p n targs => if String.eqb p pkg && String.eqb n name then Some targs else None
  | _ => None
  end.
Definition is_assoc_kv (t : mty) : bool :=
  match named t "collection" "AssociationLike" with Some [TyK; TyV] => true | _ => false end.

Definition arg_is (tk tv : ety) (t : mty) (a : arg) : bool :=
  match t with
  | TyK => arg_has_ety tk a
  | TyV => arg_has_ety tv a
  | TyBasic n =>
    if String.eqb n "int" then match a with AInt _ => true | _ => false end
    else if String.eqb n "uint" then match a with AUint _ => true | _ => false end
    else if String.eqb n "string" then match a with AString _ _ => true | _ => false end
    else false
  | TySlice TyV => match a with ASlice _ => true | _ => false end
  | TySlice u => if is_assoc_kv u then match a with AAssocSlice _ => true | _ => false end else false
  | TyMap TyK TyV => match a with AGoMap _ _ => true | _ => false end
  | TyNamed _ _ _ =>
    match named t "collection" "NotationLike", named t "agent" "CollatorLike", named t "collection" "Sequential" with
    | Some [], _, _ => match a with ANotation => true | _ => false end
    | _, Some [TyV], _ => match a with ACollator _ => true | _ => false end
    | _, _, Some [TyV] => match a with ASeq _ _ => true | _ => false end
    | _, _, Some [u] => if is_assoc_kv u then match a with AAssocSeq _ _ => true | _ => false end else false
    | _, _, _ => false
    end
  | _ => false
  end.

Definition norm_arg (a : arg) : arg :=
  match a with
  | ASeq _ vs => ASeq KList vs
  | AGoMap kvs okeys => AGoMap (ordered kvs okeys) []
  | AAssocSeq kvs okeys => AAssocSeq (ordered kvs okeys) []
  | x => x
  end.

Definition ety_of (c : mctx) (t : mty) : option ety :=
  match t with TyK => Some (c_tk c) | TyV => Some (c_tv c) | _ => None end.

Definition zero_val (c : mctx) (t : mty) : mval :=
  match t with
  | TyK => MVal (zero_of (c_tk c))
  | TyV => MVal (zero_of (c_tv c))
  | TyBasic n =>
    if String.eqb n "uint" || String.eqb n "int" then MZ 0
    else if String.eqb n "bool" then MB false
    else if String.eqb n "string" then MArgV (AString [] PPanic)
    else MNone
  | _ => MNone
  end.

Definition fkind_of (name : string) : option fkind :=
  if String.eqb name "Association" then Some FAssociation else if String.eqb name "Array" then Some FArray
  else if String.eqb name "Catalog" then Some FCatalog else if String.eqb name "List" then Some FList
  else if String.eqb name "Map" then Some FMap else if String.eqb name "Queue" then Some FQueue
  else if String.eqb name "Set" then Some FSet else if String.eqb name "Stack" then Some FStack else None.

Definition to_val (m : mval) : option val :=
  match m with MVal v => Some v | MArgV a => arg_val a | MZ z => Some (VUint 0 z) | _ => None end.

Definition of_out (o : out obj) : ev :=
  match o with Ret x => EV (MObj x) | Panic => EPanic | Hang => EHang end.

Definition two64 : Z := 18446744073709551616.
Definition to_uint (z : Z) : Z := if z <? 0 then z + two64 else z.

(* the class-level constructors *)
Definition class_call (c : mctx) (cls meth : string) (args : list mval) : ev :=
  match fkind_of cls with
  | None => EStuck
  | Some k =>
    let t := c_tv c in
    if String.eqb meth "Make" then
      match args with
      | [] => of_out (class_ctor k t CMake)
      | [MZ n] => match k with FArray => of_out (class_ctor k t (CSize (Z.to_nat n))) | _ => EStuck end
      | [x; y] => match k with
                  | FAssociation => match to_val x, to_val y with
                                    | Some kx, Some vy => EV (MAssocV kx vy)
                                    | _, _ => EV MAssocOutside
                                    end
                  | _ => EStuck
                  end
      | _ => EStuck
      end
    else if String.eqb meth "MakeWithCapacity" then
      match args, k with
      | [MZ n], FStack | [MZ n], FQueue => of_out (class_ctor k t (CSize (Z.to_nat n)))
      | _, _ => EStuck
      end
    else if String.eqb meth "MakeFromArray" then
      match args with
      | [MArgV (ASlice l)] => of_out (class_ctor k t (CFromArray l))
      | [MArgV (AAssocSlice kvs)] => of_out (class_ctor k t (CFromAssocArray kvs))
      | _ => EStuck
      end
    else if String.eqb meth "MakeFromSequence" then
      match args with
      | [MArgV (ASeq _ l)] => of_out (class_ctor k t (CFromSeq l))
      | [MArgV (AAssocSeq kvs okeys)] => of_out (class_ctor k t (CFromAssocSeq (ordered kvs okeys)))
      | _ => EStuck
      end
    else if String.eqb meth "MakeFromMap" then
      match args with
      | [MArgV (AGoMap kvs okeys)] => of_out (class_ctor k t (CFromMap (ordered kvs okeys)))
      | _ => EStuck
      end
    else if String.eqb meth "MakeWithCollator" then
      match args with
      | [MArgV (ACollator cl)] => of_out (class_ctor k t (CWithCollator cl []))
      | _ => EStuck
      end
    else EStuck
  end.

Definition seq_any : mty := TyNamed "collection" "Sequential" [TyBasic "any"].
Definition is_seq_any (t : mty) : bool :=
  match named t "collection" "Sequential" with
  | Some [TyBasic n] => String.eqb n "any"
  | _ => false
  end.
Definition is_seq_assoc_any (t : mty) : bool :=
  match named t "collection" "Sequential" with
  | Some [u] => match named u "collection" "AssociationLike" with
                | Some [TyBasic a; TyBasic b] => String.eqb a "any" && String.eqb b "any"
                | _ => false
                end
  | _ => false
  end.

Definition method_call (c : mctx) (recv : mval) (meth : string) (args : list mval) : ev :=
  match recv with
  | MClass cls => class_call c cls meth args
  | MNotation | MArgV ANotation =>
    if String.eqb meth "ParseSource" then
      match args with
      | [MArgV (AString _ (PColl v))] => EV (MParsed (PColl v))
      | [MArgV (AString _ PPanic)] => EPanic
      | _ => EStuck
      end
    else EStuck
  | MItems l => if String.eqb meth "GetSize" then match args with [] => EV (MZ (Z.of_nat (length l))) | _ => EStuck end else EStuck
  | MPairs l => if String.eqb meth "GetSize" then match args with [] => EV (MZ (Z.of_nat (length l))) | _ => EStuck end else EStuck
  | MPair k v =>
    match args with
    | [] => if String.eqb meth "GetKey" then EV (MVal k) else if String.eqb meth "GetValue" then EV (MVal v) else EStuck
    | _ => EStuck
    end
  | MRType a =>
    if String.eqb meth "Implements" then
      match args with
      | [MIface t] => EV (MB (arg_is (c_tk c) (c_tv c) t a))
      | _ => EStuck
      end
    else EStuck
  | MRValue b => if String.eqb meth "IsValid" then match args with [] => EV (MB b) | _ => EStuck end else EStuck
  | _ => EStuck
  end.

Definition bin_op (op : string) (a b : mval) : ev :=
  if String.eqb op "&&" then match a, b with MB x, MB y => EV (MB (x && y)) | _, _ => EStuck end
  else if String.eqb op "||" then match a, b with MB x, MB y => EV (MB (x || y)) | _, _ => EStuck end
  else if String.eqb op ">" then match a, b with MZ x, MZ y => EV (MB (y <? x)) | _, _ => EStuck end
  else if String.eqb op "!=" then
    match a, b with
    | MNone, MNone => EV (MB false)
    | MArgV _, MNone | MNotation, MNone => EV (MB true)
    | _, _ => EStuck
    end
  else EStuck.

Definition len_of (m : mval) : option Z :=
  match m with
  | MNone => Some 0
  | MArgV (ASlice l) => Some (Z.of_nat (length l))
  | MArgV (AString t _) => Some (Z.of_nat (length t))
  | MArgV (AGoMap kvs _) => Some (Z.of_nat (length kvs))
  | MArgV (AAssocSlice kvs) => Some (Z.of_nat (length kvs))
  | _ => None
  end.

Fixpoint eval (c : mctx) (e : menv) (x : mexpr) {struct x} : ev :=
  let evals := (fix go (xs : list mexpr) : option (list mval) + ev :=
                  match xs with
                  | [] => inl (Some [])
                  | y :: r => match eval c e y with
                              | EV m => match go r with inl (Some ms) => inl (Some (m :: ms)) | other => other end
                              | bad => inr bad
                              end
                  end) in
  match x with
  | ELocal n => EV (lget e n)
  | EActual => match c_actual c with Some a => EV (MArgV a) | None => EStuck end
  | EArgument => match c_argument c with Some a => EV (MArgV a) | None => EStuck end
  | ETrue => EV (MB true) | EFalse => EV (MB false) | ENil => EV MNone
  | EInt z => EV (MZ z)
  | EText => EV MNone
  | EConv t y =>
    match t, eval c e y with
    | TyBasic n, EV m =>
      if String.eqb n "uint" then
        match m with
        | MZ z | MArgV (AInt z) => EV (MZ (to_uint z))
        | MArgV (AUint z) => EV (MZ z)
        | _ => EStuck
        end
      else EStuck
    | _, EV _ => EStuck
    | _, bad => bad
    end
  | EAssert t y =>
    match eval c e y with
    | EV (MArgV a) => if arg_is (c_tk c) (c_tv c) t a then EV (MArgV a) else EPanic
    | EV (MParsed p) =>
      if is_seq_any t then match parsed_items p with Some l => EV (MItems l) | None => EPanic end
      else if is_seq_assoc_any t then match parsed_pairs p with Some l => EV (MPairs l) | None => EPanic end
      else EStuck
    | EV _ => EStuck
    | bad => bad
    end
  | EAsType t y =>
    match ety_of c t, eval c e y with
    | Some et, EV (MVal v) => match as_type et v with Some v' => EV (MVal v') | None => EPanic end
    | _, EV _ => EStuck
    | None, _ => EStuck
    | _, bad => bad
    end
  | ELen y => match eval c e y with
              | EV m => match len_of m with Some z => EV (MZ z) | None => EStuck end
              | bad => bad
              end
  | ECap _ => EStuck
  | EMake t args =>
    match t, evals args with
    | TySlice TyV, inl (Some (MZ 0 :: _)) => EV (MArgV (ASlice []))
    | _, inr bad => bad
    | _, _ => EStuck
    end
  | EAppend a b =>
    match eval c e a, eval c e b with
    | EV (MArgV (ASlice l)), EV (MVal v) => EV (MArgV (ASlice (l ++ [v])))
    | EV _, EV _ => EStuck
    | EV _, bad => bad
    | bad, _ => bad
    end
  | EIterNext => EV (c_item c)
  | EMethod recv meth args =>
    match eval c e recv with
    | EV r => match evals args with
              | inl (Some ms) => method_call c r meth ms
              | inl None => EStuck
              | inr bad => bad
              end
    | bad => bad
    end
  | EClassOf pkg name _ args =>
    if String.eqb pkg "collection" then
      match evals args with inl _ => EV (MClass name) | inr bad => bad end
    else EStuck
  | EFun pkg name args =>
    match evals args with
    | inr bad => bad
    | inl None => EStuck
    | inl (Some ms) =>
      if String.eqb pkg "" && String.eqb name "CDCN" then match ms with [] => EV (MArgV ANotation) | _ => EStuck end   (* the default notation object *)
      else if String.eqb pkg "reflect" && String.eqb name "TypeOf" then
        match ms with [MArgV a] => EV (MRType a) | _ => EStuck end
      else if String.eqb pkg "reflect" && String.eqb name "ValueOf" then
        match ms with
        | [m] => match m with
                 | MVal v => EV (MRValue (negb (is_nil v)))
                 | MArgV a => match arg_val a with Some v => EV (MRValue (negb (is_nil v))) | None => EV (MRValue true) end
                 | MZ _ => EV (MRValue true)
                 | _ => EStuck
                 end
        | _ => EStuck
        end
      else EStuck
    end
  | EIfaceType t => EV (MIface t)
  | EBin op a b =>
    match eval c e a, eval c e b with
    | EV x1, EV x2 => bin_op op x1 x2
    | EV _, bad => bad
    | bad, _ => bad
    end
  | ENot y => match eval c e y with EV (MB b) => EV (MB (negb b)) | EV _ => EStuck | bad => bad end
  | EUnknown _ => EStuck
  end.

Fixpoint eval_list (c : mctx) (e : menv) (xs : list mexpr) : option (list mval) + ev :=
  match xs with
  | [] => inl (Some [])
  | y :: r => match eval c e y with
              | EV m => match eval_list c e r with inl (Some ms) => inl (Some (m :: ms)) | other => other end
              | bad => inr bad
              end
  end.

(* methods that change the collection held by a local *)
Definition mutate (c : mctx) (o : obj) (meth : string) (args : list mval) : ev :=
  let z := zero_of (c_tv c) in
  match o, args with
  | OArr l, [MZ i; MVal v] => if String.eqb meth "SetValue" then of_out (out_map OArr (set_value l i v)) else EStuck
  | OLst l, [MVal v] => if String.eqb meth "AppendValue" then EV (MObj (OLst (l ++ [v]))) else EStuck
  | OSet cl l, [MVal v] => if String.eqb meth "AddValue" then of_out (out_map (OSet cl) (set_add z (ranker cl) l v)) else EStuck
  | OSet cl l, [MArgV (ASeq _ vs)] => if String.eqb meth "AddValues" then of_out (out_map (OSet cl) (set_add_all z (ranker cl) l vs)) else EStuck
  | OCat m, [MVal k; MVal v] => if String.eqb meth "SetValue" then EV (MObj (OCat (a_set keq m k v))) else EStuck
  | OMap m, [MVal k; MVal v] => if String.eqb meth "SetValue" then EV (MObj (OMap (a_set keq m k v))) else EStuck
  | _, _ => EStuck
  end.

(* a Go uint held by a local is a number, whether it came from an argument or from a conversion; a plain value is that value *)
Definition canon (m : mval) : mval := match m with MArgV (AUint z) => MZ z | MArgV (AVal v) => MVal v | x => x end.
Definition of_ev (e : menv) (n : nat) (r : ev) : mres :=
  match r with EV m => RNormal (lset e n (canon m)) | EPanic => RPanic | EHang => RHang | EStuck => RStuck end.

(* a loop: `break` leaves it *)
Fixpoint fold_loop {X} (step : X -> menv -> mres) (xs : list X) (e : menv) : mres :=
  match xs with
  | [] => RNormal e
  | x :: r => match step x e with
              | RNormal e' => fold_loop step r e'
              | RBreak e' => RNormal e'
              | other => other
              end
  end.

Definition unbreak (r : mres) : mres := match r with RBreak e => RNormal e | x => x end.

Fixpoint first_case {C} (test : C -> bool) (cases : list (C * list mstmt)) : option (list mstmt) :=
  match cases with
  | [] => None
  | (c, body) :: r => if test c then Some body else first_case test r
  end.
(* the conditions of a tagless switch are evaluated in order until one holds *)
Fixpoint first_cond (c : mctx) (e : menv) (cases : list (mexpr * list mstmt)) : option (list mstmt) + ev :=
  match cases with
  | [] => inl None
  | (x, body) :: r => match eval c e x with
                      | EV (MB true) => inl (Some body)
                      | EV (MB false) => first_cond c e r
                      | EV _ => inr EStuck
                      | bad => inr bad
                      end
  end.

Definition with_actual (c : mctx) (a : arg) : mctx :=
  {| c_tk := c_tk c; c_tv := c_tv c; c_actual := Some a; c_argument := c_argument c; c_item := c_item c |}.
Definition with_argument (c : mctx) (a : arg) : mctx :=
  {| c_tk := c_tk c; c_tv := c_tv c; c_actual := c_actual c; c_argument := Some (norm_arg a); c_item := c_item c |}.
Definition with_item (c : mctx) (m : mval) : mctx :=
  {| c_tk := c_tk c; c_tv := c_tv c; c_actual := c_actual c; c_argument := c_argument c; c_item := m |}.

(* a call of a private helper function of Module.go (GenModule.gen_helpers, by canonical id): the arguments are bound to
   the helper's first locals, the body runs with the caller's type parameters; collections are references: what the helper
   did to a collection it was handed in a local of the caller is visible in that local afterwards *)
Fixpoint find_helper (name : string) (hs : list (string * (nat * gen_ctor))) : option (nat * gen_ctor) :=
  match hs with
  | [] => None
  | (n, h) :: r => if String.eqb n name then Some h else find_helper name r
  end.
Fixpoint write_back (caller : menv) (hargs : list mexpr) (callee : menv) (i : nat) : menv :=
  match hargs with
  | [] => caller
  | ELocal n :: r =>
    match lget callee i with
    | MObj o => write_back (lset caller n (MObj o)) r callee (S i)
    | _ => write_back caller r callee (S i)
    end
  | _ :: r => write_back caller r callee (S i)
  end.
Definition callee_ctx (c : mctx) : mctx :=
  {| c_tk := c_tk c; c_tv := c_tv c; c_actual := None; c_argument := None; c_item := MNone |}.

Section Exec.
Variable args : list arg.                    (* the variadic parameter *)
Variable rec : mctx -> menv -> list mstmt -> mres.   (* the executor for nested blocks *)

Definition exec1 (c : mctx) (e : menv) (s : mstmt) : mres :=
  match s with
  | SDecl n t => RNormal (lset e n (zero_val c t))
  | SAssign n x => of_ev e n (eval c e x)
  | SAssign2 n ok x =>
    match x with
    | EAssert t y =>
      match eval c e y with
      | EV (MArgV a) =>
        if arg_is (c_tk c) (c_tv c) t a then RNormal (lset (lset e n (MArgV a)) ok (MB true))
        else RNormal (lset (lset e n (zero_val c t)) ok (MB false))
      | EV _ => RStuck
      | EPanic => RPanic | EHang => RHang | EStuck => RStuck
      end
    | _ => RStuck
    end
  | SIf x yes no =>
    match eval c e x with
    | EV (MB true) => rec c e yes
    | EV (MB false) => rec c e no
    | EV _ => RStuck
    | EPanic => RPanic | EHang => RHang | EStuck => RStuck
    end
  | SSwitch cases dflt =>
    match first_cond c e cases with
    | inl (Some body) => unbreak (rec c e body)
    | inl None => match dflt with Some body => unbreak (rec c e body) | None => RNormal e end
    | inr EPanic => RPanic | inr EHang => RHang | inr _ => RStuck
    end
  | STypeSwitch cases dflt =>
    match c_argument c with
    | None => RStuck
    | Some a =>
      match first_case (fun ts => existsb (fun t => arg_is (c_tk c) (c_tv c) t a) ts) cases with
      | Some body => unbreak (rec (with_actual c a) e body)
      | None => match dflt with Some body => unbreak (rec (with_actual c a) e body) | None => RNormal e end
      end
    end
  | SBreak => RBreak e
  | SPanic => RPanic
  | SArgLoop body => fold_loop (fun a e' => rec (with_argument c a) e' body) args e
  | SIterLoop coll body =>
    match eval c e coll with
    | EV (MItems l) => fold_loop (fun x e' => rec (with_item c (MVal x)) e' body) l e
    | EV (MPairs l) => fold_loop (fun kv e' => rec (with_item c (MPair (fst kv) (snd kv))) e' body) l e
    | EV _ => RStuck
    | EPanic => RPanic | EHang => RHang | EStuck => RStuck
    end
  | SRange x over body =>
    match eval c e over with
    | EV (MArgV (ASlice l)) => fold_loop (fun v e' => rec c (lset e' x (MVal v)) body) l e
    | EV MNone => RNormal e
    | EV _ => RStuck
    | EPanic => RPanic | EHang => RHang | EStuck => RStuck
    end
  | SExpr x =>
    match x with
    | EMethod (ELocal n) meth margs =>
      match lget e n with
      | MObj o =>
        match eval_list c e margs with
        | inl (Some ms) => of_ev e n (mutate c o meth ms)
        | inl None => RStuck
        | inr EPanic => RPanic | inr EHang => RHang | inr _ => RStuck
        end
      | _ => RStuck
      end
    | EFun pkg name hargs =>
      if String.eqb pkg "" then
        match find_helper name gen_helpers with
        | Some (np, h) =>
          match eval_list c e hargs with
          | inl (Some ms) =>
            if Nat.eqb (List.length ms) np then
              match rec (callee_ctx c) ((ms ++ repeat MNone (g_locals h - np))%list) (g_body h) with
              | RNormal e' => RNormal (write_back e hargs e' 0%nat)
              | RPanic => RPanic | RHang => RHang
              | _ => RStuck          (* a helper that returns a value is not called as a statement *)
              end
            else RStuck
          | inl None => RStuck
          | inr EPanic => RPanic | inr EHang => RHang | inr _ => RStuck
          end
        | None => RStuck
        end
      else RStuck
    | _ => RStuck
    end
  | SInc n => match lget e n with MZ z => RNormal (lset e n (MZ (z + 1))) | _ => RStuck end
  | SReturn x => match eval c e x with EV m => RReturn m | EPanic => RPanic | EHang => RHang | EStuck => RStuck end
  | SUnknown _ => RStuck
  end.
End Exec.

(* the executor: fuel bounds the number of statements on one path and the nesting (never the length of the
   data: loops over data are [fold_loop]s) *)
Fixpoint exec (args : list arg) (fuel : nat) (c : mctx) (e : menv) (ss : list mstmt) : mres :=
  match fuel with
  | O => RStuck
  | S f =>
    match ss with
    | [] => RNormal e
    | s :: rest =>
      match exec1 args (exec args f) c e s with
      | RNormal e' => exec args f c e' rest
      | other => other
      end
    end
  end.

Definition exec_fuel : nat := 64.

Definition result_of (r : mres) : out fobj :=
  match r with
  | RReturn (MObj o) => Ret (FO (FObj o))
  | RReturn (MAssocV k v) => Ret (FO (FAssoc k v))
  | RReturn MAssocOutside => Ret FOutside
  | RPanic => Panic
  | _ => Hang
  end.

Definition ctx0 (tk tv : ety) : mctx := {| c_tk := tk; c_tv := tv; c_actual := None; c_argument := None; c_item := MNone |}.

(* THE MEANING OF A REGENERATED CONSTRUCTOR *)
Definition run_ctor (g : gen_ctor) (tk tv : ety) (args : list arg) : out fobj :=
  result_of (exec args exec_fuel (ctx0 tk tv) (repeat MNone (g_locals g)) (g_body g)).

(* the vocabulary the interpreter knows: a case type outside it matches nothing, so a lemma of the late file
   asks that every case type of the regenerated switches is inside *)
Definition known_case_type (t : mty) : bool :=
  match t with
  | TyK | TyV => true
  | TyBasic n => String.eqb n "int" || String.eqb n "uint" || String.eqb n "string"
  | TySlice TyV => true
  | TySlice u => is_assoc_kv u
  | TyMap TyK TyV => true
  | TyNamed _ _ _ =>
    match named t "collection" "NotationLike", named t "agent" "CollatorLike", named t "collection" "Sequential" with
    | Some [], _, _ => true
    | _, Some [TyV], _ => true
    | _, _, Some [TyV] => true
    | _, _, Some [u] => is_assoc_kv u
    | _, _, _ => false
    end
  | _ => false
  end.
Fixpoint case_types (fuel : nat) (ss : list mstmt) : list mty :=
  match fuel with
  | O => []
  | S f =>
    flat_map (fun s =>
      match s with
      | STypeSwitch cases dflt => (flat_map (fun cb => (fst cb ++ case_types f (snd cb))%list) cases ++ match dflt with Some b => case_types f b | None => [] end)%list
      | SArgLoop b => case_types f b
      | SIf _ a b => (case_types f a ++ case_types f b)%list
      | _ => []
      end) ss
  end.
