(* StripInv.v — derivations do not depend on the lines and positions of the tokens: a token
   list with the same types and texts has the same derivations.  This transports a derivation
   found on (type, text) pairs onto the positioned tokens the scanner produces. *)
From Coq Require Import String.
From Verif Require Import Base Params Value Coll Lexer Literals Parser ParserProofs Complete.
Close Scope string_scope.
Close Scope Z_scope.

Definition strip (t : token) : ttype * list Z := (ttype_of t, tval t).

Lemma strip_eq t t' : strip t' = strip t -> ttype_of t' = ttype_of t /\ tval t' = tval t.
Proof. unfold strip. intro H. inversion H. auto. Qed.
Lemma dl_strip c t t' : strip t' = strip t -> dl c t -> dl c t'.
Proof. intros H (A & B). destruct (strip_eq _ _ H) as (E1 & E2). split; congruence. Qed.
Lemma eolt_strip t t' : strip t' = strip t -> eolt t -> eolt t'.
Proof. intros H A. destruct (strip_eq _ _ H) as (E1 & E2). unfold eolt in *. congruence. Qed.
Lemma litv_strip fparse t t' v : strip t' = strip t -> litv fparse t v -> litv fparse t' v.
Proof. intros H (A & B). destruct (strip_eq _ _ H) as (E1 & E2). split; rewrite E1; [|rewrite E2]; auto. Qed.

Ltac cons_in H a r := let E := fresh "E" in let S := fresh "S" in
  apply map_eq_cons in H; destruct H as (a & r & E & S & H); subst.
Ltac app_in H l1 l2 H1 := let E := fresh "E" in
  apply map_eq_app in H; destruct H as (l1 & l2 & E & H1 & H); subst.

Section Strip.
Variable fparse : list Z -> option Z.
Variable crank : val -> val -> option comparison.
Notation same ts' ts := (map strip ts' = map strip ts).

Theorem derivation_strip :
  (forall ts v, dvalue fparse crank ts v -> forall ts', same ts' ts -> dvalue fparse crank ts' v) /\
  (forall ts v, dcoll fparse crank ts v -> forall ts', same ts' ts -> dcoll fparse crank ts' v) /\
  (forall ts l, ditems fparse crank ts l -> forall ts', same ts' ts -> ditems fparse crank ts' l) /\
  (forall ts l, dvtail_i fparse crank ts l -> forall ts', same ts' ts -> dvtail_i fparse crank ts' l) /\
  (forall ts l, dvtail_m fparse crank ts l -> forall ts', same ts' ts -> dvtail_m fparse crank ts' l) /\
  (forall ts kv, dassoc fparse crank ts kv -> forall ts', same ts' ts -> dassoc fparse crank ts' kv) /\
  (forall ts l, datail_i fparse crank ts l -> forall ts', same ts' ts -> datail_i fparse crank ts' l) /\
  (forall ts l, datail_m fparse crank ts l -> forall ts', same ts' ts -> datail_m fparse crank ts' l).
Proof.
  apply derivation_mind.
  - intros t v L ts' H. simpl in H. cons_in H a0 r0. apply map_eq_nil in H. subst.
    apply dv_lit. eapply litv_strip; eauto.
  - intros ts v C IH ts' H. apply dv_coll. auto.
  - intros lb its items rb lp ty rp v B1 DI IH B2 B3 Ty B4 Bu ts' H.
    simpl in H. cons_in H lb' r. rewrite map_app in H. app_in H its' r' Hi.
    simpl in H. cons_in H rb' r1. cons_in H lp' r2. cons_in H ty' r3. cons_in H rp' r4.
    apply map_eq_nil in H. subst.
    destruct (strip_eq _ _ S2) as (Ety & Etv).
    eapply dc; eauto using dl_strip; congruence.
  - intros ts' H. apply map_eq_nil in H. subst. constructor.
  - intros c B ts' H. simpl in H. cons_in H c' r. apply map_eq_nil in H. subst. constructor. eapply dl_strip; eauto.
  - intros ts v ts1 vs DV IHv DT IHt ts' H. rewrite map_app in H. app_in H a b Ha. apply di_vi; auto.
  - intros e ts v ts1 vs Ee DV IHv DT IHt ts' H. simpl in H. cons_in H e' r. rewrite map_app in H. app_in H a b Ha.
    apply di_vm; eauto using eolt_strip.
  - intros ts kv ts1 kvs DA IHa DT IHt ts' H. rewrite map_app in H. app_in H a b Ha. apply di_ai; auto.
  - intros e ts kv ts1 kvs Ee DA IHa DT IHt ts' H. simpl in H. cons_in H e' r. rewrite map_app in H. app_in H a b Ha.
    apply di_am; eauto using eolt_strip.
  - intros ts' H. apply map_eq_nil in H. subst. constructor.
  - intros c ts v ts1 vs Bc DV IHv DT IHt ts' H. simpl in H. cons_in H c' r. rewrite map_app in H. app_in H a b Ha.
    apply vti_cons; eauto using dl_strip.
  - intros e Ee ts' H. simpl in H. cons_in H e' r. apply map_eq_nil in H. subst. constructor. eapply eolt_strip; eauto.
  - intros e ts v ts1 vs Ee DV IHv DT IHt ts' H. simpl in H. cons_in H e' r. rewrite map_app in H. app_in H a b Ha.
    apply vtm_cons; eauto using eolt_strip.
  - intros k kv c ts v L Bc DV IHv ts' H. simpl in H. cons_in H k' r. cons_in H c' r1.
    apply da; eauto using dl_strip, litv_strip.
  - intros ts' H. apply map_eq_nil in H. subst. constructor.
  - intros c ts kv ts1 kvs Bc DA IHa DT IHt ts' H. simpl in H. cons_in H c' r. rewrite map_app in H. app_in H a b Ha.
    apply ati_cons; eauto using dl_strip.
  - intros e Ee ts' H. simpl in H. cons_in H e' r. apply map_eq_nil in H. subst. constructor. eapply eolt_strip; eauto.
  - intros e ts kv ts1 kvs Ee DA IHa DT IHt ts' H. simpl in H. cons_in H e' r. rewrite map_app in H. app_in H a b Ha.
    apply atm_cons; eauto using eolt_strip.
Qed.

Corollary dcoll_strip ts ts' v : dcoll fparse crank ts v -> map strip ts' = map strip ts -> dcoll fparse crank ts' v.
Proof. destruct derivation_strip as (_ & H & _). eauto. Qed.
End Strip.
