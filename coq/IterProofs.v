(* IterProofs.v — properties of the iterator model (Seq.v, iterator.go). *)
From Verif Require Import Base Seq.

Section IterProofs.
Variable A : Type.
Variable zero : A.

Inductive move := MNext | MPrev | MToStart | MToEnd | MToSlot (k : Z).
Definition apply_move (i : iter A) (m : move) : iter A :=
  match m with
  | MNext => snd (get_next zero i)
  | MPrev => snd (get_prev zero i)
  | MToStart => to_start i
  | MToEnd => to_end i
  | MToSlot k => to_slot i k
  end.
Definition walk (i : iter A) (ms : list move) : iter A := fold_left apply_move ms i.
Definition wf (i : iter A) : Prop := it_slot i <= it_size i.

Theorem has_next_iff : forall i : iter A, has_next i = true <-> it_slot i < it_size i.
Proof. intros i. unfold has_next. apply Nat.ltb_lt. Qed.

Theorem has_prev_iff : forall i : iter A, has_prev i = true <-> 0 < it_slot i.
Proof. intros i. unfold has_prev. apply Nat.ltb_lt. Qed.

Theorem make_wf : forall l : list A, wf (it_make l).
Proof. intros l. unfold wf, it_make, it_size. simpl. lia. Qed.

(* the precise clamp computed by to_slot, for every size including 0 *)
Theorem to_slot_spec_exact : forall (i : iter A) k, let n := Z.of_nat (it_size i) in
  Z.of_nat (it_slot (to_slot i k)) =
    (if (n <? k)%Z then n
     else if (0 <=? k)%Z then k
     else if (k <? - n)%Z then Z.min 1 n
     else k + n + 1)%Z.
Proof.
  intros i k n. unfold to_slot. fold n. cbn [it_slot].
  assert (Hn : (0 <= n)%Z) by (unfold n; lia).
  destruct (n <? k)%Z eqn:E1.
  - apply Z.ltb_lt in E1.
    destruct (n <? - n)%Z eqn:E2; [apply Z.ltb_lt in E2; lia|].
    destruct (n <? 0)%Z eqn:E3; [apply Z.ltb_lt in E3; lia|].
    lia.
  - apply Z.ltb_ge in E1.
    destruct (0 <=? k)%Z eqn:E0.
    + apply Z.leb_le in E0.
      destruct (k <? - n)%Z eqn:E2; [apply Z.ltb_lt in E2; lia|].
      destruct (k <? 0)%Z eqn:E3; [apply Z.ltb_lt in E3; lia|].
      lia.
    + apply Z.leb_gt in E0.
      destruct (k <? - n)%Z eqn:E2.
      * apply Z.ltb_lt in E2.
        destruct (- n <? 0)%Z eqn:E3.
        -- apply Z.ltb_lt in E3. lia.
        -- apply Z.ltb_ge in E3. lia.
      * apply Z.ltb_ge in E2.
        destruct (k <? 0)%Z eqn:E3; [|apply Z.ltb_ge in E3; lia].
        lia.
Qed.

Theorem to_slot_spec : forall (i : iter A) k, let n := Z.of_nat (it_size i) in
  Z.of_nat (it_slot (to_slot i k)) =
    (if (n <? k)%Z then n                       (* past the end: clamp to size *)
     else if (0 <=? k)%Z then k                 (* 0..size: as given *)
     else if (k <? - n)%Z then 1                (* before -size: clamps to -size, i.e. slot 1 (0 when empty) *)
     else k + n + 1)%Z                          (* -size..-1: counts from the end *)
  \/ (it_size i = 0 /\ it_slot (to_slot i k) = 0).
Proof.
  intros i k n.
  pose proof (to_slot_spec_exact i k) as H. cbv zeta in H. fold n in H.
  destruct (Nat.eq_dec (it_size i) 0) as [Hz|Hnz].
  - right. split; [exact Hz|].
    assert (Hn : n = 0%Z) by (unfold n; lia).
    rewrite Hn in H.
    destruct (0 <? k)%Z eqn:E1; [lia|].
    destruct (0 <=? k)%Z eqn:E0.
    + apply Z.ltb_ge in E1. apply Z.leb_le in E0. lia.
    + destruct (k <? - 0)%Z eqn:E2.
      * lia.
      * apply Z.leb_gt in E0. apply Z.ltb_ge in E2. lia.
  - left. rewrite H.
    assert (Hn : (1 <= n)%Z) by (unfold n; lia).
    rewrite Z.min_l by lia. reflexivity.
Qed.

Theorem to_slot_wf : forall (i : iter A) k, wf (to_slot i k).
Proof.
  intros i k. unfold wf.
  pose proof (to_slot_spec_exact i k) as H. cbv zeta in H.
  assert (Hs : it_size (to_slot i k) = it_size i) by reflexivity.
  rewrite Hs.
  destruct (Z.of_nat (it_size i) <? k)%Z eqn:E1; [lia|].
  apply Z.ltb_ge in E1.
  destruct (0 <=? k)%Z eqn:E0; [lia|].
  apply Z.leb_gt in E0.
  destruct (k <? - Z.of_nat (it_size i))%Z eqn:E2; [lia|].
  apply Z.ltb_ge in E2. lia.
Qed.

Theorem move_wf : forall i m, wf i -> wf (apply_move i m).
Proof.
  intros i m Hwf. destruct m as [| | | |k]; simpl.
  - unfold get_next. destruct (has_next i) eqn:E; simpl; [|exact Hwf].
    apply has_next_iff in E. unfold wf, it_size in *. simpl. lia.
  - unfold get_prev. destruct (has_prev i) eqn:E; simpl; [|exact Hwf].
    unfold wf, it_size in *. simpl. lia.
  - unfold wf, to_start, it_size. simpl. lia.
  - unfold wf, to_end, it_size. simpl. lia.
  - apply to_slot_wf.
Qed.

Lemma move_vals : forall i m, it_vals (apply_move i m) = it_vals i.
Proof.
  intros i m. destruct m as [| | | |k]; simpl; try reflexivity.
  - unfold get_next. destruct (has_next i); reflexivity.
  - unfold get_prev. destruct (has_prev i); reflexivity.
Qed.

Theorem C17_snapshot : forall i ms, it_vals (walk i ms) = it_vals i.
Proof.
  intros i ms. revert i. unfold walk. induction ms as [|m ms IH]; intros i; simpl.
  - reflexivity.
  - rewrite IH. apply move_vals.
Qed.

Lemma walk_wf : forall ms i, wf i -> wf (walk i ms).
Proof.
  unfold walk. induction ms as [|m ms IH]; intros i Hwf; simpl.
  - exact Hwf.
  - apply IH. apply move_wf. exact Hwf.
Qed.

Theorem C17_slot_inv : forall l ms, it_slot (walk (it_make l) ms) <= length l.
Proof.
  intros l ms.
  pose proof (walk_wf ms (it_make l) (make_wf l)) as H.
  unfold wf, it_size in H. rewrite C17_snapshot in H. exact H.
Qed.

Theorem get_next_some : forall i, wf i -> has_next i = true ->
  fst (get_next zero i) = nth (it_slot i) (it_vals i) zero /\ it_slot (snd (get_next zero i)) = S (it_slot i).
Proof. intros i _ H. unfold get_next. rewrite H. simpl. split; reflexivity. Qed.

Theorem get_next_end : forall i, has_next i = false -> get_next zero i = (zero, i).
Proof. intros i H. unfold get_next. rewrite H. reflexivity. Qed.

Theorem get_prev_some : forall i, has_prev i = true ->
  fst (get_prev zero i) = nth (it_slot i - 1) (it_vals i) zero /\ it_slot (snd (get_prev zero i)) = it_slot i - 1.
Proof. intros i H. unfold get_prev. rewrite H. simpl. split; reflexivity. Qed.

Theorem get_prev_start : forall i, has_prev i = false -> get_prev zero i = (zero, i).
Proof. intros i H. unfold get_prev. rewrite H. reflexivity. Qed.

Theorem next_prev_id : forall i, has_next i = true ->
  let '(v, i') := get_next zero i in fst (get_prev zero i') = v /\ snd (get_prev zero i') = i.
Proof.
  intros i H. unfold get_next. rewrite H.
  unfold get_prev, has_prev. cbn [it_slot it_vals]. simpl Nat.ltb.
  cbn [fst snd]. replace (S (it_slot i) - 1) with (it_slot i) by lia.
  split; [reflexivity|]. destruct i as [vs s]. reflexivity.
Qed.

Theorem prev_next_id : forall i, wf i -> has_prev i = true ->
  let '(v, i') := get_prev zero i in fst (get_next zero i') = v /\ snd (get_next zero i') = i.
Proof.
  intros i Hwf H. unfold get_prev. rewrite H.
  apply has_prev_iff in H.
  unfold get_next, has_next, it_size. cbn [it_slot it_vals].
  unfold wf, it_size in Hwf.
  assert (E : (it_slot i - 1 <? length (it_vals i)) = true) by (apply Nat.ltb_lt; lia).
  rewrite E. cbn [fst snd].
  split; [reflexivity|].
  replace (S (it_slot i - 1)) with (it_slot i) by lia.
  destruct i as [vs s]. reflexivity.
Qed.

Theorem to_start_slot : forall i : iter A, it_slot (to_start i) = 0.
Proof. reflexivity. Qed.

Theorem to_end_slot : forall i : iter A, it_slot (to_end i) = it_size i.
Proof. reflexivity. Qed.

(* enumerating from the start yields exactly the snapshot, in order *)
Fixpoint drain (fuel : nat) (i : iter A) : list A :=
  match fuel with 0 => [] | S f => if has_next i then fst (get_next zero i) :: drain f (snd (get_next zero i)) else [] end.

Lemma drain_from : forall fuel vs s, s <= length vs -> length vs - s < fuel ->
  drain fuel {| it_vals := vs; it_slot := s |} = skipn s vs.
Proof.
  induction fuel as [|f IH]; intros vs s Hle Hf; [lia|].
  cbn [drain]. unfold get_next.
  destruct (has_next {| it_vals := vs; it_slot := s |}) eqn:E.
  - apply has_next_iff in E. unfold it_size in E. cbn [it_slot it_vals] in *.
    cbn [fst snd]. rewrite IH by lia.
    clear IH Hf Hle f. revert s E.
    induction vs as [|x vs IHvs]; intros s E; simpl in E; [lia|].
    destruct s as [|s]; [reflexivity|].
    cbn [nth]. change (skipn (S s) (x :: vs)) with (skipn s vs).
    change (skipn (S (S s)) (x :: vs)) with (skipn (S s) vs).
    apply IHvs. lia.
  - assert (Hge : length vs <= s).
    { destruct (Nat.lt_ge_cases s (length vs)) as [Hlt|Hge]; [|exact Hge].
      assert (E' : has_next {| it_vals := vs; it_slot := s |} = true)
        by (apply has_next_iff; exact Hlt).
      rewrite E' in E. discriminate E. }
    symmetry. apply skipn_all2. exact Hge.
Qed.

Theorem drain_all : forall l, drain (S (length l)) (it_make l) = l.
Proof.
  intros l. unfold it_make. rewrite drain_from by lia. reflexivity.
Qed.

End IterProofs.

Print Assumptions C17_slot_inv.
Print Assumptions next_prev_id.
Print Assumptions drain_all.
