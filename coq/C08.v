(* C08.v — CompareValues is structural equality and agrees with ranking
   Statements only: every theorem is closed by [exact] of a lemma proved elsewhere, and its
   axioms are printed.  Generated once by tools/mkprop.py from the proved lemmas' statements. *)
From Verif Require Import Base Sorter Value SorterProofs CollateProofs.

Theorem C08_compare_never_hangs :
  forall (M : nat) (a b : val), compare0 M a b <> OutOfFuel.
Proof. exact compare0_terminates. Qed.

Theorem C08_rank_never_hangs :
  forall (M : nat) (a b : val), rank0 M a b <> OutOfFuel.
Proof. exact rank0_terminates. Qed.

Theorem C08_compare_is_a_pure_function_within_depth_limit :
  forall (M f d : nat) (a b : val),
         nest a + d <= M -> nest b + d <= M -> fuel_for a b <= f -> compare M f d a b = R (pcomp a b).
Proof. exact compare_pure. Qed.

Theorem C08_compare_of_fresh_collator_is_pure :
  forall (M : nat) (a b : val), nest a <= M -> nest b <= M -> compare0 M a b = R (pcomp a b).
Proof. exact compare0_pure. Qed.

Theorem C08_compare_true_iff_rank_equal :
  forall (M : nat) (a b : val),
         inW M a = true ->
         inW M b = true ->
         same_type a b ->
         (compare0 M a b = R true <-> rank0 M a b = R Eq) /\
         (compare0 M a b = R true \/ compare0 M a b = R false).
Proof. exact compare_iff_rank. Qed.

Theorem C08_compare_iff_rank_needs_same_widths_refuted :
  exists (M : nat) (a b : val),
           inW M a = true /\ inW M b = true /\ rank0 M a b = R Eq /\ compare0 M a b = R false.
Proof. exact compare_iff_rank_refuted. Qed.

Theorem C08_same_type_reflexive :
  forall a : val, wf a = true -> same_type a a.
Proof. exact same_type_refl. Qed.

Theorem C08_same_type_symmetric :
  forall a b : val, same_type a b -> same_type b a.
Proof. exact same_type_sym. Qed.

Theorem C08_compare_reflexive :
  forall (M : nat) (a : val), inW M a = true -> compare0 M a a = R true.
Proof. exact compare_refl. Qed.

Theorem C08_compare_symmetric :
  forall (M : nat) (a b : val),
         inW M a = true -> inW M b = true -> same_type a b -> compare0 M b a = compare0 M a b.
Proof. exact compare_sym. Qed.

Theorem C08_compare_transitive :
  forall (M : nat) (a b c : val),
         inW M a = true ->
         inW M b = true ->
         inW M c = true ->
         same_type a b ->
         same_type b c ->
         compare0 M a b = R true -> compare0 M b c = R true -> compare0 M a c = R true.
Proof. exact compare_trans2. Qed.

Theorem C08_same_type_composes_along_equal_values :
  forall a b c : val,
         wf a = true ->
         wf b = true ->
         wf c = true ->
         prank a b = Eq -> prank b c = Eq -> same_type a b -> same_type b c -> same_type a c.
Proof. exact same_type_trans. Qed.

Theorem C08_sequence_one_element_changed :
  forall (M : nat) (k : skind) (l1 : list val) (x y : val) (l2 : list val),
         inW M (VSeq k (l1 ++ x :: l2)) = true ->
         inW M (VSeq k (l1 ++ y :: l2)) = true ->
         compare0 M (VSeq k (l1 ++ x :: l2)) (VSeq k (l1 ++ y :: l2)) = compare0 M x y.
Proof. exact compare_seq_one_change. Qed.

Theorem C08_sequence_one_element_changed_unequal :
  forall (M : nat) (k : skind) (l1 : list val) (x y : val) (l2 : list val),
         inW M (VSeq k (l1 ++ x :: l2)) = true ->
         inW M (VSeq k (l1 ++ y :: l2)) = true ->
         compare0 M x y = R false ->
         compare0 M (VSeq k (l1 ++ x :: l2)) (VSeq k (l1 ++ y :: l2)) = R false.
Proof. exact compare_seq_one_change_unequal. Qed.

Theorem C08_sequence_element_added_or_removed :
  forall (M : nat) (k : skind) (l1 l2 : list val),
         length l1 <> length l2 ->
         nest (VSeq k l1) <= M ->
         nest (VSeq k l2) <= M -> compare0 M (VSeq k l1) (VSeq k l2) = R false.
Proof. exact compare_seq_length. Qed.

Theorem C08_different_types_or_kinds_unequal :
  forall (M : nat) (a b : val), tyrank a <> tyrank b -> compare0 M a b = R false.
Proof. exact compare_type_mismatch. Qed.

Theorem C08_map_insertion_order_irrelevant :
  forall (M : nat) (m : mkind) (ks vs ks' vs' : list val),
         is_map_kind m = true ->
         Permutation.Permutation (zipkv ks vs) (zipkv ks' vs') ->
         inW M (VMapping m ks vs) = true ->
         inW M (VMapping m ks' vs') = true ->
         compare0 M (VMapping m ks vs) (VMapping m ks' vs') = R true /\
         rank0 M (VMapping m ks vs) (VMapping m ks' vs') = R Eq.
Proof. exact compare_map_order_free. Qed.

Theorem C08_map_entry_added_or_removed :
  forall (M : nat) (m : mkind) (ks vs ks' vs' : list val),
         is_map_kind m = true ->
         length (zipkv ks vs) <> length (zipkv ks' vs') ->
         nest (VMapping m ks vs) <= M ->
         nest (VMapping m ks' vs') <= M ->
         compare0 M (VMapping m ks vs) (VMapping m ks' vs') = R false.
Proof. exact compare_map_length. Qed.

Theorem C08_map_one_value_changed :
  forall (M : nat) (m : mkind) (k : val) (ks : list val) (v v' : val) (vs : list val),
         is_map_kind m = true ->
         inW M (VMapping m (k :: ks) (v :: vs)) = true ->
         inW M (VMapping m (k :: ks) (v' :: vs)) = true ->
         compare0 M (VMapping m (k :: ks) (v :: vs)) (VMapping m (k :: ks) (v' :: vs)) =
         compare0 M v v'.
Proof. exact compare_map_one_value_changed. Qed.

Theorem C08_map_one_key_renamed :
  forall (M : nat) (m : mkind) (k k' : val) (ks : list val) (v : val) (vs : list val),
         is_map_kind m = true ->
         inW M (VMapping m (k :: ks) (v :: vs)) = true ->
         inW M (VMapping m (k' :: ks) (v :: vs)) = true ->
         keq k k' = false ->
         compare0 M (VMapping m (k :: ks) (v :: vs)) (VMapping m (k' :: ks) (v :: vs)) = R false.
Proof. exact compare_map_key_renamed. Qed.

Theorem C08_compare_reflexive_needs_no_nan_keys_refuted :
  exists (M : nat) (a : val), inU M a = true /\ rank0 M a a = R Eq /\ compare0 M a a = R false.
Proof. exact compare_refl_needs_no_nan_keys_refuted. Qed.

Theorem C08_depth_limit_panic_on_nested_chain :
  forall M : nat,
         rank0 M (nestk (S M)) (nestk (S M)) = DepthPanic /\
         compare0 M (nestk (S M)) (nestk (S M)) = DepthPanic.
Proof. exact depth_panics. Qed.

Theorem C08_depth_limit_panic_rank_any_value :
  forall (M : nat) (a : val),
         wf0 a = true -> bal a = true -> M < nest a -> rank0 M a a = DepthPanic.
Proof. exact rank0_self_panics. Qed.

Theorem C08_depth_limit_panic_compare_any_value :
  forall (M : nat) (a : val),
         wf a = true -> bal a = true -> M < nest a -> compare0 M a a = DepthPanic.
Proof. exact compare0_self_panics. Qed.

Theorem C08_depth_limit_dichotomy :
  forall (M : nat) (a : val),
         wf a = true ->
         bal a = true ->
         (nest a <= M -> rank0 M a a = R Eq /\ compare0 M a a = R true) /\
         (M < nest a -> rank0 M a a = DepthPanic /\ compare0 M a a = DepthPanic).
Proof. exact self_limit_dichotomy. Qed.

Theorem C08_calls_independent_after_panic :
  forall (M : nat) (before : list call) (c : call) (after : list call),
         nth (length before) (run_calls M (before ++ c :: after)) (inl OutOfFuel) = call_result M c.
Proof. exact after_panic_ok. Qed.

Theorem C08_acyclic_values_compare_correctly_after_panic :
  forall (M : nat) (a : val),
         inW M a = true ->
         run_calls M
           [CallCompare (nestk (S M)) (nestk (S M)); CallRank (nestk (S M)) (nestk (S M));
            CallCompare a a; CallRank a a] =
         [inr DepthPanic; inl DepthPanic; inr (R true); inl (R Eq)].
Proof. exact after_depth_panic. Qed.

(* ---- the hypotheses are satisfiable by concrete, non-trivial values ---- *)
Open Scope Z_scope.
Definition ex8_map : val :=
  VMapping MGoMap [VStr [98]; VStr [97]; VInt 0 7; VFloat 64 4607182418800017408; VNil]
                  [VSeq KList [VInt 0 1; VFloat 64 0]; VNil; VSeq KSet [VBool true]; VNilMap; VByte 3].
Definition ex8_map_permuted : val :=
  VMapping MGoMap [VStr [97]; VStr [98]; VInt 0 7; VFloat 64 4607182418800017408; VNil]
                  [VNil; VSeq KList [VInt 0 1; VFloat 64 0]; VSeq KSet [VBool true]; VNilMap; VByte 3].
Definition ex8_deep : val :=
  VSeq KList [VMapping MMap [VInt 64 1; VInt 64 2] [VSeq KSlice [VStr [1; 2]; VNilSlice]; ex8_map];
              VAssoc (VStr []) (VMapping MCatalog [VRune 3] [VComplex 128 0 0 0 0]);
              VSeq KQueue [VUint 16 65535; VNil; VPtr 1 5; VFloat 32 9221120237041090560]].
Definition ex8_deep_changed : val :=
  VSeq KList [VMapping MMap [VInt 64 1; VInt 64 2] [VSeq KSlice [VStr [1; 2]; VNilSlice]; ex8_map];
              VAssoc (VStr []) (VMapping MCatalog [VRune 3] [VComplex 128 0 0 0 0]);
              VSeq KQueue [VUint 16 65534; VNil; VPtr 1 5; VFloat 32 9221120237041090560]].

Example C08_ex_in_universe :
  inW 16%nat ex8_deep = true /\ inW 16%nat ex8_map = true /\ inW 16%nat ex8_map_permuted = true /\
  inW 16%nat ex8_deep_changed = true /\ bal ex8_deep = true /\ nest ex8_deep = 4%nat.
Proof. repeat split; vm_compute; reflexivity. Qed.
Example C08_ex_same_type_self : same_type ex8_deep ex8_deep.
Proof. apply same_type_refl. vm_compute. reflexivity. Qed.
(* two different values of one type *)
Example C08_ex_same_type_different :
  same_type (VSeq KList [VInt 8 1; VStr [1]]) (VSeq KList [VInt 8 1; VStr [2]]).
Proof.
  constructor.
  - intros L; discriminate L.
  - intros k1 v1 k2 v2 V; discriminate V.
  - intros xs ys V1 V2 _. inversion V1; inversion V2; subst.
    constructor; [|constructor; [|constructor]].
    + apply same_type_refl. reflexivity.
    + constructor; [intros; reflexivity | intros ? ? ? ? V; discriminate V
                   | intros ? ? V; discriminate V | intros ? ? V; discriminate V].
  - intros m1 m2 V; discriminate V.
Qed.
Example C08_ex_permutation :
  Permutation.Permutation
    (zipkv [VStr [98]; VStr [97]; VInt 0 7; VFloat 64 4607182418800017408; VNil]
           [VSeq KList [VInt 0 1; VFloat 64 0]; VNil; VSeq KSet [VBool true]; VNilMap; VByte 3])
    (zipkv [VStr [97]; VStr [98]; VInt 0 7; VFloat 64 4607182418800017408; VNil]
           [VNil; VSeq KList [VInt 0 1; VFloat 64 0]; VSeq KSet [VBool true]; VNilMap; VByte 3]).
Proof. simpl. apply Permutation.perm_swap. Qed.
Example C08_ex_model_agrees :
  compare0 16%nat ex8_map ex8_map_permuted = R true /\ rank0 16%nat ex8_map ex8_map_permuted = R Eq /\
  compare0 16%nat ex8_deep ex8_deep = R true /\ compare0 16%nat ex8_deep ex8_deep_changed = R false /\
  rank0 16%nat ex8_deep ex8_deep_changed = R Gt /\
  compare0 3%nat ex8_deep ex8_deep = DepthPanic /\ rank0 3%nat ex8_deep ex8_deep = DepthPanic.
Proof. repeat split; vm_compute; reflexivity. Qed.

Print Assumptions C08_compare_never_hangs.
Print Assumptions C08_rank_never_hangs.
Print Assumptions C08_compare_is_a_pure_function_within_depth_limit.
Print Assumptions C08_compare_of_fresh_collator_is_pure.
Print Assumptions C08_compare_true_iff_rank_equal.
Print Assumptions C08_compare_iff_rank_needs_same_widths_refuted.
Print Assumptions C08_same_type_reflexive.
Print Assumptions C08_same_type_symmetric.
Print Assumptions C08_compare_reflexive.
Print Assumptions C08_compare_symmetric.
Print Assumptions C08_compare_transitive.
Print Assumptions C08_same_type_composes_along_equal_values.
Print Assumptions C08_sequence_one_element_changed.
Print Assumptions C08_sequence_one_element_changed_unequal.
Print Assumptions C08_sequence_element_added_or_removed.
Print Assumptions C08_different_types_or_kinds_unequal.
Print Assumptions C08_map_insertion_order_irrelevant.
Print Assumptions C08_map_entry_added_or_removed.
Print Assumptions C08_map_one_value_changed.
Print Assumptions C08_map_one_key_renamed.
Print Assumptions C08_compare_reflexive_needs_no_nan_keys_refuted.
Print Assumptions C08_depth_limit_panic_on_nested_chain.
Print Assumptions C08_depth_limit_panic_rank_any_value.
Print Assumptions C08_depth_limit_panic_compare_any_value.
Print Assumptions C08_depth_limit_dichotomy.
Print Assumptions C08_calls_independent_after_panic.
Print Assumptions C08_acyclic_values_compare_correctly_after_panic.
