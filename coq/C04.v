(* C04.v — Queue is a linearizable FIFO with bounded back-pressure under every schedule
   Statements only: every theorem is closed by [exact] of a lemma proved in ConcProofs.v, and
   its axioms are printed.  All statements are about the interleaving model Conc.v (validated
   against the Go code by ./check C04) and quantify over all programs (thread lists), all
   schedules, any number of queues and threads and any capacities.
   [initial c0]: every queue is [mkq cap], every thread is idle with no results.
   [reachable c0 c]: [exists sched, run c0 sched = c]. *)
From Verif Require Import Base Conc ConcProofs.
From Coq Require Import Permutation.
Open Scope nat_scope.

(* ---- the invariant ---- *)

(* Q_inv c q :  qtok <= qcap
             /\ length qvals = qtok + #threads in PSend q + #PPop q + #PDiscard q + #orphans q
             /\ qapp = qpop ++ qvals                                                        *)
Theorem C04_step_preserves_inv :
  forall c t c', Inv c -> step c t = Some c' -> Inv c'.
Proof. exact step_preserves_inv. Qed.

Theorem C04_reachable_inv :
  forall c0 c, initial c0 -> reachable c0 c -> forall q, q < length (queues c) -> Q_inv c q.
Proof. exact reachable_Q_inv. Qed.

Theorem C04_initially_open_and_empty :
  forall c0 q, initial c0 -> qclosed (getq c0 q) = false /\ qtok (getq c0 q) = 0.
Proof. exact initial_open. Qed.

Theorem C04_closed_is_monotone :
  forall c s q, qclosed (getq c q) = true -> qclosed (getq (run c s) q) = true.
Proof. exact run_closed_mono. Qed.

Theorem C04_no_token_published_after_close :
  forall c t c' q, step c t = Some c' -> qclosed (getq c q) = true ->
    qtok (getq c' q) <= qtok (getq c q).
Proof. exact step_closed_tok. Qed.

Theorem C04_capacity_never_changes :
  forall c t c' q, step c t = Some c' -> qcap (getq c' q) = qcap (getq c q).
Proof. exact step_cap. Qed.

(* ---- FIFO ---- *)

(* the pop history is a prefix of the append history; what remains is the list *)
Theorem C04_fifo :
  forall c0 c q, initial c0 -> reachable c0 c ->
    qapp (getq c q) = qpop (getq c q) ++ qvals (getq c q).
Proof. exact fifo_prefix. Qed.

Theorem C04_fifo_append_step :
  forall c t c' q v,
    at_add c t q v -> q < length (queues c) -> step c t = Some c' ->
    qapp (getq c' q) = qapp (getq c q) ++ [v] /\
    qvals (getq c' q) = qvals (getq c q) ++ [v] /\
    qpop (getq c' q) = qpop (getq c q) /\
    qtok (getq c' q) = qtok (getq c q) /\
    tph (gett c' t) = PSend q /\
    (forall q0, q0 <> q -> getq c' q0 = getq c q0).
Proof. exact append_step. Qed.

Theorem C04_fifo_only_append_steps_append :
  forall c t c' q0, step c t = Some c' -> (forall q v, ~ at_add c t q v) ->
    qapp (getq c' q0) = qapp (getq c q0).
Proof. exact non_append_step. Qed.

Theorem C04_fifo_pop_step :
  forall c0 c t c' q,
    initial c0 -> reachable c0 c -> at_pop c t q -> step c t = Some c' ->
    exists v vs,
      qvals (getq c q) = v :: vs /\ qvals (getq c' q) = vs /\
      qpop (getq c' q) = qpop (getq c q) ++ [v] /\
      qapp (getq c' q) = qapp (getq c q) /\
      qtok (getq c' q) = qtok (getq c q) /\
      tres (gett c' t) = tres (gett c t) ++ [RHead v true] /\
      tph (gett c' t) = PIdle /\
      (forall q0, q0 <> q -> getq c' q0 = getq c q0).
Proof. exact r_pop_step. Qed.

Theorem C04_fifo_delivered_value_is_the_head :
  forall c0 c t c' v,
    initial c0 -> reachable c0 c -> step c t = Some c' ->
    tres (gett c' t) = tres (gett c t) ++ [RHead v true] ->
    exists q vs, tph (gett c t) = PPop q /\ qvals (getq c q) = v :: vs /\
      qvals (getq c' q) = vs /\ qpop (getq c' q) = qpop (getq c q) ++ [v].
Proof. exact r_ok_true_step. Qed.

Theorem C04_fifo_histories_only_grow :
  forall c s q, (exists l, qapp (getq (run c s) q) = qapp (getq c q) ++ l).
Proof. exact run_app_mono. Qed.

Theorem C04_fifo_pop_history_only_grows :
  forall c s q, (exists l, qpop (getq (run c s) q) = qpop (getq c q) ++ l).
Proof. exact run_pop_mono. Qed.

Theorem C04_fifo_realtime_add :
  forall c1 t1 c1' q v s t2 c2' w,
    q < length (queues c1) ->
    at_add c1 t1 q v -> step c1 t1 = Some c1' ->
    at_add (run c1' s) t2 q w -> step (run c1' s) t2 = Some c2' ->
    exists l1 l2, qapp (getq c2' q) = l1 ++ [v] ++ l2 ++ [w].
Proof. exact fifo_realtime_add. Qed.

Theorem C04_fifo_realtime_pop :
  forall c0 c1 t1 c1' q s t2 c2',
    initial c0 -> reachable c0 c1 -> at_pop c1 t1 q -> step c1 t1 = Some c1' ->
    at_pop (run c1' s) t2 q -> step (run c1' s) t2 = Some c2' ->
    exists v w l1 l2,
      qpop (getq c2' q) = l1 ++ [v] ++ l2 ++ [w] /\
      (exists r, tres (gett c1' t1) = r ++ [RHead v true]) /\
      (exists r, tres (gett c2' t2) = r ++ [RHead w true]).
Proof. exact r_fifo_realtime_pop. Qed.

(* ---- panics ---- *)

Theorem C04_no_pop_panic :
  forall c0 c t c' q,
    initial c0 -> reachable c0 c -> step c t = Some c' ->
    tph (gett c t) = PPop q \/ tph (gett c t) = PDiscard q ->
    tph (gett c' t) <> PStuck.
Proof. exact r_no_pop_panic. Qed.

Theorem C04_panic_only_by_add_or_close_on_closed_queue :
  forall c0 c t c',
    initial c0 -> reachable c0 c -> step c t = Some c' -> tph (gett c' t) = PStuck ->
    (exists q v rest, tph (gett c t) = PSend q /\ tcalls (gett c t) = CAdd q v :: rest /\
                      qclosed (getq c q) = true) \/
    (exists q rest, tph (gett c t) = PIdle /\ tcalls (gett c t) = CClose q :: rest /\
                    qclosed (getq c q) = true).
Proof. exact r_stuck_only_by. Qed.

(* ---- ok = false ---- *)

Theorem C04_ok_false :
  forall c t c' v,
    step c t = Some c' -> tres (gett c' t) = tres (gett c t) ++ [RHead v false] ->
    exists q rest, tph (gett c t) = PIdle /\ tcalls (gett c t) = CRemoveHead q :: rest /\
      qclosed (getq c q) = true /\ qtok (getq c q) = 0 /\ v = 0%Z.
Proof. exact ok_false_step. Qed.

Theorem C04_ok_false_drained :
  forall c0 c t c' v q rest,
    initial c0 -> reachable c0 c -> step c t = Some c' ->
    tres (gett c' t) = tres (gett c t) ++ [RHead v false] ->
    tcalls (gett c t) = CRemoveHead q :: rest -> q < length (queues c) ->
    length (qvals (getq c q)) =
      cnt (in_send q) (threads c) + cnt (in_pop q) (threads c) +
      cnt (in_disc q) (threads c) + cnt (orphan q) (threads c).
Proof. exact r_ok_false_drained. Qed.

(* ---- back-pressure and observers ---- *)

Theorem C04_backpressure :
  forall c t c',
    step c t = Some c' -> tres (gett c' t) = tres (gett c t) ++ [RAdded] ->
    exists q, tph (gett c t) = PSend q /\
      qclosed (getq c q) = false /\ qtok (getq c q) < qcap (getq c q) /\
      qtok (getq c' q) = S (qtok (getq c q)) /\ qvals (getq c' q) = qvals (getq c q).
Proof. exact added_step. Qed.

Theorem C04_backpressure_size :
  forall c0 c t c' n,
    initial c0 -> reachable c0 c -> step c t = Some c' ->
    tres (gett c' t) = tres (gett c t) ++ [RSize n] ->
    exists q rest, tcalls (gett c t) = CGetSize q :: rest /\
      n = qtok (getq c q) /\ n <= qcap (getq c q).
Proof. exact r_size_step. Qed.

Theorem C04_backpressure_empty :
  forall c t c' b,
    step c t = Some c' -> tres (gett c' t) = tres (gett c t) ++ [REmpty b] ->
    exists q rest, tcalls (gett c t) = CIsEmpty q :: rest /\
      (b = true <-> qtok (getq c q) = 0).
Proof. exact empty_step. Qed.

Theorem C04_backpressure_array :
  forall c0 c t c' l,
    initial c0 -> reachable c0 c -> step c t = Some c' ->
    tres (gett c' t) = tres (gett c t) ++ [RArray l] ->
    exists q rest, tcalls (gett c t) = CAsArray q :: rest /\
      l = qvals (getq c q) /\ qapp (getq c q) = qpop (getq c q) ++ l.
Proof. exact r_array_step. Qed.

(* ---- exactly once ---- *)

Theorem C04_exactly_once :
  forall c0 c cap,
    initial c0 -> queues c0 = [mkq cap] -> no_removeall c0 -> reachable c0 c ->
    Permutation (delivered c) (qpop (getq c 0)).
Proof. exact exactly_once_single. Qed.

Theorem C04_exactly_once_all_queues :
  forall c0 c, initial c0 -> no_removeall c0 -> reachable c0 c ->
    Permutation (delivered c) (popped c).
Proof. exact exactly_once. Qed.

Theorem C04_exactly_once_final :
  forall c0 c q,
    initial c0 -> reachable c0 c -> final c = true -> no_stuck c ->
    qapp (getq c q) = qpop (getq c q) ++ qvals (getq c q) /\
    length (qvals (getq c q)) = qtok (getq c q).
Proof. exact final_accounting. Qed.

(* with RemoveAll anywhere in the program: nothing is delivered that was not popped and no
   popped value is delivered twice; the other popped values are those RemoveAll discarded *)
Theorem C04_at_most_once :
  forall c0 c, initial c0 -> reachable c0 c ->
    exists discarded, Permutation (delivered c ++ discarded) (popped c).
Proof. exact at_most_once. Qed.

(* ---- RemoveAll ---- *)

Theorem C04_removeall :
  forall c0 c t c' q rest,
    initial c0 -> reachable c0 c -> step c t = Some c' ->
    tcalls (gett c t) = CRemoveAll q :: rest ->
    (forall q0, qcap (getq c' q0) = qcap (getq c q0) /\
                qclosed (getq c' q0) = qclosed (getq c q0) /\
                qapp (getq c' q0) = qapp (getq c q0)) /\
    (forall q0, q0 <> q -> getq c' q0 = getq c q0) /\
    ( (tph (gett c t) = PIdle /\ qtok (getq c q) = 0 /\
       c' = sett c t (finish (gett c t) rest RCleared))
      \/ (tph (gett c t) = PIdle /\ 0 < qtok (getq c q) /\
          qtok (getq c' q) = qtok (getq c q) - 1 /\ qvals (getq c' q) = qvals (getq c q) /\
          qpop (getq c' q) = qpop (getq c q) /\
          tph (gett c' t) = PDiscard q /\ tcalls (gett c' t) = tcalls (gett c t))
      \/ (tph (gett c t) = PDiscard q /\
          exists v vs, qvals (getq c q) = v :: vs /\ qvals (getq c' q) = vs /\
            qpop (getq c' q) = qpop (getq c q) ++ [v] /\ qtok (getq c' q) = qtok (getq c q) /\
            tph (gett c' t) = PIdle /\ tcalls (gett c' t) = tcalls (gett c t)) ).
Proof. exact r_removeall_step. Qed.

(* ---- non-vacuity: concrete programs satisfying the hypotheses ---- *)

(* 2 producers x 2 values, a closer behind the wait group, 2 consumers, capacity 1 *)
Definition ex_c0 : config :=
  {| queues := [mkq 1]; wg := 2;
     threads := [client [CAdd 0 1%Z; CAdd 0 2%Z; CDone]; client [CAdd 0 3%Z; CAdd 0 4%Z; CDone];
                 client [CWait; CClose 0]; consumer 0; consumer 0] |}.
Definition ex_sched : list nat := concat (repeat [0; 1; 2; 3; 4] 7).
Definition ex_at (n : nat) : config := run ex_c0 (firstn n ex_sched).

Example ex_initial : initial ex_c0.
Proof. split; [exists [1]; reflexivity | repeat constructor]. Qed.

Example ex_reachable : forall n, reachable ex_c0 (ex_at n).
Proof. intros n; exists (firstn n ex_sched); reflexivity. Qed.

Example ex_no_removeall : no_removeall ex_c0.
Proof.
  repeat (constructor;
          [split; [intros ?; discriminate | intros ? Hin; simpl in Hin; intuition discriminate]|]).
  constructor.
Qed.

Example ex_run :
  final (ex_at 35) = true /\
  qapp (getq (ex_at 35) 0) = [1; 3; 2; 4]%Z /\ qpop (getq (ex_at 35) 0) = [1; 3; 2; 4]%Z /\
  qvals (getq (ex_at 35) 0) = [] /\ delivered (ex_at 35) = [1; 2; 3; 4]%Z /\
  map tph (threads (ex_at 35)) = [PIdle; PIdle; PIdle; PIdle; PIdle].
Proof. vm_compute. repeat split. Qed.

Example ex_no_stuck : no_stuck (ex_at 35).
Proof. vm_compute. repeat constructor; discriminate. Qed.

Example ex_append_step : at_add ex_c0 0 0 1%Z /\ 0 < length (queues ex_c0) /\ step ex_c0 0 <> None.
Proof. split; [split; [reflexivity | eexists; reflexivity] | split; [simpl; lia | discriminate]]. Qed.

Example ex_send_step : exists c',
  step (ex_at 5) 0 = Some c' /\ tres (gett c' 0) = tres (gett (ex_at 5) 0) ++ [RAdded].
Proof. eexists; split; vm_compute; reflexivity. Qed.

Example ex_pop_step : at_pop (ex_at 13) 3 0 /\ exists c',
  step (ex_at 13) 3 = Some c' /\ tres (gett c' 3) = tres (gett (ex_at 13) 3) ++ [RHead 1 true].
Proof. split; [reflexivity | eexists; split; vm_compute; reflexivity]. Qed.

Example ex_realtime_add :
  at_add ex_c0 0 0 1%Z /\ step ex_c0 0 = Some (ex_at 1) /\
  at_add (run (ex_at 1) []) 1 0 3%Z /\ step (run (ex_at 1) []) 1 <> None.
Proof.
  split; [split; [reflexivity | eexists; reflexivity]|].
  split; [reflexivity|]. split; [split; [reflexivity | eexists; reflexivity] | discriminate].
Qed.

Example ex_realtime_pop :
  at_pop (ex_at 13) 3 0 /\ step (ex_at 13) 3 = Some (ex_at 14) /\
  at_pop (run (ex_at 14) (firstn 5 (skipn 14 ex_sched))) 4 0 /\
  step (run (ex_at 14) (firstn 5 (skipn 14 ex_sched))) 4 <> None.
Proof. vm_compute. repeat split; discriminate. Qed.

Example ex_ok_false_step : exists c',
  step (ex_at 33) 3 = Some c' /\
  tres (gett c' 3) = tres (gett (ex_at 33) 3) ++ [RHead 0 false] /\
  tcalls (gett (ex_at 33) 3) = [CRemoveHead 0].
Proof. eexists; split; [|split]; vm_compute; reflexivity. Qed.

(* panics: AddValue after CloseQueue, and a second CloseQueue *)
Definition ex_c2 : config :=
  {| queues := [mkq 1]; wg := 0;
     threads := [client [CClose 0; CAdd 0 7%Z]; client [CClose 0]] |}.

Example ex_c2_initial : initial ex_c2.
Proof. split; [exists [1]; reflexivity | repeat constructor]. Qed.

Example ex_panic_add_on_closed : exists c',
  step (run ex_c2 [0; 0]) 0 = Some c' /\ tph (gett c' 0) = PStuck /\
  tph (gett (run ex_c2 [0; 0]) 0) = PSend 0.
Proof. eexists; split; [|split]; vm_compute; reflexivity. Qed.

Example ex_panic_close_of_closed : exists c',
  step (run ex_c2 [0]) 1 = Some c' /\ tph (gett c' 1) = PStuck.
Proof. eexists; split; vm_compute; reflexivity. Qed.

(* observers and RemoveAll *)
Definition ex_c3 : config :=
  {| queues := [mkq 2]; wg := 0;
     threads := [client [CAdd 0 5%Z; CAdd 0 6%Z; CGetSize 0; CIsEmpty 0; CAsArray 0;
                         CRemoveAll 0; CIsEmpty 0]] |}.

Example ex_c3_initial : initial ex_c3.
Proof. split; [exists [2]; reflexivity | repeat constructor]. Qed.

Example ex_observers :
  tres (gett (run ex_c3 (repeat 0 13)) 0) =
  [RAdded; RAdded; RSize 2; REmpty false; RArray [5; 6]%Z; RCleared; REmpty true] /\
  qpop (getq (run ex_c3 (repeat 0 13)) 0) = [5; 6]%Z.
Proof. vm_compute. split; reflexivity. Qed.

Example ex_size_step : exists c',
  step (run ex_c3 (repeat 0 4)) 0 = Some c' /\
  tres (gett c' 0) = tres (gett (run ex_c3 (repeat 0 4)) 0) ++ [RSize 2].
Proof. eexists; split; vm_compute; reflexivity. Qed.

Example ex_empty_step : exists c',
  step (run ex_c3 (repeat 0 5)) 0 = Some c' /\
  tres (gett c' 0) = tres (gett (run ex_c3 (repeat 0 5)) 0) ++ [REmpty false].
Proof. eexists; split; vm_compute; reflexivity. Qed.

Example ex_array_step : exists c',
  step (run ex_c3 (repeat 0 6)) 0 = Some c' /\
  tres (gett c' 0) = tres (gett (run ex_c3 (repeat 0 6)) 0) ++ [RArray [5; 6]%Z].
Proof. eexists; split; vm_compute; reflexivity. Qed.

Example ex_removeall_steps :
  (exists rest, tcalls (gett (run ex_c3 (repeat 0 7)) 0) = CRemoveAll 0 :: rest) /\
  tph (gett (run ex_c3 (repeat 0 8)) 0) = PDiscard 0 /\
  step (run ex_c3 (repeat 0 8)) 0 <> None /\
  qclosed (getq (run ex_c3 (repeat 0 12)) 0) = false /\ qcap (getq (run ex_c3 (repeat 0 12)) 0) = 2.
Proof. vm_compute. repeat split; try discriminate. eexists; reflexivity. Qed.

(* closed is monotone: after the closer ran the queue stays closed *)
Example ex_closed : qclosed (getq (ex_at 33) 0) = true.
Proof. vm_compute. reflexivity. Qed.

Print Assumptions C04_step_preserves_inv.
Print Assumptions C04_reachable_inv.
Print Assumptions C04_initially_open_and_empty.
Print Assumptions C04_closed_is_monotone.
Print Assumptions C04_no_token_published_after_close.
Print Assumptions C04_capacity_never_changes.
Print Assumptions C04_fifo.
Print Assumptions C04_fifo_append_step.
Print Assumptions C04_fifo_only_append_steps_append.
Print Assumptions C04_fifo_pop_step.
Print Assumptions C04_fifo_delivered_value_is_the_head.
Print Assumptions C04_fifo_histories_only_grow.
Print Assumptions C04_fifo_pop_history_only_grows.
Print Assumptions C04_fifo_realtime_add.
Print Assumptions C04_fifo_realtime_pop.
Print Assumptions C04_no_pop_panic.
Print Assumptions C04_panic_only_by_add_or_close_on_closed_queue.
Print Assumptions C04_ok_false.
Print Assumptions C04_ok_false_drained.
Print Assumptions C04_backpressure.
Print Assumptions C04_backpressure_size.
Print Assumptions C04_backpressure_empty.
Print Assumptions C04_backpressure_array.
Print Assumptions C04_exactly_once.
Print Assumptions C04_exactly_once_all_queues.
Print Assumptions C04_exactly_once_final.
Print Assumptions C04_at_most_once.
Print Assumptions C04_removeall.
